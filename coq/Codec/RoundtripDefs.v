(* C08 — export -> import -> export with the import's renumbering stages.
   Model only, no proofs.  Builds on Codec/MeshGLDefs.v.

   A triangle is kept DENORMALISED: besides its vertex / property-vertex indices
   (base : itri) every corner carries the identifier of its position (cposs) and
   of its property row (cvals; equal identifiers <=> exactly equal rows).  Every
   stage of the import renumbers indices and leaves these payloads alone, which
   is what "lossless up to renumbering" means:

     export      stable run sort; property-vertex duplication (dup) gives every
                 corner (vertex v, property vertex p) the output index
                 lookup(v,p); merge vectors
     import      merge map p2v on the output indices; degenerate-triangle drop;
                 runs -> triRef (import_tris); DedupePropVerts = a map q on
                 output indices; SortGeometry = vertex permutation sigma,
                 property-vertex compaction tau, face permutation perm
                 (oracles), tangents travelling with their face (ReindexFace)
     export      again.

   NOT modelled (hypotheses of the theorems, exercised by harness c08_roundtrip):
   CreateHalfedges' pairing and its removal of opposed triangle pairs,
   IsManifold, CleanupTopology being a no-op on an export of a clean Impl,
   SetNormalsAndCoplanar (coplanarID / normal channels). *)
From Coq Require Import ZArith List Bool.
From MV Require Import Codec.MeshGLDefs.
Import ListNotations.
Local Open Scope Z_scope.

Record rtri := mkRT { base : itri; cposs : list Z; cvals : list Z }.

(* stable run sort on the richer triangles: same key as MeshGLDefs.isort *)
Definition rkey_le (a b : rtri) : bool := key_le (base a) (base b).
Fixpoint rinsert (x : rtri) (l : list rtri) : list rtri :=
  match l with
  | [] => [x]
  | y :: r => if rkey_le x y then x :: y :: r else y :: rinsert x r
  end.
Fixpoint rsort (l : list rtri) : list rtri :=
  match l with [] => [] | x :: r => rinsert x (rsort r) end.

Record rimpl := mkRI { rtris : list rtri; rrel : Z -> rel }.

(* what the property compares, per triangle: (originalID, transform, flags, faceID),
   corner positions, corner property rows, edge tangents *)
Definition rec_of (rl : Z -> rel) (t : rtri) : (Z * Z * Z * Z) * list Z * list Z * list Z :=
  ((rOrig (rl (meshID (base t))), rXform (rl (meshID (base t))), rFlags (rl (meshID (base t))), face_out (base t)),
   cposs t, cvals t, ttan (base t)).

Definition export_recs (s : rimpl) : list ((Z * Z * Z * Z) * list Z * list Z * list Z) :=
  map (rec_of (rrel s)) (rsort (rtris s)).

(* ---- export: output vertex indices ---- *)
Definition corners_of (l : list rtri) : list (Z * Z) :=
  flat_map (fun t => combine (tverts (base t)) (tprops (base t))) l.

(* the output index the duplication loop gave corner (v, p): its bin entry *)
Definition lookup (st : dstate) (v p : Z) : Z :=
  match find_bin v p (bins st) with Some i => i | None => -1 end.

Definition out_idx (st : dstate) (t : rtri) : list Z :=
  map (fun vp => lookup st (fst vp) (snd vp)) (combine (tverts (base t)) (tprops (base t))).

(* ---- import of that export ---- *)
Section Import.
  Variable sigma tau q : Z -> Z.            (* SortVerts, CompactProps, DedupePropVerts *)
  Variable perm : list rtri -> list rtri.    (* SortFaces / GatherFaces *)
  Variable startID : Z.

  Definition nondeg (l : list Z) : bool :=
    match l with [a; b; c] => negb (a =? b) && negb (b =? c) && negb (c =? a) | _ => false end.

  (* one exported triangle (source t, its imported triRef ib) after the merge map,
     DedupePropVerts and the renumberings; tangents and payloads travel with it *)
  Definition import_one (st : dstate) (t : rtri) (ib : itri) : rtri :=
    mkRT (mkTri (origID ib) (meshID ib) (faceID ib) (coplanarID ib)
                (map (fun i => sigma (p2v (merges st) i)) (out_idx st t))
                (map (fun i => tau (q i)) (out_idx st t))
                (ttan (base t)))
         (cposs t) (cvals t).

  (* triangles whose merged corners coincide are dropped *)
  Definition kept_tri (st : dstate) (t : rtri) : bool := nondeg (map (p2v (merges st)) (out_idx st t)).

  Definition reimport_full (s : rimpl) : rimpl :=
    let srt := rsort (rtris s) in
    let st := dup (corners_of srt) in
    let ibs := import_tris (rrel s) startID (-1) (-1) 0 (map base srt) in
    let imported := map (fun tb => import_one st (fst tb) (snd tb))
                        (filter (fun tb => kept_tri st (fst tb)) (combine srt ibs)) in
    mkRI (perm imported) (import_relation (rrel s) startID (run_pairs (-1) (-1) (map base srt))).
End Import.

(* internal consistency of a denormalised state: an index determines its payload *)
Definition corner4 (t : rtri) : list (Z * Z * Z * Z) :=
  combine (combine (combine (tverts (base t)) (tprops (base t))) (cposs t)) (cvals t).
Definition all_corners (l : list rtri) : list (Z * Z * Z * Z) := flat_map corner4 l.
Definition consistent (l : list rtri) : Prop :=
  forall v p x a v' p' x' a', In (v, p, x, a) (all_corners l) -> In (v', p', x', a') (all_corners l) ->
    (v = v' -> x = x') /\ (p = p' -> a = a' /\ v = v').

Definition well_shaped (t : rtri) : Prop :=
  length (tverts (base t)) = 3%nat /\ length (tprops (base t)) = 3%nat /\
  length (cposs t) = 3%nat /\ length (cvals t) = 3%nat /\ NoDup (tverts (base t)).
