(* C08 — model of the index / run / tangent bookkeeping of GetMeshGLImpl (export,
   src/impl.h:534-707) and of the matching part of Impl(MeshGLP) (import).
   Model only, no proofs.  Numbers (positions, property values, tangent
   vectors, transforms) are abstract identifiers (Z): export and import copy
   them verbatim, only WHERE they are put matters here. *)
From Coq Require Import ZArith List Bool.
Import ListNotations.
Local Open Scope Z_scope.

(* one internal triangle: TriRef + per-corner position vertex, property vertex, tangent id *)
Record itri := mkTri {
  origID : Z; meshID : Z; faceID : Z; coplanarID : Z;
  tverts : list Z;      (* halfedge_.Start(3t+i), i = 0,1,2 *)
  tprops : list Z;      (* halfedge_.Prop(3t+i) *)
  ttan : list Z         (* halfedgeTangent_[3t+i] (identifier of the vec4) *)
}.

(* meshRelation_.meshIDtransform[meshID] = {originalID, transform, backSide, hasNormals} *)
Record rel := mkRel { rOrig : Z; rXform : Z; rFlags : Z }.

Record impl := mkImpl {
  tris : list itri;
  relation : Z -> rel;      (* total map; only the meshIDs of `tris` matter *)
  isOriginal : bool
}.

(* std::stable_sort of triNew2Old by (originalID, meshID): stable insertion sort on the triangles *)
Definition key_le (a b : itri) : bool :=
  if origID a =? origID b then meshID a <=? meshID b else origID a <? origID b.

Fixpoint insert (x : itri) (l : list itri) : list itri :=
  match l with
  | [] => [x]
  | y :: r => if key_le x y then x :: y :: r else y :: insert x r
  end.
(* elements are inserted from the back, an element goes BEFORE the equal keys
   that followed it in the input: the sort is stable *)
Fixpoint isort (l : list itri) : list itri :=
  match l with [] => [] | x :: r => insert x (isort r) end.

Definition sorted_tris (s : impl) : list itri :=
  if isOriginal s then tris s else isort (tris s).

(* ---- exported per-triangle attributes ---- *)
Record otri := mkOut {
  oOrig : Z; oXform : Z; oFlags : Z;   (* of the run the triangle is in *)
  oFace : Z;                           (* out.faceID[tri] *)
  oVerts : list Z;                     (* position vertices (before property duplication) *)
  oTan : list Z                        (* out.halfedgeTangent for its three halfedges *)
}.

Definition face_out (t : itri) : Z := if 0 <=? faceID t then faceID t else coplanarID t.

(* The pinned exporter: triangle k of the output is sorted triangle k, but its
   tangents are those of INTERNAL triangle k (halfedgeTangent_ copied in
   internal order before the sort). *)
Definition export_pinned (s : impl) : list otri :=
  let srt := sorted_tris s in
  map (fun ki => let t := fst ki in let internal_k := snd ki in
         mkOut (rOrig (relation s (meshID t))) (rXform (relation s (meshID t))) (rFlags (relation s (meshID t)))
               (face_out t) (tverts t) (ttan internal_k))
      (combine srt (tris s)).

(* With hooks/fix_C08_1.patch: tangents follow triNew2Old. *)
Definition export_fixed (s : impl) : list otri :=
  map (fun t => mkOut (rOrig (relation s (meshID t))) (rXform (relation s (meshID t))) (rFlags (relation s (meshID t)))
                      (face_out t) (tverts t) (ttan t))
      (sorted_tris s).

(* what "lossless" means for the tangent: the tangent exported with a triangle
   is the tangent the internal triangle with these corners carries *)
Definition tangent_preserved (s : impl) (out : list otri) : Prop :=
  forall o, In o out -> exists t, In t (tris s) /\ oVerts o = tverts t /\ oTan o = ttan t.

(* ---- runs: a new run starts whenever meshID differs from the previous triangle's
   (lastID = -1 initially, run counter -1).  (run id, meshID) of every triangle: ---- *)
Fixpoint run_pairs (last n : Z) (l : list itri) : list (Z * Z) :=
  match l with
  | [] => []
  | t :: r => let n' := if meshID t =? last then n else n + 1 in
              (n', meshID t) :: run_pairs (meshID t) n' r
  end.

Fixpoint assocz (v : Z) (l : list (Z * Z)) : option Z :=
  match l with [] => None | (a, b) :: r => if a =? v then Some b else assocz v r end.

(* ---- import of an export (runs -> triRef, meshRelation) ----
   triangle k in run r gets meshID = startID + r, originalID = runOriginalID[r],
   faceID = the exported faceID, coplanarID = k. *)
Fixpoint import_tris (rl : Z -> rel) (startID last n k : Z) (l : list itri) : list itri :=
  match l with
  | [] => []
  | t :: r => let n' := if meshID t =? last then n else n + 1 in
              mkTri (rOrig (rl (meshID t))) (startID + n') (face_out t) k (tverts t) (tprops t) (ttan t)
              :: import_tris rl startID (meshID t) n' (k + 1) r
  end.

(* the relation after import: meshID startID + r -> the attributes of run r of the first export *)
Definition import_relation (rl : Z -> rel) (startID : Z) (pairs : list (Z * Z)) (mid : Z) : rel :=
  match assocz (mid - startID) pairs with
  | Some m => rl m
  | None => mkRel 0 0 0
  end.

Definition reimport (startID : Z) (s : impl) : impl :=
  let srt := sorted_tris s in
  mkImpl (import_tris (relation s) startID (-1) (-1) 0 srt)
         (import_relation (relation s) startID (run_pairs (-1) (-1) srt)) false.

(* ---- runs without triangles ----
   GetMeshGLImpl appends one run (runIndex entry 3*numTri) for every relation
   entry whose mesh contributed no triangle, in ascending meshID order (`extra`).
   On import run j (empty or not) becomes meshID startID + j with the run's
   relation, so after the trip the same entries are again without triangles. *)
Fixpoint last_run (last n : Z) (l : list itri) : Z :=
  match l with
  | [] => n
  | t :: r => last_run (meshID t) (if meshID t =? last then n else n + 1) r
  end.
Fixpoint empty_pairs (j : Z) (extra : list Z) : list (Z * Z) :=
  match extra with [] => [] | m :: r => (j, m) :: empty_pairs (j + 1) r end.
Fixpoint new_ids (startID j : Z) (extra : list Z) : list Z :=
  match extra with [] => [] | _ :: r => (startID + j) :: new_ids startID (j + 1) r end.
Definition rel_attr (r : rel) : Z * Z * Z := (rOrig r, rXform r, rFlags r).
(* (runOriginalID, runTransform, runFlags) of the trailing empty runs, in order *)
Definition export_empty_attrs (rl : Z -> rel) (extra : list Z) : list (Z * Z * Z) :=
  map (fun m => rel_attr (rl m)) extra.
(* the relation after importing an export of srt with the empty runs `extra` *)
Definition reimport_relation_e (rl : Z -> rel) (startID : Z) (srt : list itri) (extra : list Z) : Z -> rel :=
  import_relation rl startID
    (run_pairs (-1) (-1) srt ++ empty_pairs (last_run (-1) (-1) srt + 1) extra).
(* the meshIDs without triangles after the import *)
Definition reimport_extra (startID : Z) (srt : list itri) (extra : list Z) : list Z :=
  new_ids startID (last_run (-1) (-1) srt + 1) extra.

(* ---- runTransform absent ----
   runTransform is optional (absent = identity for every run).  The importer's run
   loop has two arms: with runTransform it records {originalID, transform, backside,
   hasNormals}; without it records {originalID, identity, B, hasNormals} where B is
   `backside` (honours = true) or the constant false (honours = false; the code before
   hooks/fix_C08_3.patch).  Flags: bit 0 = back side, bit 1 = hasNormals. *)
Definition import_flags (honours present : bool) (fl : Z) : Z :=
  if present || honours then fl else fl - fl mod 2.
Definition import_xform (present : bool) (identity x : Z) : Z := if present then x else identity.

(* the relation entry the import records for a run with attributes (orig, x, fl) *)
Definition import_rel (honours present : bool) (identity : Z) (r : rel) : rel :=
  mkRel (rOrig r) (import_xform present identity (rXform r)) (import_flags honours present (rFlags r)).

(* per-triangle attributes compared by the round-trip statement *)
Definition attrs (o : otri) : Z * Z * Z * Z := (oOrig o, oXform o, oFlags o, oFace o).

(* ---- property-vertex duplication and merge vectors (impl.h:637-705) ----
   corners are processed in output order; `bins` = vertPropPair (position
   vertex, property vertex, output index), `v2i` = vert2idx. *)
Record dstate := mkD {
  bins : list (Z * Z * Z);
  v2i : list (Z * Z);
  nextIdx : Z;
  outIdx : list Z;             (* reversed *)
  merges : list (Z * Z)        (* (mergeFromVert, mergeToVert), reversed *)
}.
Definition d0 : dstate := mkD [] [] 0 [] [].

Fixpoint find_bin (v p : Z) (b : list (Z * Z * Z)) : option Z :=
  match b with
  | [] => None
  | (v', p', i) :: r => if (v' =? v) && (p' =? p) then Some i else find_bin v p r
  end.
Notation assoc := assocz.

Definition dup_step (st : dstate) (c : Z * Z) : dstate :=
  let v := fst c in let p := snd c in
  match find_bin v p (bins st) with
  | Some i => mkD (bins st) (v2i st) (nextIdx st) (i :: outIdx st) (merges st)
  | None =>
    let i := nextIdx st in
    match assoc v (v2i st) with
    | None => mkD ((v, p, i) :: bins st) ((v, i) :: v2i st) (i + 1) (i :: outIdx st) (merges st)
    | Some r => mkD ((v, p, i) :: bins st) (v2i st) (i + 1) (i :: outIdx st) ((i, r) :: merges st)
    end
  end.

Definition dup (corners : list (Z * Z)) : dstate := fold_left dup_step corners d0.

(* import side: prop2vert = iota; prop2vert[from] = to for every merge pair *)
Definition p2v (ms : list (Z * Z)) (i : Z) : Z :=
  match assoc i ms with Some r => r | None => i end.
(* the position vertex -> merged output vertex renaming the export induces *)
Definition rep (st : dstate) (v : Z) : Z :=
  match assoc v (v2i st) with Some r => r | None => -1 end.

(* emitted merge vectors the wrong way round (mutant) *)
Definition p2v_swapped (ms : list (Z * Z)) (i : Z) : Z :=
  match assoc i (map (fun ft => (snd ft, fst ft)) ms) with Some r => r | None => i end.

(* ---- witnesses ---- *)
Definition w_two_runs : impl :=
  mkImpl [ mkTri 2 2 (-1) 0 [0; 1; 2] [0; 1; 2] [100; 101; 102];
           mkTri 1 1 (-1) 1 [2; 1; 3] [2; 1; 3] [200; 201; 202] ]
         (fun m => mkRel m (10 * m) 0) false.
