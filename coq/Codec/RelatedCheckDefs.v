(* C07 -- the oracle related_check as an executable checker over scaled integers.
   All finite doubles are dyadic, so the driver scales every coordinate of a
   case by one power of two to an integer (positions by 2^s, run-transform
   entries by 2^t, property values by 2^r); every predicate below is a
   homogeneous polynomial (in)equality, hence invariant under that scaling.
   Definitions only; soundness is in RelatedCheck.v.

   Verdict codes of check_triangle (same order of tests as the Python mirror in
   checks/C07.py, which must agree):
     0 accepted            1 faceID names no source triangle    2 a corner is off the source plane
     3 wrong orientation   4 a corner/centroid is outside the tolerance-grown source face
     5 a channel the source lacks is not exactly 0              6 property differs from the interpolation
     7 every source triangle of the face is degenerate (nothing checked; counted, never silently accepted) *)
From Coq Require Import ZArith List Bool.
From MV Require Import Codec.RelationDefs.
Import ListNotations.
Local Open Scope Z_scope.

Definition vsub (a b : V3) := mkV3 (vx a - vx b) (vy a - vy b) (vz a - vz b).
Definition vdot (a b : V3) : Z := vx a * vx b + vy a * vy b + vz a * vz b.
Definition vcross (a b : V3) := mkV3 (vy a * vz b - vz a * vy b) (vz a * vx b - vx a * vz b) (vx a * vy b - vy a * vx b).
Definition norm_inf (a : V3) : Z := Z.max (Z.abs (vx a)) (Z.max (Z.abs (vy a)) (Z.abs (vz a))).

(* a prepared source triangle: (transformed) corners, the edges opposite each
   corner and the normal exactly as GetBarycentric forms them, and per channel
   the property values at the three corners *)
Record PTri := mkPTri { pp0 : V3; pp1 : V3; pp2 : V3; pe0 : V3; pe1 : V3; pe2 : V3; pn : V3; pprops : list (Z * Z * Z) }.

Definition prep (p0 p1 p2 : V3) (props : list (Z * Z * Z)) : PTri :=
  let e0 := vsub p2 p1 in let e1 := vsub p0 p2 in let e2 := vsub p1 p0 in
  mkPTri p0 p1 p2 e0 e1 e2 (vcross e0 e1) props.

(* transform (entries scaled by 2^t) applied to a point scaled by 2^s: w = 2^s *)
Definition xform (T : M34) (w : Z) (p : V3) : V3 := m34apply4 T p w.
Definition prep_x (T : M34) (w : Z) (raw : V3 * V3 * V3 * list (Z * Z * Z)) : PTri :=
  let '(p0, p1, p2, props) := raw in prep (xform T w p0) (xform T w p1) (xform T w p2) props.
Definition scale_v (k : Z) (a : V3) := mkV3 (k * vx a) (k * vy a) (k * vz a).
Definition scale_t (k : Z) (t : PTri) : PTri := prep (scale_v k (pp0 t)) (scale_v k (pp1 t)) (scale_v k (pp2 t)) (pprops t).

(* which source triangles form the face an output triangle names *)
Fixpoint face_by_id (ids : list Z) (f : Z) (i : Z) : list Z :=
  match ids with [] => [] | x :: r => if x =? f then i :: face_by_id r f (i + 1) else face_by_id r f (i + 1) end.

(* --- the tests.  |N.d| <= tol*|N|_inf implies distance <= tol (|N|_inf <= |N|) *)
Definition plane_close_b (tol : Z) (t : PTri) (q : V3) : bool :=
  Z.abs (vdot (pn t) (vsub q (pp0 t))) <=? tol * norm_inf (pn t).

(* u_i = (e_i x (q - P_{i+1})) . N, the unnormalised barycentric weight of corner i *)
Definition weight (t : PTri) (q : V3) (i : nat) : Z :=
  match i with
  | 0%nat => vdot (vcross (pe0 t) (vsub q (pp1 t))) (pn t)
  | 1%nat => vdot (vcross (pe1 t) (vsub q (pp2 t))) (pn t)
  | _ => vdot (vcross (pe2 t) (vsub q (pp0 t))) (pn t)
  end.
Definition edge_of (t : PTri) (i : nat) : V3 := match i with 0%nat => pe0 t | 1%nat => pe1 t | _ => pe2 t end.
Definition edge_ok_b (tol : Z) (t : PTri) (q : V3) (i : nat) : bool :=
  let u := weight t q i in
  (0 <=? u) || (Z.abs u <=? tol * norm_inf (edge_of t i) * norm_inf (pn t)).
Definition nondegenerate_b (t : PTri) : bool := negb (vdot (pn t) (pn t) =? 0).
Definition inside_b (tol : Z) (t : PTri) (q : V3) : bool :=
  nondegenerate_b t && edge_ok_b tol t q 0 && edge_ok_b tol t q 1 && edge_ok_b tol t q 2.

Fixpoint find_ref (S : list PTri) : option PTri :=
  match S with [] => None | t :: r => if nondegenerate_b t then Some t else find_ref r end.
Fixpoint find_inside (tol : Z) (S : list PTri) (q : V3) : option PTri :=
  match S with [] => None | t :: r => if inside_b tol t q then Some t else find_inside tol r q end.

(* orientation: ws = sign(det T) * (back-side ? -1 : 1); triangles of area below tol^2 are not judged *)
Definition orient_b (tol ws : Z) (ref : PTri) (q0 q1 q2 : V3) : bool :=
  let oN := vcross (vsub q1 q0) (vsub q2 q0) in
  let s := vdot oN (pn ref) in
  (vdot oN oN <=? tol * tol * tol * tol) || (s =? 0) || (Z.sgn s =? ws).

(* property channel: |got - sum u_k pv_k / su| <= (kn/kd) * (1 + max|pv|), multiplied out; one = 2^r *)
Definition prop_ok_b (kn kd one : Z) (u : Z * Z * Z) (pv : Z * Z * Z) (got : Z) : bool :=
  let '(u0, u1, u2) := u in let '(a, b, c) := pv in
  let su := u0 + u1 + u2 in
  (su =? 0) ||
  (Z.abs (got * su - (u0 * a + u1 * b + u2 * c)) * kd <=? kn * (one + Z.max (Z.abs a) (Z.max (Z.abs b) (Z.abs c))) * Z.abs su).

Fixpoint check_channels (kn kd one : Z) (checkProps : bool) (u : Z * Z * Z) (pvs : list (Z * Z * Z)) (got : list Z) : Z :=
  match got with
  | [] => 0
  | g :: got' =>
    match pvs with
    | [] => if g =? 0 then check_channels kn kd one checkProps u [] got' else 5
    | pv :: pvs' => if checkProps && negb (prop_ok_b kn kd one u pv g) then 6
                    else check_channels kn kd one checkProps u pvs' got'
    end
  end.

Definition check_corner (tol kn kd one : Z) (checkProps : bool) (S : list PTri) (q : V3) (got : list Z) : Z :=
  match find_inside tol S q with
  | None => 4
  | Some t => check_channels kn kd one checkProps (weight t q 0, weight t q 1, weight t q 2) (pprops t) got
  end.

Definition vadd3 (a b c : V3) := mkV3 (vx a + vx b + vx c) (vy a + vy b + vy c) (vz a + vz b + vz c).

Definition check_triangle (tol ws kn kd one : Z) (checkProps : bool) (S : list PTri)
           (q0 q1 q2 : V3) (g0 g1 g2 : list Z) : Z :=
  match S with
  | [] => 1
  | _ =>
    match find_ref S with
    | None => 7
    | Some ref =>
      if negb (plane_close_b tol ref q0 && plane_close_b tol ref q1 && plane_close_b tol ref q2) then 2
      else if negb (orient_b tol ws ref q0 q1 q2) then 3
      else
        let c0 := check_corner tol kn kd one checkProps S q0 g0 in
        if negb (c0 =? 0) then c0 else
        let c1 := check_corner tol kn kd one checkProps S q1 g1 in
        if negb (c1 =? 0) then c1 else
        let c2 := check_corner tol kn kd one checkProps S q2 g2 in
        if negb (c2 =? 0) then c2 else
        (* centroid, everything scaled by 3 *)
        match find_inside (3 * tol) (map (scale_t 3) S) (vadd3 q0 q1 q2) with
        | None => 4
        | Some _ => 0
        end
    end
  end.

(* coplanar grouping when the user supplied no face IDs: source triangles lying in
   the plane of the named triangle (tolerance st, untransformed) with the same
   normal direction; the named triangle first *)
Definition coplanar_b (st : Z) (ref t : PTri) : bool :=
  plane_close_b st ref (pp0 t) && plane_close_b st ref (pp1 t) && plane_close_b st ref (pp2 t) &&
  (0 <? vdot (pn t) (pn ref)).
