(* C08 — merge_rederives at the level of the partition Merge() computes. *)
From Coq Require Import ZArith List Bool Arith Lia.
From MV Require Import Par.Containers Codec.MergeDefs.
Import ListNotations.

Lemma equiv_is_same_position : forall n tris pos overlap reported a b,
  collider_exact tris overlap reported -> separated pos overlap ->
  uf_equiv n reported a b ->
  a = b \/ (is_open tris a = true /\ is_open tris b = true /\ pos a = pos b).
Proof.
  intros n tris pos overlap reported a b Hc Hs H. induction H as [a _ | a b Hin | a b _ IH | a b c _ IH1 _ IH2].
  - left. reflexivity.
  - apply Hc in Hin. destruct Hin as [Ha [Hb [_ Ho]]]. right. apply Hs in Ho. auto.
  - destruct IH as [-> | [Ha [Hb E]]]; [left; reflexivity | right; auto].
  - destruct IH1 as [-> | [Ha [Hb E1]]]; [exact IH2|].
    destruct IH2 as [<- | [_ [Hc2 E2]]]; [right; auto | right; repeat split; try assumption; congruence].
Qed.

Lemma merge_partition : forall n tris pos overlap reported st,
  collider_exact tris overlap reported -> separated pos overlap ->
  Forall (valid n) reported ->
  uf_run_seq n reported = Some st ->
  forall a b, a < n -> b < n ->
    (merged st a b <-> (a = b \/ (is_open tris a = true /\ is_open tris b = true /\ pos a = pos b))).
Proof.
  intros n tris pos overlap reported st Hc Hs Hv Hrun a b Ha Hb.
  destruct (uf_seq_partition n reported st Hv Hrun) as [_ [_ Hsame]].
  unfold merged. rewrite (Hsame a b Ha Hb). split.
  - apply (equiv_is_same_position n tris pos overlap reported a b Hc Hs).
  - intros [-> | [Hoa [Hob E]]]; [apply EQ_refl; exact Hb|].
    destruct (Nat.eq_dec a b) as [-> | Hne]; [apply EQ_refl; exact Hb|].
    apply EQ_pair. apply Hc. repeat split; try assumption. apply Hs. exact E.
Qed.

(* a square pyramid-free example: two triangles sharing an edge through duplicated vertices *)
Lemma merge_example :
  let tris := [(0, 1, 2); (3, 4, 5)] in
  is_open tris 0 = true /\ is_open tris 3 = true.
Proof. split; vm_compute; reflexivity. Qed.
