(* C16 — Hull is the convex hull; Minkowski sum/difference are dilation and erosion.
   Only statements closed by `exact`, each followed by Print Assumptions.
   hull_check is extracted and run on every Hull output by checks/C16.py. *)
From Coq Require Import ZArith List Bool QArith Qcanon.
From MV Require Import Geo.WindingDefs Geo.MeasureDefs Topo.CheckMeshDefs Geo.Hull3Defs Geo.Hull3
                       Geo.MinkowskiDefs Geo.Minkowski.
Import ListNotations.

(* ---- Hull -------------------------------------------------------------------- *)
Local Open Scope Z_scope.
(* whenever the exact checker accepts (mesh, input points, eps^2): either the
   result has no triangle and the input lies in a plane, or the mesh is a closed
   oriented 2-manifold, each mesh vertex is an input point, every input point
   is within eps of the inner side of every face plane, and the input lies in
   a plane or four mesh vertices span volume. *)
Theorem hull_check_sound :
  forall vpos tris pts eps2, hull_check vpos tris pts eps2 = true ->
    (tris = [] /\ InPlane pts) \/ (tris <> [] /\ HullFacts vpos tris pts eps2).
Proof. exact hull_check_sound_l. Qed.
Print Assumptions hull_check_sound.

(* hence every edge is convex within eps: the vertex opposite to a face
   across any edge (indeed any mesh vertex) is not more than eps outside it *)
Theorem hull_edges_convex :
  forall vpos tris pts eps2 i j k l,
    HullFacts vpos tris pts eps2 -> In (i, j, k) tris -> 0 <= l < Z.of_nat (length vpos) ->
    WithinEps (pos vpos i) (pos vpos j) (pos vpos k) (pos vpos l) eps2.
Proof. exact hull_edges_convex_l. Qed.
Print Assumptions hull_edges_convex.

(* points in a plane span no volume (all orient3d vanish), so an accepted
   non-flat result certifies that the input spans volume, and an accepted
   result for a flat input is itself flat (zero volume) *)
Theorem inplane_spans_no_volume : forall pts, InPlane pts -> ~ SpansVolume pts.
Proof. exact inplane_no_volume. Qed.
Print Assumptions inplane_spans_no_volume.

Theorem hull_nonempty_iff_volume :
  forall vpos tris pts eps2, HullFacts vpos tris pts eps2 ->
    (~ InPlane pts -> SpansVolume pts) /\ (InPlane pts -> InPlane vpos /\ ~ SpansVolume vpos).
Proof. intros vpos tris pts eps2 H. exact (conj (hull_nonempty_spans_l vpos tris pts eps2 H) (hull_flat_input_flat_mesh_l vpos tris pts eps2 H)). Qed.
Print Assumptions hull_nonempty_iff_volume.

Theorem flat_check_is_sound : forall pts, flat_check pts = true -> InPlane pts.
Proof. exact flat_check_sound. Qed.
Print Assumptions flat_check_is_sound.

(* non-vacuity: the unit tetrahedron with an interior point is accepted *)
Example hull_check_example :
  hull_check [(0,0,0); (4,0,0); (0,4,0); (0,0,4)] [(0,2,1); (0,1,3); (0,3,2); (1,2,3)]
             [(0,0,0); (4,0,0); (1,1,1); (0,4,0); (0,0,4); (4,0,0)] 0 = true /\
  hull_check [] [] [(0,0,0); (1,0,0); (0,1,0); (1,1,0)] 0 = true /\
  hull_check [(0,0,0); (4,0,0); (0,4,0); (0,0,4)] [(0,2,1); (0,1,3); (0,3,2); (1,2,3)]
             [(0,0,0); (4,0,0); (0,4,0); (0,0,4); (3,3,3)] 0 = false.
Proof. vm_compute. repeat split. Qed.

(* ---- Minkowski sums over Q^3 ---------------------------------------------------- *)
Local Open Scope Qc_scope.
Theorem sum_contains_summands : forall A B : set, B vzero -> incl A (msum A B).
Proof. exact sum_contains_summands_l. Qed.
Print Assumptions sum_contains_summands.

Theorem sum_mono : forall A A' B B' : set, incl A A' -> incl B B' -> incl (msum A B) (msum A' B').
Proof. exact sum_mono_l. Qed.
Print Assumptions sum_mono.

Theorem sum_union_distr : forall A A' B : set, seteq (msum (union A A') B) (union (msum A B) (msum A' B)).
Proof. exact sum_union_distr_l. Qed.
Print Assumptions sum_union_distr.

Theorem sum_comm : forall A B : set, seteq (msum A B) (msum B A).
Proof. exact sum_comm_l. Qed.
Print Assumptions sum_comm.

Theorem hull_of_sums : forall P Q : set, seteq (msum (conv P) (conv Q)) (conv (msum P Q)).
Proof. exact hull_of_sums_l. Qed.
Print Assumptions hull_of_sums.

(* branch 1 (convex, convex): A u hull(VA (+) VB) is exactly A (+) B *)
Theorem code_cc_correct : forall VA VB : set, conv VB vzero ->
  seteq (code_cc (conv VA) VA VB) (msum (conv VA) (conv VB)).
Proof. exact code_cc_correct_l. Qed.
Print Assumptions code_cc_correct.

(* branch 2 (non-convex A, convex B = conv VB containing 0):
   A u U_t hull(t (+) VB)  is inside A (+) B when the surface is part of A, and
   contains A (+) B when segments leaving A cross the surface *)
Theorem code_nc_sound : forall (I : Type) (A : set) (trisA : I -> triangle) (VB : set),
  incl (surf trisA) A -> conv VB vzero -> incl (code_nc A trisA VB) (msum A (conv VB)).
Proof. exact @code_nc_sound_l. Qed.
Print Assumptions code_nc_sound.

Theorem code_nc_complete : forall (I : Type) (A : set) (trisA : I -> triangle) (VB : set),
  (forall p, A p \/ ~ A p) -> crossing A (surf trisA) -> conv VB vzero ->
  incl (msum A (conv VB)) (code_nc A trisA VB).
Proof. exact @code_nc_complete_l. Qed.
Print Assumptions code_nc_complete.

(* inset branch with convex B: A minus U_t hull(t (+) VB) is inside the erosion *)
Theorem code_inset_sound : forall (I : Type) (A : set) (trisA : I -> triangle) (VB : set),
  (forall p, A p \/ ~ A p) -> crossing A (surf trisA) -> conv VB vzero ->
  incl (code_inset A trisA VB) (merode A (conv VB)).
Proof. exact @code_inset_sound_l. Qed.
Print Assumptions code_inset_sound.

Theorem erode_incl : forall A B : set, B vzero -> incl (merode A B) A.
Proof. exact erode_incl_l. Qed.
Print Assumptions erode_incl.

(* branch 3 (both non-convex): the code computes A u (dA (+) dB); containing
   A (+) B would require B inside A u (dA (+) dB) ... *)
Theorem code_nn_is_boundary_sum : forall (I J : Type) (A : set) (trisA : I -> triangle) (trisB : J -> triangle),
  seteq (code_nn A trisA trisB) (union A (msum (surf trisA) (surf trisB))).
Proof. exact @code_nn_is_boundary_sum_l. Qed.
Print Assumptions code_nn_is_boundary_sum.

Theorem code_nn_obligation : forall (I J : Type) (A B : set) (trisA : I -> triangle) (trisB : J -> triangle),
  A vzero -> incl (msum A B) (code_nn A trisA trisB) -> incl B (union A (msum (surf trisA) (surf trisB))).
Proof. exact @code_nn_obligation_l. Qed.
Print Assumptions code_nn_obligation.

Theorem nn_omits_deep_points : forall (I J : Type) (A B : set) (trisA : I -> triangle) (trisB : J -> triangle) b,
  A vzero -> B b -> ~ A b -> (forall a', surf trisA a' -> ~ surf trisB (vsub b a')) ->
  msum A B b /\ ~ code_nn A trisA trisB b.
Proof. exact @nn_omits_deep_points_l. Qed.
Print Assumptions nn_omits_deep_points.

(* ... which fails: the statement "MinkowskiSum(A,B) contains a+b" is REFUTED
   for the set expression of the non-convex x non-convex branch (finding F2;
   replayed on the library with two L-shaped solids by checks/C16.py) *)
Theorem minkowski_nonconvex_refuted :
  exists (A B : set) (trisA trisB : bool * bool -> triangle) (p : vec),
    A vzero /\ B vzero /\ msum A B p /\ ~ code_nn A trisA trisB p.
Proof. exact (ex_intro _ wA (ex_intro _ wB (ex_intro _ wtA (ex_intro _ wtB (ex_intro _ (onx 5) minkowski_nonconvex_refuted_l))))). Qed.
Print Assumptions minkowski_nonconvex_refuted.

(* dispatch condition of the convex-convex fast path (Impl::IsConvex): the
   fast-path expression always contains the hull of A's vertices, so it is
   only sound when that hull is inside A (+) B - for a single Manifold made of
   disjoint convex bodies (no concave edge, genus <> 0) it is refuted.  The
   check ties Impl::IsConvex() to the exact global-convexity verdict of
   hull_check (mesh against its own vertices) on generated solids. *)
Theorem fast_path_requires_hull_inside : forall A VA VB S : set,
  conv VB vzero -> incl (code_cc A VA VB) S -> incl (conv VA) S.
Proof. exact fast_path_requires_hull_inside_l. Qed.
Print Assumptions fast_path_requires_hull_inside.

Theorem fast_path_multibody_refuted :
  exists (A VA VB : set) (p : vec),
    conv VB vzero /\ incl VA A /\ code_cc A VA VB p /\ ~ msum A (conv VB) p.
Proof. exact (ex_intro _ wA2 (ex_intro _ wVA2 (ex_intro _ wVB0 (ex_intro _ (onx (5 # 2)) fast_path_multibody_refuted_l)))). Qed.
Print Assumptions fast_path_multibody_refuted.
