(* C18 — measurements and queries agree with their brute-force definitions.
   Only statements closed by `exact`, each followed by Print Assumptions.
   The executable checkers (vol_check, area_check, bbox_check, mingap2,
   tri_dist2, seg_crossings, polys_wind, decompose) are extracted and run on
   the library's outputs by checks/C18.py. *)
From Coq Require Import ZArith List Bool Permutation QArith.
From MV Require Import Geo.WindingDefs Geo.Winding Geo.MeasureDefs Geo.Measure Bvh.BvhDefs Bvh.BvhModel.
Import ListNotations.
Local Open Scope Z_scope.

(* ---- Volume / SurfaceArea ------------------------------------------------ *)
(* the summand of GetProperty is the determinant the exact sum uses *)
Theorem volume_term_is_determinant :
  forall a b c : pt, dot (cross (psub b a) (psub c a)) a = det3 a b c.
Proof. exact volume_term_is_det. Qed.
Print Assumptions volume_term_is_determinant.

(* the tolerance of vol_check is relative to a magnitude that dominates the true value,
   and an exactly reported volume is accepted *)
Theorem volume_magnitude_dominates : forall tris, Z.abs (volume6 tris) <= vol_mag tris.
Proof. exact vol_mag_bounds_l. Qed.
Print Assumptions volume_magnitude_dominates.

Theorem vol_check_accepts_exact : forall tris up, 0 <= up -> vol_check tris (up * volume6 tris) up = true.
Proof. exact vol_check_exact_l. Qed.
Print Assumptions vol_check_accepts_exact.

(* floor square roots bracket twice the area of each triangle; the two sums
   used by area_check differ by the number of triangles *)
Theorem area_bracket : forall t,
  Z.sqrt (cross2 t) * Z.sqrt (cross2 t) <= cross2 t < (Z.sqrt (cross2 t) + 1) * (Z.sqrt (cross2 t) + 1).
Proof. exact area_bracket_l. Qed.
Print Assumptions area_bracket.

Theorem area_hi_is_lo_plus_count : forall tris, area_hi tris = area_lo tris + Z.of_nat (length tris).
Proof. exact area_hi_lo. Qed.
Print Assumptions area_hi_is_lo_plus_count.

(* ---- BoundingBox ----------------------------------------------------------- *)
(* CalculateBBox: for EVERY reduction tree (any split, any leaf order, any
   number of extra copies of the +-infinity init value) the result is the
   sequential fold over the vertices ... *)
Theorem bbox_reduce :
  forall (t : rtree) (vs : list vert), Permutation (rleaves t) vs ->
    reduce_tree cmin id_min t = tight_min vs /\ reduce_tree cmax id_max t = tight_max vs.
Proof. intros t vs P. split; [exact (bbox_reduce_min_l t vs P) | exact (bbox_reduce_max_l t vs P)]. Qed.
Print Assumptions bbox_reduce.

(* ... and that fold is the tight box of the non-tombstone vertices: it bounds
   every one of them, and each face of it is touched by one (or is still the
   identity when all vertices are tombstones). *)
Theorem bbox_is_tight_lower :
  forall vs x y z, In (V x y z) vs -> vle (tight_min vs) (V x y z) /\ vle (V x y z) (tight_max vs).
Proof. intros vs x y z H. split; [exact (tight_min_lower vs x y z H) | exact (tight_max_upper vs x y z H)]. Qed.
Print Assumptions bbox_is_tight_lower.

Theorem bbox_is_tight_attained :
  forall vs,
    (vx (tight_min vs) = PInf \/ exists y z, In (V (vx (tight_min vs)) y z) vs) /\
    (vy (tight_min vs) = PInf \/ exists x z, In (V x (vy (tight_min vs)) z) vs) /\
    (vz (tight_min vs) = PInf \/ exists x y, In (V x y (vz (tight_min vs))) vs).
Proof. intros vs. exact (conj (tight_min_attained_x vs) (conj (tight_min_attained_y vs) (tight_min_attained_z vs))). Qed.
Print Assumptions bbox_is_tight_attained.

Theorem bbox_combiner_laws :
  (forall a b, cmin a b = cmin b a) /\ (forall a b c, cmin a (cmin b c) = cmin (cmin a b) c) /\
  (forall a, a <> VNaN -> cmin id_min a = a) /\ cmin id_min VNaN = id_min /\
  (forall a b, cmax a b = cmax b a) /\ (forall a b c, cmax a (cmax b c) = cmax (cmax a b) c) /\
  (forall a, a <> VNaN -> cmax id_max a = a).
Proof. exact (conj cmin_comm (conj cmin_assoc (conj cmin_id_l (conj cmin_id_nan (conj cmax_comm (conj cmax_assoc cmax_id_l)))))). Qed.
Print Assumptions bbox_combiner_laws.

(* ---- MinGap ------------------------------------------------------------------ *)
(* rational points P/w of a triangle lie in its box *)
Theorem triangle_points_in_box :
  forall t l w, weights_ok l w -> in_box_h (tri_box t) (comb t l) w.
Proof. exact comb_in_box. Qed.
Print Assumptions triangle_points_in_box.

(* if two triangles contain points closer than L, the box of one inflated by
   L overlaps the box of the other *)
Theorem mingap_candidates_complete :
  forall t1 t2 l1 w1 l2 w2 L,
    weights_ok l1 w1 -> weights_ok l2 w2 -> 0 <= L ->
    norm2 (hdiff (comb t1 l1) w1 (comb t2 l2) w2) < (L * (w1 * w2)) * (L * (w1 * w2)) ->
    overlap (tri_box t1) (inflate (tri_box t2) L) = true.
Proof.
  intros t1 t2 l1 w1 l2 w2 L H1 H2 HL D.
  exact (mingap_candidates_complete_l (tri_box t1) (tri_box t2) (comb t1 l1) w1 (comb t2 l2) w2 L
           (proj2 (proj2 (proj2 (proj2 H1)))) (proj2 (proj2 (proj2 (proj2 H2)))) HL
           (comb_in_box t1 l1 w1 H1) (comb_in_box t2 l2 w2 H2) D).
Qed.
Print Assumptions mingap_candidates_complete.

(* ... hence, with C14's traversal theorem, the collider query of MinGap
   (leaf boxes = face boxes of `this`, query = inflated face box of `other`)
   records every face whose triangle comes closer than L to the query triangle *)
Theorem mingap_no_pair_missed :
  forall children bbox n (tris : Z -> tri) t2 L qi,
    wf_check children bbox n = true ->
    (forall i, 0 <= i < n -> bbox (leaf2node i) = tri_box (tris i)) ->
    0 <= L ->
    exists res, find_collision children bbox false (fun b => overlap b (inflate (tri_box t2) L)) qi (Z.to_nat (2 * n)) = Some res /\
      forall i l1 w1 l2 w2, 0 <= i < n -> weights_ok l1 w1 -> weights_ok l2 w2 ->
        norm2 (hdiff (comb (tris i) l1) w1 (comb t2 l2) w2) < (L * (w1 * w2)) * (L * (w1 * w2)) -> In i res.
Proof. exact mingap_no_pair_missed_l. Qed.
Print Assumptions mingap_no_pair_missed.

(* the squared box gap used to prune the brute-force minimum is a lower bound *)
Theorem box_gap2_lower :
  forall b1 b2 P w Q w', 0 < w -> 0 < w' -> in_box_h b1 P w -> in_box_h b2 Q w' ->
    box_gap2 b1 b2 * ((w * w') * (w * w')) <= norm2 (hdiff P w Q w').
Proof. exact box_gap2_lower_l. Qed.
Print Assumptions box_gap2_lower.

(* exact squared distance of two triangles over Q: whenever the checker
   answers, its value is attained by a pair of points of the two triangles and
   no pair of points of the triangles is closer.  (bvalid = barycentric
   weights >= 0 summing to 1.)  In particular it is 0 when they intersect. *)
Theorem tri_dist2_exact :
  forall t1 t2 d w1 w2, tri_dist2 t1 t2 = Some (d, (w1, w2)) ->
    bvalid w1 /\ bvalid w2 /\ (d == qd2 (bpoint t1 w1) (bpoint t2 w2))%Q /\
    forall u1 u2, bvalid u1 -> bvalid u2 -> (d <= qd2 (bpoint t1 u1) (bpoint t2 u2))%Q.
Proof. exact tri_dist2_exact_l. Qed.
Print Assumptions tri_dist2_exact.

Theorem tri_dist2_zero_when_intersecting :
  forall t1 t2 d w u1 u2, tri_dist2 t1 t2 = Some (d, w) -> bvalid u1 -> bvalid u2 ->
    (qd2 (bpoint t1 u1) (bpoint t2 u2) == 0)%Q -> (d == 0)%Q.
Proof. exact tri_dist2_zero_l. Qed.
Print Assumptions tri_dist2_zero_when_intersecting.

Theorem pt_tri_dist2_exact :
  forall p t d, pt_tri_dist2 p t = Some d ->
    (exists w, bvalid w /\ (d == qd2 (qpt_of p) (bpoint (qtri_of t) w))%Q) /\
    forall u, bvalid u -> (d <= qd2 (qpt_of p) (bpoint (qtri_of t) u))%Q.
Proof. exact pt_tri_dist2_exact_l. Qed.
Print Assumptions pt_tri_dist2_exact.

(* ---- Decompose ------------------------------------------------------------------ *)
(* labels of the (specification-level, quick-find) union-find over the edge
   list = connected components of the edge graph, for every mesh whose
   indices are in range *)
Theorem decompose_components :
  forall n es u v,
    (forall a b, In (a, b) es -> in_range n a /\ in_range n b) -> in_range n u -> in_range n v ->
    (lab (uf_edges n es) u = lab (uf_edges n es) v <-> conn es u v).
Proof. exact uf_edges_conn. Qed.
Print Assumptions decompose_components.

(* the three corners of a face get the same label, so assigning a face by
   its first vertex (as Decompose does) is well defined *)
Theorem decompose_face_label_uniform :
  forall n ts a b c,
    (forall p q, In (p, q) (mesh_edges ts) -> in_range n p /\ in_range n q) -> In (a, b, c) ts ->
    lab (uf_edges n (mesh_edges ts)) a = lab (uf_edges n (mesh_edges ts)) b /\
    lab (uf_edges n (mesh_edges ts)) b = lab (uf_edges n (mesh_edges ts)) c.
Proof. exact face_label_uniform. Qed.
Print Assumptions decompose_face_label_uniform.

(* faces are partitioned ... *)
Theorem decompose_faces_partitioned :
  forall n ts t, In t ts ->
    exists c, In c (comp_labels (uf_edges n (mesh_edges ts)) ts) /\ In t (comp_faces (uf_edges n (mesh_edges ts)) ts c) /\
      forall c', In t (comp_faces (uf_edges n (mesh_edges ts)) ts c') -> c' = c.
Proof. exact decompose_partition_l. Qed.
Print Assumptions decompose_faces_partitioned.

(* ... and the exact volumes of the parts sum to the whole, for any vertex positions *)
Theorem decompose_volumes_sum :
  forall n ts (pos : Z -> pt),
    fold_right (fun part acc => volume6 (map (geom pos) part) + acc) 0 (decompose n ts) = volume6 (map (geom pos) ts).
Proof. exact decompose_volume_l. Qed.
Print Assumptions decompose_volumes_sum.

(* non-vacuity: two triangles sharing an edge and a separate one *)
Example decompose_example :
  map (@length itri) (decompose 7 [(0,1,2); (2,1,3); (4,5,6)]) = [2%nat; 1%nat] /\
  option_map fst (tri_dist2 (qtri_of ((0,0,0),(4,0,0),(0,4,0))) (qtri_of ((1,1,3),(5,1,7),(1,5,7)))) = Some 9%Q /\
  reduce_tree cmin id_min (RNode (RNode (RLeaf (V (Fin 3) (Fin 1) (Fin 4))) RInit) (RNode (RLeaf VNaN) (RLeaf (V (Fin 1) (Fin 5) (Fin 9)))))
    = V (Fin 1) (Fin 1) (Fin 4).
Proof. split; [|split]; vm_compute; reflexivity. Qed.
