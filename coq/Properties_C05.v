(* C05 - Manifolds and CrossSections are values: deriving new ones never
   changes old ones.  Only statements closed by `exact`, each followed by
   Print Assumptions.  Model: Proto/CowDefs.v (buffers with use counts, Impl =
   three shared buffers + deep-copied vectors; copy construction deep-copies,
   copy assignment shares (src/vec.h); library functions = event trees
   over frame-local Impl objects, handles with lazy transforms). *)
From Coq Require Import ZArith List Bool.
From MV Require Import Proto.CowDefs Proto.CowModel Proto.CowExamples Proto.CowTableOk Gen.CowTable.
Import ListNotations.

(* For EVERY table of functions accepted by the discipline checker (every write
   to a shared buffer of an Impl is dominated, along the call path from the
   public entry that created/copied that Impl, by MakeUnique / a fresh
   assignment on the same Impl with no copy or share in between; published
   Impls are never written) and EVERY history of public operations (run an
   entry function on the Impls of existing handles with any oracle for branch
   outcomes, loop counts and written data; copy a handle; lazy transform; force;
   drop), reaching state hs from the empty state: one more step changes the
   observation (three halfedge arrays, plain vectors, through the pending
   transform) of NO handle that was alive before it, and a copied handle
   observes exactly what its original observes. *)
Theorem discipline_sound :
  forall (tbl : list fn), discipline_ok tbl = true ->
  forall (ops : list hop) (hs : hstate) (op : hop) (hs' : hstate),
    hrun tbl h0 ops = Some hs -> hstep tbl hs op = Some hs' ->
    (forall h v, obs_handle hs h = Some v -> op <> HDrop h -> obs_handle hs' h = Some v) /\
    (forall h, op = HCopy h -> obs_handle hs' (length (handles hs)) = obs_handle hs h).
Proof. exact discipline_sound_lemma. Qed.
Print Assumptions discipline_sound.

(* The table translate/c05_cow.py regenerates from /repo's sources on every run
   satisfies the discipline.  Deleting a halfedge_.MakeUnique() breaks this. *)
Theorem discipline_holds : discipline_ok Gen.CowTable.table = true.
Proof. exact table_ok. Qed.
Print Assumptions discipline_holds.

(* ... hence the conclusion for the library as translated. *)
Theorem discipline_sound_on_tree :
  forall (ops : list hop) (hs : hstate) (op : hop) (hs' : hstate),
    hrun Gen.CowTable.table h0 ops = Some hs -> hstep Gen.CowTable.table hs op = Some hs' ->
    (forall h v, obs_handle hs h = Some v -> op <> HDrop h -> obs_handle hs' h = Some v) /\
    (forall h, op = HCopy h -> obs_handle hs' (length (handles hs)) = obs_handle hs h).
Proof. exact (discipline_sound_lemma Gen.CowTable.table table_ok). Qed.
Print Assumptions discipline_sound_on_tree.

(* The single-function core: an entry function accepted by the checker, run on
   any store with any oracle, never changes the observation of an Impl that
   existed before it started (and keeps the store well formed). *)
Theorem entry_preserves_existing_impls :
  forall tbl fd fr st ch fr' st' ch' h,
    entry_ok tbl fd = true -> fn_entry fd = true -> wf st ->
    length fr = fn_nparams fd -> (forall o i, nth_error fr o = Some i -> i < length (impls st)) ->
    exec FUEL tbl (fn_body fd) fr st ch = Some (fr', st', ch', h) ->
    wf st' /\ length (impls st) <= length (impls st') /\
    forall j, j < length (impls st) -> obs_impl st' j = obs_impl st j.
Proof. exact entry_sound. Qed.
Print Assumptions entry_preserves_existing_impls.

(* Forcing a lazily transformed handle (GetImpl: new Impl sharing the halfedge
   buffers, cloned and flipped when mirrored; the node's pointer is replaced,
   never the pointee) is unobservable: the new Impl observes what the pending
   transform promised, every older Impl observes what it did. *)
Theorem lazy_transform_unobservable :
  forall st i t, wf st -> i < length (impls st) -> t <> 0%Z ->
    let st' := force_impl st i t in
    wf st' /\ length (impls st') = S (length (impls st)) /\
    (forall j, j < length (impls st) -> obs_impl st' j = obs_impl st j) /\
    obs_impl st' (length (impls st)) = xform t (obs_impl st i).
Proof. exact force_spec. Qed.
Print Assumptions lazy_transform_unobservable.

(* Hypotheses are satisfiable: a disciplined table with an eight-step history
   (create, copy, derive through a sharing Impl assignment + MakeUnique +
   writes, mirror lazily, force, transform-like sharing, deep copy written in
   place, drop). *)
Example discipline_example :
  discipline_ok good_tbl = true /\
  exists hs, hrun good_tbl h0 hist1 = Some hs /\
    obs_handle hs 0 = Some ([[1;2;3]; [1;2;3]; [1;2;3]], [10;20])%Z /\
    obs_handle hs 2 = Some ([[7]; [1;2;3]; [8]], [30])%Z /\
    obs_handle hs 3 = Some ([[3;2;1]; [3;2;1]; [3;2;1]], [5;15])%Z /\
    obs_handle hs 4 = Some ([[4]; [5]; [6]], [])%Z /\
    obs_handle hs 5 = Some ([[1;2;3]; [42]; [1;2;3]], [10;20])%Z /\
    obs_handle hs 1 = None.
Proof. exact (conj good_tbl_ok hist1_runs). Qed.

(* Not vacuous: WITHOUT the discipline (the same method with its MakeUnique
   deleted: a write after a sharing Impl assignment) the checker rejects the table and there
   is a history in which an old object's observation changes. *)
Theorem write_without_make_unique_refuted :
  discipline_ok bad_tbl = false /\
  exists ops hs op hs' h v,
    hrun bad_tbl h0 ops = Some hs /\ hstep bad_tbl hs op = Some hs' /\
    obs_handle hs h = Some v /\ op <> HDrop h /\ obs_handle hs' h <> Some v.
Proof. exact (conj bad_tbl_rejected bad_tbl_changes_old_object). Qed.
Print Assumptions write_without_make_unique_refuted.
