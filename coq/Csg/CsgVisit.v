(* Correctness of the big-step evaluator [visit] / [to_leaf_rec]: for every
   oracle answer it terminates (fuel = number of cells + 1 suffices), keeps the
   heap well formed, keeps the denotation of every existing node, and what it
   appends to its destinations denotes the visited node under the frame's
   transform, in the form the parent operation expects. *)
From Coq Require Import List ZArith Bool Arith Lia Permutation Setoid Morphisms.
From MV Require Import Csg.CsgDefs Csg.CsgAlgebra Csg.CsgHeap.
Import ListNotations.

Section Visit.
  Variable A : CsgOps.
  Hypothesis LW : CsgLaws A.
  Variable uniq : heap A -> nat -> bool.
  Variable ovl : (sol A * tr A) -> (sol A * tr A) -> bool.
  Variable sz : (sol A * tr A) -> Z.
  Variable kmax : nat.
  Hypothesis OS : ovl_sound A ovl.
  Hypothesis K2 : 2 <= kmax.
  Local Notation "a == b" := (eqS A a b) (at level 70).
  Local Notation leaf := (sol A * tr A)%type.
  Local Notation heap := (heap A).
  Local Notation NLeaf := (NLeaf A).
  Local Notation NOp := (NOp A).
  Local Notation get_node := (get_node A).
  Local Notation dn := (dn A).
  Local Notation wf := (wf A).
  Local Notation ext := (ext A).
  Let eqE : Equivalence (eqS A) := eqS_Equiv A LW.
  Let unP : Proper (eqS A ==> eqS A ==> eqS A) (union A) := union_Proper A LW.
  Let inP : Proper (eqS A ==> eqS A ==> eqS A) (inter A) := inter_Proper A LW.
  Let diP : Proper (eqS A ==> eqS A ==> eqS A) (diff A) := diff_Proper A LW.
  Let acP : forall m, Proper (eqS A ==> eqS A) (act A m) := act_Proper A LW.
  Local Existing Instance eqE.
  Local Existing Instance unP.
  Local Existing Instance inP.
  Local Existing Instance diP.
  Local Existing Instance acP.

  (* ---------------- heaps that differ in the tick only ---------------- *)
  Definition same_shape (h h0 : heap) : Prop := nodes A h0 = nodes A h /\ cells A h0 = cells A h.

  Lemma same_get h h0 : same_shape h h0 -> forall x, get_node h0 x = get_node h x.
  Proof. intros [E _] x. unfold CsgDefs.get_node. rewrite E. reflexivity. Qed.

  Lemma same_den h h0 : same_shape h h0 -> forall f x, den A f h0 x = den A f h x.
  Proof.
    intros SS. induction f as [|f IH]; intros x; cbn; rewrite (same_get _ _ SS x);
      destruct (get_node h x) as [[l|o t c ca]|]; try reflexivity.
    destruct SS as [_ ->]. f_equal. f_equal. apply map_ext. assumption.
  Qed.

  Lemma same_dn h h0 : same_shape h h0 -> forall x, dn h0 x = dn h x.
  Proof. intros SS x. unfold CsgHeap.dn. rewrite (proj2 SS). apply same_den. assumption. Qed.

  Lemma same_rk h h0 : same_shape h h0 -> forall x, rk A h0 x = rk A h x.
  Proof. intros SS x. unfold rk. rewrite (same_get _ _ SS). reflexivity. Qed.

  Lemma same_wf h h0 : same_shape h h0 -> wf h -> wf h0.
  Proof.
    intros SS W. pose proof (same_get _ _ SS) as G. destruct SS as [En Ec]. constructor.
    - intros id o t c ca H. rewrite Ec. rewrite G in H. eapply (wf_cell A h W); eassumption.
    - intros c ch H. rewrite Ec in H. destruct (wf_children A h W _ _ H) as [S1 S2]. split.
      + destruct S1 as [S1|(rid & l & -> & Hl)]; [left; assumption|right]. exists rid, l. rewrite G. auto.
      + intros x Hx. destruct (S2 x Hx) as [Hn Hr]. rewrite G. split; [assumption|].
        rewrite (same_rk h h0 (conj En Ec)). assumption.
    - intros id id' o o' t t' c ca ca' H1 H2. rewrite G in H1, H2. eapply (wf_sameop A h W); eassumption.
    - intros id o t c cid H. rewrite G in H. destruct (wf_cache A h W _ _ _ _ _ H) as (l & El & Hl).
      exists l. rewrite G. split; [assumption|]. rewrite (same_dn h h0 (conj En Ec)). assumption.
  Qed.

  Lemma same_ext h h0 : same_shape h h0 -> ext h h0.
  Proof.
    intros SS. pose proof (same_get _ _ SS) as G. constructor.
    - rewrite (proj1 SS). lia.
    - rewrite (proj2 SS). lia.
    - intros id l H. rewrite G. eauto.
    - intros. rewrite G. eauto.
    - intros. rewrite (same_dn _ _ SS). reflexivity.
  Qed.

  Lemma can_collapse_spec h id o pop has1 n b h0 :
    can_collapse A uniq h id o pop has1 n = (b, h0) ->
    same_shape h h0 /\ (n = 1 -> b = has1) /\ (b = true -> has1 = true /\ (op_eqb o pop = true \/ n = 1)).
  Proof.
    unfold can_collapse. destruct has1; cbn [andb].
    - destruct (op_eqb o pop) eqn:Eo.
      + intros H. injection H as <- <-. split; [split; reflexivity|]. split.
        * intros ->. cbn. apply orb_true_r.
        * auto.
      + intros H. injection H as <- <-. split; [split; reflexivity|]. split.
        * intros ->. reflexivity.
        * intros Hn. split; [reflexivity|]. right. apply Nat.eqb_eq. assumption.
    - intros H. injection H as <- <-. split; [split; reflexivity|]. split; [reflexivity|discriminate].
  Qed.

  Lemma op_eqb_eq a b : op_eqb a b = true -> a = b.
  Proof. destruct a, b; cbn; congruence. Qed.

  (* ---------------- the children scan ---------------- *)
  Lemma scan_app h o T hasN : forall ch i P N acc,
    scan A h o T hasN i ch P N acc =
    match scan A h o T hasN i ch [] [] [] with
    | Some (PL, NL, tds) => Some (P ++ PL, N ++ NL, acc ++ tds)
    | None => None
    end.
  Proof.
    induction ch as [|x r IH]; intros i P N acc; cbn [scan].
    - rewrite !app_nil_r. reflexivity.
    - destruct (get_node h x) as [[l|o' t' c' ca']|]; [| |reflexivity].
      + destruct (is_sub o && negb (Nat.eqb i 0)).
        * destruct hasN; [|reflexivity].
          rewrite (IH (S i) P (N ++ [ltransform A T l]) acc), (IH (S i) [] ([] ++ [ltransform A T l]) []).
          destruct (scan A h o T true (S i) r [] [] []) as [[[PL NL] tds]|]; [|reflexivity].
          cbn. rewrite <- app_assoc. reflexivity.
        * rewrite (IH (S i) (P ++ [ltransform A T l]) N acc), (IH (S i) ([] ++ [ltransform A T l]) [] []).
          destruct (scan A h o T hasN (S i) r [] [] []) as [[[PL NL] tds]|]; [|reflexivity].
          cbn. rewrite <- app_assoc. reflexivity.
      + rewrite (IH (S i) P N (acc ++ _)), (IH (S i) [] [] ([] ++ _)).
        destruct (scan A h o T hasN (S i) r [] [] []) as [[[PL NL] tds]|]; [|reflexivity].
        cbn. rewrite <- app_assoc. reflexivity.
  Qed.

  Definition isop (h : heap) (x : nat) : Prop := exists o t c ca, get_node h x = Some (NOp o t c ca).

  (* value of child x under T: leaves are kept in the shape the scan produces *)
  Definition cv' (h : heap) (T : tr A) (x : nat) : sol A :=
    match get_node h x with
    | Some (CsgDefs.NLeaf _ l) => lden A (ltransform A T l)
    | _ => act A T (dn h x)
    end.

  Lemma cv'_cv h T x : cv' h T x == act A T (dn h x).
  Proof.
    unfold cv'. destruct (get_node h x) as [[l|o t c ca]|] eqn:E; try reflexivity.
    rewrite (lden_ltransform A LW). rewrite (dn_leaf A h x l E). reflexivity.
  Qed.

  Lemma cv'_op h T x : isop h x -> cv' h T x = act A T (dn h x).
  Proof. intros (o & t & c & ca & E). unfold cv'. rewrite E. reflexivity. Qed.

  Definition td_uniform (h : heap) (q : op) (b : bool) (ch : list nat) (td : todo) : Prop :=
    td_pop td = q /\ td_neg td = b /\ td_d2 td = false /\ In (td_id td) ch /\ isop h (td_id td).

  Lemma scan_uniform h o T hasN : forall ch i,
    (forall x, In x ch -> exists n, get_node h x = Some n) ->
    (o <> Sub \/ 1 <= i) -> (is_sub o = true -> hasN = true) ->
    exists LL tds,
      scan A h o T hasN i ch [] [] [] =
        Some (if is_sub o then [] else LL, if is_sub o then LL else [], tds) /\
      Permutation (map (lden A) LL ++ map (cv' h T) (map td_id tds)) (map (cv' h T) ch) /\
      Forall (td_uniform h (if is_sub o then Add else o) (is_sub o) ch) tds.
  Proof.
    induction ch as [|x r IH]; intros i Hch Hi HN.
    - exists [], []. cbn. destruct (is_sub o); repeat split; constructor.
    - cbn [scan].
      assert (Eneg : is_sub o && negb (Nat.eqb i 0) = is_sub o).
      { destruct (is_sub o) eqn:Es; [|reflexivity]. destruct Hi as [Hi|Hi]; [destruct o; cbn in Es; congruence|].
        destruct i; [lia|reflexivity]. }
      assert (Ed2 : is_sub o && Nat.eqb i 0 = false).
      { destruct (is_sub o) eqn:Es; [|reflexivity]. destruct Hi as [Hi|Hi]; [destruct o; cbn in Es; congruence|].
        destruct i; [lia|reflexivity]. }
      rewrite Eneg, Ed2.
      destruct (IH (S i)) as (LL & tds & E & Pm & Fa).
      { intros y Hy. apply Hch. right. assumption. }
      { right. lia. }
      { assumption. }
      assert (Fa' : Forall (td_uniform h (if is_sub o then Add else o) (is_sub o) (x :: r)) tds).
      { eapply Forall_impl; [|exact Fa]. intros td (a1 & a2 & a3 & a4 & a5). repeat split; try assumption. right. assumption. }
      destruct (Hch x (or_introl eq_refl)) as [n Hn]. rewrite Hn.
      destruct n as [l|o' t' c' ca'].
      + assert (Ecv : cv' h T x = lden A (ltransform A T l)) by (unfold cv'; rewrite Hn; reflexivity).
        destruct (is_sub o) eqn:Es.
        * rewrite (HN eq_refl) in *. rewrite scan_app, E. exists (ltransform A T l :: LL), tds.
          split; [reflexivity|]. split; [|assumption]. cbn [map app]. rewrite Ecv. constructor. assumption.
        * rewrite scan_app, E. exists (ltransform A T l :: LL), tds.
          split; [reflexivity|]. split; [|assumption]. cbn [map app]. rewrite Ecv. constructor. assumption.
      + rewrite scan_app, E.
        exists LL, (mkTodo x (if is_sub o then Add else o) (is_sub o) false :: tds). split.
        * destruct (is_sub o); reflexivity.
        * split.
          -- cbn [map td_id]. rewrite <- Permutation_middle. constructor. assumption.
          -- constructor; [|assumption]. repeat split; cbn; try reflexivity; [left; reflexivity|].
             exists o', t', c', ca'. assumption.
  Qed.

  (* ---------------- contract of one visit ---------------- *)
  Definition contrib (pop : op) (L1 L2 : list leaf) (X : sol A) : Prop :=
    L1 <> [] /\
    match pop with
    | Sub => diff A (bigU A (map (lden A) L1)) (bigU A (map (lden A) L2)) == X
    | q => L2 = [] /\ big1 A (bop A q) (map (lden A) L1) == X
    end.

  Lemma contrib_nonsub q L1 L2 X : q <> Sub -> contrib q L1 L2 X ->
    L1 <> [] /\ L2 = [] /\ big1 A (bop A q) (map (lden A) L1) == X.
  Proof. intros Hq [H1 H2]. destruct q; [|congruence|]; destruct H2; auto. Qed.

  Lemma contrib_single pop (x : leaf) X : lden A x == X -> contrib pop [x] [] X.
  Proof.
    intros H. split; [congruence|]. destruct pop; cbn.
    - split; [reflexivity|assumption].
    - rewrite (union_empty_r A LW), (diff_empty_r A LW). assumption.
    - split; [reflexivity|assumption].
  Qed.

  Lemma cached_ok_eq h id X Y : X == Y -> cached_ok A h id X -> cached_ok A h id Y.
  Proof. intros HXY (cid & l & a & b & c). exists cid, l. repeat split; try assumption. rewrite c. assumption. Qed.

  Definition Vspec (V : visit_t A) (bound : nat) : Prop :=
    forall h id pop T has1 has2 o t c ca,
      wf h -> get_node h id = Some (NOp o t c ca) -> c < bound ->
      (has1 = true -> pop = Sub -> has2 = true) ->
      exists h' L1 L2, V h id pop T has1 has2 = Some (h', L1, L2) /\ wf h' /\ ext h h' /\
        (forall c2, c < c2 -> nth_error (cells A h') c2 = nth_error (cells A h) c2) /\
        (has1 = false -> L1 = [] /\ L2 = [] /\ cached_ok A h' id (dn h id)) /\
        (has1 = true -> contrib pop L1 L2 (act A T (dn h id))).

  Definition below (h : heap) (bound : nat) (x : nat) : Prop :=
    forall o t c ca, get_node h x = Some (NOp o t c ca) -> c < bound.

  Lemma run_todos_app V l1 l2 h T hasN P N :
    run_todos A V (l1 ++ l2) h T hasN P N =
    match run_todos A V l1 h T hasN P N with
    | Some (h', P', N') => run_todos A V l2 h' T hasN P' N'
    | None => None
    end.
  Proof.
    revert h P N. induction l1 as [|td r IH]; intros h P N; cbn [app run_todos]; [reflexivity|].
    destruct (V h (td_id td) (td_pop td) T (negb (td_neg td) || hasN) (td_d2 td && hasN)) as [[[h' L1] L2]|]; [|reflexivity].
    destruct (td_neg td); apply IH.
  Qed.

  (* todos that all go to the same list with the same (commutative) parent op *)
  Lemma run_todos_uniform V bound q b T hasN ch0 :
    Vspec V bound -> q <> Sub -> (b = true -> hasN = true) ->
    forall tds h0 h P N, wf h0 -> wf h -> ext h0 h ->
      Forall (fun td => td_uniform h0 q b ch0 td /\ below h0 bound (td_id td)) tds ->
      exists h' LL, run_todos A V tds h T hasN P N =
                      Some (h', if b then P else P ++ LL, if b then N ++ LL else N) /\
        wf h' /\ ext h h' /\
        (forall c2, bound <= c2 -> nth_error (cells A h') c2 = nth_error (cells A h) c2) /\
        (tds = [] -> LL = []) /\
        (tds <> [] -> LL <> [] /\
           big1 A (bop A q) (map (lden A) LL) == big1 A (bop A q) (map (cv' h0 T) (map td_id tds))).
  Proof.
    intros VS Hq Hb. induction tds as [|td r IH]; intros h0 h P N W0 W X0 Fa.
    - exists h, []. cbn. rewrite !app_nil_r. split; [destruct b; reflexivity|].
      split; [assumption|]. split; [apply (ext_refl A LW)|]. split; [intros; reflexivity|]. split; [intros; reflexivity|congruence].
    - pose proof (Forall_inv Fa) as [(u1 & u2 & u3 & u4 & u5) Hbel]. pose proof (Forall_inv_tail Fa) as Fr.
      destruct u5 as (o & t & c & ca & En).
      destruct (ext_op A _ _ X0 _ _ _ _ _ En) as [ca' En'].
      cbn [run_todos]. rewrite u1, u2, u3. cbn [andb].
      assert (H1 : negb b || hasN = true) by (destruct b; [rewrite Hb; reflexivity|reflexivity]).
      rewrite H1.
      destruct (VS h (td_id td) q T true false o t c ca' W En' (Hbel _ _ _ _ En) ltac:(intros; congruence))
        as (h1 & L1 & L2 & EV & W1 & X1 & C1 & _ & Hc).
      rewrite EV. destruct (contrib_nonsub _ _ _ _ Hq (Hc eq_refl)) as (Hne & -> & Hv).
      assert (X01 : ext h0 h1) by (eapply (ext_trans A LW); eassumption).
      destruct (IH h0 h1 (if b then P else P ++ L1) (if b then N ++ L1 else N ++ []) W0 W1 X01 Fr)
        as (h2 & LL & ER & W2 & X2 & C2 & Hnil & Hcons).
      exists h2, (L1 ++ LL). split.
      { destruct b; rewrite ER; [rewrite app_assoc|rewrite app_nil_r, app_assoc]; reflexivity. }
      split; [assumption|]. split; [eapply (ext_trans A LW); eassumption|]. split.
      { intros c2 Hc2. rewrite C2 by assumption. apply C1. pose proof (Hbel _ _ _ _ En). lia. }
      split; [congruence|]. intros _. split; [destruct L1; cbn; congruence|].
      assert (Hv' : big1 A (bop A q) (map (lden A) L1) == cv' h0 T (td_id td)).
      { rewrite Hv. rewrite cv'_op by (exists o, t, c, ca; assumption).
        rewrite (ext_dn A _ _ X0) by (eapply get_node_lt; eassumption). reflexivity. }
      cbn [map]. rewrite map_app.
      destruct r as [|td2 r].
      + rewrite (Hnil eq_refl). rewrite app_nil_r. cbn. assumption.
      + destruct (Hcons ltac:(congruence)) as [HLL HvLL].
        rewrite (big1_app A LW _ (bop_acop A LW q Hq)) by (destruct L1, LL; cbn; congruence).
        rewrite (big1_cons A _ (cv' h0 T (td_id td))) by (cbn; congruence).
        apply (proj1 (bop_acop A LW q Hq)); assumption.
  Qed.

  (* merging the delivered leaves into a fold *)
  Lemma big1_merge f (AC : acop A f) (l l' tv : list (sol A)) :
    (tv = [] -> l' = []) -> (tv <> [] -> l' <> [] /\ big1 A f l' == big1 A f tv) ->
    big1 A f (l ++ l') == big1 A f (l ++ tv).
  Proof.
    intros H0 H1. destruct tv as [|v tv].
    - rewrite (H0 eq_refl). reflexivity.
    - destruct (H1 ltac:(congruence)) as [Hne Hv]. destruct l as [|a l]; [cbn; assumption|].
      rewrite !(big1_app A LW f AC) by congruence. destruct AC as [Pf _]. rewrite Hv. reflexivity.
  Qed.

  Lemma bigU_merge (l l' tv : list (sol A)) :
    (tv = [] -> l' = []) -> (tv <> [] -> l' <> [] /\ big1 A (union A) l' == big1 A (union A) tv) ->
    bigU A (l ++ l') == bigU A (l ++ tv).
  Proof.
    intros H0 H1. rewrite !(bigU_app A LW). destruct tv as [|v tv].
    - rewrite (H0 eq_refl). reflexivity.
    - destruct (H1 ltac:(congruence)) as [Hne Hv].
      rewrite (bigU_big1 A LW l') by assumption. rewrite (bigU_big1 A LW (v :: tv)) by congruence.
      rewrite Hv. reflexivity.
  Qed.

  Lemma den_op_big1 o l : o <> Sub -> l <> [] -> den_op A o l == big1 A (bop A o) l.
  Proof. intros Ho Hl. destruct o; [|congruence|]; cbn; [apply (bigU_big1 A LW); assumption|reflexivity]. Qed.

  Lemma map_cv'_congr h T l : Forall2 (eqS A) (map (cv' h T) l) (map (act A T) (map (dn h) l)).
  Proof. rewrite map_map. apply Forall2_map_in. intros y _. apply cv'_cv. Qed.

  Lemma sem_PN_single o (x : leaf) : sem_PN A o [x] [] == lden A x.
  Proof. destruct o; cbn; [apply (union_empty_r A LW)| |reflexivity]. rewrite (union_empty_r A LW). apply (diff_empty_r A LW). Qed.

  (* ---------------- the gathering of one node's children ---------------- *)
  (* [gather_ok]: scan + run_todos of a RAW cell (>= 2 children) with the node's own op *)
  Lemma gather_ok V bound h0 o T hasN c ch :
    Vspec V bound -> wf h0 -> nth_error (cells A h0) c = Some ch -> c <= bound -> 2 <= length ch ->
    (is_sub o = true -> hasN = true) ->
    exists Pl Nl tds h1 P N,
      scan A h0 o T hasN 0 ch [] [] [] = Some (Pl, Nl, tds) /\
      run_todos A V (rev tds) h0 T hasN Pl Nl = Some (h1, P, N) /\
      wf h1 /\ ext h0 h1 /\
      (forall c2, bound <= c2 -> nth_error (cells A h1) c2 = nth_error (cells A h0) c2) /\
      contrib o P N (act A T (den_op A o (map (dn h0) ch))).
  Proof.
    intros VS W0 Ec Hcb Hlen HN.
    destruct (wf_children A h0 W0 _ _ Ec) as [_ Hch].
    assert (Hval : forall x, In x ch -> exists n, get_node h0 x = Some n) by (intros x Hx; apply Hch; assumption).
    assert (Hbel : forall x, In x ch -> below h0 bound x).
    { intros x Hx o' t' c' ca' E. destruct (Hch x Hx) as [_ Hr]. unfold rk in Hr. rewrite E in Hr. lia. }
    destruct (is_sub o) eqn:Es.
    - (* Subtract *)
      assert (o = Sub) by (destruct o; cbn in Es; congruence). subst o. specialize (HN eq_refl). subst hasN.
      destruct ch as [|x0 rest]; [cbn in Hlen; lia|].
      destruct (scan_uniform h0 Sub T true rest 1) as (LL & tdsN & ES & Pm & Fa).
      { intros y Hy. apply Hval. right. assumption. } { right. lia. } { reflexivity. }
      cbn [is_sub] in ES, Pm, Fa.
      assert (FaN : Forall (fun td => td_uniform h0 Add true rest td /\ below h0 bound (td_id td)) (rev tdsN)).
      { apply Forall_rev. eapply Forall_impl; [|exact Fa]. intros td U. split; [assumption|].
        apply Hbel. right. destruct U as (_ & _ & _ & Hin & _). assumption. }
      (* semantic value of the negative side *)
      assert (NegSem : forall LL', (rev tdsN = [] -> LL' = []) ->
                (rev tdsN <> [] -> LL' <> [] /\ big1 A (bop A Add) (map (lden A) LL') ==
                                     big1 A (bop A Add) (map (cv' h0 T) (map td_id (rev tdsN)))) ->
                bigU A (map (lden A) (LL ++ LL')) == act A T (bigU A (map (dn h0) rest))).
      { intros LL' H0 H1. rewrite map_app.
        rewrite (bigU_merge _ _ (map (cv' h0 T) (map td_id (rev tdsN)))).
        2:{ intros E. apply map_eq_nil, map_eq_nil in E. rewrite (H0 E). reflexivity. }
        2:{ intros E. destruct H1 as [H1 H2]; [intro E'; rewrite E' in E; apply E; reflexivity|].
            split; [destruct LL'; cbn; congruence|exact H2]. }
        rewrite (bigU_perm A LW _ (map (lden A) LL ++ map (cv' h0 T) (map td_id tdsN))).
        2:{ apply Permutation_app_head. rewrite map_rev, map_rev. symmetry. apply Permutation_rev. }
        rewrite (bigU_perm A LW _ _ Pm). rewrite (bigU_congr A LW _ _ (map_cv'_congr h0 T rest)).
        symmetry. apply (act_bigU A LW). }
      cbn [scan is_sub Nat.eqb negb andb].
      destruct (Hval x0 (or_introl eq_refl)) as [n0 En0]. rewrite En0.
      destruct n0 as [l0|o0 t0 c0 ca0].
      + (* first operand is a leaf *)
        rewrite scan_app, ES. cbn [app].
        destruct (run_todos_uniform V bound Add true T true rest VS ltac:(congruence) ltac:(auto)
                    (rev tdsN) h0 h0 [ltransform A T l0] LL W0 W0 (ext_refl A LW h0) FaN)
          as (h1 & LL' & ER & W1 & X1 & C1 & Hnil & Hcons).
        exists [ltransform A T l0], LL, tdsN, h1, [ltransform A T l0], (LL ++ LL').
        split; [reflexivity|]. split; [exact ER|]. split; [assumption|]. split; [assumption|]. split; [assumption|].
        split; [congruence|]. cbn [map bigU fold_right den_op].
        rewrite (union_empty_r A LW), (lden_ltransform A LW), (NegSem LL' Hnil Hcons).
        rewrite (act_diff A LW). rewrite (dn_leaf A h0 x0 l0 En0). reflexivity.
      + (* first operand is an op node: its frame is pushed first, popped last *)
        rewrite scan_app, ES. cbn [app].
        destruct (run_todos_uniform V bound Add true T true rest VS ltac:(congruence) ltac:(auto)
                    (rev tdsN) h0 h0 [] LL W0 W0 (ext_refl A LW h0) FaN)
          as (h1 & LL' & ER & W1 & X1 & C1 & Hnil & Hcons).
        destruct (ext_op A _ _ X1 _ _ _ _ _ En0) as [ca0' En0'].
        destruct (VS h1 x0 Sub T true true o0 t0 c0 ca0' W1 En0'
                     (Hbel x0 (or_introl eq_refl) _ _ _ _ En0) ltac:(auto))
          as (h2 & L1 & L2 & EV & W2 & X2 & C2 & _ & Hc).
        destruct (Hc eq_refl) as [Hne Hv].
        exists [], LL, (mkTodo x0 Sub false true :: tdsN), h2, L1, ((LL ++ LL') ++ L2).
        split; [reflexivity|]. split.
        { cbn [rev]. rewrite run_todos_app, ER.
          cbn [run_todos td_id td_pop td_neg td_d2 negb orb andb]. rewrite EV. reflexivity. }
        split; [assumption|].
        split; [eapply (ext_trans A LW); eassumption|]. split.
        { intros c2 Hc2. rewrite C2; [apply C1; assumption|].
          pose proof (Hbel x0 (or_introl eq_refl) _ _ _ _ En0). lia. }
        split; [assumption|]. cbn [map den_op].
        rewrite map_app, (bigU_app A LW). rewrite (union_comm A LW), <- (diff_diff A LW).
        rewrite Hv. rewrite (NegSem LL' Hnil Hcons).
        rewrite (ext_dn A _ _ X1) by (eapply get_node_lt; eassumption).
        rewrite (act_diff A LW). reflexivity.
    - (* Add / Intersect *)
      assert (Ho : o <> Sub) by (destruct o; cbn in Es; congruence).
      destruct (scan_uniform h0 o T hasN ch 0 Hval (or_introl Ho) ltac:(congruence)) as (LL & tds & ES & Pm & Fa).
      rewrite Es in ES, Fa.
      assert (FaN : Forall (fun td => td_uniform h0 o false ch td /\ below h0 bound (td_id td)) (rev tds)).
      { apply Forall_rev. eapply Forall_impl; [|exact Fa]. intros td U. split; [assumption|].
        apply Hbel. destruct U as (_ & _ & _ & Hin & _). assumption. }
      destruct (run_todos_uniform V bound o false T hasN ch VS Ho ltac:(congruence)
                  (rev tds) h0 h0 LL [] W0 W0 (ext_refl A LW h0) FaN)
        as (h1 & LL' & ER & W1 & X1 & C1 & Hnil & Hcons).
      exists LL, [], tds, h1, (LL ++ LL'), [].
      split; [assumption|]. split; [exact ER|]. split; [assumption|]. split; [assumption|]. split; [assumption|].
      assert (Hchne : ch <> []) by (destruct ch; cbn in Hlen; [lia|congruence]).
      assert (Sem : big1 A (bop A o) (map (lden A) (LL ++ LL')) == act A T (den_op A o (map (dn h0) ch))).
      { rewrite map_app.
        rewrite (big1_merge _ (bop_acop A LW o Ho) _ _ (map (cv' h0 T) (map td_id (rev tds)))).
        2:{ intros E. apply map_eq_nil, map_eq_nil in E. rewrite (Hnil E). reflexivity. }
        2:{ intros E. destruct Hcons as [H1 H2]; [intro E'; rewrite E' in E; apply E; reflexivity|].
            split; [destruct LL'; cbn; congruence|exact H2]. }
        rewrite (big1_perm A LW _ (bop_acop A LW o Ho) _ (map (lden A) LL ++ map (cv' h0 T) (map td_id tds))).
        2:{ apply Permutation_app_head. rewrite map_rev, map_rev. symmetry. apply Permutation_rev. }
        rewrite (big1_perm A LW _ (bop_acop A LW o Ho) _ _ Pm).
        rewrite (big1_congr A LW _ (bop_acop A LW o Ho) _ _ (map_cv'_congr h0 T ch)).
        rewrite <- (act_big1 A LW o T _ Ho).
        rewrite (den_op_big1 o _ Ho) by (destruct ch; cbn; congruence). reflexivity. }
      split.
      { intro E. apply (f_equal (map (lden A))) in E. cbn in E.
        assert (Pl : Permutation (map (lden A) LL ++ map (cv' h0 T) (map td_id tds)) (map (cv' h0 T) ch)) by exact Pm.
        destruct (app_eq_nil _ _ (eq_trans (eq_sym (map_app _ _ _)) E)) as [E1 E2].
        apply map_eq_nil in E1, E2. subst LL LL'.
        destruct tds as [|td tds].
        - cbn in Pl. apply Permutation_nil in Pl. apply map_eq_nil in Pl. congruence.
        - destruct Hcons as [H _]; [destruct (rev (td :: tds)) eqn:Er; [|congruence];
            apply (f_equal (@length _)) in Er; rewrite rev_length in Er; discriminate|]. congruence. }
      destruct o; [|congruence|]; (split; [reflexivity|exact Sem]).
  Qed.

  Lemma Vspec_mono V n m : Vspec V n -> m <= n -> Vspec V m.
  Proof. intros VS Hm h id pop T has1 has2 o t c ca W E Hc Hp. eapply VS; [exact W|exact E|lia|exact Hp]. Qed.

  (* ---------------- visit ---------------- *)
  Lemma visit_ok : forall n fuel, n <= fuel -> Vspec (visit A uniq ovl sz kmax fuel) n.
  Proof.
    induction n as [|n IH]; intros fuel Hf h id pop T has1 has2 o t c ca W E Hc Hpre; [lia|].
    destruct fuel as [|f]; [lia|]. specialize (IH f ltac:(lia)).
    cbn [visit]. rewrite E.
    pose proof (wf_cell A h W _ _ _ _ _ E) as Hcl.
    destruct (nth_error (cells A h) c) as [ch|] eqn:Ec; [|apply nth_error_None in Ec; lia].
    destruct (can_collapse A uniq h id o pop has1 (length ch)) as [collapse h0] eqn:ECC.
    destruct (can_collapse_spec _ _ _ _ _ _ _ _ ECC) as (SS & Hone & Hcol).
    pose proof (same_wf _ _ SS W) as W0. pose proof (same_ext _ _ SS) as X0.
    pose proof (same_get _ _ SS) as G0. pose proof (same_dn _ _ SS) as D0.
    assert (Ec0 : nth_error (cells A h0) c = Some ch) by (rewrite (proj2 SS); assumption).
    assert (E0 : get_node h0 id = Some (NOp o t c ca)) by (rewrite G0; assumption).
    assert (Cs0 : forall c2, nth_error (cells A h0) c2 = nth_error (cells A h) c2) by (intro; rewrite (proj2 SS); reflexivity).
    destruct (wf_children A h W _ _ Ec) as [[Hlen|(rid & l & -> & Erid)] Hch].
    - (* raw cell *)
      assert (Hcol' : collapse = true -> has1 = true /\ o = pop).
      { intros Hcl'. destruct (Hcol Hcl') as [H1 [H2|H2]]; [split; [assumption|apply op_eqb_eq; assumption]|lia]. }
      set (T2 := if collapse then mmul A T t else mone A).
      set (hasN := if collapse then has2 else true).
      assert (HN : is_sub o = true -> hasN = true).
      { intros Hs. unfold hasN. destruct collapse; [|reflexivity]. destruct (Hcol' eq_refl) as [H1 <-].
        apply Hpre; [assumption|]. destruct o; cbn in Hs; congruence. }
      destruct (gather_ok (visit A uniq ovl sz kmax f) c h0 o T2 hasN c ch (Vspec_mono _ n c IH ltac:(lia)) W0 Ec0 ltac:(lia) Hlen HN)
        as (Pl & Nl & tds & h1 & P & N & ES & ER & W1 & X1 & C1 & Hctr).
      rewrite ES, ER.
      assert (X01 : ext h h1) by (eapply (ext_trans A LW); eassumption).
      assert (Hdn : dn h id = act A t (den_op A o (map (dn h0) ch))).
      { rewrite (dn_op A h W _ _ _ _ _ _ E Ec). f_equal. f_equal. apply map_ext. intros; symmetry; apply D0. }
      destruct collapse.
      + destruct (Hcol' eq_refl) as [-> <-].
        exists h1, P, N. split; [reflexivity|]. split; [assumption|]. split; [assumption|]. split.
        { intros c2 Hc2. rewrite C1 by lia. apply Cs0. }
        split; [discriminate|]. intros _. unfold T2 in Hctr.
        destruct Hctr as [Hne Hv]. split; [assumption|].
        rewrite Hdn. destruct o; (try destruct Hv as [HN0 Hv]; try split; try assumption);
          rewrite Hv; apply (act_mul A LW).
      + (* finalize *)
        destruct (ext_op A _ _ X1 _ _ _ _ _ E0) as [ca1 E1].
        assert (Ec1 : nth_error (cells A h1) c = Some ch) by (rewrite C1 by lia; assumption).
        destruct Hctr as [HPne Hv]. unfold T2 in Hv.
        assert (Hsem : sem_PN A o P N == den_op A o (map (dn h1) ch)).
        { transitivity (den_op A o (map (dn h0) ch)).
          - destruct o; cbn [sem_PN].
            + destruct Hv as [_ Hv]. rewrite (bigU_big1 A LW) by (destruct P; cbn; congruence).
              cbn [bop] in Hv. rewrite Hv. apply (act_one A LW).
            + rewrite Hv. apply (act_one A LW).
            + destruct Hv as [_ Hv]. cbn [bop] in Hv. rewrite Hv. apply (act_one A LW).
          - apply (den_op_congr A LW). apply Forall2_map_in. intros y Hy. symmetry.
            apply (ext_dn A _ _ X1). destruct (wf_children A h0 W0 _ _ Ec0) as [_ Hch0].
            destruct (Hch0 y Hy) as [[ny Hny] _]. eapply get_node_lt; eassumption. }
        destruct (finalize_ok A LW ovl sz kmax OS K2 h1 id o t c ca1 ch P N W1 E1 Ec1 HPne
                    ltac:(intros Ho; destruct o; [|congruence|]; destruct Hv; assumption) Hsem)
          as (h2 & cl & EF & W2 & X2 & Hcl2 & Hca & C2).
        rewrite EF.
        assert (Hd1 : dn h1 id == dn h id).
        { rewrite (ext_dn A _ _ X1) by (eapply get_node_lt; eassumption). rewrite D0. reflexivity. }
        exists h2, (if has1 then [ltransform A T cl] else []), [].
        split; [reflexivity|]. split; [assumption|]. split; [eapply (ext_trans A LW); eassumption|]. split.
        { intros c2 Hc2. rewrite C2 by lia. rewrite C1 by lia. apply Cs0. }
        split.
        * intros ->. split; [reflexivity|]. split; [reflexivity|]. eapply cached_ok_eq; eassumption.
        * intros ->. apply contrib_single. rewrite (lden_ltransform A LW), Hcl2, Hd1. reflexivity.
    - (* evaluated cell: a single leaf *)
      cbn [length] in *. specialize (Hone eq_refl). subst collapse.
      assert (Erid0 : get_node h0 rid = Some (NLeaf l)) by (rewrite G0; assumption).
      cbn [scan is_sub Nat.eqb negb andb]. rewrite andb_false_r. rewrite Erid0. cbn [scan rev run_todos app].
      assert (Hdn : dn h id == act A t (lden A l)).
      { rewrite (dn_op A h W _ _ _ _ _ _ E Ec). cbn [map]. rewrite (den_op_single A LW).
        rewrite (dn_leaf A h rid l Erid). reflexivity. }
      destruct has1.
      + exists h0, [ltransform A (mmul A T t) l], []. split; [reflexivity|]. split; [assumption|].
        split; [assumption|]. split; [intros; apply Cs0|]. split; [discriminate|]. intros _.
        apply contrib_single. rewrite (lden_ltransform A LW), (act_mul A LW), Hdn. reflexivity.
      + assert (Hsem : sem_PN A o [ltransform A (mone A) l] [] == den_op A o (map (dn h0) [rid])).
        { rewrite sem_PN_single, (lden_ltransform A LW), (act_one A LW). cbn [map].
          rewrite (den_op_single A LW), (dn_leaf A h0 rid l Erid0). reflexivity. }
        destruct (finalize_ok A LW ovl sz kmax OS K2 h0 id o t c ca [rid] [ltransform A (mone A) l] [] W0 E0 Ec0
                    ltac:(congruence) ltac:(auto) Hsem)
          as (h2 & cl & EF & W2 & X2 & Hcl2 & Hca & C2).
        rewrite EF. exists h2, [], []. split; [reflexivity|]. split; [assumption|].
        split; [eapply (ext_trans A LW); eassumption|]. split.
        { intros c2 Hc2. rewrite C2 by lia. apply Cs0. }
        split; [|discriminate]. intros _. split; [reflexivity|]. split; [reflexivity|].
        eapply cached_ok_eq; [|eassumption]. rewrite D0. reflexivity.
  Qed.

  (* ---------------- ToLeafNode, big-step ---------------- *)
  Theorem to_leaf_rec_ok h id o t c ca fuel :
    wf h -> get_node h id = Some (NOp o t c ca) -> length (cells A h) <= fuel ->
    exists h' cid l, to_leaf_rec A uniq ovl sz kmax fuel h id = Some (h', cid) /\
      wf h' /\ ext h h' /\ get_node h' cid = Some (NLeaf l) /\ lden A l == dn h id /\
      cache_of A h' id = Some cid.
  Proof.
    intros W E Hf. unfold to_leaf_rec. rewrite E. destruct ca as [cid|].
    - destruct (wf_cache A h W _ _ _ _ _ E) as (l & El & Hl).
      exists h, cid, l. split; [reflexivity|]. split; [assumption|]. split; [apply (ext_refl A LW)|].
      split; [assumption|]. split; [assumption|]. unfold cache_of. rewrite E. reflexivity.
    - pose proof (wf_cell A h W _ _ _ _ _ E) as Hc.
      destruct (visit_ok (length (cells A h)) fuel Hf h id o (mone A) false false o t c None W E Hc ltac:(discriminate))
        as (h' & L1 & L2 & EV & W' & X' & _ & Hroot & _).
      rewrite EV. destruct (Hroot eq_refl) as (_ & _ & cid & l & Hca & Hl & Hd).
      rewrite Hca. exists h', cid, l. auto 10.
  Qed.
End Visit.

(* evaluation never changes the NUMBER of cells (fuel accounting for histories) *)
Section Len.
  Variable A : CsgOps.
  Variable uniq : heap A -> nat -> bool.
  Variable ovl : (sol A * tr A) -> (sol A * tr A) -> bool.
  Variable sz : (sol A * tr A) -> Z.
  Variable kmax : nat.

  Lemma finalize_len h id P N h' cl :
    finalize A ovl sz kmax h id P N = Some (h', cl) -> length (cells A h') = length (cells A h).
  Proof.
    unfold finalize. destruct (get_node A h id) as [[l|o t c [cid|]]|]; try discriminate.
    - destruct (get_node A h cid) as [[l|? ? ? ?]|]; try discriminate. intros H; inversion H; subst; reflexivity.
    - destruct (eval_op A ovl sz kmax o P N); try discriminate. intros H; inversion H; subst. cbn. apply set_nth_length.
  Qed.

  Lemma run_todos_len (V : visit_t A) :
    (forall h id pop T a b h' L1 L2, V h id pop T a b = Some (h', L1, L2) -> length (cells A h') = length (cells A h)) ->
    forall tds h T hasN P N h' P' N',
      run_todos A V tds h T hasN P N = Some (h', P', N') -> length (cells A h') = length (cells A h).
  Proof.
    intros HV. induction tds as [|td r IH]; intros h T hasN P N h' P' N' H; cbn [run_todos] in H.
    - inversion H; subst; reflexivity.
    - destruct (V h (td_id td) (td_pop td) T (negb (td_neg td) || hasN) (td_d2 td && hasN)) as [[[h1 L1] L2]|] eqn:E; [|discriminate].
      apply HV in E. destruct (td_neg td); apply IH in H; congruence.
  Qed.

  Lemma visit_len fuel : forall h id pop T a b h' L1 L2,
    visit A uniq ovl sz kmax fuel h id pop T a b = Some (h', L1, L2) -> length (cells A h') = length (cells A h).
  Proof.
    induction fuel as [|f IH]; intros h id pop T a b h' L1 L2 H; cbn [visit] in H; [discriminate|].
    destruct (get_node A h id) as [[l|o t c ca]|]; try discriminate.
    destruct (nth_error (cells A h) c) as [ch|]; [|discriminate].
    destruct (can_collapse A uniq h id o pop a (length ch)) as [col h0] eqn:EC.
    assert (E0 : cells A h0 = cells A h).
    { unfold can_collapse in EC. destruct (a && op_eqb o pop); inversion EC; subst; reflexivity. }
    destruct (scan A h0 o (if col then mmul A T t else mone A) (if col then b else true) 0 ch [] [] []) as [[[Pl Nl] tds]|]; [|discriminate].
    destruct (run_todos A (visit A uniq ovl sz kmax f) (rev tds) h0 (if col then mmul A T t else mone A)
                (if col then b else true) Pl Nl) as [[[h1 P] N]|] eqn:ER; [|discriminate].
    apply (run_todos_len _ IH) in ER. destruct col.
    - inversion H; subst. congruence.
    - destruct (finalize A ovl sz kmax h1 id P N) as [[h2 cl]|] eqn:EF; [|discriminate].
      apply finalize_len in EF. inversion H; subst. congruence.
  Qed.

  Lemma to_leaf_rec_len fuel h id h' cid :
    to_leaf_rec A uniq ovl sz kmax fuel h id = Some (h', cid) -> length (cells A h') = length (cells A h).
  Proof.
    unfold to_leaf_rec. destruct (get_node A h id) as [[l|o t c [c0|]]|]; try discriminate.
    - intros H; inversion H; subst; reflexivity.
    - destruct (visit A uniq ovl sz kmax fuel h id o (mone A) false false) as [[[h1 L1] L2]|] eqn:E; [|discriminate].
      apply visit_len in E. destruct (cache_of A h1 id); [|discriminate]. intros H; inversion H; subst. assumption.
  Qed.
End Len.
