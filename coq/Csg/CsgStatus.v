(* The status-lifted carrier satisfies CsgLaws whenever the code reported for two
   errored operands is combined by an associative commutative join (up to the
   chosen equivalence of codes).  Two instances:
     pinned code: first error wins, all codes identified  -> every C03 theorem holds
                  for (solid or "some error"): error-ness and the solid are history independent;
     smallest code wins, codes compared exactly           -> the exact Status is history independent.
   With the pinned rule and exact comparison the statement is FALSE: status_code_refuted. *)
From Coq Require Import List ZArith Bool Arith Lia Setoid Morphisms.
From MV Require Import Csg.CsgDefs Csg.CsgAlgebra Csg.CsgVoxelDefs Csg.CsgVoxel Csg.CsgStatusDefs.
Import ListNotations.

Section LiftLaws.
  Variable A : CsgOps.
  Hypothesis LW : CsgLaws A.
  Variable E : Type.
  Variable ejoin : E -> E -> E.
  Variable eqE : E -> E -> Prop.
  Hypothesis eqE_equiv : Equivalence eqE.
  Hypothesis ejoin_proper : forall a a' b b', eqE a a' -> eqE b b' -> eqE (ejoin a b) (ejoin a' b').
  Hypothesis ejoin_assoc : forall a b c, eqE (ejoin a (ejoin b c)) (ejoin (ejoin a b) c).
  Hypothesis ejoin_comm : forall a b, eqE (ejoin a b) (ejoin b a).
  Local Notation S := (StatOps A E ejoin eqE).
  Local Notation st := (@st A E).
  Let eqA : Equivalence (eqS A) := eq_equiv A LW.
  Local Existing Instance eqA.
  Local Existing Instance eqE_equiv.

  Lemma st_eq_equiv : Equivalence (st_eq A E eqE).
  Proof.
    split.
    - intros [a|e]; cbn; reflexivity.
    - intros [a|e] [b|f]; cbn; auto; intros H; symmetry; assumption.
    - intros [a|e] [b|f] [c|g]; cbn; try tauto; intros H1 H2; etransitivity; eassumption.
  Qed.

  Lemma lift2_proper f : Proper (eqS A ==> eqS A ==> eqS A) f ->
    Proper (st_eq A E eqE ==> st_eq A E eqE ==> st_eq A E eqE) (lift2 A E ejoin f).
  Proof.
    intros Pf [a|e] [a'|e'] Ha [b|g] [b'|g'] Hb; cbn in *; try contradiction; auto.
    apply Pf; assumption.
  Qed.

  Ltac st_cases :=
    repeat match goal with x : st |- _ => destruct x end; cbn;
    first [ reflexivity | tauto
          | apply (union_assoc A LW) | apply (union_comm A LW) | apply (union_empty_l A LW)
          | apply (inter_assoc A LW) | apply (inter_comm A LW) | apply (diff_empty_r A LW)
          | apply (diff_diff A LW) | apply (act_union A LW) | apply (act_inter A LW) | apply (act_diff A LW)
          | apply (act_empty A LW) | apply (act_mul A LW) | apply (act_one A LW)
          | apply ejoin_assoc | apply ejoin_comm | (symmetry; apply ejoin_assoc) ].

  Lemma bigU_lift (l : list st) :
    st_eq A E eqE (bigU S l)
      match errs A E l with
      | [] => Ok (bigU A (oks A E l))
      | e :: r => Err (ejoin_all E ejoin e r)
      end.
  Proof.
    pose proof st_eq_equiv as EQ.
    induction l as [|x l IH]; [cbn; reflexivity|].
    change (bigU S (x :: l)) with (lift2 A E ejoin (union A) x (bigU S l)).
    rewrite (lift2_proper (union A) (union_proper A LW) x x ltac:(reflexivity) _ _ IH).
    destruct x as [a|e]; cbn [errs oks]; destruct (errs A E l) as [|e' r]; cbn; reflexivity.
  Qed.

  Lemma StatLaws : CsgLaws S.
  Proof.
    constructor; unfold StatOps; cbn [sol tr eqS union inter diff empty compose dj mone mmul m_is_one act].
    - exact st_eq_equiv.
    - apply lift2_proper. exact (union_proper A LW).
    - apply lift2_proper. exact (inter_proper A LW).
    - apply lift2_proper. exact (diff_proper A LW).
    - intros m [a|e] [b|f] H; cbn in *; try contradiction; auto. apply (act_proper A LW). assumption.
    - intros a b c. st_cases.
    - intros a b. st_cases.
    - intros a. st_cases.
    - intros a b c. st_cases.
    - intros a b. st_cases.
    - intros a. st_cases.
    - intros a b c. st_cases.
    - intros m a b. st_cases.
    - intros m a b. st_cases.
    - intros m a b. st_cases.
    - intros m. cbn. apply (act_empty A LW).
    - intros m n a. st_cases.
    - intros a. st_cases.
    - intros m [a|e] H; cbn; [apply (is_one_act A LW); assumption|reflexivity].
    - intros [a|e] [b|f]; cbn; auto. apply (dj_sym A LW).
    - intros l Hpd. pose proof st_eq_equiv as EQ.
      etransitivity; [|symmetry; apply bigU_lift].
      unfold st_compose. destruct (errs A E l) as [|e r] eqn:Ee; cbn; [|reflexivity].
      apply (compose_disjoint A LW).
      (* without errored elements the list is its own [oks] *)
      clear - Hpd Ee. induction l as [|x l IH]; cbn; [exact I|].
      destruct x as [a|e]; [|discriminate]. cbn in Ee. destruct Hpd as [H1 H2]. split; [|apply IH; assumption].
      clear - H1 Ee. induction l as [|y l IHl]; cbn; [constructor|].
      destruct y as [b|f]; [|discriminate]. inversion H1; subst. constructor; [assumption|apply IHl; assumption].
  Qed.
End LiftLaws.

(* the pinned rule *)
Lemma StatLaws_first_wins (A : CsgOps) (E : Type) : CsgLaws A -> CsgLaws (StatOps A E first_wins any_code).
Proof.
  intros LW. apply StatLaws; try assumption; unfold any_code; try (intros; exact I).
  split; intros ?; intros; exact I.
Qed.

(* an order-independent rule: the smallest code wins, codes compared exactly *)
Lemma StatLaws_min_wins (A : CsgOps) : CsgLaws A -> CsgLaws (StatOps A Z Z.min (@eq Z)).
Proof.
  intros LW. apply StatLaws; try assumption.
  - exact eq_equivalence.
  - intros; subst; reflexivity.
  - intros; apply Z.min_assoc.
  - intros; apply Z.min_comm.
Qed.

Lemma svovl_sound : ovl_sound SVoxOps svovl.
Proof.
  intros [[x|e] ma] [[y|f] mb] H; unfold disjoint; cbn; try exact I.
  unfold svovl in H. cbn in H. exact (vovl_sound (x, ma) (y, mb) H).
Qed.
