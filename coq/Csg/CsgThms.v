(* The statements of property C03, proved from CsgModel / CsgVisit / CsgAlgebra. *)
From Coq Require Import List ZArith Bool Arith Lia Permutation Setoid Morphisms.
From MV Require Import Csg.CsgDefs Csg.CsgAlgebra Csg.CsgHeap Csg.CsgVisit Csg.CsgModel
     Csg.CsgVoxelDefs Csg.CsgVoxel.
Import ListNotations.

(* everything an evaluation may be told from outside *)
Record oracles (A : CsgOps) := mkOracles {
  o_uniq : heap A -> nat -> bool;
  o_ovl : (sol A * tr A) -> (sol A * tr A) -> bool;
  o_sz : (sol A * tr A) -> Z;
  o_kmax : nat
}.
Definition oracles_ok (A : CsgOps) (o : oracles A) : Prop :=
  ovl_sound A (o_ovl A o) /\ 2 <= o_kmax A o.

Definition run (A : CsgOps) (o : oracles A) (fuel : nat) (stack : bool) (l : list (hop A)) : option (state A) :=
  do_hops A (o_uniq A o) (o_ovl A o) (o_sz A o) (o_kmax A o) fuel stack (init_state A) l.

Definition strip_force (A : CsgOps) (l : list (hop A)) : list (hop A) :=
  filter (fun x => match x with HForce _ _ => false | _ => true end) l.

Section Thms.
  Variable A : CsgOps.
  Hypothesis LW : CsgLaws A.
  Local Notation "a == b" := (eqS A a b) (at level 70).
  Let eqE : Equivalence (eqS A) := eqS_Equiv A LW.
  Let unP : Proper (eqS A ==> eqS A ==> eqS A) (union A) := union_Proper A LW.
  Let inP : Proper (eqS A ==> eqS A ==> eqS A) (inter A) := inter_Proper A LW.
  Let diP : Proper (eqS A ==> eqS A ==> eqS A) (diff A) := diff_Proper A LW.
  Let acP : forall m, Proper (eqS A ==> eqS A) (act A m) := act_Proper A LW.
  Local Existing Instance eqE.
  Local Existing Instance unP.
  Local Existing Instance inP.
  Local Existing Instance diP.
  Local Existing Instance acP.

  Lemma do_hops_app uniq ovl sz kmax fuel b : forall l1 l2 s,
    do_hops A uniq ovl sz kmax fuel b s (l1 ++ l2) =
    match do_hops A uniq ovl sz kmax fuel b s l1 with
    | Some s1 => do_hops A uniq ovl sz kmax fuel b s1 l2
    | None => None
    end.
  Proof.
    induction l1 as [|x r IH]; intros l2 s; cbn [app do_hops]; [reflexivity|].
    destruct (do_hop A uniq ovl sz kmax fuel b s x); [apply IH|reflexivity].
  Qed.

  (* force_denotes: run ANY history, then force ANY live handle, under ANY
     oracle answers: everything is defined (fuel = length of the history + 1),
     the handle now holds a LEAF whose solid is the value the eager algebraic
     reading of the program gives it, every node that existed before the force
     still denotes what it denoted, and every handle still has its value. *)
  Theorem force_denotes_thm (O : oracles A) (l : list (hop A)) sp a v :
    oracles_ok A O -> spec_hops A [] l = Some sp -> sp_handle A sp a = Some v ->
    exists s s' lid lf,
      run A O (S (length l)) false l = Some s /\
      run A O (S (length l)) false (l ++ [HForce A a]) = Some s' /\
      wf A (st_heap A s) /\ wf A (st_heap A s') /\
      handle A s' a = Some lid /\ get_node A (st_heap A s') lid = Some (NLeaf A lf) /\ lden A lf == v /\
      (forall id, id < length (nodes A (st_heap A s)) -> dn A (st_heap A s') id == dn A (st_heap A s) id) /\
      (forall b w, sp_handle A sp b = Some w ->
         exists i i', handle A s b = Some i /\ handle A s' b = Some i' /\
                      dn A (st_heap A s) i == w /\ dn A (st_heap A s') i' == w).
  Proof.
    intros [OS K2] Hsp Ha. unfold run.
    destruct (do_hops_ok A LW (o_uniq A O) (o_ovl A O) (o_sz A O) (o_kmax A O) OS K2 l (S (length l))
                (init_state A) [] sp (rel_init A) Hsp ltac:(cbn; lia)) as (s & D & R & X & Lc).
    cbn in Lc.
    destruct (force_ok A LW (o_uniq A O) (o_ovl A O) (o_sz A O) (o_kmax A O) OS K2 (S (length l)) s sp a v R Ha ltac:(lia))
      as (s' & lid & lf & F & Hh & Hg & Hl & R' & X').
    exists s, s', lid, lf. split; [assumption|]. split.
    { rewrite do_hops_app, D. cbn [do_hops do_hop]. rewrite F. reflexivity. }
    split; [apply R|]. split; [apply R'|]. split; [assumption|]. split; [assumption|]. split; [assumption|].
    split; [intros id Hid; apply (ext_dn A _ _ X'); assumption|].
    intros b w Hb. destruct (rel_handle A _ _ _ _ R Hb) as (i & Hi & _ & Hd).
    destruct (rel_handle A _ _ _ _ R' Hb) as (i' & Hi' & _ & Hd'). eauto 10.
  Qed.

  (* two programs, two sets of oracle answers: handles with equal algebraic
     values are forced to leaves with equal solids *)
  Theorem same_value_same_solid_thm (O1 O2 : oracles A) l1 l2 sp1 sp2 a1 a2 v1 v2 :
    oracles_ok A O1 -> oracles_ok A O2 ->
    spec_hops A [] l1 = Some sp1 -> spec_hops A [] l2 = Some sp2 ->
    sp_handle A sp1 a1 = Some v1 -> sp_handle A sp2 a2 = Some v2 -> v1 == v2 ->
    exists s1 s2 lid1 lid2 lf1 lf2,
      run A O1 (S (length l1)) false (l1 ++ [HForce A a1]) = Some s1 /\
      run A O2 (S (length l2)) false (l2 ++ [HForce A a2]) = Some s2 /\
      handle A s1 a1 = Some lid1 /\ get_node A (st_heap A s1) lid1 = Some (NLeaf A lf1) /\
      handle A s2 a2 = Some lid2 /\ get_node A (st_heap A s2) lid2 = Some (NLeaf A lf2) /\
      lden A lf1 == lden A lf2.
  Proof.
    intros K1 K2 S1 S2 H1 H2 Hv.
    destruct (force_denotes_thm O1 l1 sp1 a1 v1 K1 S1 H1) as (_ & s1 & lid1 & lf1 & _ & R1 & _ & _ & G1 & N1 & D1 & _).
    destruct (force_denotes_thm O2 l2 sp2 a2 v2 K2 S2 H2) as (_ & s2 & lid2 & lf2 & _ & R2 & _ & _ & G2 & N2 & D2 & _).
    exists s1, s2, lid1, lid2, lf1, lf2. repeat (split; [assumption|]). rewrite D1, D2. assumption.
  Qed.

  (* forcing is invisible to the algebraic reading *)
  Lemma spec_strip : forall l sp sp', spec_hops A sp l = Some sp' -> spec_hops A sp (strip_force A l) = Some sp'.
  Proof.
    induction l as [|x r IH]; intros sp sp' H; cbn [spec_hops strip_force filter] in *; [assumption|].
    destruct (spec_hop A sp x) as [sp1|] eqn:E; [|discriminate].
    destruct x; cbn [spec_hops]; try (rewrite E; apply IH; assumption).
    cbn in E. destruct (sp_handle A sp a); [|discriminate]. inversion E; subst. apply IH. assumption.
  Qed.

  (* lazy = eager = any interleaving of forcing calls: two histories that build
     the same values (equal after deleting the forcing calls) give, for every
     handle, leaves denoting the same solid *)
  Theorem lazy_eq_eager_thm (O1 O2 : oracles A) l1 l2 sp1 sp2 a v :
    oracles_ok A O1 -> oracles_ok A O2 ->
    strip_force A l1 = strip_force A l2 ->
    spec_hops A [] l1 = Some sp1 -> spec_hops A [] l2 = Some sp2 ->
    sp_handle A sp1 a = Some v ->
    sp1 = sp2 /\
    exists s1 s2 lid1 lid2 lf1 lf2,
      run A O1 (S (length l1)) false (l1 ++ [HForce A a]) = Some s1 /\
      run A O2 (S (length l2)) false (l2 ++ [HForce A a]) = Some s2 /\
      handle A s1 a = Some lid1 /\ get_node A (st_heap A s1) lid1 = Some (NLeaf A lf1) /\
      handle A s2 a = Some lid2 /\ get_node A (st_heap A s2) lid2 = Some (NLeaf A lf2) /\
      lden A lf1 == lden A lf2.
  Proof.
    intros K1 K2 E S1 S2 Ha.
    assert (sp1 = sp2).
    { apply spec_strip in S1. apply spec_strip in S2. rewrite E in S1. congruence. }
    subst sp2. split; [reflexivity|].
    apply (same_value_same_solid_thm O1 O2 l1 l2 sp1 sp1 a a v v); try assumption. reflexivity.
  Qed.

  (* ---------------- the evaluator's rewrites, as identities of values ---------------- *)
  Lemma sub_sub_value a b c :
    den_op A Sub [den_op A Sub [a; b]; c] == den_op A Sub [a; den_op A Add [b; c]].
  Proof.
    cbn. rewrite !(union_empty_r A LW). apply (diff_diff A LW).
  Qed.

  Lemma den_op_app o l1 l2 : o <> Sub -> l1 <> [] -> l2 <> [] ->
    den_op A o (l1 ++ l2) == bop A o (den_op A o l1) (den_op A o l2).
  Proof.
    intros Ho H1 H2. destruct o; [|congruence|]; cbn [den_op bop].
    - apply (bigU_app A LW).
    - apply (big1_app A LW _ (acop_inter A LW)); assumption.
  Qed.

  (* nested = flat, any position, any sizes (o = Add or Intersect) *)
  Theorem nested_eq_flat_value o l1 l2 l3 : o <> Sub -> l2 <> [] ->
    den_op A o (l1 ++ den_op A o l2 :: l3) == den_op A o (l1 ++ l2 ++ l3).
  Proof.
    intros Ho H2.
    assert (P := proj1 (bop_acop A LW o Ho)).
    assert (Hs : forall x, den_op A o [x] == x) by (intro; apply (den_op_single A LW)).
    assert (G : forall l, den_op A o (den_op A o l2 :: l) == den_op A o (l2 ++ l)).
    { intros l. destruct l as [|y l].
      - rewrite app_nil_r. apply Hs.
      - change (den_op A o l2 :: y :: l) with ([den_op A o l2] ++ (y :: l)).
        rewrite !(den_op_app o) by congruence. rewrite Hs. reflexivity. }
    destruct l1 as [|x l1]; [apply G|].
    rewrite (den_op_app o (x :: l1)) by congruence.
    rewrite (den_op_app o (x :: l1) (l2 ++ l3)) by (try congruence; destruct l2; cbn; congruence).
    rewrite G. reflexivity.
  Qed.

  Fixpoint mprod (ms : list (tr A)) : tr A :=
    match ms with [] => mone A | m :: r => mmul A (mprod r) m end.
  Fixpoint act_chain (ms : list (tr A)) (v : sol A) : sol A :=
    match ms with [] => v | m :: r => act_chain r (act A m v) end.

  (* applying m1, then m2, ..., then mk = applying their product once *)
  Theorem transform_chain_value ms v : act_chain ms v == act A (mprod ms) v.
  Proof.
    revert v. induction ms as [|m r IH]; intros v; cbn.
    - symmetry. apply (act_one A LW).
    - rewrite IH. symmetry. apply (act_mul A LW).
  Qed.

  (* ---------------- BatchBoolean: the pop order is irrelevant ---------------- *)
  Theorem batch_heap_order_irrelevant_thm o (sz1 sz2 : (sol A * tr A) -> Z) (l1 l2 : list (sol A * tr A)) :
    o <> Sub -> l1 <> [] -> Permutation l1 l2 ->
    exists r1 r2, batch_boolean A sz1 o l1 = Some r1 /\ batch_boolean A sz2 o l2 = Some r2 /\
                  lden A r1 == lden A r2 /\ lden A r1 == big1 A (bop A o) (map (lden A) l1).
  Proof.
    intros Ho Hne HP.
    destruct (batch_boolean_ok A LW sz1 o Ho l1 Hne) as (r1 & E1 & D1).
    assert (Hne2 : l2 <> []) by (intro; subst; apply Permutation_sym, Permutation_nil in HP; congruence).
    destruct (batch_boolean_ok A LW sz2 o Ho l2 Hne2) as (r2 & E2 & D2).
    exists r1, r2. repeat (split; [assumption|]). split; [|assumption].
    rewrite D1, D2. apply (big1_perm A LW _ (bop_acop A LW o Ho)). apply Permutation_map. assumption.
  Qed.

  (* any bracketing / any order of pairwise combination *)
  Inductive btree := BLeaf (x : sol A) | BNode (a b : btree).
  Fixpoint bt_leaves (t : btree) : list (sol A) :=
    match t with BLeaf x => [x] | BNode a b => bt_leaves a ++ bt_leaves b end.
  Fixpoint bt_eval (f : sol A -> sol A -> sol A) (t : btree) : sol A :=
    match t with BLeaf x => x | BNode a b => f (bt_eval f a) (bt_eval f b) end.

  Theorem any_combination_tree_thm o (t : btree) (l : list (sol A)) :
    o <> Sub -> Permutation (bt_leaves t) l -> bt_eval (bop A o) t == big1 A (bop A o) l.
  Proof.
    intros Ho HP. rewrite <- (big1_perm A LW _ (bop_acop A LW o Ho) _ _ HP). clear HP l.
    assert (P := proj1 (bop_acop A LW o Ho)).
    induction t as [x|a IHa b IHb]; cbn; [reflexivity|].
    assert (Na : bt_leaves a <> []) by (clear; induction a; cbn; [congruence|destruct (bt_leaves a1); cbn; congruence]).
    assert (Nb : bt_leaves b <> []) by (clear; induction b; cbn; [congruence|destruct (bt_leaves b1); cbn; congruence]).
    rewrite (big1_app A LW _ (bop_acop A LW o Ho)) by assumption. rewrite IHa, IHb. reflexivity.
  Qed.

  (* ---------------- BatchUnion / Compose ---------------- *)
  Theorem compose_is_union_when_disjoint_thm ovl sz kmax (l : list (sol A * tr A)) :
    ovl_sound A ovl -> 2 <= kmax -> l <> [] ->
    exists r, batch_union A ovl sz kmax l = Some r /\ lden A r == bigU A (map (lden A) l).
  Proof. intros; apply (batch_union_ok A LW); assumption. Qed.
End Thms.

(* ---------------- machine-level instances of the rewrites ---------------- *)
Section Instances.
  Variable A : CsgOps.
  Hypothesis LW : CsgLaws A.

  (* (a - b) - c  and  a - (b + c), each built and forced by the evaluator *)
  Theorem sub_sub_is_sub_union_thm (O1 O2 : oracles A) (a b c : sol A) :
    oracles_ok A O1 -> oracles_ok A O2 ->
    let l1 := [HLeaf A a; HLeaf A b; HLeaf A c; HBool A Sub 0 1; HBool A Sub 3 2] in
    let l2 := [HLeaf A a; HLeaf A b; HLeaf A c; HBool A Add 1 2; HBool A Sub 0 3] in
    exists s1 s2 lid1 lid2 lf1 lf2,
      run A O1 6 false (l1 ++ [HForce A 4]) = Some s1 /\
      run A O2 6 false (l2 ++ [HForce A 4]) = Some s2 /\
      handle A s1 4 = Some lid1 /\ get_node A (st_heap A s1) lid1 = Some (NLeaf A lf1) /\
      handle A s2 4 = Some lid2 /\ get_node A (st_heap A s2) lid2 = Some (NLeaf A lf2) /\
      eqS A (lden A lf1) (lden A lf2).
  Proof.
    intros K1 K2 l1 l2.
    eapply (same_value_same_solid_thm A LW O1 O2 l1 l2 _ _ 4 4); try assumption; try reflexivity.
    apply (sub_sub_value A LW).
  Qed.

  (* one sub-expression x = a + b used under two different transforms *)
  Theorem shared_under_transforms_thm (O : oracles A) (a b : sol A) (m1 m2 : tr A) :
    oracles_ok A O ->
    let l := [HLeaf A a; HLeaf A b; HBool A Add 0 1; HTransform A 2 m1; HTransform A 2 m2; HBool A Sub 3 4] in
    exists s lid lf,
      run A O 7 false (l ++ [HForce A 5]) = Some s /\
      handle A s 5 = Some lid /\ get_node A (st_heap A s) lid = Some (NLeaf A lf) /\
      eqS A (lden A lf) (diff A (act A m1 (union A a b)) (act A m2 (union A a b))).
  Proof.
    intros K l.
    destruct (force_denotes_thm A LW O l _ 5 _ K eq_refl eq_refl) as (_ & s & lid & lf & _ & R & _ & _ & G & N & D & _).
    exists s, lid, lf. repeat (split; [assumption|]).
    pose proof (eqS_Equiv A LW). pose proof (diff_Proper A LW). pose proof (union_Proper A LW).
    pose proof (act_Proper A LW).
    rewrite D. cbn. rewrite !(union_empty_r A LW). reflexivity.
  Qed.

  (* transform chain on an op node, machine level: x.T(m1).T(m2) forced = x.T(m2*m1) forced *)
  Theorem transform_chain_is_product_thm (O1 O2 : oracles A) (a b : sol A) (m1 m2 : tr A) :
    oracles_ok A O1 -> oracles_ok A O2 ->
    let l1 := [HLeaf A a; HLeaf A b; HBool A Int 0 1; HTransform A 2 m1; HTransform A 3 m2] in
    let l2 := [HLeaf A a; HLeaf A b; HBool A Int 0 1; HTransform A 2 (mmul A m2 m1)] in
    exists s1 s2 lid1 lid2 lf1 lf2,
      run A O1 6 false (l1 ++ [HForce A 4]) = Some s1 /\
      run A O2 5 false (l2 ++ [HForce A 3]) = Some s2 /\
      handle A s1 4 = Some lid1 /\ get_node A (st_heap A s1) lid1 = Some (NLeaf A lf1) /\
      handle A s2 3 = Some lid2 /\ get_node A (st_heap A s2) lid2 = Some (NLeaf A lf2) /\
      eqS A (lden A lf1) (lden A lf2).
  Proof.
    intros K1 K2 l1 l2.
    eapply (same_value_same_solid_thm A LW O1 O2 l1 l2 _ _ 4 3); try assumption; try reflexivity.
    pose proof (eqS_Equiv A LW). symmetry. apply (act_mul A LW).
  Qed.
End Instances.

(* ---------------- non-vacuity: the laws have a model, and the evaluator runs on it ---------------- *)
Definition vox_subset (a b : list vox) : bool := forallb (fun p => vmem p b) a.
Definition vox_seteq (a b : list vox) : bool := vox_subset a b && vox_subset b a.

Definition ex_hist : list (hop VoxOps) :=
  [HLeaf VoxOps (vbox 0 2 0 2 0 2); HLeaf VoxOps (vbox 1 3 1 3 1 3); HLeaf VoxOps (vbox 0 1 0 3 0 1);
   HBool VoxOps Add 0 1;                 (* 3: x = a + b *)
   HTransform VoxOps 3 [GT 1 0 0];       (* 4 *)
   HTransform VoxOps 3 [GRz];            (* 5 *)
   HOp VoxOps Sub [4; 5; 2];             (* 6 *)
   HBool VoxOps Add 6 3;                 (* 7: uses x again *)
   HBool VoxOps Add 7 1;                 (* 8: nested union, collapsible *)
   HForce VoxOps 8; HForce VoxOps 3; HForce VoxOps 6].

Definition ex_oracles (u : bool) (k : nat) : oracles VoxOps :=
  mkOracles VoxOps (fun _ _ => u) vovl (fun l => Z.of_nat (length (fst l))) k.

Definition ex_result (stack : bool) (u : bool) (k : nat) (l : list (hop VoxOps)) (a : nat) : option (list vox) :=
  match run VoxOps (ex_oracles u k) 40 stack l with
  | Some s => match handle VoxOps s a with
              | Some id => match get_node VoxOps (st_heap VoxOps s) id with
                           | Some (NLeaf _ lf) => Some (lden VoxOps lf)
                           | _ => None
                           end
              | None => None
              end
  | None => None
  end.

Definition ex_expected : list vox :=
  let x := vunion (vbox 0 2 0 2 0 2) (vbox 1 3 1 3 1 3) in
  vunion (vunion (vdiff (map (apply_tr [GT 1 0 0]) x)
                        (vunion (map (apply_tr [GRz]) x) (vbox 0 1 0 3 0 1))) x) (vbox 1 3 1 3 1 3).

Definition ex_agree (stack u : bool) (k : nat) : bool :=
  match ex_result stack u k ex_hist 8 with
  | Some r => vox_seteq r ex_expected && negb (Nat.eqb (length r) 0)
  | None => false
  end.

(* explicit stack and big-step, truthful and lying use_count oracle, chunked
   and unchunked BatchUnion: one solid, the expected one, and it is not empty *)
Example ex_all_agree :
  forallb (fun '(st, u, k) => ex_agree st u k)
          [(true, true, 1000); (true, false, 1000); (false, true, 1000); (false, false, 1000);
           (true, true, 2); (false, false, 3)] = true.
Proof. vm_compute. reflexivity. Qed.

(* ---------------- the disjointness hypothesis is needed, and the concrete box oracle provides it ---------------- *)
(* In the voxel carrier Compose is juxtaposition (cells covered twice drop out), so it is NOT the union of
   overlapping operands; BatchUnion with the box oracle computed from the cells (vovl, proved sound in
   CsgVoxel.vovl_sound) is the union, BatchUnion with a lying oracle is not. *)
Definition ov_a : list vox * list gen := (vbox 0 2 0 2 0 2, []).
Definition ov_b : list vox * list gen := (vbox 1 3 1 3 1 3, []).
Definition ov_c : list vox * list gen := (vbox 5 6 0 1 0 1, [GT 0 0 1]).

Example compose_of_overlapping_is_not_union :
  vox_seteq (compose VoxOps [fst ov_a; fst ov_b]) (bigU VoxOps [fst ov_a; fst ov_b]) = false.
Proof. vm_compute. reflexivity. Qed.

Example batch_union_sound_vs_lying_oracle :
  (match batch_union VoxOps vovl (fun l => Z.of_nat (length (fst l))) 1000 [ov_a; ov_b; ov_c] with
   | Some r => vox_seteq (lden VoxOps r) (bigU VoxOps (map (lden VoxOps) [ov_a; ov_b; ov_c]))
   | None => false end = true) /\
  (match batch_union VoxOps (fun _ _ => false) (fun l => Z.of_nat (length (fst l))) 1000 [ov_a; ov_b; ov_c] with
   | Some r => vox_seteq (lden VoxOps r) (bigU VoxOps (map (lden VoxOps) [ov_a; ov_b; ov_c]))
   | None => true end = false) /\
  vovl ov_a ov_b = true /\ vovl ov_a ov_c = false.
Proof. vm_compute. repeat split; reflexivity. Qed.

(* compose_is_union_when_disjoint at the concrete instance, with the concrete oracle: no hypothesis left *)
Theorem compose_is_union_voxels_thm (sz : (list vox * list gen) -> Z) (kmax : nat) (l : list (list vox * list gen)) :
  2 <= kmax -> l <> [] ->
  exists r, batch_union VoxOps vovl sz kmax l = Some r /\
            (forall p, In p (lden VoxOps r) <-> exists x, In x l /\ In p (lden VoxOps x)).
Proof.
  intros K Hne. destruct (batch_union_ok VoxOps VoxLaws vovl sz kmax vovl_sound K l Hne) as (r & E & D).
  exists r. split; [exact E|]. intros p. cbn in D. rewrite (D p).
  change (In p (fold_right vunion [] (map (lden VoxOps) l)) <-> exists x, In x l /\ In p (lden VoxOps x)).
  rewrite In_bigU_vox. split.
  - intros (s & Hs & Hp). apply in_map_iff in Hs. destruct Hs as (x & <- & Hx). eauto.
  - intros (x & Hx & Hp). exists (lden VoxOps x). split; [apply in_map; assumption|assumption].
Qed.
