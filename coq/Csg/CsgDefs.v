(* Executable Gallina port of the lazy CSG evaluator:
     src/csg_tree.h, src/csg_tree.cpp (CsgLeafNode, CsgOpNode, SimpleBoolean,
     BatchBoolean, BatchUnion, explicit-stack CsgOpNode::ToLeafNode),
     src/manifold.cpp (Manifold::Boolean / BatchBoolean / Transform /
     GetCsgLeafNode).
   Model only: no proofs here.
   The carrier of solids is abstract (record CsgOps); what the double-precision
   kernel computes (Boolean3, Compose, Impl::Transform) is one operation of the
   carrier each.  Decisions the C++ takes from data that is not part of the
   solid are oracles (Section variables):
     uniq  - the answer of  op_node.use_count() <= 2 && impl_.UseCount() == 1
             for node id, as a function of the whole heap at that moment (the heap
             contains the tick = number of questions asked so far, so any sequence
             of answers is such a function); uniq_rc below DERIVES the answer from
             the heap and the live handles by counting shared_ptr owners;
     ovl   - Box::DoesOverlap of the two leaves' GetBoundingBox();
     sz    - CsgLeafNode::NumVert() (MeshCompare);
     kmax  - kMaxUnionSize (1000 in the pinned source; read by the check).
   Everything the C++ would leave undefined (front() of an empty vector,
   push_back through a null destination, a dangling handle, a loop that does
   not stop within its fuel) is None.
   Not modelled: ExecutionContext (ctx = nullptr: no cancellation, no progress
   counters - that is property C15) and meshIDs.  Error Status is handled by
   lifting the carrier (CsgStatusDefs.v).  Destruction: a node is dead when it
   is not reachable from a live handle ([alive]); ~CsgOpNode only empties
   children vectors no live node can reach, so HDrop just forgets the handle
   and uniq_rc counts owners among the live nodes. *)
From Coq Require Import List ZArith Bool Arith PeanoNat.
Import ListNotations.

Inductive op := Add | Sub | Int.          (* OpType::Add, Subtract, Intersect *)

Definition op_eqb (a b : op) : bool :=
  match a, b with Add, Add | Sub, Sub | Int, Int => true | _, _ => false end.
Definition is_sub (o : op) : bool := match o with Sub => true | _ => false end.

(* the operations of the carrier; their laws are CsgModel.CsgLaws *)
Record CsgOps := mkCsgOps {
  sol : Type;                              (* Manifold::Impl seen as a solid *)
  tr : Type;                               (* mat3x4 *)
  eqS : sol -> sol -> Prop;                (* "the same solid" *)
  union : sol -> sol -> sol;               (* Boolean3(a,b,Add).Result *)
  inter : sol -> sol -> sol;               (* Boolean3(a,b,Intersect).Result *)
  diff : sol -> sol -> sol;                (* Boolean3(a,b,Subtract).Result *)
  empty : sol;                             (* Manifold::Impl() *)
  compose : list sol -> sol;               (* CsgLeafNode::Compose: juxtaposition of the meshes *)
  dj : sol -> sol -> Prop;                 (* "may be juxtaposed": the two solids share no interior point (spec only, erased) *)
  mone : tr;                               (* la::identity *)
  mmul : tr -> tr -> tr;                   (* m * Mat4(n) *)
  m_is_one : tr -> bool;                   (* transform_ == mat3x4(la::identity) *)
  act : tr -> sol -> sol                   (* Impl::Transform *)
}.

Fixpoint set_nth {A} (l : list A) (i : nat) (x : A) : list A :=
  match l, i with
  | [], _ => []
  | _ :: r, O => x :: r
  | y :: r, S i' => y :: set_nth r i' x
  end.

Section Model.
  Variable A : CsgOps.
  Let leaf : Type := (sol A * tr A)%type.          (* CsgLeafNode: pImpl_, transform_ *)

  (* ---------------- the heap ---------------- *)
  Inductive node :=
  | NLeaf (l : leaf)
  | NOp (o : op) (t : tr A) (cell : nat) (cache : option nat).
    (* op_, transform_, impl_ (index of the shared children vector), cache_ (a leaf node) *)

  Record heap := mkHeap {
    nodes : list node;
    cells : list (list nat);       (* the vector impl_ points to: children (node ids) or the single untransformed result *)
    tick : nat                     (* number of use_count questions asked so far *)
  }.

  Definition get_node (h : heap) (id : nat) : option node := nth_error (nodes h) id.

  Variable uniq : heap -> nat -> bool.
  Variable ovl : leaf -> leaf -> bool.
  Variable sz : leaf -> Z.
  Variable kmax : nat.

  Definition bop (o : op) : sol A -> sol A -> sol A :=
    match o with Add => union A | Int => inter A | Sub => diff A end.

  (* the solid a leaf node stands for *)
  Definition lden (l : leaf) : sol A := act A (snd l) (fst l).
  (* CsgLeafNode::Transform(m): same pImpl_, transform m * transform_ *)
  Definition ltransform (m : tr A) (l : leaf) : leaf := (fst l, mmul A m (snd l)).
  (* CsgLeafNode::GetImpl: apply the pending transform once *)
  Definition get_impl (l : leaf) : leaf :=
    if m_is_one A (snd l) then l else (act A (snd l) (fst l), mone A).
  (* SimpleBoolean(a->GetImpl(), b->GetImpl(), op) with ctx == nullptr *)
  Definition simple_boolean (o : op) (a b : leaf) : leaf :=
    (bop o (fst (get_impl a)) (fst (get_impl b)), mone A).
  Definition empty_leaf : leaf := (empty A, mone A).   (* make_shared<CsgLeafNode>() *)

  (* ---------------- BatchBoolean ---------------- *)
  (* heap entries (leaf, serial); MeshCompare is a strict total order when the
     serials are distinct, so pop_heap removes THE maximum whatever the array
     layout of the heap is; the heap is therefore kept as a plain list. *)
  Definition entry : Type := (leaf * nat)%type.
  Definition mesh_compare (a b : entry) : bool :=
    if Z.eqb (sz (fst a)) (sz (fst b)) then Nat.ltb (snd a) (snd b)
    else Z.ltb (sz (fst a)) (sz (fst b)).

  Fixpoint pop_max (l : list entry) : option (entry * list entry) :=
    match l with
    | [] => None
    | x :: r =>
      match pop_max r with
      | None => Some (x, [])
      | Some (y, r') => if mesh_compare x y then Some (y, x :: r') else Some (x, r)
      end
    end.

  (* for (i = 0; i < 4 && heapNodes.size() > 1; i++) { pop a; pop b; tmp += a op b } *)
  Fixpoint bb_round (o : op) (i : nat) (hp tmp : list entry) (serial : nat)
    : list entry * list entry * nat :=
    match i with
    | O => (hp, tmp, serial)
    | S i' =>
      match pop_max hp with
      | Some (a, h1) =>
        match pop_max h1 with
        | Some (b, h2) =>
          bb_round o i' h2 (tmp ++ [(simple_boolean o (fst a) (fst b), serial)]) (S serial)
        | None => (hp, tmp, serial)
        end
      | None => (hp, tmp, serial)
      end
    end.

  (* while (heapNodes.size() > 1) {...}  return heapNodes.front().first *)
  Fixpoint bb_loop (fuel : nat) (o : op) (hp : list entry) (serial : nat) : option leaf :=
    match hp with
    | [] => None
    | [x] => Some (fst x)
    | _ =>
      match fuel with
      | O => None
      | S f => let '(h, tmp, s) := bb_round o 4 hp [] serial in bb_loop f o (h ++ tmp) s
      end
    end.

  Definition batch_boolean (o : op) (l : list leaf) : option leaf :=
    match l with
    | [] => Some empty_leaf
    | [a] => Some a
    | [a; b] => Some (simple_boolean o a b)
    | _ => bb_loop (length l) o (combine l (seq 0 (length l))) (length l)
    end.

  (* ---------------- BatchUnion ---------------- *)
  (* greedy: put x into the first set none of whose members' box overlaps x's *)
  Fixpoint insert_disjoint (x : leaf) (sets : list (list leaf)) : list (list leaf) :=
    match sets with
    | [] => [[x]]
    | s :: r => if existsb (fun y => ovl x y) s then s :: insert_disjoint x r
                else (s ++ [x]) :: r
    end.
  Definition partition_disjoint (l : list leaf) : list (list leaf) :=
    fold_left (fun sets x => insert_disjoint x sets) l [].
  (* Compose applies the pending transforms on the fly *)
  Definition compose_leaves (s : list leaf) : leaf := (compose A (map lden s), mone A).
  Definition compose_sets (sets : list (list leaf)) : list leaf :=
    map (fun s => match s with [x] => x | _ => compose_leaves s end) sets.
  (* std::swap(children.front(), children.back()) *)
  Definition swap_front_back (l : list leaf) : list leaf :=
    match l with
    | [] => []
    | [x] => [x]
    | x :: r => last r x :: removelast r ++ [x]
    end.

  Fixpoint bu_loop (fuel : nat) (children : list leaf) : option leaf :=
    match children with
    | [] => None                                  (* children.front() of an empty vector *)
    | [x] => Some x
    | _ =>
      match fuel with
      | O => None
      | S f =>
        let n := length children in
        let start := if Nat.ltb kmax n then n - kmax else 0 in
        match batch_boolean Add (compose_sets (partition_disjoint (skipn start children))) with
        | None => None
        | Some r => bu_loop f (swap_front_back (firstn start children ++ [r]))
        end
      end
    end.
  Definition batch_union (l : list leaf) : option leaf := bu_loop (length l) l.

  (* the finalize switch of ToLeafNode *)
  Definition eval_op (o : op) (P N : list leaf) : option leaf :=
    match o with
    | Add => batch_union P
    | Int => batch_boolean Int P
    | Sub =>
      match P with
      | [] => Some empty_leaf
      | _ =>
        match batch_union P with
        | None => None
        | Some p =>
          match N with
          | [] => Some p                            (* positive_children[0] after BatchUnion *)
          | _ => match batch_union N with
                 | None => None
                 | Some n => Some (simple_boolean Sub p n)
                 end
          end
        end
      end
    end.

  (* if (!cache_) { impl = {result}; cache_ = impl[0]->Transform(transform_) }
     returns the heap and the leaf cache_ points to *)
  Definition finalize (h : heap) (id : nat) (P N : list leaf) : option (heap * leaf) :=
    match get_node h id with
    | Some (NOp o t c (Some cid)) =>
      match get_node h cid with Some (NLeaf l) => Some (h, l) | _ => None end
    | Some (NOp o t c None) =>
      match eval_op o P N with
      | None => None
      | Some r =>
        let rid := length (nodes h) in
        let cl := ltransform t r in
        Some (mkHeap (set_nth (nodes h ++ [NLeaf r; NLeaf cl]) id (NOp o t c (Some (S rid))))
                     (set_nth (cells h) c [rid]) (tick h), cl)
      end
    | _ => None
    end.

  (* one pass over the children vector: leaves are pushed at once (transformed), op children
     become work items in index order.
       td_pop  parent_op handed down   (negative ? Add : op)
       td_neg  dest1 is neg_dest
       td_d2   dest2 is neg_dest (op == Subtract && i == 0), otherwise nullptr
     hasN: neg_dest != nullptr; a push through a null neg_dest is undefined *)
  Record todo := mkTodo { td_id : nat; td_pop : op; td_neg : bool; td_d2 : bool }.

  Fixpoint scan (h : heap) (o : op) (T : tr A) (hasN : bool) (i : nat) (ch : list nat)
           (P N : list leaf) (acc : list todo) : option (list leaf * list leaf * list todo) :=
    match ch with
    | [] => Some (P, N, acc)
    | x :: r =>
      let negative := is_sub o && negb (Nat.eqb i 0) in
      match get_node h x with
      | None => None
      | Some (NLeaf l) =>
        if negative then
          if hasN then scan h o T hasN (S i) r P (N ++ [ltransform T l]) acc else None
        else scan h o T hasN (S i) r (P ++ [ltransform T l]) N acc
      | Some (NOp _ _ _ _) =>
        scan h o T hasN (S i) r P N
             (acc ++ [mkTodo x (if negative then Add else o) negative (is_sub o && Nat.eqb i 0)])
      end
    end.

  (* ---------------- reference counts ---------------- *)
  (* shared_ptr owners of a node: Manifold handles, children vectors of LIVE cells, cache_ of live nodes (leaves only),
     stack frames.  Without cycles "live" = reachable from the handles (the node being forced is a handle). *)
  Definition succs (h : heap) (x : nat) : list nat :=
    match get_node h x with
    | Some (NOp _ _ c ca) => nth c (cells h) [] ++ match ca with Some k => [k] | None => [] end
    | _ => []
    end.
  Fixpoint reach (fuel : nat) (h : heap) (todo seen : list nat) : list nat :=
    match fuel with
    | O => seen
    | S f =>
      match todo with
      | [] => seen
      | x :: r => if existsb (Nat.eqb x) seen then reach f h r seen
                  else reach f h (succs h x ++ r) (x :: seen)
      end
    end.
  Definition handle_ids (hs : list (option nat)) : list nat :=
    flat_map (fun o => match o with Some id => [id] | None => [] end) hs.
  Definition alive (h : heap) (hs : list (option nat)) : list nat :=
    reach (S (length (nodes h)) * S (length (nodes h) + length (concat (cells h)) + length hs)) h (handle_ids hs) [].
  Definition cell_of (h : heap) (x : nat) : option nat :=
    match get_node h x with Some (NOp _ _ c _) => Some c | _ => None end.
  Definition live_cells (h : heap) (al : list nat) : list nat :=
    nodup Nat.eq_dec (flat_map (fun x => match cell_of h x with Some c => [c] | None => [] end) al).
  Definition child_refs (h : heap) (al : list nat) (id : nat) : nat :=
    list_sum (map (fun c => count_occ Nat.eq_dec (nth c (cells h) []) id) (live_cells h al)).
  Definition cell_owners (h : heap) (al : list nat) (c : nat) : nat :=
    length (filter (fun x => match cell_of h x with Some c' => Nat.eqb c' c | None => false end) al).
  (* op_node.use_count() <= 2 && impl_.UseCount() == 1, the frame asking being one of the two owners: no handle,
     at most one live children vector entry (a second frame for the same node needs a second entry), and no other
     live node sharing the children vector *)
  Definition uniq_rc (hs : list (option nat)) (h : heap) (id : nat) : bool :=
    let al := alive h hs in
    Nat.eqb (count_occ Nat.eq_dec (handle_ids hs) id) 0 && Nat.leb (child_refs h al id) 1 &&
    match cell_of h id with Some c => Nat.leb (cell_owners h al c) 1 | None => false end.

  (* canCollapse; asks the use_count question only where C++'s && / || evaluate it *)
  Definition can_collapse (h : heap) (id : nat) (o pop : op) (has1 : bool) (ncell : nat)
    : bool * heap :=
    if has1 && op_eqb o pop then
      let u := uniq h id in
      (u || Nat.eqb ncell 1, mkHeap (nodes h) (cells h) (S (tick h)))
    else (has1 && Nat.eqb ncell 1, h).

  (* ---------------- big-step (the "recursive version" of the comment in
     csg_tree.cpp, made to follow the order of the explicit stack: leaf
     children first, then op children last to first) ---------------- *)
  Definition visit_t : Type :=
    heap -> nat -> op -> tr A -> bool -> bool -> option (heap * list leaf * list leaf).

  Fixpoint run_todos (V : visit_t) (tds : list todo) (h : heap) (T : tr A) (hasN : bool)
           (P N : list leaf) : option (heap * list leaf * list leaf) :=
    match tds with
    | [] => Some (h, P, N)
    | td :: r =>
      match V h (td_id td) (td_pop td) T (negb (td_neg td) || hasN) (td_d2 td && hasN) with
      | None => None
      | Some (h', L1, L2) =>
        if td_neg td then run_todos V r h' T hasN P (N ++ L1)
        else run_todos V r h' T hasN (P ++ L1) (N ++ L2)
      end
    end.

  (* visit h id parent_op transform (positive_dest != 0) (negative_dest != 0)
     = (heap', what was appended through positive_dest, through negative_dest) *)
  Fixpoint visit (fuel : nat) (h : heap) (id : nat) (pop : op) (T : tr A) (has1 has2 : bool)
    : option (heap * list leaf * list leaf) :=
    match fuel with
    | O => None
    | S f =>
      match get_node h id with
      | Some (NOp o t c _) =>
        match nth_error (cells h) c with
        | None => None
        | Some ch =>
          let '(collapse, h0) := can_collapse h id o pop has1 (length ch) in
          let T2 := if collapse then mmul A T t else mone A in
          let hasN := if collapse then has2 else true in
          match scan h0 o T2 hasN 0 ch [] [] [] with
          | None => None
          | Some (Pl, Nl, tds) =>
            match run_todos (visit f) (rev tds) h0 T2 hasN Pl Nl with
            | None => None
            | Some (h1, P, N) =>
              if collapse then Some (h1, P, N)
              else match finalize h1 id P N with
                   | None => None
                   | Some (h2, cl) => Some (h2, if has1 then [ltransform T cl] else [], [])
                   end
            end
          end
        end
      | _ => None
      end
    end.

  (* CsgOpNode::ToLeafNode, big-step: returns the node id of cache_ *)
  Definition cache_of (h : heap) (id : nat) : option nat :=
    match get_node h id with Some (NOp _ _ _ (Some cid)) => Some cid | _ => None end.

  Definition to_leaf_rec (fuel : nat) (h : heap) (id : nat) : option (heap * nat) :=
    match get_node h id with
    | Some (NOp o t c (Some cid)) => Some (h, cid)
    | Some (NOp o t c None) =>
      match visit fuel h id o (mone A) false false with
      | Some (h', _, _) => match cache_of h' id with Some cid => Some (h', cid) | None => None end
      | None => None
      end
    | _ => None
    end.

  (* ---------------- the explicit stack, frame for frame ---------------- *)
  (* a destination is (index of the owning frame counted from the bottom of the
     stack, negative_children?) ; None is nullptr *)
  Definition dest : Type := option (nat * bool).
  Record frame := mkFrame {
    f_fin : bool; f_pop : op; f_T : tr A; f_d1 : dest; f_d2 : dest; f_id : nat;
    f_P : list leaf; f_N : list leaf }.

  Definition is_some {X} (o : option X) : bool := match o with Some _ => true | None => false end.

  (* the stack is a list with the top at the head *)
  Definition push_frame_lists (fr : frame) (neg : bool) (L : list leaf) : frame :=
    if neg then mkFrame (f_fin fr) (f_pop fr) (f_T fr) (f_d1 fr) (f_d2 fr) (f_id fr) (f_P fr) (f_N fr ++ L)
    else mkFrame (f_fin fr) (f_pop fr) (f_T fr) (f_d1 fr) (f_d2 fr) (f_id fr) (f_P fr ++ L) (f_N fr).

  Definition push_dest (st : list frame) (d : dest) (L : list leaf) : option (list frame) :=
    match d with
    | None => match L with [] => Some st | _ => None end     (* nullptr->push_back *)
    | Some (k, neg) =>
      if Nat.ltb k (length st) then
        let i := length st - 1 - k in
        match nth_error st i with
        | Some fr => Some (set_nth st i (push_frame_lists fr neg L))
        | None => None
        end
      else None
    end.

  Definition frame_of_todo (T : tr A) (pos_dest neg_dest : dest) (td : todo) : frame :=
    mkFrame false (td_pop td) T (if td_neg td then neg_dest else pos_dest)
            (if td_d2 td then neg_dest else None) (td_id td) [] [].

  Definition step (h : heap) (st : list frame) : option (heap * list frame) :=
    match st with
    | [] => Some (h, [])
    | fr :: below =>
      if f_fin fr then
        match finalize h (f_id fr) (f_P fr) (f_N fr) with
        | None => None
        | Some (h', cl) =>
          match f_d1 fr with
          | None => Some (h', below)
          | Some _ => match push_dest below (f_d1 fr) [ltransform (f_T fr) cl] with
                      | Some st' => Some (h', st') | None => None end
          end
        end
      else
        match get_node h (f_id fr) with
        | Some (NOp o t c _) =>
          match nth_error (cells h) c with
          | None => None
          | Some ch =>
            let '(collapse, h0) := can_collapse h (f_id fr) o (f_pop fr) (is_some (f_d1 fr)) (length ch) in
            let T2 := if collapse then mmul A (f_T fr) t else mone A in
            let st0 := if collapse then below
                       else mkFrame true (f_pop fr) (f_T fr) (f_d1 fr) (f_d2 fr) (f_id fr) (f_P fr) (f_N fr) :: below in
            let pos_dest := if collapse then f_d1 fr else Some (length below, false) in
            let neg_dest := if collapse then f_d2 fr else Some (length below, true) in
            match scan h0 o T2 (is_some neg_dest) 0 ch [] [] [] with
            | None => None
            | Some (Pl, Nl, tds) =>
              match push_dest st0 pos_dest Pl with
              | None => None
              | Some st1 =>
                match push_dest st1 neg_dest Nl with
                | None => None
                | Some st2 => Some (h0, rev (map (frame_of_todo T2 pos_dest neg_dest) tds) ++ st2)
                end
              end
            end
          end
        | _ => None
        end
    end.

  Fixpoint run (fuel : nat) (h : heap) (st : list frame) : option heap :=
    match st with
    | [] => Some h
    | _ => match fuel with
           | O => None
           | S f => match step h st with Some (h', st') => run f h' st' | None => None end
           end
    end.

  Definition to_leaf_stack (fuel : nat) (h : heap) (id : nat) : option (heap * nat) :=
    match get_node h id with
    | Some (NOp o t c (Some cid)) => Some (h, cid)
    | Some (NOp o t c None) =>
      match run fuel h [mkFrame false o (mone A) None None id [] []] with
      | Some h' => match cache_of h' id with Some cid => Some (h', cid) | None => None end
      | None => None
      end
    | _ => None
    end.

  (* ---------------- histories: what a client does with Manifold values ---------------- *)
  Inductive hop :=
  | HLeaf (s : sol A)                    (* a mesh constructor *)
  | HOp (o : op) (hs : list nat)         (* Manifold::BatchBoolean(vector, op) *)
  | HBool (o : op) (a b : nat)           (* a.Boolean(b, op): operator+ - ^ *)
  | HTransform (a : nat) (m : tr A)      (* a.Transform(m), Translate, Rotate, ... *)
  | HForce (a : nat)                     (* Status(), NumTri(), GetMeshGL(): GetCsgLeafNode().GetImpl() *)
  | HCopy (a : nat)                      (* Manifold b = a *)
  | HDrop (a : nat).                     (* a goes out of scope *)

  Record state := mkState { st_heap : heap; st_handles : list (option nat) }.
  Definition init_state : state := mkState (mkHeap [] [] 0) [].

  Definition handle (s : state) (a : nat) : option nat :=
    match nth_error (st_handles s) a with Some (Some id) => Some id | _ => None end.

  Fixpoint handles_of (s : state) (hs : list nat) : option (list nat) :=
    match hs with
    | [] => Some []
    | a :: r => match handle s a, handles_of s r with
                | Some id, Some ids => Some (id :: ids) | _, _ => None end
    end.

  Definition alloc_node (s : state) (n : node) : state :=
    mkState (mkHeap (nodes (st_heap s) ++ [n]) (cells (st_heap s)) (tick (st_heap s)))
            (st_handles s ++ [Some (length (nodes (st_heap s)))]).

  (* make_shared<CsgOpNode>(children, op) *)
  Definition alloc_op (s : state) (o : op) (ids : list nat) : state :=
    let h := st_heap s in
    mkState (mkHeap (nodes h ++ [NOp o (mone A) (length (cells h)) None]) (cells h ++ [ids]) (tick h))
            (st_handles s ++ [Some (length (nodes h))]).

  Definition is_leaf_node (h : heap) (id : nat) : bool :=
    match get_node h id with Some (NLeaf _) => true | _ => false end.

  (* Manifold::GetCsgLeafNode then CsgLeafNode::GetImpl on handle a *)
  Definition force (fuel : nat) (stack_version : bool) (s : state) (a : nat) : option state :=
    match handle s a with
    | None => None
    | Some id =>
      let h := st_heap s in
      let r := match get_node h id with
               | Some (NLeaf _) => Some (h, id)
               | Some (NOp _ _ _ _) =>
                 if stack_version then to_leaf_stack fuel h id else to_leaf_rec fuel h id
               | None => None
               end in
      match r with
      | None => None
      | Some (h', lid) =>
        match get_node h' lid with
        | Some (NLeaf l) =>
          Some (mkState (mkHeap (set_nth (nodes h') lid (NLeaf (get_impl l))) (cells h') (tick h'))
                        (set_nth (st_handles s) a (Some lid)))      (* pNode_ = pNode_->ToLeafNode() *)
        | _ => None
        end
      end
    end.

  Definition do_hop (fuel : nat) (stack_version : bool) (s : state) (x : hop) : option state :=
    match x with
    | HLeaf v => Some (alloc_node s (NLeaf (v, mone A)))
    | HOp o hs =>
      match handles_of s hs with
      | None => None
      | Some [] => Some (alloc_node s (NLeaf empty_leaf))           (* return Manifold() *)
      | Some [id] => Some (mkState (st_heap s) (st_handles s ++ [Some id]))   (* return manifolds[0] *)
      | Some ids => Some (alloc_op s o ids)
      end
    | HBool o a b =>
      match handle s a, handle s b with
      | Some ia, Some ib =>
        (* CsgNode::Boolean: a leaf lets a commutative op node on the right build the tree *)
        if is_leaf_node (st_heap s) ia && negb (is_leaf_node (st_heap s) ib) && negb (is_sub o)
        then Some (alloc_op s o [ib; ia]) else Some (alloc_op s o [ia; ib])
      | _, _ => None
      end
    | HTransform a m =>
      match handle s a with
      | None => None
      | Some id =>
        match get_node (st_heap s) id with
        | Some (NLeaf l) => Some (alloc_node s (NLeaf (ltransform m l)))
        | Some (NOp o t c _) => Some (alloc_node s (NOp o (mmul A m t) c None))   (* cache_ is not copied *)
        | None => None
        end
      end
    | HForce a => force fuel stack_version s a
    | HCopy a =>
      match handle s a with
      | None => None
      | Some id => Some (mkState (st_heap s) (st_handles s ++ [Some id]))
      end
    | HDrop a =>
      match handle s a with
      | None => None
      | Some _ => Some (mkState (st_heap s) (set_nth (st_handles s) a None))
      end
    end.

  Fixpoint do_hops (fuel : nat) (stack_version : bool) (s : state) (l : list hop) : option state :=
    match l with
    | [] => Some s
    | x :: r => match do_hop fuel stack_version s x with
                | None => None
                | Some s' => do_hops fuel stack_version s' r
                end
    end.

End Model.

(* histories where every use_count answer is derived from the heap and the live handles *)
Definition do_hop_rc (A : CsgOps) (ovl : (sol A * tr A) -> (sol A * tr A) -> bool) (sz : (sol A * tr A) -> Z)
           (kmax fuel : nat) (stack_version : bool) (s : state A) (x : hop A) : option (state A) :=
  do_hop A (uniq_rc A (st_handles A s)) ovl sz kmax fuel stack_version s x.

Fixpoint do_hops_rc (A : CsgOps) (ovl : (sol A * tr A) -> (sol A * tr A) -> bool) (sz : (sol A * tr A) -> Z)
         (kmax fuel : nat) (stack_version : bool) (s : state A) (l : list (hop A)) : option (state A) :=
  match l with
  | [] => Some s
  | x :: r => match do_hop_rc A ovl sz kmax fuel stack_version s x with
              | None => None
              | Some s' => do_hops_rc A ovl sz kmax fuel stack_version s' r
              end
  end.
