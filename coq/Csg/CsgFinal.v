(* force_denotes for the frame-for-frame explicit-stack machine: the big-step
   theorem (CsgThms.force_denotes_thm) transported along the refinement
   (CsgStack.do_hops_stack). *)
From Coq Require Import List ZArith Bool Arith.
From MV Require Import Csg.CsgDefs Csg.CsgAlgebra Csg.CsgHeap Csg.CsgVisit Csg.CsgModel Csg.CsgThms Csg.CsgStack.
Import ListNotations.

Theorem stack_force_denotes_thm (A : CsgOps) (LW : CsgLaws A) (O : oracles A) (l : list (hop A)) sp a v :
  oracles_ok A O -> spec_hops A [] l = Some sp -> sp_handle A sp a = Some v ->
  exists fuel s' lid lf,
    run A O fuel true (l ++ [HForce A a]) = Some s' /\
    wf A (st_heap A s') /\
    handle A s' a = Some lid /\ get_node A (st_heap A s') lid = Some (NLeaf A lf) /\ eqS A (lden A lf) v /\
    (forall b w, sp_handle A sp b = Some w ->
       exists i', handle A s' b = Some i' /\ eqS A (dn A (st_heap A s') i') w).
Proof.
  intros K Hs Ha.
  destruct (force_denotes_thm A LW O l sp a v K Hs Ha) as (s & s' & lid & lf & _ & R & _ & W & G & N & D & _ & Hb).
  unfold run in R. destruct (do_hops_stack A _ _ _ _ _ _ _ _ R) as [fuel' R'].
  exists fuel', s', lid, lf. split; [exact R'|]. repeat (split; [assumption|]).
  intros b w Hw. destruct (Hb b w Hw) as (i & i' & _ & H2 & _ & H4). eauto.
Qed.
