(* force_denotes for the frame-for-frame explicit-stack machine: the big-step
   theorem (CsgThms.force_denotes_thm) transported along the refinement
   (CsgStack.do_hops_stack). *)
From Coq Require Import List ZArith Bool Arith Lia.
From MV Require Import Csg.CsgDefs Csg.CsgAlgebra Csg.CsgHeap Csg.CsgVisit Csg.CsgModel Csg.CsgThms Csg.CsgStack.
Import ListNotations.

Theorem stack_force_denotes_thm (A : CsgOps) (LW : CsgLaws A) (O : oracles A) (l : list (hop A)) sp a v :
  oracles_ok A O -> spec_hops A [] l = Some sp -> sp_handle A sp a = Some v ->
  exists fuel s' lid lf,
    run A O fuel true (l ++ [HForce A a]) = Some s' /\
    wf A (st_heap A s') /\
    handle A s' a = Some lid /\ get_node A (st_heap A s') lid = Some (NLeaf A lf) /\ eqS A (lden A lf) v /\
    (forall b w, sp_handle A sp b = Some w ->
       exists i', handle A s' b = Some i' /\ eqS A (dn A (st_heap A s') i') w).
Proof.
  intros K Hs Ha.
  destruct (force_denotes_thm A LW O l sp a v K Hs Ha) as (s & s' & lid & lf & _ & R & _ & W & G & N & D & _ & Hb).
  unfold run in R. destruct (do_hops_stack A _ _ _ _ _ _ _ _ R) as [fuel' R'].
  exists fuel', s', lid, lf. split; [exact R'|]. repeat (split; [assumption|]).
  intros b w Hw. destruct (Hb b w Hw) as (i & i' & _ & H2 & _ & H4). eauto.
Qed.

(* ---------------- with reference counts instead of an oracle ---------------- *)
Lemma do_hops_rc_mono (A : CsgOps) ovl sz kmax f f' b : f <= f' -> forall l t t',
  do_hops_rc A ovl sz kmax f b t l = Some t' -> do_hops_rc A ovl sz kmax f' b t l = Some t'.
Proof.
  intros Hle. induction l as [|y l IHl]; intros t t' H; cbn [do_hops_rc] in *; [assumption|]. unfold do_hop_rc in *.
  destruct (do_hop A (uniq_rc A (st_handles A t)) ovl sz kmax f b t y) as [t2|] eqn:E; [|discriminate].
  rewrite (do_hop_mono A _ _ _ _ f f' b _ _ _ Hle E). apply IHl. assumption.
Qed.

Lemma do_hops_rc_stack (A : CsgOps) ovl sz kmax : forall l fuel s s',
  do_hops_rc A ovl sz kmax fuel false s l = Some s' ->
  exists fuel', do_hops_rc A ovl sz kmax fuel' true s l = Some s'.
Proof.
  induction l as [|x r IH]; intros fuel s s' H; cbn [do_hops_rc] in *; [exists 0; assumption|].
  unfold do_hop_rc in *.
  destruct (do_hop A (uniq_rc A (st_handles A s)) ovl sz kmax fuel false s x) as [s1|] eqn:E; [|discriminate].
  destruct (do_hop_stack A _ _ _ _ _ _ _ _ E) as [f1 E1]. destruct (IH _ _ _ H) as [f2 E2].
  exists (f1 + f2). cbn [do_hops_rc]. unfold do_hop_rc.
  rewrite (do_hop_mono A _ _ _ _ f1 (f1 + f2) true _ _ _ ltac:(lia) E1).
  apply (do_hops_rc_mono A ovl sz kmax f2 (f1 + f2) true ltac:(lia)). assumption.
Qed.

Lemma do_hops_rc_app (A : CsgOps) ovl sz kmax fuel b : forall l1 l2 s,
  do_hops_rc A ovl sz kmax fuel b s (l1 ++ l2) =
  match do_hops_rc A ovl sz kmax fuel b s l1 with
  | Some s1 => do_hops_rc A ovl sz kmax fuel b s1 l2
  | None => None
  end.
Proof.
  induction l1 as [|x r IH]; intros l2 s; cbn [app do_hops_rc]; [reflexivity|].
  destruct (do_hop_rc A ovl sz kmax fuel b s x); [apply IH|reflexivity].
Qed.

(* force_denotes for the model that takes its collapse decisions from reference counts, big-step and explicit stack *)
Theorem rc_force_denotes_thm (A : CsgOps) (LW : CsgLaws A) ovl sz kmax (l : list (hop A)) sp a v :
  ovl_sound A ovl -> 2 <= kmax -> spec_hops A [] l = Some sp -> sp_handle A sp a = Some v ->
  exists fuel s' lid lf,
    do_hops_rc A ovl sz kmax (S (length l)) false (init_state A) (l ++ [HForce A a]) = Some s' /\
    do_hops_rc A ovl sz kmax fuel true (init_state A) (l ++ [HForce A a]) = Some s' /\
    wf A (st_heap A s') /\
    handle A s' a = Some lid /\ get_node A (st_heap A s') lid = Some (NLeaf A lf) /\ eqS A (lden A lf) v /\
    (forall b w, sp_handle A sp b = Some w ->
       exists i', handle A s' b = Some i' /\ eqS A (dn A (st_heap A s') i') w).
Proof.
  intros OS K2 Hs Ha.
  destruct (do_hops_rc_ok A LW ovl sz kmax OS K2 l (S (length l)) (init_state A) [] sp (rel_init A) Hs ltac:(cbn; lia))
    as (s & D & R & _ & Lc). cbn in Lc.
  destruct (force_ok A LW (uniq_rc A (st_handles A s)) ovl sz kmax OS K2 (S (length l)) s sp a v R Ha ltac:(lia))
    as (s' & lid & lf & F & Hh & Hg & Hl & R' & _).
  assert (D2 : do_hops_rc A ovl sz kmax (S (length l)) false (init_state A) (l ++ [HForce A a]) = Some s').
  { rewrite do_hops_rc_app, D. cbn [do_hops_rc]. unfold do_hop_rc. cbn [do_hop]. rewrite F. reflexivity. }
  destruct (do_hops_rc_stack A ovl sz kmax _ _ _ _ D2) as [fuel' D'].
  exists fuel', s', lid, lf. split; [exact D2|]. split; [exact D'|]. split; [apply R'|].
  repeat (split; [assumption|]).
  intros b w Hw. destruct (rel_handle A _ _ _ _ R' Hw) as (i' & Hi & _ & Hd). eauto.
Qed.

(* what uniq_rc counts, spelled out *)
Lemma uniq_rc_spec_thm (A : CsgOps) (hs : list (option nat)) (h : heap A) (id : nat) :
  uniq_rc A hs h id = true <->
  count_occ Nat.eq_dec (handle_ids hs) id = 0 /\
  child_refs A h (alive A h hs) id <= 1 /\
  exists c, cell_of A h id = Some c /\ cell_owners A h (alive A h hs) c <= 1.
Proof.
  unfold uniq_rc. rewrite !andb_true_iff, Nat.eqb_eq, Nat.leb_le.
  destruct (cell_of A h id) as [c|].
  - rewrite Nat.leb_le. split.
    + intros [[H1 H2] H3]. eauto.
    + intros (H1 & H2 & c' & E & H3). inversion E; subst. auto.
  - split; [intros [_ H]; discriminate|intros (_ & _ & c & E & _); discriminate].
Qed.
