(* The voxel carrier satisfies CsgLaws; its bounding-box oracle is sound. *)
From Coq Require Import List ZArith Bool Lia Setoid Morphisms.
From MV Require Import Csg.CsgDefs Csg.CsgAlgebra Csg.CsgVoxelDefs.
Import ListNotations.
Local Open Scope Z_scope.

Lemma vox_eqb_eq a b : vox_eqb a b = true <-> a = b.
Proof.
  destruct a as [[ax ay] az], b as [[bx b_y] bz]. cbn.
  rewrite !andb_true_iff, !Z.eqb_eq. split; [intros [[-> ->] ->]; reflexivity|intros H; inversion H; auto].
Qed.

Lemma vmem_In p l : vmem p l = true <-> In p l.
Proof.
  unfold vmem. rewrite existsb_exists. split.
  - intros (x & Hx & E). apply vox_eqb_eq in E. subst. assumption.
  - intros H. exists p. split; [assumption|apply vox_eqb_eq; reflexivity].
Qed.

Lemma vmem_nIn p l : negb (vmem p l) = true <-> ~ In p l.
Proof. rewrite negb_true_iff, <- not_true_iff_false, vmem_In. reflexivity. Qed.

Lemma In_vinter p a b : In p (vinter a b) <-> In p a /\ In p b.
Proof. unfold vinter. rewrite filter_In, vmem_In. reflexivity. Qed.
Lemma In_vdiff p a b : In p (vdiff a b) <-> In p a /\ ~ In p b.
Proof. unfold vdiff. rewrite filter_In, vmem_nIn. reflexivity. Qed.
Lemma In_vunion p a b : In p (vunion a b) <-> In p a \/ In p b.
Proof.
  unfold vunion. rewrite in_app_iff, In_vdiff. split; [tauto|].
  intros [H|H]; [auto|]. destruct (vmem p a) eqn:E; [left; apply vmem_In; assumption|].
  right. split; [assumption|]. rewrite <- vmem_In. congruence.
Qed.

Lemma apply_gen_inj g p q : apply_gen g p = apply_gen g q -> p = q.
Proof.
  destruct p as [[x y] z], q as [[x' y'] z']. destruct g; cbn; intros H; inversion H; f_equal; try f_equal; lia.
Qed.

Lemma apply_tr_inj m p q : apply_tr m p = apply_tr m q -> p = q.
Proof. induction m as [|g m IH]; cbn; [auto|]. intros H. apply IH. eapply apply_gen_inj; eassumption. Qed.

Lemma apply_tr_app m n p : apply_tr (m ++ n) p = apply_tr m (apply_tr n p).
Proof. unfold apply_tr. apply fold_right_app. Qed.

Lemma In_bigU_vox (l : list (list vox)) p :
  In p (fold_right vunion [] l) <-> exists s, In s l /\ In p s.
Proof.
  induction l as [|s l IH]; cbn.
  - split; [intros []|intros (? & [] & _)].
  - rewrite In_vunion, IH. split.
    + intros [H|(s' & H1 & H2)]; eauto.
    + intros (s' & [<-|H1] & H2); eauto.
Qed.

Lemma In_vxor p a b : In p (vxor a b) <-> (In p a /\ ~ In p b) \/ (In p b /\ ~ In p a).
Proof. unfold vxor. rewrite in_app_iff, !In_vdiff. reflexivity. Qed.

Lemma vox_in_dec p (l : list vox) : In p l \/ ~ In p l.
Proof. destruct (vmem p l) eqn:E; [left; apply vmem_In; assumption|right; rewrite <- vmem_In; congruence]. Qed.

Lemma VoxLaws : CsgLaws VoxOps.
Proof.
  constructor; unfold VoxOps; cbn [sol tr eqS union inter diff empty compose dj mone mmul m_is_one act bigU].
  - split; [intros a p; reflexivity|intros a b H p; symmetry; apply H|intros a b c H1 H2 p; rewrite H1; apply H2].
  - intros a a' Ha b b' Hb p. rewrite !In_vunion, Ha, Hb. reflexivity.
  - intros a a' Ha b b' Hb p. rewrite !In_vinter, Ha, Hb. reflexivity.
  - intros a a' Ha b b' Hb p. rewrite !In_vdiff, Ha, Hb. reflexivity.
  - intros m a a' Ha p. rewrite !in_map_iff. split; intros (q & E & H); exists q; (split; [assumption|apply Ha; assumption]).
  - intros a b c p. rewrite !In_vunion. tauto.
  - intros a b p. rewrite !In_vunion. tauto.
  - intros a p. rewrite In_vunion. cbn. tauto.
  - intros a b c p. rewrite !In_vinter. tauto.
  - intros a b p. rewrite !In_vinter. tauto.
  - intros a p. rewrite In_vdiff. cbn. tauto.
  - intros a b c p. rewrite !In_vdiff, In_vunion. tauto.
  - intros m a b p. rewrite In_vunion, !in_map_iff. split.
    + intros (q & E & H). apply In_vunion in H. destruct H; [left|right]; eauto.
    + intros [(q & E & H)|(q & E & H)]; exists q; (split; [assumption|apply In_vunion; auto]).
  - intros m a b p. rewrite In_vinter, !in_map_iff. split.
    + intros (q & E & H). apply In_vinter in H. destruct H. split; eauto.
    + intros [(q & E & H) (q' & E' & H')]. exists q. split; [assumption|]. apply In_vinter. split; [assumption|].
      assert (q = q') by (apply (apply_tr_inj m); congruence). subst. assumption.
  - intros m a b p. rewrite In_vdiff, !in_map_iff. split.
    + intros (q & E & H). apply In_vdiff in H. destruct H as [H1 H2]. split; [eauto|].
      intros (q' & E' & H'). assert (q = q') by (apply (apply_tr_inj m); congruence). subst. contradiction.
    + intros [(q & E & H) Hn]. exists q. split; [assumption|]. apply In_vdiff. split; [assumption|].
      intros Hb. apply Hn. eauto.
  - intros m p. reflexivity.
  - intros m n a p. rewrite map_map. rewrite !in_map_iff.
    split; intros (q & E & H); exists q; (split; [|assumption]); rewrite <- E; [symmetry|]; apply apply_tr_app.
  - intros a p. rewrite map_id. reflexivity.
  - intros m a H p. destruct m; [|discriminate]. cbn. rewrite map_id. reflexivity.
  - intros a b H p Hb Ha. exact (H p Ha Hb).
  - (* juxtaposition of pairwise disjoint cell sets is their union *)
    induction l as [|s l IH]; intros Hpd p; [reflexivity|].
    destruct Hpd as [Hs Hl]. cbn [fold_right pairwise_disjoint] in *.
    change (In p (vxor s (fold_right vxor [] l)) <-> In p (vunion s (fold_right vunion [] l))).
    rewrite In_vxor, In_vunion. specialize (IH Hl p). cbn [sol VoxOps] in IH.
    assert (Hd : In p s -> In p (fold_right vunion [] l) -> False).
    { intros H1 H2. apply In_bigU_vox in H2. destruct H2 as (s' & Hs' & Hp).
      rewrite Forall_forall in Hs. exact (Hs s' Hs' p H1 Hp). }
    rewrite IH. destruct (vox_in_dec p s); tauto.
Qed.

(* bounding boxes of the cells really bound them, so boxes that do not overlap
   have no common cell *)
Lemma vbounds_spec s b0 b1 b2 b3 b4 b5 : vbounds s = Some (b0, b1, b2, b3, b4, b5) ->
  forall x y z, In (x, y, z) s -> b0 < x < b1 /\ b2 < y < b3 /\ b4 < z < b5.
Proof.
  destruct s as [|[[x0 y0] z0] r]; [discriminate|]. cbn [vbounds]. intros H.
  assert (G : forall r a b c d e f a' b' c' d' e' f',
    fold_left (fun '(a, b, c, d, e, f) '(x, y, z) =>
                 (Z.min a (x - 1), Z.max b (x + 1), Z.min c (y - 1), Z.max d (y + 1),
                  Z.min e (z - 1), Z.max f (z + 1))) r (a, b, c, d, e, f) = (a', b', c', d', e', f') ->
    (a' <= a /\ b <= b' /\ c' <= c /\ d <= d' /\ e' <= e /\ f <= f') /\
    forall x y z, In (x, y, z) r -> a' < x < b' /\ c' < y < d' /\ e' < z < f').
  { induction r0 as [|[[x1 y1] z1] r0 IH]; intros a b c d e f a' b' c' d' e' f' E; cbn in E.
    - inversion E; subst. split; [lia|intros ? ? ? []].
    - destruct (IH _ _ _ _ _ _ _ _ _ _ _ _ E) as [Hm Hin]. split; [lia|].
      intros x y z [Hx|Hx]; [inversion Hx; subst; lia|apply Hin; assumption]. }
  inversion H as [H']. destruct (G _ _ _ _ _ _ _ _ _ _ _ _ _ H') as [Hm Hin].
  intros x y z [Hx|Hx]; [inversion Hx; subst; lia|apply Hin; assumption].
Qed.

Lemma vbounds_in (s : list vox) p : In p s -> vbounds s = None -> False.
Proof. destruct s as [|[[x y] z] r]; [intros []|discriminate]. Qed.

Lemma vovl_sound : ovl_sound VoxOps vovl.
Proof.
  intros [sa ma] [sb mb] H. unfold disjoint. cbn [dj VoxOps]. intros p Ha Hb.
  change (In p (map (apply_tr ma) sa)) in Ha. change (In p (map (apply_tr mb) sb)) in Hb.
  unfold vovl in H. cbn [fst snd] in H.
  destruct (vbounds (map (apply_tr ma) sa)) as [[[[[[a0 a1] a2] a3] a4] a5]|] eqn:Ea.
  2:{ exact (vbounds_in _ _ Ha Ea). }
  destruct (vbounds (map (apply_tr mb) sb)) as [[[[[[b0 b1] b2] b3] b4] b5]|] eqn:Eb.
  2:{ exact (vbounds_in _ _ Hb Eb). }
  destruct p as [[x y] z].
  pose proof (vbounds_spec _ _ _ _ _ _ _ Ea x y z Ha). pose proof (vbounds_spec _ _ _ _ _ _ _ Eb x y z Hb).
  rewrite !andb_false_iff, !Z.leb_gt in H. lia.
Qed.
