(* A concrete carrier: finite sets of lattice cells, named by their DOUBLED
   centre coordinates (all odd), with the symmetries that map the lattice to
   itself: integer translations, quarter turns about the axes (with exactly the
   sign conventions of CsgNode::Rotate), mirrors.  A transform is the list of
   generators still to be applied, head LAST (free monoid: product = append).
   No proofs here (laws: CsgVoxel.v). *)
From Coq Require Import List ZArith Bool.
From MV Require Import Csg.CsgDefs.
Import ListNotations.
Local Open Scope Z_scope.

Definition vox : Type := (Z * Z * Z)%type.
Definition vox_eqb (a b : vox) : bool :=
  let '(ax, ay, az) := a in let '(bx, b_y, bz) := b in (ax =? bx) && (ay =? b_y) && (az =? bz).

Inductive gen := GT (dx dy dz : Z) | GRx | GRy | GRz | GMx | GMy | GMz.

Definition apply_gen (g : gen) (p : vox) : vox :=
  let '(x, y, z) := p in
  match g with
  | GT dx dy dz => (x + 2 * dx, y + 2 * dy, z + 2 * dz)
  | GRx => (x, - z, y)          (* Rotate(90,0,0) *)
  | GRy => (z, y, - x)          (* Rotate(0,90,0) *)
  | GRz => (- y, x, z)          (* Rotate(0,0,90) *)
  | GMx => (- x, y, z)          (* Scale(-1,1,1) *)
  | GMy => (x, - y, z)
  | GMz => (x, y, - z)
  end.

Definition apply_tr (m : list gen) (p : vox) : vox := fold_right apply_gen p m.

Definition vmem (p : vox) (l : list vox) : bool := existsb (vox_eqb p) l.
Definition vinter (a b : list vox) : list vox := filter (fun p => vmem p b) a.
Definition vdiff (a b : list vox) : list vox := filter (fun p => negb (vmem p b)) a.
Definition vunion (a b : list vox) : list vox := a ++ vdiff b a.
(* juxtaposition: a cell covered by two of the juxtaposed solids is NOT a cell of the result (symmetric difference), so
   Compose is the union only where the code's disjointness assumption holds *)
Definition vxor (a b : list vox) : list vox := vdiff a b ++ vdiff b a.

Definition VoxOps : CsgOps :=
  mkCsgOps (list vox) (list gen)
           (fun a b => forall p, In p a <-> In p b)
           vunion vinter vdiff [] (fun l => fold_right vxor [] l)
           (fun a b => forall p, In p a -> In p b -> False)
           [] (fun m n => m ++ n) (fun m => match m with [] => true | _ => false end)
           (fun m s => map (apply_tr m) s).

(* a lattice box [x0,x1) x [y0,y1) x [z0,z1) of unit cells *)
Fixpoint zrange (lo : Z) (n : nat) : list Z :=
  match n with O => [] | S k => lo :: zrange (lo + 1) k end.
Definition vbox (x0 x1 y0 y1 z0 z1 : Z) : list vox :=
  flat_map (fun x => flat_map (fun y => map (fun z => (2 * x + 1, 2 * y + 1, 2 * z + 1))
                                            (zrange z0 (Z.to_nat (z1 - z0))))
                              (zrange y0 (Z.to_nat (y1 - y0))))
           (zrange x0 (Z.to_nat (x1 - x0))).

(* bounding-box oracle computed from the cells themselves (closed boxes: touching counts) *)
Definition vbounds (s : list vox) : option (Z * Z * Z * Z * Z * Z) :=
  match s with
  | [] => None
  | (x, y, z) :: r =>
    Some (fold_left (fun '(a, b, c, d, e, f) '(x, y, z) =>
                       (Z.min a (x - 1), Z.max b (x + 1), Z.min c (y - 1), Z.max d (y + 1),
                        Z.min e (z - 1), Z.max f (z + 1)))
                    r (x - 1, x + 1, y - 1, y + 1, z - 1, z + 1))
  end.
Definition vovl (a b : list vox * list gen) : bool :=
  match vbounds (map (apply_tr (snd a)) (fst a)), vbounds (map (apply_tr (snd b)) (fst b)) with
  | Some (a0, a1, a2, a3, a4, a5), Some (b0, b1, b2, b3, b4, b5) =>
    (a0 <=? b1) && (b0 <=? a1) && (a2 <=? b3) && (b2 <=? a3) && (a4 <=? b5) && (b4 <=? a5)
  | _, _ => false
  end.
