(* Denotation of heap nodes, the well-formedness invariant of reachable heaps,
   heap extension, and the effect of one finalize step. *)
From Coq Require Import List ZArith Bool Arith Lia Permutation Setoid Morphisms.
From MV Require Import Csg.CsgDefs Csg.CsgAlgebra.
Import ListNotations.

Lemma set_nth_length {X} (l : list X) i x : length (set_nth l i x) = length l.
Proof. revert i; induction l as [|y l IH]; intros [|i]; cbn; auto. Qed.

Lemma nth_error_set_nth {X} (l : list X) i x j :
  nth_error (set_nth l i x) j =
  if Nat.eqb j i then (if Nat.ltb i (length l) then Some x else None) else nth_error l j.
Proof.
  revert i j; induction l as [|y l IH]; intros i j.
  - cbn. destruct i, j; cbn; try reflexivity. destruct (Nat.eqb j i); reflexivity.
  - destruct i as [|i], j as [|j]; cbn; try reflexivity.
    rewrite IH. destruct (Nat.eqb j i); [|reflexivity].
    change (Nat.ltb (S i) (S (length l))) with (Nat.ltb i (length l)). reflexivity.
Qed.

Lemma Forall2_map_in {X Y} (R : Y -> Y -> Prop) (f g : X -> Y) l :
  (forall y, In y l -> R (f y) (g y)) -> Forall2 R (map f l) (map g l).
Proof.
  induction l as [|y l IH]; intros H; cbn; constructor.
  - apply H. left. reflexivity.
  - apply IH. intros z Hz. apply H. right. assumption.
Qed.

Section Heap.
  Variable A : CsgOps.
  Hypothesis LW : CsgLaws A.
  Local Notation "a == b" := (eqS A a b) (at level 70).
  Local Notation leaf := (sol A * tr A)%type.
  Local Notation heap := (heap A).
  Local Notation NLeaf := (NLeaf A).
  Local Notation NOp := (NOp A).
  Local Notation get_node := (get_node A).
  Let eqE : Equivalence (eqS A) := eqS_Equiv A LW.
  Let unP : Proper (eqS A ==> eqS A ==> eqS A) (union A) := union_Proper A LW.
  Let inP : Proper (eqS A ==> eqS A ==> eqS A) (inter A) := inter_Proper A LW.
  Let diP : Proper (eqS A ==> eqS A ==> eqS A) (diff A) := diff_Proper A LW.
  Let acP : forall m, Proper (eqS A ==> eqS A) (act A m) := act_Proper A LW.
  Local Existing Instance eqE.
  Local Existing Instance unP.
  Local Existing Instance inP.
  Local Existing Instance diP.
  Local Existing Instance acP.

  (* the solid a node stands for NOW (fuel: nesting depth of op nodes) *)
  Fixpoint den (f : nat) (h : heap) (id : nat) {struct f} : sol A :=
    match get_node h id with
    | Some (CsgDefs.NLeaf _ l) => lden A l
    | Some (CsgDefs.NOp _ o t c _) =>
      match f with
      | O => empty A
      | S f' => act A t (den_op A o (map (den f' h) (nth c (cells A h) [])))
      end
    | None => empty A
    end.

  Definition dn (h : heap) (id : nat) : sol A := den (S (length (cells A h))) h id.

  Definition rk (h : heap) (id : nat) : nat :=
    match get_node h id with Some (CsgDefs.NOp _ _ _ c _) => S c | _ => 0 end.

  Lemma den_leaf f h id l : get_node h id = Some (NLeaf l) -> den f h id = lden A l.
  Proof. intros H. destruct f; cbn; rewrite H; reflexivity. Qed.

  Lemma den_op_node f h id o t c ca : get_node h id = Some (NOp o t c ca) ->
    den (S f) h id = act A t (den_op A o (map (den f h) (nth c (cells A h) []))).
  Proof. intros H. cbn. rewrite H. reflexivity. Qed.

  Record wf (h : heap) : Prop := mkWf {
    wf_cell : forall id o t c ca, get_node h id = Some (NOp o t c ca) -> c < length (cells A h);
    wf_children : forall c ch, nth_error (cells A h) c = Some ch ->
        (2 <= length ch \/ exists rid l, ch = [rid] /\ get_node h rid = Some (NLeaf l)) /\
        forall x, In x ch -> (exists n, get_node h x = Some n) /\ rk h x <= c;
    wf_sameop : forall id id' o o' t t' c ca ca',
        get_node h id = Some (NOp o t c ca) -> get_node h id' = Some (NOp o' t' c ca') -> o = o';
    wf_cache : forall id o t c cid, get_node h id = Some (NOp o t c (Some cid)) ->
        exists l, get_node h cid = Some (NLeaf l) /\ lden A l == dn h id
  }.

  Lemma nth_of_nth_error {X} (l : list X) c ch d : nth_error l c = Some ch -> nth c l d = ch.
  Proof. intros H. apply nth_error_nth. assumption. Qed.

  Lemma den_fuel h : wf h -> forall f1 f2 id, rk h id <= f1 -> rk h id <= f2 -> den f1 h id = den f2 h id.
  Proof.
    intros W. induction f1 as [|f1 IH]; intros f2 id H1 H2; unfold rk in *;
      destruct (get_node h id) as [[l|o t c ca]|] eqn:E.
    - rewrite !(den_leaf _ _ _ _ E). reflexivity.
    - lia.
    - destruct f2; cbn; rewrite E; reflexivity.
    - rewrite !(den_leaf _ _ _ _ E). reflexivity.
    - destruct f2 as [|f2]; [lia|]. rewrite !(den_op_node _ _ _ _ _ _ _ E).
      f_equal. f_equal.
      pose proof (wf_cell h W _ _ _ _ _ E) as Hc.
      destruct (nth_error (cells A h) c) as [ch|] eqn:Ec; [|apply nth_error_None in Ec; lia].
      rewrite (nth_of_nth_error _ _ _ _ Ec).
      apply map_ext_in. intros x Hx. destruct (wf_children h W _ _ Ec) as [_ Hch].
      destruct (Hch x Hx) as [_ Hr]. unfold rk in Hr. apply IH; lia.
    - destruct f2; cbn; rewrite E; reflexivity.
  Qed.

  Lemma rk_le h : wf h -> forall id, rk h id <= length (cells A h).
  Proof.
    intros W id. unfold rk. destruct (get_node h id) as [[l|o t c ca]|] eqn:E; try lia.
    pose proof (wf_cell h W _ _ _ _ _ E). lia.
  Qed.

  Lemma dn_leaf h id l : get_node h id = Some (NLeaf l) -> dn h id = lden A l.
  Proof. apply den_leaf. Qed.

  Lemma dn_op h : wf h -> forall id o t c ca ch, get_node h id = Some (NOp o t c ca) ->
    nth_error (cells A h) c = Some ch -> dn h id = act A t (den_op A o (map (dn h) ch)).
  Proof.
    intros W id o t c ca ch E Ec. unfold dn at 1. rewrite (den_op_node _ _ _ _ _ _ _ E).
    rewrite (nth_of_nth_error _ _ _ _ Ec). f_equal. f_equal. apply map_ext_in. intros x Hx.
    destruct (wf_children h W _ _ Ec) as [_ Hch]. destruct (Hch x Hx) as [_ Hr].
    pose proof (wf_cell h W _ _ _ _ _ E).
    apply den_fuel; [assumption|lia|]. pose proof (rk_le h W x). lia.
  Qed.

  (* ---------------- extension ---------------- *)
  Record ext (h h' : heap) : Prop := mkExt {
    ext_nodes : length (nodes A h) <= length (nodes A h');
    ext_cells : length (cells A h) <= length (cells A h');
    ext_leaf : forall id l, get_node h id = Some (NLeaf l) -> exists l', get_node h' id = Some (NLeaf l');
    ext_op : forall id o t c ca, get_node h id = Some (NOp o t c ca) ->
        exists ca', get_node h' id = Some (NOp o t c ca');
    ext_dn : forall id, id < length (nodes A h) -> dn h' id == dn h id
  }.

  Lemma ext_refl h : ext h h.
  Proof. constructor; intros; eauto; reflexivity. Qed.

  Lemma ext_trans h1 h2 h3 : ext h1 h2 -> ext h2 h3 -> ext h1 h3.
  Proof.
    intros [a1 b1 c1 d1 e1] [a2 b2 c2 d2 e2]. constructor.
    - lia.
    - lia.
    - intros id l H. destruct (c1 _ _ H) as [l' H']. eauto.
    - intros id o t c ca H. destruct (d1 _ _ _ _ _ H) as [ca' H']. eauto.
    - intros id H. rewrite e2 by lia. apply e1. assumption.
  Qed.

  Lemma get_node_lt h id n : get_node h id = Some n -> id < length (nodes A h).
  Proof. intros H. apply nth_error_Some. unfold CsgDefs.get_node in H. congruence. Qed.

  (* what a frame has collected, as a solid *)
  Definition sem_PN (o : op) (P N : list leaf) : sol A :=
    match o with
    | Add => bigU A (map (lden A) P)
    | Int => big1 A (inter A) (map (lden A) P)
    | Sub => diff A (bigU A (map (lden A) P)) (bigU A (map (lden A) N))
    end.

  Definition cached_ok (h : heap) (id : nat) (X : sol A) : Prop :=
    exists cid l, cache_of A h id = Some cid /\ get_node h cid = Some (NLeaf l) /\ lden A l == X.

  (* ---------------- one finalize ---------------- *)
  Variable ovl : (sol A * tr A) -> (sol A * tr A) -> bool.
  Variable sz : (sol A * tr A) -> Z.
  Variable kmax : nat.
  Hypothesis OS : ovl_sound A ovl.
  Hypothesis K2 : 2 <= kmax.
  Lemma finalize_ok h id o t c ca ch P N :
    wf h -> get_node h id = Some (NOp o t c ca) -> nth_error (cells A h) c = Some ch ->
    P <> [] -> (o <> Sub -> N = []) ->
    sem_PN o P N == den_op A o (map (dn h) ch) ->
    exists h' cl, finalize A ovl sz kmax h id P N = Some (h', cl) /\ wf h' /\ ext h h' /\
                  lden A cl == dn h id /\ cached_ok h' id (dn h id) /\
                  (forall c2, c2 <> c -> nth_error (cells A h') c2 = nth_error (cells A h) c2).
  Proof.
    intros W E Ec HP HN Hsem. unfold finalize. rewrite E.
    destruct ca as [cid|].
    { destruct (wf_cache h W _ _ _ _ _ E) as (l & El & Hl). rewrite El.
      exists h, l. split; [reflexivity|]. split; [assumption|]. split; [apply ext_refl|].
      split; [assumption|]. split; [|reflexivity].
      exists cid, l. unfold cache_of. rewrite E. auto. }
    destruct (eval_op_ok A LW ovl sz kmax OS K2 o P N HP HN) as (r & Er & Hr). rewrite Er.
    set (rid := length (nodes A h)). set (cl := ltransform A t r).
    set (h' := mkHeap A (set_nth (nodes A h ++ [NLeaf r; NLeaf cl]) id (NOp o t c (Some (S rid))))
                      (set_nth (cells A h) c [rid]) (tick A h)).
    exists h', cl.
    pose proof (get_node_lt _ _ _ E) as Hid. fold rid in Hid.
    assert (Hc : c < length (cells A h)) by (apply (wf_cell h W _ _ _ _ _ E)).
    assert (Gn : forall x, get_node h' x =
              if Nat.eqb x id then Some (NOp o t c (Some (S rid)))
              else if Nat.ltb x rid then get_node h x
              else if Nat.eqb x rid then Some (NLeaf r)
              else if Nat.eqb x (S rid) then Some (NLeaf cl) else None).
    { intros x. unfold CsgDefs.get_node, h'; cbn [nodes]. rewrite nth_error_set_nth.
      destruct (Nat.eqb_spec x id) as [->|Hx].
      - rewrite app_length. cbn [length]. fold rid. destruct (Nat.ltb_spec id (rid + 2)); [reflexivity|lia].
      - destruct (Nat.ltb_spec x rid) as [Hl|Hl].
        + rewrite nth_error_app1 by assumption. reflexivity.
        + rewrite nth_error_app2 by assumption. fold rid.
          destruct (Nat.eqb_spec x rid) as [->|Hx1]; [rewrite Nat.sub_diag; reflexivity|].
          destruct (Nat.eqb_spec x (S rid)) as [->|Hx2].
          * replace (S rid - rid) with 1 by lia. reflexivity.
          * destruct (x - rid) as [|[|k]] eqn:Ek; try lia. cbn. destruct k; reflexivity. }
    assert (Gc : forall c', nth_error (cells A h') c' = if Nat.eqb c' c then Some [rid] else nth_error (cells A h) c').
    { intros c'. unfold h'; cbn [cells]. rewrite nth_error_set_nth.
      destruct (Nat.eqb c' c); [|reflexivity]. destruct (Nat.ltb_spec c (length (cells A h))); [reflexivity|lia]. }
    assert (Lc : length (cells A h') = length (cells A h)) by (unfold h'; cbn; apply set_nth_length).
    (* old nodes keep their kind, op, transform, cell *)
    assert (Gleaf : forall x l, get_node h x = Some (NLeaf l) -> get_node h' x = Some (NLeaf l)).
    { intros x l Hx. rewrite Gn. destruct (Nat.eqb_spec x id) as [->|]; [congruence|].
      pose proof (get_node_lt _ _ _ Hx). fold rid in H. destruct (Nat.ltb_spec x rid); [assumption|lia]. }
    assert (Gop : forall x o' t' c' ca', get_node h x = Some (NOp o' t' c' ca') ->
                   exists ca'', get_node h' x = Some (NOp o' t' c' ca'')).
    { intros x o' t' c' ca' Hx. rewrite Gn. destruct (Nat.eqb_spec x id) as [->|].
      - rewrite E in Hx. inversion Hx; subst. eauto.
      - pose proof (get_node_lt _ _ _ Hx). fold rid in H. destruct (Nat.ltb_spec x rid); [eauto|lia]. }
    assert (Gop' : forall x o' t' c' ca', get_node h' x = Some (NOp o' t' c' ca') ->
                   exists ca'', get_node h x = Some (NOp o' t' c' ca'')).
    { intros x o' t' c' ca' Hx. rewrite Gn in Hx. destruct (Nat.eqb_spec x id) as [->|].
      - inversion Hx; subst. eauto.
      - destruct (Nat.ltb_spec x rid); [eauto|].
        destruct (Nat.eqb x rid); [discriminate|]. destruct (Nat.eqb x (S rid)); discriminate. }
    assert (Grk : forall x, x < rid -> rk h' x = rk h x).
    { intros x Hx. unfold rk. destruct (get_node h x) as [[l|o' t' c' ca']|] eqn:Ex.
      - rewrite (Gleaf _ _ Ex). reflexivity.
      - destruct (Gop _ _ _ _ _ Ex) as [ca'' ->]. reflexivity.
      - apply nth_error_None in Ex. fold rid in Ex. lia. }
    assert (Grid : get_node h' rid = Some (NLeaf r)).
    { rewrite Gn. destruct (Nat.eqb_spec rid id); [lia|]. rewrite Nat.ltb_irrefl, Nat.eqb_refl. reflexivity. }
    assert (Gcid : get_node h' (S rid) = Some (NLeaf cl)).
    { rewrite Gn. destruct (Nat.eqb_spec (S rid) id); [lia|].
      destruct (Nat.ltb_spec (S rid) rid); [lia|]. destruct (Nat.eqb_spec (S rid) rid); [lia|].
      rewrite Nat.eqb_refl. reflexivity. }
    (* r denotes the untransformed value of the cell *)
    assert (Hrden : lden A r == den_op A o (map (dn h) ch)).
    { rewrite Hr. rewrite <- Hsem. unfold sem_PN. destruct o; reflexivity. }
    (* denotations of old nodes are preserved, at every sufficient fuel *)
    assert (Core : forall f x, x < rid -> rk h x <= f -> den f h' x == den f h x).
    { induction f as [|f IH]; intros x Hx Hrk; unfold rk in Hrk;
        destruct (get_node h x) as [[l|o' t' c' ca']|] eqn:Ex;
        try (rewrite (den_leaf _ _ _ _ Ex), (den_leaf _ _ _ _ (Gleaf _ _ Ex)); reflexivity);
        try lia; try (apply nth_error_None in Ex; fold rid in Ex; lia).
      destruct (Gop _ _ _ _ _ Ex) as [ca'' Ex'].
      rewrite (den_op_node _ _ _ _ _ _ _ Ex), (den_op_node _ _ _ _ _ _ _ Ex').
      apply acP.
      pose proof (wf_cell h W _ _ _ _ _ Ex) as Hc'.
      destruct (nth_error (cells A h) c') as [ch'|] eqn:Ec'; [|apply nth_error_None in Ec'; lia].
      rewrite (nth_of_nth_error _ _ _ _ Ec').
      destruct (wf_children h W _ _ Ec') as [_ Hch'].
      destruct (Nat.eqb_spec c' c) as [->|Hcc].
      - assert (o' = o) by (eapply (wf_sameop h W); eassumption). subst o'.
        rewrite Ec in Ec'. inversion Ec'; subst ch'.
        assert (En : nth_error (cells A h') c = Some [rid]) by (rewrite Gc, Nat.eqb_refl; reflexivity).
        rewrite (nth_of_nth_error _ _ _ _ En). cbn [map].
        rewrite (den_op_single A LW). rewrite (den_leaf _ _ _ _ Grid). rewrite Hrden.
        apply (den_op_congr A LW). apply Forall2_map_in. intros y Hy.
        destruct (Hch' y Hy) as [_ Hry].
        unfold dn. rewrite (den_fuel h W (S (length (cells A h))) f y); [reflexivity| |lia].
        pose proof (rk_le h W y). lia.
      - assert (En : nth_error (cells A h') c' = Some ch').
        { rewrite Gc. destruct (Nat.eqb_spec c' c); [congruence|assumption]. }
        rewrite (nth_of_nth_error _ _ _ _ En).
        apply (den_op_congr A LW). apply Forall2_map_in. intros y Hy.
        destruct (Hch' y Hy) as [[n Hn] Hry].
        apply IH; [|lia]. apply get_node_lt in Hn. assumption. }
    assert (Dn : forall x, x < rid -> dn h' x == dn h x).
    { intros x Hx. unfold dn. rewrite Lc. apply Core; [assumption|]. pose proof (rk_le h W x). lia. }
    assert (Hcl : lden A cl == dn h id).
    { unfold cl. rewrite (lden_ltransform A LW). rewrite (dn_op h W _ _ _ _ _ _ E Ec). rewrite Hrden. reflexivity. }
    assert (X : ext h h').
    { constructor.
      - unfold h'; cbn [nodes]. rewrite set_nth_length, app_length. lia.
      - rewrite Lc. lia.
      - intros; eauto.
      - assumption.
      - assumption. }
    split; [reflexivity|]. split; [|split; [assumption|split; [assumption|split]]].
    3:{ intros c2 Hc2. rewrite Gc. destruct (Nat.eqb_spec c2 c); [congruence|reflexivity]. }
    2:{ exists (S rid), cl. unfold cache_of. rewrite Gn, Nat.eqb_refl. repeat split; [assumption|]. assumption. }
    constructor.
    - intros x o' t' c' ca' Hx. destruct (Gop' _ _ _ _ _ Hx) as [ca'' Hx'].
      rewrite Lc. eapply (wf_cell h W); eassumption.
    - intros c' ch' Hc'. rewrite Gc in Hc'. destruct (Nat.eqb_spec c' c) as [->|Hcc].
      + inversion Hc'; subst ch'. split.
        * right. exists rid, r. split; [reflexivity|assumption].
        * intros x [<-|[]]. split; [eauto|]. unfold rk. rewrite Grid. lia.
      + destruct (wf_children h W _ _ Hc') as [Hsh Hch']. split.
        * destruct Hsh as [Hsh|(rid' & l & -> & Hl)]; [left; assumption|].
          right. exists rid', l. split; [reflexivity|]. apply Gleaf. assumption.
        * intros x Hx. destruct (Hch' x Hx) as [[n Hn] Hrx]. split.
          -- destruct n as [l|o' t' c'' ca'].
             ++ rewrite (Gleaf _ _ Hn). eauto.
             ++ destruct (Gop _ _ _ _ _ Hn) as [ca'' ->]. eauto.
          -- rewrite Grk; [assumption|]. apply get_node_lt in Hn. assumption.
    - intros x x' o1 o2 t1 t2 c' ca1 ca2 H1 H2.
      destruct (Gop' _ _ _ _ _ H1) as [? H1']. destruct (Gop' _ _ _ _ _ H2) as [? H2'].
      eapply (wf_sameop h W); eassumption.
    - intros x o' t' c' cid Hx. rewrite Gn in Hx. destruct (Nat.eqb_spec x id) as [->|Hxid].
      + inversion Hx; subst. exists cl. split; [assumption|]. rewrite Hcl. symmetry. apply Dn. assumption.
      + destruct (Nat.ltb_spec x rid) as [Hl|Hl].
        * destruct (wf_cache h W _ _ _ _ _ Hx) as (l & El & Hl'). exists l. split; [apply Gleaf; assumption|].
          rewrite Hl'. symmetry. apply Dn. assumption.
        * destruct (Nat.eqb x rid); [discriminate|]. destruct (Nat.eqb x (S rid)); discriminate.
  Qed.
End Heap.
