(* Histories: every heap reachable from the empty state by any sequence of
   client operations is well formed, every operation keeps the denotation of
   every existing node, and every handle denotes what the eager, purely
   algebraic reading of the same program ([spec_hops]) assigns to it.
   The theorems are about the big-step evaluator (stack_version = false);
   the explicit-stack machine is related to it in CsgStack.v. *)
From Coq Require Import List ZArith Bool Arith Lia Permutation Setoid Morphisms.
From MV Require Import Csg.CsgDefs Csg.CsgAlgebra Csg.CsgHeap Csg.CsgVisit.
Import ListNotations.

Section Hist.
  Variable A : CsgOps.
  Hypothesis LW : CsgLaws A.
  Variable uniq : heap A -> nat -> bool.
  Variable ovl : (sol A * tr A) -> (sol A * tr A) -> bool.
  Variable sz : (sol A * tr A) -> Z.
  Variable kmax : nat.
  Hypothesis OS : ovl_sound A ovl.
  Hypothesis K2 : 2 <= kmax.
  Local Notation "a == b" := (eqS A a b) (at level 70).
  Local Notation leaf := (sol A * tr A)%type.
  Local Notation heap := (heap A).
  Local Notation NLeaf := (NLeaf A).
  Local Notation NOp := (NOp A).
  Local Notation get_node := (get_node A).
  Local Notation dn := (dn A).
  Local Notation wf := (wf A).
  Local Notation ext := (ext A).
  Let eqE : Equivalence (eqS A) := eqS_Equiv A LW.
  Let unP : Proper (eqS A ==> eqS A ==> eqS A) (union A) := union_Proper A LW.
  Let inP : Proper (eqS A ==> eqS A ==> eqS A) (inter A) := inter_Proper A LW.
  Let diP : Proper (eqS A ==> eqS A ==> eqS A) (diff A) := diff_Proper A LW.
  Let acP : forall m, Proper (eqS A ==> eqS A) (act A m) := act_Proper A LW.
  Local Existing Instance eqE.
  Local Existing Instance unP.
  Local Existing Instance inP.
  Local Existing Instance diP.
  Local Existing Instance acP.

  (* ---------------- allocation ---------------- *)
  Definition new_node_ok (h : heap) (ncells : nat) (n : node A) : Prop :=
    match n with
    | CsgDefs.NLeaf _ _ => True
    | CsgDefs.NOp _ o t c ca =>
      ca = None /\ c < ncells /\
      forall id' o' t' ca', get_node h id' = Some (NOp o' t' c ca') -> o' = o
    end.

  Lemma grow_ok h n cs :
    wf h -> new_node_ok h (length (cells A h ++ cs)) n ->
    (cs = [] \/ exists ids, cs = [ids] /\ 2 <= length ids /\ forall x, In x ids -> x < length (nodes A h)) ->
    let h' := mkHeap A (nodes A h ++ [n]) (cells A h ++ cs) (tick A h) in
    wf h' /\ ext h h' /\ get_node h' (length (nodes A h)) = Some n /\
    (forall x, x < length (nodes A h) -> get_node h' x = get_node h x) /\
    (forall x, x < length (nodes A h) -> dn h' x = dn h x).
  Proof.
    intros W Hn Hcs h'.
    assert (Gn : forall x, x < length (nodes A h) -> get_node h' x = get_node h x).
    { intros x Hx. unfold CsgDefs.get_node, h'; cbn [nodes]. apply nth_error_app1. assumption. }
    assert (Gnew : get_node h' (length (nodes A h)) = Some n).
    { unfold CsgDefs.get_node, h'; cbn [nodes]. rewrite nth_error_app2 by lia. rewrite Nat.sub_diag. reflexivity. }
    assert (Gn' : forall x m, get_node h' x = Some m -> (x < length (nodes A h) /\ get_node h x = Some m) \/ (x = length (nodes A h) /\ m = n)).
    { intros x m Hx. destruct (Nat.lt_ge_cases x (length (nodes A h))) as [Hl|Hl].
      - left. rewrite Gn in Hx by assumption. auto.
      - right. pose proof (get_node_lt A _ _ _ Hx) as Hl'. unfold h' in Hl'; cbn [nodes] in Hl'.
        rewrite app_length in Hl'. cbn in Hl'. assert (x = length (nodes A h)) by lia. subst x.
        rewrite Gnew in Hx. inversion Hx. auto. }
    assert (Gc : forall c, c < length (cells A h) -> nth_error (cells A h') c = nth_error (cells A h) c).
    { intros c Hc. unfold h'; cbn [cells]. apply nth_error_app1. assumption. }
    assert (Core : forall f x, x < length (nodes A h) -> den A f h' x = den A f h x).
    { induction f as [|f IH]; intros x Hx; cbn; rewrite (Gn x Hx);
        destruct (get_node h x) as [[l|o t c ca]|] eqn:E; try reflexivity.
      f_equal. f_equal. pose proof (wf_cell A h W _ _ _ _ _ E) as Hc.
      unfold h'; cbn [cells]. rewrite app_nth1 by assumption.
      destruct (nth_error (cells A h) c) as [ch|] eqn:Ec; [|apply nth_error_None in Ec; lia].
      rewrite (nth_of_nth_error _ _ _ _ Ec). apply map_ext_in. intros y Hy. apply IH.
      destruct (wf_children A h W _ _ Ec) as [_ Hch]. destruct (Hch y Hy) as [[m Hm] _].
      eapply get_node_lt; eassumption. }
    assert (Lc : length (cells A h) <= length (cells A h')) by (unfold h'; cbn [cells]; rewrite app_length; lia).
    assert (Dn : forall x, x < length (nodes A h) -> dn h' x = dn h x).
    { intros x Hx. unfold CsgHeap.dn. rewrite Core by assumption.
      apply (den_fuel A h W); pose proof (rk_le A h W x); lia. }
    assert (Rk : forall x, x < length (nodes A h) -> rk A h' x = rk A h x).
    { intros x Hx. unfold rk. rewrite Gn by assumption. reflexivity. }
    assert (X : ext h h').
    { constructor.
      - unfold h'; cbn [nodes]. rewrite app_length. lia.
      - assumption.
      - intros id l H. rewrite Gn by (eapply get_node_lt; eassumption). eauto.
      - intros id o t c ca H. rewrite Gn by (eapply get_node_lt; eassumption). eauto.
      - intros id H. rewrite Dn by assumption. reflexivity. }
    split; [|auto].
    constructor.
    - intros id o t c ca H. destruct (Gn' _ _ H) as [[Hl H']|[-> Hm]].
      + pose proof (wf_cell A h W _ _ _ _ _ H'). lia.
      + subst n. cbn in Hn. unfold h'; cbn [cells]. tauto.
    - intros c ch H. destruct (Nat.lt_ge_cases c (length (cells A h))) as [Hl|Hl].
      + rewrite Gc in H by assumption. destruct (wf_children A h W _ _ H) as [S1 S2]. split.
        * destruct S1 as [S1|(rid & l & -> & Hr)]; [left; assumption|right]. exists rid, l. split; [reflexivity|].
          rewrite Gn by (eapply get_node_lt; eassumption). assumption.
        * intros x Hx. destruct (S2 x Hx) as [[m Hm] Hr]. pose proof (get_node_lt A _ _ _ Hm) as Hxl.
          rewrite Gn, Rk by assumption. eauto.
      + destruct Hcs as [->|(ids & -> & Hlen & Hids)].
        * unfold h' in H; cbn [cells] in H. rewrite app_nil_r in H.
          assert (nth_error (cells A h) c <> None) by congruence. apply nth_error_Some in H0. lia.
        * unfold h' in H; cbn [cells] in H. rewrite nth_error_app2 in H by assumption.
          destruct (c - length (cells A h)) as [|k] eqn:Ek; [|destruct k; discriminate].
          cbn in H. inversion H; subst ch. split; [left; assumption|].
          intros x Hx. specialize (Hids x Hx). rewrite Gn, Rk by assumption. split.
          -- destruct (nth_error (nodes A h) x) eqn:En; [unfold CsgDefs.get_node; rewrite En; eauto|].
             apply nth_error_None in En. lia.
          -- pose proof (rk_le A h W x). lia.
    - intros id id' o o' t t' c ca ca' H1 H2.
      destruct (Gn' _ _ H1) as [[Hl1 H1']|[E1 E1']], (Gn' _ _ H2) as [[Hl2 H2']|[E2 E2']].
      + eapply (wf_sameop A h W); eassumption.
      + subst n. cbn in Hn. destruct Hn as (_ & _ & Hs). eapply Hs. eassumption.
      + subst n. cbn in Hn. destruct Hn as (_ & _ & Hs). symmetry. eapply Hs. eassumption.
      + congruence.
    - intros id o t c cid H. destruct (Gn' _ _ H) as [[Hl H']|[-> Hm]].
      + destruct (wf_cache A h W _ _ _ _ _ H') as (l & El & Hl'). exists l. split.
        * rewrite Gn by (eapply get_node_lt; eassumption). assumption.
        * rewrite Dn by assumption. assumption.
      + subst n. cbn in Hn. destruct Hn as (Hn & _). discriminate.
  Qed.

  (* CsgLeafNode::GetImpl rewrites a leaf in place, keeping its solid *)
  Lemma norm_ok h lid l l' :
    wf h -> get_node h lid = Some (NLeaf l) -> lden A l' == lden A l ->
    let h' := mkHeap A (set_nth (nodes A h) lid (NLeaf l')) (cells A h) (tick A h) in
    wf h' /\ ext h h' /\ get_node h' lid = Some (NLeaf l').
  Proof.
    intros W E Hl h'. pose proof (get_node_lt A _ _ _ E) as Hlid.
    assert (Gn : forall x, get_node h' x = if Nat.eqb x lid then Some (NLeaf l') else get_node h x).
    { intros x. unfold CsgDefs.get_node, h'; cbn [nodes]. rewrite nth_error_set_nth.
      destruct (Nat.eqb x lid); [|reflexivity]. destruct (Nat.ltb_spec lid (length (nodes A h))); [reflexivity|lia]. }
    assert (Core : forall f x, den A f h' x == den A f h x).
    { induction f as [|f IH]; intros x; cbn; rewrite Gn; destruct (Nat.eqb_spec x lid) as [->|Hx];
        try (rewrite E; assumption); destruct (get_node h x) as [[l0|o t c ca]|]; try reflexivity.
      apply acP. apply (den_op_congr A LW). unfold h'; cbn [cells]. apply Forall2_map_in. intros; apply IH. }
    assert (Dn : forall x, dn h' x == dn h x) by (intros x; apply Core).
    assert (Rk : forall x, rk A h' x = rk A h x).
    { intros x. unfold rk. rewrite Gn. destruct (Nat.eqb_spec x lid) as [->|]; [rewrite E|]; reflexivity. }
    assert (Gop : forall x o t c ca, get_node h' x = Some (NOp o t c ca) <-> get_node h x = Some (NOp o t c ca)).
    { intros. rewrite Gn. destruct (Nat.eqb_spec x lid) as [->|]; [rewrite E; split; discriminate|reflexivity]. }
    assert (Gleaf : forall x l0, get_node h x = Some (NLeaf l0) -> exists l1, get_node h' x = Some (NLeaf l1) /\ lden A l1 == lden A l0).
    { intros x l0 Hx. rewrite Gn. destruct (Nat.eqb_spec x lid) as [->|].
      - rewrite E in Hx. inversion Hx; subst. eauto.
      - exists l0. split; [assumption|reflexivity]. }
    split; [|split].
    - constructor.
      + intros id o t c ca H. apply Gop in H. eapply (wf_cell A h W); eassumption.
      + intros c ch H. destruct (wf_children A h W _ _ H) as [S1 S2]. split.
        * destruct S1 as [S1|(rid & l0 & -> & Hr)]; [left; assumption|right].
          destruct (Gleaf _ _ Hr) as (l1 & H1 & _). eauto.
        * intros x Hx. destruct (S2 x Hx) as [[m Hm] Hr]. rewrite Rk. split; [|assumption].
          rewrite Gn. destruct (Nat.eqb x lid); eauto.
      + intros id id' o o' t t' c ca ca' H1 H2. apply Gop in H1, H2. eapply (wf_sameop A h W); eassumption.
      + intros id o t c cid H. apply Gop in H. destruct (wf_cache A h W _ _ _ _ _ H) as (l0 & El & Hl0).
        destruct (Gleaf _ _ El) as (l1 & H1 & H1'). exists l1. split; [assumption|].
        rewrite H1', Hl0. symmetry. apply Dn.
    - constructor.
      + unfold h'; cbn [nodes]. rewrite set_nth_length. lia.
      + reflexivity.
      + intros id l0 H. destruct (Gleaf _ _ H) as (l1 & H1 & _). eauto.
      + intros id o t c ca H. apply Gop in H. eauto.
      + intros; apply Dn.
    - rewrite Gn, Nat.eqb_refl. reflexivity.
  Qed.

  (* ---------------- the specification: eager, algebraic ---------------- *)
  Definition sp_handle (sp : list (option (sol A))) (a : nat) : option (sol A) :=
    match nth_error sp a with Some (Some v) => Some v | _ => None end.

  Fixpoint sp_handles (sp : list (option (sol A))) (hs : list nat) : option (list (sol A)) :=
    match hs with
    | [] => Some []
    | a :: r => match sp_handle sp a, sp_handles sp r with
                | Some v, Some vs => Some (v :: vs) | _, _ => None end
    end.

  (* what each Manifold value IS, operation by operation *)
  Definition spec_hop (sp : list (option (sol A))) (x : hop A) : option (list (option (sol A))) :=
    match x with
    | HLeaf _ v => Some (sp ++ [Some v])
    | HOp _ o hs =>
      match sp_handles sp hs with
      | None => None
      | Some [] => Some (sp ++ [Some (empty A)])
      | Some [v] => Some (sp ++ [Some v])
      | Some vs => Some (sp ++ [Some (den_op A o vs)])
      end
    | HBool _ o a b =>
      match sp_handle sp a, sp_handle sp b with
      | Some va, Some vb => Some (sp ++ [Some (den_op A o [va; vb])])
      | _, _ => None
      end
    | HTransform _ a m =>
      match sp_handle sp a with Some v => Some (sp ++ [Some (act A m v)]) | None => None end
    | HForce _ a => match sp_handle sp a with Some _ => Some sp | None => None end
    | HCopy _ a => match sp_handle sp a with Some v => Some (sp ++ [Some v]) | None => None end
    | HDrop _ a => match sp_handle sp a with Some _ => Some (set_nth sp a None) | None => None end
    end.

  Fixpoint spec_hops (sp : list (option (sol A))) (l : list (hop A)) : option (list (option (sol A))) :=
    match l with
    | [] => Some sp
    | x :: r => match spec_hop sp x with Some sp' => spec_hops sp' r | None => None end
    end.

  (* state invariant and its relation to the specification *)
  Definition rel (s : state A) (sp : list (option (sol A))) : Prop :=
    wf (st_heap A s) /\ length (st_handles A s) = length sp /\
    forall a, match handle A s a, sp_handle sp a with
              | Some id, Some v => id < length (nodes A (st_heap A s)) /\ dn (st_heap A s) id == v
              | None, None => True
              | _, _ => False
              end.

  Lemma rel_handle s sp a v : rel s sp -> sp_handle sp a = Some v ->
    exists id, handle A s a = Some id /\ id < length (nodes A (st_heap A s)) /\ dn (st_heap A s) id == v.
  Proof.
    intros (_ & _ & R) H. specialize (R a). rewrite H in R.
    destruct (handle A s a) as [id|]; [|contradiction]. eauto.
  Qed.

  Lemma rel_handles s sp hs vs : rel s sp -> sp_handles sp hs = Some vs ->
    exists ids, handles_of A s hs = Some ids /\ length ids = length vs /\
      (forall x, In x ids -> x < length (nodes A (st_heap A s))) /\
      Forall2 (eqS A) (map (dn (st_heap A s)) ids) vs.
  Proof.
    intros R. revert vs. induction hs as [|a r IH]; intros vs H; cbn in H.
    - inversion H; subst. exists []. cbn. repeat split; [intros ? []|constructor].
    - destruct (sp_handle sp a) as [v|] eqn:Ea; [|discriminate].
      destruct (sp_handles sp r) as [vs'|] eqn:Er; [|discriminate]. inversion H; subst.
      destruct (rel_handle _ _ _ _ R Ea) as (id & Hid & Hlt & Hd).
      destruct (IH _ eq_refl) as (ids & Hids & Hlen & Hlts & Hds).
      exists (id :: ids). cbn. rewrite Hid, Hids. repeat split; [cbn; lia| |constructor; assumption].
      intros x [<-|Hx]; auto.
  Qed.

  (* appending a handle that points to node id denoting v *)
  Lemma rel_push s sp h' id v :
    rel s sp -> wf h' -> ext (st_heap A s) h' -> id < length (nodes A h') -> dn h' id == v ->
    rel (mkState A h' (st_handles A s ++ [Some id])) (sp ++ [Some v]).
  Proof.
    intros (W & Hlen & R) W' X Hid Hv. split; [assumption|]. split; [cbn; rewrite !app_length; cbn; lia|].
    intros a. unfold handle, sp_handle; cbn [st_handles st_heap].
    destruct (Nat.lt_ge_cases a (length sp)) as [Hl|Hl].
    - rewrite !nth_error_app1 by lia. specialize (R a). unfold handle, sp_handle in R.
      destruct (nth_error (st_handles A s) a) as [[i|]|]; destruct (nth_error sp a) as [[w|]|]; try contradiction; try exact I.
      destruct R as [R1 R2]. pose proof (ext_nodes A _ _ X). split; [lia|].
      rewrite (ext_dn A _ _ X) by assumption. assumption.
    - rewrite !nth_error_app2 by lia. rewrite Hlen.
      destruct (a - length sp) as [|k]; cbn; [auto|destruct k; exact I].
  Qed.

  Lemma rel_same_handles s sp h' :
    rel s sp -> wf h' -> ext (st_heap A s) h' -> rel (mkState A h' (st_handles A s)) sp.
  Proof.
    intros (W & Hlen & R) W' X. split; [assumption|]. split; [assumption|].
    intros a. specialize (R a). unfold handle in *; cbn [st_handles st_heap] in *.
    destruct (nth_error (st_handles A s) a) as [[i|]|]; destruct (sp_handle sp a); try contradiction; try exact I.
    destruct R as [R1 R2]. pose proof (ext_nodes A _ _ X). split; [lia|].
    rewrite (ext_dn A _ _ X) by assumption. assumption.
  Qed.

  Lemma rel_handle_lt s sp a v : rel s sp -> sp_handle sp a = Some v -> a < length (st_handles A s).
  Proof.
    intros R H. destruct (rel_handle _ _ _ _ R H) as (id & Hid & _). unfold handle in Hid.
    apply nth_error_Some. destruct (nth_error (st_handles A s) a); congruence.
  Qed.

  Lemma rel_set s sp h' a lid v :
    rel s sp -> wf h' -> ext (st_heap A s) h' -> sp_handle sp a = Some v ->
    lid < length (nodes A h') -> dn h' lid == v ->
    rel (mkState A h' (set_nth (st_handles A s) a (Some lid))) sp.
  Proof.
    intros R W' X Ha Hl Hv. pose proof (rel_handle_lt _ _ _ _ R Ha) as Hlt. destruct R as (W & Hlen & R).
    split; [assumption|]. split; [cbn; rewrite set_nth_length; assumption|].
    intros b. unfold handle; cbn [st_handles st_heap]. rewrite nth_error_set_nth.
    destruct (Nat.eqb_spec b a) as [->|Hb].
    - rewrite Ha. destruct (Nat.ltb_spec a (length (st_handles A s))); [split; assumption|lia].
    - specialize (R b). unfold handle in R.
      destruct (nth_error (st_handles A s) b) as [[i|]|]; destruct (sp_handle sp b); try contradiction; try exact I.
      destruct R as [R1 R2]. pose proof (ext_nodes A _ _ X). split; [lia|].
      rewrite (ext_dn A _ _ X) by assumption. assumption.
  Qed.

  Lemma rel_drop s sp a v : rel s sp -> sp_handle sp a = Some v ->
    rel (mkState A (st_heap A s) (set_nth (st_handles A s) a None)) (set_nth sp a None).
  Proof.
    intros R Ha. pose proof (rel_handle_lt _ _ _ _ R Ha) as Hlt. destruct R as (W & Hlen & R).
    split; [assumption|]. split; [cbn; rewrite !set_nth_length; assumption|].
    intros b. unfold handle, sp_handle; cbn [st_handles st_heap]. rewrite !nth_error_set_nth.
    destruct (Nat.eqb_spec b a) as [->|Hb].
    - rewrite <- Hlen. destruct (Nat.ltb_spec a (length (st_handles A s))); exact I.
    - apply (R b).
  Qed.

  Lemma den_op_pair_comm o a b : o <> Sub -> den_op A o [b; a] == den_op A o [a; b].
  Proof.
    intros Ho. destruct o; [|congruence|]; cbn.
    - rewrite !(union_empty_r A LW). apply (union_comm A LW).
    - apply (inter_comm A LW).
  Qed.

  Definition fuel_ok (fuel : nat) (s : state A) (nops : nat) : Prop :=
    length (cells A (st_heap A s)) + nops <= fuel.

  (* one operation *)
  Lemma do_hop_ok fuel s sp x sp' :
    rel s sp -> spec_hop sp x = Some sp' -> length (cells A (st_heap A s)) <= fuel ->
    exists s', do_hop A uniq ovl sz kmax fuel false s x = Some s' /\ rel s' sp' /\
               ext (st_heap A s) (st_heap A s') /\
               length (cells A (st_heap A s')) <= S (length (cells A (st_heap A s))).
  Proof.
    intros R H Hf. pose proof R as (W & Hlen & Rh). destruct x as [v|o hs|o a b|a m|a|a|a]; cbn [spec_hop do_hop] in *.
    - (* HLeaf *)
      inversion H; subst sp'.
      destruct (grow_ok (st_heap A s) (NLeaf (v, mone A)) [] W I (or_introl eq_refl)) as (W' & X & Gnew & _ & _).
      rewrite app_nil_r in *.
      eexists. split; [reflexivity|]. unfold alloc_node. split; [|split; [exact X|cbn; lia]].
      apply rel_push; try assumption.
      + cbn. rewrite app_length. cbn. lia.
      + rewrite (dn_leaf A _ _ _ Gnew). unfold lden; cbn. apply (act_one A LW).
    - (* HOp *)
      destruct (sp_handles sp hs) as [vs|] eqn:Ehs; [|discriminate].
      destruct (rel_handles _ _ _ _ R Ehs) as (ids & Hids & Hl & Hlts & Hds). rewrite Hids.
      destruct vs as [|v1 [|v2 vs]]; destruct ids as [|i1 [|i2 ids]]; try (cbn in Hl; lia); inversion H; subst sp'.
      + destruct (grow_ok (st_heap A s) (NLeaf (empty_leaf A)) [] W I (or_introl eq_refl)) as (W' & X & Gnew & _ & _).
        rewrite app_nil_r in *.
        eexists. split; [reflexivity|]. unfold alloc_node. split; [|split; [exact X|cbn; lia]].
        apply rel_push; try assumption.
        * cbn. rewrite app_length. cbn. lia.
        * rewrite (dn_leaf A _ _ _ Gnew). apply (lden_empty_leaf A LW).
      + eexists. split; [reflexivity|]. split; [|split; [apply (ext_refl A LW)|cbn; lia]].
        apply rel_push; [exact R|assumption|apply (ext_refl A LW)|apply Hlts; left; reflexivity|].
        inversion Hds; subst. assumption.
      + set (IDS := i1 :: i2 :: ids) in *. set (VS := v1 :: v2 :: vs) in *.
        destruct (grow_ok (st_heap A s) (NOp o (mone A) (length (cells A (st_heap A s))) None) [IDS] W) as (W' & X & Gnew & Gold & Dold).
        { cbn. split; [reflexivity|]. split; [rewrite app_length; cbn; lia|].
          intros id' o' t' ca' Hn. pose proof (wf_cell A _ W _ _ _ _ _ Hn). lia. }
        { right. exists IDS. split; [reflexivity|]. split; [subst IDS; cbn; lia|assumption]. }
        eexists. split; [reflexivity|]. unfold alloc_op. split; [|split; [exact X|cbn; rewrite app_length; cbn; lia]].
        apply rel_push; try assumption.
        * cbn. rewrite app_length. cbn. lia.
        * rewrite (dn_op A _ W' _ _ _ _ _ IDS Gnew).
          2:{ cbn [cells]. rewrite nth_error_app2 by lia. rewrite Nat.sub_diag. reflexivity. }
          rewrite (act_one A LW). apply (den_op_congr A LW).
          assert (E : map (dn {| nodes := nodes A (st_heap A s) ++ [NOp o (mone A) (length (cells A (st_heap A s))) None];
                                 cells := cells A (st_heap A s) ++ [IDS]; tick := tick A (st_heap A s) |}) IDS
                      = map (dn (st_heap A s)) IDS).
          { apply map_ext_in. intros y Hy. apply Dold. apply Hlts. assumption. }
          rewrite E. assumption.
    - (* HBool *)
      destruct (sp_handle sp a) as [va|] eqn:Ea; [|discriminate].
      destruct (sp_handle sp b) as [vb|] eqn:Eb; [|discriminate]. inversion H; subst sp'.
      destruct (rel_handle _ _ _ _ R Ea) as (ia & Hia & Hla & Hda).
      destruct (rel_handle _ _ _ _ R Eb) as (ib & Hib & Hlb & Hdb). rewrite Hia, Hib.
      assert (G : forall i1 i2 v1 v2, i1 < length (nodes A (st_heap A s)) -> i2 < length (nodes A (st_heap A s)) ->
                  dn (st_heap A s) i1 == v1 -> dn (st_heap A s) i2 == v2 -> den_op A o [v1; v2] == den_op A o [va; vb] ->
                  exists s', Some (alloc_op A s o [i1; i2]) = Some s' /\ rel s' (sp ++ [Some (den_op A o [va; vb])]) /\
                    ext (st_heap A s) (st_heap A s') /\ length (cells A (st_heap A s')) <= S (length (cells A (st_heap A s)))).
      { intros i1 i2 v1 v2 L1 L2 D1 D2 Hv.
        destruct (grow_ok (st_heap A s) (NOp o (mone A) (length (cells A (st_heap A s))) None) [[i1; i2]] W) as (W' & X & Gnew & Gold & Dold).
        { cbn. split; [reflexivity|]. split; [rewrite app_length; cbn; lia|].
          intros id' o' t' ca' Hn. pose proof (wf_cell A _ W _ _ _ _ _ Hn). lia. }
        { right. exists [i1; i2]. split; [reflexivity|]. split; [cbn; lia|]. intros x [<-|[<-|[]]]; assumption. }
        eexists. split; [reflexivity|]. unfold alloc_op. split; [|split; [exact X|cbn; rewrite app_length; cbn; lia]].
        apply rel_push; try assumption.
        * cbn. rewrite app_length. cbn. lia.
        * rewrite (dn_op A _ W' _ _ _ _ _ [i1; i2] Gnew).
          2:{ cbn [cells]. rewrite nth_error_app2 by lia. rewrite Nat.sub_diag. reflexivity. }
          rewrite (act_one A LW). cbn [map]. rewrite !Dold by assumption. rewrite <- Hv.
          apply (den_op_congr A LW). repeat constructor; assumption. }
      destruct (is_leaf_node A (st_heap A s) ia && negb (is_leaf_node A (st_heap A s) ib) && negb (is_sub o)) eqn:Esw.
      + apply (G ib ia vb va); try assumption. apply den_op_pair_comm.
        apply andb_prop in Esw. destruct Esw as [_ Es]. destruct o; cbn in Es; congruence.
      + apply (G ia ib va vb); try assumption. reflexivity.
    - (* HTransform *)
      destruct (sp_handle sp a) as [va|] eqn:Ea; [|discriminate]. inversion H; subst sp'.
      destruct (rel_handle _ _ _ _ R Ea) as (ia & Hia & Hla & Hda). rewrite Hia.
      destruct (get_node (st_heap A s) ia) as [[l|o t c ca]|] eqn:En; [| |apply nth_error_None in En; lia].
      + destruct (grow_ok (st_heap A s) (NLeaf (ltransform A m l)) [] W I (or_introl eq_refl)) as (W' & X & Gnew & _ & _).
        rewrite app_nil_r in *.
        eexists. split; [reflexivity|]. unfold alloc_node. split; [|split; [exact X|cbn; lia]].
        apply rel_push; try assumption.
        * cbn. rewrite app_length. cbn. lia.
        * rewrite (dn_leaf A _ _ _ Gnew). rewrite (lden_ltransform A LW).
          rewrite <- Hda. rewrite (dn_leaf A _ _ _ En). reflexivity.
      + pose proof (wf_cell A _ W _ _ _ _ _ En) as Hc.
        destruct (grow_ok (st_heap A s) (NOp o (mmul A m t) c None) [] W) as (W' & X & Gnew & Gold & Dold).
        { cbn. split; [reflexivity|]. split; [rewrite app_nil_r; assumption|].
          intros id' o' t' ca' Hn. eapply (wf_sameop A _ W); eassumption. }
        { left. reflexivity. }
        rewrite app_nil_r in *.
        eexists. split; [reflexivity|]. unfold alloc_node. split; [|split; [exact X|cbn; lia]].
        apply rel_push; try assumption.
        * cbn. rewrite app_length. cbn. lia.
        * destruct (nth_error (cells A (st_heap A s)) c) as [ch|] eqn:Ec; [|apply nth_error_None in Ec; lia].
          rewrite (dn_op A _ W' _ _ _ _ _ ch Gnew) by (cbn [cells]; assumption).
          rewrite (act_mul A LW). rewrite <- Hda. rewrite (dn_op A _ W _ _ _ _ _ ch En Ec).
          apply acP. apply acP. apply (den_op_congr A LW). apply Forall2_map_in. intros y Hy.
          rewrite Dold; [reflexivity|]. destruct (wf_children A _ W _ _ Ec) as [_ Hch].
          destruct (Hch y Hy) as [[ny Hny] _]. eapply get_node_lt; eassumption.
    - (* HForce *)
      destruct (sp_handle sp a) as [va|] eqn:Ea; [|discriminate]. inversion H; subst sp'.
      destruct (rel_handle _ _ _ _ R Ea) as (ia & Hia & Hla & Hda). unfold force. rewrite Hia.
      assert (G : exists h1 lid l, match get_node (st_heap A s) ia with
                       | Some (CsgDefs.NLeaf _ _) => Some (st_heap A s, ia)
                       | Some (CsgDefs.NOp _ _ _ _ _) => to_leaf_rec A uniq ovl sz kmax fuel (st_heap A s) ia
                       | None => None end = Some (h1, lid) /\ wf h1 /\ ext (st_heap A s) h1 /\
                     get_node h1 lid = Some (NLeaf l) /\ lden A l == va /\
                     length (cells A h1) = length (cells A (st_heap A s))).
      { destruct (get_node (st_heap A s) ia) as [[l|o t c ca]|] eqn:En; [| |apply nth_error_None in En; lia].
        - exists (st_heap A s), ia, l. split; [reflexivity|]. split; [assumption|]. split; [apply (ext_refl A LW)|].
          split; [assumption|]. split; [|reflexivity]. rewrite <- Hda, (dn_leaf A _ _ _ En). reflexivity.
        - destruct (to_leaf_rec_ok A LW uniq ovl sz kmax OS K2 _ _ _ _ _ _ fuel W En Hf)
            as (h1 & cid & l & E1 & W1 & X1 & Gl & Hl & _).
          exists h1, cid, l. split; [assumption|]. split; [assumption|]. split; [assumption|].
          split; [assumption|]. split; [rewrite Hl; assumption|].
          eapply to_leaf_rec_len; eassumption. }
      destruct G as (h1 & lid & l & E1 & W1 & X1 & Gl & Hl & Lc).
      cbv beta iota zeta. rewrite E1, Gl.
      destruct (norm_ok h1 lid l (get_impl A l) W1 Gl (lden_get_impl A LW l)) as (W2 & X2 & G2).
      eexists. split; [reflexivity|]. split; [|split; [eapply (ext_trans A LW); eassumption|cbn; lia]].
      apply (rel_set s sp _ a lid va R W2 (ext_trans A LW _ _ _ X1 X2) Ea).
      + eapply get_node_lt; eassumption.
      + rewrite (dn_leaf A _ _ _ G2), (lden_get_impl A LW). assumption.
    - (* HCopy *)
      destruct (sp_handle sp a) as [va|] eqn:Ea; [|discriminate]. inversion H; subst sp'.
      destruct (rel_handle _ _ _ _ R Ea) as (ia & Hia & Hla & Hda). rewrite Hia.
      eexists. split; [reflexivity|]. split; [|split; [apply (ext_refl A LW)|cbn; lia]].
      apply rel_push; [exact R|assumption|apply (ext_refl A LW)|assumption|assumption].
    - (* HDrop *)
      destruct (sp_handle sp a) as [va|] eqn:Ea; [|discriminate]. inversion H; subst sp'.
      destruct (rel_handle _ _ _ _ R Ea) as (ia & Hia & Hla & Hda). rewrite Hia.
      eexists. split; [reflexivity|]. split; [|split; [apply (ext_refl A LW)|cbn; lia]].
      eapply rel_drop; eassumption.
  Qed.

  (* ---------------- whole histories ---------------- *)
  Theorem do_hops_ok : forall l fuel s sp sp',
    rel s sp -> spec_hops sp l = Some sp' -> length (cells A (st_heap A s)) + length l <= fuel ->
    exists s', do_hops A uniq ovl sz kmax fuel false s l = Some s' /\ rel s' sp' /\
      ext (st_heap A s) (st_heap A s') /\
      length (cells A (st_heap A s')) <= length (cells A (st_heap A s)) + length l.
  Proof.
    induction l as [|x r IH]; intros fuel s sp sp' R H Hf; cbn [spec_hops do_hops] in *.
    - inversion H; subst. exists s. split; [reflexivity|]. split; [assumption|]. split; [apply (ext_refl A LW)|cbn; lia].
    - destruct (spec_hop sp x) as [sp1|] eqn:E1; [|discriminate].
      destruct (do_hop_ok fuel s sp x sp1 R E1 ltac:(cbn in Hf; lia)) as (s1 & D1 & R1 & X1 & L1).
      rewrite D1. destruct (IH fuel s1 sp1 sp' R1 H ltac:(cbn in Hf; lia)) as (s' & D' & R' & X' & L').
      exists s'. split; [assumption|]. split; [assumption|]. split; [eapply (ext_trans A LW); eassumption|cbn; lia].
  Qed.

  Lemma rel_init : rel (init_state A) [].
  Proof.
    split; [|split; [reflexivity|]].
    - constructor.
      + intros id o t c ca H. destruct id; discriminate.
      + intros c ch H. destruct c; discriminate.
      + intros id id' o o' t t' c ca ca' H. destruct id; discriminate.
      + intros id o t c cid H. destruct id; discriminate.
    - intros a. unfold handle, sp_handle. cbn. destruct a; exact I.
  Qed.

  (* Forcing: the handle afterwards points to a LEAF whose solid is the value of
     the handle's original expression; every other handle keeps its value;
     every node that existed before keeps its denotation. *)
  Theorem force_ok fuel s sp a v :
    rel s sp -> sp_handle sp a = Some v -> length (cells A (st_heap A s)) <= fuel ->
    exists s' lid l, force A uniq ovl sz kmax fuel false s a = Some s' /\
      handle A s' a = Some lid /\ get_node (st_heap A s') lid = Some (NLeaf l) /\ lden A l == v /\
      rel s' sp /\ ext (st_heap A s) (st_heap A s').
  Proof.
    intros R Ea Hf.
    assert (Hs : spec_hop sp (HForce A a) = Some sp) by (cbn; rewrite Ea; reflexivity).
    destruct (do_hop_ok fuel s sp (HForce A a) sp R Hs Hf) as (s' & D & R' & X & _). cbn [do_hop] in D.
    pose proof D as D0.
    destruct (rel_handle _ _ _ _ R' Ea) as (lid & Hlid & Hlt & Hd).
    (* the forced handle is a leaf *)
    unfold force in D. destruct (rel_handle _ _ _ _ R Ea) as (ia & Hia & _). rewrite Hia in D.
    cbv beta iota zeta in D.
    destruct (match get_node (st_heap A s) ia with
              | Some (CsgDefs.NLeaf _ _) => Some (st_heap A s, ia)
              | Some (CsgDefs.NOp _ _ _ _ _) => to_leaf_rec A uniq ovl sz kmax fuel (st_heap A s) ia
              | None => None end) as [[h1 lid1]|]; [|discriminate].
    destruct (get_node h1 lid1) as [[l1|? ? ? ?]|] eqn:G1; try discriminate.
    inversion D; subst s'. clear D.
    unfold handle in Hlid; cbn [st_handles] in Hlid. rewrite nth_error_set_nth, Nat.eqb_refl in Hlid.
    cbn [st_heap] in *.
    assert (lid = lid1).
    { destruct (Nat.ltb a (length (st_handles A s))); [congruence|discriminate]. }
    subst lid1.
    pose proof (get_node_lt A _ _ _ G1) as Hl1.
    exists (mkState A (mkHeap A (set_nth (nodes A h1) lid (NLeaf (get_impl A l1))) (cells A h1) (tick A h1))
                    (set_nth (st_handles A s) a (Some lid))), lid, (get_impl A l1).
    split; [exact D0|]. split.
    { unfold handle; cbn [st_handles]. rewrite nth_error_set_nth, Nat.eqb_refl.
      destruct (Nat.ltb a (length (st_handles A s))); [reflexivity|discriminate]. }
    assert (G2 : get_node (mkHeap A (set_nth (nodes A h1) lid (NLeaf (get_impl A l1))) (cells A h1) (tick A h1)) lid
                 = Some (NLeaf (get_impl A l1))).
    { unfold CsgDefs.get_node; cbn [nodes]. rewrite nth_error_set_nth, Nat.eqb_refl.
      destruct (Nat.ltb_spec lid (length (nodes A h1))); [reflexivity|lia]. }
    split; [exact G2|]. split; [|split; assumption].
    rewrite <- Hd. rewrite (dn_leaf A _ _ _ G2). reflexivity.
  Qed.
End Hist.

(* the same, with every use_count answer DERIVED from the heap and the live handles (uniq_rc): the model decides
   canCollapse by counting owners, as the code does *)
Theorem do_hops_rc_ok (A : CsgOps) (LW : CsgLaws A) ovl sz kmax :
  ovl_sound A ovl -> 2 <= kmax ->
  forall l fuel s sp sp',
    rel A s sp -> spec_hops A sp l = Some sp' -> length (cells A (st_heap A s)) + length l <= fuel ->
    exists s', do_hops_rc A ovl sz kmax fuel false s l = Some s' /\ rel A s' sp' /\
               ext A (st_heap A s) (st_heap A s') /\
               length (cells A (st_heap A s')) <= length (cells A (st_heap A s)) + length l.
Proof.
  intros OS K2. induction l as [|x r IH]; intros fuel s sp sp' R H Hf; cbn [spec_hops do_hops_rc] in *.
  - inversion H; subst. exists s. split; [reflexivity|]. split; [assumption|]. split; [apply (ext_refl A LW)|cbn; lia].
  - destruct (spec_hop A sp x) as [sp1|] eqn:E1; [|discriminate].
    destruct (do_hop_ok A LW (uniq_rc A (st_handles A s)) ovl sz kmax OS K2 fuel s sp x sp1 R E1 ltac:(cbn in Hf; lia))
      as (s1 & D1 & R1 & X1 & L1).
    unfold do_hop_rc. rewrite D1.
    destruct (IH fuel s1 sp1 sp' R1 H ltac:(cbn in Hf; lia)) as (s' & D' & R' & X' & L').
    exists s'. split; [assumption|]. split; [assumption|]. split; [eapply (ext_trans A LW); eassumption|cbn; lia].
Qed.
