(* Status: any carrier of solids lifted to "a solid or an error code", with the
   forwarding rules of the code:
     Boolean3::Result   inP errored -> inP's status, else inQ errored -> inQ's status   (boolean_result.cpp)
     CsgLeafNode::Compose  the first node (in order) whose status is not NoError        (csg_tree.cpp)
     Impl::Transform    keeps the status                                                (impl.cpp)
   [ejoin] is the code two errored operands of one Boolean report: the pinned
   code has ejoin a b = a (first wins).  Cancelled is C15's.  No proofs here. *)
From Coq Require Import List ZArith Bool.
From MV Require Import Csg.CsgDefs Csg.CsgVoxelDefs.
Import ListNotations.

Section Lift.
  Variable A : CsgOps.
  Variable E : Type.
  Variable ejoin : E -> E -> E.
  Variable eqE : E -> E -> Prop.

  Inductive st := Ok (s : sol A) | Err (e : E).

  Definition lift2 (f : sol A -> sol A -> sol A) (x y : st) : st :=
    match x, y with
    | Ok a, Ok b => Ok (f a b)
    | Err e, Ok _ => Err e
    | Ok _, Err e => Err e
    | Err e1, Err e2 => Err (ejoin e1 e2)
    end.

  Fixpoint errs (l : list st) : list E :=
    match l with [] => [] | Ok _ :: r => errs r | Err e :: r => e :: errs r end.
  Fixpoint oks (l : list st) : list (sol A) :=
    match l with [] => [] | Ok s :: r => s :: oks r | Err _ :: r => oks r end.
  Fixpoint ejoin_all (e : E) (r : list E) : E :=
    match r with [] => e | e' :: r' => ejoin e (ejoin_all e' r') end.

  Definition st_compose (l : list st) : st :=
    match errs l with
    | [] => Ok (compose A (oks l))
    | e :: r => Err (ejoin_all e r)
    end.

  Definition st_eq (x y : st) : Prop :=
    match x, y with Ok a, Ok b => eqS A a b | Err a, Err b => eqE a b | _, _ => False end.
  Definition st_dj (x y : st) : Prop :=
    match x, y with Ok a, Ok b => dj A a b | _, _ => True end.
  Definition st_act (m : tr A) (x : st) : st :=
    match x with Ok a => Ok (act A m a) | Err e => Err e end.

  Definition StatOps : CsgOps :=
    mkCsgOps st (tr A) st_eq (lift2 (union A)) (lift2 (inter A)) (lift2 (diff A)) (Ok (empty A))
             st_compose st_dj (mone A) (mmul A) (m_is_one A) st_act.
End Lift.

Arguments Ok {A E} s.
Arguments Err {A E} e.

(* the pinned code: first error wins; "the same Status" up to WHICH error: eqE identifies all codes *)
Definition first_wins {E : Type} (a _ : E) : E := a.
Definition any_code {E : Type} (_ _ : E) : Prop := True.

(* voxels with statuses, codes are the integers of Manifold::Error *)
Definition SVoxOps : CsgOps := StatOps VoxOps Z first_wins any_code.
(* the order-independent rule (hooks/fix_C03_1.patch): the smallest code wins, codes compared exactly *)
Definition SVoxOpsMin : CsgOps := StatOps VoxOps Z Z.min (@eq Z).
Definition svovl (a b : @st VoxOps Z * list gen) : bool :=
  match fst a, fst b with
  | Ok x, Ok y => vovl (x, snd a) (y, snd b)
  | _, _ => false                    (* an errored Impl has an empty bounding box: DoesOverlap is false *)
  end.
