(* "... and the same Status": the C03 theorems at the status-lifted carrier. *)
From Coq Require Import List ZArith Bool Arith Lia.
From MV Require Import Csg.CsgDefs Csg.CsgAlgebra Csg.CsgHeap Csg.CsgVisit Csg.CsgModel Csg.CsgThms
     Csg.CsgVoxelDefs Csg.CsgVoxel Csg.CsgStatusDefs Csg.CsgStatus.
Import ListNotations.

Definition is_err {A E} (x : @st A E) : bool := match x with Ok _ => false | Err _ => true end.
Definition code_of {A E} (x : @st A E) : option E := match x with Ok _ => None | Err e => Some e end.

Section StatusThms.
  Variable A : CsgOps.
  Hypothesis LW : CsgLaws A.
  Variable E : Type.
  Local Notation S1 := (StatOps A E first_wins any_code).

  (* pinned forwarding rule (first error wins): two histories that differ only in their forcing calls, under
     unrelated oracle answers, force a handle to leaves that are BOTH errored or BOTH fine with the same solid *)
  Theorem status_same_thm (O1 O2 : oracles S1) l1 l2 sp1 sp2 a v :
    oracles_ok S1 O1 -> oracles_ok S1 O2 ->
    strip_force S1 l1 = strip_force S1 l2 ->
    spec_hops S1 [] l1 = Some sp1 -> spec_hops S1 [] l2 = Some sp2 ->
    sp_handle S1 sp1 a = Some v ->
    exists s1 s2 lid1 lid2 lf1 lf2,
      run S1 O1 (S (length l1)) false (l1 ++ [HForce S1 a]) = Some s1 /\
      run S1 O2 (S (length l2)) false (l2 ++ [HForce S1 a]) = Some s2 /\
      handle S1 s1 a = Some lid1 /\ get_node S1 (st_heap S1 s1) lid1 = Some (NLeaf S1 lf1) /\
      handle S1 s2 a = Some lid2 /\ get_node S1 (st_heap S1 s2) lid2 = Some (NLeaf S1 lf2) /\
      is_err (lden S1 lf1) = is_err (lden S1 lf2) /\ is_err (lden S1 lf1) = is_err v /\
      (forall x y, lden S1 lf1 = Ok x -> lden S1 lf2 = Ok y -> eqS A x y).
  Proof.
    intros K1 K2 Es S1' S2' Ha.
    destruct (lazy_eq_eager_thm S1 (StatLaws_first_wins A E LW) O1 O2 l1 l2 sp1 sp2 a v K1 K2 Es S1' S2' Ha)
      as (_ & s1 & s2 & lid1 & lid2 & lf1 & lf2 & R1 & R2 & H1 & G1 & H2 & G2 & D).
    destruct (force_denotes_thm S1 (StatLaws_first_wins A E LW) O1 l1 sp1 a v K1 S1' Ha)
      as (_ & s1' & lid1' & lf1' & _ & R1' & _ & _ & H1' & G1' & D1' & _).
    rewrite R1 in R1'. inversion R1'; subst s1'. rewrite H1 in H1'. inversion H1'; subst lid1'.
    rewrite G1 in G1'. inversion G1'; subst lf1'.
    exists s1, s2, lid1, lid2, lf1, lf2. repeat (split; [assumption|]).
    revert D D1'.
    generalize (lden S1 lf1 : @st A E) (lden S1 lf2 : @st A E) (v : @st A E).
    intros [x|e1] [y|e2] [z|e3]; cbn; intros D D1'; try contradiction;
      (split; [reflexivity|split; [reflexivity|]]); intros x' y' Hx Hy; inversion Hx; inversion Hy; subst; assumption.
  Qed.

  (* an order-independent rule (smallest code wins) makes the exact Status history independent *)
  Local Notation S2 := (StatOps A Z Z.min (@eq Z)).
  Theorem status_exact_if_min_wins_thm (O1 O2 : oracles S2) l1 l2 sp1 sp2 a v :
    oracles_ok S2 O1 -> oracles_ok S2 O2 ->
    strip_force S2 l1 = strip_force S2 l2 ->
    spec_hops S2 [] l1 = Some sp1 -> spec_hops S2 [] l2 = Some sp2 ->
    sp_handle S2 sp1 a = Some v ->
    exists s1 s2 lid1 lid2 lf1 lf2,
      run S2 O1 (S (length l1)) false (l1 ++ [HForce S2 a]) = Some s1 /\
      run S2 O2 (S (length l2)) false (l2 ++ [HForce S2 a]) = Some s2 /\
      handle S2 s1 a = Some lid1 /\ get_node S2 (st_heap S2 s1) lid1 = Some (NLeaf S2 lf1) /\
      handle S2 s2 a = Some lid2 /\ get_node S2 (st_heap S2 s2) lid2 = Some (NLeaf S2 lf2) /\
      code_of (lden S2 lf1) = code_of (lden S2 lf2).
  Proof.
    intros K1 K2 Es S1' S2' Ha.
    destruct (lazy_eq_eager_thm S2 (StatLaws_min_wins A LW) O1 O2 l1 l2 sp1 sp2 a v K1 K2 Es S1' S2' Ha)
      as (_ & s1 & s2 & lid1 & lid2 & lf1 & lf2 & R1 & R2 & H1 & G1 & H2 & G2 & D).
    exists s1, s2, lid1, lid2, lf1, lf2. repeat (split; [assumption|]).
    revert D. generalize (lden S2 lf1 : @st A Z) (lden S2 lf2 : @st A Z).
    intros [x|e1] [y|e2]; cbn; intros D; try contradiction; congruence.
  Qed.
End StatusThms.

(* ---------------- refutation of the exact statement on the pinned rule ---------------- *)
(* e1 = a mesh with a NaN vertex (NonFiniteVertex = 1), e2 = a mesh with a wrong faceID length (FaceIDWrongLength = 10),
   c = a cube.  x = e1 ^ e2 is a temporary, r = x ^ c.  Forcing r lazily collapses x into r: BatchBoolean pops c (most
   vertices), then e2 (larger serial), and Boolean3(c, e2) reports e2's code; forcing x first reports e1's code. *)
Definition st_e1 : sol SVoxOps := @Err VoxOps Z 1%Z.
Definition st_e2 : sol SVoxOps := @Err VoxOps Z 10%Z.
Definition st_c : sol SVoxOps := @Ok VoxOps Z (vbox 0 2 0 2 0 2).
Definition st_sz (l : sol SVoxOps * tr SVoxOps) : Z :=
  match (fst l : @st VoxOps Z) with Ok s => Z.of_nat (length (s : list vox)) | Err _ => 0%Z end.
Definition st_oracles : oracles SVoxOps := mkOracles SVoxOps (fun _ _ => true) svovl st_sz 1000.

Definition st_lazy : list (hop SVoxOps) :=
  [HLeaf SVoxOps st_e1; HLeaf SVoxOps st_e2; HLeaf SVoxOps st_c; HBool SVoxOps Int 0 1; HBool SVoxOps Int 3 2;
   HDrop SVoxOps 3; HForce SVoxOps 4].
Definition st_eager : list (hop SVoxOps) :=
  [HLeaf SVoxOps st_e1; HLeaf SVoxOps st_e2; HLeaf SVoxOps st_c; HBool SVoxOps Int 0 1; HForce SVoxOps 3;
   HBool SVoxOps Int 3 2; HDrop SVoxOps 3; HForce SVoxOps 4].

Definition st_result (stack : bool) (l : list (hop SVoxOps)) (a : nat) : option (option Z) :=
  match run SVoxOps st_oracles 20 stack l with
  | Some s => match handle SVoxOps s a with
              | Some id => match get_node SVoxOps (st_heap SVoxOps s) id with
                           | Some (NLeaf _ lf) => Some (code_of (lden SVoxOps lf))
                           | _ => None
                           end
              | None => None
              end
  | None => None
  end.

Theorem status_code_refuted_thm :
  oracles_ok SVoxOps st_oracles /\
  strip_force SVoxOps st_lazy = strip_force SVoxOps st_eager /\
  st_result true st_lazy 4 = Some (Some 10%Z) /\ st_result true st_eager 4 = Some (Some 1%Z) /\
  st_result false st_lazy 4 = Some (Some 10%Z) /\ st_result false st_eager 4 = Some (Some 1%Z).
Proof.
  split; [split; [exact svovl_sound|cbn; lia]|].
  vm_compute. repeat split; reflexivity.
Qed.
