(* The explicit-stack machine (CsgDefs.step / run / to_leaf_stack, the
   frame-for-frame port of CsgOpNode::ToLeafNode) computes exactly what the
   big-step evaluator computes: same heap, same cache node, for some fuel.
   Purely structural: no law of the carrier, no well-formedness is needed. *)
From Coq Require Import List ZArith Bool Arith Lia.
From MV Require Import Csg.CsgDefs Csg.CsgHeap.
Import ListNotations.

Section Stack.
  Variable A : CsgOps.
  Variable uniq : heap A -> nat -> bool.
  Variable ovl : (sol A * tr A) -> (sol A * tr A) -> bool.
  Variable sz : (sol A * tr A) -> Z.
  Variable kmax : nat.
  Local Notation leaf := (sol A * tr A)%type.
  Local Notation frame := (frame A).
  Local Notation visit := (visit A uniq ovl sz kmax).
  Local Notation run := (run A uniq ovl sz kmax).
  Local Notation step := (step A uniq ovl sz kmax).

  (* where a frame delivers: every frame's two destinations live in ONE lower frame *)
  Inductive tgt := TRoot | TPos (k : nat) (withneg : bool) | TNeg (k : nat).
  Definition td1 (g : tgt) : dest :=
    match g with TRoot => None | TPos k _ => Some (k, false) | TNeg k => Some (k, true) end.
  Definition td2 (g : tgt) : dest :=
    match g with TPos k true => Some (k, true) | _ => None end.

  (* frame k (counted from the bottom) gets X appended to positive_children, Y to negative_children *)
  Definition pfl2 (fr : frame) (X Y : list leaf) : frame :=
    mkFrame A (f_fin A fr) (f_pop A fr) (f_T A fr) (f_d1 A fr) (f_d2 A fr) (f_id A fr) (f_P A fr ++ X) (f_N A fr ++ Y).
  Definition upd (st : list frame) (k : nat) (X Y : list leaf) : list frame :=
    match nth_error st (length st - 1 - k) with
    | Some fr => set_nth st (length st - 1 - k) (pfl2 fr X Y)
    | None => st
    end.
  Definition eff (st : list frame) (g : tgt) (L1 L2 : list leaf) : list frame :=
    match g with
    | TRoot => st
    | TPos k _ => upd st k L1 L2
    | TNeg k => upd st k [] L1
    end.
  Definition tvalid (g : tgt) (n : nat) : Prop :=
    match g with TRoot => True | TPos k _ => k < n | TNeg k => k < n end.

  Lemma pfl2_nil fr : pfl2 fr [] [] = fr.
  Proof. destruct fr. unfold pfl2; cbn. rewrite !app_nil_r. reflexivity. Qed.
  Lemma pfl2_pfl2 fr X Y X' Y' : pfl2 (pfl2 fr X Y) X' Y' = pfl2 fr (X ++ X') (Y ++ Y').
  Proof. unfold pfl2; cbn. rewrite !app_assoc. reflexivity. Qed.

  Lemma set_nth_same {X} (l : list X) i x : nth_error l i = Some x -> set_nth l i x = l.
  Proof. revert i; induction l as [|y l IH]; intros [|i] H; cbn in *; try discriminate; [inversion H; reflexivity|f_equal; auto]. Qed.
  Lemma set_nth_set_nth {X} (l : list X) i x y : set_nth (set_nth l i x) i y = set_nth l i y.
  Proof. revert i; induction l as [|z l IH]; intros [|i]; cbn; try reflexivity. f_equal. apply IH. Qed.
  Lemma set_nth_app2 {X} (t l : list X) i x : set_nth (t ++ l) (length t + i) x = t ++ set_nth l i x.
  Proof. induction t as [|y t IH]; cbn; [reflexivity|f_equal; assumption]. Qed.

  Lemma upd_length st k X Y : length (upd st k X Y) = length st.
  Proof. unfold upd. destruct (nth_error st (length st - 1 - k)); [apply set_nth_length|reflexivity]. Qed.

  Lemma upd_nil st k : upd st k [] [] = st.
  Proof.
    unfold upd. destruct (nth_error st (length st - 1 - k)) eqn:E; [|reflexivity].
    rewrite pfl2_nil. apply set_nth_same. assumption.
  Qed.

  Lemma upd_upd st k X Y X' Y' : upd (upd st k X Y) k X' Y' = upd st k (X ++ X') (Y ++ Y').
  Proof.
    unfold upd at 2 3. destruct (nth_error st (length st - 1 - k)) as [fr|] eqn:E.
    - unfold upd. rewrite set_nth_length.
      rewrite nth_error_set_nth, Nat.eqb_refl.
      assert (length st - 1 - k < length st) by (apply nth_error_Some; congruence).
      destruct (Nat.ltb_spec (length st - 1 - k) (length st)); [|lia].
      rewrite set_nth_set_nth, pfl2_pfl2. reflexivity.
    - unfold upd. rewrite E. reflexivity.
  Qed.

  Lemma upd_top top st k X Y : k < length st -> upd (top ++ st) k X Y = top ++ upd st k X Y.
  Proof.
    intros Hk. unfold upd. rewrite app_length.
    replace (length top + length st - 1 - k) with (length top + (length st - 1 - k)) by lia.
    rewrite nth_error_app2 by lia. replace (length top + (length st - 1 - k) - length top) with (length st - 1 - k) by lia.
    destruct (nth_error st (length st - 1 - k)); [apply set_nth_app2|reflexivity].
  Qed.

  Lemma upd_head fr below X Y : upd (fr :: below) (length below) X Y = pfl2 fr X Y :: below.
  Proof. unfold upd. cbn [length]. replace (S (length below) - 1 - length below) with 0 by lia. reflexivity. Qed.

  Lemma eff_top top st g L1 L2 : tvalid g (length st) -> eff (top ++ st) g L1 L2 = top ++ eff st g L1 L2.
  Proof. destruct g; cbn; intros H; [reflexivity|apply upd_top; assumption|apply upd_top; assumption]. Qed.

  Lemma eff_length st g L1 L2 : length (eff st g L1 L2) = length st.
  Proof. destruct g; cbn; [reflexivity|apply upd_length|apply upd_length]. Qed.

  Lemma push_dest_pos st k X : k < length st -> push_dest A st (Some (k, false)) X = Some (upd st k X []).
  Proof.
    intros Hk. unfold push_dest, upd. destruct (Nat.ltb_spec k (length st)); [|lia].
    destruct (nth_error st (length st - 1 - k)) as [fr|] eqn:E.
    - f_equal. f_equal. destruct fr; unfold push_frame_lists, pfl2; cbn. rewrite app_nil_r. reflexivity.
    - apply nth_error_None in E. lia.
  Qed.
  Lemma push_dest_neg st k Y : k < length st -> push_dest A st (Some (k, true)) Y = Some (upd st k [] Y).
  Proof.
    intros Hk. unfold push_dest, upd. destruct (Nat.ltb_spec k (length st)); [|lia].
    destruct (nth_error st (length st - 1 - k)) as [fr|] eqn:E.
    - f_equal. f_equal. destruct fr; unfold push_frame_lists, pfl2; cbn. rewrite app_nil_r. reflexivity.
    - apply nth_error_None in E. lia.
  Qed.

  (* pushing (L1 through d1, then L2 through d2) is [eff], provided nothing is pushed through a null pointer *)
  Lemma push2_eff st g L1 L2 : tvalid g (length st) ->
    (td1 g = None -> L1 = []) -> (td2 g = None -> L2 = []) ->
    match push_dest A st (td1 g) L1 with
    | Some st1 => push_dest A st1 (td2 g) L2
    | None => None
    end = Some (eff st g L1 L2).
  Proof.
    intros Hv H1 H2. destruct g as [|k b|k]; cbn [td1 td2 eff tvalid] in *.
    - rewrite (H1 eq_refl), (H2 eq_refl). reflexivity.
    - rewrite push_dest_pos by assumption. destruct b; cbn [td2].
      + rewrite push_dest_neg by (rewrite upd_length; assumption). rewrite upd_upd, app_nil_r. reflexivity.
      + rewrite (H2 eq_refl). reflexivity.
    - rewrite push_dest_neg by assumption. rewrite (H2 eq_refl). reflexivity.
  Qed.

  (* ---------------- what visit returns through a null destination ---------------- *)
  Lemma scan_noN h o T : forall ch i P N acc P' N' tds,
    scan A h o T false i ch P N acc = Some (P', N', tds) -> N' = N.
  Proof.
    induction ch as [|x r IH]; intros i P N acc P' N' tds H; cbn [scan] in H; [inversion H; reflexivity|].
    destruct (get_node A h x) as [[l|? ? ? ?]|]; [| |discriminate].
    - destruct (is_sub o && negb (Nat.eqb i 0)); [discriminate|]. eapply IH; eassumption.
    - eapply IH; eassumption.
  Qed.

  Definition nilspec (V : visit_t A) : Prop :=
    forall h id pop T a b h' L1 L2, V h id pop T a b = Some (h', L1, L2) ->
      (a = false -> L1 = []) /\ (b = false -> L2 = []).

  Lemma run_todos_noN V : nilspec V -> forall tds h T P N h' P' N',
    run_todos A V tds h T false P N = Some (h', P', N') -> N' = N.
  Proof.
    intros HV. induction tds as [|td r IH]; intros h T P N h' P' N' H; cbn [run_todos] in H; [inversion H; reflexivity|].
    destruct (V h (td_id td) (td_pop td) T (negb (td_neg td) || false) (td_d2 td && false)) as [[[h1 L1] L2]|] eqn:E; [|discriminate].
    destruct (HV _ _ _ _ _ _ _ _ _ E) as [H1 H2].
    rewrite andb_false_r in H2. specialize (H2 eq_refl). subst L2.
    destruct (td_neg td) eqn:En.
    - cbn in H1. specialize (H1 eq_refl). subst L1. rewrite app_nil_r in H. eapply IH; eassumption.
    - rewrite app_nil_r in H. eapply IH; eassumption.
  Qed.

  Lemma visit_nil fuel : nilspec (visit fuel).
  Proof.
    induction fuel as [|f IH]; intros h id pop T a b h' L1 L2 H; cbn [CsgDefs.visit] in H; [discriminate|].
    destruct (get_node A h id) as [[l|o t c ca]|]; try discriminate.
    destruct (nth_error (cells A h) c) as [ch|]; [|discriminate].
    destruct (can_collapse A uniq h id o pop a (length ch)) as [col h0] eqn:EC.
    assert (Hcol : col = true -> a = true).
    { unfold can_collapse in EC. destruct a; [reflexivity|]. cbn in EC. inversion EC. discriminate. }
    destruct (scan A h0 o (if col then mmul A T t else mone A) (if col then b else true) 0 ch [] [] []) as [[[Pl Nl] tds]|] eqn:ES; [|discriminate].
    destruct (run_todos A (visit f) (rev tds) h0 (if col then mmul A T t else mone A) (if col then b else true) Pl Nl)
      as [[[h1 P] N]|] eqn:ER; [|discriminate].
    destruct col.
    - inversion H; subst. split; [intros Ha; specialize (Hcol eq_refl); congruence|].
      intros ->. apply scan_noN in ES. subst Nl. apply (run_todos_noN _ IH) in ER. assumption.
    - destruct (finalize A ovl sz kmax h1 id P N) as [[h2 cl]|]; [|discriminate]. inversion H; subst.
      split; [intros ->; reflexivity|reflexivity].
  Qed.

  (* ---------------- deltas ---------------- *)
  Lemma run_todos_delta V : forall tds h T hasN P N,
    run_todos A V tds h T hasN P N =
    match run_todos A V tds h T hasN [] [] with
    | Some (h', dP, dN) => Some (h', P ++ dP, N ++ dN)
    | None => None
    end.
  Proof.
    induction tds as [|td r IH]; intros h T hasN P N; cbn [run_todos].
    - rewrite !app_nil_r. reflexivity.
    - destruct (V h (td_id td) (td_pop td) T (negb (td_neg td) || hasN) (td_d2 td && hasN)) as [[[h1 L1] L2]|]; [|reflexivity].
      destruct (td_neg td).
      + rewrite (IH h1 T hasN P (N ++ L1)), (IH h1 T hasN [] ([] ++ L1)).
        destruct (run_todos A V r h1 T hasN [] []) as [[[h' dP] dN]|]; [|reflexivity].
        cbn. rewrite <- app_assoc. reflexivity.
      + rewrite (IH h1 T hasN (P ++ L1) (N ++ L2)), (IH h1 T hasN ([] ++ L1) ([] ++ L2)).
        destruct (run_todos A V r h1 T hasN [] []) as [[[h' dP] dN]|]; [|reflexivity].
        cbn. rewrite <- !app_assoc. reflexivity.
  Qed.

  (* ---------------- the simulation ---------------- *)
  Definition F0 (pop : op) (T : tr A) (g : tgt) (id : nat) : frame :=
    mkFrame A false pop T (td1 g) (td2 g) id [] [].

  Local Notation is_some' := (@is_some (nat * bool)).

  (* machine [run] from a configuration equals [run] from another after k more steps *)
  Definition reaches (h : heap A) (st : list frame) (h' : heap A) (st' : list frame) : Prop :=
    exists k, forall n, run (k + n) h st = run n h' st'.

  Lemma reaches_refl h st : reaches h st h st.
  Proof. exists 0. reflexivity. Qed.
  Lemma reaches_trans h1 s1 h2 s2 h3 s3 : reaches h1 s1 h2 s2 -> reaches h2 s2 h3 s3 -> reaches h1 s1 h3 s3.
  Proof.
    intros [k1 H1] [k2 H2]. exists (k1 + k2). intros n. rewrite <- Nat.add_assoc, H1. apply H2.
  Qed.
  Lemma reaches_step h fr st h' st' : step h (fr :: st) = Some (h', st') -> reaches h (fr :: st) h' st'.
  Proof. intros H. exists 1. intros n. cbn [Nat.add CsgDefs.run]. rewrite H. reflexivity. Qed.

  Definition simspec (V : visit_t A) : Prop :=
    forall h id pop T g h' L1 L2 below,
      V h id pop T (is_some' (td1 g)) (is_some' (td2 g)) = Some (h', L1, L2) ->
      tvalid g (length below) ->
      reaches h (F0 pop T g id :: below) h' (eff below g L1 L2).

  (* destination of a child of a frame whose own destinations are pos_dest / neg_dest *)
  Definition child_tgt (gp : tgt) (td : todo) : tgt :=
    (* gp describes (pos_dest, neg_dest) as (td1 gp, td2 gp) *)
    if td_neg td then match td2 gp with Some (k, _) => TNeg k | None => TRoot end
    else match gp with
         | TRoot => TRoot
         | TPos k b => TPos k (td_d2 td && b)
         | TNeg k => TNeg k
         end.

  Definition td_ok (td : todo) : Prop := td_neg td = true -> td_d2 td = false.

  Lemma frame_of_todo_tgt T gp td : td_ok td ->
    frame_of_todo A T (td1 gp) (td2 gp) td = F0 (td_pop td) T (child_tgt gp td) (td_id td).
  Proof.
    unfold td_ok, frame_of_todo, F0, child_tgt. intros H.
    destruct gp as [|k [|]|k]; destruct (td_neg td); try (rewrite (H eq_refl)); destruct (td_d2 td); reflexivity.
  Qed.

  Lemma child_flags gp td : gp <> TRoot -> td_ok td ->
    is_some' (td1 (child_tgt gp td)) = negb (td_neg td) || is_some' (td2 gp) /\
    is_some' (td2 (child_tgt gp td)) = td_d2 td && is_some' (td2 gp).
  Proof.
    unfold td_ok, child_tgt. intros Hg H.
    destruct gp as [|k [|]|k]; [congruence| | |]; destruct (td_neg td); try (rewrite (H eq_refl)); destruct (td_d2 td); split; reflexivity.
  Qed.

  Lemma child_valid gp td n : tvalid gp n -> tvalid (child_tgt gp td) n.
  Proof. unfold child_tgt. destruct gp as [|k [|]|k]; destruct (td_neg td); cbn; auto. Qed.

  Lemma scan_td_ok h o T hasN : forall ch i P N acc P' N' tds,
    Forall td_ok acc -> scan A h o T hasN i ch P N acc = Some (P', N', tds) -> Forall td_ok tds.
  Proof.
    induction ch as [|x r IH]; intros i P N acc P' N' tds Ha H; cbn [scan] in H; [inversion H; subst; assumption|].
    destruct (get_node A h x) as [[l|? ? ? ?]|]; [| |discriminate].
    - destruct (is_sub o && negb (Nat.eqb i 0)); [destruct hasN; [|discriminate]|]; eapply IH; eassumption.
    - eapply IH; [|eassumption]. apply Forall_app. split; [assumption|]. constructor; [|constructor].
      unfold td_ok; cbn. destruct (is_sub o), (Nat.eqb i 0); cbn; congruence.
  Qed.

  Lemma eff_nil st g : eff st g [] [] = st.
  Proof. destruct g; cbn; [reflexivity|apply upd_nil|apply upd_nil]. Qed.

  Lemma eff_eff st g X Y X' Y' : eff (eff st g X Y) g X' Y' = eff st g (X ++ X') (Y ++ Y').
  Proof. destruct g; cbn; [reflexivity|apply upd_upd|rewrite upd_upd; reflexivity]. Qed.

  Lemma todos_sim V T gp : simspec V -> nilspec V -> gp <> TRoot ->
    forall tds h h1 dP dN st, Forall td_ok tds ->
      run_todos A V tds h T (is_some' (td2 gp)) [] [] = Some (h1, dP, dN) ->
      tvalid gp (length st) ->
      reaches h (map (frame_of_todo A T (td1 gp) (td2 gp)) tds ++ st) h1 (eff st gp dP dN).
  Proof.
    intros SV NV Hg. induction tds as [|td r IH]; intros h h1 dP dN st Fok H Hv; cbn [run_todos map app] in *.
    - inversion H; subst. rewrite eff_nil. apply reaches_refl.
    - pose proof (Forall_inv Fok) as Hok. pose proof (Forall_inv_tail Fok) as Fr.
      destruct (child_flags gp td Hg Hok) as [Fl1 Fl2].
      destruct (V h (td_id td) (td_pop td) T (negb (td_neg td) || is_some' (td2 gp)) (td_d2 td && is_some' (td2 gp)))
        as [[[h2 L1] L2]|] eqn:EV; [|discriminate].
      rewrite (run_todos_delta V r h2 T _ [] ([] ++ L1)), (run_todos_delta V r h2 T _ ([] ++ L1) ([] ++ L2)) in H.
      destruct (run_todos A V r h2 T (is_some' (td2 gp)) [] []) as [[[h1' dP'] dN']|] eqn:ER; [|destruct (td_neg td); discriminate].
      destruct (NV _ _ _ _ _ _ _ _ _ EV) as [N1 N2].
      rewrite frame_of_todo_tgt by assumption.
      assert (EV' : V h (td_id td) (td_pop td) T (is_some' (td1 (child_tgt gp td))) (is_some' (td2 (child_tgt gp td))) = Some (h2, L1, L2))
        by (rewrite Fl1, Fl2; assumption).
      pose proof (SV h (td_id td) (td_pop td) T (child_tgt gp td) h2 L1 L2
                     (map (frame_of_todo A T (td1 gp) (td2 gp)) r ++ st) EV') as R1.
      rewrite eff_top in R1 by (apply child_valid; assumption).
      specialize (R1 ltac:(rewrite app_length; pose proof (child_valid gp td _ Hv) as Q; destruct (child_tgt gp td); cbn in *; lia)).
      eapply reaches_trans; [exact R1|].
      assert (Hv' : tvalid gp (length (eff st (child_tgt gp td) L1 L2))) by (rewrite eff_length; assumption).
      pose proof (IH h2 h1' dP' dN' (eff st (child_tgt gp td) L1 L2) Fr ER Hv') as R2.
      assert (E : eff (eff st (child_tgt gp td) L1 L2) gp dP' dN' = eff st gp dP dN /\ h1' = h1).
      { unfold child_tgt in *. unfold td_ok in Hok.
        destruct gp as [|k [|]|k]; [congruence| | |]; destruct (td_neg td) eqn:En; cbn [td2 eff is_some orb negb andb] in *;
          inversion H; subst; cbn [app]; (split; [|reflexivity]);
          try (rewrite upd_upd; reflexivity).
        all: try (rewrite (N1 eq_refl)); cbn [app]; try reflexivity. }
      destruct E as [E ->]. rewrite E in R2. exact R2.
  Qed.

  Lemma visit_sim fuel : simspec (visit fuel).
  Proof.
    induction fuel as [|f IH]; intros h id pop T g h' L1 L2 below H Hv; cbn [CsgDefs.visit] in H; [discriminate|].
    destruct (get_node A h id) as [[l|o t c ca]|] eqn:En; try discriminate.
    destruct (nth_error (cells A h) c) as [ch|] eqn:Ec; [|discriminate].
    destruct (can_collapse A uniq h id o pop (is_some' (td1 g)) (length ch)) as [col h0] eqn:EC.
    set (T2 := if col then mmul A T t else mone A) in *.
    destruct (scan A h0 o T2 (if col then is_some' (td2 g) else true) 0 ch [] [] []) as [[[Pl Nl] tds]|] eqn:ES; [|discriminate].
    destruct (run_todos A (visit f) (rev tds) h0 T2 (if col then is_some' (td2 g) else true) Pl Nl) as [[[h1 P] N]|] eqn:ER; [|discriminate].
    rewrite run_todos_delta in ER.
    destruct (run_todos A (visit f) (rev tds) h0 T2 (if col then is_some' (td2 g) else true) [] []) as [[[h1' dP] dN]|] eqn:ER0; [|discriminate].
    inversion ER; subst h1' P N. clear ER.
    assert (Fok : Forall td_ok (rev tds)).
    { apply Forall_rev. eapply scan_td_ok; [|exact ES]. constructor. }
    assert (Hcol : col = true -> g <> TRoot).
    { intros -> ->. unfold can_collapse in EC. cbn in EC. inversion EC. }
    destruct col.
    - (* collapsed: the frame is popped, its children inherit its destinations *)
      inversion H; subst h' L1 L2. clear H.
      assert (St : step h (F0 pop T g id :: below) =
                   Some (h0, map (frame_of_todo A T2 (td1 g) (td2 g)) (rev tds) ++ eff below g Pl Nl)).
      { cbn [CsgDefs.step F0 f_fin f_id f_pop f_d1 f_d2 f_T f_P f_N]. rewrite En, Ec, EC. fold T2. rewrite ES.
        assert (HN : td2 g = None -> Nl = []).
        { intros E0. rewrite E0 in ES. cbn in ES. apply scan_noN in ES. assumption. }
        pose proof (push2_eff below g Pl Nl Hv ltac:(intros E0; destruct g; [exfalso; apply (Hcol eq_refl); reflexivity|discriminate|discriminate]) HN) as PE.
        destruct (push_dest A below (td1 g) Pl) as [st1|]; [|discriminate]. rewrite PE.
        rewrite map_rev. reflexivity. }
      eapply reaches_trans; [apply reaches_step; exact St|].
      pose proof (todos_sim (visit f) T2 g IH (visit_nil f) (Hcol eq_refl) (rev tds) h0 h1 dP dN (eff below g Pl Nl) Fok ER0
                    ltac:(rewrite eff_length; assumption)) as R.
      rewrite eff_eff in R. exact R.
    - (* not collapsed: finalize = true, children deliver into this frame, then the finalize step *)
      destruct (finalize A ovl sz kmax h1 id (Pl ++ dP) (Nl ++ dN)) as [[h2 cl]|] eqn:EF; [|discriminate].
      inversion H; subst h' L1 L2. clear H.
      set (K := length below).
      set (F1 := mkFrame A true pop T (td1 g) (td2 g) id [] []).
      assert (St : step h (F0 pop T g id :: below) =
                   Some (h0, map (frame_of_todo A T2 (td1 (TPos K true)) (td2 (TPos K true))) (rev tds) ++ pfl2 F1 Pl Nl :: below)).
      { cbn [CsgDefs.step F0 f_fin f_id f_pop f_d1 f_d2 f_T f_P f_N]. rewrite En, Ec, EC. fold T2. cbn [is_some]. rewrite ES.
        fold K. fold F1.
        pose proof (push2_eff (F1 :: below) (TPos K true) Pl Nl ltac:(cbn; unfold K; lia) ltac:(discriminate) ltac:(discriminate)) as PE.
        cbn [td1 td2] in PE.
        destruct (push_dest A (F1 :: below) (Some (K, false)) Pl) as [st1|]; [|discriminate]. rewrite PE.
        cbn [eff]. unfold K. rewrite upd_head. rewrite map_rev. reflexivity. }
      eapply reaches_trans; [apply reaches_step; exact St|].
      pose proof (todos_sim (visit f) T2 (TPos K true) IH (visit_nil f) ltac:(discriminate) (rev tds) h0 h1 dP dN
                    (pfl2 F1 Pl Nl :: below) Fok ER0 ltac:(cbn; unfold K; lia)) as R.
      cbn [eff] in R. unfold K in R at 3. rewrite upd_head, pfl2_pfl2 in R.
      eapply reaches_trans; [exact R|].
      apply reaches_step.
      cbn [CsgDefs.step pfl2 F1 f_fin f_id f_pop f_d1 f_d2 f_T f_P f_N app]. rewrite EF.
      destruct g as [|k b|k]; cbn [td1 is_some eff] in *.
      + reflexivity.
      + rewrite push_dest_pos by assumption. reflexivity.
      + rewrite push_dest_neg by assumption. reflexivity.
  Qed.

  (* CsgOpNode::ToLeafNode: whatever the big-step evaluator returns, the explicit
     stack returns, given enough fuel (number of loop iterations) *)
  Theorem stack_refines_bigstep_thm fuel h id r :
    to_leaf_rec A uniq ovl sz kmax fuel h id = Some r ->
    exists fuel', to_leaf_stack A uniq ovl sz kmax fuel' h id = Some r.
  Proof.
    unfold to_leaf_rec, to_leaf_stack. destruct (get_node A h id) as [[l|o t c [cid|]]|]; try discriminate.
    - intros H. exists 0. assumption.
    - destruct (CsgDefs.visit A uniq ovl sz kmax fuel h id o (mone A) false false) as [[[h' L1] L2]|] eqn:EV; [|discriminate].
      intros H.
      destruct (visit_sim fuel h id o (mone A) TRoot h' L1 L2 [] EV I) as [k Hk].
      exists (k + 0). unfold F0 in Hk. cbn [td1 td2] in Hk. rewrite (Hk 0). cbn [eff CsgDefs.run]. exact H.
  Qed.

  (* ---------------- more fuel never changes a defined result ---------------- *)
  Lemma run_todos_mono (V V' : visit_t A) :
    (forall h id pop T a b r, V h id pop T a b = Some r -> V' h id pop T a b = Some r) ->
    forall tds h T hasN P N r, run_todos A V tds h T hasN P N = Some r -> run_todos A V' tds h T hasN P N = Some r.
  Proof.
    intros HV. induction tds as [|td r0 IH]; intros h T hasN P N r H; cbn [run_todos] in *; [assumption|].
    destruct (V h (td_id td) (td_pop td) T (negb (td_neg td) || hasN) (td_d2 td && hasN)) as [[[h1 L1] L2]|] eqn:E; [|discriminate].
    rewrite (HV _ _ _ _ _ _ _ E). destruct (td_neg td); apply IH; assumption.
  Qed.

  Lemma visit_mono f : forall f' h id pop T a b r, f <= f' ->
    visit f h id pop T a b = Some r -> visit f' h id pop T a b = Some r.
  Proof.
    induction f as [|f IH]; intros f' h id pop T a b r Hle H; cbn [CsgDefs.visit] in H; [discriminate|].
    destruct f' as [|f']; [lia|]. cbn [CsgDefs.visit].
    destruct (get_node A h id) as [[l|o t c ca]|]; try discriminate.
    destruct (nth_error (cells A h) c) as [ch|]; [|discriminate].
    destruct (can_collapse A uniq h id o pop a (length ch)) as [col h0].
    destruct (scan A h0 o (if col then mmul A T t else mone A) (if col then b else true) 0 ch [] [] []) as [[[Pl Nl] tds]|]; [|discriminate].
    destruct (run_todos A (visit f) (rev tds) h0 (if col then mmul A T t else mone A) (if col then b else true) Pl Nl)
      as [[[h1 P] N]|] eqn:ER; [|discriminate].
    rewrite (run_todos_mono (visit f) (visit f') (fun h id pop T a b r => IH f' h id pop T a b r ltac:(lia)) _ _ _ _ _ _ _ ER).
    assumption.
  Qed.

  Lemma run_mono n : forall m h st x, run n h st = Some x -> run (n + m) h st = Some x.
  Proof.
    induction n as [|n IH]; intros m h st x H.
    - destruct st; cbn in H; [|discriminate]. destruct m; cbn; assumption.
    - destruct st as [|fr st]; [cbn in *; assumption|].
      cbn [Nat.add CsgDefs.run] in *. destruct (step h (fr :: st)) as [[h' st']|]; [|discriminate]. apply IH. assumption.
  Qed.

  Lemma do_hop_mono fuel fuel' b s x s' : fuel <= fuel' ->
    do_hop A uniq ovl sz kmax fuel b s x = Some s' -> do_hop A uniq ovl sz kmax fuel' b s x = Some s'.
  Proof.
    intros Hle. destruct x; cbn [do_hop]; try (intros H; exact H).
    unfold force. destruct (handle A s a) as [id|]; [|discriminate].
    destruct (get_node A (st_heap A s) id) as [[l|o t c ca]|]; try (intros H; exact H).
    destruct b.
    - unfold to_leaf_stack. destruct (get_node A (st_heap A s) id) as [[l|o' t' c' [cid|]]|]; try (intros H; exact H).
      destruct (run fuel (st_heap A s) [mkFrame A false o' (mone A) None None id [] []]) as [h1|] eqn:E; [|discriminate].
      replace fuel' with (fuel + (fuel' - fuel)) by lia. rewrite (run_mono _ _ _ _ _ E). intros H; exact H.
    - unfold to_leaf_rec. destruct (get_node A (st_heap A s) id) as [[l|o' t' c' [cid|]]|]; try (intros H; exact H).
      destruct (visit fuel (st_heap A s) id o' (mone A) false false) as [[[h1 L1] L2]|] eqn:E; [|discriminate].
      rewrite (visit_mono _ _ _ _ _ _ _ _ _ Hle E). intros H; exact H.
  Qed.

  Lemma do_hops_mono fuel fuel' b : fuel <= fuel' -> forall l s s',
    do_hops A uniq ovl sz kmax fuel b s l = Some s' -> do_hops A uniq ovl sz kmax fuel' b s l = Some s'.
  Proof.
    intros Hle. induction l as [|x r IH]; intros s s' H; cbn [do_hops] in *; [assumption|].
    destruct (do_hop A uniq ovl sz kmax fuel b s x) as [s1|] eqn:E; [|discriminate].
    rewrite (do_hop_mono _ _ _ _ _ _ Hle E). apply IH. assumption.
  Qed.

  Lemma do_hop_stack fuel s x s' :
    do_hop A uniq ovl sz kmax fuel false s x = Some s' ->
    exists fuel', do_hop A uniq ovl sz kmax fuel' true s x = Some s'.
  Proof.
    destruct x; cbn [do_hop]; try (intros H; exists 0; exact H).
    unfold force. destruct (handle A s a) as [id|]; [|discriminate].
    destruct (get_node A (st_heap A s) id) as [[l|o t c ca]|] eqn:En; try (intros H; exists 0; exact H).
    destruct (to_leaf_rec A uniq ovl sz kmax fuel (st_heap A s) id) as [r|] eqn:E; [|discriminate].
    destruct (stack_refines_bigstep_thm _ _ _ _ E) as [fuel' E']. intros H. exists fuel'. rewrite E'. exact H.
  Qed.

  (* a whole history: what the big-step evaluator computes, the explicit-stack
     machine computes (same final state), for some number of loop iterations *)
  Theorem do_hops_stack : forall l fuel s s',
    do_hops A uniq ovl sz kmax fuel false s l = Some s' ->
    exists fuel', do_hops A uniq ovl sz kmax fuel' true s l = Some s'.
  Proof.
    induction l as [|x r IH]; intros fuel s s' H; cbn [do_hops] in *; [exists 0; assumption|].
    destruct (do_hop A uniq ovl sz kmax fuel false s x) as [s1|] eqn:E; [|discriminate].
    destruct (do_hop_stack _ _ _ _ E) as [f1 E1]. destruct (IH _ _ _ H) as [f2 E2].
    exists (f1 + f2). cbn [do_hops].
    rewrite (do_hop_mono f1 (f1 + f2) true _ _ _ ltac:(lia) E1).
    apply (do_hops_mono f2 (f1 + f2) true ltac:(lia)). assumption.
  Qed.
End Stack.
