(* Laws of the carrier (CsgLaws), big unions / intersections, and the
   correctness of the ported BatchBoolean / BatchUnion / finalize switch:
   whatever the NumVert oracle [sz] answers and whatever a SOUND bounding-box
   oracle [ovl] answers, they return a leaf denoting the big union /
   intersection of their operands. *)
From Coq Require Import List ZArith Bool Arith Lia Permutation Setoid Morphisms.
From MV Require Import Csg.CsgDefs.
Import ListNotations.

Definition disjoint (A : CsgOps) (a b : sol A) : Prop := dj A a b.

(* pairwise disjoint, each element against the ones AFTER it *)
Fixpoint pairwise_disjoint (A : CsgOps) (l : list (sol A)) : Prop :=
  match l with
  | [] => True
  | x :: r => Forall (disjoint A x) r /\ pairwise_disjoint A r
  end.

Definition bigU (A : CsgOps) (l : list (sol A)) : sol A := fold_right (union A) (empty A) l.

(* fold of a non-empty list (the value on [] is never used by a theorem) *)
Fixpoint big1 (A : CsgOps) (f : sol A -> sol A -> sol A) (l : list (sol A)) : sol A :=
  match l with
  | [] => empty A
  | [x] => x
  | x :: r => f x (big1 A f r)
  end.

Record CsgLaws (A : CsgOps) : Prop := mkCsgLaws {
  eq_equiv : Equivalence (eqS A);
  union_proper : Proper (eqS A ==> eqS A ==> eqS A) (union A);
  inter_proper : Proper (eqS A ==> eqS A ==> eqS A) (inter A);
  diff_proper : Proper (eqS A ==> eqS A ==> eqS A) (diff A);
  act_proper : forall m, Proper (eqS A ==> eqS A) (act A m);
  union_assoc : forall a b c, eqS A (union A a (union A b c)) (union A (union A a b) c);
  union_comm : forall a b, eqS A (union A a b) (union A b a);
  union_empty_l : forall a, eqS A (union A (empty A) a) a;
  inter_assoc : forall a b c, eqS A (inter A a (inter A b c)) (inter A (inter A a b) c);
  inter_comm : forall a b, eqS A (inter A a b) (inter A b a);
  diff_empty_r : forall a, eqS A (diff A a (empty A)) a;
  diff_diff : forall a b c, eqS A (diff A (diff A a b) c) (diff A a (union A b c));
  act_union : forall m a b, eqS A (act A m (union A a b)) (union A (act A m a) (act A m b));
  act_inter : forall m a b, eqS A (act A m (inter A a b)) (inter A (act A m a) (act A m b));
  act_diff : forall m a b, eqS A (act A m (diff A a b)) (diff A (act A m a) (act A m b));
  act_empty : forall m, eqS A (act A m (empty A)) (empty A);
  act_mul : forall m n a, eqS A (act A (mmul A m n) a) (act A m (act A n a));
  act_one : forall a, eqS A (act A (mone A) a) a;
  is_one_act : forall m a, m_is_one A m = true -> eqS A (act A m a) a;
  dj_sym : forall a b, dj A a b -> dj A b a;
  (* Compose of pairwise disjoint solids is their union *)
  compose_disjoint : forall l, pairwise_disjoint A l -> eqS A (compose A l) (bigU A l)
}.

Section Algebra.
  Variable A : CsgOps.
  Hypothesis LW : CsgLaws A.
  Local Notation "a == b" := (eqS A a b) (at level 70).
  Local Notation leaf := (sol A * tr A)%type.

  Global Instance eqS_Equiv : Equivalence (eqS A) := eq_equiv A LW.
  Global Instance union_Proper : Proper (eqS A ==> eqS A ==> eqS A) (union A) := union_proper A LW.
  Global Instance inter_Proper : Proper (eqS A ==> eqS A ==> eqS A) (inter A) := inter_proper A LW.
  Global Instance diff_Proper : Proper (eqS A ==> eqS A ==> eqS A) (diff A) := diff_proper A LW.
  Global Instance act_Proper m : Proper (eqS A ==> eqS A) (act A m) := act_proper A LW m.

  Lemma union_empty_r a : union A a (empty A) == a.
  Proof. rewrite (union_comm A LW). apply (union_empty_l A LW). Qed.

  (* an associative commutative congruent operation *)
  Definition acop (f : sol A -> sol A -> sol A) : Prop :=
    Proper (eqS A ==> eqS A ==> eqS A) f /\
    (forall a b c, f a (f b c) == f (f a b) c) /\ (forall a b, f a b == f b a).

  Lemma acop_union : acop (union A).
  Proof. split; [exact (union_proper A LW)|split; [exact (union_assoc A LW)|exact (union_comm A LW)]]. Qed.
  Lemma acop_inter : acop (inter A).
  Proof. split; [exact (inter_proper A LW)|split; [exact (inter_assoc A LW)|exact (inter_comm A LW)]]. Qed.

  Lemma bop_acop o : o <> Sub -> acop (bop A o).
  Proof. destruct o; intro H; [apply acop_union|congruence|apply acop_inter]. Qed.

  Section Big1.
    Variable f : sol A -> sol A -> sol A.
    Hypothesis AC : acop f.
    Let fP : Proper (eqS A ==> eqS A ==> eqS A) f := proj1 AC.
    Let fA := proj1 (proj2 AC).
    Let fC := proj2 (proj2 AC).
    Local Existing Instance fP.

    Lemma big1_cons x r : r <> [] -> big1 A f (x :: r) = f x (big1 A f r).
    Proof. destruct r; [congruence|reflexivity]. Qed.

    Lemma big1_app l1 l2 : l1 <> [] -> l2 <> [] ->
      big1 A f (l1 ++ l2) == f (big1 A f l1) (big1 A f l2).
    Proof.
      induction l1 as [|x r IH]; intros H1 H2; [congruence|].
      destruct r as [|y r].
      - cbn [app]. rewrite big1_cons by assumption. reflexivity.
      - change ((x :: y :: r) ++ l2) with (x :: ((y :: r) ++ l2)).
        rewrite big1_cons by (cbn; congruence).
        rewrite (big1_cons x (y :: r)) by congruence.
        rewrite IH by (assumption || congruence). apply fA.
    Qed.

    Lemma big1_perm l l' : Permutation l l' -> big1 A f l == big1 A f l'.
    Proof.
      induction 1 as [|x l l' HP IH|x y l|l l' l'' HP1 IH1 HP2 IH2].
      - reflexivity.
      - destruct l as [|a l].
        + apply Permutation_nil in HP. subst. reflexivity.
        + assert (l' <> []) by (intro; subst; apply Permutation_sym, Permutation_nil in HP; congruence).
          rewrite (big1_cons x (a :: l)) by congruence. rewrite (big1_cons x l') by assumption.
          rewrite IH. reflexivity.
      - destruct l as [|a l].
        + cbn. apply fC.
        + rewrite (big1_cons y (x :: a :: l)), (big1_cons x (a :: l)) by congruence.
          rewrite (big1_cons x (y :: a :: l)), (big1_cons y (a :: l)) by congruence.
          rewrite !fA. rewrite (fC y x). reflexivity.
      - etransitivity; eassumption.
    Qed.

    Lemma big1_congr l l' : Forall2 (eqS A) l l' -> big1 A f l == big1 A f l'.
    Proof.
      induction 1 as [|x y l l' Hxy HF IH]; [reflexivity|].
      destruct HF as [|a b l l' Hab HF].
      - cbn. assumption.
      - rewrite !big1_cons by congruence. rewrite Hxy, IH. reflexivity.
    Qed.

    (* replacing one element by a non-empty list with the same fold *)
    Lemma big1_subst l1 v l' l2 : l' <> [] -> big1 A f l' == v ->
      big1 A f (l1 ++ l' ++ l2) == big1 A f (l1 ++ v :: l2).
    Proof.
      intros Hne Hv.
      transitivity (big1 A f (l' ++ l1 ++ l2)).
      { apply big1_perm. rewrite app_assoc, (Permutation_app_comm l1 l'), <- app_assoc. reflexivity. }
      transitivity (big1 A f (v :: l1 ++ l2)).
      2:{ apply big1_perm. apply Permutation_middle. }
      destruct (l1 ++ l2) as [|z zs] eqn:E.
      - rewrite app_nil_r. cbn. assumption.
      - rewrite big1_app by congruence. rewrite (big1_cons v (z :: zs)) by congruence. rewrite Hv. reflexivity.
    Qed.

    Lemma big1_pair v x y R : v == f x y -> big1 A f (v :: R) == big1 A f (x :: y :: R).
    Proof.
      intros Hv. destruct R as [|z zs].
      - cbn. assumption.
      - rewrite (big1_cons v (z :: zs)), (big1_cons x (y :: z :: zs)), (big1_cons y (z :: zs)) by congruence.
        rewrite Hv. rewrite fA. reflexivity.
    Qed.
  End Big1.

  Lemma bigU_big1 l : l <> [] -> bigU A l == big1 A (union A) l.
  Proof.
    induction l as [|x r IH]; [congruence|intros _].
    destruct r as [|y r].
    - cbn. apply union_empty_r.
    - change (bigU A (x :: y :: r)) with (union A x (bigU A (y :: r))).
      rewrite IH by congruence. reflexivity.
  Qed.

  Lemma bigU_app l1 l2 : bigU A (l1 ++ l2) == union A (bigU A l1) (bigU A l2).
  Proof.
    induction l1 as [|x r IH]; cbn.
    - symmetry. apply (union_empty_l A LW).
    - rewrite IH. apply (union_assoc A LW).
  Qed.

  Lemma bigU_congr l l' : Forall2 (eqS A) l l' -> bigU A l == bigU A l'.
  Proof. induction 1 as [|x y l l' Hxy HF IH]; cbn; [reflexivity|]. rewrite Hxy, IH. reflexivity. Qed.

  Lemma bigU_perm l l' : Permutation l l' -> bigU A l == bigU A l'.
  Proof.
    induction 1 as [|x l l' HP IH|x y l|l l' l'' HP1 IH1 HP2 IH2]; cbn.
    - reflexivity.
    - rewrite IH. reflexivity.
    - rewrite !(union_assoc A LW). rewrite (union_comm A LW y x). reflexivity.
    - etransitivity; eassumption.
  Qed.

  Lemma act_bigU m l : act A m (bigU A l) == bigU A (map (act A m) l).
  Proof.
    induction l as [|x r IH]; cbn.
    - apply (act_empty A LW).
    - rewrite (act_union A LW), IH. reflexivity.
  Qed.

  Lemma act_big1 o m l : o <> Sub -> act A m (big1 A (bop A o) l) == big1 A (bop A o) (map (act A m) l).
  Proof.
    intros Ho. induction l as [|x r IH]; [apply (act_empty A LW)|].
    destruct r as [|y r]; [reflexivity|].
    change (map (act A m) (x :: y :: r)) with (act A m x :: map (act A m) (y :: r)).
    rewrite (big1_cons (bop A o) x (y :: r)) by congruence.
    rewrite (big1_cons (bop A o) (act A m x) (map (act A m) (y :: r))) by (cbn; congruence).
    destruct o; [|congruence|]; cbn [bop] in *.
    - rewrite (act_union A LW), IH. reflexivity.
    - rewrite (act_inter A LW), IH. reflexivity.
  Qed.

  (* the denotation of an operation applied to the denotations of its operands *)
  Definition den_op (o : op) (l : list (sol A)) : sol A :=
    match o with
    | Add => bigU A l
    | Int => big1 A (inter A) l
    | Sub => match l with [] => empty A | x :: r => diff A x (bigU A r) end
    end.

  Lemma den_op_single o x : den_op o [x] == x.
  Proof. destruct o; cbn; [apply union_empty_r|apply (diff_empty_r A LW)|reflexivity]. Qed.

  Lemma den_op_congr o l l' : Forall2 (eqS A) l l' -> den_op o l == den_op o l'.
  Proof.
    intros H. destruct o; cbn.
    - apply bigU_congr; assumption.
    - destruct H as [|x y l l' Hxy HF]; [reflexivity|]. rewrite Hxy, (bigU_congr _ _ HF). reflexivity.
    - apply (big1_congr _ acop_inter); assumption.
  Qed.

  Lemma act_den_op o m l : act A m (den_op o l) == den_op o (map (act A m) l).
  Proof.
    destruct o; cbn.
    - apply act_bigU.
    - destruct l as [|x r]; cbn; [apply (act_empty A LW)|].
      rewrite (act_diff A LW), act_bigU. reflexivity.
    - apply (act_big1 Int); congruence.
  Qed.

  (* ---------------- leaves ---------------- *)
  Lemma lden_ltransform m (l : leaf) : lden A (ltransform A m l) == act A m (lden A l).
  Proof. unfold lden, ltransform; cbn. apply (act_mul A LW). Qed.

  Lemma get_impl_fst (l : leaf) : fst (get_impl A l) == lden A l.
  Proof.
    unfold get_impl, lden. destruct (m_is_one A (snd l)) eqn:E; cbn.
    - symmetry. apply (is_one_act A LW); assumption.
    - reflexivity.
  Qed.

  Lemma lden_get_impl (l : leaf) : lden A (get_impl A l) == lden A l.
  Proof.
    unfold get_impl. destruct (m_is_one A (snd l)) eqn:E; [reflexivity|].
    unfold lden; cbn. apply (act_one A LW).
  Qed.

  Lemma lden_simple_boolean o a b :
    lden A (simple_boolean A o a b) == bop A o (lden A a) (lden A b).
  Proof.
    unfold simple_boolean, lden at 1; cbn [fst snd]. rewrite (act_one A LW).
    destruct o; cbn [bop]; rewrite !get_impl_fst; reflexivity.
  Qed.

  Lemma lden_empty_leaf : lden A (empty_leaf A) == empty A.
  Proof. unfold lden, empty_leaf; cbn. apply (act_one A LW). Qed.

  (* ---------------- BatchBoolean ---------------- *)
  Section Batch.
    Variable ovl : leaf -> leaf -> bool.
    Variable sz : leaf -> Z.
    Variable kmax : nat.

    Lemma pop_max_none l : pop_max A sz l = None -> l = [].
    Proof.
      destruct l as [|a l]; [reflexivity|]. cbn.
      destruct (pop_max A sz l) as [[y r']|]; [destruct (mesh_compare A sz a y)|]; discriminate.
    Qed.

    Lemma pop_max_perm l x r : pop_max A sz l = Some (x, r) -> Permutation l (x :: r).
    Proof.
      revert x r. induction l as [|a l IH]; intros x r H; cbn in H; [discriminate|].
      destruct (pop_max A sz l) as [[y r']|] eqn:E.
      - specialize (IH _ _ eq_refl).
        destruct (mesh_compare A sz a y); inversion H; subst.
        + rewrite IH. apply perm_swap.
        + reflexivity.
      - apply pop_max_none in E. subst. inversion H; subst. reflexivity.
    Qed.

    Lemma pop_max_some l : l <> [] -> exists x r, pop_max A sz l = Some (x, r).
    Proof.
      destruct l as [|a l]; [congruence|intros _]. cbn.
      destruct (pop_max A sz l) as [[y r']|]; [destruct (mesh_compare A sz a y)|]; eauto.
    Qed.

    Definition esem (l : list (entry A)) : list (sol A) := map (fun e => lden A (fst e)) l.

    Lemma esem_app l1 l2 : esem (l1 ++ l2) = esem l1 ++ esem l2.
    Proof. apply map_app. Qed.

    Section Loop.
      Variable o : op.
      Hypothesis Ho : o <> Sub.
      Let f := bop A o.
      Let AC : acop f := bop_acop o Ho.

      (* one round keeps the fold of heap ++ tmp, never empties it, never grows it,
         and shrinks it when the heap had two entries *)
      Lemma bb_round_ok i : forall hp tmp serial h' tmp' s',
        bb_round A sz o i hp tmp serial = (h', tmp', s') ->
        hp ++ tmp <> [] ->
        h' ++ tmp' <> [] /\
        big1 A f (esem (h' ++ tmp')) == big1 A f (esem (hp ++ tmp)) /\
        length (h' ++ tmp') <= length (hp ++ tmp) /\
        (i <> 0 -> 2 <= length hp -> length (h' ++ tmp') < length (hp ++ tmp)).
      Proof.
        induction i as [|i IH]; intros hp tmp serial h' tmp' s' H Hne; cbn in H.
        - injection H as <- <- <-. repeat split; try assumption; try reflexivity; try lia; try congruence.
        - destruct (pop_max A sz hp) as [[a h1]|] eqn:E1.
          2:{ injection H as <- <- <-. repeat split; try assumption; try reflexivity; try lia.
              intros _ Hl. destruct hp as [|x hp]; [cbn in Hl; lia|].
              destruct (pop_max_some (x :: hp)) as (? & ? & E); [congruence|]. congruence. }
          destruct (pop_max A sz h1) as [[b h2]|] eqn:E2.
          2:{ injection H as <- <- <-. repeat split; try assumption; try reflexivity; try lia.
              intros _ Hl. apply pop_max_perm in E1. apply Permutation_length in E1. cbn in E1.
              destruct h1 as [|y h1]; [cbn in *; lia|].
              destruct (pop_max_some (y :: h1)) as (? & ? & E); [congruence|]. congruence. }
          pose proof (pop_max_perm _ _ _ E1) as P1. pose proof (pop_max_perm _ _ _ E2) as P2.
          specialize (IH _ _ _ _ _ _ H).
          destruct IH as (N1 & Q1 & Len1 & _).
          { destruct h2; cbn; [destruct tmp; cbn; congruence|congruence]. }
          assert (Hlen : length (h2 ++ tmp ++ [(simple_boolean A o (fst a) (fst b), serial)]) + 1 = length (hp ++ tmp)).
          { rewrite !app_length. apply Permutation_length in P1, P2. cbn in *. lia. }
          split; [assumption|]. split; [|split; [lia|intros; lia]].
          rewrite Q1.
          (* a and b are replaced by their combination *)
          transitivity (big1 A f (esem ((a :: b :: h2) ++ tmp))).
          2:{ apply (big1_perm f AC). unfold esem. apply Permutation_map.
              apply Permutation_app_tail. rewrite P1. constructor. symmetry. assumption. }
          unfold esem. rewrite app_assoc, map_app. cbn [map fst].
          transitivity (big1 A f ((lden A (simple_boolean A o (fst a) (fst b))) :: map (fun e : entry A => lden A (fst e)) (h2 ++ tmp))).
          { apply (big1_perm f AC). rewrite <- Permutation_middle, app_nil_r. reflexivity. }
          change ((a :: b :: h2) ++ tmp) with (a :: b :: (h2 ++ tmp)). cbn [map].
          apply (big1_pair f AC). apply lden_simple_boolean.
      Qed.

      Lemma bb_loop_ok fuel : forall hp serial, hp <> [] -> length hp <= S fuel ->
        exists r, bb_loop A sz fuel o hp serial = Some r /\ lden A r == big1 A f (esem hp).
      Proof.
        induction fuel as [|fuel IH]; intros hp serial Hne Hlen.
        - destruct hp as [|x [|y hp]]; [congruence| |cbn in Hlen; lia].
          exists (fst x). split; reflexivity.
        - destruct hp as [|x [|y hp]]; [congruence|exists (fst x); split; reflexivity|].
          cbn [bb_loop].
          destruct (bb_round A sz o 4 (x :: y :: hp) [] serial) as [[h' tmp'] s'] eqn:E.
          destruct (bb_round_ok 4 _ _ _ _ _ _ E) as (N1 & Q1 & L1 & L2).
          { cbn; congruence. }
          rewrite app_nil_r in *.
          destruct (IH (h' ++ tmp') s' N1) as (r & R1 & R2).
          { specialize (L2 ltac:(congruence) ltac:(cbn; lia)). lia. }
          exists r. split; [assumption|]. rewrite R2. assumption.
      Qed.

      Lemma batch_boolean_ok l : l <> [] ->
        exists r, batch_boolean A sz o l = Some r /\ lden A r == big1 A f (map (lden A) l).
      Proof.
        intros Hne. destruct l as [|a [|b [|c l]]]; [congruence| | |].
        - exists a. split; reflexivity.
        - exists (simple_boolean A o a b). split; [reflexivity|]. apply lden_simple_boolean.
        - unfold batch_boolean.
          set (L := a :: b :: c :: l).
          destruct (bb_loop_ok (length L) (combine L (seq 0 (length L))) (length L)) as (r & R1 & R2).
          { subst L; cbn; congruence. }
          { etransitivity; [apply Nat.eq_le_incl, combine_length|rewrite seq_length; lia]. }
          exists r. split; [exact R1|].
          assert (E : esem (combine L (seq 0 (length L))) = map (lden A) L).
          { unfold esem. generalize (seq 0 (length L)) (seq_length (length L) 0). clear.
            induction L as [|x L IH]; intros s Hs; [reflexivity|].
            destruct s as [|n s]; [discriminate|]. cbn. f_equal. apply IH. cbn in Hs. lia. }
          rewrite E in R2. exact R2.
      Qed.
    End Loop.

    (* ---------------- BatchUnion ---------------- *)
    (* what the code relies on: boxes that do not overlap bound disjoint solids *)
    Definition ovl_sound : Prop :=
      forall a b : leaf, ovl a b = false -> disjoint A (lden A a) (lden A b).

    Hypothesis OS : ovl_sound.
    Hypothesis K2 : 2 <= kmax.

    Lemma disjoint_sym a b : disjoint A a b -> disjoint A b a.
    Proof. apply (dj_sym A LW). Qed.

    (* every set of the partition is pairwise disjoint (later against earlier) *)
    Definition set_ok (s : list leaf) : Prop := s <> [] /\ pairwise_disjoint A (rev (map (lden A) s)).

    Lemma insert_disjoint_ok x sets : Forall set_ok sets -> Forall set_ok (insert_disjoint A ovl x sets).
    Proof.
      induction 1 as [|s r Hs Hr IH]; cbn.
      - constructor; [|constructor]. split; [congruence|]. cbn. split; constructor.
      - destruct (existsb (fun y => ovl x y) s) eqn:E.
        + constructor; assumption.
        + constructor; [|assumption]. destruct Hs as [Hne Hpd]. split.
          * destruct s; cbn; congruence.
          * rewrite map_app, rev_app_distr. cbn. split; [|assumption].
            apply Forall_forall. intros d Hd. apply in_rev, in_map_iff in Hd.
            destruct Hd as (y & <- & Hy). apply OS.
            destruct (ovl x y) eqn:E'; [|reflexivity].
            assert (existsb (fun y => ovl x y) s = true) by (apply existsb_exists; eauto). congruence.
    Qed.

    Lemma insert_disjoint_perm x sets :
      Permutation (concat (insert_disjoint A ovl x sets)) (x :: concat sets).
    Proof.
      induction sets as [|s r IH]; cbn.
      - reflexivity.
      - destruct (existsb (fun y => ovl x y) s); cbn.
        + rewrite IH. rewrite Permutation_middle. reflexivity.
        + rewrite <- app_assoc. cbn. rewrite <- Permutation_middle. reflexivity.
    Qed.

    Lemma partition_ok l : forall sets, Forall set_ok sets ->
      Forall set_ok (fold_left (fun sets x => insert_disjoint A ovl x sets) l sets) /\
      Permutation (concat (fold_left (fun sets x => insert_disjoint A ovl x sets) l sets)) (l ++ concat sets).
    Proof.
      induction l as [|x l IH]; intros sets H; cbn.
      - split; [assumption|reflexivity].
      - destruct (IH _ (insert_disjoint_ok x sets H)) as [H1 H2]. split; [assumption|].
        rewrite H2, insert_disjoint_perm. rewrite <- Permutation_middle. reflexivity.
    Qed.

    Lemma compose_sets_sem sets : Forall set_ok sets ->
      bigU A (map (lden A) (compose_sets A sets)) == bigU A (map (lden A) (concat sets)).
    Proof.
      induction 1 as [|s r Hs Hr IH]; [reflexivity|].
      cbn [compose_sets map concat]. rewrite map_app, bigU_app. cbn [bigU fold_right].
      fold (bigU A). unfold compose_sets in IH. rewrite IH.
      apply (union_proper A LW); [|reflexivity].
      destruct Hs as [Hne Hpd].
      destruct s as [|a [|b s]]; [congruence| |].
      - cbn. symmetry. apply union_empty_r.
      - unfold compose_leaves, lden at 1; cbn [fst snd]. rewrite (act_one A LW).
        transitivity (compose A (rev (map (lden A) (a :: b :: s)))).
        2:{ rewrite (compose_disjoint A LW _ Hpd). apply bigU_perm. symmetry. apply Permutation_rev. }
        (* Compose itself is order independent only through the law: go through the union twice *)
        assert (Hpd' : pairwise_disjoint A (map (lden A) (a :: b :: s))).
        { clear - Hpd LW. set (L := map (lden A) (a :: b :: s)) in *. clearbody L.
          assert (G : forall l, pairwise_disjoint A (rev l) -> pairwise_disjoint A l).
          { induction l as [|x l IHl]; cbn; [trivial|]. intros H.
            assert (P : forall l1 l2, pairwise_disjoint A (l1 ++ l2) ->
                      pairwise_disjoint A l1 /\ pairwise_disjoint A l2 /\
                      forall u v, In u l1 -> In v l2 -> disjoint A u v).
            { induction l1 as [|u l1 IH1]; cbn; intros l2 H0.
              - repeat split; [assumption|intros ? ? []].
              - destruct H0 as [F0 H0]. destruct (IH1 _ H0) as (P1 & P2 & P3).
                rewrite Forall_app in F0. destruct F0 as [F1 F2].
                repeat split; try assumption.
                intros u' v [<-|Hu] Hv; [rewrite Forall_forall in F2; auto|auto]. }
            destruct (P _ _ H) as (P1 & _ & P3). split.
            - apply Forall_forall. intros y Hy. apply disjoint_sym. apply P3; [apply -> in_rev; assumption|left; reflexivity].
            - apply IHl. assumption. }
          apply G. assumption. }
        rewrite (compose_disjoint A LW _ Hpd'), (compose_disjoint A LW _ Hpd).
        apply bigU_perm. apply Permutation_rev.
    Qed.

    Lemma compose_sets_nonempty sets : sets <> [] -> compose_sets A sets <> [].
    Proof. destruct sets; cbn; congruence. Qed.

    Lemma partition_nonempty l : l <> [] -> partition_disjoint A ovl l <> [].
    Proof.
      intros Hne H. destruct (partition_ok l [] (Forall_nil _)) as [_ P].
      unfold partition_disjoint in H. rewrite H in P. cbn in P.
      rewrite app_nil_r in P. apply Permutation_nil in P. congruence.
    Qed.

    Lemma swap_front_back_perm l : Permutation (swap_front_back A l) l.
    Proof.
      destruct l as [|x [|y r]]; [reflexivity|reflexivity|].
      unfold swap_front_back.
      assert (E : y :: r = removelast (y :: r) ++ [last (y :: r) x]) by (apply app_removelast_last; congruence).
      rewrite E at 3. set (R := removelast (y :: r)). set (z := last (y :: r) x).
      rewrite (Permutation_app_comm R [z]). cbn.
      rewrite perm_swap. constructor. rewrite <- Permutation_cons_append. reflexivity.
    Qed.

    Lemma bu_loop_ok fuel : forall ch, ch <> [] -> length ch <= S fuel ->
      exists r, bu_loop A ovl sz kmax fuel ch = Some r /\ lden A r == bigU A (map (lden A) ch).
    Proof.
      induction fuel as [|fuel IH]; intros ch Hne Hlen.
      - destruct ch as [|x [|y ch]]; [congruence| |cbn in Hlen; lia].
        exists x. split; [reflexivity|]. cbn. symmetry. apply union_empty_r.
      - destruct ch as [|x [|y ch]]; [congruence| |].
        { exists x. split; [reflexivity|]. cbn. symmetry. apply union_empty_r. }
        set (C := x :: y :: ch) in *. cbn [bu_loop]. fold C.
        set (start := if Nat.ltb kmax (length C) then length C - kmax else 0).
        assert (Hst : start + 2 <= length C).
        { subst start. destruct (Nat.ltb_spec kmax (length C)); [lia|subst C; cbn; lia]. }
        set (chunk := skipn start C). set (hd := firstn start C).
        assert (Hchunk : chunk <> []).
        { intro E. assert (length chunk = 0) by (rewrite E; reflexivity).
          subst chunk. rewrite skipn_length in H. lia. }
        destruct (partition_ok chunk [] (Forall_nil _)) as [PO PP]. rewrite app_nil_r in PP.
        fold (partition_disjoint A ovl chunk) in PO, PP.
        destruct (batch_boolean_ok Add ltac:(congruence) (compose_sets A (partition_disjoint A ovl chunk)))
          as (r & R1 & R2).
        { apply compose_sets_nonempty, partition_nonempty; assumption. }
        rewrite R1.
        destruct (IH (swap_front_back A (hd ++ [r]))) as (r' & R1' & R2').
        { intro E. pose proof (swap_front_back_perm (hd ++ [r])) as P. rewrite E in P.
          apply Permutation_nil in P. destruct hd; discriminate. }
        { rewrite (Permutation_length (swap_front_back_perm _)), app_length.
          subst hd. rewrite firstn_length. cbn [length]. lia. }
        exists r'. split; [assumption|]. rewrite R2'.
        rewrite (bigU_perm _ _ (Permutation_map (lden A) (swap_front_back_perm (hd ++ [r])))).
        rewrite map_app, bigU_app. cbn [map bigU fold_right]. rewrite union_empty_r, R2.
        cbn [bop]. rewrite <- bigU_big1.
        2:{ intro E. apply map_eq_nil in E. revert E. apply compose_sets_nonempty, partition_nonempty; assumption. }
        rewrite (compose_sets_sem _ PO).
        rewrite (bigU_perm _ _ (Permutation_map (lden A) PP)).
        rewrite <- bigU_app, <- map_app. subst hd chunk. rewrite firstn_skipn. reflexivity.
    Qed.

    Lemma batch_union_ok l : l <> [] ->
      exists r, batch_union A ovl sz kmax l = Some r /\ lden A r == bigU A (map (lden A) l).
    Proof. intros H. apply bu_loop_ok; [assumption|lia]. Qed.

    (* the finalize switch: P (and N) are what the frame collected *)
    Lemma eval_op_ok o (P N : list leaf) : P <> [] ->
      (o <> Sub -> N = []) ->
      exists r, eval_op A ovl sz kmax o P N = Some r /\
        lden A r == match o with
                    | Add => bigU A (map (lden A) P)
                    | Int => big1 A (inter A) (map (lden A) P)
                    | Sub => diff A (bigU A (map (lden A) P)) (bigU A (map (lden A) N))
                    end.
    Proof.
      intros HP HN. destruct o; cbn [eval_op].
      - apply batch_union_ok; assumption.
      - destruct P as [|p0 P]; [congruence|].
        destruct (batch_union_ok (p0 :: P) HP) as (p & R1 & R2). rewrite R1.
        destruct N as [|n0 N].
        + exists p. split; [reflexivity|]. cbn [map bigU fold_right]. rewrite (diff_empty_r A LW). assumption.
        + destruct (batch_union_ok (n0 :: N) ltac:(congruence)) as (n & S1 & S2). rewrite S1.
          exists (simple_boolean A Sub p n). split; [reflexivity|].
          rewrite lden_simple_boolean. cbn [bop]. rewrite R2, S2. reflexivity.
      - apply (batch_boolean_ok Int); [congruence|assumption].
    Qed.
  End Batch.
End Algebra.
