(* C20 — the C binding is a faithful, memory-safe image of the C++ API.
   Only statements closed by `exact`, each followed by Print Assumptions.
   CBind.table (coq/Gen/CBind.v) is regenerated from bindings/c/*.cpp, conv.h,
   manifoldc.h, types.h and the public C++ headers on every run of the check. *)
From Coq Require Import String List Bool Arith.
From MV Require Import Proto.CBindDefs Proto.LifeDefs Proto.Life Proto.CBindModel Gen.CBind.
Import ListNotations.
Local Open Scope string_scope.

(* Every exported function passes the routing checker: header declaration and
   definition agree; no parameter is ignored; every argument of the C++ callee
   is the C parameter of the same normalised name (reviewed exceptions in
   CBindDefs.name_exceptions), C parameters are consumed in declaration order,
   vector/matrix literals take their components in x,y,z(,w) order, constants
   only where the function name says so; a handle-returning function performs
   exactly one placement-new, into `mem`, of the C++ type of the returned
   handle, no plain new, no delete; callbacks get the caller's context
   unchanged as last argument; results are converted component by component. *)
Theorem wrappers_faithful : forallb wrapper_ok CBind.table = true.
Proof. exact wrappers_faithful_table. Qed.
Print Assumptions wrappers_faithful.

(* Option structs (ManifoldMeshGLOptions / ManifoldMeshGL64Options): every function taking one
   has its blocks in the table; every block `if (opt->G) result->M = copy(opt->S, L)` guards on
   the field it copies (G = S) and routes it to the MeshGL member and length the reviewed map
   names; every array field of the struct is copied exactly once, every length field is used,
   no member is assigned twice. *)
Theorem options_marshalled_faithfully : options_ok = true.
Proof. exact options_ok_table. Qed.
Print Assumptions options_marshalled_faithfully.

Theorem option_blocks_guard_what_they_copy :
  forall fn st blocks g s l d, In (fn, st, blocks) CBind.opt_tables -> In (g, s, l, d) blocks ->
  g = s /\ assoc s option_field_map = Some (d, l).
Proof. exact options_blocks_sound. Qed.
Print Assumptions option_blocks_guard_what_they_copy.

(* manifoldc.h and the definitions cover each other; the table is the whole API *)
Theorem api_complete : tables_complete = true /\ 250 <= length CBind.table.
Proof. exact (conj tables_complete_ok table_nonempty). Qed.
Print Assumptions api_complete.

(* For each of the opaque handle types of types.h there is exactly one family
   manifold_X_size / manifold_alloc_X / manifold_destruct_X / manifold_delete_X
   and all four use the C++ type that from_c maps the handle to: X_size returns
   sizeof of it, alloc_X allocates sizeof of it, destruct_X runs its destructor,
   delete_X deletes it; to_c/from_c are mutually inverse reinterpret_casts. *)
Theorem families_consistent : families_ok = true.
Proof. exact families_ok_table. Qed.
Print Assumptions families_consistent.

(* Enum switch tables: every source enumerator has exactly one arm, arms map
   identically named enumerators (reviewed exception: VERTEX_INDEX_OUT_OF_BOUNDS)
   with equal ordinals, every target enumerator is hit, and where both
   directions exist they are mutually inverse; ManifoldVecN conversions take
   x,y,z,w in order. *)
Theorem enum_tables_bijective : enums_ok = true.
Proof. exact enums_ok_table. Qed.
Print Assumptions enum_tables_bijective.

(* ... which means: to_c (from_c c) = c for every enumerator c of every C enum converted both ways. *)
Theorem enum_roundtrip :
  forall c x tf tb cs xs,
    In (c, x, tf) CBind.enum_from -> In (c, x, tb) CBind.enum_to ->
    assoc c CBind.c_enums = Some cs -> assoc x CBind.cxx_enums = Some xs ->
    forall a, In a cs -> exists b, assoc a tf = Some b /\ In b xs /\ assoc b tb = Some a.
Proof. exact enum_roundtrip_lemma. Qed.
Print Assumptions enum_roundtrip.

(* A checked entry really has the advertised memory behaviour. *)
Theorem checked_entry_is_faithful :
  forall e bind args, wrapper_ok e = true -> is_family (e_kind e) = false -> faithful (entry_call e bind args).
Proof. exact wrapper_ok_faithful. Qed.
Print Assumptions checked_entry_is_faithful.

(* Lifecycle safety, abstractly: for every program of API calls whose calls do
   what the header advertises, if the caller honours the header's contract
   (construct before use; destruct or delete each object exactly once; no use
   afterwards; give all storage back) then execution on the heap model never
   destroys a dead object, never reads a dead object, never constructs outside
   storage of the right size, and ends with no object, storage or hidden
   allocation left. *)
Theorem lifecycle_safe :
  forall p : list op, (forall c, In (OCall c) p -> faithful c) -> contract p -> safe p.
Proof. exact lifecycle_safe_lemma. Qed.
Print Assumptions lifecycle_safe.

(* ... and for the generated table: programs of calls of the real wrappers. *)
Theorem lifecycle_safe_for_table :
  forall p : list op,
    (forall c, In (OCall c) p ->
       exists e bind args, In e CBind.table /\ is_family (e_kind e) = false /\ c = entry_call e bind args) ->
    contract p -> safe p.
Proof. exact lifecycle_safe_table. Qed.
Print Assumptions lifecycle_safe_for_table.

(* What `safe` buys, spelled out: every call's inputs are alive when it runs; every
   destruct/delete acts on a live object; per address, constructions = destructions. *)
Theorem no_use_after_destruction :
  forall p c q h hf, run (p ++ OCall c :: q) h = Some hf ->
  exists h1, run p h = Some h1 /\ forall a, In a (c_args c) -> is_live (cells h1 a) = true.
Proof. exact call_args_live_lemma. Qed.
Print Assumptions no_use_after_destruction.

Theorem no_double_destruction :
  forall p a t q h hf, run (p ++ ODestruct a t :: q) h = Some hf ->
  exists h1 o, run p h = Some h1 /\ cells h1 a = Live o t.
Proof. exact destruct_acts_on_live_lemma. Qed.
Print Assumptions no_double_destruction.

Theorem no_double_delete :
  forall p a t q h hf, run (p ++ ODelete a t :: q) h = Some hf ->
  exists h1, run p h = Some h1 /\ cells h1 a = Live Lib t.
Proof. exact delete_acts_on_live_lib_lemma. Qed.
Print Assumptions no_double_delete.

Theorem each_object_destroyed_exactly_once :
  forall p, safe p -> forall a, total constructed_by p a = total destroyed_by p a.
Proof. exact destroyed_exactly_once_lemma. Qed.
Print Assumptions each_object_destroyed_exactly_once.

(* Non-vacuity: the hypotheses are satisfiable, on a hand-written program and on
   a program built from four real table entries ... *)
Example contract_satisfiable : contract good_prog /\ (forall c, In (OCall c) good_prog -> faithful c) /\ safe good_prog.
Proof. exact (conj good_prog_contract (conj good_prog_faithful good_prog_safe)). Qed.

Example table_program_runs :
  match table_prog with
  | Some p => match run p init with
              | Some h => andb (forallb (fun a => match cells h a with Absent => true | _ => false end) (seq 0 8)) (Nat.eqb (leaked h) 0)
              | None => false end
  | None => false end = true.
Proof. exact table_prog_runs. Qed.

(* ... `faithful` is needed: a wrapper that allocates instead of constructing in
   place, or frees an input, breaks a contract-abiding caller ... *)
Example unfaithful_wrapper_breaks_caller :
  contract leaky_prog /\ run leaky_prog init = None /\ run double_free_prog init = None.
Proof. exact (conj leaky_prog_contract (conj leaky_prog_unsafe double_free_prog_unsafe)). Qed.

(* ... and the checkers reject the mutants of DESIGN section 10. *)
Example checkers_reject_mutants :
  option_map wrapper_ok (find_e "manifold_translate") = Some true /\
  option_map wrapper_ok translate_swapped = Some false /\
  option_map wrapper_ok cylinder_swapped = Some false /\
  option_map wrapper_ok warp_ctx_dropped = Some false /\
  option_map wrapper_ok cube_allocating = Some false /\
  family_ok wrong_size_table handles "ManifoldMeshGL" = false /\
  enum_from_ok CBind.c_enums CBind.cxx_enums
    ("ManifoldOpType", "manifold::OpType",
     [("MANIFOLD_ADD", "Add"); ("MANIFOLD_SUBTRACT", "Intersect"); ("MANIFOLD_INTERSECT", "Subtract")]) = false.
Proof.
  exact (conj translate_in_table_ok (conj translate_swapped_rejected (conj cylinder_swapped_rejected
        (conj warp_ctx_dropped_rejected (conj cube_allocating_rejected (conj wrong_size_rejected swapped_optype_rejected)))))).
Qed.

(* the copy-paste slip seeded in manifold_meshgl64_w_options (guard on run_indices, copy of run_original_ids) *)
Example option_guard_slip_rejected :
  opt_table_ok CBind.c_structs
    ("manifold_meshgl64_w_options", "ManifoldMeshGL64Options",
     [("halfedge_tangents", "halfedge_tangents", "n_tris*3*4", "halfedgeTangent");
      ("run_indices", "run_indices", "run_indices_length", "runIndex");
      ("run_indices", "run_original_ids", "run_original_ids_length", "runOriginalID");
      ("merge_from_vert", "merge_from_vert", "merge_verts_length", "mergeFromVert");
      ("merge_to_vert", "merge_to_vert", "merge_verts_length", "mergeToVert")]) = false.
Proof. exact wrong_guard_rejected. Qed.
