(* PartitionFan and PartitionQuad for ALL sizes: the boundary chain of the
   triangles is the subdivided outline (chain group of Base/Chain.v).
   The statements are about the generic model (any number type T), so they hold
   for the binary64 instance that is tied bit for bit to the C++. *)
From Coq Require Import ZArith List Bool Lia.
From MV Require Import Base.Chain Tri.PartitionDefs Tri.QuadChain.
Import ListNotations.
Local Open Scope Z_scope.

(* ------------------------------------------------------------------ *)
(* the outline of a quad given by corner vertices, edge offsets, number of
   added vertices per side and direction of the vertex numbering per side *)

Definition erun (eo : v4 Z) (fwd : v4 bool) (ea : v4 Z) (k : nat) : list Z :=
  map (get_edge_vert eo fwd k) (zrange (Z.to_nat (g4 ea k)) 0 1).

Definition qoutline (cv eo ea : v4 Z) (fwd : v4 bool) : list Z :=
  flat_map (fun k => g4 cv k :: erun eo fwd ea k) [0; 1; 2; 3]%nat.

Section AB.
  Variables a b : Z.
  Notation pc := (pc a b).
  Notation e1 := (e1 a b).

  Definition side (cv eo ea : v4 Z) (fwd : v4 bool) (k : nat) : Z :=
    pc (g4 cv k :: erun eo fwd ea k ++ [g4 cv (mod4 (k + 1))]).

  Lemma contour_quad cv eo ea fwd :
    coef (contour (qoutline cv eo ea fwd)) a b =
    side cv eo ea fwd 0 + side cv eo ea fwd 1 + side cv eo ea fwd 2 + side cv eo ea fwd 3.
  Proof.
    unfold qoutline, contour, side. cbn [flat_map mod4 Nat.modulo Nat.add Nat.divmod fst snd Nat.sub app].
    rewrite app_nil_r.
    set (R0 := erun eo fwd ea 0). set (R1 := erun eo fwd ea 1). set (R2 := erun eo fwd ea 2). set (R3 := erun eo fwd ea 3).
    change (coef (path_edges ?l) a b) with (pc l).
    repeat (rewrite <- app_assoc; cbn [app]).
    rewrite (pc_cons_app_mid a b (g4 cv 0%nat) R0 (g4 cv 1%nat)).
    rewrite (pc_cons_app_mid a b (g4 cv 1%nat) R1 (g4 cv 2%nat)).
    rewrite (pc_cons_app_mid a b (g4 cv 2%nat) R2 (g4 cv 3%nat) (R3 ++ [g4 cv 0%nat])). lia.
  Qed.

  Lemma side_empty cv eo ea fwd k : g4 ea k = 0 -> side cv eo ea fwd k = e1 (g4 cv k) (g4 cv (mod4 (k + 1))).
  Proof. intro H. unfold side, erun. rewrite H. cbn [Z.to_nat zrange map app]. rewrite pc_cons2, pc_one. lia. Qed.

  (* ---------------------------------------------------------------- *)
  (* PartitionFan                                                       *)

  Lemma partition_fan_coef cv0 cv1 cv2 added eoff :
    coef (boundaries (partition_fan cv0 cv1 cv2 added eoff)) a b =
    pc (cv0 :: map (fun i => eoff + i) (zrange (Z.to_nat added) 0 1) ++ [cv1]) + e1 cv1 cv2 + e1 cv2 cv0.
  Proof.
    unfold partition_fan.
    rewrite (loop_chain (fun l n => (l, n, cv2)) (fun i => eoff + i)).
    set (R := map (fun i => eoff + i) (zrange (Z.to_nat added) 0 1)).
    cbn [app]. rewrite coef_boundaries_app.
    change (map (fun e => (fst e, snd e, cv2)) (path_edges (cv0 :: R))) with (fan_r cv2 (cv0 :: R)).
    rewrite fan_r_coef. cbn [boundaries flat_map]. rewrite app_nil_r, coef_tri.
    replace (cv0 :: R ++ [cv1]) with ((cv0 :: R) ++ [cv1]) by reflexivity.
    destruct (exists_last (l := cv0 :: R) ltac:(discriminate)) as (l' & z & Hl).
    rewrite Hl. rewrite <- app_assoc. cbn [app]. rewrite pc_snoc.
    assert (Hz : last R cv0 = z).
    { rewrite <- (last_cons R cv0 cv0). rewrite Hl. apply last_last. }
    rewrite Hz. fold (e1 z cv2) (e1 cv2 z). rewrite (e1_swap a b z cv2). lia.
  Qed.

  (* ---------------------------------------------------------------- *)
  (* PartitionQuad, terminal case with exactly one divided side         *)

  Lemma quot2_bounds x : 0 < x -> 0 <= x ÷ 2 < x.
  Proof. intro H. split; [apply Z.quot_pos; lia|apply Z.quot_lt; lia]. Qed.

  Lemma quad_term_one_coef cv eo ea fwd (m : nat) :
    0 < g4 ea m ->
    coef (boundaries (quad_term_one cv eo ea fwd m)) a b =
    pc (g4 cv (mod4 (0 + m)) :: erun eo fwd ea m ++ [g4 cv (mod4 (1 + m))]) +
    e1 (g4 cv (mod4 (1 + m))) (g4 cv (mod4 (2 + m))) + e1 (g4 cv (mod4 (2 + m))) (g4 cv (mod4 (3 + m))) +
    e1 (g4 cv (mod4 (3 + m))) (g4 cv (mod4 (0 + m))).
  Proof.
    intro Hpos. unfold quad_term_one, idiv, erun.
    set (A := g4 ea m) in *. set (gev := get_edge_vert eo fwd m).
    set (c0 := g4 cv (mod4 (0 + m))). set (c1 := g4 cv (mod4 (1 + m))).
    set (c2 := g4 cv (mod4 (2 + m))). set (c3 := g4 cv (mod4 (3 + m))).
    pose proof (quot2_bounds A Hpos) as Hm. set (mid := A ÷ 2) in *.
    rewrite (loop_chain (fun l n => (c3, l, n)) gev).
    rewrite (loop_chain (fun l n => (c2, n, l)) gev).
    rewrite !coef_boundaries_app. cbn [boundaries flat_map]. rewrite app_nil_r, coef_tri.
    change (map (fun e => (c3, fst e, snd e)) (path_edges ?l)) with (fan_f c3 l).
    change (map (fun e => (c2, snd e, fst e)) (path_edges ?l)) with (fan_b c2 l).
    rewrite fan_f_coef, fan_b_coef.
    (* the three index ranges *)
    set (n := Z.to_nat (A - mid)).
    assert (Hn : (n = S (n - 1))%nat) by lia.
    assert (HA : Z.to_nat A = (Z.to_nat mid + n)%nat) by lia.
    assert (HU : zrange (Z.to_nat (mid + 1)) 0 1 = zrange (Z.to_nat mid) 0 1 ++ [mid]).
    { replace (Z.to_nat (mid + 1)) with (S (Z.to_nat mid)) by lia. rewrite zrange_S_last. f_equal. f_equal. lia. }
    assert (HD : zrange n (A - 1) (-1) = rev (zrange n mid 1)).
    { rewrite zrange_rev. f_equal. lia. }
    assert (HR : zrange (Z.to_nat A) 0 1 = zrange (Z.to_nat mid) 0 1 ++ mid :: zrange (n - 1) (mid + 1) 1).
    { rewrite HA, zrange_app. f_equal. rewrite Hn at 1. cbn [zrange]. f_equal; [lia|f_equal; lia]. }
    rewrite HU, HD, HR. rewrite Hn at 1 2. cbn [zrange].
    rewrite !map_app, map_rev. cbn [map rev].
    set (P := map gev (zrange (Z.to_nat mid) 0 1)). set (Q := map gev (zrange (n - 1) (mid + 1) 1)). set (gm := gev mid).
    rewrite last_last.
    (* c1 :: rev (gm :: Q) = rev (gm :: Q ++ [c1]) *)
    replace (c1 :: rev Q ++ [gm]) with (rev ((gm :: Q) ++ [c1])) by (rewrite rev_app_distr; reflexivity).
    rewrite pc_rev.
    replace (last (rev Q ++ [gm]) c1) with gm by (rewrite last_last; reflexivity).
    rewrite <- (app_assoc P (gm :: Q) [c1]). cbn [app].
    rewrite (pc_cons_app_mid a b c0 P gm (Q ++ [c1])).
    fold (e1 c2 c3) (e1 c3 gm) (e1 gm c2) (e1 gm c3) (e1 c3 c0) (e1 c1 c2) (e1 c2 gm).
    rewrite (e1_swap a b c3 gm), (e1_swap a b c2 gm). lia.
  Qed.

  (* ---------------------------------------------------------------- *)
  (* PartitionQuad, terminal case at a corner: the two sides after the
     corner are either both undivided or both divided                    *)

  Lemma quad_term_corner_coef cv eo ea fwd (c : nat) :
    ((g4 ea (mod4 (c + 1)) = 0 /\ g4 ea (mod4 (c + 2)) = 0) \/
     (0 < g4 ea (mod4 (c + 1)) /\ 0 < g4 ea (mod4 (c + 2)))) ->
    coef (boundaries (quad_term_corner cv eo ea fwd c)) a b =
    pc (g4 cv (mod4 (c + 1)) :: erun eo fwd ea (mod4 (c + 1)) ++ [g4 cv (mod4 (c + 2))]) +
    pc (g4 cv (mod4 (c + 2)) :: erun eo fwd ea (mod4 (c + 2)) ++ [g4 cv (mod4 (c + 2 + 1))]) +
    e1 (g4 cv (mod4 (c + 2 + 1))) (g4 cv c) + e1 (g4 cv c) (g4 cv (mod4 (c + 1))).
  Proof.
    intro H. unfold quad_term_corner, erun.
    replace (c + 1 + 1)%nat with (c + 2)%nat by lia.
    set (s1 := mod4 (c + 1)). set (s2 := mod4 (c + 2)). set (s3 := mod4 (c + 2 + 1)).
    set (g1 := get_edge_vert eo fwd s1). set (g2 := get_edge_vert eo fwd s2).
    set (cc := g4 cv c).
    cbn [Nat.eqb andb orb].
    rewrite (loop_chain (fun l n => (cc, l, n)) g1).
    destruct H as [[H1 H2]|[H1 H2]].
    - (* both undivided *)
      fold s1 s2 in H1, H2. rewrite H1. cbn [Z.to_nat zrange map path_edges app last Z.eqb].
      replace (g4 ea s2 >? 0) with false by (rewrite H2; reflexivity).
      rewrite (loop_chain (fun l n => (cc, l, n)) g2). rewrite H2.
      cbn [Z.to_nat zrange map path_edges app last Z.eqb fst].
      cbn [boundaries flat_map boundary app coef]. fold s3.
      rewrite !pc_cons2, !pc_one. unfold e1. pose_swaps. lia.
    - (* both divided *)
      fold s1 s2 in H1, H2.
      replace (g4 ea s1 =? 0) with false by (symmetry; apply Z.eqb_neq; lia).
      replace (g4 ea s2 >? 0) with true by (symmetry; apply Z.gtb_lt; lia).
      rewrite (loop_chain (fun l n => (cc, l, n)) g2).
      cbn [fst]. fold s3.
      set (R1 := map g1 (zrange (Z.to_nat (g4 ea s1)) 0 1)).
      set (R2 := map g2 (zrange (Z.to_nat (g4 ea s2)) 0 1)).
      set (l1 := last R1 (g4 cv s1)).
      rewrite !coef_boundaries_app. cbn [boundaries flat_map]. rewrite !app_nil_r, !coef_tri.
      change (map (fun e => (cc, fst e, snd e)) (path_edges ?l)) with (fan_f cc l).
      rewrite !fan_f_coef. fold l1.
      (* R2 = g2 0 :: R2' *)
      assert (HR2 : R2 = g2 0 :: map g2 (zrange (Z.to_nat (g4 ea s2) - 1) 1 1)).
      { unfold R2. replace (Z.to_nat (g4 ea s2)) with (S (Z.to_nat (g4 ea s2) - 1)) at 1 by lia. reflexivity. }
      set (R2' := map g2 (zrange (Z.to_nat (g4 ea s2) - 1) 1 1)) in *.
      rewrite HR2. set (g20 := g2 0).
      rewrite (pc_cons2 a b l1 g20). rewrite last_cons.
      (* sides *)
      rewrite (pc_cons_snoc a b (g4 cv s1) R1 (g4 cv s2)). fold l1.
      rewrite (pc_cons_snoc a b (g4 cv s2) (g20 :: R2') (g4 cv s3)). rewrite last_cons.
      rewrite (pc_cons2 a b (g4 cv s2) g20).
      set (l2 := last R2' g20).
      fold (e1 (g4 cv s2) g20) (e1 g20 l1) (e1 l1 (g4 cv s2)) (e1 l1 cc) (e1 cc (g4 cv s1)) (e1 l2 cc) (e1 cc l1)
           (e1 cc l2) (e1 l2 (g4 cv s3)) (e1 (g4 cv s3) cc).
      rewrite (e1_swap a b l1 g20), (e1_swap a b l1 cc), (e1_swap a b l2 cc). cbn [coef]. lia.
  Qed.
End AB.

(* ------------------------------------------------------------------ *)
(* PartitionQuad, recursive case                                        *)

Definition gv (o : Z) (f : bool) (t : Z) : Z := o + (if f then 1 else -1) * t.
Definition srun (o : Z) (f : bool) (n : Z) : list Z := map (gv o f) (zrange (Z.to_nat n) 0 1).

Lemma gv_gv o f j t : gv (gv o f j) f t = gv o f (j + t).
Proof. unfold gv. destruct f; lia. Qed.

Lemma gv_diff o f x y : Z.abs (gv o f x - gv o f y) = Z.abs (x - y).
Proof. unfold gv. destruct f; lia. Qed.

Lemma zrange_shift m i : zrange m i 1 = map (fun t => i + t) (zrange m 0 1).
Proof.
  revert i. induction m as [|m IH]; intro i; cbn [zrange map]; [reflexivity|].
  f_equal; [lia|]. rewrite (IH (i + 1)), (IH (0 + 1)), map_map. apply map_ext. intro t. lia.
Qed.

Lemma zrange_neg m i : zrange m i (-1) = map (fun t => i - t) (zrange m 0 1).
Proof.
  revert i. induction m as [|m IH]; intro i; cbn [zrange map]; [reflexivity|].
  f_equal; [lia|]. rewrite (IH (i + -1)), (zrange_shift m (0 + 1)), map_map. apply map_ext. intro t. lia.
Qed.

Lemma srun_shift o f j m : srun (gv o f j) f m = map (gv o f) (zrange (Z.to_nat m) j 1).
Proof.
  unfold srun. rewrite (zrange_shift _ j), map_map. apply map_ext. intro t. apply gv_gv.
Qed.

Lemma srun_app o f j m : 0 <= j -> 0 <= m -> srun o f (j + m) = srun o f j ++ srun (gv o f j) f m.
Proof.
  intros Hj Hm. rewrite srun_shift. unfold srun.
  replace (Z.to_nat (j + m)) with (Z.to_nat j + Z.to_nat m)%nat by lia.
  rewrite zrange_app, map_app. do 3 f_equal. lia.
Qed.

Lemma srun_S o f j : 0 <= j -> srun o f (j + 1) = srun o f j ++ [gv o f j].
Proof.
  intro Hj. rewrite srun_app by lia. f_equal.
  change (srun (gv o f j) f 1) with [gv (gv o f j) f 0]. rewrite gv_gv. do 2 f_equal. lia.
Qed.

Lemma erun_srun e0 e1 e2 e3 f0 f1 f2 f3 n0 n1 n2 n3 :
  erun (V4 e0 e1 e2 e3) (V4 f0 f1 f2 f3) (V4 n0 n1 n2 n3) 0 = srun e0 f0 n0 /\
  erun (V4 e0 e1 e2 e3) (V4 f0 f1 f2 f3) (V4 n0 n1 n2 n3) 1 = srun e1 f1 n1 /\
  erun (V4 e0 e1 e2 e3) (V4 f0 f1 f2 f3) (V4 n0 n1 n2 n3) 2 = srun e2 f2 n2 /\
  erun (V4 e0 e1 e2 e3) (V4 f0 f1 f2 f3) (V4 n0 n1 n2 n3) 3 = srun e3 f3 n3.
Proof. repeat split; reflexivity. Qed.

Section AB2.
  Variables a b : Z.
  Notation pc := (pc a b).
  Notation e1 := (e1 a b).

  Definition spath (x o : Z) (f : bool) (n y : Z) : Z := pc (x :: srun o f n ++ [y]).

  (* the whole outline as four sides *)
  Definition W (cv eo ea : v4 Z) (fwd : v4 bool) : Z :=
    spath (c0 cv) (c0 eo) (c0 fwd) (c0 ea) (c1 cv) + spath (c1 cv) (c1 eo) (c1 fwd) (c1 ea) (c2 cv) +
    spath (c2 cv) (c2 eo) (c2 fwd) (c2 ea) (c3 cv) + spath (c3 cv) (c3 eo) (c3 fwd) (c3 ea) (c0 cv).

  Lemma W_contour cv eo ea fwd : coef (contour (qoutline cv eo ea fwd)) a b = W cv eo ea fwd.
  Proof. rewrite contour_quad. destruct cv, eo, ea, fwd. reflexivity. Qed.

  Lemma pc_cons_app x l1 l2 : pc (x :: l1 ++ l2) = pc (x :: l1) + pc (last l1 x :: l2).
  Proof.
    revert x. induction l1 as [|y t IH]; intro x; cbn [app].
    - rewrite pc_one. cbn [last]. lia.
    - rewrite !pc_cons2, IH, last_cons. lia.
  Qed.

  Lemma pc_cons_app_hd x m l d : l <> [] -> pc (x :: m ++ l) = pc (x :: m ++ [hd d l]) + pc l.
  Proof. destruct l as [|y t]; [congruence|]. intros _. cbn [hd]. apply pc_cons_app_mid. Qed.

  (* edge 1 of the parent: consumed prefix + next piece *)
  Lemma e1gen x o f j m tl : 0 <= j -> 0 <= m ->
    pc (x :: srun o f j) + pc (last (srun o f j) x :: srun (gv o f j) f m ++ tl) = pc (x :: srun o f (j + m) ++ tl).
  Proof.
    intros Hj Hm. rewrite srun_app by lia. rewrite <- app_assoc. rewrite (pc_cons_app x (srun o f j)). reflexivity.
  Qed.

  (* edge 3 of the parent: suffix list L3 j = vertices j .. n-1, then the corner y *)
  Definition l3 (o : Z) (f : bool) (n y j : Z) : list Z := map (gv o f) (zrange (Z.to_nat (n - j)) j 1) ++ [y].

  Lemma l3_nonempty o f n y j : l3 o f n y j <> [].
  Proof. unfold l3. destruct (map _ _); discriminate. Qed.

  Lemma l3_cons o f n y j : j < n -> l3 o f n y j = gv o f j :: l3 o f n y (j + 1).
  Proof.
    intro H. unfold l3. replace (Z.to_nat (n - j)) with (S (Z.to_nat (n - (j + 1)))) by lia. reflexivity.
  Qed.

  Lemma l3_split o f n y r m : 0 <= m -> r + 1 + m <= n ->
    l3 o f n y r = gv o f r :: srun (gv o f (r + 1)) f m ++ l3 o f n y (r + 1 + m).
  Proof.
    intros Hm Hn. rewrite l3_cons by lia. f_equal. unfold l3. rewrite srun_shift.
    replace (Z.to_nat (n - (r + 1))) with (Z.to_nat m + Z.to_nat (n - (r + 1 + m)))%nat by lia.
    rewrite zrange_app, map_app, <- app_assoc. do 4 f_equal. lia.
  Qed.

  Lemma e3gen o f n y r m : 0 <= m -> r + 1 + m <= n ->
    pc (gv o f r :: srun (gv o f (r + 1)) f m ++ [hd y (l3 o f n y (r + 1 + m))]) + pc (l3 o f n y (r + 1 + m)) =
    pc (l3 o f n y r).
  Proof.
    intros Hm Hn. rewrite (l3_split o f n y r m Hm Hn).
    rewrite (pc_cons_app_hd _ _ _ y (l3_nonempty o f n y (r + 1 + m))). reflexivity.
  Qed.

  Lemma e3final x o f n y j : 0 <= j <= n ->
    pc (x :: srun o f j ++ [hd y (l3 o f n y j)]) + pc (l3 o f n y j) = spath x o f n y.
  Proof.
    intro H. unfold spath. replace n with (j + (n - j)) at 3 by lia. rewrite srun_app by lia.
    rewrite <- app_assoc. rewrite srun_shift. fold (l3 o f n y j).
    rewrite (pc_cons_app_hd _ _ _ y (l3_nonempty o f n y j)). reflexivity.
  Qed.

  (* a run seen backwards *)
  Lemma srun_rev o n : 0 <= n -> srun (o + n - 1) false n = rev (srun o true n).
  Proof.
    intro Hn. unfold srun. rewrite <- map_rev, zrange_rev, zrange_neg, map_map.
    apply map_ext. intro t. unfold gv. lia.
  Qed.

  Lemma spath_rev x o n y : 0 <= n -> spath y (o + n - 1) false n x = - spath x o true n y.
  Proof.
    intro Hn. unfold spath. rewrite <- pc_rev. f_equal.
    change (x :: srun o true n ++ [y]) with ((x :: srun o true n) ++ [y]).
    rewrite rev_app_distr. cbn [rev app]. rewrite srun_rev by exact Hn. reflexivity.
  Qed.
End AB2.

(* ------------------------------------------------------------------ *)
(* one unfolding of partition_quad with the recursive calls abstracted  *)

Section Rec.
  Variable T : Type.
  Variable tlerp : T -> T -> Z -> Z -> T.
  Let qrec := list (bary T) -> v4 Z -> v4 Z -> v4 Z -> v4 bool -> option (list tri * list (bary T)).

  Definition pq_vb_loop (added : Z) (ncv : v4 Z) (vb0 : list (bary T)) : option (list (bary T)) :=
    zloop (Z.to_nat added) 0 1
      (fun j ovb =>
         match ovb with
         | None => None
         | Some vb1 =>
           match vget vb1 (g4 ncv 1%nat), vget vb1 (g4 ncv 2%nat) with
           | Some x, Some y => Some (vb1 ++ [lerp4 T tlerp x y (j + 1) (added + 1)])
           | _, _ => None
           end
         end) (Some vb0).

  Definition pq_body (rec : qrec) (eo ea : v4 Z) (fwd : v4 bool) (partitions : Z)
             (i : Z) (ost : option (qstate T)) : option (qstate T) :=
    let gev := get_edge_vert eo fwd in
    match ost with
    | None => None
    | Some st =>
      let cornerOffset1 := idiv (g4 ea 1%nat * i) partitions in
      let cornerOffset3 := g4 ea 3%nat - 1 - idiv (g4 ea 3%nat * i) partitions in
      let nextOffset1 := gev 1%nat (cornerOffset1 + 1) in
      let nextOffset3 := gev 3%nat (cornerOffset3 + 1) in
      match quad_added (g4 ea 0%nat) (g4 ea 2%nat) i partitions with
      | None => None
      | Some added =>
        let ncv := s4 (s4 (q_cv T st) 1%nat (gev 1%nat cornerOffset1)) 2%nat (gev 3%nat cornerOffset3) in
        let nea := s4 (s4 (s4 (q_ea T st) 0%nat (Z.abs (nextOffset1 - g4 (q_eo T st) 0%nat) - 1))
                          1%nat added)
                      2%nat (Z.abs (nextOffset3 - g4 (q_eo T st) 2%nat) - 1) in
        let neo := s4 (s4 (q_eo T st) 1%nat (zlen (q_vb T st))) 2%nat nextOffset3 in
        match pq_vb_loop added ncv (q_vb T st) with
        | None => None
        | Some vb1 =>
          match rec vb1 ncv neo nea (q_fwd T st) with
          | None => None
          | Some (tv', vb2) =>
            let ncv' := s4 (s4 ncv 0%nat (g4 ncv 1%nat)) 3%nat (g4 ncv 2%nat) in
            let nea' := s4 nea 3%nat (g4 nea 1%nat) in
            let neo' := s4 (s4 neo 0%nat nextOffset1) 3%nat (g4 neo 1%nat + g4 nea 1%nat - 1) in
            let nfwd' := s4 (q_fwd T st) 3%nat false in
            Some (QS ncv' neo' nea' nfwd' (q_tv T st ++ tv') vb2)
          end
        end
      end
    end.

  Definition pq_step (rec : qrec) (vb : list (bary T)) (cv eo ea : v4 Z) (fwd : v4 bool)
    : option (list tri * list (bary T)) :=
    if any_negative ea then None else
    let gev := get_edge_vert eo fwd in
    let '(corner, maxEdge) := quad_scan ea in
    if 0 <=? corner then
      if 0 <=? maxEdge then Some (quad_term_one cv eo ea fwd (Z.to_nat maxEdge), vb)
      else Some (quad_term_corner cv eo ea fwd (Z.to_nat corner), vb)
    else
      let partitions := 1 + Z.min (g4 ea 1%nat) (g4 ea 3%nat) in
      let st0 := QS (V4 (g4 cv 1%nat) (-1) (-1) (g4 cv 0%nat))
                    (V4 (g4 eo 1%nat) (-1) (gev 3%nat (g4 ea 3%nat + 1)) (g4 eo 0%nat))
                    (V4 0 (-1) 0 (g4 ea 0%nat))
                    (V4 (g4 fwd 1%nat) true (g4 fwd 3%nat) (g4 fwd 0%nat))
                    [] vb in
      match zloop (Z.to_nat (partitions - 1)) 1 1 (pq_body rec eo ea fwd partitions) (Some st0) with
      | None => None
      | Some st =>
        let ncv := s4 (s4 (q_cv T st) 1%nat (g4 cv 2%nat)) 2%nat (g4 cv 3%nat) in
        let neo1 := s4 (q_eo T st) 1%nat (g4 eo 2%nat) in
        let nea := s4 (s4 (s4 (q_ea T st) 0%nat (g4 ea 1%nat - Z.abs (g4 neo1 0%nat - g4 eo 1%nat)))
                          1%nat (g4 ea 2%nat))
                      2%nat (Z.abs (g4 neo1 2%nat - g4 eo 3%nat) - 1) in
        let neo := s4 neo1 2%nat (g4 eo 3%nat) in
        let nfwd := s4 (q_fwd T st) 1%nat (g4 fwd 2%nat) in
        match rec (q_vb T st) ncv neo nea nfwd with
        | None => None
        | Some (tv', vb2) => Some (q_tv T st ++ tv', vb2)
        end
      end.

  Lemma partition_quad_S fuel vb cv eo ea fwd :
    partition_quad T tlerp (S fuel) vb cv eo ea fwd = pq_step (partition_quad T tlerp fuel) vb cv eo ea fwd.
  Proof. reflexivity. Qed.
End Rec.

(* ------------------------------------------------------------------ *)
(* terminal dispatch: whatever quad_scan answers, the terminal branch
   triangulates the outline                                             *)

Definition nonneg4 (ea : v4 Z) : Prop := 0 <= c0 ea /\ 0 <= c1 ea /\ 0 <= c2 ea /\ 0 <= c3 ea.

Lemma any_negative_false ea : any_negative ea = false -> nonneg4 ea.
Proof.
  unfold any_negative, nonneg4. rewrite !orb_false_iff, !Z.ltb_ge. tauto.
Qed.

Lemma spath_zero a b x o f y : spath a b x o f 0 y = e1 a b x y.
Proof. unfold spath. cbn [srun Z.to_nat zrange map app]. rewrite pc_cons2, pc_one. lia. Qed.

Lemma terminal_chain a b cv eo ea fwd corner maxEdge :
  nonneg4 ea -> quad_scan ea = (corner, maxEdge) -> 0 <= corner ->
  coef (boundaries (if 0 <=? maxEdge then quad_term_one cv eo ea fwd (Z.to_nat maxEdge)
                    else quad_term_corner cv eo ea fwd (Z.to_nat corner))) a b = W a b cv eo ea fwd.
Proof.
  intros Hnn Hscan Hc.
  destruct ea as [n0 n1 n2 n3]. destruct Hnn as (N0 & N1 & N2 & N3). cbn [c0 c1 c2 c3] in *.
  unfold quad_scan in Hscan. cbn [g4 c0 c1 c2 c3] in Hscan.
  destruct (Z.eqb_spec n0 0), (Z.gtb_spec n0 0); try lia;
  destruct (Z.eqb_spec n1 0), (Z.gtb_spec n1 0); try lia;
  destruct (Z.eqb_spec n2 0), (Z.gtb_spec n2 0); try lia;
  destruct (Z.eqb_spec n3 0), (Z.gtb_spec n3 0); try lia;
  cbn in Hscan; injection Hscan as <- <-; try lia; subst.
  all: cbn [Z.leb Z.compare Z.to_nat Pos.to_nat Pos.iter_op Nat.add].
  all: destruct cv as [k0 k1 k2 k3], eo as [o0 o1 o2 o3], fwd as [f0 f1 f2 f3].
  all: repeat match goal with |- context [Pos.to_nat ?p] => let v := eval compute in (Pos.to_nat p) in change (Pos.to_nat p) with v end.
  all: first
    [ rewrite quad_term_one_coef by (cbn; lia)
    | rewrite quad_term_corner_coef by (cbn; lia) ].
  all: unfold W; cbn [g4 c0 c1 c2 c3 mod4 Nat.modulo Nat.divmod Nat.add fst snd Nat.sub].
  all: rewrite ?spath_zero; unfold spath.
  all: repeat match goal with |- context [erun ?e ?f ?n ?k] => change (erun e f n k) with (srun (g4 e k) (g4 f k) (g4 n k)) end.
  all: cbn [g4 c0 c1 c2 c3]; try lia.
  all: repeat match goal with |- context [pc ?a' ?b' (?x :: srun ?o ?f 0 ++ [?y])] =>
         change (pc a' b' (x :: srun o f 0 ++ [y])) with (spath a' b' x o f 0 y); rewrite spath_zero end; lia.
Qed.

(* ------------------------------------------------------------------ *)
(* the recursive case: strips parallel to side 0                        *)

Section RecProof.
  Variable T : Type.
  Variable tlerp : T -> T -> Z -> Z -> T.
  Notation qrec := (list (bary T) -> v4 Z -> v4 Z -> v4 Z -> v4 bool -> option (list tri * list (bary T))).

  Definition rec_ok (rec : qrec) : Prop :=
    forall vb cv eo ea fwd tv vb', rec vb cv eo ea fwd = Some (tv, vb') ->
      nonneg4 ea /\ forall a b, coef (boundaries tv) a b = W a b cv eo ea fwd.

  Section Parent.
    Variable rec : qrec.
    Hypothesis Hrec : rec_ok rec.
    Variables k0 k1 k2 k3 o0 o1 o2 o3 n0 n1 n2 n3 : Z.
    Variables f0 f1 f2 f3 : bool.
    Hypothesis Hnn : 0 <= n0 /\ 0 <= n1 /\ 0 <= n2 /\ 0 <= n3.
    Let cv := V4 k0 k1 k2 k3.
    Let eo := V4 o0 o1 o2 o3.
    Let ea := V4 n0 n1 n2 n3.
    Let fwd := V4 f0 f1 f2 f3.
    Let p := 1 + Z.min n1 n3.

    Definition Inv (i : Z) (st : qstate T) : Prop :=
      exists J1 J3,
        0 <= J1 <= (n1 * i) ÷ p + 1 /\ n3 - 1 - (n3 * i) ÷ p <= J3 /\ -1 <= J3 <= n3 /\
        g4 (q_cv T st) 0 = last (srun o1 f1 J1) k1 /\ g4 (q_cv T st) 3 = hd k0 (l3 o3 f3 n3 k0 J3) /\
        g4 (q_eo T st) 0 = gv o1 f1 J1 /\ g4 (q_eo T st) 2 = gv o3 f3 (J3 + 1) /\
        g4 (q_fwd T st) 0 = f1 /\ g4 (q_fwd T st) 1 = true /\ g4 (q_fwd T st) 2 = f3 /\
        forall a b, coef (boundaries (q_tv T st)) a b =
          spath a b k0 o0 f0 n0 k1 + pc a b (k1 :: srun o1 f1 J1) + pc a b (l3 o3 f3 n3 k0 J3) -
          spath a b (g4 (q_cv T st) 3) (g4 (q_eo T st) 3) (g4 (q_fwd T st) 3) (g4 (q_ea T st) 3) (g4 (q_cv T st) 0).

    Lemma p_pos : 0 < p.
    Proof. unfold p. lia. Qed.

    Lemma quot_mono x i j : 0 <= x -> i <= j -> (x * i) ÷ p <= (x * j) ÷ p.
    Proof. intros Hx Hij. apply Z.quot_le_mono; [apply p_pos|nia]. Qed.

    Lemma quot_le_x x i : 0 <= x -> 0 <= i <= p -> 0 <= (x * i) ÷ p <= x.
    Proof.
      intros Hx Hi. split; [apply Z.quot_pos; [nia|pose proof p_pos; lia]|].
      rewrite <- (Z.quot_mul x p) at 2 by (pose proof p_pos; lia).
      apply Z.quot_le_mono; [apply p_pos|nia].
    Qed.

    Lemma body_step i st st' :
      1 <= i <= p - 1 -> Inv i st -> pq_body T tlerp rec eo ea fwd p i (Some st) = Some st' -> Inv (i + 1) st'.
    Proof.
      intros Hi (J1 & J3 & HJ1 & HJ3 & HJ3b & Hcv0 & Hcv3 & Heo0 & Heo2 & Hf0 & Hf1 & Hf2 & Hchain) Hbody.
      destruct st as [[s0 s1 s2 s3] [t0 t1 t2 t3] [m0 m1 m2 m3] [g0 g1 g2 g3] stv svb].
      cbn [q_cv q_eo q_ea q_fwd q_tv q_vb g4 c0 c1 c2 c3] in *.
      unfold pq_body, idiv in Hbody. cbn [q_cv q_eo q_ea q_fwd q_tv q_vb g4 s4 c0 c1 c2 c3 eo ea fwd] in Hbody.
      destruct (quad_added n0 n2 i p) as [ad|]; [|discriminate].
      destruct (pq_vb_loop _ _ _ _ _) as [vb1|]; [|discriminate].
      destruct (rec _ _ _ _ _) as [[tv' vb2]|] eqn:Erec; [|discriminate].
      injection Hbody as <-.
      apply Hrec in Erec. destruct Erec as (Hnneg & Hw).
      unfold nonneg4 in Hnneg. cbn [c0 c1 c2 c3] in Hnneg. destruct Hnneg as (Ha0 & Had & Ha2 & _).
      change (get_edge_vert eo fwd 1%nat) with (gv o1 f1) in *.
      change (get_edge_vert eo fwd 3%nat) with (gv o3 f3) in *.
      set (q := (n1 * i) ÷ p) in *. set (r := n3 - 1 - (n3 * i) ÷ p) in *.
      destruct Hnn as (N0 & N1 & N2 & N3).
      subst t0 t2. rewrite gv_diff in Ha0, Ha2.
      assert (Hq : J1 <= q) by lia.
      assert (Hr : r + 1 <= J3) by lia.
      assert (Ea0 : Z.abs (gv o1 f1 (q + 1) - gv o1 f1 J1) - 1 = q - J1) by (rewrite gv_diff; lia).
      assert (Ea2 : Z.abs (gv o3 f3 (r + 1) - gv o3 f3 (J3 + 1)) - 1 = J3 - r - 1) by (rewrite gv_diff; lia).
      pose proof (quot_le_x n3 i N3 ltac:(lia)) as Hq3.
      exists (q + 1), r.
      cbn [q_cv q_eo q_ea q_fwd q_tv q_vb g4 s4 c0 c1 c2 c3].
      split; [split; [lia|]|].
      { pose proof (quot_mono n1 i (i + 1) N1 ltac:(lia)). fold q in H. lia. }
      split. { pose proof (quot_mono n3 i (i + 1) N3 ltac:(lia)). unfold r. lia. }
      split. { unfold r. lia. }
      split. { rewrite srun_S by lia. rewrite last_last. reflexivity. }
      split. { rewrite l3_cons by lia. reflexivity. }
      split; [reflexivity|]. split; [reflexivity|].
      split; [exact Hf0|]. split; [exact Hf1|]. split; [exact Hf2|].
      intros a b. rewrite coef_boundaries_app, Hchain, Hw.
      unfold W. cbn [c0 c1 c2 c3]. rewrite Ea0, Ea2. subst s0 s3 g0 g1 g2.
      (* the new line seen from the next strip *)
      rewrite (spath_rev a b (gv o1 f1 q) (zlen svb) ad (gv o3 f3 r) Had).
      (* side 1 of the parent *)
      pose proof (e1gen a b k1 o1 f1 J1 (q - J1) [gv o1 f1 q] ltac:(lia) ltac:(lia)) as E1.
      replace (J1 + (q - J1)) with q in E1 by lia.
      rewrite <- srun_S in E1 by lia.
      (* side 3 of the parent *)
      pose proof (e3gen a b o3 f3 n3 k0 r (J3 - r - 1) ltac:(lia) ltac:(lia)) as E3.
      replace (r + 1 + (J3 - r - 1)) with J3 in E3 by lia.
      unfold spath in *. lia.
    Qed.

    Lemma zloop_none cnt i : zloop cnt i 1 (pq_body T tlerp rec eo ea fwd p) None = None.
    Proof. revert i. induction cnt as [|c IH]; intro i; cbn [zloop]; [reflexivity|]. apply IH. Qed.

    Lemma loop_inv cnt : forall i st st',
      1 <= i -> i + Z.of_nat cnt <= p -> Inv i st ->
      zloop cnt i 1 (pq_body T tlerp rec eo ea fwd p) (Some st) = Some st' -> Inv (i + Z.of_nat cnt) st'.
    Proof.
      induction cnt as [|c IH]; intros i st st' Hi Hp HI Hl; cbn [zloop] in Hl.
      - injection Hl as <-. replace (i + Z.of_nat 0) with i by lia. exact HI.
      - destruct (pq_body T tlerp rec eo ea fwd p i (Some st)) as [st1|] eqn:Eb.
        + replace (i + Z.of_nat (S c)) with ((i + 1) + Z.of_nat c) by lia.
          apply (IH (i + 1) st1 st'); [lia|lia| |exact Hl].
          apply (body_step i st st1); [lia|exact HI|exact Eb].
        + rewrite zloop_none in Hl. discriminate.
    Qed.

    Lemma inv_init vb :
      Inv 1 (QS (V4 k1 (-1) (-1) k0) (V4 o1 (-1) (gv o3 f3 (n3 + 1)) o0) (V4 0 (-1) 0 n0) (V4 f1 true f3 f0) [] vb).
    Proof.
      destruct Hnn as (N0 & N1 & N2 & N3).
      exists 0, n3. cbn [q_cv q_eo q_ea q_fwd q_tv g4 c0 c1 c2 c3].
      pose proof (quot_le_x n1 1 N1 ltac:(unfold p; lia)). pose proof (quot_le_x n3 1 N3 ltac:(unfold p; lia)).
      split; [lia|]. split; [lia|]. split; [lia|].
      split; [reflexivity|].
      split. { unfold l3. replace (n3 - n3) with 0 by lia. reflexivity. }
      split. { unfold gv. destruct f1; lia. }
      split; [reflexivity|]. split; [reflexivity|]. split; [reflexivity|]. split; [reflexivity|].
      intros a b. unfold l3. replace (n3 - n3) with 0 by lia.
      cbn [srun Z.to_nat zrange map app boundaries flat_map coef]. rewrite !pc_one. lia.
    Qed.

    Lemma final_chain st tv' vb2 :
      Inv p st ->
      rec (q_vb T st)
          (s4 (s4 (q_cv T st) 1%nat k2) 2%nat k3)
          (s4 (s4 (q_eo T st) 1%nat o2) 2%nat o3)
          (s4 (s4 (s4 (q_ea T st) 0%nat (n1 - Z.abs (g4 (s4 (q_eo T st) 1%nat o2) 0%nat - o1))) 1%nat n2) 2%nat
              (Z.abs (g4 (s4 (q_eo T st) 1%nat o2) 2%nat - o3) - 1))
          (s4 (q_fwd T st) 1%nat f2) = Some (tv', vb2) ->
      forall a b, coef (boundaries (q_tv T st ++ tv')) a b = W a b cv eo ea fwd.
    Proof.
      intros (J1 & J3 & HJ1 & HJ3 & HJ3b & Hcv0 & Hcv3 & Heo0 & Heo2 & Hf0 & Hf1 & Hf2 & Hchain) Erec a b.
      destruct st as [[s0 s1 s2 s3] [t0 t1 t2 t3] [m0 m1 m2 m3] [g0 g1 g2 g3] stv svb].
      cbn [q_cv q_eo q_ea q_fwd q_tv q_vb g4 s4 c0 c1 c2 c3] in *.
      apply Hrec in Erec. destruct Erec as (Hnneg & Hw).
      unfold nonneg4 in Hnneg. cbn [c0 c1 c2 c3] in Hnneg. destruct Hnneg as (Ha0 & _ & Ha2 & _).
      destruct Hnn as (N0 & N1 & N2 & N3).
      subst t0 t2.
      assert (G1 : gv o1 f1 J1 - o1 = gv o1 f1 J1 - gv o1 f1 0) by (unfold gv; destruct f1; lia).
      assert (G3 : gv o3 f3 (J3 + 1) - o3 = gv o3 f3 (J3 + 1) - gv o3 f3 0) by (unfold gv; destruct f3; lia).
      rewrite G1, gv_diff in Ha0. rewrite G3, gv_diff in Ha2.
      assert (Ea0 : n1 - Z.abs (gv o1 f1 J1 - o1) = n1 - J1) by (rewrite G1, gv_diff; lia).
      assert (Ea2 : Z.abs (gv o3 f3 (J3 + 1) - o3) - 1 = J3) by (rewrite G3, gv_diff; lia).
      rewrite coef_boundaries_app, Hchain, Hw. unfold W. cbn [c0 c1 c2 c3 cv eo ea fwd].
      rewrite Ea0, Ea2. subst s0 s3 g0 g1 g2.
      pose proof (e1gen a b k1 o1 f1 J1 (n1 - J1) [k2] ltac:(lia) ltac:(lia)) as E1.
      replace (J1 + (n1 - J1)) with n1 in E1 by lia.
      pose proof (e3final a b k3 o3 f3 n3 k0 J3 ltac:(lia)) as E3.
      assert (G0 : gv o3 f3 0 = o3) by (unfold gv; destruct f3; lia).
      unfold spath in *. lia.
    Qed.
  End Parent.

  Lemma pq_step_chain rec : rec_ok rec -> rec_ok (pq_step T tlerp rec).
  Proof.
    intros Hrec vb cv eo ea fwd tv vb' Hstep.
    unfold pq_step in Hstep.
    destruct (any_negative ea) eqn:Hneg; [discriminate|].
    pose proof (any_negative_false ea Hneg) as Hnn. split; [exact Hnn|].
    destruct (quad_scan ea) as [corner maxEdge] eqn:Hscan.
    destruct (0 <=? corner) eqn:Hc.
    - apply Z.leb_le in Hc. intros a b.
      pose proof (terminal_chain a b cv eo ea fwd corner maxEdge Hnn Hscan Hc) as Ht.
      destruct (0 <=? maxEdge); injection Hstep as <- <-; exact Ht.
    - destruct cv as [k0 k1 k2 k3], eo as [o0 o1 o2 o3], ea as [n0 n1 n2 n3], fwd as [f0 f1 f2 f3].
      cbn [g4 c0 c1 c2 c3] in Hstep.
      change (get_edge_vert (V4 o0 o1 o2 o3) (V4 f0 f1 f2 f3) 3%nat (n3 + 1)) with (gv o3 f3 (n3 + 1)) in Hstep.
      set (p := 1 + Z.min n1 n3) in *.
      destruct (zloop _ _ _ _ _) as [st|] eqn:El; [|discriminate].
      destruct (rec _ _ _ _ _) as [[tv' vb2]|] eqn:Er; [|discriminate].
      injection Hstep as <- <-.
      unfold nonneg4 in Hnn. cbn [c0 c1 c2 c3] in Hnn.
      assert (HI : Inv k0 k1 o0 o1 o3 n0 n1 n3 f0 f1 f3 p st).
      { replace p with (1 + Z.of_nat (Z.to_nat (p - 1))) at 1 by (unfold p; lia).
        eapply (loop_inv rec Hrec k0 k1 o0 o1 o2 o3 n0 n1 n2 n3 f0 f1 f2 f3 Hnn (Z.to_nat (p - 1)) 1).
        - lia.
        - unfold p. lia.
        - apply (inv_init k0 k1 o0 o1 o3 n0 n1 n2 n3 f0 f1 f2 f3 Hnn).
        - exact El. }
      intros a b.
      exact (final_chain rec Hrec k0 k1 k2 k3 o0 o1 o2 o3 n0 n1 n2 n3 f0 f1 f2 f3 Hnn st tv' vb2 HI Er a b).
  Qed.

  (* PartitionQuad, all sizes: whenever the ported function returns, the boundary
     chain of its triangles is the outline of the quad (and edgeAdded >= 0) *)
  Lemma partition_quad_chain fuel : rec_ok (partition_quad T tlerp fuel).
  Proof.
    induction fuel as [|f IH].
    - intros vb cv eo ea fwd tv vb' H. discriminate.
    - intros vb cv eo ea fwd tv vb' H. rewrite partition_quad_S in H. exact (pq_step_chain _ IH vb cv eo ea fwd tv vb' H).
  Qed.
End RecProof.

Lemma partition_quad_tiles_lemma T tlerp fuel vb cv eo ea fwd tv vb' :
  partition_quad T tlerp fuel vb cv eo ea fwd = Some (tv, vb') ->
  ceq (boundaries tv) (contour (qoutline cv eo ea fwd)).
Proof.
  intros H a b. rewrite W_contour. exact (proj2 (partition_quad_chain T tlerp fuel vb cv eo ea fwd tv vb' H) a b).
Qed.
