(* Second, more general executable Gallina port of the integer (topological)
   part of Manifold::Impl::Subdivide (src/subdivision.cpp, `Subdivide` and
   GetNeighbor / GetHalfedges / GetIndices / FillRetainedVerts), covering
     (i)  meshes WITH marked quads (IsMarkedInsideQuad true on some halfedges),
     (ii) keepInterior = true (the `Added(hIdx)` adjustment of edgeAdded),
     (iii) the `newTris > INT_MAX / 3` early exit (Error::ResultTooLarge).
   SubdivideDefs.v is the restricted model (no marked quads, keepInterior =
   false, no early exit); its definitions are reused here.
   Model only: no proofs here (see SubdivideQuadModel.v).

   INPUT.  `numVert`, the triangle list `tris` (halfedge 3t+i starts at the i-th
   vertex of triangle t and ends at the next one: `he`), and the oracles
     added u v        (u < v) edgeDivisions(...) of the edge {u, v}: a geometric /
                      user-callback decision;
     marked x y       IsMarkedInsideQuad of the halfedge x -> y
                      (halfedgeTangent_[h].w == kInsideQuad): data of the input;
                      it is DIRECTED: the C++ reads one flag per halfedge.  That
                      the two halfedges of an edge agree is what ValidTangents()
                      (smoothing.cpp, ported below as `valid_tangents`) checks
                      before Refine calls Subdivide; theorems take it as a
                      hypothesis;
     keepInterior     the flag.

   PAIRING.  No pairing table: `halfedge_.Pair(h)` of h = x -> y is looked up as
   the first halfedge y -> x of the list (`pair_of`); the edge of a halfedge is
   looked up by its end points (min, max) among the forward halfedges
   (`edge_info` of SubdivideDefs.v).  This is the pairing of the C++ whenever
   every directed halfedge is the only one with its end points
   (`halfedges_unique`); other meshes are outside the model: None.  A halfedge
   without partner (Pair = -1) makes the C++ index with -1: None.
   For the same reason `edges[i].halfedgeIdx` of the edge (u, v) is looked up
   as `find_he u v` in the keepInterior block (on the domain that IS the
   halfedgeIdx of the row: SubdivideQuadModel.tmp_edges_find_he).

   NUMBERS.  `minExtra = longest * 0.2 + 1` and the `newTris` bound are double
   arithmetic: ported with PrimFloat like PartitionDefs.v does.  int overflow
   in the keepInterior block is undefined behaviour: None.

   NOT MODELLED: positions, triRef, faceNormal, barycentric VALUES (only the
   owners of the edge vertices: `edge_vert_owners_q`), numProp > 0. *)
From Coq Require Import ZArith List Bool Floats.
From MV Require Import Base.Chain Tri.PartitionDefs Tri.QuadChain Tri.SubdivideDefs.
Import ListNotations.
Local Open Scope Z_scope.

(* ------------------------------------------------------------------ *)
(* halfedges by index                                                   *)

Definition int_ok (z : Z) : bool := (-2147483648 <=? z) && (z <? 2147483648).

(* NextHalfedge / PrevHalfedge (shared.h:33-41), for h >= 0 *)
Definition next_he (h : Z) : Z := if h mod 3 =? 2 then h - 2 else h + 1.
Definition prev_he (h : Z) : Z := if h mod 3 =? 0 then h + 2 else h - 1.

Definition tri_side (t : tri) (i : Z) : Z * Z :=
  let '(v0, v1, v2) := t in
  if i =? 0 then (v0, v1) else if i =? 1 then (v1, v2) else (v2, v0).

(* (Start(h), End(h)); out of range is undefined *)
Definition he (tris : list tri) (h : Z) : option (Z * Z) :=
  match vget tris (h / 3) with Some t => Some (tri_side t (h mod 3)) | None => None end.

(* the first halfedge x -> y, searching triangles t0, t0+1, ... *)
Fixpoint find_he (ts : list tri) (t0 : Z) (x y : Z) : option Z :=
  match ts with
  | [] => None
  | (v0, v1, v2) :: r =>
      if (v0 =? x) && (v1 =? y) then Some (3 * t0)
      else if (v1 =? x) && (v2 =? y) then Some (3 * t0 + 1)
      else if (v2 =? x) && (v0 =? y) then Some (3 * t0 + 2)
      else find_he r (t0 + 1) x y
  end.

Definition oZ_eqb (a : option Z) (b : Z) : bool := match a with Some z => z =? b | None => false end.

Section Quads.
  Variable tris : list tri.
  Variable marked : Z -> Z -> bool.

  Definition num_tri : nat := length tris.
  Definition tri_ids : list Z := zrange num_tri 0 1.
  Definition he_ids : list Z := zrange (3 * num_tri) 0 1.

  (* every halfedge is the first (hence the only) one with its end points: the
     domain of the pairing-by-lookup *)
  Definition halfedges_unique : bool :=
    forallb (fun h => match he tris h with Some (x, y) => oZ_eqb (find_he tris 0 x y) h | None => false end) he_ids.

  (* halfedge_.Pair(h) *)
  Definition pair_of (h : Z) : option Z :=
    match he tris h with Some (x, y) => find_he tris 0 y x | None => None end.

  (* IsMarkedInsideQuad(h) *)
  Definition he_marked (h : Z) : option bool :=
    match he tris h with Some (x, y) => Some (marked x y) | None => None end.

  (* GetNeighbor: -1 no marked side, i the only marked side, -2 several *)
  Definition nb_step (nb i : Z) (m : bool) : Z := if m then (if nb =? -1 then i else -2) else nb.
  Definition get_neighbor (t : Z) : option Z :=
    match he_marked (3 * t), he_marked (3 * t + 1), he_marked (3 * t + 2) with
    | Some m0, Some m1, Some m2 => Some (nb_step (nb_step (nb_step (-1) 0 m0) 1 m1) 2 m2)
    | _, _, _ => None
    end.

  (* GetHalfedges *)
  Definition get_halfedges (t : Z) : option (v4 Z) :=
    match get_neighbor t with
    | None => None
    | Some nb =>
        if 0 <=? nb then
          match pair_of (3 * t + nb) with
          | None => None                                  (* Pair = -1 *)
          | Some pr =>
              if pr / 3 <? t then Some (V4 (-1) (-1) (-1) (-1))   (* only process lower tri index *)
              else
                let h2 := next_he (3 * t + nb) in
                let h3 := next_he h2 in
                let h0 := next_he pr in
                let h1 := next_he h0 in
                Some (V4 h0 h1 h2 h3)
          end
        else Some (V4 (3 * t) (3 * t + 1) (3 * t + 2) (-1))
    end.

  (* GetIndices: (tri, start4, end4) *)
  Definition get_indices (h : Z) : option (Z * Z * Z) :=
    let t := h / 3 in
    let idx := h mod 3 in
    match get_neighbor t with
    | None => None
    | Some nb =>
        if idx =? nb then Some (-1, -1, -1)
        else if nb <? 0 then Some (t, idx, (idx + 1) mod 3)
        else
          match pair_of (3 * t + nb) with
          | None => None
          | Some pr =>
              let next_is := (nb + 1) mod 3 =? idx in
              let '(t', idx') :=
                if pr / 3 <? t then (pr / 3, if next_is then 0 else 1)
                else (t, if next_is then 2 else 3) in
              Some (t', idx', (idx' + 1) mod 4)
          end
    end.

  (* FillRetainedVerts: the assignments vertBary[Start(h)] = (tri, start4) in
     execution order (a later one overwrites an earlier one) *)
  Definition retained_writes : option (list (Z * (Z * Z))) :=
    option_map (@concat _)
      (omap (fun h => match get_indices h, he tris h with
                      | Some (t, s, _), Some (x, _) => Some (if s <? 0 then [] else [(x, (t, s))])
                      | _, _ => None
                      end) he_ids).

  (* Manifold::Impl::ValidTangents (smoothing.cpp); an unpaired halfedge is
     undefined there: false here *)
  Definition valid_tangents : bool :=
    forallb (fun h =>
      match he_marked h, pair_of h with
      | Some inQuad, Some pr =>
          match he_marked pr, he_marked (next_he h), he_marked (prev_he h),
                he_marked (next_he pr), he_marked (prev_he pr) with
          | Some mp, Some m1, Some m2, Some m3, Some m4 =>
              if negb (Bool.eqb inQuad mp) then false
              else if negb inQuad then true
              else negb (m1 || m2 || m3 || m4)
          | _, _, _, _, _ => false
          end
      | _, _ => false
      end) he_ids.

  (* what Subdivide needs of ValidTangents, per triangle: no triangle has two
     marked sides; the marked side of a quad triangle is paired with the
     marked side of a DIFFERENT triangle, whose pair is the first one again *)
  Definition quads_valid : bool :=
    forallb (fun t =>
      match get_neighbor t with
      | None => false
      | Some nb =>
          if nb <? 0 then nb =? -1
          else match pair_of (3 * t + nb) with
               | None => false
               | Some pr => negb (pr / 3 =? t) && oZ_eqb (get_neighbor (pr / 3)) (pr mod 3)
                            && oZ_eqb (pair_of pr) (3 * t + nb)
               end
      end) tri_ids.
End Quads.

(* ------------------------------------------------------------------ *)
(* Subdivide                                                            *)

Section SubdivideQ.
  Variable T : Type.
  Variables tzero tone : T.
  Variable tlerp : T -> T -> Z -> Z -> T.

  Variable numVert : Z.
  Variable tris : list tri.
  Variable added : Z -> Z -> Z.        (* edgeDivisions oracle, called as added first second *)
  Variable marked : Z -> Z -> bool.    (* IsMarkedInsideQuad of the halfedge x -> y *)
  Variable keepInterior : bool.

  (* edgeAdded before the keepInterior block: 0 on marked edges (the flag of the
     FORWARD halfedge u -> v is the one that is read) *)
  Definition eadd0 (u v : Z) : Z := if marked u v then 0 else added u v.

  (* edgeAdded[half2Edge[h]] before the keepInterior block *)
  Definition he_added0 (h : Z) : option Z :=
    match he tris h with Some (x, y) => edge_added_of numVert tris eadd0 x y | None => None end.

  (* one round of the loop in the lambda `Added`; state (hIdx, longest, total, broke) *)
  Definition keep_step (s : option (Z * Z * Z * bool)) : option (Z * Z * Z * bool) :=
    match s with
    | None => None
    | Some (h, lg, tot, true) => s
    | Some (h, lg, tot, false) =>
        match he_added0 h with
        | None => None
        | Some a =>
            let lg' := Z.max lg a in
            let tot' := tot + a in
            if negb (int_ok tot') then None
            else
              let h' := next_he h in
              match he_marked tris marked h' with
              | None => None
              | Some true => Some (h', 0, 1, true)      (* No extra on quads *)
              | Some false => Some (h', lg', tot', false)
              end
        end
    end.

  (* the lambda `Added(hIdx)` with the captured `thisAdded` *)
  Definition keep_added (thisAdded h : Z) : option Z :=
    match keep_step (keep_step (keep_step (Some (h, 0, 0, false)))) with
    | None => None
    | Some (_, lg, tot, _) =>
        (* const int minExtra = longest * 0.2 + 1;  double arithmetic, truncated;
           0x1.999999999999ap-3 is the double literal 0.2 *)
        match f_to_int (PrimFloat.add (PrimFloat.mul (f_of_Z lg) 0x1.999999999999ap-3%float) 1%float) with
        | None => None
        | Some minExtra =>
            let e1 := 2 * lg in
            let e2 := e1 + minExtra in
            let extra := e2 - tot in
            if negb (int_ok e1 && int_ok e2 && int_ok extra) then None
            else if lg =? 0 then Some 0
            else if 0 <? extra then
              let d := lg - thisAdded in
              let pr := extra * d in
              if negb (int_ok d && int_ok pr) then None
              else Some (Z.quot pr lg)
            else Some 0
        end
    end.

  (* tmp[i] of the edge (u, v), u < v *)
  Definition keep_adjusted (u v : Z) : option Z :=
    if marked u v then Some (eadd0 u v)
    else
      match find_he tris 0 u v with
      | None => None
      | Some h =>
          match pair_of tris h with
          | None => None
          | Some pr =>
              match keep_added (eadd0 u v) h, keep_added (eadd0 u v) pr with
              | Some a1, Some a2 =>
                  let r := eadd0 u v + Z.max a1 a2 in
                  if int_ok r then Some r else None
              | _, _ => None
              end
          end
      end.

  (* edgeAdded after the keepInterior block, as a function of the edge *)
  Definition eadd (u v : Z) : Z :=
    if keepInterior then match keep_adjusted u v with Some z => z | None => 0 end
    else eadd0 u v.

  (* nothing undefined happened in the keepInterior block *)
  Definition keep_defined : bool :=
    if keepInterior
    then forallb (fun '(u, v, _) => match keep_adjusted u v with Some _ => true | None => false end)
                 (tmp_edges tris)
    else true.

  (* the final edge table is SubdivideDefs.edge_table for the oracle `eadd` *)
  Definition edge_added_list_q : list Z := edge_added_list tris eadd.
  Definition edge_offset_list_q : list Z := edge_offset_list numVert tris eadd.
  Definition total_edge_added_q : Z := total_edge_added tris eadd.

  (* (edgeAdded, edgeOffset)[half2Edge[h]] *)
  Definition he_info (h : Z) : option (Z * Z) :=
    match he tris h with Some (x, y) => edge_info numVert tris eadd x y | None => None end.

  Definition faces : option (list (v4 Z)) := omap (get_halfedges tris marked) (tri_ids tris).

  (* ---------------------------------------------------------------- *)
  (* the bound on the size of the result (before the keepInterior block) *)

  Definition face_n (hs : v4 Z) : option float :=
    fold_left (fun (acc : option float) (h : Z) =>
                 match acc with
                 | None => None
                 | Some n =>
                     if h <? 0 then Some n
                     else match he_added0 h with
                          | Some a => Some (f_max n (PrimFloat.add (f_of_Z a) 1%float))
                          | None => None
                          end
                 end) (list4 hs) (Some 1%float).

  Definition new_tris : option float :=
    match faces with
    | None => None
    | Some fs =>
        fold_left (fun (acc : option float) (hs : v4 Z) =>
                     match acc, face_n hs with
                     | Some s, Some n => Some (PrimFloat.add s (PrimFloat.mul (PrimFloat.mul 2%float n) n))
                     | _, _ => None
                     end) fs (Some 0%float)
    end.

  (* newTris > std::numeric_limits<int>::max() / 3 *)
  Definition too_large : option bool :=
    match new_tris with Some s => Some (PrimFloat.ltb (f_of_Z 715827882) s) | None => None end.

  (* ---------------------------------------------------------------- *)
  (* subTris, offsets, the Reindex loop                                  *)

  Definition face_divisions (hs : v4 Z) : option (v4 Z) :=
    let d (h : Z) := if h <? 0 then Some 0
                     else match he_info h with Some (n, _) => Some (n + 1) | None => None end in
    match d (c0 hs), d (c1 hs), d (c2 hs), d (c3 hs) with
    | Some d0, Some d1, Some d2, Some d3 => Some (V4 d0 d1 d2 d3)
    | _, _, _, _ => None
    end.

  Definition face_part (t : Z) : option (partition T) :=
    match get_halfedges tris marked t with
    | None => None
    | Some hs =>
        match face_divisions hs with
        | None => None
        | Some d => get_partition T tzero tone tlerp d
        end
    end.

  Definition face_parts : option (list (partition T)) := omap face_part (tri_ids tris).

  Definition interior_offset_list_q (ps : list (partition T)) : list Z :=
    interior_offset_list T numVert tris eadd ps.

  (* (tri3[i], edgeOffsets[i], edgeFwd[i]) *)
  Definition face_arg (h : Z) : option (Z * Z * bool) :=
    if h <? 0 then Some (-1, 0, false)
    else match he tris h, he_info h with
         | Some (x, y), Some (_, o) => Some (x, o, x <? y)
         | _, _ => None
         end.

  Definition face_out (t : Z) (p : partition T) (io : Z) : option (list tri) :=
    match get_halfedges tris marked t with
    | None => None
    | Some hs =>
        if c0 hs <? 0 then Some []      (* if (halfedges[0] < 0) return; *)
        else
          match face_arg (c0 hs), face_arg (c1 hs), face_arg (c2 hs), face_arg (c3 hs) with
          | Some (a0, o0, f0), Some (a1, o1, f1), Some (a2, o2, f2), Some (a3, o3, f3) =>
              reindex T p (V4 a0 a1 a2 a3) (V4 o0 o1 o2 o3) (V4 f0 f1 f2 f3) io
          | _, _, _, _ => None
          end
    end.

  Fixpoint reindex_faces (ts : list Z) (ps : list (partition T)) (ios : list Z) : option (list tri) :=
    match ts, ps, ios with
    | [], _, _ => Some []
    | t :: ts', p :: ps', io :: ios' =>
        match face_out t p io, reindex_faces ts' ps' ios' with
        | Some rt, Some r => Some (rt ++ r)
        | _, _ => None
        end
    | _, _, _ => None
    end.

  (* triVerts handed to CreateHalfedges; [] after MakeEmpty(ResultTooLarge) *)
  Definition subdivide_tris_q : option (list tri) :=
    if negb (edges_distinct tris && halfedges_unique tris) then None       (* outside the model *)
    else if is_empty tris || is_empty (tmp_edges tris) then None           (* .back() of an empty Vec *)
    else match too_large with
         | None => None
         | Some true => Some []
         | Some false =>
             if negb keep_defined then None
             else match face_parts with
                  | None => None
                  | Some ps => reindex_faces (tri_ids tris) ps (interior_offset_list_q ps)
                  end
         end.

  (* NumVert() afterwards *)
  Definition subdivide_numvert_q : option Z :=
    match too_large with
    | None => None
    | Some true => Some 0
    | Some false =>
        if negb keep_defined then None
        else match face_parts with
             | None => None
             | Some ps => scan_end (numVert + total_edge_added_q) (num_interior_list T ps)
             end
    end.

  (* the n new vertices of edge i: offset + k |-> GetIndices(edges[i].halfedgeIdx);
     nothing is written for the inside of a quad (indices.tri < 0) *)
  Definition edge_vert_owners_q : option (list (Z * (Z * Z * Z))) :=
    option_map (@concat _)
      (omap (fun '(_, _, h, n, o) =>
               match get_indices tris marked h with
               | None => None
               | Some (t, s, e) =>
                   Some (if t <? 0 then []
                         else map (fun k => (o + k, (t, s, e))) (zrange (Z.to_nat n) 0 1))
               end) (edge_table numVert tris eadd)).
End SubdivideQ.
