(* Tri/EarClipTerm.v — termination and absence of undefined behaviour: with enough fuel the
   ported Triangulate returns a state for every oracle (no out-of-range iterator, no push_back
   beyond the reserved capacity, Loop and ClipIfDegenerate terminate). *)
From Coq Require Import ZArith List Bool Arith Lia Permutation.
From MV Require Import Base.Chain Tri.EarClipDefs Tri.EarClipModel Tri.EarClipInit Tri.EarClipRings.
Import ListNotations.

Lemma setR_some st v r : v < size st -> exists st', setR st v r = Some st'.
Proof. intros H. unfold setR, bind. rewrite (getV_some st v H). eauto. Qed.
Lemma setL_some st v l : v < size st -> exists st', setL st v l = Some st'.
Proof. intros H. unfold setL, bind. rewrite (getV_some st v H). eauto. Qed.
Lemma link_some st l r : l < size st -> r < size st -> exists st', link st l r = Some st'.
Proof.
  intros Hl Hr. unfold link, bind. destruct (setR_some st l r Hl) as (st1 & E1). rewrite E1.
  apply setR_inv in E1. destruct E1 as (_ & Hs & _). apply setL_some. rewrite Hs. exact Hr.
Qed.
Lemma getM_some st v : v < size st -> getM st v = Some (Mf st v).
Proof. intros H. unfold getM. rewrite (getV_some st v H). reflexivity. Qed.

Lemma clipEar_some st e : Inv st -> e < size st -> exists st', clipEar st e = Some st'.
Proof.
  intros I He. unfold clipEar, bind. rewrite (getL_some st e He), (getR_some st e He).
  destruct (I_bound st I e He) as [Hl Hr].
  destruct (link_some st _ _ Hl Hr) as (st1 & E1). rewrite E1.
  apply link_inv in E1. destruct E1 as (_ & _ & Hs & _).
  rewrite (getM_some st1 (Lf st e) ltac:(lia)), (getM_some st1 e ltac:(lia)), (getM_some st1 (Rf st e) ltac:(lia)).
  destruct (_ && _); eauto.
Qed.

Lemma ring_len_le st rid ring k : GInv st rid ring -> length (ring k) <= size st.
Proof.
  intros G. destruct (GI_cyc _ _ _ G k) as (Hn & He & _).
  rewrite <- (seq_length (size st) 0). apply NoDup_incl_length; [exact Hn|].
  intros v Hv. apply in_seq. destruct (He v Hv). lia.
Qed.

Section Total.
Variable orc : Oracle.

Lemma clipIfDegenerate_some fuel : forall st rid ring e,
  GInv st rid ring -> e < size st -> length (ring (rid e)) < fuel ->
  exists st', clipIfDegenerate orc fuel st e = Some st'.
Proof.
  induction fuel as [|f IH]; intros st rid ring e G He Hf; [lia|].
  pose proof (GI_inv _ _ _ G) as I. destruct (I_bound st I e He) as [Hl Hr].
  cbn [clipIfDegenerate]. unfold bind. rewrite (clipped_some st e He Hr).
  destruct (live st e) eqn:Hlv; cbn [negb]; [|eauto].
  rewrite (getL_some st e He), (getR_some st e He).
  destruct (Nat.eqb_spec (Lf st e) (Rf st e)) as [|Hne]; [eauto|].
  destruct (o_degen orc st e); [|eauto].
  destruct (clipEar_some st e I He) as (st1 & E1). rewrite E1.
  destruct (clipEar_ring st rid ring e st1 G He Hlv Hne E1) as (ring1 & G1 & F1 & M1 & L1).
  pose proof (clipEar_size st e st1 E1) as Hs1.
  rewrite (getL_some st1 e ltac:(lia)).
  destruct (GI_lab _ _ _ G1 e ltac:(lia)) as [LabR LabL].
  destruct (I_bound st1 (GI_inv _ _ _ G1) e ltac:(lia)) as [Hl1 Hr1].
  destruct (IH st1 rid ring1 (Lf st1 e) G1 Hl1) as (st2 & E2); [rewrite LabL; lia|]. rewrite E2.
  destruct (clipIfDegenerate_ring orc f st1 rid ring1 _ st2 G1 E2) as (_ & _ & Hs2 & ring2 & G2 & (_ & _ & Hlen2 & _)).
  rewrite LabL in Hlen2.
  rewrite (getR_some st2 e ltac:(lia)).
  destruct (GI_lab _ _ _ G2 e ltac:(lia)) as [LabR2 _].
  destruct (I_bound st2 (GI_inv _ _ _ G2) e ltac:(lia)) as [_ Hr2].
  apply (IH st2 rid ring2 (Rf st2 e) G2 Hr2). rewrite LabR2. lia.
Qed.

Lemma sweep_some fuel : forall vs st rid ring,
  GInv st rid ring -> (forall v, In v vs -> v < size st) -> size st < fuel ->
  exists st', sweep orc fuel st vs = Some st'.
Proof.
  induction vs as [|v t IH]; intros st rid ring G Hb Hf; cbn [sweep]; [eauto|]. unfold bind.
  destruct (clipIfDegenerate_some fuel st rid ring v G (Hb v (or_introl eq_refl))) as (st1 & E1).
  { pose proof (ring_len_le st rid ring (rid v) G). lia. }
  rewrite E1. destruct (clipIfDegenerate_ring orc fuel st rid ring v st1 G E1) as (_ & _ & Hs & ring1 & G1 & _).
  apply (IH st1 rid ring1 G1); [intros w Hw; rewrite Hs; apply Hb; right; exact Hw|lia].
Qed.

(* Loop *)
Lemma loop_go_normal_some st rid k f t :
  Inv st -> Cyc st rid k (f :: t) -> 3 <= length (f :: t) ->
  forall suf pre acc fuel, f :: t = pre ++ suf -> suf <> [] -> length suf <= fuel ->
  loop_go fuel st f (hd 0 suf) acc = Some (acc ++ suf, Some f).
Proof.
  intros I Hc Hlen. induction suf as [|v suf' IH]; intros pre acc fuel E Hne Hfu; [congruence|].
  destruct fuel as [|fu]; [cbn in Hfu; lia|]. cbn [hd]. cbn [loop_go].
  pose proof Hc as (Hnd & Hel & Hp). cbn [hd] in Hp.
  assert (Hvin : In v (f :: t)) by (rewrite E; apply in_or_app; right; left; reflexivity).
  destruct (Hel v Hvin) as (Hv & _ & Hlv). destruct (I_bound st I v Hv) as [Hlb Hrb].
  rewrite (clipped_some st v Hv Hrb), Hlv. cbn [negb bind].
  rewrite (getR_some st v Hv), (getL_some st v Hv). cbn [bind].
  pose proof (Cyc_big st rid k (f :: t) v I Hc Hvin Hlen) as Hbig.
  destruct (Nat.eqb_spec (Rf st v) (Lf st v)) as [Eq|_]; [congruence|].
  cbn [bind]. rewrite (getR_some st v Hv). cbn [bind].
  rewrite E in Hp. rewrite <- app_assoc in Hp. cbn [app] in Hp.
  destruct suf' as [|w suf''].
  - cbn [app] in Hp. pose proof (rpath_next _ _ _ _ _ Hp) as HR. rewrite HR, Nat.eqb_refl. reflexivity.
  - cbn [app] in Hp. pose proof (rpath_next _ _ _ _ _ Hp) as HR. rewrite HR.
    assert (Hwf : w <> f).
    { assert (Hwt : In w t).
      { destruct pre as [|a pre']; cbn [app] in E; injection E as _ Et; rewrite Et.
        - left; reflexivity.
        - apply in_or_app. right. right. left. reflexivity. }
      intros Ew. apply NoDup_cons_iff in Hnd. destruct Hnd as [Hn _]. apply Hn. rewrite <- Ew. exact Hwt. }
    destruct (Nat.eqb_spec w f) as [|_]; [contradiction|].
    assert (Hi : loop_go fu st f (hd 0 (w :: suf'')) (acc ++ [v]) = Some ((acc ++ [v]) ++ w :: suf'', Some f)).
    { apply (IH (pre ++ [v]) (acc ++ [v]) fu); [rewrite <- app_assoc; exact E|discriminate|cbn [length] in *; lia]. }
    cbn [hd] in Hi. rewrite Hi, <- app_assoc. reflexivity.
Qed.

Lemma loop_go_some st rid ring (G : GInv st rid ring) ct
  (Hct : forall v, v < size st -> live st v = false ->
           ct v < nclip st /\ (live st (Rf st v) = true \/ ct v < ct (Rf st v))) fuel :
  forall first v, v < size st ->
  (live st v = true -> first = v /\ size st < fuel) ->
  (live st v = false -> nclip st + size st + 2 <= fuel + ct v) ->
  exists r, loop_go fuel st first v [] = Some r.
Proof.
  pose proof (GI_inv _ _ _ G) as I.
  induction fuel as [|fu IH]; intros first v Hv Hlive Hclip.
  { exfalso. destruct (live st v) eqn:Hl; [destruct (Hlive eq_refl); lia|].
    destruct (Hct v Hv Hl). specialize (Hclip eq_refl). lia. }
  destruct (I_bound st I v Hv) as [Hlb Hrb].
  destruct (live st v) eqn:Hlv.
  - destruct (Hlive eq_refl) as [-> Hfu].
    pose proof (GI_cov _ _ _ G v Hv Hlv) as Hin.
    destruct (Nat.le_gt_cases (length (ring (rid v))) 2) as [Hsm|Hbig].
    + cbn [loop_go]. rewrite (clipped_some st v Hv Hrb), Hlv. cbn [negb bind].
      rewrite (getR_some st v Hv), (getL_some st v Hv). cbn [bind].
      destruct (Cyc_small st rid _ _ v I (GI_cyc _ _ _ G _) Hin Hsm) as [Eq _].
      rewrite Eq, Nat.eqb_refl. cbn [bind]. eauto.
    + destruct (Cyc_front _ _ _ _ _ (GI_cyc _ _ _ G (rid v)) Hin) as (t & Hc & _ & Hlen).
      pose proof (ring_len_le st rid ring (rid v) G).
      assert (Hi : loop_go (S fu) st v (hd 0 (v :: t)) [] = Some ([] ++ v :: t, Some v)).
      { apply (loop_go_normal_some st rid (rid v) v t I Hc ltac:(lia) (v :: t) [] [] (S fu) eq_refl ltac:(discriminate)). lia. }
      cbn [hd] in Hi. rewrite Hi. eauto.
  - specialize (Hclip eq_refl). destruct (Hct v Hv Hlv) as [Hctv Hnext].
    cbn [loop_go]. rewrite (clipped_some st v Hv Hrb), Hlv. cbn [negb bind].
    rewrite (getR_some st v Hv). cbn [bind]. rewrite (getL_some st _ Hrb). cbn [bind].
    set (y := Rf st v) in *. set (fl := Lf st y) in *.
    destruct (I_bound st I y Hrb) as [Hfl Hry]. destruct (I_bound st I fl Hfl) as [Hlfl Hrfl].
    rewrite (clipped_some st fl Hfl Hrfl). cbn [bind].
    destruct (live st fl) eqn:Hlf; cbn [negb].
    + rewrite (getR_some st fl Hfl), (getL_some st fl Hfl). cbn [bind].
      pose proof (GI_cov _ _ _ G fl Hfl Hlf) as Hin.
      destruct (Nat.le_gt_cases (length (ring (rid fl))) 2) as [Hsm|Hbig].
      * destruct (Cyc_small st rid _ _ fl I (GI_cyc _ _ _ G _) Hin Hsm) as [Eq _].
        rewrite Eq, Nat.eqb_refl. cbn [bind]. eauto.
      * pose proof (Cyc_big st rid _ _ fl I (GI_cyc _ _ _ G _) Hin ltac:(lia)) as Hne.
        destruct (Nat.eqb_spec (Rf st fl) (Lf st fl)) as [Eq|_]; [congruence|].
        cbn [bind]. rewrite (getR_some st fl Hfl). cbn [bind].
        assert (Hnself : Rf st fl <> fl).
        { intros Eq. apply Hne. apply live_spec in Hlf. rewrite Eq in Hlf. congruence. }
        destruct (Nat.eqb_spec (Rf st fl) fl) as [|_]; [contradiction|].
        destruct (Cyc_front _ _ _ _ _ (GI_cyc _ _ _ G (rid fl)) Hin) as (t & Hc & _ & Hlen).
        pose proof (Cyc_succ _ _ _ _ _ Hc) as Hs.
        destruct t as [|w t']; [cbn [length] in Hlen; lia|]. cbn [hd] in Hs.
        pose proof (ring_len_le st rid ring (rid fl) G).
        rewrite Hs.
        assert (Hi : loop_go fu st fl (hd 0 (w :: t')) ([] ++ [fl]) = Some (([] ++ [fl]) ++ w :: t', Some fl)).
        { apply (loop_go_normal_some st rid (rid fl) fl (w :: t') I Hc ltac:(lia) (w :: t') [fl] ([] ++ [fl]) fu eq_refl ltac:(discriminate)).
          cbn [length] in *. lia. }
        cbn [hd] in Hi. rewrite Hi. eauto.
    + cbn [bind]. rewrite (getR_some st v Hv). cbn [bind]. fold y.
      destruct (Nat.eqb_spec y fl) as [E|_].
      { exfalso. unfold fl in E. symmetry in E. pose proof (I_self st I y Hrb E) as Hy.
        fold fl in E. rewrite <- E in Hy. congruence. }
      assert (Hyl : live st y = false).
      { destruct (live st y) eqn:Hy; [|reflexivity]. pose proof (Inv_llive st y I Hrb Hy) as Hc. fold fl in Hc. congruence. }
      destruct Hnext as [Hn|Hn]; [fold y in Hn; congruence|]. fold y in Hn.
      apply (IH fl y Hrb); [intros Hc; congruence|intros _; lia].
Qed.

Lemma loop_some fuel st rid ring first :
  GInv st rid ring -> first < size st -> nclip st + size st + 2 <= fuel ->
  exists r, loop fuel st first = Some r.
Proof.
  intros G Hf Hfu. destruct (GI_ct _ _ _ G) as (ct & Hct).
  apply (loop_go_some st rid ring G ct Hct fuel first first Hf); intros; [split; [reflexivity|lia]|lia].
Qed.
End Total.

Section Total2.
Variable orc : Oracle.
Variable ids : list Z.
Variable V : nat.
Variable big : Prop.
Variable K : nat.

Lemma Good_nclip st : Good ids V st -> nclip st <= size st.
Proof. intros G. pose proof (G_count _ _ _ G). lia. Qed.

Lemma Step_Good st st' : Step ids V st st' -> nbad st' = 0 -> Good ids V st -> Good ids V st'.
Proof. intros [_ H] Hz G. apply (H Hz G). Qed.

Lemma clipIfDegenerate_cap fuel : forall st e st', clipIfDegenerate orc fuel st e = Some st' -> cap st' = cap st.
Proof.
  induction fuel as [|f IH]; intros st e st' H; [discriminate|].
  cbn [clipIfDegenerate] in H. unfold bind in H.
  destruct (clipped st e) as [c|]; [|discriminate]. destruct c; [inversion H; reflexivity|].
  destruct (getL st e) as [l|]; [|discriminate]. destruct (getR st e) as [r|]; [|discriminate].
  destruct (l =? r); [inversion H; reflexivity|]. destruct (o_degen orc st e); [|inversion H; reflexivity].
  destruct (clipEar st e) as [st1|] eqn:E1; [|discriminate].
  destruct (getL st1 e) as [l1|]; [|discriminate].
  destruct (clipIfDegenerate orc f st1 l1) as [st2|] eqn:E2; [|discriminate].
  destruct (getR st2 e) as [r2|]; [|discriminate].
  pose proof (clipEar_inv st e st1 E1) as Hi. cbv zeta in Hi.
  destruct Hi as (_ & _ & _ & _ & _ & _ & _ & Hc & _).
  rewrite (IH _ _ _ H), (IH _ _ _ E2). exact Hc.
Qed.

Lemma findStart_some fuel st rid ring f :
  GInv st rid ring -> f < size st -> nclip st + size st + 2 <= fuel ->
  exists r, findStart orc fuel st f = Some r.
Proof.
  intros G Hf Hfu. unfold findStart, bind. destruct (loop_some fuel st rid ring f G Hf Hfu) as ([vis res] & E). rewrite E.
  destruct res; [|eauto]. destruct (fold_left _ vis (f, false)) as [s u]. destruct (u && _); eauto.
Qed.

Lemma findStarts_some fuel st rid ring (G : GInv st rid ring) (Hfu : nclip st + size st + 2 <= fuel) :
  forall F H O Sm, (forall f, In f F -> f < size st) -> exists r, findStarts orc fuel st F H O Sm = Some r.
Proof.
  induction F as [|f t IH]; intros H O Sm Hb; cbn [findStarts]; [eauto|]. unfold bind.
  destruct (findStart_some fuel st rid ring f G (Hb f (or_introl eq_refl)) Hfu) as (r & E). rewrite E.
  destruct r; apply IH; intros g Hg; apply Hb; right; exact Hg.
Qed.

Lemma over_outers_some {A} fuel st rid ring (G : GInv st rid ring) (Hfu : nclip st + size st + 2 <= fuel) (f : A -> nat -> A) :
  forall O a, (forall o, In o O -> o < size st) -> exists a', over_outers fuel st O f a = Some a'.
Proof.
  induction O as [|o t IH]; intros a Hb; cbn [over_outers]; [eauto|]. unfold bind.
  destruct (loop_some fuel st rid ring o G (Hb o (or_introl eq_refl)) Hfu) as ([vis res] & E). rewrite E.
  apply IH. intros o' Ho'. apply Hb. right. exact Ho'.
Qed.

Lemma join_prefix_some st s c :
  Inv st -> s < size st -> c < size st -> size st + 2 <= cap st -> exists st6, join_prefix st s c = Some st6.
Proof.
  intros I Hs Hc Hcap. unfold join_prefix, bind.
  destruct (I_bound st I s Hs) as [_ Hrs]. destruct (I_bound st I c Hc) as [Hlc Hrc].
  rewrite (clipped_some st s Hs Hrs), (clipped_some st c Hc Hrc), (getR_some st s Hs).
  set (st0 := addJoin (addBad st _)).
  assert (E0 : size st0 = size st /\ cap st0 = cap st /\ poly st0 = poly st) by (repeat split).
  destruct E0 as (Es0 & Ec0 & Ep0).
  rewrite (getV_some st0 s ltac:(lia)).
  assert (P1 : exists st1, push st0 (nth s (poly st0) dv) = Some st1).
  { unfold push. fold (size st0). destruct (Nat.ltb_spec (size st0) (cap st0)); [eauto|lia]. }
  destruct P1 as (st1 & E1). rewrite E1. pose proof (push_inv _ _ _ E1) as (Hs1 & Hm1 & Hn1).
  rewrite (getV_some st1 c ltac:(lia)).
  assert (Hc1 : cap st1 = cap st0) by (apply Hm1).
  assert (P2 : exists st2, push st1 (nth c (poly st1) dv) = Some st2).
  { unfold push. fold (size st1). destruct (Nat.ltb_spec (size st1) (cap st1)); [eauto|lia]. }
  destruct P2 as (st2 & E2). rewrite E2. pose proof (push_inv _ _ _ E2) as (Hs2 & Hm2 & Hn2).
  rewrite (getR_some st2 s ltac:(lia)).
  assert (HRs : Rf st2 s = Rf st s).
  { unfold Rf. rewrite Hn2. destruct (Nat.eqb_spec s (size st1)); [lia|]. rewrite Hn1. destruct (Nat.eqb_spec s (size st0)); [lia|].
    reflexivity. }
  rewrite HRs.
  destruct (setL_some st2 (Rf st s) (length (poly st0)) ltac:(lia)) as (st3 & E3). rewrite E3.
  pose proof (setL_inv _ _ _ _ E3) as (_ & Hs3 & _ & HL3 & _ & _).
  rewrite (getL_some st3 c ltac:(lia)).
  assert (HLc : Lf st3 c < size st3).
  { rewrite HL3. destruct (Nat.eqb_spec c (Rf st s)); [unfold size in *; lia|].
    unfold Lf. rewrite Hn2. destruct (Nat.eqb_spec c (size st1)); [lia|]. rewrite Hn1. destruct (Nat.eqb_spec c (size st0)); [lia|].
    change (Lf st c < size st3). lia. }
  destruct (setR_some st3 (Lf st3 c) (length (poly st1)) HLc) as (st4 & E4). rewrite E4.
  pose proof (setR_inv _ _ _ _ E4) as (_ & Hs4 & _).
  destruct (link_some st4 s c ltac:(lia) ltac:(lia)) as (st5 & E5). rewrite E5.
  pose proof (link_inv _ _ _ _ E5) as (_ & _ & Hs5 & _).
  apply link_some; unfold size in *; lia.
Qed.

Lemma joinPolygons_some fuel st rid ring s c :
  GInv st rid ring -> s < size st -> c < size st -> live st s = true -> live st c = true -> rid s <> rid c ->
  size st + 2 <= cap st -> size st + 2 < fuel ->
  exists st', joinPolygons orc fuel st s c = Some st'.
Proof.
  intros G Hs Hc Ls Lc Hk Hcap Hfu. rewrite joinPolygons_factor. unfold bind.
  destruct (join_prefix_some st s c (GI_inv _ _ _ G) Hs Hc Hcap) as (st6 & E6). rewrite E6.
  pose proof (join_prefix_closed st s c st6 E6) as Hcl. cbv zeta in Hcl.
  destruct Hcl as (_ & _ & Hsz & _ & _ & Hncl & _ & Hcf).
  assert (Hsrc : Rf st s <> c).
  { intros E. destruct (GI_lab _ _ _ G s Hs) as [A _]. rewrite E in A. congruence. }
  destruct (Hcf Hsrc) as [HR HL].
  destruct (jr_ex st s c rid ring G Hs Hc Ls Lc) as (ts & tc & Cs & Cc & Ms & Mc & _ & _).
  pose proof (jr_GInv st st6 s c rid ring G Hs Hc Ls Lc Hk Hsz HR HL Hncl ts tc Cs Cc Ms Mc) as G6.
  destruct (clipIfDegenerate_some orc fuel st6 _ _ s G6 ltac:(lia)) as (st7 & E7).
  { pose proof (ring_len_le _ _ _ (rid6 st s c rid s) G6). lia. }
  rewrite E7. destruct (clipIfDegenerate_ring orc fuel _ _ _ _ _ G6 E7) as (_ & _ & S7 & r7 & G7 & _).
  destruct (clipIfDegenerate_some orc fuel st7 _ r7 (size st) G7 ltac:(lia)) as (st8 & E8).
  { pose proof (ring_len_le _ _ _ (rid6 st s c rid (size st)) G7). lia. }
  rewrite E8. destruct (clipIfDegenerate_ring orc fuel _ _ _ _ _ G7 E8) as (_ & _ & S8 & r8 & G8 & _).
  destruct (clipIfDegenerate_some orc fuel st8 _ r8 c G8 ltac:(lia)) as (st9 & E9).
  { pose proof (ring_len_le _ _ _ (rid6 st s c rid c) G8). lia. }
  rewrite E9. destruct (clipIfDegenerate_ring orc fuel _ _ _ _ _ G8 E9) as (_ & _ & S9 & r9 & G9 & _).
  apply (clipIfDegenerate_some orc fuel st9 _ r9 (S (size st)) G9 ltac:(lia)).
  pose proof (ring_len_le _ _ _ (rid6 st s c rid (S (size st))) G9). lia.
Qed.

Lemma joinPolygons_cap fuel st s c st' : joinPolygons orc fuel st s c = Some st' -> cap st' = cap st.
Proof.
  intros H. destruct (joinPolygons_closed orc fuel st s c st' H) as (_ & _ & st6 & st7 & st8 & st9 & _ & _ & _ & _ & Hc & _ & E7 & E8 & E9 & E10).
  rewrite (clipIfDegenerate_cap _ _ _ _ E10), (clipIfDegenerate_cap _ _ _ _ E9), (clipIfDegenerate_cap _ _ _ _ E8), (clipIfDegenerate_cap _ _ _ _ E7).
  exact Hc.
Qed.

Lemma cutKeyhole_some fuel st rid ring H O Sm h :
  GInv st rid ring -> BookF big K st rid ring [] (h :: H) O Sm ->
  size st + 2 <= cap st -> nclip st + size st + 4 <= fuel ->
  exists r, cutKeyhole orc fuel st O h = Some r.
Proof.
  intros G B Hcap Hfu. destruct B as [_ _ Bh Bn Bd Bo Bs Bc _].
  destruct (Bh h (or_introl eq_refl)) as [Hh Hlh].
  set (Q := fun v => v < size st /\ live st v = true /\ In (rid v) (map rid Sm)).
  assert (HQ : forall o v, In o O -> In v (ring (rid o)) -> Q v).
  { intros o v Ho Hv. destruct (GInv_in_live _ _ _ _ _ G Hv) as (A & B & C). destruct (Bo o Ho) as [_ D].
    split; [exact A|]. split; [exact C|]. rewrite B. exact D. }
  assert (HOb : forall o, In o O -> o < size st) by (intros o Ho; apply (Bo o Ho)).
  unfold cutKeyhole, bind.
  destruct (over_outers_some fuel st rid ring G ltac:(lia) (fun c e => if o_conn orc st h c e then Some e else c) O None HOb) as (conn & Ec).
  rewrite Ec.
  assert (Hconn : match conn with None => True | Some e => Q e end).
  { refine (over_outers_pred fuel st rid ring G Q (fun c => match c with None => True | Some e => Q e end) _ _ O None conn HOb HQ Logic.I Ec).
    intros a v Ha Hv. destruct (o_conn orc st h a v); [exact Hv|exact Ha]. }
  destruct conn as [edge|]; [|eauto].
  assert (Hc0 : exists c0, (if o_bridge0 orc st h edge then getR st edge else Some edge) = Some c0 /\ Q c0).
  { destruct Hconn as (A & B & C). destruct (o_bridge0 orc st h edge).
    - exists (Rf st edge). split; [apply getR_some; exact A|]. pose proof (GI_inv _ _ _ G) as I.
      split; [apply (I_bound st I edge A)|]. split; [apply (I_rlive st I edge A B)|].
      destruct (GI_lab _ _ _ G edge A) as [L _]. rewrite L. exact C.
    - exists edge. split; [reflexivity|]. split; auto. }
  destruct Hc0 as (c0 & E0 & Hc0). rewrite E0.
  assert (Hc1 : exists c1, (if o_bridge_early orc st h c0 then Some c0
                            else over_outers fuel st O (fun c v => if o_bridge orc st h edge c v then v else c) c0) = Some c1 /\ Q c1).
  { destruct (o_bridge_early orc st h c0).
    - exists c0. auto.
    - destruct (over_outers_some fuel st rid ring G ltac:(lia) (fun c v => if o_bridge orc st h edge c v then v else c) O c0 HOb) as (c1 & E1).
      exists c1. split; [exact E1|].
      refine (over_outers_pred fuel st rid ring G Q Q _ _ O c0 c1 HOb HQ Hc0 E1).
      intros a v Ha Hv. destruct (o_bridge orc st h edge a v); [exact Hv|exact Ha]. }
  destruct Hc1 as (c1 & E1 & (Hc1b & Hc1l & Hc1S)). rewrite E1.
  assert (Hk : rid h <> rid c1).
  { intros Eq. apply in_map_iff in Hc1S. destruct Hc1S as (x & Hx1 & Hx2).
    apply (Bd h x (or_introl eq_refl) Hx2). congruence. }
  destruct (joinPolygons_some fuel st rid ring h c1 G Hh Hc1b Hlh Hc1l Hk Hcap ltac:(lia)) as (st1 & Ej).
  rewrite Ej. eauto.
Qed.
End Total2.

Section Total3.
Variable orc : Oracle.
Variable ids : list Z.
Variable V : nat.
Variable big : Prop.
Variable K : nat.

Lemma cutKeyhole_cap fuel st O h st' lost : cutKeyhole orc fuel st O h = Some (st', lost) -> cap st' = cap st.
Proof.
  unfold cutKeyhole, bind. destruct (over_outers fuel st O _ None) as [[edge|]|]; [| |discriminate].
  - destruct (if o_bridge0 orc st h edge then getR st edge else Some edge) as [c0|]; [|discriminate].
    destruct (if o_bridge_early orc st h c0 then Some c0 else _) as [c1|]; [|discriminate].
    destruct (joinPolygons orc fuel st h c1) as [st1|] eqn:E; [|discriminate].
    intros H; inversion H; subst. apply (joinPolygons_cap orc _ _ _ _ _ E).
  - intros H; inversion H; subst. reflexivity.
Qed.

Lemma cutKeyholes_some fuel O : forall H st rid ring Sm,
  GInv st rid ring -> BookF big K st rid ring [] H O Sm -> Good ids V st -> nbad st = 0 ->
  size st + 2 * length H <= cap st -> 2 * cap st + 4 <= fuel ->
  exists r, cutKeyholes orc fuel st O H Sm = Some r.
Proof.
  induction H as [|h t IH]; intros st rid ring Sm G B Gd Hz Hcap Hfu; cbn [cutKeyholes]; [eauto|]. unfold bind.
  pose proof (Good_nclip ids V st Gd) as Hnc. cbn [length] in Hcap.
  destruct (cutKeyhole_some orc big K fuel st rid ring t O Sm h G B ltac:(lia) ltac:(lia)) as ([st1 lost] & Ek). rewrite Ek.
  destruct (cutKeyhole_ring orc big K fuel st rid ring t O Sm h st1 lost G B Ek) as (A1 & A2 & A3 & A4 & rid1 & ring1 & G1 & B1).
  pose proof (cutKeyhole_cap fuel st O h st1 lost Ek) as Hc1.
  apply (IH st1 rid1 ring1 _ G1 B1).
  - apply (Step_Good ids V st st1 (cutKeyhole_step orc ids V _ _ _ _ _ _ Ek)); [lia|exact Gd].
  - lia.
  - lia.
  - lia.
Qed.

Lemma clip_loop_some : forall j st rid ring q v k,
  GInv st rid ring -> length (ring k) = j + 2 ->
  (forall x, In x q -> In x (ring k)) -> In v (ring k) ->
  exists st', clip_loop orc j st q v = Some st'.
Proof.
  induction j as [|j IH]; intros st rid ring q v k G Hlen Hq Hv; cbn [clip_loop]; [eauto|].
  set (eq1 := match q with
              | [] => (v, q)
              | h :: _ => (nth (o_pick orc st q) q h, remove Nat.eq_dec (nth (o_pick orc st q) q h) q)
              end).
  destruct eq1 as [e q1] eqn:Eeq. unfold bind.
  assert (Hel : In e (ring k) /\ (forall x, In x q1 -> In x (ring k) /\ x <> e)).
  { unfold eq1 in Eeq. destruct q as [|h t].
    - inversion Eeq; subst. split; [exact Hv|]. intros x [].
    - set (ee := nth (o_pick orc st (h :: t)) (h :: t) h) in *.
      assert (He' : e = ee) by congruence.
      assert (Hq1' : q1 = remove Nat.eq_dec ee (h :: t)) by congruence.
      assert (Hin : In ee (h :: t)).
      { unfold ee. destruct (Nat.lt_ge_cases (o_pick orc st (h :: t)) (length (h :: t))) as [Hlt|Hge].
        - apply nth_In. exact Hlt.
        - rewrite nth_overflow by exact Hge. left; reflexivity. }
      rewrite He'. split; [apply Hq; exact Hin|].
      intros x Hx. rewrite Hq1' in Hx. apply in_remove in Hx. destruct Hx as [Hx Hxe].
      split; [apply Hq; exact Hx|exact Hxe]. }
  destruct Hel as [Hein Hq1].
  destruct (GInv_in_live _ _ _ _ _ G Hein) as (He & Hke & Hle).
  pose proof (GI_inv _ _ _ G) as I.
  pose proof (Cyc_big st rid k (ring k) e I (GI_cyc _ _ _ G k) Hein ltac:(lia)) as Hne.
  rewrite (getL_some st e He), (getR_some st e He).
  destruct (Nat.eqb_spec (Lf st e) (Rf st e)) as [|_]; [contradiction|]. rewrite addBad_false.
  destruct (clipEar_some st e I He) as (st1 & Ec). rewrite Ec.
  pose proof (clipEar_inv st e st1 Ec) as Hci. cbv zeta in Hci.
  destruct Hci as (_ & Hlb & Hrb & Hs1 & HR & HL & _).
  destruct (clipEar_ring st rid ring e st1 G He Hle Hne Ec) as (ring1 & G1 & F1 & M1 & L1). rewrite Hke in *.
  pose proof (clipEar_live st e st1 I Hle Hne Ec) as Hlive.
  destruct (ear_distinct st e I He Hle Hne) as (Hl_e & Hr_e & Hrl & Hlr).
  assert (He1 : e < size st1) by lia.
  rewrite (getL_some st1 e He1), (getR_some st1 e He1).
  assert (HL1 : Lf st1 e = Lf st e).
  { rewrite HL. destruct (Nat.eqb_spec e (Rf st e)); [congruence|reflexivity]. }
  assert (HR1 : Rf st1 e = Rf st e).
  { rewrite HR. destruct (Nat.eqb_spec e (Lf st e)); [congruence|reflexivity]. }
  rewrite HL1, HR1.
  destruct (GI_lab _ _ _ G e He) as [Labr Labl].
  assert (Hlin : In (Lf st e) (ring1 k)).
  { rewrite <- Hke, <- Labl. apply (GI_cov _ _ _ G1); [lia|]. rewrite Hlive.
    destruct (Nat.eqb_spec (Lf st e) e); [congruence|]. apply (Inv_llive st e I He Hle). }
  assert (Hrin : In (Rf st e) (ring1 k)).
  { rewrite <- Hke, <- Labr. apply (GI_cov _ _ _ G1); [lia|]. rewrite Hlive.
    destruct (Nat.eqb_spec (Rf st e) e); [congruence|]. apply (I_rlive st I e He Hle). }
  apply (IH st1 rid ring1 _ (Rf st e) k G1 ltac:(lia)); [|exact Hrin].
  intros x Hx. destruct (processEar_incl _ _ _ _ _ Hx) as [Hx1| ->]; [|exact Hrin].
  destruct (processEar_incl _ _ _ _ _ Hx1) as [Hx2| ->]; [|exact Hlin].
  apply M1. apply Hq1. exact Hx2.
Qed.

Lemma triangulatePoly_some fuel st rid ring s :
  GInv st rid ring -> s < size st -> nclip st + size st + 2 <= fuel ->
  exists st', triangulatePoly orc fuel st s = Some st'.
Proof.
  intros G Hs Hfu. unfold triangulatePoly, bind.
  destruct (loop_some fuel st rid ring s G Hs Hfu) as ([vis res] & El). rewrite El.
  destruct (loop_ring st rid ring fuel s vis res G Hs El) as [(Hsm & -> & ->)|(Hbig & Hnd & Hmem & Hlen & f & -> & Hf)]; [eauto|].
  destruct vis as [|v0 vt]; [cbn in Hlen; lia|].
  apply (clip_loop_some _ st rid ring _ f (rid s) G); [rewrite Hlen; lia| |exact Hf].
  intros x Hx. apply fold_processEar_incl in Hx. destruct Hx as [[]|Hx]. apply Hmem. exact Hx.
Qed.

Lemma triangulatePolys_some fuel : forall Sm st rid ring,
  GInv st rid ring -> Good ids V st -> nbad st = 0 -> (forall x, In x Sm -> x < size st) ->
  2 * size st + 2 <= fuel ->
  exists st', triangulatePolys orc fuel st Sm = Some st'.
Proof.
  induction Sm as [|s t IH]; intros st rid ring G Gd Hz Hb Hfu; cbn [triangulatePolys]; [eauto|]. unfold bind.
  pose proof (Good_nclip ids V st Gd) as Hnc.
  destruct (triangulatePoly_some fuel st rid ring s G (Hb s (or_introl eq_refl)) ltac:(lia)) as (st1 & E1). rewrite E1.
  destruct (triangulatePoly_ring orc fuel st rid ring s st1 G (Hb s (or_introl eq_refl)) E1) as (A1 & A2 & A3 & ring1 & G1 & _).
  apply (IH st1 rid ring1 G1).
  - apply (Step_Good ids V st st1 (triangulatePoly_step orc ids V _ _ _ _ E1)); [lia|exact Gd].
  - lia.
  - intros x Hx. rewrite A3. apply Hb. right. exact Hx.
  - lia.
Qed.
End Total3.

(* Initialize never exceeds the reserved capacity *)
Lemma push_some st x : size st < cap st -> exists st', push st x = Some st'.
Proof. intros H. unfold push. fold (size st). destruct (Nat.ltb_spec (size st) (cap st)); [eauto|lia]. Qed.

Lemma init_rest_some : forall rest st last,
  last < size st -> size st + length rest <= cap st -> exists r, init_rest st last rest = Some r.
Proof.
  induction rest as [|m t IH]; intros st last Hl Hc; cbn [init_rest]; [eauto|]. unfold bind.
  cbn [length] in Hc. destruct (push_some st (mkVert m 0 0) ltac:(lia)) as (st1 & E1). rewrite E1.
  pose proof (push_inv _ _ _ E1) as (Hs1 & Hm1 & _).
  destruct (link_some st1 last (length (poly st)) ltac:(lia) ltac:(unfold size in *; lia)) as (st2 & E2). rewrite E2.
  pose proof (link_inv _ _ _ _ E2) as (_ & _ & Hs2 & Hm2 & _).
  apply IH; [unfold size in *; lia|]. destruct Hm1 as (C1 & _). destruct Hm2 as (C2 & _). lia.
Qed.

Lemma init_poly_some st p : p <> [] -> size st + length p <= cap st -> exists r, init_poly st p = Some r.
Proof.
  intros Hp Hc. destruct p as [|m t]; [congruence|]. cbn [init_poly]. unfold bind. cbn [length] in Hc.
  destruct (push_some st (mkVert m 0 0) ltac:(lia)) as (st0 & E0). rewrite E0.
  pose proof (push_inv _ _ _ E0) as (Hs0 & (C0 & _) & _).
  destruct (init_rest_some t st0 (length (poly st)) ltac:(unfold size in *; lia) ltac:(lia)) as ([st1 last] & E1). rewrite E1.
  destruct (init_rest_open st t st0 (length (poly st)) [m] st1 last ltac:(discriminate)) with (3 := E1) as [Hop Hlast].
  { unfold OpenPath. cbv zeta. cbn [length]. pose proof (push_acc _ _ _ E0) as (A1 & A2 & A3 & A4 & A5). cbn [midx vright vleft] in *.
    split; [lia|]. split; [exact A2|]. split; [|split].
    - intros u. rewrite A3. destruct (Nat.eqb_spec u (size st)) as [->|].
      + rewrite Nat.sub_diag. bool_cases; try lia; try reflexivity.
      + bool_cases; try lia; try reflexivity.
    - intros u. rewrite A4. bool_cases; try lia; try reflexivity. all: try (symmetry; apply Rf_overflow; lia).
    - intros u. rewrite A5. bool_cases; try lia; try reflexivity. all: try (symmetry; apply Lf_overflow; lia). }
  { unfold size. cbn [length]. lia. }
  destruct Hop as (Hsz & _). cbv zeta in Hsz. cbn [app length] in *.
  destruct (link_some st1 last (length (poly st)) ltac:(unfold size in *; lia) ltac:(unfold size in *; lia)) as (st2 & E2).
  rewrite E2. eauto.
Qed.

Lemma init_poly_meta st p st' first : init_poly st p = Some (st', first) ->
  size st' = size st + length p /\ cap st' = cap st.
Proof.
  intros H. destruct (init_poly_ring st p st' first H) as ((Hsz & (Hc & _) & _) & _). cbv zeta in Hsz. auto.
Qed.

Lemma initialize_some : forall ps st,
  (forall p, In p ps -> p <> []) -> size st + numVert ps <= cap st -> exists r, initialize st ps = Some r.
Proof.
  induction ps as [|p t IH]; intros st Hne Hc; cbn [initialize]; [eauto|]. unfold bind.
  cbn [numVert fold_right] in Hc. fold (numVert t) in Hc.
  destruct (init_poly_some st p (Hne p (or_introl eq_refl)) ltac:(lia)) as ([st1 first] & E1). rewrite E1.
  destruct (init_poly_meta _ _ _ _ E1) as [Hs1 Hc1].
  destruct (IH st1) as ([st2 starts] & E2); [intros q Hq; apply Hne; right; exact Hq|lia|].
  rewrite E2. eauto.
Qed.

Lemma initialize_cap : forall ps st st' starts, initialize st ps = Some (st', starts) -> cap st' = cap st.
Proof.
  induction ps as [|p t IH]; intros st st' starts H; cbn [initialize] in H.
  - inversion H; reflexivity.
  - unfold bind in H. destruct (init_poly st p) as [[st1 first]|] eqn:E1; [|discriminate].
    destruct (initialize st1 t) as [[st2 s2]|] eqn:E2; [|discriminate]. inversion H; subst.
    rewrite (IH _ _ _ E2). apply (init_poly_meta _ _ _ _ E1).
Qed.

Section Total4.
Variable orc : Oracle.

Lemma sweep_cap fuel : forall vs st st', sweep orc fuel st vs = Some st' -> cap st' = cap st.
Proof.
  induction vs as [|v t IH]; intros st st' H; cbn [sweep] in H; [inversion H; reflexivity|].
  unfold bind in H. destruct (clipIfDegenerate orc fuel st v) as [st1|] eqn:E; [|discriminate].
  rewrite (IH _ _ H). apply (clipIfDegenerate_cap orc _ _ _ _ E).
Qed.

(* earclip_terminates: for every oracle and every polygon set without empty contours the
   ported Triangulate returns a state as soon as fuel >= 2 * (V + 2 * #contours) + 4 *)
Theorem triangulate_some fuel polys :
  (forall p, In p polys -> p <> []) ->
  2 * (numVert polys + 2 * length polys) + 4 <= fuel ->
  exists st, triangulate orc fuel polys = Some st.
Proof.
  intros Hne Hfu. unfold triangulate, bind.
  set (V := numVert polys) in *. set (K := length polys) in *. set (ids := concat polys).
  destruct (initialize_some polys (reset polys) Hne) as ([st1 starts] & Ei); [cbn; fold V K; lia|].
  rewrite Ei.
  pose proof (initialize_good polys [] _ _ _ (reset_good polys) Ei) as IG. cbn [app] in IG.
  destruct (initialize_good_state polys st1 starts Ei) as (Gd1 & Hb1 & _). fold V ids in Gd1.
  pose proof (IG_size _ _ IG) as Hsz1. fold V in Hsz1.
  pose proof (initialize_cap _ _ _ _ Ei) as Hcap1. cbn [reset cap] in Hcap1. fold V K in Hcap1.
  destruct (init_ghost_full polys st1 starts Ei) as (rid1 & ring1 & G1 & R1 & Hmap & Hall & Hlen).
  destruct (sweep_some orc fuel (seq 0 (length (poly st1))) st1 rid1 ring1 G1) as (st2 & E2).
  { intros v Hv. apply in_seq in Hv. unfold size. lia. } { lia. }
  rewrite E2.
  destruct (sweep_book orc fuel polys st1 starts rid1 ring1 st2 G1 R1 Hmap Hall E2) as (A1 & A2 & A3 & ring2 & G2 & B0).
  pose proof (Step_Good ids V st1 st2 (sweep_step orc ids V _ _ _ _ E2) ltac:(lia) Gd1) as Gd2.
  pose proof (sweep_cap _ _ _ _ E2) as Hcap2.
  pose proof (Good_nclip ids V st2 Gd2) as Hnc2.
  destruct (findStarts_some orc fuel st2 rid1 ring2 G2 ltac:(lia) starts [] [] []) as ([[holes outers] simples] & Ef).
  { rewrite Forall_forall in Hall. intros f Hf. rewrite A3. apply Hall. exact Hf. }
  rewrite Ef.
  destruct (findStarts_book orc _ _ fuel st2 rid1 ring2 G2 _ _ _ _ _ _ _ B0 Ef) as [B1 HlenH]. cbn [length] in HlenH.
  destruct (cutKeyholes_some orc ids V _ _ fuel outers holes st2 rid1 ring2 simples G2 B1 Gd2 ltac:(lia)) as ([st3 simples'] & E3).
  { fold K in Hlen. lia. } { lia. }
  rewrite E3.
  destruct (cutKeyholes_ring orc _ _ fuel outers holes st2 rid1 ring2 simples st3 simples' G2 B1 E3)
    as (C1 & C2 & C3 & C4 & rid3 & ring3 & G3 & B3).
  pose proof (Step_Good ids V st2 st3 (cutKeyholes_step orc ids V _ _ _ _ _ _ _ E3) ltac:(lia) Gd2) as Gd3.
  apply (triangulatePolys_some orc ids V fuel simples' st3 rid3 ring3 G3 Gd3 ltac:(lia)).
  - apply (B_simple _ _ _ _ _ _ _ _ _ B3).
  - fold K in Hlen. lia.
Qed.
End Total4.

(* total correctness: with that much fuel the run returns and satisfies the contract *)
Theorem triangulate_total_correct orc polys :
  (forall p, In p polys -> p <> []) ->
  exists st, triangulate orc (2 * (numVert polys + 2 * length polys) + 4) polys = Some st /\
    ceq (boundaries (tris st)) (contours polys) /\ TrisIn (concat polys) st /\
    length (tris st) + nfilt st = nclip st /\ nclip st + nlive st = numVert polys + 2 * njoin st.
Proof.
  intros Hne. destruct (triangulate_some orc _ polys Hne (le_n _)) as (st & E). exists st. split; [exact E|].
  destruct (earclip_contract_full orc _ polys st E) as (A & B & C & D & _). auto.
Qed.
