(* Lemmas about the general model of Manifold::Impl::Subdivide
   (SubdivideQuadDefs.v: marked quads, keepInterior, ResultTooLarge exit).

   A'  `new_indices_once_edges_q`, `new_indices_once_interior_q`
                             the index ranges handed out by the two exclusive
                             scans partition [numVert, numVert + total), also
                             for the keepInterior-adjusted edgeAdded
                             (`eadd_nonneg`: the adjustment never makes an
                             entry negative).
   B1' `gout_q_balances`     for ANY closed oriented soup of non-degenerate
                             triangles, any symmetric marking that passes
                             `quads_valid`, any offsets and any numbers of
                             added vertices per undirected edge, the outlines
                             of all FACES (triangles: three subdivided sides;
                             quads: the four subdivided non-interior sides in
                             GetHalfedges order; skipped triangles: nothing)
                             cancel.
   B2' `subdivide_q_balances` with the per-face hypothesis H_pattern_q the
                             output of `subdivide_tris_q` is closed and oriented.
   V   `valid_tangents_implies_quads_valid`
                             `quads_valid` follows from the port of
                             ValidTangents() (what Refine checks first).
   H   `tmp_edges_find_he`   the halfedge the keepInterior block of the model
                             looks up by end points is edges[i].halfedgeIdx.
   E   `subdivide_q_restricts` with no marked halfedge and keepInterior = false
                             the general model is SubdivideDefs.subdivide_tris
                             (when the size bound does not fire).
   Not proved here: H_pattern_q itself (it is the Partition/Reindex theorem,
   per face), and that the io-independent statement of H_pattern_q holds for
   faces with interior vertices (true, but not checkable by vm_compute with a
   symbolic io; the examples use faces without interior vertices). *)
From Coq Require Import ZArith List Bool Lia Floats QArith Permutation.
From MV Require Import Base.Chain Tri.PartitionDefs Tri.QuadChain Tri.QuadModel
  Tri.SubdivideDefs Tri.SubdivideModel Tri.SubdivideQuadDefs.
Import ListNotations.
Local Open Scope Z_scope.

(* ------------------------------------------------------------------ *)
(* halfedge indices                                                     *)

Lemma div3 t i : 0 <= i < 3 -> (3 * t + i) / 3 = t /\ (3 * t + i) mod 3 = i.
Proof.
  intro H. split.
  - symmetry. apply (Z.div_unique (3 * t + i) 3 t i); lia.
  - symmetry. apply (Z.mod_unique (3 * t + i) 3 t i); lia.
Qed.

Lemma next_he_0 t : next_he (3 * t) = 3 * t + 1.
Proof. unfold next_he. replace (3 * t) with (3 * t + 0) at 1 by lia. rewrite (proj2 (div3 t 0 ltac:(lia))). reflexivity. Qed.
Lemma next_he_1 t : next_he (3 * t + 1) = 3 * t + 2.
Proof. unfold next_he. rewrite (proj2 (div3 t 1 ltac:(lia))). cbn. lia. Qed.
Lemma next_he_2 t : next_he (3 * t + 2) = 3 * t.
Proof. unfold next_he. rewrite (proj2 (div3 t 2 ltac:(lia))). cbn. lia. Qed.

Lemma he_idx tris t i tr : 0 <= i < 3 -> vget tris t = Some tr -> he tris (3 * t + i) = Some (tri_side tr i).
Proof. intros Hi H. unfold he. destruct (div3 t i Hi) as [-> ->]. rewrite H. reflexivity. Qed.

Lemma he_tri tris t v0 v1 v2 :
  vget tris t = Some (v0, v1, v2) ->
  he tris (3 * t) = Some (v0, v1) /\ he tris (3 * t + 1) = Some (v1, v2) /\ he tris (3 * t + 2) = Some (v2, v0).
Proof.
  intro H. replace (3 * t) with (3 * t + 0) at 1 by lia.
  assert (A0 : 0 <= 0 < 3) by lia. assert (A1 : 0 <= 1 < 3) by lia. assert (A2 : 0 <= 2 < 3) by lia.
  rewrite (he_idx tris t 0 _ A0 H), (he_idx tris t 1 _ A1 H), (he_idx tris t 2 _ A2 H).
  repeat split; reflexivity.
Qed.

Lemma vget_range {A} (l : list A) k x : vget l k = Some x -> 0 <= k < Z.of_nat (length l).
Proof.
  unfold vget. destruct (Z.ltb_spec k 0) as [Hk|Hk]; [discriminate|]. intro H.
  assert (Hlt : (Z.to_nat k < length l)%nat) by (apply nth_error_Some; congruence). lia.
Qed.

Lemma vget_app_len {A} (pre : list A) x r : vget (pre ++ x :: r) (Z.of_nat (length pre)) = Some x.
Proof.
  unfold vget. destruct (Z.ltb_spec (Z.of_nat (length pre)) 0); [lia|].
  rewrite Nat2Z.id, nth_error_app2 by lia. rewrite Nat.sub_diag. reflexivity.
Qed.

(* the indices 0 .. length - 1 enumerate the list *)
Lemma map_vget_ids {A} (l : list A) : forall pre,
  map (vget (pre ++ l)) (zrange (length l) (Z.of_nat (length pre)) 1) = map Some l.
Proof.
  induction l as [|x r IH]; intro pre; [reflexivity|].
  cbn [length zrange map]. rewrite vget_app_len. f_equal.
  specialize (IH (pre ++ [x])). rewrite <- app_assoc in IH. cbn [app] in IH.
  rewrite app_length in IH. cbn [length] in IH.
  replace (Z.of_nat (length pre + 1)) with (Z.of_nat (length pre) + 1) in IH by lia. exact IH.
Qed.

Lemma map_vget_tri_ids (tris : list tri) : map (vget tris) (tri_ids tris) = map Some tris.
Proof. exact (map_vget_ids tris []). Qed.

Lemma in_tri_ids tris t : In t (tri_ids tris) <-> 0 <= t < Z.of_nat (length tris).
Proof. unfold tri_ids, num_tri. rewrite in_zrange. lia. Qed.

Lemma zrange_nodup m : forall i, NoDup (zrange m i 1).
Proof.
  induction m as [|m IH]; intro i; cbn [zrange]; constructor; [|apply IH].
  rewrite in_zrange. lia.
Qed.

Lemma he_some tris h x y : he tris h = Some (x, y) ->
  exists v0 v1 v2, vget tris (h / 3) = Some (v0, v1, v2) /\ In (v0, v1, v2) tris /\
                   (x, y) = tri_side (v0, v1, v2) (h mod 3).
Proof.
  unfold he. destruct (vget tris (h / 3)) as [[[v0 v1] v2]|] eqn:E; [|discriminate].
  intro H. injection H as H. exists v0, v1, v2. split; [reflexivity|]. split; [|symmetry; exact H].
  unfold vget in E. destruct (h / 3 <? 0); [discriminate|]. eapply nth_error_In, E.
Qed.

Lemma find_he_sound x y h : forall ts pre,
  find_he ts (Z.of_nat (length pre)) x y = Some h -> he (pre ++ ts) h = Some (x, y).
Proof.
  induction ts as [|[[v0 v1] v2] r IH]; intros pre H; cbn [find_he] in H; [discriminate|].
  set (t := Z.of_nat (length pre)) in *.
  assert (Hv : vget (pre ++ (v0, v1, v2) :: r) t = Some (v0, v1, v2)) by apply vget_app_len.
  destruct (he_tri _ _ _ _ _ Hv) as (H0 & H1 & H2).
  destruct ((v0 =? x) && (v1 =? y)) eqn:E0.
  { apply andb_true_iff in E0. destruct E0 as [Ea Eb]. apply Z.eqb_eq in Ea, Eb. subst.
    injection H as <-. exact H0. }
  destruct ((v1 =? x) && (v2 =? y)) eqn:E1.
  { apply andb_true_iff in E1. destruct E1 as [Ea Eb]. apply Z.eqb_eq in Ea, Eb. subst.
    injection H as <-. exact H1. }
  destruct ((v2 =? x) && (v0 =? y)) eqn:E2.
  { apply andb_true_iff in E2. destruct E2 as [Ea Eb]. apply Z.eqb_eq in Ea, Eb. subst.
    injection H as <-. exact H2. }
  specialize (IH (pre ++ [(v0, v1, v2)])). rewrite <- app_assoc in IH. cbn [app] in IH. apply IH.
  rewrite app_length. cbn [length]. replace (Z.of_nat (length pre + 1)) with (t + 1) by lia. exact H.
Qed.

Lemma find_he_he tris x y h : find_he tris 0 x y = Some h -> he tris h = Some (x, y).
Proof. exact (find_he_sound x y h tris []). Qed.

(* ------------------------------------------------------------------ *)
(* sums over index lists                                                *)

Lemma zsum_app l1 l2 : zsum (l1 ++ l2) = zsum l1 + zsum l2.
Proof. induction l1 as [|x t IH]; cbn [app]; [reflexivity|]. rewrite !zsum_cons, IH. lia. Qed.

Lemma coef_flat_map_zsum {A} (f : A -> chain) (l : list A) a b :
  coef (flat_map f l) a b = zsum (map (fun x => coef (f x) a b) l).
Proof. induction l as [|x t IH]; [reflexivity|]. cbn [flat_map map]. rewrite coef_app, zsum_cons, IH. reflexivity. Qed.

Lemma zsum_map_ext_in {A} (f g : A -> Z) l : (forall x, In x l -> f x = g x) -> zsum (map f l) = zsum (map g l).
Proof. intro H. f_equal. apply map_ext_in, H. Qed.

Lemma zsum_map_perm {A} (g : A -> Z) l l' : Permutation l l' -> zsum (map g l) = zsum (map g l').
Proof. induction 1; cbn [map]; rewrite ?zsum_cons; lia. Qed.

Lemma zsum_map_if {A} (p : A -> bool) (h : A -> Z) l :
  zsum (map (fun t => if p t then h t else 0) l) = zsum (map h (filter p l)).
Proof.
  induction l as [|x t IH]; [reflexivity|]. cbn [map filter]. rewrite zsum_cons, IH.
  destruct (p x); cbn [map]; rewrite ?zsum_cons; lia.
Qed.

Lemma zsum_map_3 {A} (F g A1 B1 : A -> Z) l :
  (forall t, In t l -> F t = g t + A1 t - B1 t) ->
  zsum (map F l) = zsum (map g l) + zsum (map A1 l) - zsum (map B1 l).
Proof.
  induction l as [|x t IH]; intro H; [reflexivity|]. cbn [map]. rewrite !zsum_cons.
  rewrite (H x (or_introl eq_refl)), IH; [lia|]. intros y Hy. apply H. right. exact Hy.
Qed.

Lemma nodup_map_inj {A B} (f : A -> B) l :
  NoDup l -> (forall x y, In x l -> In y l -> f x = f y -> x = y) -> NoDup (map f l).
Proof.
  induction 1 as [|x t Hx Hnd IH]; intro Hinj; cbn [map]; constructor.
  - intro Hin. apply in_map_iff in Hin. destruct Hin as (y & Hy & Hyin).
    assert (y = x) by (apply Hinj; [right; exact Hyin|left; reflexivity|exact Hy]). subst. contradiction.
  - apply IH. intros a b Ha Hb. apply Hinj; right; assumption.
Qed.

(* a fixed-point-free involution pi on the elements with isq: summing
   g (pi t) + g t over the lower element of every orbit and nothing over the
   higher one is summing g over all of them *)
Lemma pair_sum (L : list Z) (isq : Z -> bool) (pi : Z -> Z) (g : Z -> Z) :
  NoDup L ->
  (forall t, In t L -> isq t = true -> In (pi t) L /\ isq (pi t) = true /\ pi (pi t) = t /\ pi t <> t) ->
  zsum (map (fun t => if isq t then (if pi t <? t then 0 else g (pi t) + g t) else g t) L) = zsum (map g L).
Proof.
  intros Hnd Hpi.
  set (low := fun t => isq t && (t <? pi t)). set (high := fun t => isq t && (pi t <? t)).
  rewrite (zsum_map_3 _ g (fun t => if low t then g (pi t) else 0) (fun t => if high t then g t else 0)).
  2:{ intros t Ht. unfold low, high. destruct (isq t) eqn:Eq; cbn [andb]; [|lia].
      destruct (Hpi t Ht Eq) as (_ & _ & _ & Hne).
      destruct (Z.ltb_spec (pi t) t), (Z.ltb_spec t (pi t)); lia. }
  rewrite (zsum_map_if low (fun t => g (pi t))), (zsum_map_if high g).
  rewrite <- (map_map pi g).
  rewrite (zsum_map_perm g (map pi (filter low L)) (filter high L)); [lia|].
  apply NoDup_Permutation.
  - apply nodup_map_inj; [apply NoDup_filter, Hnd|].
    intros x y Hx Hy E. apply filter_In in Hx, Hy. unfold low in Hx, Hy.
    destruct Hx as [Hx Hlx], Hy as [Hy Hly]. apply andb_true_iff in Hlx, Hly.
    destruct (Hpi x Hx (proj1 Hlx)) as (_ & _ & Ix & _). destruct (Hpi y Hy (proj1 Hly)) as (_ & _ & Iy & _).
    congruence.
  - apply NoDup_filter, Hnd.
  - intro x. rewrite in_map_iff, filter_In. split.
    + intros (t & <- & Ht). apply filter_In in Ht. destruct Ht as [Ht Hl]. unfold low in Hl.
      apply andb_true_iff in Hl. destruct Hl as [Hq Hl]. apply Z.ltb_lt in Hl.
      destruct (Hpi t Ht Hq) as (Hin & Hq' & Hinv & _). split; [exact Hin|].
      unfold high. rewrite Hq', Hinv. cbn [andb]. apply Z.ltb_lt. exact Hl.
    + intros [Hx Hh]. unfold high in Hh. apply andb_true_iff in Hh. destruct Hh as [Hq Hh]. apply Z.ltb_lt in Hh.
      destruct (Hpi x Hx Hq) as (Hin & Hq' & Hinv & _). exists (pi x). split; [exact Hinv|].
      apply filter_In. split; [exact Hin|]. unfold low. rewrite Hq', Hinv. cbn [andb]. apply Z.ltb_lt. exact Hh.
Qed.

Lemma lin_boundaries_zsum f (ts : list tri) :
  lin f (boundaries ts) = zsum (map (fun tr => lin f (boundary tr)) ts).
Proof.
  induction ts as [|tr r IH]; [reflexivity|]. unfold boundaries in *. cbn [flat_map map].
  rewrite lin_app, zsum_cons, IH. reflexivity.
Qed.

Lemma oZ_eqb_eq a b : oZ_eqb a b = true -> a = Some b.
Proof. destruct a as [z|]; cbn [oZ_eqb]; [|discriminate]. intro H. apply Z.eqb_eq in H. congruence. Qed.

Lemma nb_step_range m0 m1 m2 :
  -2 <= nb_step (nb_step (nb_step (-1) 0 m0) 1 m1) 2 m2 < 3.
Proof. destruct m0, m1, m2; cbn; lia. Qed.

(* ------------------------------------------------------------------ *)
(* B1'. the outlines of all faces of a closed oriented soup cancel       *)

Section OutlineQ.
  Variable tris : list tri.
  Variable marked : Z -> Z -> bool.
  (* offset and number of added vertices of the undirected edge {u, v}, called on (min, max) *)
  Variables off n : Z -> Z -> Z.

  (* the subdivided side of halfedge h (nothing for the missing halfedge -1) *)
  Definition side_chain (h : Z) : chain :=
    if h <? 0 then []
    else match he tris h with Some (x, y) => path_edges (gside off n x y) | None => [] end.

  (* the global outline chain of the face of triangle number t: the subdivided
     sides of the halfedges GetHalfedges(t) returns, in that order: three sides
     for a triangle, the four non-interior sides for a quad (at its lower
     triangle), nothing for the higher triangle of a quad *)
  Definition face_outline (t : Z) : chain :=
    match get_halfedges tris marked t with
    | Some hs => side_chain (c0 hs) ++ side_chain (c1 hs) ++ side_chain (c2 hs) ++ side_chain (c3 hs)
    | None => []
    end.

  Definition nbv (t : Z) : Z := match get_neighbor tris marked t with Some nb => nb | None => -1 end.
  Definition isq (t : Z) : bool := 0 <=? nbv t.
  Definition ppi (t : Z) : Z := match pair_of tris (3 * t + nbv t) with Some pr => pr / 3 | None => t end.

  Lemma get_neighbor_some t nb : get_neighbor tris marked t = Some nb ->
    exists p q r, vget tris t = Some (p, q, r) /\
      nb = nb_step (nb_step (nb_step (-1) 0 (marked p q)) 1 (marked q r)) 2 (marked r p).
  Proof.
    unfold get_neighbor, he_marked. intro H.
    destruct (vget tris t) as [[[p q] r]|] eqn:Ev.
    2:{ exfalso. assert (E : he tris (3 * t) = None).
        { unfold he. replace (3 * t) with (3 * t + 0) by lia.
          destruct (div3 t 0 ltac:(lia)) as [-> _]. rewrite Ev. reflexivity. }
        rewrite E in H. discriminate. }
    destruct (he_tri _ _ _ _ _ Ev) as (H0 & H1 & H2). rewrite H0, H1, H2 in H.
    injection H as <-. exists p, q, r. split; reflexivity.
  Qed.

  Lemma get_neighbor_of_tri t p q r : vget tris t = Some (p, q, r) ->
    get_neighbor tris marked t = Some (nb_step (nb_step (nb_step (-1) 0 (marked p q)) 1 (marked q r)) 2 (marked r p)).
  Proof.
    intro Ev. unfold get_neighbor, he_marked.
    destruct (he_tri _ _ _ _ _ Ev) as (H0 & H1 & H2). rewrite H0, H1, H2. reflexivity.
  Qed.

  Lemma qv_at t : quads_valid tris marked = true -> In t (tri_ids tris) ->
    exists nb, get_neighbor tris marked t = Some nb /\
      (nb < 0 -> nb = -1) /\
      (0 <= nb -> exists pr, pair_of tris (3 * t + nb) = Some pr /\ pr / 3 <> t /\
                             get_neighbor tris marked (pr / 3) = Some (pr mod 3) /\
                             pair_of tris pr = Some (3 * t + nb)).
  Proof.
    intros Hqv Hin. unfold quads_valid in Hqv. rewrite forallb_forall in Hqv. specialize (Hqv t Hin).
    destruct (get_neighbor tris marked t) as [nb|]; [|discriminate]. exists nb. split; [reflexivity|].
    destruct (Z.ltb_spec nb 0) as [Hlt|Hge].
    - split; [intros _; apply Z.eqb_eq, Hqv|lia].
    - split; [lia|]. intros _.
      destruct (pair_of tris (3 * t + nb)) as [pr|]; [|discriminate]. exists pr.
      apply andb_true_iff in Hqv. destruct Hqv as [Hqv H3]. apply andb_true_iff in Hqv. destruct Hqv as [H1 H2].
      split; [reflexivity|]. split; [|split].
      + apply negb_true_iff in H1. apply Z.eqb_neq, H1.
      + apply oZ_eqb_eq, H2.
      + apply oZ_eqb_eq, H3.
  Qed.

  Hypothesis Hnd : nondegenerate tris.
  Hypothesis Hsym : forall x y, marked x y = marked y x.
  Hypothesis Hqv : quads_valid tris marked = true.

  Lemma pi_ok t : In t (tri_ids tris) -> isq t = true ->
    In (ppi t) (tri_ids tris) /\ isq (ppi t) = true /\ ppi (ppi t) = t /\ ppi t <> t.
  Proof.
    intros Hin Hq. destruct (qv_at t Hqv Hin) as (nb & Hnb & _ & Hquad).
    unfold isq, nbv in Hq. rewrite Hnb in Hq. apply Z.leb_le in Hq.
    destruct (Hquad Hq) as (pr & Hp & Hne & Hnb' & Hp').
    destruct (get_neighbor_some t nb Hnb) as (p & q & r & _ & Enb).
    pose proof (nb_step_range (marked p q) (marked q r) (marked r p)) as Hr. rewrite <- Enb in Hr.
    assert (Hppi : ppi t = pr / 3) by (unfold ppi, nbv; rewrite Hnb, Hp; reflexivity).
    rewrite Hppi.
    destruct (get_neighbor_some _ _ Hnb') as (p' & q' & r' & Ev' & _).
    pose proof (Z.mod_pos_bound pr 3 ltac:(lia)) as Hm.
    split; [apply in_tri_ids; eapply vget_range, Ev'|]. split; [|split; [|exact Hne]].
    - unfold isq, nbv. rewrite Hnb'. apply Z.leb_le. lia.
    - unfold ppi, nbv. rewrite Hnb'. rewrite <- (Z.div_mod pr 3) by lia. rewrite Hp'.
      apply (div3 t nb). lia.
  Qed.

  Section AB.
    Variables a b : Z.

    (* coefficient of [a->b] in the subdivided halfedge, 0 on the inside of a quad *)
    Definition f2 (x y : Z) : Z := if marked x y then 0 else gf off n a b x y.

    Lemma f2_antisym : antisym f2.
    Proof. intros x y. unfold f2. rewrite (Hsym y x). destruct (marked x y); [lia|apply gf_antisym]. Qed.

    Definition hg (t : Z) : Z := match vget tris t with Some tr => lin f2 (boundary tr) | None => 0 end.
    Definition sc (h : Z) : Z := coef (side_chain h) a b.

    Lemma tri_facts t p q r : vget tris t = Some (p, q, r) ->
      sc (3 * t) = gf off n a b p q /\ sc (3 * t + 1) = gf off n a b q r /\ sc (3 * t + 2) = gf off n a b r p /\
      hg t = f2 p q + f2 q r + f2 r p.
    Proof.
      intro Ev. pose proof (vget_range _ _ _ Ev) as Hr.
      assert (Hin : In (p, q, r) tris).
      { unfold vget in Ev. destruct (t <? 0); [discriminate|]. eapply nth_error_In, Ev. }
      destruct (Hnd p q r Hin) as (N1 & N2 & N3).
      destruct (he_tri _ _ _ _ _ Ev) as (H0 & H1 & H2).
      unfold sc, side_chain. rewrite H0, H1, H2.
      destruct (Z.ltb_spec (3 * t) 0); [lia|]. destruct (Z.ltb_spec (3 * t + 1) 0); [lia|].
      destruct (Z.ltb_spec (3 * t + 2) 0); [lia|].
      change (coef (path_edges ?l) a b) with (pc a b l).
      rewrite !gside_gf by assumption. repeat split; try reflexivity.
      unfold hg. rewrite Ev. cbn [boundary lin]. lia.
    Qed.

    Lemma face_tri t : get_neighbor tris marked t = Some (-1) -> sc (3 * t) + sc (3 * t + 1) + sc (3 * t + 2) = hg t.
    Proof.
      intro H. destruct (get_neighbor_some t _ H) as (p & q & r & Ev & Enb).
      destruct (tri_facts t p q r Ev) as (-> & -> & -> & ->). unfold f2.
      destruct (marked p q), (marked q r), (marked r p); cbn in Enb; try discriminate; lia.
    Qed.

    Lemma quad_half t k : 0 <= k -> get_neighbor tris marked t = Some k ->
      sc (next_he (3 * t + k)) + sc (next_he (next_he (3 * t + k))) = hg t.
    Proof.
      intros Hk H. destruct (get_neighbor_some t _ H) as (p & q & r & Ev & Enb).
      destruct (tri_facts t p q r Ev) as (S0 & S1 & S2 & ->). unfold f2.
      destruct (marked p q), (marked q r), (marked r p); cbn in Enb; subst k; try lia.
      - rewrite Z.add_0_r, next_he_0, next_he_1. lia.
      - rewrite next_he_1, next_he_2. lia.
      - rewrite next_he_2, next_he_0. lia.
    Qed.

    Definition fcoef (t : Z) : Z := if isq t then (if ppi t <? t then 0 else hg (ppi t) + hg t) else hg t.

    Lemma side_chain_m1 : side_chain (-1) = [].
    Proof. reflexivity. Qed.

    Lemma face_coef t : In t (tri_ids tris) -> coef (face_outline t) a b = fcoef t.
    Proof.
      intro Hin. destruct (qv_at t Hqv Hin) as (nb & Hnb & Htri & Hquad).
      unfold face_outline, get_halfedges, fcoef, isq, ppi, nbv. rewrite Hnb.
      destruct (Z.leb_spec 0 nb) as [Hge|Hlt].
      - destruct (Hquad Hge) as (pr & Hp & Hne & Hnb' & Hp'). rewrite Hp.
        destruct (Z.ltb_spec (pr / 3) t) as [Hl|Hl].
        + cbn [c0 c1 c2 c3]. rewrite side_chain_m1. reflexivity.
        + cbn [c0 c1 c2 c3]. rewrite !coef_app. fold (sc (next_he pr)) (sc (next_he (next_he pr)))
            (sc (next_he (3 * t + nb))) (sc (next_he (next_he (3 * t + nb)))).
          pose proof (Z.mod_pos_bound pr 3 ltac:(lia)) as Hm.
          pose proof (quad_half (pr / 3) (pr mod 3) ltac:(lia) Hnb') as Q1.
          rewrite <- (Z.div_mod pr 3) in Q1 by lia.
          pose proof (quad_half t nb Hge Hnb) as Q2. lia.
      - specialize (Htri Hlt). subst nb. cbn [c0 c1 c2 c3]. rewrite side_chain_m1, !coef_app.
        fold (sc (3 * t)) (sc (3 * t + 1)) (sc (3 * t + 2)). rewrite coef_nil.
        pose proof (face_tri t Hnb). lia.
    Qed.

    Lemma faces_lin : coef (flat_map face_outline (tri_ids tris)) a b = lin f2 (boundaries tris).
    Proof.
      rewrite coef_flat_map_zsum. rewrite (zsum_map_ext_in _ fcoef) by exact face_coef.
      unfold fcoef. rewrite (pair_sum (tri_ids tris) isq ppi hg (zrange_nodup _ _) pi_ok).
      rewrite lin_boundaries_zsum.
      change hg with (fun t => (fun o => match o with Some tr => lin f2 (boundary tr) | None => 0 end) (vget tris t)).
      rewrite <- (map_map (vget tris)), map_vget_tri_ids, map_map. reflexivity.
    Qed.
  End AB.

  Lemma faces_balance : ceq (boundaries tris) [] -> ceq (flat_map face_outline (tri_ids tris)) [].
  Proof.
    intros Hc a b. rewrite faces_lin.
    rewrite (lin_ceq (f2 a b) (boundaries tris) [] (f2_antisym a b) Hc). reflexivity.
  Qed.
End OutlineQ.

(* Theorem B1': for every closed oriented soup of non-degenerate triangles,
   every symmetric marking for which `quads_valid` holds (no triangle has two
   marked sides; the marked side of a triangle is paired with the marked side
   of a different triangle, and that pairing is an involution), every
   assignment of offsets `off` and numbers of added vertices `n` to the
   undirected edges, the outlines of all faces sum to zero. *)
Theorem gout_q_balances :
  forall (tris : list tri) (marked : Z -> Z -> bool) (off n : Z -> Z -> Z),
  (forall p q r, In (p, q, r) tris -> p <> q /\ q <> r /\ r <> p) ->
  (forall x y, marked x y = marked y x) ->
  quads_valid tris marked = true ->
  ceq (boundaries tris) [] ->
  ceq (flat_map (face_outline tris marked off n) (tri_ids tris)) [].
Proof. intros tris marked off n Hnd Hsym Hqv Hc. apply faces_balance; assumption. Qed.

(* ------------------------------------------------------------------ *)
(* A'. the keepInterior adjustment keeps edgeAdded non-negative; the two
   exclusive scans hand out every new index exactly once                 *)

Section ModelQ.
  Variable T : Type.
  Variables tzero tone : T.
  Variable tlerp : T -> T -> Z -> Z -> T.
  Variable numVert : Z.
  Variable tris : list tri.
  Variable added : Z -> Z -> Z.
  Variable marked : Z -> Z -> bool.
  Variable keepInterior : bool.

  Lemma he_added0_val h x y m :
    he tris h = Some (x, y) -> he_added0 numVert tris added marked h = Some m ->
    m = eadd0 added marked (Z.min x y) (Z.max x y).
  Proof.
    intros Hh H. unfold he_added0 in H. rewrite Hh in H. unfold edge_added_of in H.
    destruct (edge_info numVert tris (eadd0 added marked) x y) as [[m' o]|] eqn:E; [|discriminate].
    cbn in H. injection H as <-. eapply edge_info_added, E.
  Qed.

  (* invariant of the loop in `Added`: longest >= 0, and longest >= thisAdded
     unless the loop left through the quad exit (longest = 0) *)
  Definition keepJ (this : Z) (s : option (Z * Z * Z * bool)) : Prop :=
    match s with
    | None => True
    | Some (_, lg, _, br) => 0 <= lg /\ ((br = true /\ lg = 0) \/ this <= lg)
    end.

  Lemma keep_step_J this s : keepJ this s -> keepJ this (keep_step numVert tris added marked s).
  Proof.
    destruct s as [[[[h lg] tot] br]|]; [|intros _; exact I]. cbn [keepJ]. intros [H0 HJ].
    destruct br; unfold keep_step; cbv beta iota.
    - cbn [keepJ]. auto.
    - destruct (he_added0 numVert tris added marked h) as [a|]; [|exact I].
      destruct (negb (int_ok (tot + a))); [exact I|].
      destruct (he_marked tris marked (next_he h)) as [[|]|]; cbn [keepJ]; [| |exact I].
      + split; [lia|left; auto].
      + destruct HJ as [[Hb _]|HJ]; [discriminate|]. split; lia.
  Qed.

  Lemma keep_first_J this h : he_added0 numVert tris added marked h = Some this ->
    keepJ this (keep_step numVert tris added marked (Some (h, 0, 0, false))).
  Proof.
    intro Hh. unfold keep_step; cbv beta iota. rewrite Hh.
    destruct (negb (int_ok (0 + this))); [exact I|].
    destruct (he_marked tris marked (next_he h)) as [[|]|]; cbn [keepJ]; [| |exact I].
    - split; [lia|left; auto].
    - split; lia.
  Qed.

  (* `Added(hIdx)` never returns a negative number *)
  Lemma keep_added_nonneg this h a :
    he_added0 numVert tris added marked h = Some this ->
    keep_added numVert tris added marked this h = Some a -> 0 <= a.
  Proof.
    intros Hh H. unfold keep_added in H.
    pose proof (keep_step_J this _ (keep_step_J this _ (keep_first_J this h Hh))) as HJ.
    destruct (keep_step numVert tris added marked
                (keep_step numVert tris added marked
                   (keep_step numVert tris added marked (Some (h, 0, 0, false)))))
      as [[[[h' lg] tot] br]|]; [|discriminate].
    cbn [keepJ] in HJ. destruct HJ as [H0 HJ].
    destruct (f_to_int _) as [minExtra|]; [|discriminate]. cbv zeta in H.
    destruct (negb _); [discriminate|].
    destruct (Z.eqb_spec lg 0) as [E0|E0]; [injection H as <-; lia|].
    destruct (Z.ltb_spec 0 (2 * lg + minExtra - tot)) as [He|He].
    - destruct (negb _); [discriminate|]. injection H as <-.
      change (0 <= ((2 * lg + minExtra - tot) * (lg - this)) ÷ lg).
      apply Z.quot_pos; [|lia]. apply Z.mul_nonneg_nonneg; [lia|].
      destruct HJ as [[_ Hz]|Hle]; lia.
    - injection H as <-. lia.
  Qed.

  Lemma keep_added_some this h a :
    keep_added numVert tris added marked this h = Some a ->
    exists m, he_added0 numVert tris added marked h = Some m.
  Proof.
    intro H. destruct (he_added0 numVert tris added marked h) as [m|] eqn:E; [exists m; reflexivity|].
    exfalso. unfold keep_added in H.
    assert (E1 : keep_step numVert tris added marked (Some (h, 0, 0, false)) = None).
    { unfold keep_step; cbv beta iota. rewrite E. reflexivity. }
    rewrite E1 in H. cbn in H. discriminate.
  Qed.

  Lemma eadd0_nonneg u v : (forall u v, 0 <= added u v) -> 0 <= eadd0 added marked u v.
  Proof. intro Hn. unfold eadd0. destruct (marked u v); [lia|apply Hn]. Qed.

  Lemma keep_adjusted_nonneg u v z : u < v -> 0 <= eadd0 added marked u v ->
    keep_adjusted numVert tris added marked u v = Some z -> 0 <= z.
  Proof.
    intros Huv H0 H. unfold keep_adjusted in H.
    destruct (marked u v); [injection H as <-; exact H0|].
    destruct (find_he tris 0 u v) as [h|] eqn:Ef; [|discriminate].
    destruct (pair_of tris h) as [pr|]; [|discriminate].
    destruct (keep_added numVert tris added marked (eadd0 added marked u v) h) as [a1|] eqn:E1; [|discriminate].
    destruct (keep_added numVert tris added marked (eadd0 added marked u v) pr) as [a2|]; [|discriminate].
    destruct (int_ok _); [|discriminate]. injection H as <-.
    assert (Ha1 : 0 <= a1).
    { destruct (keep_added_some _ _ _ E1) as (m & Hm).
      pose proof (he_added0_val h u v m (find_he_he _ _ _ _ Ef) Hm) as Em.
      rewrite Z.min_l, Z.max_r in Em by lia. subst m.
      eapply keep_added_nonneg; eassumption. }
    lia.
  Qed.

  (* the final edgeAdded of an edge (u, v), u < v, is non-negative if the oracle is *)
  Lemma eadd_nonneg u v : (forall u v, 0 <= added u v) -> u < v ->
    0 <= eadd numVert tris added marked keepInterior u v.
  Proof.
    intros Hn Huv. unfold eadd. destruct keepInterior; [|apply eadd0_nonneg, Hn].
    destruct (keep_adjusted numVert tris added marked u v) as [z|] eqn:E; [|lia].
    eapply keep_adjusted_nonneg; [exact Huv|apply eadd0_nonneg, Hn|exact E].
  Qed.

  (* and never smaller than before the keepInterior block *)
  Lemma eadd_ge_eadd0 u v : u < v ->
    (if keepInterior then keep_adjusted numVert tris added marked u v <> None else True) ->
    eadd0 added marked u v <= eadd numVert tris added marked keepInterior u v.
  Proof.
    intros Huv Hd. unfold eadd. destruct keepInterior; [|lia].
    destruct (keep_adjusted numVert tris added marked u v) as [z|] eqn:E; [|congruence].
    unfold keep_adjusted in E. destruct (marked u v); [injection E as <-; lia|].
    destruct (find_he tris 0 u v) as [h|] eqn:Ef; [|discriminate].
    destruct (pair_of tris h) as [pr|]; [|discriminate].
    destruct (keep_added numVert tris added marked (eadd0 added marked u v) h) as [a1|] eqn:E1; [|discriminate].
    destruct (keep_added numVert tris added marked (eadd0 added marked u v) pr) as [a2|]; [|discriminate].
    destruct (int_ok _); [|discriminate]. injection E as <-.
    destruct (keep_added_some _ _ _ E1) as (m & Hm).
    pose proof (he_added0_val h u v m (find_he_he _ _ _ _ Ef) Hm) as Em.
    rewrite Z.min_l, Z.max_r in Em by lia. subst m.
    pose proof (keep_added_nonneg _ _ _ Hm E1). lia.
  Qed.

  Lemma edge_added_list_q_nonneg : (forall u v, 0 <= added u v) ->
    nonneg (edge_added_list_q numVert tris added marked keepInterior).
  Proof.
    intro Hn. unfold nonneg, edge_added_list_q, edge_added_list. apply Forall_forall. intros x Hx.
    apply in_map_iff in Hx. destruct Hx as ([[u v] h] & <- & Hin).
    apply eadd_nonneg; [exact Hn|eapply tmp_edges_lt, Hin].
  Qed.

  (* ---------------------------------------------------------------- *)
  (* B2'. per-face patterns + B1' => the output is closed and oriented   *)

  Notation eaddq := (eadd numVert tris added marked keepInterior).

  Lemma reindex_faces_coef ts : forall ps ios out,
    reindex_faces T numVert tris added marked keepInterior ts ps ios = Some out ->
    Forall2 (fun t p => face_part T tzero tone tlerp numVert tris added marked keepInterior t = Some p) ts ps ->
    (forall t p io rt, In t ts ->
       face_part T tzero tone tlerp numVert tris added marked keepInterior t = Some p ->
       face_out T numVert tris added marked keepInterior t p io = Some rt ->
       ceq (boundaries rt) (face_outline tris marked (goff numVert tris eaddq) (gadd numVert tris eaddq) t)) ->
    ceq (boundaries out)
        (flat_map (face_outline tris marked (goff numVert tris eaddq) (gadd numVert tris eaddq)) ts).
  Proof.
    induction ts as [|t ts IH]; intros ps ios out H HF HP.
    - cbn [reindex_faces] in H. injection H as <-. apply ceq_refl.
    - cbn [reindex_faces] in H. destruct ps as [|pt ps]; [discriminate|]. destruct ios as [|io ios]; [discriminate|].
      destruct (face_out T numVert tris added marked keepInterior t pt io) as [rt|] eqn:Et; [|discriminate].
      destruct (reindex_faces T numVert tris added marked keepInterior ts ps ios) as [rest|] eqn:Er; [|discriminate].
      injection H as <-. inversion HF as [|? ? ? ? Hsp HF']; subst.
      intros a b. rewrite coef_boundaries_app. cbn [flat_map]. rewrite coef_app.
      rewrite (HP t pt io rt (or_introl eq_refl) Hsp Et a b).
      rewrite (IH ps ios rest Er HF'); [reflexivity|].
      intros t' p' io' rt' Hin. apply HP. right. exact Hin.
  Qed.
End ModelQ.

(* the adjustment of the keepInterior block never lowers an entry below 0 *)
Theorem eadd_nonneg_q :
  forall (numVert : Z) (tris : list tri) (added : Z -> Z -> Z) (marked : Z -> Z -> bool)
         (keepInterior : bool) (u v : Z),
  (forall u v, 0 <= added u v) -> u < v ->
  0 <= eadd numVert tris added marked keepInterior u v.
Proof. intros. apply eadd_nonneg; assumption. Qed.

(* Theorem A', edge vertices: edgeOffset[i] + [0, edgeAdded[i]) tile
   [numVert, numVert + totalEdgeAdded), with marked quads and for both values
   of keepInterior, whenever the edgeDivisions oracle is non-negative *)
Theorem new_indices_once_edges_q :
  forall (numVert : Z) (tris : list tri) (added : Z -> Z -> Z) (marked : Z -> Z -> bool) (keepInterior : bool),
  (forall u v, 0 <= added u v) ->
  let offs := edge_offset_list_q numVert tris added marked keepInterior in
  let ns := edge_added_list_q numVert tris added marked keepInterior in
  let total := total_edge_added_q numVert tris added marked keepInterior in
  (forall i k x, in_run offs ns i k x -> numVert <= x < numVert + total) /\
  (forall x, numVert <= x < numVert + total ->
     (exists i k, in_run offs ns i k x) /\
     (forall i k i' k', in_run offs ns i k x -> in_run offs ns i' k' x -> i = i' /\ k = k')).
Proof.
  intros numVert tris added marked keepInterior Hn.
  apply (exclusive_scan_partition numVert (edge_added_list_q numVert tris added marked keepInterior)).
  apply edge_added_list_q_nonneg, Hn.
Qed.

(* Theorem A', interior vertices: interiorOffset[t] + [0, NumInterior[t]) tile the
   interval after the edge vertices, for any list of partitions (in particular
   `face_parts`, where the skipped triangle of a quad has the empty partition) *)
Theorem new_indices_once_interior_q :
  forall (T : Type) (numVert : Z) (tris : list tri) (added : Z -> Z -> Z) (marked : Z -> Z -> bool)
         (keepInterior : bool) (ps : list (partition T)),
  nonneg (num_interior_list T ps) ->
  let lo := numVert + total_edge_added_q numVert tris added marked keepInterior in
  let hi := lo + zsum (num_interior_list T ps) in
  let offs := interior_offset_list_q T numVert tris added marked keepInterior ps in
  (forall t k x, in_run offs (num_interior_list T ps) t k x -> lo <= x < hi) /\
  (forall x, lo <= x < hi ->
     (exists t k, in_run offs (num_interior_list T ps) t k x) /\
     (forall t k t' k', in_run offs (num_interior_list T ps) t k x ->
                        in_run offs (num_interior_list T ps) t' k' x -> t = t' /\ k = k')).
Proof.
  intros T numVert tris added marked keepInterior ps.
  apply (exclusive_scan_partition (numVert + total_edge_added_q numVert tris added marked keepInterior)
                                  (num_interior_list T ps)).
Qed.

(* the skipped (higher) triangle of a quad gets the empty partition: no
   triangles and no interior vertices *)
Theorem skipped_face_empty :
  forall (T : Type) (tzero tone : T) (tlerp : T -> T -> Z -> Z -> T)
         (numVert : Z) (tris : list tri) (added : Z -> Z -> Z) (marked : Z -> Z -> bool)
         (keepInterior : bool) (t : Z),
  get_halfedges tris marked t = Some (V4 (-1) (-1) (-1) (-1)) ->
  face_part T tzero tone tlerp numVert tris added marked keepInterior t = Some (empty_partition T) /\
  num_interior T (empty_partition T) = 0 /\
  forall p io, face_out T numVert tris added marked keepInterior t p io = Some [].
Proof.
  intros T tzero tone tlerp numVert tris added marked keepInterior t H.
  unfold face_part, face_out. rewrite H. repeat split; reflexivity.
Qed.

(* Theorem B2'.  H_pattern_q (hypothesis, per face): whenever the model
   computes the pattern p of the face of triangle number t and reindexes it
   (with any interior offset io), the boundary of the reindexed pattern
   triangles is the global outline of that face, with the offsets and numbers
   of added vertices the model looks up in its final edge table.  Then for
   EVERY closed oriented input of non-degenerate triangles, EVERY edgeAdded
   oracle, EVERY symmetric marking passing `quads_valid` and both values of
   keepInterior the subdivided soup is closed and oriented. *)
Theorem subdivide_q_balances :
  forall (T : Type) (tzero tone : T) (tlerp : T -> T -> Z -> Z -> T)
         (numVert : Z) (tris : list tri) (added : Z -> Z -> Z) (marked : Z -> Z -> bool)
         (keepInterior : bool) (out : list tri),
  ceq (boundaries tris) [] ->
  (forall p q r, In (p, q, r) tris -> p <> q /\ q <> r /\ r <> p) ->
  (forall x y, marked x y = marked y x) ->
  quads_valid tris marked = true ->
  (forall (t : Z) (p : partition T) (io : Z) (rt : list tri),
     In t (tri_ids tris) ->
     face_part T tzero tone tlerp numVert tris added marked keepInterior t = Some p ->
     face_out T numVert tris added marked keepInterior t p io = Some rt ->
     ceq (boundaries rt)
         (face_outline tris marked
            (goff numVert tris (eadd numVert tris added marked keepInterior))
            (gadd numVert tris (eadd numVert tris added marked keepInterior)) t)) ->
  subdivide_tris_q T tzero tone tlerp numVert tris added marked keepInterior = Some out ->
  ceq (boundaries out) [].
Proof.
  intros T tzero tone tlerp numVert tris added marked keepInterior out Hclosed Hnd Hsym Hqv Hpat H.
  unfold subdivide_tris_q in H.
  destruct (negb (edges_distinct tris && halfedges_unique tris)); [discriminate|].
  destruct (is_empty tris || is_empty (tmp_edges tris)); [discriminate|].
  destruct (too_large numVert tris added marked) as [[|]|]; [|                |discriminate].
  { injection H as <-. apply ceq_refl. }
  destruct (negb (keep_defined numVert tris added marked keepInterior)); [discriminate|].
  destruct (face_parts T tzero tone tlerp numVert tris added marked keepInterior) as [ps|] eqn:Eps; [|discriminate].
  apply omap_Forall2 in Eps.
  eapply ceq_trans.
  - eapply (reindex_faces_coef T tzero tone tlerp numVert tris added marked keepInterior); eassumption.
  - apply gout_q_balances; assumption.
Qed.

(* ------------------------------------------------------------------ *)
(* V. `quads_valid` follows from the port of ValidTangents()              *)

Lemma prev_he_0 t : prev_he (3 * t) = 3 * t + 2.
Proof. unfold prev_he. replace (3 * t) with (3 * t + 0) at 1 by lia. rewrite (proj2 (div3 t 0 ltac:(lia))). reflexivity. Qed.
Lemma prev_he_1 t : prev_he (3 * t + 1) = 3 * t.
Proof. unfold prev_he. rewrite (proj2 (div3 t 1 ltac:(lia))). cbn. lia. Qed.
Lemma prev_he_2 t : prev_he (3 * t + 2) = 3 * t + 1.
Proof. unfold prev_he. rewrite (proj2 (div3 t 2 ltac:(lia))). cbn. lia. Qed.

Lemma vget_in_range {A} (l : list A) k : 0 <= k < Z.of_nat (length l) -> exists x, vget l k = Some x.
Proof.
  intro H. unfold vget. destruct (Z.ltb_spec k 0) as [Hk|Hk]; [lia|].
  destruct (nth_error l (Z.to_nat k)) as [x|] eqn:E; [exists x; reflexivity|].
  apply nth_error_None in E. lia.
Qed.

Section ValidTangents.
  Variable tris : list tri.
  Variable marked : Z -> Z -> bool.
  Hypothesis Hnd : nondegenerate tris.
  Hypothesis Hu : halfedges_unique tris = true.
  Hypothesis Hvt : valid_tangents tris marked = true.

  Lemma in_he_ids t i : In t (tri_ids tris) -> 0 <= i < 3 -> In (3 * t + i) (he_ids tris).
  Proof. unfold he_ids, tri_ids, num_tri. rewrite !in_zrange. lia. Qed.

  Lemma vt_at h : In h (he_ids tris) ->
    exists pr m, pair_of tris h = Some pr /\ he_marked tris marked h = Some m /\ he_marked tris marked pr = Some m /\
      (m = true ->
       he_marked tris marked (next_he h) = Some false /\ he_marked tris marked (prev_he h) = Some false /\
       he_marked tris marked (next_he pr) = Some false /\ he_marked tris marked (prev_he pr) = Some false).
  Proof.
    intro Hin. pose proof Hvt as Hv. unfold valid_tangents in Hv. rewrite forallb_forall in Hv. specialize (Hv h Hin).
    destruct (he_marked tris marked h) as [m|] eqn:Em; [|discriminate].
    destruct (pair_of tris h) as [pr|] eqn:Ep; [|discriminate].
    destruct (he_marked tris marked pr) as [mp|] eqn:Emp; [|discriminate].
    destruct (he_marked tris marked (next_he h)) as [m1|] eqn:E1; [|discriminate].
    destruct (he_marked tris marked (prev_he h)) as [m2|] eqn:E2; [|discriminate].
    destruct (he_marked tris marked (next_he pr)) as [m3|] eqn:E3; [|discriminate].
    destruct (he_marked tris marked (prev_he pr)) as [m4|] eqn:E4; [|discriminate].
    exists pr, m. split; [reflexivity|]. split; [reflexivity|].
    destruct m, mp; cbn in Hv; try discriminate.
    - split; [exact Emp|]. intros _. destruct m1, m2, m3, m4; cbn in Hv; try discriminate. auto.
    - split; [exact Emp|]. intro; discriminate.
  Qed.

  Lemma hu_at h x y : In h (he_ids tris) -> he tris h = Some (x, y) -> find_he tris 0 x y = Some h.
  Proof.
    intros Hin Hh. pose proof Hu as H. unfold halfedges_unique in H. rewrite forallb_forall in H.
    specialize (H h Hin). rewrite Hh in H. apply oZ_eqb_eq, H.
  Qed.

  Lemma he_marked_tri t p q r : vget tris t = Some (p, q, r) ->
    he_marked tris marked (3 * t) = Some (marked p q) /\ he_marked tris marked (3 * t + 1) = Some (marked q r) /\
    he_marked tris marked (3 * t + 2) = Some (marked r p).
  Proof.
    intro Ev. destruct (he_tri _ _ _ _ _ Ev) as (H0 & H1 & H2). unfold he_marked. rewrite H0, H1, H2.
    repeat split; reflexivity.
  Qed.

  (* a triangle whose only marked side is k: the body of `quads_valid` *)
  Lemma single_ok t k p q r : In t (tri_ids tris) -> 0 <= k < 3 -> vget tris t = Some (p, q, r) ->
    he_marked tris marked (3 * t + k) = Some true ->
    (forall j, 0 <= j < 3 -> j <> k -> he_marked tris marked (3 * t + j) = Some false) ->
    match pair_of tris (3 * t + k) with
    | None => false
    | Some pr => negb (pr / 3 =? t) && oZ_eqb (get_neighbor tris marked (pr / 3)) (pr mod 3)
                 && oZ_eqb (pair_of tris pr) (3 * t + k)
    end = true.
  Proof.
    intros Hin Hk Ev Hm Hother.
    destruct (vt_at (3 * t + k) (in_he_ids t k Hin Hk)) as (pr & m & Hp & Hm' & Hmp & Hrest).
    rewrite Hm in Hm'. injection Hm' as <-. destruct (Hrest eq_refl) as (_ & _ & Hn & Hpv).
    rewrite Hp.
    pose proof (he_idx tris t k _ Hk Ev) as Hh. set (xy := tri_side (p, q, r) k) in *.
    destruct xy as [x y] eqn:Exy.
    assert (Hhp : he tris pr = Some (y, x)).
    { unfold pair_of in Hp. rewrite Hh in Hp. apply find_he_he, Hp. }
    assert (Hxy : x <> y).
    { assert (Hin3 : In (p, q, r) tris).
      { unfold vget in Ev. destruct (t <? 0); [discriminate|]. eapply nth_error_In, Ev. }
      destruct (Hnd p q r Hin3) as (N1 & N2 & N3). unfold xy, tri_side in Exy.
      destruct (Z.eqb_spec k 0); [injection Exy as <- <-; exact N1|].
      destruct (Z.eqb_spec k 1); [injection Exy as <- <-; exact N2|]. injection Exy as <- <-; exact N3. }
    pose proof (Z.mod_pos_bound pr 3 ltac:(lia)) as Hj. pose proof (Z.div_mod pr 3 ltac:(lia)) as Hdm.
    assert (Hne : pr / 3 <> t).
    { intro E. rewrite E in Hdm. destruct (Z.eq_dec (pr mod 3) k) as [Ej|Ej].
      - rewrite Ej in Hdm. rewrite Hdm, Hh in Hhp. injection Hhp as E1 E2. congruence.
      - rewrite Hdm, (Hother (pr mod 3) Hj Ej) in Hmp. discriminate. }
    assert (Hpp : pair_of tris pr = Some (3 * t + k)).
    { unfold pair_of. rewrite Hhp. apply hu_at; [apply in_he_ids; assumption|exact Hh]. }
    assert (Hnb : get_neighbor tris marked (pr / 3) = Some (pr mod 3)).
    { destruct (he_some _ _ _ _ Hhp) as (v0 & v1 & v2 & Ev' & _ & _).
      rewrite (get_neighbor_of_tri tris marked _ v0 v1 v2 Ev').
      destruct (he_marked_tri _ _ _ _ Ev') as (M0 & M1 & M2).
      set (t' := pr / 3) in *. set (j := pr mod 3) in *.
      assert (Hc : j = 0 \/ j = 1 \/ j = 2) by lia.
      destruct Hc as [Ej|[Ej|Ej]]; rewrite Ej in *; rewrite Hdm in Hmp, Hn, Hpv.
      - rewrite Z.add_0_r in Hmp, Hn, Hpv. rewrite next_he_0 in Hn. rewrite prev_he_0 in Hpv.
        replace (marked v0 v1) with true by congruence. replace (marked v1 v2) with false by congruence.
        replace (marked v2 v0) with false by congruence. reflexivity.
      - rewrite next_he_1 in Hn. rewrite prev_he_1 in Hpv.
        replace (marked v0 v1) with false by congruence. replace (marked v1 v2) with true by congruence.
        replace (marked v2 v0) with false by congruence. reflexivity.
      - rewrite next_he_2 in Hn. rewrite prev_he_2 in Hpv.
        replace (marked v0 v1) with false by congruence. replace (marked v1 v2) with false by congruence.
        replace (marked v2 v0) with true by congruence. reflexivity. }
    rewrite Hnb, Hpp. cbn [oZ_eqb]. rewrite !Z.eqb_refl. destruct (Z.eqb_spec (pr / 3) t); [contradiction|reflexivity].
  Qed.

  (* what ValidTangents() checks (with the pairing of the model, on its domain)
     implies the hypothesis of B1' and B2' *)
  Lemma valid_tangents_quads_valid : quads_valid tris marked = true.
  Proof.
    unfold quads_valid. apply forallb_forall. intros t Hin.
    destruct (vget_in_range tris t (proj1 (in_tri_ids tris t) Hin)) as ([[p q] r] & Ev).
    rewrite (get_neighbor_of_tri tris marked t p q r Ev).
    destruct (he_marked_tri t p q r Ev) as (M0 & M1 & M2).
    assert (A0 : 0 <= 0 < 3) by lia. assert (A1 : 0 <= 1 < 3) by lia. assert (A2 : 0 <= 2 < 3) by lia.
    assert (Hone : forall k, 0 <= k < 3 -> he_marked tris marked (3 * t + k) = Some true ->
              he_marked tris marked (next_he (3 * t + k)) = Some false /\
              he_marked tris marked (prev_he (3 * t + k)) = Some false).
    { intros k Hk Hm. destruct (vt_at (3 * t + k) (in_he_ids t k Hin Hk)) as (pr & m & _ & Hm' & _ & Hrest).
      rewrite Hm in Hm'. injection Hm' as <-. destruct (Hrest eq_refl) as (Ha & Hb & _). auto. }
    destruct (marked p q) eqn:E0, (marked q r) eqn:E1, (marked r p) eqn:E2.
    - exfalso. destruct (Hone 0 A0) as [Ha _]; [rewrite Z.add_0_r; exact M0|].
      rewrite Z.add_0_r, next_he_0 in Ha. congruence.
    - exfalso. destruct (Hone 0 A0) as [Ha _]; [rewrite Z.add_0_r; exact M0|].
      rewrite Z.add_0_r, next_he_0 in Ha. congruence.
    - exfalso. destruct (Hone 0 A0) as [_ Hb]; [rewrite Z.add_0_r; exact M0|].
      rewrite Z.add_0_r, prev_he_0 in Hb. congruence.
    - change (nb_step (nb_step (nb_step (-1) 0 true) 1 false) 2 false) with 0. change (0 <? 0) with false. cbv iota.
      apply (single_ok t 0 p q r Hin A0 Ev); [rewrite Z.add_0_r; exact M0|].
      intros j Hj Hne. assert (Hc : j = 1 \/ j = 2) by lia. destruct Hc as [-> | ->]; assumption.
    - exfalso. destruct (Hone 1 A1 M1) as [Ha _]. rewrite next_he_1 in Ha. congruence.
    - change (nb_step (nb_step (nb_step (-1) 0 false) 1 true) 2 false) with 1. change (1 <? 0) with false. cbv iota.
      apply (single_ok t 1 p q r Hin A1 Ev M1).
      intros j Hj Hne. assert (Hc : j = 0 \/ j = 2) by lia. destruct Hc as [-> | ->]; [rewrite Z.add_0_r|]; assumption.
    - change (nb_step (nb_step (nb_step (-1) 0 false) 1 false) 2 true) with 2. change (2 <? 0) with false. cbv iota.
      apply (single_ok t 2 p q r Hin A2 Ev M2).
      intros j Hj Hne. assert (Hc : j = 0 \/ j = 1) by lia. destruct Hc as [-> | ->]; [rewrite Z.add_0_r|]; assumption.
    - reflexivity.
  Qed.
End ValidTangents.

(* `quads_valid`, the hypothesis of B1' and B2', is implied by the port of
   Manifold::Impl::ValidTangents (what Refine checks before it calls
   Subdivide) on the domain of the pairing by lookup *)
Theorem valid_tangents_implies_quads_valid :
  forall (tris : list tri) (marked : Z -> Z -> bool),
  (forall p q r, In (p, q, r) tris -> p <> q /\ q <> r /\ r <> p) ->
  halfedges_unique tris = true ->
  valid_tangents tris marked = true ->
  quads_valid tris marked = true.
Proof. intros tris marked Hnd Hu Hvt. apply valid_tangents_quads_valid; assumption. Qed.

(* ------------------------------------------------------------------ *)
(* H. `edges[i].halfedgeIdx`: the halfedge the keepInterior block looks up by
   end points is the one stored in the row of the edge                    *)

Lemma enum_boundaries_he h s e : forall ts pre,
  In (h, (s, e)) (enum_from (3 * Z.of_nat (length pre)) (boundaries ts)) ->
  he (pre ++ ts) h = Some (s, e) /\ 0 <= h < 3 * Z.of_nat (length (pre ++ ts)).
Proof.
  induction ts as [|[[v0 v1] v2] r IH]; intros pre Hin; [destruct Hin|].
  assert (Hv : vget (pre ++ (v0, v1, v2) :: r) (Z.of_nat (length pre)) = Some (v0, v1, v2)) by apply vget_app_len.
  remember (Z.of_nat (length pre)) as t eqn:Et.
  destruct (he_tri _ _ _ _ _ Hv) as (H0 & H1 & H2).
  assert (Hlen : Z.of_nat (length (pre ++ (v0, v1, v2) :: r)) = t + 1 + Z.of_nat (length r)).
  { rewrite app_length. cbn [length]. lia. }
  assert (Ht : 0 <= t) by lia.
  unfold boundaries in Hin. cbn [flat_map boundary app enum_from] in Hin. fold (boundaries r) in Hin.
  replace (3 * t + 1 + 1) with (3 * t + 2) in Hin by lia.
  destruct Hin as [E|[E|[E|Hin]]].
  - assert (Eh : h = 3 * t) by congruence. assert (Es : s = v0) by congruence. assert (Ee : e = v1) by congruence.
    rewrite Eh, Es, Ee. split; [exact H0|rewrite app_length; cbn [length]; lia].
  - assert (Eh : h = 3 * t + 1) by congruence. assert (Es : s = v1) by congruence. assert (Ee : e = v2) by congruence.
    rewrite Eh, Es, Ee. split; [exact H1|rewrite app_length; cbn [length]; lia].
  - assert (Eh : h = 3 * t + 2) by congruence. assert (Es : s = v2) by congruence. assert (Ee : e = v0) by congruence.
    rewrite Eh, Es, Ee. split; [exact H2|rewrite app_length; cbn [length]; lia].
  - specialize (IH (pre ++ [(v0, v1, v2)])). rewrite <- app_assoc in IH. cbn [app] in IH. apply IH.
    rewrite app_length. cbn [length]. replace (3 * Z.of_nat (length pre + 1)) with (3 * t + 2 + 1) by lia. exact Hin.
Qed.

Theorem tmp_edges_find_he : forall (tris : list tri) (u v h : Z),
  halfedges_unique tris = true ->
  In (u, v, h) (tmp_edges tris) ->
  he tris h = Some (u, v) /\ find_he tris 0 u v = Some h.
Proof.
  intros tris u v h Hu Hin. unfold tmp_edges in Hin. apply in_flat_map in Hin.
  destruct Hin as ([h' [s e]] & Hen & Hin).
  destruct (s <? e); [|destruct Hin]. destruct Hin as [E|[]]. injection E as -> -> ->.
  change 0 with (3 * Z.of_nat (length (@nil tri))) in Hen.
  destruct (enum_boundaries_he _ _ _ tris [] Hen) as [Hh Hr]. cbn [app] in Hh, Hr.
  split; [exact Hh|]. apply hu_at; [exact Hu| |exact Hh].
  unfold he_ids, num_tri. apply in_zrange. unfold Chain.tri, PartitionDefs.tri in *. lia.
Qed.

(* ------------------------------------------------------------------ *)
(* E. the general model restricted to "no marked halfedge, keepInterior =
   false" is the model of SubdivideDefs.v                                *)

Lemma map_eq_Forall2 {A B C} (f : A -> C) (g : B -> C) l : forall l',
  map f l = map g l' -> Forall2 (fun x y => f x = g y) l l'.
Proof.
  induction l as [|x t IH]; intros [|y t'] H; cbn [map] in H; try discriminate; constructor.
  - congruence.
  - apply IH. congruence.
Qed.

Lemma Forall2_imp {A B} (R S : A -> B -> Prop) l l' :
  (forall x y, R x y -> S x y) -> Forall2 R l l' -> Forall2 S l l'.
Proof. intro H. induction 1; constructor; auto. Qed.

Lemma tri_ids_Forall2 (tris : list tri) : Forall2 (fun t tr => vget tris t = Some tr) (tri_ids tris) tris.
Proof. apply map_eq_Forall2, map_vget_tri_ids. Qed.

Lemma omap_Forall2_eq {A B C} (F : A -> option C) (G : B -> option C) l l' :
  Forall2 (fun x y => F x = G y) l l' -> omap F l = omap G l'.
Proof. induction 1 as [|x y l l' E _ IH]; [reflexivity|]. cbn [omap]. rewrite E, IH. reflexivity. Qed.

Section Restrict.
  Variable T : Type.
  Variables tzero tone : T.
  Variable tlerp : T -> T -> Z -> Z -> T.
  Variable numVert : Z.
  Variable tris : list tri.
  Variable added : Z -> Z -> Z.

  Notation nomark := (fun _ _ : Z => false).

  Lemma restrict_halfedges t tr : vget tris t = Some tr ->
    get_halfedges tris nomark t = Some (V4 (3 * t) (3 * t + 1) (3 * t + 2) (-1)).
  Proof.
    destruct tr as [[v0 v1] v2]. intro Ev. unfold get_halfedges.
    rewrite (get_neighbor_of_tri tris nomark t v0 v1 v2 Ev). reflexivity.
  Qed.

  Lemma restrict_part t tr : vget tris t = Some tr ->
    face_part T tzero tone tlerp numVert tris added nomark false t = sub_part T tzero tone tlerp numVert tris added tr.
  Proof.
    intro Ev. pose proof (vget_range _ _ _ Ev) as Hr. unfold face_part. rewrite (restrict_halfedges t tr Ev).
    destruct tr as [[v0 v1] v2]. destruct (he_tri _ _ _ _ _ Ev) as (H0 & H1 & H2).
    unfold face_divisions, he_info. cbn [c0 c1 c2 c3]. rewrite H0, H1, H2.
    destruct (Z.ltb_spec (3 * t) 0); [lia|]. destruct (Z.ltb_spec (3 * t + 1) 0); [lia|].
    destruct (Z.ltb_spec (3 * t + 2) 0); [lia|].
    change (eadd numVert tris added nomark false) with added. cbn [sub_part].
    change (-1 <? 0) with true. cbv iota.
    destruct (edge_info numVert tris added v0 v1) as [[n0 o0]|]; [|reflexivity].
    destruct (edge_info numVert tris added v1 v2) as [[n1 o1]|]; [|reflexivity].
    destruct (edge_info numVert tris added v2 v0) as [[n2 o2]|]; reflexivity.
  Qed.

  Lemma restrict_out t tr p io : vget tris t = Some tr ->
    face_out T numVert tris added nomark false t p io = tri_out T numVert tris added tr p io.
  Proof.
    intro Ev. pose proof (vget_range _ _ _ Ev) as Hr. unfold face_out. rewrite (restrict_halfedges t tr Ev).
    destruct tr as [[v0 v1] v2]. destruct (he_tri _ _ _ _ _ Ev) as (H0 & H1 & H2).
    unfold face_arg, he_info. cbn [c0 c1 c2 c3]. rewrite H0, H1, H2.
    destruct (Z.ltb_spec (3 * t) 0); [lia|]. destruct (Z.ltb_spec (3 * t + 1) 0); [lia|].
    destruct (Z.ltb_spec (3 * t + 2) 0); [lia|].
    change (eadd numVert tris added nomark false) with added. cbn [tri_out].
    change (-1 <? 0) with true. cbv iota.
    destruct (edge_info numVert tris added v0 v1) as [[n0 o0]|]; [|reflexivity].
    destruct (edge_info numVert tris added v1 v2) as [[n1 o1]|]; [|reflexivity].
    destruct (edge_info numVert tris added v2 v0) as [[n2 o2]|]; reflexivity.
  Qed.

  Lemma restrict_reindex ts trs : Forall2 (fun t tr => vget tris t = Some tr) ts trs ->
    forall ps ios, reindex_faces T numVert tris added nomark false ts ps ios =
                   reindex_all T numVert tris added trs ps ios.
  Proof.
    induction 1 as [|t tr ts trs Ev _ IH]; intros ps ios; [reflexivity|].
    cbn [reindex_faces reindex_all]. destruct ps as [|p ps]; [reflexivity|]. destruct ios as [|io ios]; [reflexivity|].
    rewrite (restrict_out t tr p io Ev), IH. reflexivity.
  Qed.

  Lemma restrict_parts :
    face_parts T tzero tone tlerp numVert tris added nomark false = sub_parts T tzero tone tlerp numVert tris added.
  Proof.
    unfold face_parts, sub_parts. apply omap_Forall2_eq.
    eapply Forall2_imp; [|apply tri_ids_Forall2]. intros t tr Ev. apply restrict_part, Ev.
  Qed.
End Restrict.

(* with no marked halfedge and keepInterior = false the general model computes
   exactly what the restricted model computes, on the domain of the pairing by
   lookup and when the ResultTooLarge exit (absent from SubdivideDefs.v) is
   not taken *)
Theorem subdivide_q_restricts :
  forall (T : Type) (tzero tone : T) (tlerp : T -> T -> Z -> Z -> T)
         (numVert : Z) (tris : list tri) (added : Z -> Z -> Z),
  halfedges_unique tris = true ->
  too_large numVert tris added (fun _ _ => false) = Some false ->
  subdivide_tris_q T tzero tone tlerp numVert tris added (fun _ _ => false) false =
  subdivide_tris T tzero tone tlerp numVert tris added.
Proof.
  intros T tzero tone tlerp numVert tris added Hu Htl.
  unfold subdivide_tris_q, subdivide_tris. rewrite Hu, Htl, andb_true_r.
  destruct (negb (edges_distinct tris)); [reflexivity|].
  destruct (is_empty tris || is_empty (tmp_edges tris)); [reflexivity|].
  cbn [keep_defined negb]. rewrite restrict_parts.
  destruct (sub_parts T tzero tone tlerp numVert tris added) as [ps|]; [|reflexivity].
  apply restrict_reindex, tri_ids_Forall2.
Qed.

(* ------------------------------------------------------------------ *)
(* concrete meshes                                                      *)

Definition nomark (x y : Z) : bool := false.

(* closed and oriented, and every vertex below the new vertex count is used *)
Definition closed_all_used (o : option (list tri)) (nv : option Z) : bool :=
  match o, nv with
  | Some out, Some k => chain_zerob (boundaries out) && forallb (fun v => occurs v out) (zrange (Z.to_nat k) 0 1)
  | _, _ => false
  end.

(* the tetrahedron of SubdivideModel.v: the general model reproduces the
   restricted one (also through `subdivide_q_restricts`) *)
Example tetra_q_same :
  subdivide_tris_q Q 0%Q 1%Q qlerp 4 tetra tetra_added nomark false = Some tetra_out /\
  subdivide_tris_q float 0%float 1%float flerp 4 tetra tetra_added nomark false = Some tetra_out /\
  halfedges_unique tetra = true /\ too_large 4 tetra tetra_added nomark = Some false.
Proof. vm_compute. repeat split; reflexivity. Qed.

(* keepInterior = true on the tetrahedron: every edge gets extra vertices *)
Example tetra_keep :
  edge_added_list_q 4 tetra tetra_added nomark false = [2; 1; 1; 0; 2; 0] /\
  edge_added_list_q 4 tetra tetra_added nomark true = [2; 2; 2; 2; 2; 1] /\
  keep_defined 4 tetra tetra_added nomark true = true /\
  subdivide_numvert_q Q 0%Q 1%Q qlerp 4 tetra tetra_added nomark true = Some 19 /\
  option_map (@length tri) (subdivide_tris_q Q 0%Q 1%Q qlerp 4 tetra tetra_added nomark true) = Some 34%nat /\
  closed_all_used (subdivide_tris_q Q 0%Q 1%Q qlerp 4 tetra tetra_added nomark true)
                  (subdivide_numvert_q Q 0%Q 1%Q qlerp 4 tetra tetra_added nomark true) = true /\
  subdivide_tris_q float 0%float 1%float flerp 4 tetra tetra_added nomark true =
  subdivide_tris_q Q 0%Q 1%Q qlerp 4 tetra tetra_added nomark true.
Proof. vm_compute. repeat split; reflexivity. Qed.

(* a long edge next to short ones: the strip case the keepInterior block avoids *)
Definition tetra_long (u v : Z) : Z :=
  if (u =? 0) && (v =? 1) then 7 else if (u =? 2) && (v =? 3) then 1 else 0.
Example tetra_keep_long :
  edge_added_list_q 4 tetra tetra_long nomark false = [0; 7; 0; 0; 1; 0] /\
  edge_added_list_q 4 tetra tetra_long nomark true = [9; 7; 9; 9; 1; 9] /\
  closed_all_used (subdivide_tris_q Q 0%Q 1%Q qlerp 4 tetra tetra_long nomark true)
                  (subdivide_numvert_q Q 0%Q 1%Q qlerp 4 tetra tetra_long nomark true) = true.
Proof. vm_compute. repeat split; reflexivity. Qed.

(* the unit cube, vertex x + 2y + 4z, two triangles per side, outward *)
Definition cube : list tri :=
  [(0, 2, 3); (0, 3, 1); (4, 5, 7); (4, 7, 6); (0, 1, 5); (0, 5, 4);
   (2, 6, 7); (2, 7, 3); (0, 4, 6); (0, 6, 2); (1, 3, 7); (1, 7, 5)].
(* the diagonals of the sides z = 0, z = 1 and x = 1 are insides of quads *)
Definition cube_marked (x y : Z) : bool :=
  let u := Z.min x y in let v := Z.max x y in
  ((u =? 0) && (v =? 3)) || ((u =? 4) && (v =? 7)) || ((u =? 1) && (v =? 7)).
Definition cube_added (u v : Z) : Z := (u + 2 * v) mod 4.

Example cube_quads :
  chain_zerob (boundaries cube) = true /\
  halfedges_unique cube = true /\ valid_tangents cube cube_marked = true /\ quads_valid cube cube_marked = true /\
  faces cube cube_marked =
  Some [V4 4 5 0 1; V4 (-1) (-1) (-1) (-1); V4 10 11 6 7; V4 (-1) (-1) (-1) (-1);
        V4 12 13 14 (-1); V4 15 16 17 (-1); V4 18 19 20 (-1); V4 21 22 23 (-1);
        V4 24 25 26 (-1); V4 27 28 29 (-1); V4 34 35 30 31; V4 (-1) (-1) (-1) (-1)] /\
  get_indices cube cube_marked 2 = Some (-1, -1, -1) /\
  get_indices cube cube_marked 3 = Some (-1, -1, -1) /\
  get_indices cube cube_marked 4 = Some (0, 0, 1) /\
  get_indices cube cube_marked 1 = Some (0, 3, 0).
Proof. vm_compute. repeat split; reflexivity. Qed.

Example cube_subdivide :
  edge_added_list_q 8 cube cube_added cube_marked false = [0; 0; 0; 2; 3; 0; 2; 3; 2; 2; 0; 0; 0; 0; 0; 3; 1; 0] /\
  edge_added_list_q 8 cube cube_added cube_marked true = [3; 2; 0; 2; 3; 0; 2; 3; 2; 2; 3; 3; 1; 0; 3; 3; 1; 0] /\
  too_large 8 cube cube_added cube_marked = Some false /\
  subdivide_numvert_q Q 0%Q 1%Q qlerp 8 cube cube_added cube_marked false = Some 34 /\
  subdivide_numvert_q Q 0%Q 1%Q qlerp 8 cube cube_added cube_marked true = Some 64 /\
  closed_all_used (subdivide_tris_q Q 0%Q 1%Q qlerp 8 cube cube_added cube_marked false)
                  (subdivide_numvert_q Q 0%Q 1%Q qlerp 8 cube cube_added cube_marked false) = true /\
  closed_all_used (subdivide_tris_q Q 0%Q 1%Q qlerp 8 cube cube_added cube_marked true)
                  (subdivide_numvert_q Q 0%Q 1%Q qlerp 8 cube cube_added cube_marked true) = true /\
  subdivide_tris_q float 0%float 1%float flerp 8 cube cube_added cube_marked false =
  subdivide_tris_q Q 0%Q 1%Q qlerp 8 cube cube_added cube_marked false /\
  subdivide_tris_q float 0%float 1%float flerp 8 cube cube_added cube_marked true =
  subdivide_tris_q Q 0%Q 1%Q qlerp 8 cube cube_added cube_marked true.
Proof. vm_compute. repeat split; reflexivity. Qed.

(* every edge vertex has exactly one vertBary owner; nothing is written for
   the (empty) insides of the quads *)
Example cube_edge_owners :
  option_map (map fst) (edge_vert_owners_q 8 cube cube_added cube_marked false) = Some (zrange 18 8 1) /\
  option_map (map fst) (edge_vert_owners_q 8 cube cube_added cube_marked true) = Some (zrange 33 8 1).
Proof. vm_compute. split; reflexivity. Qed.

(* the hypotheses of `subdivide_q_balances` are satisfiable: a cube with three
   quads and no interior vertices (so io is irrelevant), H_pattern_q checked
   per face with the decision procedure `chain_eqb` *)
Definition cube_added2 (u v : Z) : Z :=
  if v - u =? 4 then 2 else if (u =? 0) && (v =? 1) then 1 else if (u =? 2) && (v =? 3) then 3 else 0.
Definition cube_out2 : list tri :=
  [(1, 11, 10); (11, 9, 10); (1, 10, 3); (11, 0, 8); (0, 2, 8); (11, 8, 9); (7, 6, 4); (7, 4, 5);
   (1, 12, 11); (11, 12, 0); (0, 12, 13); (13, 5, 0); (4, 17, 5); (17, 16, 5); (16, 0, 5); (2, 14, 7);
   (14, 15, 7); (15, 6, 7); (3, 10, 18); (19, 18, 9); (9, 18, 10); (7, 19, 8); (8, 19, 9); (8, 2, 7);
   (0, 16, 6); (16, 17, 6); (17, 4, 6); (14, 2, 0); (15, 14, 0); (6, 15, 0); (5, 13, 19); (5, 19, 7);
   (13, 12, 18); (13, 18, 19); (12, 1, 3); (12, 3, 18)].

Example cube_pattern :
  forall (t : Z) (p : partition Q) (io : Z) (rt : list tri),
  In t (tri_ids cube) ->
  face_part Q 0%Q 1%Q qlerp 8 cube cube_added2 cube_marked false t = Some p ->
  face_out Q 8 cube cube_added2 cube_marked false t p io = Some rt ->
  ceq (boundaries rt)
      (face_outline cube cube_marked (goff 8 cube (eadd 8 cube cube_added2 cube_marked false))
                    (gadd 8 cube (eadd 8 cube cube_added2 cube_marked false)) t).
Proof.
  intros t p io rt Hin Hsp Hto. vm_compute in Hin.
  repeat (destruct Hin as [<-|Hin];
          [vm_compute in Hsp; injection Hsp as <-; vm_compute in Hto; injection Hto as <-;
           apply chain_eqb_sound; vm_compute; reflexivity|]).
  destruct Hin.
Qed.

Example cube_nondegenerate : forall p q r, In (p, q, r) cube -> p <> q /\ q <> r /\ r <> p.
Proof.
  intros p q r Hin. vm_compute in Hin.
  repeat (destruct Hin as [E|Hin]; [injection E as <- <- <-; repeat split; discriminate|]).
  destruct Hin.
Qed.

Example cube_marked_sym : forall x y, cube_marked x y = cube_marked y x.
Proof. intros x y. unfold cube_marked. rewrite (Z.min_comm x y), (Z.max_comm x y). reflexivity. Qed.

Example cube_balances : ceq (boundaries cube_out2) [].
Proof.
  apply (subdivide_q_balances Q 0%Q 1%Q qlerp 8 cube cube_added2 cube_marked false cube_out2).
  - apply chain_zerob_spec. vm_compute. reflexivity.
  - exact cube_nondegenerate.
  - exact cube_marked_sym.
  - vm_compute. reflexivity.
  - exact cube_pattern.
  - vm_compute. reflexivity.
Qed.

Example cube_gout_q : forall off n : Z -> Z -> Z,
  ceq (flat_map (face_outline cube cube_marked off n) (tri_ids cube)) [].
Proof.
  intros off n. apply gout_q_balances.
  - exact cube_nondegenerate.
  - exact cube_marked_sym.
  - vm_compute. reflexivity.
  - apply chain_zerob_spec. vm_compute. reflexivity.
Qed.

Example cube_nonneg : forall u v, 0 <= cube_added u v.
Proof. intros u v. unfold cube_added. apply Z.mod_pos_bound. lia. Qed.

Print Assumptions gout_q_balances.
Print Assumptions subdivide_q_balances.
Print Assumptions new_indices_once_edges_q.
Print Assumptions new_indices_once_interior_q.
Print Assumptions eadd_nonneg_q.
Print Assumptions subdivide_q_restricts.
Print Assumptions tmp_edges_find_he.
Print Assumptions valid_tangents_implies_quads_valid.
Print Assumptions cube_balances.
