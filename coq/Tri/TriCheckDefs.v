(* Tri/TriCheckDefs.v — executable exact checker for the output of
   Triangulate/TriangulateIdx (C10).  Definitions only.

   Input: the polygon set with exact integer coordinates (doubles scaled by a
   common power of two by the harness), the returned triangles, and
   tolsq = (2*eps*scale)^2 rounded up.  All predicates are polynomial, hence
   exact over Z. *)
From Coq Require Import ZArith List Bool Lia FMapPositive.
From MV Require Import Base.Chain.
Import ListNotations.
Local Open Scope Z_scope.

Definition pvert : Type := (Z * Z * Z)%type.          (* (idx, x, y) *)
Definition pv_idx (v : pvert) : Z := fst (fst v).
Definition pv_x (v : pvert) : Z := snd (fst v).
Definition pv_y (v : pvert) : Z := snd v.

Definition posmap : Type := PositiveMap.t (Z * Z).
Definition key_of (i : Z) : positive := Z.to_pos (i + 1).

Definition add_vert (m : posmap) (v : pvert) : posmap :=
  match PositiveMap.find (key_of (pv_idx v)) m with
  | Some _ => m                                        (* first occurrence wins *)
  | None => PositiveMap.add (key_of (pv_idx v)) (pv_x v, pv_y v) m
  end.
Definition build_map (vs : list pvert) : posmap := fold_left add_vert vs (PositiveMap.empty _).

Definition lookup (m : posmap) (i : Z) : option (Z * Z) :=
  if i <? 0 then None else PositiveMap.find (key_of i) m.
Definition px_of (m : posmap) (i : Z) : Z := match lookup m i with Some p => fst p | None => 0 end.
Definition py_of (m : posmap) (i : Z) : Z := match lookup m i with Some p => snd p | None => 0 end.

Definition all_verts (polys : list (list pvert)) : list pvert := concat polys.
Definition idx_polys (polys : list (list pvert)) : list (list Z) := map (map pv_idx) polys.

(* every input vertex has idx >= 0 and the position the map reports (the same idx may be
   repeated only with the same position) *)
Definition consistentb (m : posmap) (vs : list pvert) : bool :=
  forallb (fun v => match lookup m (pv_idx v) with
                    | Some p => (fst p =? pv_x v) && (snd p =? pv_y v)
                    | None => false end) vs.

Definition tri_idx_okb (m : posmap) (t : tri) : bool :=
  let '(a, b, c) := t in
  match lookup m a, lookup m b, lookup m c with Some _, Some _, Some _ => true | _, _, _ => false end.

Definition area2_poly (m : posmap) (p : list Z) : Z := area2_chain (px_of m) (py_of m) (contour p).
Definition sumZ (l : list Z) : Z := fold_right Z.add 0 l.

(* V - 2 + 2h - 2(o-1) with h = contours of negative exact area, o = the others *)
Definition expected_count (m : posmap) (ip : list (list Z)) : Z :=
  let v := sumZ (map (fun p => Z.of_nat (length p)) ip) in
  let h := Z.of_nat (length (filter (fun p => area2_poly m p <? 0) ip)) in
  let o := Z.of_nat (length ip) - h in
  v + 2 * h - 2 * o.

(* manifold's CCW(p0,p1,p2,tol) >= 0, exactly:  not (area < 0 and 4 area^2 > base2 tol^2) *)
Definition ccw_okb (m : posmap) (tolsq : Z) (t : tri) : bool :=
  let '(a, b, c) := t in
  let v1x := px_of m b - px_of m a in let v1y := py_of m b - py_of m a in
  let v2x := px_of m c - px_of m a in let v2y := py_of m c - py_of m a in
  let ar := v1x * v2y - v1y * v2x in
  let base2 := Z.max (v1x * v1x + v1y * v1y) (v2x * v2x + v2y * v2y) in
  (0 <=? ar) || (4 * ar * ar <=? base2 * tolsq).

Record verdict : Type := mkVerdict {
  v_consistent : bool;   (* input positions are a function of idx, idx >= 0 *)
  v_index : bool;        (* triangles use only input indices *)
  v_chain : bool;        (* sum of triangle boundaries = sum of contour edges *)
  v_area : bool;         (* sum of triangle areas = polygon area, exactly *)
  v_count : bool;        (* number of triangles = V-2+2h-2(o-1) *)
  v_ccw : bool;          (* every triangle CCW within the tolerance *)
  v_expected : Z;        (* the count the formula gives *)
  v_nbad_ccw : Z         (* number of triangles failing the CCW test *)
}.

Definition tri_check (polys : list (list pvert)) (ts : list tri) (tolsq : Z) : verdict :=
  let m := build_map (all_verts polys) in
  let ip := idx_polys polys in
  let bad := filter (fun t => negb (ccw_okb m tolsq t)) ts in
  mkVerdict
    (consistentb m (all_verts polys))
    (forallb (tri_idx_okb m) ts)
    (chain_eqb (boundaries ts) (contours ip))
    (sumZ (map (area2_tri (px_of m) (py_of m)) ts) =? sumZ (map (area2_poly m) ip))
    (Z.of_nat (length ts) =? expected_count m ip)
    (match bad with [] => true | _ => false end)
    (expected_count m ip)
    (Z.of_nat (length bad)).

Definition tri_check_all (polys : list (list pvert)) (ts : list tri) (tolsq : Z) : bool :=
  let v := tri_check polys ts tolsq in
  v_consistent v && v_index v && v_chain v && v_area v && v_count v && v_ccw v.
