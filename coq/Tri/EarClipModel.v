(* Tri/EarClipModel.v — invariants of the ported EarClip, for every oracle. *)
From Coq Require Import ZArith List Bool Arith Lia.
From MV Require Import Base.Chain Tri.EarClipDefs.
Import ListNotations.

(* ------------------------------------------------------------------ *)
(* lists and accessors *)

Lemma upd_length {A} (l : list A) i x : length (upd l i x) = length l.
Proof. revert i; induction l as [|h t IH]; intros [|i]; cbn; auto. Qed.

Lemma nth_upd {A} (l : list A) i x j d :
  i < length l -> nth j (upd l i x) d = if j =? i then x else nth j l d.
Proof.
  revert i j; induction l as [|h t IH]; intros i j Hi; cbn in Hi; [lia|].
  destruct i as [|i], j as [|j]; cbn; auto.
  rewrite IH by lia. reflexivity.
Qed.

Lemma getV_inv st v x : getV st v = Some x -> v < size st /\ x = nth v (poly st) dv.
Proof.
  unfold getV, size. intros H. split.
  - apply nth_error_Some. congruence.
  - symmetry. apply nth_error_nth. exact H.
Qed.
Lemma getV_some st v : v < size st -> getV st v = Some (nth v (poly st) dv).
Proof. intros H. unfold getV. apply nth_error_nth'. exact H. Qed.

Lemma getL_inv st v l : getL st v = Some l -> v < size st /\ l = Lf st v.
Proof.
  unfold getL. destruct (getV st v) eqn:E; cbn; [|discriminate].
  intros H; inversion H; subst. apply getV_inv in E. destruct E as [? ->]. auto.
Qed.
Lemma getR_inv st v r : getR st v = Some r -> v < size st /\ r = Rf st v.
Proof.
  unfold getR. destruct (getV st v) eqn:E; cbn; [|discriminate].
  intros H; inversion H; subst. apply getV_inv in E. destruct E as [? ->]. auto.
Qed.
Lemma getM_inv st v m : getM st v = Some m -> v < size st /\ m = Mf st v.
Proof.
  unfold getM. destruct (getV st v) eqn:E; cbn; [|discriminate].
  intros H; inversion H; subst. apply getV_inv in E. destruct E as [? ->]. auto.
Qed.

Lemma getR_inv_some st v : v < size st -> True /\ getR st v = Some (Rf st v).
Proof. intros H. split; [exact I|]. unfold getR. rewrite (getV_some st v H). reflexivity. Qed.
Lemma getL_some st v : v < size st -> getL st v = Some (Lf st v).
Proof. intros H. unfold getL. rewrite (getV_some st v H). reflexivity. Qed.
Lemma getR_some st v : v < size st -> getR st v = Some (Rf st v).
Proof. intros H. unfold getR. rewrite (getV_some st v H). reflexivity. Qed.

Lemma clipped_inv st v c : clipped st v = Some c -> v < size st /\ Rf st v < size st /\ c = negb (live st v).
Proof.
  unfold clipped, bind. destruct (getR st v) as [r|] eqn:Er; [|discriminate].
  destruct (getL st r) as [l|] eqn:El; [|discriminate].
  intros H; inversion H; subst.
  apply getR_inv in Er. destruct Er as [Hv ->]. apply getL_inv in El. destruct El as [Hr ->].
  unfold live. auto.
Qed.

(* a state that differs from st only in the links *)
Definition same_meta (st st' : St) : Prop :=
  cap st' = cap st /\ tris st' = tris st /\ nclip st' = nclip st /\ nfilt st' = nfilt st /\
  njoin st' = njoin st /\ nbad st' = nbad st.

Lemma setR_inv st v r st' :
  setR st v r = Some st' ->
  v < size st /\ size st' = size st /\ same_meta st st' /\
  (forall u, Rf st' u = if u =? v then r else Rf st u) /\
  (forall u, Lf st' u = Lf st u) /\ (forall u, Mf st' u = Mf st u).
Proof.
  unfold setR, bind. destruct (getV st v) as [x|] eqn:E; [|discriminate].
  intros H; inversion H; subst; clear H. apply getV_inv in E. destruct E as [Hv ->].
  split; [exact Hv|]. unfold size, setPoly, same_meta, Rf, Lf, Mf; cbn.
  split; [apply upd_length|]. split; [auto 10|].
  repeat split; intros u; rewrite nth_upd by exact Hv; destruct (Nat.eqb_spec u v); subst; reflexivity.
Qed.
Lemma setL_inv st v l st' :
  setL st v l = Some st' ->
  v < size st /\ size st' = size st /\ same_meta st st' /\
  (forall u, Lf st' u = if u =? v then l else Lf st u) /\
  (forall u, Rf st' u = Rf st u) /\ (forall u, Mf st' u = Mf st u).
Proof.
  unfold setL, bind. destruct (getV st v) as [x|] eqn:E; [|discriminate].
  intros H; inversion H; subst; clear H. apply getV_inv in E. destruct E as [Hv ->].
  split; [exact Hv|]. unfold size, setPoly, same_meta, Rf, Lf, Mf; cbn.
  split; [apply upd_length|]. split; [auto 10|].
  repeat split; intros u; rewrite nth_upd by exact Hv; destruct (Nat.eqb_spec u v); subst; reflexivity.
Qed.

Lemma same_meta_trans a b c : same_meta a b -> same_meta b c -> same_meta a c.
Proof. unfold same_meta; intuition congruence. Qed.

Lemma link_inv st l r st' :
  link st l r = Some st' ->
  l < size st /\ r < size st /\ size st' = size st /\ same_meta st st' /\
  (forall u, Rf st' u = if u =? l then r else Rf st u) /\
  (forall u, Lf st' u = if u =? r then l else Lf st u) /\ (forall u, Mf st' u = Mf st u).
Proof.
  unfold link, bind. destruct (setR st l r) as [st1|] eqn:E1; [|discriminate].
  intros E2. apply setR_inv in E1. apply setL_inv in E2.
  destruct E1 as (Hl & Hs1 & Hm1 & HR1 & HL1 & HM1). destruct E2 as (Hr & Hs2 & Hm2 & HL2 & HR2 & HM2).
  repeat split; try lia; try (eapply same_meta_trans; eauto).
  - intros u. rewrite HR2, HR1. reflexivity.
  - intros u. rewrite HL2, HL1. reflexivity.
  - intros u. rewrite HM2, HM1. reflexivity.
Qed.

(* ------------------------------------------------------------------ *)
(* finite sums over 0..n-1 *)

Local Open Scope Z_scope.

Fixpoint sumz (f : nat -> Z) (n : nat) : Z :=
  match n with O => 0 | S k => sumz f k + f k end.

Lemma sumz_ext f g n : (forall v, (v < n)%nat -> f v = g v) -> sumz f n = sumz g n.
Proof. induction n as [|k IH]; intros H; cbn; [reflexivity|]. rewrite IH, H by (intros; auto with arith); auto. Qed.
Lemma sumz_add f g n : sumz (fun v => f v + g v) n = sumz f n + sumz g n.
Proof. induction n as [|k IH]; cbn; [reflexivity|]. rewrite IH; lia. Qed.
Lemma sumz_point i c n : sumz (fun v => if (v =? i)%nat then c else 0) n = if (i <? n)%nat then c else 0.
Proof.
  induction n as [|k IH]; cbn [sumz]; [reflexivity|]. rewrite IH.
  destruct (Nat.eqb_spec k i), (Nat.ltb_spec i k), (Nat.ltb_spec i (S k)); lia.
Qed.
Lemma sumz_split f n m : sumz f (n + m) = sumz f n + sumz (fun v => f (n + v)%nat) m.
Proof.
  induction m as [|k IH]; cbn [sumz]; [rewrite Nat.add_0_r; lia|].
  rewrite Nat.add_succ_r. cbn [sumz]. rewrite IH. lia.
Qed.

Lemma coef_flat_seq (g : nat -> chain) a b n s :
  coef (flat_map g (seq s n)) a b = sumz (fun v => coef (g (s + v)%nat) a b) n.
Proof.
  revert s; induction n as [|k IH]; intros s; [reflexivity|].
  rewrite seq_S, flat_map_app, coef_app, IH. cbn [sumz flat_map]. rewrite app_nil_r. reflexivity.
Qed.

(* contribution of record v to the live-edge chain *)
Definition ledge (st : St) (a b : Z) (v : nat) : Z :=
  if live st v then edge1 (Mf st v) (Mf st (Rf st v)) a b else 0.
Lemma coef_live_edges st a b : coef (live_edges st) a b = sumz (ledge st a b) (size st).
Proof.
  unfold live_edges. rewrite coef_flat_seq. apply sumz_ext. intros v _. cbn [Nat.add].
  unfold ledge. destruct (live st v); cbn [coef]; lia.
Qed.

Definition lind (st : St) (v : nat) : Z := if live st v then 1 else 0.
Lemma nlive_sum st : Z.of_nat (nlive st) = sumz (lind st) (size st).
Proof.
  unfold nlive. generalize (size st) as n. intros n.
  assert (H : forall s, Z.of_nat (length (filter (live st) (seq s n))) = sumz (fun v => lind st (s + v)%nat) n).
  { induction n as [|k IH]; intros s; [reflexivity|].
    rewrite seq_S, filter_app, app_length, Nat2Z.inj_add, IH. cbn [sumz filter]. unfold lind at 3.
    destruct (live st (s + k)); cbn; lia. }
  rewrite H. apply sumz_ext. reflexivity.
Qed.

(* ------------------------------------------------------------------ *)
(* the structural invariant (no ghost state) *)

Local Close Scope Z_scope.

Record Inv (st : St) : Prop := mkInv {
  I_bound : forall v, v < size st -> Lf st v < size st /\ Rf st v < size st;
  I_lr : forall v, v < size st -> live st v = true -> Rf st (Lf st v) = v;
  I_rlive : forall v, v < size st -> live st v = true -> live st (Rf st v) = true;
  I_self : forall v, v < size st -> Lf st v = v -> live st v = true
}.

Lemma live_spec st v : live st v = true <-> Lf st (Rf st v) = v.
Proof. unfold live. apply Nat.eqb_eq. Qed.
Lemma live_false st v : live st v = false <-> Lf st (Rf st v) <> v.
Proof. unfold live. apply Nat.eqb_neq. Qed.

Lemma Inv_llive st v : Inv st -> v < size st -> live st v = true -> live st (Lf st v) = true.
Proof. intros I Hv Hl. apply live_spec. rewrite (I_lr st I v Hv Hl). reflexivity. Qed.

(* mesh indices stay within a fixed set *)
Definition MidxIn (ids : list Z) (st : St) : Prop := forall v, v < size st -> In (Mf st v) ids.
Definition TrisIn (ids : list Z) (st : St) : Prop :=
  forall a b c, In (a, b, c) (tris st) -> In a ids /\ In b ids /\ In c ids.

(* chain invariant: boundary of emitted triangles + edges of live lists *)
Definition chain_of (st : St) : chain := boundaries (tris st) ++ live_edges st.

Ltac nat_cases :=
  repeat match goal with
  | |- context [(?x =? ?y)] => destruct (Nat.eqb_spec x y); try subst
  | H : context [(?x =? ?y)] |- _ => destruct (Nat.eqb_spec x y); try subst
  end.

(* ------------------------------------------------------------------ *)
(* ClipEar *)

Lemma clipEar_inv st e st' :
  clipEar st e = Some st' ->
  let l := Lf st e in let r := Rf st e in
  e < size st /\ l < size st /\ r < size st /\ size st' = size st /\
  (forall u, Rf st' u = if u =? l then r else Rf st u) /\
  (forall u, Lf st' u = if u =? r then l else Lf st u) /\
  (forall u, Mf st' u = Mf st u) /\
  cap st' = cap st /\ njoin st' = njoin st /\ nbad st' = nbad st /\ nclip st' = S (nclip st) /\
  ((tris st' = tris st ++ [(Mf st l, Mf st e, Mf st r)] /\ nfilt st' = nfilt st /\
    Mf st l <> Mf st e /\ Mf st e <> Mf st r /\ Mf st r <> Mf st l) \/
   (tris st' = tris st /\ nfilt st' = S (nfilt st) /\
    (Mf st l = Mf st e \/ Mf st e = Mf st r \/ Mf st r = Mf st l))).
Proof.
  unfold clipEar, bind.
  destruct (getL st e) as [l|] eqn:El; [|discriminate].
  destruct (getR st e) as [r|] eqn:Er; [|discriminate].
  destruct (link st l r) as [st1|] eqn:Ek; [|discriminate].
  destruct (getM st1 l) as [ml|] eqn:Eml; [|discriminate].
  destruct (getM st1 e) as [me|] eqn:Eme; [|discriminate].
  destruct (getM st1 r) as [mr|] eqn:Emr; [|discriminate].
  apply getL_inv in El. destruct El as [He ->]. apply getR_inv in Er. destruct Er as [_ ->].
  apply link_inv in Ek. destruct Ek as (Hl & Hr & Hs & Hm & HR & HL & HM).
  apply getM_inv in Eml, Eme, Emr. destruct Eml as [_ ->], Eme as [_ ->], Emr as [_ ->].
  rewrite !HM. destruct Hm as (Hc & Ht & Hnc & Hnf & Hnj & Hnb).
  intros H. cbv zeta.
  destruct (Z.eqb_spec (Mf st (Lf st e)) (Mf st e)) as [E1|E1];
  destruct (Z.eqb_spec (Mf st e) (Mf st (Rf st e))) as [E2|E2];
  destruct (Z.eqb_spec (Mf st (Rf st e)) (Mf st (Lf st e))) as [E3|E3];
  cbn [negb andb] in H; inversion H; subst st'; clear H; cbn [size poly cap tris nclip nfilt njoin nbad];
  unfold Rf, Lf, Mf in *; cbn [poly];
  (repeat split; try assumption; try congruence; try lia; try (intros; apply HR); try (intros; apply HL); try (intros; apply HM));
  try (right; repeat split; try congruence; auto; fail);
  try (left; repeat split; try congruence; auto; fail).
Qed.

Lemma ear_distinct st e :
  Inv st -> e < size st -> live st e = true -> Lf st e <> Rf st e ->
  Lf st e <> e /\ Rf st e <> e /\ Rf st (Lf st e) = e /\ Lf st (Rf st e) = e.
Proof.
  intros I He Hl Hne. pose proof (I_lr st I e He Hl) as H1. apply live_spec in Hl.
  repeat split; auto.
  - intros E. rewrite E in H1. congruence.
  - intros E. rewrite E in Hl. rewrite Hl in Hne. rewrite E in Hne. congruence.
Qed.

Lemma clipEar_live st e st' :
  Inv st -> live st e = true -> Lf st e <> Rf st e -> clipEar st e = Some st' ->
  forall v, live st' v = if v =? e then false else live st v.
Proof.
  intros I Hl Hne Hc v. pose proof (clipEar_inv st e st' Hc) as H. cbv zeta in H.
  destruct H as (He & Hlb & Hrb & Hs & HR & HL & _).
  destruct (ear_distinct st e I He Hl Hne) as (Hle & Hre & Hrl & Hlr).
  unfold live at 1. rewrite HR, HL.
  destruct (Nat.eqb_spec v e) as [->|Hve].
  - destruct (Nat.eqb_spec e (Lf st e)); [congruence|].
    rewrite Nat.eqb_refl. apply Nat.eqb_neq. exact Hle.
  - destruct (Nat.eqb_spec v (Lf st e)) as [->|Hvl].
    + rewrite Nat.eqb_refl. rewrite Nat.eqb_refl. symmetry. apply (Inv_llive st e I He Hl).
    + destruct (Nat.eqb_spec (Rf st v) (Rf st e)) as [E|E].
      * transitivity false.
        -- apply Nat.eqb_neq. congruence.
        -- symmetry. apply live_false. rewrite E, Hlr. congruence.
      * reflexivity.
Qed.

Lemma clipEar_Inv st e st' :
  Inv st -> live st e = true -> Lf st e <> Rf st e -> clipEar st e = Some st' -> Inv st'.
Proof.
  intros I Hl Hne Hc. pose proof (clipEar_live st e st' I Hl Hne Hc) as Hlive.
  pose proof (clipEar_inv st e st' Hc) as H. cbv zeta in H.
  destruct H as (He & Hlb & Hrb & Hs & HR & HL & _).
  destruct (ear_distinct st e I He Hl Hne) as (Hle & Hre & Hrl & Hlr).
  constructor; rewrite ?Hs.
  - intros v Hv. rewrite HR, HL. destruct (I_bound st I v Hv).
    destruct (v =? Rf st e), (v =? Lf st e); auto.
  - intros v Hv Hv'. rewrite Hlive in Hv'. destruct (Nat.eqb_spec v e) as [|Hve]; [discriminate|].
    rewrite HL, HR. destruct (Nat.eqb_spec v (Rf st e)) as [->|Hvr].
    + rewrite Nat.eqb_refl. reflexivity.
    + pose proof (I_lr st I v Hv Hv') as H1.
      destruct (Nat.eqb_spec (Lf st v) (Lf st e)) as [E|E]; [|exact H1].
      rewrite E, Hrl in H1. congruence.
  - intros v Hv Hv'. rewrite Hlive in Hv'. destruct (Nat.eqb_spec v e) as [|Hve]; [discriminate|].
    rewrite Hlive, HR. destruct (Nat.eqb_spec v (Lf st e)) as [->|Hvl].
    + destruct (Nat.eqb_spec (Rf st e) e); [congruence|]. apply (I_rlive st I e He Hl).
    + destruct (Nat.eqb_spec (Rf st v) e) as [E|E].
      * exfalso. apply live_spec in Hv'. rewrite E in Hv'. congruence.
      * apply (I_rlive st I v Hv Hv').
  - intros v Hv Hself. rewrite HL in Hself. rewrite Hlive.
    destruct (Nat.eqb_spec v (Rf st e)) as [->|Hvr]; [congruence|].
    destruct (Nat.eqb_spec v e) as [->|Hve]; [congruence|].
    apply (I_self st I v Hv Hself).
Qed.

Local Open Scope Z_scope.

Lemma clipEar_chain st e st' :
  Inv st -> live st e = true -> Lf st e <> Rf st e -> clipEar st e = Some st' ->
  forall a b, coef (chain_of st') a b = coef (chain_of st) a b.
Proof.
  intros I Hl Hne Hc a b. pose proof (clipEar_live st e st' I Hl Hne Hc) as Hlive.
  pose proof (clipEar_inv st e st' Hc) as H. cbv zeta in H.
  destruct H as (He & Hlb & Hrb & Hs & HR & HL & HM & _ & _ & _ & _ & Ht).
  destruct (ear_distinct st e I He Hl Hne) as (Hle & Hre & Hrl & Hlr).
  unfold chain_of. rewrite !coef_app, !coef_live_edges, Hs.
  set (l := Lf st e) in *. set (r := Rf st e) in *.
  assert (Hll : live st l = true) by (apply (Inv_llive st e I He Hl)).
  assert (Hsum : sumz (ledge st' a b) (size st) =
                 sumz (ledge st a b) (size st)
                 + (edge1 (Mf st l) (Mf st r) a b - edge1 (Mf st l) (Mf st e) a b)
                 - edge1 (Mf st e) (Mf st r) a b).
  { rewrite (sumz_ext (ledge st' a b)
       (fun v => ledge st a b v
                 + ((if (v =? l)%nat then edge1 (Mf st l) (Mf st r) a b - edge1 (Mf st l) (Mf st e) a b else 0)
                 + (if (v =? e)%nat then - edge1 (Mf st e) (Mf st r) a b else 0)))).
    - rewrite sumz_add, sumz_add, !sumz_point.
      destruct (Nat.ltb_spec l (size st)); [|lia]. destruct (Nat.ltb_spec e (size st)); lia.
    - intros v Hv. unfold ledge. rewrite Hlive, HR, !HM.
      destruct (Nat.eqb_spec v e) as [->|Hve].
      + destruct (Nat.eqb_spec e l); [congruence|]. rewrite Hl. fold r. lia.
      + destruct (Nat.eqb_spec v l) as [->|Hvl].
        * rewrite Hll, Hrl. lia.
        * destruct (live st v); lia. }
  rewrite Hsum.
  pose proof (clip_identity (Mf st l) (Mf st e) (Mf st r) a b) as Hid.
  destruct Ht as [(Ht & _)|(Ht & _ & Hdeg)]; rewrite Ht.
  - rewrite coef_boundaries_app. unfold boundaries at 2. cbn [flat_map]. rewrite app_nil_r. lia.
  - assert (Hz : coef (boundary (Mf st l, Mf st e, Mf st r)) a b = 0) by (apply boundary_degenerate; exact Hdeg).
    lia.
Qed.

Lemma clipEar_nlive st e st' :
  Inv st -> live st e = true -> Lf st e <> Rf st e -> clipEar st e = Some st' ->
  Z.of_nat (nlive st') + 1 = Z.of_nat (nlive st).
Proof.
  intros I Hl Hne Hc. pose proof (clipEar_live st e st' I Hl Hne Hc) as Hlive.
  pose proof (clipEar_inv st e st' Hc) as H. cbv zeta in H.
  destruct H as (He & _ & _ & Hs & _).
  rewrite !nlive_sum, Hs.
  rewrite (sumz_ext (lind st') (fun v => lind st v + (if (v =? e)%nat then -1 else 0))).
  - rewrite sumz_add, sumz_point. destruct (Nat.ltb_spec e (size st)); lia.
  - intros v Hv. unfold lind. rewrite Hlive. destruct (Nat.eqb_spec v e) as [->|]; [rewrite Hl; lia|].
    destruct (live st v); lia.
Qed.

Local Close Scope Z_scope.

(* ------------------------------------------------------------------ *)
(* the bundle of invariants and the step relation *)

Record Good (ids : list Z) (V : nat) (st : St) : Prop := mkGood {
  G_inv : Inv st;
  G_midx : MidxIn ids st;
  G_tris : TrisIn ids st;
  G_count : nclip st + nlive st = size st;
  G_size : size st = V + 2 * njoin st;
  G_emit : length (tris st) + nfilt st = nclip st
}.

(* every operation of the triangulator is a Step: the ghost counter nbad never
   decreases, and if it is still 0 afterwards the invariants and the chain are preserved *)
Definition Step (ids : list Z) (V : nat) (st st' : St) : Prop :=
  nbad st <= nbad st' /\
  (nbad st' = 0 -> Good ids V st ->
     Good ids V st' /\ (forall a b, coef (chain_of st') a b = coef (chain_of st) a b)).

Lemma Step_refl ids V st : Step ids V st st.
Proof. split; [lia|]. intros _ G. split; [exact G|reflexivity]. Qed.
Lemma Step_trans ids V a b c : Step ids V a b -> Step ids V b c -> Step ids V a c.
Proof.
  intros [H1 H2] [H3 H4]. split; [lia|]. intros Hc Ga.
  assert (Hb : nbad b = 0) by lia.
  destruct (H2 Hb Ga) as [Gb Cb]. destruct (H4 Hc Gb) as [Gc Cc].
  split; [exact Gc|]. intros x y. rewrite Cc, Cb. reflexivity.
Qed.

Lemma addBad_false st : addBad st false = st.
Proof. destruct st; reflexivity. Qed.

Lemma clipEar_step ids V st e st' :
  clipEar st e = Some st' ->
  nbad st' = nbad st /\
  (Good ids V st -> live st e = true -> Lf st e <> Rf st e ->
     Good ids V st' /\ (forall a b, coef (chain_of st') a b = coef (chain_of st) a b)).
Proof.
  intros Hc. pose proof (clipEar_inv st e st' Hc) as H. cbv zeta in H.
  destruct H as (He & Hlb & Hrb & Hs & HR & HL & HM & Hcap & Hnj & Hnb & Hnc & Ht).
  split; [exact Hnb|]. intros G Hl Hne. destruct G as [I Gm Gt Gc Gs Ge].
  split; [|apply (clipEar_chain st e st' I Hl Hne Hc)].
  constructor.
  - apply (clipEar_Inv st e st' I Hl Hne Hc).
  - intros v Hv. rewrite HM. apply Gm. lia.
  - intros a b c Hin. destruct Ht as [(Ht & _)|(Ht & _)]; rewrite Ht in Hin.
    + apply in_app_or in Hin. destruct Hin as [Hin|[Hin|[]]]; [apply (Gt a b c Hin)|].
      inversion Hin; subst. repeat split; apply Gm; assumption.
    + apply (Gt a b c Hin).
  - pose proof (clipEar_nlive st e st' I Hl Hne Hc). lia.
  - lia.
  - destruct Ht as [(Ht & Hf & _)|(Ht & Hf & _)]; rewrite Ht, Hf, Hnc; [rewrite app_length; cbn|]; lia.
Qed.

Section WithOracle.
Variable orc : Oracle.
Variable ids : list Z.
Variable V : nat.

Lemma clipIfDegenerate_step fuel : forall st e st',
  clipIfDegenerate orc fuel st e = Some st' -> Step ids V st st'.
Proof.
  induction fuel as [|f IH]; intros st e st' H; [discriminate|].
  cbn [clipIfDegenerate] in H. unfold bind in H.
  destruct (clipped st e) as [c|] eqn:Ec; [|discriminate].
  apply clipped_inv in Ec. destruct Ec as (He & Hr & ->).
  destruct (live st e) eqn:Hl; cbn [negb] in H.
  2:{ inversion H; subst. apply Step_refl. }
  destruct (getL st e) as [l|] eqn:El; [|discriminate].
  destruct (getR st e) as [r|] eqn:Er; [|discriminate].
  apply getL_inv in El. destruct El as [_ ->]. apply getR_inv in Er. destruct Er as [_ ->].
  destruct (Nat.eqb_spec (Lf st e) (Rf st e)) as [E|Hne].
  { inversion H; subst. apply Step_refl. }
  destruct (o_degen orc st e).
  2:{ inversion H; subst. apply Step_refl. }
  destruct (clipEar st e) as [st1|] eqn:Ec; [|discriminate].
  destruct (getL st1 e) as [l1|]; [|discriminate].
  destruct (clipIfDegenerate orc f st1 l1) as [st2|] eqn:E2; [|discriminate].
  destruct (getR st2 e) as [r2|]; [|discriminate].
  destruct (clipEar_step ids V st e st1 Ec) as [Hnb Hg].
  eapply Step_trans; [|eapply Step_trans; [apply (IH _ _ _ E2)|apply (IH _ _ _ H)]].
  split; [lia|]. intros _ G. apply Hg; assumption.
Qed.

Lemma sweep_step fuel : forall vs st st', sweep orc fuel st vs = Some st' -> Step ids V st st'.
Proof.
  induction vs as [|v t IH]; intros st st' H; cbn [sweep] in H.
  - inversion H; subst. apply Step_refl.
  - unfold bind in H. destruct (clipIfDegenerate orc fuel st v) as [st1|] eqn:E; [|discriminate].
    eapply Step_trans; [apply (clipIfDegenerate_step _ _ _ _ E)|apply (IH _ _ H)].
Qed.

(* Loop: whatever it returns is live and in range *)
Definition liveP (st : St) (v : nat) : Prop := v < size st /\ live st v = true.

Lemma loop_go_live st (I : Inv st) fuel : forall first v acc vis res,
  loop_go fuel st first v acc = Some (vis, res) ->
  Forall (liveP st) acc ->
  Forall (liveP st) vis /\ (forall r, res = Some r -> liveP st r).
Proof.
  induction fuel as [|f IH]; intros first v acc vis res H Hacc; [discriminate|].
  cbn [loop_go] in H. unfold bind in H.
  destruct (clipped st v) as [c|] eqn:Ec; [|discriminate].
  apply clipped_inv in Ec. destruct Ec as (Hv & Hrv & ->).
  destruct (live st v) eqn:Hl; cbn [negb] in H.
  - (* v live *)
    destruct (getR st v) as [r|] eqn:Er; [|discriminate].
    destruct (getL st v) as [l|] eqn:El; [|discriminate].
    apply getR_inv in Er. destruct Er as [_ ->]. apply getL_inv in El. destruct El as [_ ->].
    destruct (Rf st v =? Lf st v).
    + inversion H; subst. split; [exact Hacc|discriminate].
    + rewrite (proj2 (getR_inv_some st v Hv)) in H.
      assert (Hacc' : Forall (liveP st) (acc ++ [v])).
      { apply Forall_app. split; [exact Hacc|]. constructor; [split; assumption|constructor]. }
      destruct (Nat.eqb_spec (Rf st v) first).
      * inversion H; subst. split; [exact Hacc'|].
        intros r Hr. inversion Hr; subst. split; [exact Hrv|apply (I_rlive st I v Hv Hl)].
      * apply (IH _ _ _ _ _ H Hacc').
  - (* v clipped *)
    destruct (getR st v) as [r|] eqn:Er; [|discriminate].
    apply getR_inv in Er. destruct Er as [_ ->].
    destruct (getL st (Rf st v)) as [fl|] eqn:El; [|discriminate].
    apply getL_inv in El. destruct El as [_ ->].
    destruct (clipped st (Lf st (Rf st v))) as [c2|] eqn:Ec2; [|discriminate].
    apply clipped_inv in Ec2. destruct Ec2 as (Hfl & Hrfl & ->).
    set (fl := Lf st (Rf st v)) in *.
    destruct (live st fl) eqn:Hlf; cbn [negb] in H.
    + destruct (getR st fl) as [r2|] eqn:Er2; [|discriminate].
      destruct (getL st fl) as [l2|] eqn:El2; [|discriminate].
      apply getR_inv in Er2. destruct Er2 as [_ ->]. apply getL_inv in El2. destruct El2 as [_ ->].
      destruct (Rf st fl =? Lf st fl).
      * inversion H; subst. split; [exact Hacc|discriminate].
      * rewrite (proj2 (getR_inv_some st fl Hfl)) in H.
        assert (Hacc' : Forall (liveP st) (acc ++ [fl])).
        { apply Forall_app. split; [exact Hacc|]. constructor; [split; assumption|constructor]. }
        destruct (Nat.eqb_spec (Rf st fl) fl).
        -- inversion H; subst. split; [exact Hacc'|].
           intros r Hr. inversion Hr; subst. split; [exact Hrfl|apply (I_rlive st I fl Hfl Hlf)].
        -- apply (IH _ _ _ _ _ H Hacc').
    + rewrite (proj2 (getR_inv_some st v Hv)) in H.
      destruct (Nat.eqb_spec (Rf st v) fl) as [E|E].
      * exfalso. (* Lf y = y for the clipped y = Rf v *)
        unfold fl in E. symmetry in E.
        pose proof (I_self st I (Rf st v) Hrv E) as Hy. fold fl in E. rewrite <- E in Hy. congruence.
      * apply (IH _ _ _ _ _ H Hacc).
Qed.
End WithOracle.

Section WithOracle2.
Variable orc : Oracle.
Variable ids : list Z.
Variable V : nat.

Lemma processEar_incl st q v x : In x (processEar orc st q v) -> In x q \/ x = v.
Proof.
  unfold processEar. destruct (o_cand orc st v); cbn [In].
  - intros [->|H]; [auto|]. apply in_remove in H. tauto.
  - intros H. apply in_remove in H. tauto.
Qed.

Lemma fold_processEar_incl st vis : forall q x,
  In x (fold_left (processEar orc st) vis q) -> In x q \/ In x vis.
Proof.
  induction vis as [|v t IH]; intros q x H; cbn [fold_left] in H; [auto|].
  destruct (IH _ _ H) as [H1|H1]; [|cbn; auto].
  destruct (processEar_incl _ _ _ _ H1); cbn; auto.
Qed.

Lemma clipEar_size st e st' : clipEar st e = Some st' -> size st' = size st.
Proof. intros H. pose proof (clipEar_inv st e st' H) as H1. cbv zeta in H1. tauto. Qed.

Lemma clip_loop_step : forall k st q v st',
  clip_loop orc k st q v = Some st' ->
  nbad st <= nbad st' /\
  (nbad st' = 0 -> Good ids V st -> Forall (liveP st) q -> liveP st v ->
     Good ids V st' /\ (forall a b, coef (chain_of st') a b = coef (chain_of st) a b)).
Proof.
  induction k as [|k IH]; intros st q v st' H; cbn [clip_loop] in H.
  { inversion H; subst. split; [lia|]. intros; split; [assumption|reflexivity]. }
  set (eq1 := match q with
              | [] => (v, q)
              | h :: _ => (nth (o_pick orc st q) q h, remove Nat.eq_dec (nth (o_pick orc st q) q h) q)
              end) in H.
  destruct eq1 as [e q1] eqn:Eeq. unfold bind in H.
  destruct (getL st e) as [l0|] eqn:El0; [|discriminate].
  destruct (getR st e) as [r0|] eqn:Er0; [|discriminate].
  apply getL_inv in El0. destruct El0 as [He ->]. apply getR_inv in Er0. destruct Er0 as [_ ->].
  destruct (clipEar (addBad st (Lf st e =? Rf st e)) e) as [st1|] eqn:Ec; [|discriminate].
  destruct (getL st1 e) as [l|] eqn:El; [|discriminate].
  destruct (getR st1 e) as [r|] eqn:Er; [|discriminate].
  apply getL_inv in El. destruct El as [He1 ->]. apply getR_inv in Er. destruct Er as [_ ->].
  destruct (IH _ _ _ _ H) as [Hmono Hrest].
  destruct (clipEar_step ids V _ e st1 Ec) as [Hnb Hg].
  destruct (Nat.eqb_spec (Lf st e) (Rf st e)) as [Eq|Hne].
  { cbn [addBad nbad] in Hnb. split; [lia|]. intros Hz. exfalso. lia. }
  rewrite addBad_false in *.
  split; [lia|]. intros Hz G Hq Hv.
  assert (Hel : liveP st e /\ (forall x, In x q1 -> liveP st x /\ x <> e)).
  { unfold eq1 in Eeq. destruct q as [|h t].
    - inversion Eeq; subst. split; [exact Hv|]. intros x [].
    - set (ee := nth (o_pick orc st (h :: t)) (h :: t) h) in *.
      assert (He' : e = ee) by congruence.
      assert (Hq1' : q1 = remove Nat.eq_dec ee (h :: t)) by congruence.
      assert (Hin : In ee (h :: t)).
      { unfold ee. destruct (Nat.lt_ge_cases (o_pick orc st (h :: t)) (length (h :: t))) as [Hlt|Hge].
        - apply nth_In. exact Hlt.
        - rewrite nth_overflow by exact Hge. left; reflexivity. }
      rewrite Forall_forall in Hq. rewrite He'. split; [apply Hq; exact Hin|].
      intros x Hx. rewrite Hq1' in Hx. apply in_remove in Hx. destruct Hx as [Hx Hxe].
      split; [apply Hq; exact Hx|exact Hxe]. }
  destruct Hel as [[_ Hle] Hq1].
  destruct (Hg G Hle Hne) as [G1 C1].
  pose proof (clipEar_live st e st1 (G_inv _ _ _ G) Hle Hne Ec) as Hlive.
  pose proof (clipEar_inv st e st1 Ec) as Hci. cbv zeta in Hci.
  destruct Hci as (_ & Hlb & Hrb & Hs & HR & HL & _).
  destruct (ear_distinct st e (G_inv _ _ _ G) He Hle Hne) as (Hl_e & Hr_e & Hrl & Hlr).
  assert (HL1 : Lf st1 e = Lf st e).
  { rewrite HL. destruct (Nat.eqb_spec e (Rf st e)); [congruence|reflexivity]. }
  assert (HR1 : Rf st1 e = Rf st e).
  { rewrite HR. destruct (Nat.eqb_spec e (Lf st e)); [congruence|reflexivity]. }
  assert (Hll : liveP st1 (Lf st e)).
  { split; [lia|]. rewrite Hlive. destruct (Nat.eqb_spec (Lf st e) e); [congruence|].
    apply (Inv_llive st e (G_inv _ _ _ G) He Hle). }
  assert (Hrl' : liveP st1 (Rf st e)).
  { split; [lia|]. rewrite Hlive. destruct (Nat.eqb_spec (Rf st e) e); [congruence|].
    apply (I_rlive st (G_inv _ _ _ G) e He Hle). }
  assert (Hnz : nbad st1 = 0) by lia.
  destruct (Hrest Hz G1) as [G2 C2].
  - rewrite HL1, HR1. apply Forall_forall. intros x Hx.
    destruct (processEar_incl _ _ _ _ Hx) as [Hx1| ->]; [|exact Hrl'].
    destruct (processEar_incl _ _ _ _ Hx1) as [Hx2| ->]; [|exact Hll].
    destruct (Hq1 x Hx2) as [[Hxs Hxl] Hxe]. split; [lia|].
    rewrite Hlive. destruct (Nat.eqb_spec x e); [congruence|exact Hxl].
  - rewrite HR1. exact Hrl'.
  - split; [exact G2|]. intros a b. rewrite C2, C1. reflexivity.
Qed.

Lemma triangulatePoly_step fuel st start st' :
  triangulatePoly orc fuel st start = Some st' -> Step ids V st st'.
Proof.
  unfold triangulatePoly, bind. destruct (loop fuel st start) as [[vis res]|] eqn:El; [|discriminate].
  destruct vis as [|v0 vt]; [intros H; inversion H; subst; apply Step_refl|].
  destruct res as [v|]; [|intros H; inversion H; subst; apply Step_refl].
  intros H. destruct (clip_loop_step _ _ _ _ _ H) as [Hm Hr].
  split; [exact Hm|]. intros Hz G.
  unfold loop in El.
  destruct (loop_go_live st (G_inv _ _ _ G) fuel _ _ _ _ _ El (Forall_nil _)) as [Hvis Hres].
  apply (Hr Hz G).
  - apply Forall_forall. intros x Hx. apply fold_processEar_incl in Hx. destruct Hx as [[]|Hx].
    rewrite Forall_forall in Hvis. apply Hvis. exact Hx.
  - apply Hres. reflexivity.
Qed.

Lemma triangulatePolys_step fuel : forall simples st st',
  triangulatePolys orc fuel st simples = Some st' -> Step ids V st st'.
Proof.
  induction simples as [|s t IH]; intros st st' H; cbn [triangulatePolys] in H.
  - inversion H; subst. apply Step_refl.
  - unfold bind in H. destruct (triangulatePoly orc fuel st s) as [st1|] eqn:E; [|discriminate].
    eapply Step_trans; [apply (triangulatePoly_step _ _ _ _ E)|apply (IH _ _ H)].
Qed.
End WithOracle2.

(* ------------------------------------------------------------------ *)
(* JoinPolygons: the relinking step on a state in closed form *)

Section JoinCore.
Variables (st st6 : St) (s c : nat).
Let n := size st.
Let sr := Rf st s.
Let cl := Lf st c.
Hypothesis I : Inv st.
Hypothesis Hs : s < n.
Hypothesis Hc : c < n.
Hypothesis Ls : live st s = true.
Hypothesis Lc : live st c = true.
Hypothesis Hsrc : sr <> c.
Hypothesis Hsize : size st6 = n + 2.
Hypothesis HR6 : forall u, Rf st6 u =
  if u =? n + 1 then n else if u =? s then c else if u =? cl then n + 1 else if u =? n then sr else Rf st u.
Hypothesis HL6 : forall u, Lf st6 u =
  if u =? n then n + 1 else if u =? c then s else if u =? sr then n else if u =? n + 1 then cl else Lf st u.
Hypothesis HM6 : forall u, Mf st6 u =
  if u =? n + 1 then Mf st c else if u =? n then Mf st s else Mf st u.

Let Hsr : sr < n := proj2 (I_bound st I s Hs).
Let Hcl : cl < n := proj1 (I_bound st I c Hc).
Lemma jc_Rcl : Rf st cl = c. Proof. apply (I_lr st I c Hc Lc). Qed.
Lemma jc_Lsr : Lf st sr = s. Proof. apply live_spec, Ls. Qed.
Lemma jc_cl_ne_s : cl <> s.
Proof. intros E. pose proof jc_Rcl as H. rewrite E in H. fold sr in H. congruence. Qed.
Lemma jc_live_cl : live st cl = true. Proof. apply (Inv_llive st c I Hc Lc). Qed.
Lemma jc_live_sr : live st sr = true. Proof. apply (I_rlive st I s Hs Ls). Qed.

Lemma jc_live v : v < n + 2 ->
  live st6 v = if (v =? n) || (v =? n + 1) then true else live st v.
Proof.
  intros Hv. pose proof jc_Rcl as F1. pose proof jc_Lsr as F2. pose proof jc_cl_ne_s as F3.
  unfold live at 1. rewrite HR6.
  destruct (Nat.eqb_spec v (n + 1)) as [->|N1].
  { rewrite HL6. rewrite Nat.eqb_refl. rewrite orb_true_r. apply Nat.eqb_refl. }
  rewrite orb_false_r.
  destruct (Nat.eqb_spec v s) as [->|N2].
  { rewrite HL6. destruct (Nat.eqb_spec s n); [lia|].
    destruct (Nat.eqb_spec c n); [lia|]. rewrite Nat.eqb_refl. rewrite Nat.eqb_refl. symmetry; exact Ls. }
  destruct (Nat.eqb_spec v cl) as [->|N3].
  { rewrite HL6. destruct (Nat.eqb_spec (n + 1) n); [lia|]. destruct (Nat.eqb_spec (n + 1) c); [lia|].
    destruct (Nat.eqb_spec (n + 1) sr); [lia|]. rewrite Nat.eqb_refl. rewrite Nat.eqb_refl.
    destruct (Nat.eqb_spec cl n); [lia|]. symmetry; apply jc_live_cl. }
  destruct (Nat.eqb_spec v n) as [->|N4].
  { rewrite HL6. destruct (Nat.eqb_spec sr n); [lia|]. destruct (Nat.eqb_spec sr c); [congruence|].
    rewrite Nat.eqb_refl. apply Nat.eqb_refl. }
  assert (Hvn : v < n) by lia.
  destruct (I_bound st I v Hvn) as [_ Hw]. rewrite HL6.
  destruct (Nat.eqb_spec (Rf st v) n); [lia|].
  destruct (Nat.eqb_spec (Rf st v) c) as [E|E].
  { transitivity false; [apply Nat.eqb_neq; congruence|]. symmetry. apply live_false. rewrite E. fold cl. congruence. }
  destruct (Nat.eqb_spec (Rf st v) sr) as [E2|E2].
  { transitivity false; [apply Nat.eqb_neq; lia|]. symmetry. apply live_false. rewrite E2, F2. congruence. }
  destruct (Nat.eqb_spec (Rf st v) (n + 1)); [lia|]. reflexivity.
Qed.

Lemma jc_Inv : Inv st6.
Proof.
  pose proof jc_Rcl as F1. pose proof jc_Lsr as F2. pose proof jc_cl_ne_s as F3.
  pose proof jc_live_cl as F4. pose proof jc_live_sr as F5.
  constructor; rewrite Hsize.
  - intros v Hv. rewrite HR6, HL6.
    assert (Hb : v < n -> Lf st v < n /\ Rf st v < n) by (apply (I_bound st I)).
    repeat match goal with |- context [if (?x =? ?y) then _ else _] => destruct (Nat.eqb_spec x y) end;
      try lia; (assert (Hvn : v < n) by lia; destruct (Hb Hvn); lia).
  - intros v Hv Hl. rewrite (jc_live v Hv) in Hl. rewrite HL6.
    destruct (Nat.eqb_spec v n) as [->|N1].
    { rewrite HR6. rewrite Nat.eqb_refl. reflexivity. }
    destruct (Nat.eqb_spec v c) as [->|N2].
    { rewrite HR6. destruct (Nat.eqb_spec s (n + 1)); [lia|]. rewrite Nat.eqb_refl. reflexivity. }
    destruct (Nat.eqb_spec v sr) as [->|N3].
    { rewrite HR6. destruct (Nat.eqb_spec n (n + 1)); [lia|]. destruct (Nat.eqb_spec n s); [lia|].
      destruct (Nat.eqb_spec n cl); [lia|]. rewrite Nat.eqb_refl. reflexivity. }
    destruct (Nat.eqb_spec v (n + 1)) as [->|N4].
    { rewrite HR6. destruct (Nat.eqb_spec cl (n + 1)); [lia|]. destruct (Nat.eqb_spec cl s); [congruence|].
      rewrite Nat.eqb_refl. reflexivity. }
    cbn [orb] in Hl. assert (Hvn : v < n) by lia.
    pose proof (I_lr st I v Hvn Hl) as H1. destruct (I_bound st I v Hvn) as [Hu _].
    rewrite HR6. destruct (Nat.eqb_spec (Lf st v) (n + 1)); [lia|].
    destruct (Nat.eqb_spec (Lf st v) s) as [E|E].
    { exfalso. rewrite E in H1. fold sr in H1. congruence. }
    destruct (Nat.eqb_spec (Lf st v) cl) as [E2|E2].
    { exfalso. rewrite E2, F1 in H1. congruence. }
    destruct (Nat.eqb_spec (Lf st v) n); [lia|]. exact H1.
  - intros v Hv Hl. rewrite (jc_live v Hv) in Hl. rewrite HR6.
    destruct (Nat.eqb_spec v (n + 1)) as [->|N1].
    { rewrite jc_live by lia. rewrite Nat.eqb_refl. reflexivity. }
    destruct (Nat.eqb_spec v s) as [->|N2].
    { rewrite jc_live by lia. destruct (Nat.eqb_spec c n); [lia|]. destruct (Nat.eqb_spec c (n + 1)); [lia|]. exact Lc. }
    destruct (Nat.eqb_spec v cl) as [->|N3].
    { rewrite jc_live by lia. rewrite Nat.eqb_refl. rewrite orb_true_r. reflexivity. }
    destruct (Nat.eqb_spec v n) as [->|N4].
    { rewrite jc_live by lia. destruct (Nat.eqb_spec sr n); [lia|]. destruct (Nat.eqb_spec sr (n + 1)); [lia|]. exact F5. }
    cbn [orb] in Hl. assert (Hvn : v < n) by lia. destruct (I_bound st I v Hvn) as [_ Hw].
    rewrite jc_live by lia. destruct (Nat.eqb_spec (Rf st v) n); [lia|]. destruct (Nat.eqb_spec (Rf st v) (n + 1)); [lia|].
    apply (I_rlive st I v Hvn Hl).
  - intros v Hv Hself. rewrite HL6 in Hself. rewrite (jc_live v Hv).
    destruct (Nat.eqb_spec v n) as [->|N1]; [reflexivity|].
    destruct (Nat.eqb_spec v (n + 1)) as [->|N4]; [reflexivity|]. cbn [orb].
    destruct (Nat.eqb_spec v c) as [->|N2]; [exact Lc|].
    destruct (Nat.eqb_spec v sr) as [->|N3]; [exact F5|].
    apply (I_self st I v); [lia|exact Hself].
Qed.

Local Open Scope Z_scope.

Lemma jc_chain a b :
  sumz (ledge st6 a b) (size st6) = sumz (ledge st a b) (size st).
Proof.
  pose proof jc_Rcl as F1. pose proof jc_cl_ne_s as F3.
  rewrite Hsize. fold n. replace (n + 2)%nat with (S (S n)) by lia. cbn [sumz].
  rewrite (sumz_ext (ledge st6 a b)
     (fun v => ledge st a b v +
        (if (v =? s)%nat then edge1 (Mf st s) (Mf st c) a b - edge1 (Mf st s) (Mf st sr) a b else 0)) n).
  - rewrite sumz_add, sumz_point. destruct (Nat.ltb_spec s n); [|lia].
    unfold ledge at 2 3. rewrite !jc_live by lia. rewrite !HR6, !HM6.
    replace (S n) with (n + 1)%nat by lia.
    rewrite !Nat.eqb_refl. rewrite orb_true_r.
    destruct (Nat.eqb_spec n (n + 1)); [lia|]. cbn [orb].
    destruct (Nat.eqb_spec n s); [lia|]. destruct (Nat.eqb_spec n cl); [lia|].
    destruct (Nat.eqb_spec sr (n + 1)); [lia|]. destruct (Nat.eqb_spec sr n); [lia|].
    rewrite (edge1_swap (Mf st s) (Mf st c)). lia.
  - intros v Hv. unfold ledge. rewrite jc_live by lia.
    destruct (Nat.eqb_spec v n); [lia|]. destruct (Nat.eqb_spec v (n + 1)); [lia|]. cbn [orb].
    rewrite HR6, !HM6.
    destruct (Nat.eqb_spec v (n + 1)); [lia|]. destruct (Nat.eqb_spec v n); [lia|].
    destruct (Nat.eqb_spec v s) as [->|N2].
    { rewrite Ls. destruct (Nat.eqb_spec c (n + 1)); [lia|]. destruct (Nat.eqb_spec c n); [lia|]. fold sr. lia. }
    destruct (Nat.eqb_spec v cl) as [->|N3].
    { rewrite Nat.eqb_refl. rewrite F1. destruct (live st cl); lia. }
    destruct (I_bound st I v Hv) as [_ Hw].
    destruct (Nat.eqb_spec (Rf st v) (n + 1)); [lia|]. destruct (Nat.eqb_spec (Rf st v) n); [lia|].
    destruct (live st v); lia.
Qed.

Lemma jc_nlive : sumz (lind st6) (size st6) = sumz (lind st) (size st) + 2.
Proof.
  rewrite Hsize. fold n. replace (n + 2)%nat with (S (S n)) by lia. cbn [sumz].
  rewrite (sumz_ext (lind st6) (lind st) n).
  - unfold lind at 2 3. rewrite !jc_live by lia. replace (S n) with (n + 1)%nat by lia.
    rewrite !Nat.eqb_refl. rewrite orb_true_r. cbn [orb]. lia.
  - intros v Hv. unfold lind. rewrite jc_live by lia.
    destruct (Nat.eqb_spec v n); [lia|]. destruct (Nat.eqb_spec v (n + 1)); [lia|]. reflexivity.
Qed.
End JoinCore.
Local Close Scope Z_scope.

Lemma push_inv st x st' : push st x = Some st' ->
  size st' = S (size st) /\ same_meta st st' /\
  (forall u, nth u (poly st') dv = if u =? size st then x else nth u (poly st) dv).
Proof.
  unfold push. destruct (length (poly st) <? cap st); [|discriminate].
  intros H; inversion H; subst; clear H. unfold size, same_meta, setPoly; cbn.
  split; [rewrite app_length; cbn; lia|]. split; [auto 10|].
  intros u. destruct (Nat.eqb_spec u (length (poly st))) as [->|Hne].
  - rewrite app_nth2 by lia. rewrite Nat.sub_diag. reflexivity.
  - destruct (Nat.lt_ge_cases u (length (poly st))).
    + apply app_nth1. assumption.
    + rewrite app_nth2 by lia. rewrite (nth_overflow (poly st)) by lia.
      destruct (u - length (poly st)) as [|k] eqn:E; [lia|]. destruct k; reflexivity.
Qed.

Section WithOracle3.
Variable orc : Oracle.
Variable ids : list Z.
Variable V : nat.

Lemma joinPolygons_step fuel st0 s c st' :
  joinPolygons orc fuel st0 s c = Some st' -> Step ids V st0 st'.
Proof.
  unfold joinPolygons, bind.
  destruct (clipped st0 s) as [cs|] eqn:Ecs; [|discriminate].
  destruct (clipped st0 c) as [cc|] eqn:Ecc; [|discriminate].
  destruct (getR st0 s) as [sr0|] eqn:Esr0; [|discriminate].
  apply clipped_inv in Ecs. destruct Ecs as (Hs & _ & ->).
  apply clipped_inv in Ecc. destruct Ecc as (Hc & _ & ->).
  apply getR_inv in Esr0. destruct Esr0 as [_ ->].
  set (bad := negb (live st0 s) || negb (live st0 c) || (Rf st0 s =? c)).
  set (st := addJoin (addBad st0 bad)).
  set (n := size st0).
  assert (Est : size st = n /\ (forall u, Rf st u = Rf st0 u) /\ (forall u, Lf st u = Lf st0 u) /\
                (forall u, Mf st u = Mf st0 u) /\ poly st = poly st0) by (repeat split).
  destruct Est as (Esz & ER & EL & EM & Epoly).
  destruct (getV st s) as [vs|] eqn:Evs; [|discriminate].
  apply getV_inv in Evs. destruct Evs as [_ Evs]. rewrite Epoly in Evs.
  destruct (push st vs) as [st1|] eqn:Ep1; [|discriminate].
  apply push_inv in Ep1. destruct Ep1 as (Hs1 & Hm1 & Hn1).
  destruct (getV st1 c) as [vc|] eqn:Evc; [|discriminate].
  apply getV_inv in Evc. destruct Evc as [_ Evc].
  rewrite Hn1 in Evc. rewrite Esz in Evc. destruct (Nat.eqb_spec c n) as [|_]; [unfold n in *; lia|].
  rewrite Epoly in Evc.
  destruct (push st1 vc) as [st2|] eqn:Ep2; [|discriminate].
  apply push_inv in Ep2. destruct Ep2 as (Hs2 & Hm2 & Hn2).
  assert (Hnth2 : forall u, nth u (poly st2) dv =
            if u =? S n then vc else if u =? n then vs else nth u (poly st0) dv).
  { intros u. rewrite Hn2, Hs1, Esz, Hn1, Esz, Epoly. reflexivity. }
  replace (length (poly st)) with n by (symmetry; exact Esz).
  replace (length (poly st1)) with (S n) by (unfold size in Hs1; rewrite Hs1; unfold size in Esz; rewrite Esz; reflexivity).
  destruct (getR st2 s) as [sr|] eqn:Esr; [|discriminate].
  apply getR_inv in Esr. destruct Esr as [_ ->].
  assert (ER2 : forall u, Rf st2 u = if u =? S n then Rf st0 c else if u =? n then Rf st0 s else Rf st0 u).
  { intros u. unfold Rf. rewrite Hnth2. subst vs vc. destruct (u =? S n), (u =? n); reflexivity. }
  assert (EL2 : forall u, Lf st2 u = if u =? S n then Lf st0 c else if u =? n then Lf st0 s else Lf st0 u).
  { intros u. unfold Lf. rewrite Hnth2. subst vs vc. destruct (u =? S n), (u =? n); reflexivity. }
  assert (EM2 : forall u, Mf st2 u = if u =? S n then Mf st0 c else if u =? n then Mf st0 s else Mf st0 u).
  { intros u. unfold Mf. rewrite Hnth2. subst vs vc. destruct (u =? S n), (u =? n); reflexivity. }
  assert (Esr : Rf st2 s = Rf st0 s).
  { rewrite ER2. destruct (Nat.eqb_spec s (S n)); [unfold n in *; lia|]. destruct (Nat.eqb_spec s n); [unfold n in *; lia|]. reflexivity. }
  rewrite Esr.
  destruct (setL st2 (Rf st0 s) n) as [st3|] eqn:E3; [|discriminate].
  apply setL_inv in E3. destruct E3 as (_ & Hs3 & Hm3 & HL3 & HR3 & HM3).
  destruct (getL st3 c) as [cl|] eqn:Ecl; [|discriminate].
  apply getL_inv in Ecl. destruct Ecl as [_ ->].
  destruct (setR st3 (Lf st3 c) (S n)) as [st4|] eqn:E4; [|discriminate].
  apply setR_inv in E4. destruct E4 as (_ & Hs4 & Hm4 & HR4 & HL4 & HM4).
  destruct (link st4 s c) as [st5|] eqn:E5; [|discriminate].
  apply link_inv in E5. destruct E5 as (_ & _ & Hs5 & Hm5 & HR5 & HL5 & HM5).
  destruct (link st5 (S n) n) as [st6|] eqn:E6; [|discriminate].
  apply link_inv in E6. destruct E6 as (_ & _ & Hs6 & Hm6 & HR6 & HL6 & HM6).
  destruct (clipIfDegenerate orc fuel st6 s) as [st7|] eqn:E7; [|discriminate].
  destruct (clipIfDegenerate orc fuel st7 n) as [st8|] eqn:E8; [|discriminate].
  destruct (clipIfDegenerate orc fuel st8 c) as [st9|] eqn:E9; [|discriminate].
  intros E10.
  assert (Hmeta : same_meta st st6).
  { repeat (eapply same_meta_trans; [eassumption|]). unfold same_meta; auto 10. }
  destruct Hmeta as (Mcap & Mtris & Mnclip & Mnfilt & Mnjoin & Mnbad).
  cbn [st addJoin addBad cap tris nclip nfilt njoin nbad] in Mcap, Mtris, Mnclip, Mnfilt, Mnjoin, Mnbad.
  eapply Step_trans; [|eapply Step_trans; [apply (clipIfDegenerate_step orc ids V _ _ _ _ E7)|
    eapply Step_trans; [apply (clipIfDegenerate_step orc ids V _ _ _ _ E8)|
    eapply Step_trans; [apply (clipIfDegenerate_step orc ids V _ _ _ _ E9)|
                        apply (clipIfDegenerate_step orc ids V _ _ _ _ E10)]]]].
  split; [rewrite Mnbad; destruct bad; lia|].
  intros Hz G. rewrite Mnbad in Hz. destruct bad eqn:Ebad; [lia|].
  unfold bad in Ebad. apply orb_false_iff in Ebad. destruct Ebad as [Ebad Hsrc].
  apply orb_false_iff in Ebad. destruct Ebad as [Ls Lc].
  apply negb_false_iff in Ls, Lc. apply Nat.eqb_neq in Hsrc.
  destruct G as [I Gm Gt Gc Gs Ge].
  assert (Hsize6 : size st6 = n + 2) by lia.
  assert (Hcl3 : Lf st3 c = Lf st0 c).
  { rewrite HL3, EL2. destruct (Nat.eqb_spec c (Rf st0 s)); [congruence|].
    destruct (Nat.eqb_spec c (S n)); [unfold n in *; lia|]. destruct (Nat.eqb_spec c n); [unfold n in *; lia|]. reflexivity. }
  rewrite Hcl3 in *.
  assert (HR : forall u, Rf st6 u =
     if u =? n + 1 then n else if u =? s then c else if u =? Lf st0 c then n + 1 else if u =? n then Rf st0 s else Rf st0 u).
  { intros u. rewrite HR6, HR5, HR4, HR3, ER2. replace (n + 1) with (S n) by lia.
    destruct (u =? S n); [reflexivity|]. destruct (u =? s); [reflexivity|]. destruct (u =? Lf st0 c); reflexivity. }
  assert (HL : forall u, Lf st6 u =
     if u =? n then n + 1 else if u =? c then s else if u =? Rf st0 s then n else if u =? n + 1 then Lf st0 c else Lf st0 u).
  { intros u. rewrite HL6, HL5, HL4, HL3, EL2. replace (n + 1) with (S n) by lia.
    destruct (Nat.eqb_spec u n) as [->|]; [reflexivity|]. destruct (u =? c); [reflexivity|].
    destruct (u =? Rf st0 s); [reflexivity|]. destruct (u =? S n); reflexivity. }
  assert (HM : forall u, Mf st6 u = if u =? n + 1 then Mf st0 c else if u =? n then Mf st0 s else Mf st0 u).
  { intros u. rewrite HM6, HM5, HM4, HM3, EM2. replace (n + 1) with (S n) by lia. reflexivity. }
  split.
  - constructor.
    + apply (jc_Inv st0 st6 s c I Hs Hc Ls Lc Hsrc Hsize6 HR HL).
    + intros v Hv. rewrite HM. destruct (Nat.eqb_spec v (n + 1)); [apply Gm; exact Hc|]. destruct (Nat.eqb_spec v n); [apply Gm; exact Hs|].
      apply Gm. fold n. lia.
    + unfold TrisIn. rewrite Mtris. exact Gt.
    + apply Nat2Z.inj. rewrite Nat2Z.inj_add, nlive_sum.
      rewrite (jc_nlive st0 st6 s c I Hs Hc Ls Lc Hsrc Hsize6 HR HL).
      rewrite <- nlive_sum. rewrite Mnclip. fold n in Gc. lia.
    + rewrite Mnjoin. fold n in Gs. lia.
    + rewrite Mtris, Mnfilt, Mnclip. exact Ge.
  - intros a b. unfold chain_of. rewrite !coef_app, !coef_live_edges, Mtris.
    rewrite (jc_chain st0 st6 s c I Hs Hc Ls Lc Hsrc Hsize6 HR HL HM a b). reflexivity.
Qed.
End WithOracle3.

(* ------------------------------------------------------------------ *)
(* the certificate for the initial state is sound *)

Lemma inv_check_sound st : inv_check st = true -> Inv st.
Proof.
  unfold inv_check. rewrite forallb_forall. intros H.
  assert (H' : forall v, v < size st ->
     Lf st v < size st /\ Rf st v < size st /\
     (live st v = true -> Rf st (Lf st v) = v) /\ (live st v = true -> live st (Rf st v) = true) /\
     (Lf st v = v -> live st v = true)).
  { intros v Hv. specialize (H v). rewrite in_seq in H. specialize (H ltac:(lia)).
    rewrite !andb_true_iff in H. destruct H as ((((H1 & H2) & H3) & H4) & H5).
    apply Nat.ltb_lt in H1, H2. repeat split; auto.
    - intros Hl. rewrite Hl in H3. cbn in H3. apply Nat.eqb_eq in H3. exact H3.
    - intros Hl. rewrite Hl in H4. cbn in H4. exact H4.
    - intros Hs. apply Nat.eqb_eq in Hs. rewrite Hs in H5. cbn in H5. exact H5. }
  constructor; intros v Hv; destruct (H' v Hv) as (A & B & C & D & E); auto.
Qed.

Lemma init_ok_sound polys st :
  init_ok polys st = true ->
  Good (concat polys) (numVert polys) st /\ nbad st = 0 /\ ceq (chain_of st) (contours polys).
Proof.
  unfold init_ok. rewrite !andb_true_iff.
  intros (((((((((Hi & Hm) & Ht) & Hc) & Hf) & Hj) & Hb) & Hl) & Hs) & Hch).
  apply Nat.eqb_eq in Hc, Hf, Hj, Hb, Hl, Hs.
  destruct (tris st) eqn:Et; [|discriminate].
  split; [|split; [exact Hb|]].
  - constructor.
    + apply inv_check_sound, Hi.
    + intros v Hv. unfold midx_check in Hm. rewrite forallb_forall in Hm.
      specialize (Hm v). rewrite in_seq in Hm. specialize (Hm ltac:(lia)).
      apply existsb_exists in Hm. destruct Hm as (x & Hx & Hxe). apply Z.eqb_eq in Hxe. rewrite Hxe. exact Hx.
    + intros a b c Hin. rewrite Et in Hin. destruct Hin.
    + lia.
    + lia.
    + rewrite Et. cbn. lia.
  - intros a b. unfold chain_of. rewrite Et. cbn [boundaries flat_map app].
    apply chain_eqb_sound, Hch.
Qed.

(* ------------------------------------------------------------------ *)
(* when every remaining ring has <= 2 records the live edges cancel *)

Local Open Scope Z_scope.

Lemma sumz_swap (F : nat -> nat -> Z) n m :
  sumz (fun v => sumz (fun w => F v w) m) n = sumz (fun w => sumz (fun v => F v w) n) m.
Proof.
  induction n as [|k IH]; cbn [sumz].
  - induction m as [|j IHm]; cbn [sumz]; lia.
  - rewrite IH. rewrite <- sumz_add. apply sumz_ext. intros; reflexivity.
Qed.
Lemma sumz_zero n : sumz (fun _ => 0) n = 0.
Proof. induction n; cbn [sumz]; lia. Qed.

Lemma live_edges_closed st a b :
  Inv st -> rings_closed st = true -> coef (live_edges st) a b = 0.
Proof.
  intros I Hc. rewrite coef_live_edges. set (n := size st).
  unfold rings_closed in Hc. rewrite forallb_forall in Hc.
  assert (Hcl : forall v, (v < n)%nat -> live st v = true -> Rf st (Rf st v) = v).
  { intros v Hv Hl. specialize (Hc v). rewrite in_seq in Hc. specialize (Hc ltac:(fold n; lia)).
    rewrite Hl in Hc. cbn in Hc. apply Nat.eqb_eq in Hc. exact Hc. }
  (* S = sum_v [live v] h(Rf v) with h w = edge1 (M (Rf w)) (M w), and also = - sum_w [live w] h' ... *)
  set (h := fun w => if live st w then edge1 (Mf st w) (Mf st (Rf st w)) a b else 0).
  assert (Hre : sumz (fun v => if live st v then h (Rf st v) else 0) n = sumz h n).
  { rewrite (sumz_ext _ (fun v => sumz (fun w => if live st v && (Rf st v =? w)%nat then h w else 0) n)).
    2:{ intros v Hv. destruct (live st v) eqn:Hl; cbn [andb].
        - destruct (I_bound st I v Hv) as [_ Hr].
          rewrite (sumz_ext _ (fun w => if (w =? Rf st v)%nat then h (Rf st v) else 0)).
          + rewrite sumz_point. destruct (Nat.ltb_spec (Rf st v) n); [reflexivity|lia].
          + intros w _. rewrite Nat.eqb_sym. destruct (Nat.eqb_spec w (Rf st v)); [subst; reflexivity|reflexivity].
        - symmetry. apply sumz_zero. }
    rewrite sumz_swap. apply sumz_ext. intros w Hw.
    rewrite (sumz_ext _ (fun v => if (v =? Rf st w)%nat then h w else 0)).
    - rewrite sumz_point. destruct (I_bound st I w Hw) as [_ Hr].
      destruct (Nat.ltb_spec (Rf st w) n); [reflexivity|lia].
    - intros v Hv. destruct (live st v) eqn:Hl; cbn [andb].
      + destruct (Nat.eqb_spec (Rf st v) w) as [E|E].
        * subst w. rewrite (Hcl v Hv Hl). rewrite Nat.eqb_refl. reflexivity.
        * destruct (Nat.eqb_spec v (Rf st w)) as [E2|E2]; [|reflexivity].
          unfold h. destruct (live st w) eqn:Hlw; [|reflexivity].
          exfalso. apply E. rewrite E2. apply (Hcl w Hw Hlw).
      + destruct (Nat.eqb_spec v (Rf st w)) as [E2|E2]; [|reflexivity].
        unfold h. destruct (live st w) eqn:Hlw; [|reflexivity].
        exfalso. rewrite E2 in Hl. rewrite (I_rlive st I w Hw Hlw) in Hl. discriminate. }
  assert (Hneg : sumz (fun v => if live st v then h (Rf st v) else 0) n = - sumz h n).
  { rewrite <- (Z.opp_involutive (sumz _ n)) at 1. f_equal.
    assert (Hopp : forall f k, - sumz f k = sumz (fun v => - f v) k).
    { intros f k. induction k as [|j IHk]; cbn [sumz]; lia. }
    rewrite Hopp. apply sumz_ext. intros v Hv. unfold h.
    destruct (live st v) eqn:Hl; [|lia].
    rewrite (I_rlive st I v Hv Hl). rewrite (Hcl v Hv Hl).
    rewrite (edge1_swap (Mf st v) (Mf st (Rf st v))). lia. }
  unfold ledge. fold h. change (sumz (fun v => h v) n = 0).
  assert (sumz h n = sumz (fun v => h v) n) by (apply sumz_ext; reflexivity). lia.
Qed.
Local Close Scope Z_scope.

(* ------------------------------------------------------------------ *)
(* the pipeline *)

Section Pipeline.
Variable orc : Oracle.
Variable ids : list Z.
Variable V : nat.

Lemma cutKeyhole_step fuel st outers h st' lost :
  cutKeyhole orc fuel st outers h = Some (st', lost) -> Step ids V st st'.
Proof.
  unfold cutKeyhole, bind.
  destruct (over_outers fuel st outers _ None) as [[edge|]|]; [| |discriminate].
  - destruct (if o_bridge0 orc st h edge then getR st edge else Some edge) as [c0|]; [|discriminate].
    destruct (if o_bridge_early orc st h c0 then Some c0 else _) as [c1|]; [|discriminate].
    destruct (joinPolygons orc fuel st h c1) as [st1|] eqn:E; [|discriminate].
    intros H; inversion H; subst. apply (joinPolygons_step orc ids V _ _ _ _ _ E).
  - intros H; inversion H; subst. apply Step_refl.
Qed.

Lemma cutKeyholes_step fuel outers : forall holes st simples st' simples',
  cutKeyholes orc fuel st outers holes simples = Some (st', simples') -> Step ids V st st'.
Proof.
  induction holes as [|h t IH]; intros st simples st' simples' H; cbn [cutKeyholes] in H.
  - inversion H; subst. apply Step_refl.
  - unfold bind in H. destruct (cutKeyhole orc fuel st outers h) as [[st1 lost]|] eqn:E; [|discriminate].
    eapply Step_trans; [apply (cutKeyhole_step _ _ _ _ _ _ E)|apply (IH _ _ _ _ H)].
Qed.

Lemma triangulate_steps fuel polys st :
  triangulate orc fuel polys = Some st ->
  exists st1 starts, initialize (reset polys) polys = Some (st1, starts) /\ Step ids V st1 st.
Proof.
  unfold triangulate, bind.
  destruct (initialize (reset polys) polys) as [[st1 starts]|]; [|discriminate].
  destruct (sweep orc fuel st1 _) as [st2|] eqn:E2; [|discriminate].
  destruct (findStarts orc fuel st2 starts [] [] []) as [[[holes outers] simples]|]; [|discriminate].
  destruct (cutKeyholes orc fuel st2 outers holes simples) as [[st3 simples']|] eqn:E3; [|discriminate].
  intros E4. exists st1, starts. split; [reflexivity|].
  eapply Step_trans; [apply (sweep_step orc ids V _ _ _ _ E2)|].
  eapply Step_trans; [apply (cutKeyholes_step _ _ _ _ _ _ _ E3)|].
  apply (triangulatePolys_step orc ids V _ _ _ _ E4).
Qed.
End Pipeline.

(* Main result (certificate form).  For every oracle: if the run of the ported
   Triangulate ends with st, the initial state passes the executable certificate
   init_ok, no internal precondition was violated (nbad = 0) and every remaining ring
   is closed (rings_closed, the code's DEBUG_ASSERT(v->right == v->left)), then the
   emitted triangles satisfy the chain identity, use only input indices, and their
   number is V + 2*joins - live - filtered. *)
Theorem earclip_contract orc fuel polys st :
  triangulate orc fuel polys = Some st ->
  exists st1 starts,
    initialize (reset polys) polys = Some (st1, starts) /\
    (init_ok polys st1 = true -> nbad st = 0 ->
       (forall a b, coef (boundaries (tris st) ++ live_edges st) a b = coef (contours polys) a b) /\
       TrisIn (concat polys) st /\
       length (tris st) + nfilt st = nclip st /\
       nclip st + nlive st = numVert polys + 2 * njoin st /\
       (rings_closed st = true -> ceq (boundaries (tris st)) (contours polys))).
Proof.
  intros H. destruct (triangulate_steps orc (concat polys) (numVert polys) fuel polys st H) as (st1 & starts & Hi & Hstep).
  exists st1, starts. split; [exact Hi|]. intros Hok Hz.
  destruct (init_ok_sound polys st1 Hok) as (G1 & Hb1 & C1).
  destruct Hstep as [_ Hs]. destruct (Hs Hz G1) as [G C].
  assert (Hch : forall a b, coef (boundaries (tris st) ++ live_edges st) a b = coef (contours polys) a b).
  { intros a b. fold (chain_of st). rewrite C. apply C1. }
  split; [exact Hch|]. split; [apply (G_tris _ _ _ G)|]. split; [apply (G_emit _ _ _ G)|].
  split; [rewrite (G_count _ _ _ G); apply (G_size _ _ _ G)|].
  intros Hrc a b. specialize (Hch a b). rewrite coef_app in Hch.
  rewrite (live_edges_closed st a b (G_inv _ _ _ G) Hrc) in Hch. lia.
Qed.

(* count corollary: when every hole was joined (njoin = h), nothing was filtered and the o
   remaining rings are closed with 2 records each, the number of triangles is V-2+2h-2(o-1) *)
Corollary earclip_count_formula orc fuel polys st st1 starts h o :
  triangulate orc fuel polys = Some st ->
  initialize (reset polys) polys = Some (st1, starts) ->
  init_ok polys st1 = true -> nbad st = 0 ->
  njoin st = h -> nlive st = 2 * o -> nfilt st = 0 ->
  (Z.of_nat (length (tris st)) = Z.of_nat (numVert polys) - 2 + 2 * Z.of_nat h - 2 * (Z.of_nat o - 1))%Z.
Proof.
  intros H Hi Hok Hz Hj Hl Hf.
  destruct (earclip_contract orc fuel polys st H) as (st1' & starts' & Hi' & Hc).
  rewrite Hi in Hi'. inversion Hi'; subst st1' starts'.
  destruct (Hc Hok Hz) as (_ & _ & He & Hn & _). lia.
Qed.

(* the clip loop of TriangulatePoly is counted: it performs exactly k ClipEar calls
   whenever it returns (it can only fail on an out-of-range iterator) *)
Lemma clip_loop_count orc : forall k st q v st',
  clip_loop orc k st q v = Some st' -> nclip st' = nclip st + k.
Proof.
  induction k as [|k IH]; intros st q v st' H; cbn [clip_loop] in H.
  { inversion H; subst. lia. }
  destruct (match q with [] => (v, q) | h :: _ => _ end) as [e q1]. unfold bind in H.
  destruct (getL st e) as [l0|]; [|discriminate]. destruct (getR st e) as [r0|]; [|discriminate].
  destruct (clipEar (addBad st (l0 =? r0)) e) as [st1|] eqn:Ec; [|discriminate].
  destruct (getL st1 e) as [l|]; [|discriminate]. destruct (getR st1 e) as [r|]; [|discriminate].
  rewrite (IH _ _ _ _ H). pose proof (clipEar_inv _ e st1 Ec) as Hi. cbv zeta in Hi.
  destruct Hi as (_ & _ & _ & _ & _ & _ & _ & _ & _ & _ & Hn & _). rewrite Hn. cbn. lia.
Qed.

(* ------------------------------------------------------------------ *)
(* HalfedgeTriangulation: Triangles() returns what AddTriangle stored, and with the chain
   identity every halfedge (reversed contour edges + triangle edges) has zero net coefficient *)
Lemma het_roundtrip ts : het_triangles (boundaries ts) = ts.
Proof.
  induction ts as [|[[a b] c] t IH]; [reflexivity|].
  unfold boundaries in *. cbn [flat_map boundary app het_triangles]. rewrite IH. reflexivity.
Qed.
Lemma het_closed polys ts :
  ceq (boundaries ts) (contours polys) -> ceq (het_halfedges polys ts) [].
Proof.
  intros H a b. unfold het_halfedges, het_contours. rewrite coef_app, coef_crev, H. cbn [coef]. lia.
Qed.

(* a concrete run on which all hypotheses of earclip_contract hold *)
Definition example_oracle : Oracle :=
  mkOracle (fun _ _ => false) (fun _ _ _ _ _ => true) (fun _ _ s => Nat.leb 5 s) (fun _ _ _ => true)
    (fun _ _ _ => 0) (fun _ _ _ _ => true) (fun _ _ _ => true) (fun _ _ _ => false) (fun _ _ _ _ _ => false)
    (fun _ _ => true) (fun _ q => length q - 1).
Definition example_polys : list (list Z) := [[10; 11; 12; 13; 14]%Z; [20; 21; 22]%Z].
Lemma example_run :
  exists st st1 starts,
    triangulate example_oracle 20 example_polys = Some st /\
    initialize (reset example_polys) example_polys = Some (st1, starts) /\
    init_ok example_polys st1 = true /\ nbad st = 0 /\ rings_closed st = true /\
    njoin st = 1 /\ nlive st = 2 /\ nfilt st = 0 /\ length (tris st) = 8.
Proof.
  destruct (triangulate example_oracle 20 example_polys) as [st|] eqn:E; [|vm_compute in E; discriminate].
  destruct (initialize (reset example_polys) example_polys) as [[st1 starts]|] eqn:E1; [|vm_compute in E1; discriminate].
  exists st, st1, starts. split; [reflexivity|]. split; [reflexivity|].
  vm_compute in E. inversion E; subst st. vm_compute in E1. inversion E1; subst st1 starts.
  vm_compute. repeat split.
Qed.
