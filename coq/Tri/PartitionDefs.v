(* Executable Gallina port of class Partition in src/subdivision.cpp:31-380
   (GetPartition, GetCachedPartition, PartitionFan, PartitionQuad, Reindex)
   and of the tolerance wrappers in src/manifold.cpp:370-410 / src/impl.cpp:677.
   Model only: no proofs here.

   Numbers.  The topology (triVert, vertex counts) is integer code, except for
   a handful of rounding decisions taken in double precision
   (the "acute-ish" test, ns, nh in GetCachedPartition and `added` in
   PartitionQuad).  These are ported bit-exactly with Coq's primitive binary64
   floats (PrimFloat: IEEE-754 round-to-nearest-even, evaluated by the
   hardware; std::round and the (int) cast are exact operations and are
   computed on the exact value through Prim2SF).
   The barycentric coordinates (vertBary) are computed by one code path over an
   abstract number type T with the single operation the C++ uses on them,
   la::lerp(a, b, num/den):
     - instance `float`  : bit-exact image of the C++ (compared bit for bit
                           with the implementation in the correspondence run);
     - instance `Q`      : the same formula in exact arithmetic; this is the
                           geometric pattern the tiling checker works on.
   Out-of-bounds vector reads, a failed DEBUG_ASSERT precondition (negative
   edgeAdded), an (int) cast of NaN/inf and fuel exhaustion give None.
   The unordered_map cache is not modelled: GetCachedPartition is a pure
   function of its key (the harness calls every key twice to check that the
   cached copy equals the first computation). *)
From Coq Require Import ZArith List Bool Floats Uint63 QArith.
Import ListNotations.
Local Open Scope Z_scope.

(* ------------------------------------------------------------------ *)
(* ivec4 / bvec4 / vec4                                                 *)

Record v4 (A : Type) := V4 { c0 : A; c1 : A; c2 : A; c3 : A }.
Arguments V4 {A}. Arguments c0 {A}. Arguments c1 {A}. Arguments c2 {A}. Arguments c3 {A}.

Definition g4 {A} (v : v4 A) (i : nat) : A :=
  match i with O => c0 v | 1%nat => c1 v | 2%nat => c2 v | _ => c3 v end.
Definition s4 {A} (v : v4 A) (i : nat) (x : A) : v4 A :=
  match i with
  | O => V4 x (c1 v) (c2 v) (c3 v)
  | 1%nat => V4 (c0 v) x (c2 v) (c3 v)
  | 2%nat => V4 (c0 v) (c1 v) x (c3 v)
  | _ => V4 (c0 v) (c1 v) (c2 v) x
  end.
Definition map4 {A B} (f : A -> B) (v : v4 A) : v4 B := V4 (f (c0 v)) (f (c1 v)) (f (c2 v)) (f (c3 v)).
Definition list4 {A} (v : v4 A) : list A := [c0 v; c1 v; c2 v; c3 v].

Definition tri : Type := (Z * Z * Z)%type.

Definition next3 (i : nat) : nat := match i with O => 1 | 1 => 2 | _ => 0 end%nat.
Definition mod4 (i : nat) : nat := Nat.modulo i 4.

(* Vec<T>::operator[] : out of range is undefined *)
Definition vget {A} (l : list A) (k : Z) : option A :=
  if k <? 0 then None else nth_error l (Z.to_nat k).
Definition zlen {A} (l : list A) : Z := Z.of_nat (length l).

(* `for (i = i0; cnt times; i += step) s = body i s` *)
Fixpoint zloop {S : Type} (cnt : nat) (i step : Z) (body : Z -> S -> S) (s : S) : S :=
  match cnt with O => s | S c => zloop c (i + step) step body (body i s) end.

(* ------------------------------------------------------------------ *)
(* binary64 helpers                                                     *)

(* (double)k for an int k; exact for |k| < 2^53 *)
Definition f_of_Z (z : Z) : float :=
  if z <? 0 then PrimFloat.opp (PrimFloat.of_uint63 (Uint63.of_Z (- z)))
  else PrimFloat.of_uint63 (Uint63.of_Z z).

(* la::lerp on doubles: a * (1 - c) + b * c (no contraction) *)
Definition f_lerp (a b c : float) : float :=
  PrimFloat.add (PrimFloat.mul a (PrimFloat.sub 1%float c)) (PrimFloat.mul b c).

(* std::round: nearest integer, halfway cases away from zero; exact *)
Definition f_round (x : float) : float :=
  match Prim2SF x with
  | S754_finite s m e =>
    if 0 <=? e then x
    else let r := Z.shiftr (Zpos m + Z.shiftl 1 (- e - 1)) (- e) in
         f_of_Z (if s then - r else r)
  | _ => x
  end.

(* (int)x : truncation toward zero; NaN, infinities and values outside int are undefined *)
Definition f_to_int (x : float) : option Z :=
  match Prim2SF x with
  | S754_zero _ => Some 0
  | S754_finite s m e =>
    let r := if 0 <=? e then Z.shiftl (Zpos m) e else Z.shiftr (Zpos m) (- e) in
    if r <? 2147483648 then Some (if s then - r else r) else None
  | _ => None
  end.

(* std::max(a, b) = (a < b) ? b : a *)
Definition f_max (a b : float) : float := if PrimFloat.ltb a b then b else a.

(* C++ int division and std::abs on ints *)
Definition idiv (a b : Z) : Z := Z.quot a b.

(* ------------------------------------------------------------------ *)
(* PartitionFan (subdivision.cpp:249-258)                               *)

Definition partition_fan (cv0 cv1 cv2 : Z) (added edgeOffset : Z) : list tri :=
  let '(tv, last) :=
    zloop (Z.to_nat added) 0 1
      (fun i '(tv, last) => let next := edgeOffset + i in (tv ++ [(last, next, cv2)], next))
      ([], cv0) in
  tv ++ [(last, cv1, cv2)].

(* ------------------------------------------------------------------ *)
(* PartitionQuad (subdivision.cpp:262-379)                              *)

Definition get_edge_vert (eo : v4 Z) (fwd : v4 bool) (edge : nat) (idx : Z) : Z :=
  g4 eo edge + (if g4 fwd edge then 1 else -1) * idx.

(* the scan of lines 272-283: returns (corner, maxEdge) *)
Definition quad_scan (ea : v4 Z) : Z * Z :=
  let step (i : nat) (st : Z * nat * Z) :=
    let '(corner, last, maxEdge) := st in
    let corner' := if (corner =? -1) && (g4 ea i =? 0) && (g4 ea last =? 0) then Z.of_nat i else corner in
    let maxEdge' := if g4 ea i >? 0 then (if maxEdge =? -1 then Z.of_nat i else -2) else maxEdge in
    (corner', i, maxEdge') in
  let '(corner, _, maxEdge) := step 3%nat (step 2%nat (step 1%nat (step 0%nat (-1, 3%nat, -1)))) in
  (corner, maxEdge).

(* lines 285-301: exactly one side carries added vertices *)
Definition quad_term_one (cv eo ea : v4 Z) (fwd : v4 bool) (maxEdge : nat) : list tri :=
  let e (k : nat) := mod4 (k + maxEdge) in
  let gev := get_edge_vert eo fwd maxEdge in
  let middle := idiv (g4 ea maxEdge) 2 in
  let tv0 := [(g4 cv (e 2%nat), g4 cv (e 3%nat), gev middle)] in
  let '(tv1, _) :=
    zloop (Z.to_nat (middle + 1)) 0 1
      (fun i '(tv, last) => let next := gev i in (tv ++ [(g4 cv (e 3%nat), last, next)], next))
      (tv0, g4 cv (e 0%nat)) in
  let '(tv2, _) :=
    zloop (Z.to_nat (g4 ea maxEdge - middle)) (g4 ea maxEdge - 1) (-1)
      (fun i '(tv, last) => let next := gev i in (tv ++ [(g4 cv (e 2%nat), next, last)], next))
      (tv1, g4 cv (e 1%nat)) in
  tv2.

(* lines 302-321: zero or two sides (corner+1, corner+2) carry added vertices *)
Definition quad_term_corner (cv eo ea : v4 Z) (fwd : v4 bool) (corner : nat) : list tri :=
  let side_step (j : nat) (st : list tri * Z) :=
    let '(tv, sideVert) := st in
    let side := mod4 (corner + j) in
    let '(tv, sideVert) :=
      if (Nat.eqb j 2) && (g4 ea side >? 0)
      then (tv ++ [(g4 cv side, get_edge_vert eo fwd side 0, sideVert)], sideVert)
      else (tv, g4 cv side) in
    let '(tv, sideVert) :=
      zloop (Z.to_nat (g4 ea side)) 0 1
        (fun i '(tv, sideVert) =>
           let nextVert := get_edge_vert eo fwd side i in
           (tv ++ [(g4 cv corner, sideVert, nextVert)], nextVert))
        (tv, sideVert) in
    if (Nat.eqb j 2) || (g4 ea side =? 0)
    then (tv ++ [(g4 cv corner, sideVert, g4 cv (mod4 (corner + j + 1)))], sideVert)
    else (tv, sideVert) in
  fst (side_step 2%nat (side_step 1%nat ([], g4 cv 0%nat))).

Definition any_negative (ea : v4 Z) : bool :=
  (c0 ea <? 0) || (c1 ea <? 0) || (c2 ea <? 0) || (c3 ea <? 0).

(* `added` of line 339: std::round(la::lerp((double)ea0, (double)ea2, (double)i / partitions)) -> int *)
Definition quad_added (ea0 ea2 i partitions : Z) : option Z :=
  f_to_int (f_round (f_lerp (f_of_Z ea0) (f_of_Z ea2) (PrimFloat.div (f_of_Z i) (f_of_Z partitions)))).

Section Num.
  Variable T : Type.
  Variable tzero tone : T.
  (* la::lerp(a, b, num/den) on one component; the C++ forms the double
     (double)num / den first, then a * (1 - c) + b * c *)
  Variable tlerp : T -> T -> Z -> Z -> T.

  Definition bary : Type := v4 T.
  Definition lerp4 (a b : bary) (num den : Z) : bary :=
    V4 (tlerp (c0 a) (c0 b) num den) (tlerp (c1 a) (c1 b) num den)
       (tlerp (c2 a) (c2 b) num den) (tlerp (c3 a) (c3 b) num den).
  Definition unit4 (i : nat) : bary := s4 (V4 tzero tzero tzero tzero) i tone.

  (* loop state of the recursive part *)
  Record qstate := QS { q_cv : v4 Z; q_eo : v4 Z; q_ea : v4 Z; q_fwd : v4 bool;
                        q_tv : list tri; q_vb : list bary }.

  Fixpoint partition_quad (fuel : nat) (vb : list bary) (cv eo ea : v4 Z) (fwd : v4 bool)
    : option (list tri * list bary) :=
    match fuel with
    | O => None
    | S fuel' =>
      if any_negative ea then None (* DEBUG_ASSERT "negative divisions!" *) else
      let gev := get_edge_vert eo fwd in
      let '(corner, maxEdge) := quad_scan ea in
      if 0 <=? corner then
        if 0 <=? maxEdge then Some (quad_term_one cv eo ea fwd (Z.to_nat maxEdge), vb)
        else Some (quad_term_corner cv eo ea fwd (Z.to_nat corner), vb)
      else
        let partitions := 1 + Z.min (g4 ea 1%nat) (g4 ea 3%nat) in
        let st0 := QS (V4 (g4 cv 1%nat) (-1) (-1) (g4 cv 0%nat))
                      (V4 (g4 eo 1%nat) (-1) (gev 3%nat (g4 ea 3%nat + 1)) (g4 eo 0%nat))
                      (V4 0 (-1) 0 (g4 ea 0%nat))
                      (V4 (g4 fwd 1%nat) true (g4 fwd 3%nat) (g4 fwd 0%nat))
                      [] vb in
        let body (i : Z) (ost : option qstate) : option qstate :=
          match ost with
          | None => None
          | Some st =>
            let cornerOffset1 := idiv (g4 ea 1%nat * i) partitions in
            let cornerOffset3 := g4 ea 3%nat - 1 - idiv (g4 ea 3%nat * i) partitions in
            let nextOffset1 := gev 1%nat (cornerOffset1 + 1) in
            let nextOffset3 := gev 3%nat (cornerOffset3 + 1) in
            match quad_added (g4 ea 0%nat) (g4 ea 2%nat) i partitions with
            | None => None
            | Some added =>
              let ncv := s4 (s4 (q_cv st) 1%nat (gev 1%nat cornerOffset1)) 2%nat (gev 3%nat cornerOffset3) in
              let nea := s4 (s4 (s4 (q_ea st) 0%nat (Z.abs (nextOffset1 - g4 (q_eo st) 0%nat) - 1))
                                1%nat added)
                            2%nat (Z.abs (nextOffset3 - g4 (q_eo st) 2%nat) - 1) in
              let neo := s4 (s4 (q_eo st) 1%nat (zlen (q_vb st))) 2%nat nextOffset3 in
              let ovb :=
                zloop (Z.to_nat added) 0 1
                  (fun j ovb =>
                     match ovb with
                     | None => None
                     | Some vb1 =>
                       match vget vb1 (g4 ncv 1%nat), vget vb1 (g4 ncv 2%nat) with
                       | Some a, Some b => Some (vb1 ++ [lerp4 a b (j + 1) (added + 1)])
                       | _, _ => None
                       end
                     end) (Some (q_vb st)) in
              match ovb with
              | None => None
              | Some vb1 =>
                match partition_quad fuel' vb1 ncv neo nea (q_fwd st) with
                | None => None
                | Some (tv', vb2) =>
                  let ncv' := s4 (s4 ncv 0%nat (g4 ncv 1%nat)) 3%nat (g4 ncv 2%nat) in
                  let nea' := s4 nea 3%nat (g4 nea 1%nat) in
                  let neo' := s4 (s4 neo 0%nat nextOffset1) 3%nat (g4 neo 1%nat + g4 nea 1%nat - 1) in
                  let nfwd' := s4 (q_fwd st) 3%nat false in
                  Some (QS ncv' neo' nea' nfwd' (q_tv st ++ tv') vb2)
                end
              end
            end
          end in
        match zloop (Z.to_nat (partitions - 1)) 1 1 body (Some st0) with
        | None => None
        | Some st =>
          let ncv := s4 (s4 (q_cv st) 1%nat (g4 cv 2%nat)) 2%nat (g4 cv 3%nat) in
          let neo1 := s4 (q_eo st) 1%nat (g4 eo 2%nat) in
          let nea := s4 (s4 (s4 (q_ea st) 0%nat (g4 ea 1%nat - Z.abs (g4 neo1 0%nat - g4 eo 1%nat)))
                            1%nat (g4 ea 2%nat))
                        2%nat (Z.abs (g4 neo1 2%nat - g4 eo 3%nat) - 1) in
          let neo := s4 neo1 2%nat (g4 eo 3%nat) in
          let nfwd := s4 (q_fwd st) 1%nat (g4 fwd 2%nat) in
          match partition_quad fuel' (q_vb st) ncv neo nea nfwd with
          | None => None
          | Some (tv', vb2) => Some (q_tv st ++ tv', vb2)
          end
        end
    end.

  (* ---------------------------------------------------------------- *)
  (* Partition objects                                                  *)

  Record partition := MkPart { p_idx : v4 nat; p_sorted : v4 Z; p_vb : list bary; p_tv : list tri }.

  Definition interior_offset (p : partition) : Z :=
    c0 (p_sorted p) + c1 (p_sorted p) + c2 (p_sorted p) + c3 (p_sorted p).
  Definition num_interior (p : partition) : Z := zlen (p_vb p) - interior_offset p.

  (* the edge vertices of side i: lerp(vb[i], vb[(i+1)%k], j/n_i) for j = 1..n_i-1 *)
  Definition edge_verts (a b : bary) (ni : Z) : list bary :=
    zloop (Z.to_nat (ni - 1)) 1 1 (fun j l => l ++ [lerp4 a b j ni]) [].

  Definition fuel_of (n : v4 Z) : nat := Z.to_nat (c0 n + c1 n + c2 n + c3 n + 8).

  (* lines 199-204: ns (portion of n[0] under n[2]) and nh (height from n[0]) *)
  Definition obtuse_split (n0 n1 n2 : Z) : option (Z * Z) :=
    let f := f_of_Z (n2 * n2 + n0 * n0) in
    match f_to_int (f_round (PrimFloat.div (PrimFloat.sub f (f_of_Z (n1 * n1))) (f_of_Z (2 * n0)))) with
    | None => None
    | Some nsr =>
      let ns := Z.min (n0 - 2) nsr in
      match f_to_int (f_max 1%float (f_round (PrimFloat.sqrt (f_of_Z (n2 * n2 - ns * ns))))) with
      | None => None
      | Some nh => Some (ns, nh)
      end
    end.

  (* lines 206-239, given ns and nh *)
  Definition tri_obtuse (n : v4 Z) (vb : list bary) (ns nh : Z) : option (list bary * list tri) :=
    let n0 := c0 n in let n1 := c1 n in let n2 := c2 n in
    let eo0 := 3 in let eo1 := 3 + n0 - 1 in let eo2 := 3 + n0 - 1 + n1 - 1 in
    let allfwd := V4 true true true true in
    let hOffset := zlen vb in
    match vget vb (eo0 + ns - 1), vget vb 2 with
    | Some middleBary, Some b2 =>
      let vb1 := vb ++ edge_verts b2 middleBary nh in
      let tv0 := [(eo1 - 1, 1, eo1)] in
      match partition_quad (fuel_of n) vb1 (V4 (eo1 - 1) eo1 2 (eo0 + ns - 1))
                           (V4 (-1) (eo1 + 1) hOffset (eo0 + ns))
                           (V4 0 (n1 - 2) (nh - 1) (n0 - ns - 2)) allfwd with
      | None => None
      | Some (tv1, vb2) =>
        if n2 =? 1 then
          Some (vb2, tv0 ++ tv1 ++ partition_fan 0 (eo0 + ns - 1) 2 (ns - 1) eo0)
        else if ns =? 1 then
          match partition_quad (fuel_of n) vb2 (V4 hOffset eo2 0 eo0)
                               (V4 (-1) (eo2 + 1) (-1) (hOffset + nh - 2))
                               (V4 0 (n2 - 2) (ns - 1) (nh - 2)) (V4 true true true false) with
          | None => None
          | Some (tv2, vb3) => Some (vb3, tv0 ++ tv1 ++ [(hOffset, 2, eo2)] ++ tv2)
          end
        else
          match partition_quad (fuel_of n) vb2 (V4 (hOffset - 1) eo0 (eo0 + ns - 1) 2)
                               (V4 (-1) (eo0 + 1) (hOffset + nh - 2) eo2)
                               (V4 0 (ns - 2) (nh - 1) (n2 - 2)) (V4 true true false true) with
          | None => None
          | Some (tv2, vb3) => Some (vb3, tv0 ++ tv1 ++ [(hOffset - 1, 0, eo0)] ++ tv2)
          end
      end
    | _, _ => None
    end.

  (* GetCachedPartition (lines 142-246) *)
  Definition cached_partition (n : v4 Z) : option (list bary * list tri) :=
    if c3 n >? 0 then
      let vb := [unit4 0; unit4 1; unit4 2; unit4 3]%nat
                ++ edge_verts (unit4 0) (unit4 1) (c0 n) ++ edge_verts (unit4 1) (unit4 2) (c1 n)
                ++ edge_verts (unit4 2) (unit4 3) (c2 n) ++ edge_verts (unit4 3) (unit4 0) (c3 n) in
      let eo0 := 4 in let eo1 := eo0 + c0 n - 1 in let eo2 := eo1 + c1 n - 1 in let eo3 := eo2 + c2 n - 1 in
      match partition_quad (fuel_of n) vb (V4 0 1 2 3) (V4 eo0 eo1 eo2 eo3)
                           (map4 (fun x => x - 1) n) (V4 true true true true) with
      | Some (tv, vb') => Some (vb', tv)
      | None => None
      end
    else
      let n0 := c0 n in let n1 := c1 n in let n2 := c2 n in
      let vb := [unit4 0; unit4 1; unit4 2]%nat
                ++ edge_verts (unit4 0) (unit4 1) n0 ++ edge_verts (unit4 1) (unit4 2) n1
                ++ edge_verts (unit4 2) (unit4 0) n2 in
      let eo0 := 3 in let eo1 := 3 + n0 - 1 in let eo2 := 3 + n0 - 1 + n1 - 1 in
      let allfwd := V4 true true true true in
      let f := f_of_Z (n2 * n2 + n0 * n0) in
      if n1 =? 1 then
        if n0 =? 1 then Some (vb, [(0, 1, 2)])
        else Some (vb, partition_fan 0 1 2 (n0 - 1) eo0)
      else if PrimFloat.ltb (PrimFloat.sub f (PrimFloat.mul (PrimFloat.mul (PrimFloat.sqrt 2%float) (f_of_Z n0)) (f_of_Z n2)))
                            (f_of_Z (n1 * n1)) then
        (* acute-ish *)
        match partition_quad (fuel_of n) vb (V4 (eo1 - 1) eo1 2 0) (V4 (-1) (eo1 + 1) eo2 eo0)
                             (V4 0 (n1 - 2) (n2 - 1) (n0 - 2)) allfwd with
        | Some (tv, vb') => Some (vb', (eo1 - 1, 1, eo1) :: tv)
        | None => None
        end
      else
        (* obtuse: split into two acute *)
        match obtuse_split n0 n1 n2 with
        | None => None
        | Some (ns, nh) => tri_obtuse n vb ns nh
        end.

  (* the sort / rotation of GetPartition (lines 48-92): (sortedDiv, triIdx) *)
  Definition swap4 {A} (v : v4 A) (i j : nat) : v4 A := s4 (s4 v i (g4 v j)) j (g4 v i).

  Definition sort_divisions (d : v4 Z) : v4 Z * v4 nat :=
    let idx0 := (V4 0 1 2 3)%nat in
    if c3 d =? 0 then
      let '(s, ix) := if g4 d 2%nat >? g4 d 1%nat then (swap4 d 2 1, swap4 idx0 2 1) else (d, idx0) in
      if g4 s 1%nat >? g4 s 0%nat then
        let s := swap4 s 1 0 in let ix := swap4 ix 1 0 in
        if g4 s 2%nat >? g4 s 1%nat then (swap4 s 2 1, swap4 ix 2 1) else (s, ix)
      else (s, ix)
    else
      let step (i : nat) (st : nat * Z * Z) :=
        let '(minIdx, mn, next) := st in
        let n := g4 d (mod4 (i + 1)) in
        if (g4 d i <? mn) || ((g4 d i =? mn) && (n <? next)) then (i, g4 d i, n) else st in
      let '(minIdx, _, _) := step 3%nat (step 2%nat (step 1%nat (0%nat, g4 d 0%nat, g4 d 1%nat))) in
      let ix := (V4 (mod4 (0 + minIdx)) (mod4 (1 + minIdx)) (mod4 (2 + minIdx)) (mod4 (3 + minIdx)))%nat in
      (map4 (g4 d) ix, ix).

  Definition empty_partition : partition := MkPart (V4 0 0 0 0)%nat (V4 0 0 0 0) [] [].

  Definition get_partition (d : v4 Z) : option partition :=
    if c0 d =? 0 then Some empty_partition
    else let '(s, ix) := sort_divisions d in
         match cached_partition s with
         | Some (vb, tv) => Some (MkPart ix s vb tv)
         | None => None
         end.

  (* ---------------------------------------------------------------- *)
  (* Reindex (lines 94-130)                                             *)

  Definition edge_run (offset0 : Z) (fwd : bool) (n : Z) : list Z :=
    fst (zloop (Z.to_nat n) 0 1
           (fun _ '(l, offset) => (l ++ [offset], offset + (if fwd then 1 else -1)))
           ([], offset0 + (if fwd then 0 else n - 1))).

  Definition reindex_mirrored (idx : v4 nat) (triVerts : v4 Z) : bool :=
    (c3 triVerts <? 0) && negb (Nat.eqb (g4 idx 1%nat) (next3 (g4 idx 0%nat))).

  Definition reindex_new_verts (idx : v4 nat) (sorted : v4 Z) (nvb : Z)
             (triVerts edgeOffsets : v4 Z) (edgeFwd : v4 bool) (interiorOffset : Z) : list Z :=
    let mir := reindex_mirrored idx triVerts in
    let triIdx := if mir then V4 (g4 idx 2%nat) (g4 idx 0%nat) (g4 idx 1%nat) (g4 idx 3%nat) else idx in
    let edgeFwd := if mir then map4 negb edgeFwd else edgeFwd in
    let corners := filter (fun v => 0 <=? v) (map (fun i => g4 triVerts (g4 triIdx i)) [0; 1; 2; 3]%nat) in
    let runs := flat_map (fun i => edge_run (g4 edgeOffsets (g4 idx i)) (g4 edgeFwd (g4 idx i)) (g4 sorted i - 1))
                         [0; 1; 2; 3]%nat in
    let old := corners ++ runs in
    old ++ zloop (Z.to_nat (nvb - zlen old)) 0 1 (fun k l => l ++ [interiorOffset + k]) [].

  Definition reindex (p : partition) (triVerts edgeOffsets : v4 Z) (edgeFwd : v4 bool) (interiorOffset : Z)
    : option (list tri) :=
    let nv := reindex_new_verts (p_idx p) (p_sorted p) (zlen (p_vb p)) triVerts edgeOffsets edgeFwd interiorOffset in
    let mir := reindex_mirrored (p_idx p) triVerts in
    fold_right
      (fun (t : tri) acc =>
         let '(a, b, c) := t in
         match acc, vget nv a, vget nv b, vget nv c with
         | Some l, Some a', Some b', Some c' => Some ((if mir then (b', a', c') else (a', b', c')) :: l)
         | _, _, _, _ => None
         end) (Some []) (p_tv p).
End Num.

Arguments QS {T}. Arguments MkPart {T}.
Arguments p_idx {T}. Arguments p_sorted {T}. Arguments p_vb {T}. Arguments p_tv {T}.

(* ------------------------------------------------------------------ *)
(* the two instances                                                    *)

Definition flerp (a b : float) (num den : Z) : float :=
  f_lerp a b (PrimFloat.div (f_of_Z num) (f_of_Z den)).
Definition qlerp (a b : Q) (num den : Z) : Q :=
  let c := Qmake num (Z.to_pos den) in Qred (a * (1 - c) + b * c)%Q.

Definition cached_partition_f := cached_partition float 0%float 1%float flerp.
Definition cached_partition_q := cached_partition Q 0%Q 1%Q qlerp.
Definition get_partition_f := get_partition float 0%float 1%float flerp.
Definition get_partition_q := get_partition Q 0%Q 1%Q qlerp.

(* ------------------------------------------------------------------ *)
(* Tolerance wrappers.  Doubles are an abstract total order here (min, max
   and comparison are exact on non-NaN doubles): Z stands for them.        *)

(* Manifold::SetTolerance (manifold.cpp:370-386): the new tolerance_ *)
Definition set_tolerance (tol_old eps t : Z) : Z * bool (* simplified? *) :=
  if t >? tol_old then (t, true) else (Z.max eps t, false).
(* Manifold::Simplify (manifold.cpp:395-410): (tolerance used by SimplifyTopology2, tolerance_ afterwards) *)
Definition simplify_tolerances (tol_old t : Z) : Z * Z :=
  let t := if t =? 0 then tol_old else t in
  ((if t >? tol_old then t else tol_old), tol_old).
(* Impl::SetEpsilon (impl.cpp:677-684): (epsilon_, tolerance_) with e = MaxEpsilon(minEpsilon, bBox) given *)
Definition set_epsilon (tol_old maxeps floatfloor : Z) (useSingle : bool) : Z * Z :=
  let minTol := if useSingle then Z.max maxeps floatfloor else maxeps in
  (maxeps, Z.max tol_old minTol).
