(* Lemmas about the model of Manifold::Impl::Subdivide (SubdivideDefs.v).
   Scope as in SubdivideDefs.v: no marked quads (halfedges[3] = -1 for every
   triangle), keepInterior = false, numProp = 0 for the main theorems.

   A  `new_indices_once_*`   the index ranges handed out by the two
                             exclusive scans partition [numVert, numVert + total).
   B1 `gout_balances`        for ANY closed oriented triangle soup, any offsets
                             and any numbers of added vertices per undirected
                             edge, the subdivided outlines of all triangles
                             cancel (chain group of Base/Chain.v).  No
                             hypothesis about Partition.
   B2 `subdivide_balances`   with the per-triangle hypothesis `H_pattern`
                             (boundary of the reindexed pattern = subdivided
                             outline, supplied by the Partition theorems) the
                             output of Subdivide is closed and oriented.
   P  `prop_slots_*`         numProp > 0: forward copies and backward
                             duplicates of the edge property rows are disjoint
                             and inside the new property table. *)
From Coq Require Import ZArith List Bool Lia Floats QArith.
From MV Require Import Base.Chain Tri.PartitionDefs Tri.QuadChain Tri.QuadModel Tri.SubdivideDefs.
Import ListNotations.
Local Open Scope Z_scope.

(* ------------------------------------------------------------------ *)
(* A. exclusive scans hand out every index exactly once                 *)

Definition nonneg (l : list Z) : Prop := Forall (fun n => 0 <= n) l.

(* x is the k-th index of the i-th run: x = offs[i] + k with 0 <= k < ns[i] *)
Definition in_run (offs ns : list Z) (i : nat) (k x : Z) : Prop :=
  exists n o, nth_error ns i = Some n /\ nth_error offs i = Some o /\ 0 <= k < n /\ x = o + k.

Lemma exclusive_scan_length init l : length (exclusive_scan init l) = length l.
Proof. revert init. induction l as [|x t IH]; intro init; cbn [exclusive_scan length]; auto. Qed.

Lemma zsum_cons x t : zsum (x :: t) = x + zsum t.
Proof. reflexivity. Qed.

Lemma zsum_nonneg l : nonneg l -> 0 <= zsum l.
Proof.
  induction l as [|x t IH]; intro H; [cbn; lia|].
  rewrite zsum_cons. pose proof (Forall_inv H) as Hx. cbn beta in Hx.
  specialize (IH (Forall_inv_tail H)). lia.
Qed.

Lemma in_run_cons_S init n t i k x :
  in_run (exclusive_scan init (n :: t)) (n :: t) (S i) k x <-> in_run (exclusive_scan (init + n) t) t i k x.
Proof. reflexivity. Qed.

Lemma scan_run_range l : forall init i k x,
  nonneg l -> in_run (exclusive_scan init l) l i k x -> init <= x < init + zsum l.
Proof.
  induction l as [|n t IH]; intros init i k x Hnn Hr.
  - destruct Hr as (n' & o & Hn & _). destruct i; discriminate.
  - pose proof (Forall_inv Hnn) as Hn0. cbn beta in Hn0.
    pose proof (zsum_nonneg t (Forall_inv_tail Hnn)) as Ht.
    rewrite zsum_cons. destruct i as [|i].
    + destruct Hr as (n' & o & Hn & Ho & Hk & Hx). cbn [nth_error exclusive_scan] in Hn, Ho.
      injection Hn as <-. injection Ho as <-. lia.
    + apply in_run_cons_S in Hr. specialize (IH (init + n) i k x (Forall_inv_tail Hnn) Hr). lia.
Qed.

Lemma scan_run_exists l : forall init x,
  nonneg l -> init <= x < init + zsum l -> exists i k, in_run (exclusive_scan init l) l i k x.
Proof.
  induction l as [|n t IH]; intros init x Hnn Hx.
  - cbn in Hx. lia.
  - rewrite zsum_cons in Hx. destruct (Z_lt_ge_dec x (init + n)) as [Hlt|Hge].
    + exists 0%nat, (x - init), n, init. cbn [nth_error exclusive_scan]. repeat split; lia.
    + destruct (IH (init + n) x (Forall_inv_tail Hnn) ltac:(lia)) as (i & k & Hr).
      exists (S i), k. apply in_run_cons_S. exact Hr.
Qed.

Lemma scan_run_unique l : forall init i k i' k' x,
  nonneg l -> in_run (exclusive_scan init l) l i k x -> in_run (exclusive_scan init l) l i' k' x ->
  i = i' /\ k = k'.
Proof.
  induction l as [|n t IH]; intros init i k i' k' x Hnn H1 H2.
  - destruct H1 as (n' & o & Hn & _). destruct i; discriminate.
  - pose proof (Forall_inv_tail Hnn) as Hnt.
    assert (H0 : forall k0, in_run (exclusive_scan init (n :: t)) (n :: t) 0 k0 x -> 0 <= k0 < n /\ x = init + k0).
    { intros k0 (n' & o & Hn & Ho & Hk & Hx). cbn [nth_error exclusive_scan] in Hn, Ho.
      injection Hn as <-. injection Ho as <-. auto. }
    destruct i as [|i], i' as [|i'].
    + apply H0 in H1. apply H0 in H2. split; [reflexivity|lia].
    + apply H0 in H1. apply in_run_cons_S in H2. pose proof (scan_run_range t _ _ _ _ Hnt H2). lia.
    + apply H0 in H2. apply in_run_cons_S in H1. pose proof (scan_run_range t _ _ _ _ Hnt H1). lia.
    + apply in_run_cons_S in H1. apply in_run_cons_S in H2.
      destruct (IH _ _ _ _ _ _ Hnt H1 H2) as [-> ->]. auto.
Qed.

(* the generic statement: the runs offs[i] + [0, ns[i]) of an exclusive scan of
   non-negative sizes tile [init, init + sum ns): every run lies in the
   interval and every index of the interval is in exactly one run, at exactly
   one position *)
Theorem exclusive_scan_partition : forall (init : Z) (ns : list Z),
  nonneg ns ->
  (forall i k x, in_run (exclusive_scan init ns) ns i k x -> init <= x < init + zsum ns) /\
  (forall x, init <= x < init + zsum ns ->
     (exists i k, in_run (exclusive_scan init ns) ns i k x) /\
     (forall i k i' k', in_run (exclusive_scan init ns) ns i k x ->
                        in_run (exclusive_scan init ns) ns i' k' x -> i = i' /\ k = k')).
Proof.
  intros init ns Hnn. split; [|intros x Hx; split].
  - intros i k x. apply scan_run_range, Hnn.
  - apply scan_run_exists; assumption.
  - intros i k i' k'. apply scan_run_unique, Hnn.
Qed.

(* out.back() + in.back() is the end of the interval *)
Lemma scan_last t : forall x init,
  last (exclusive_scan init (x :: t)) 0 + last (x :: t) 0 = init + zsum (x :: t).
Proof.
  induction t as [|y t' IH]; intros x init.
  - cbn [exclusive_scan last zsum fold_right]. lia.
  - rewrite zsum_cons.
    change (last (exclusive_scan init (x :: y :: t')) 0) with (last (exclusive_scan (init + x) (y :: t')) 0).
    change (last (x :: y :: t') 0) with (last (y :: t') 0). rewrite IH. lia.
Qed.
Lemma scan_end_total l : forall init, l <> [] -> scan_end init l = Some (init + zsum l).
Proof.
  destruct l as [|x t]; intros init Hne; [congruence|].
  unfold scan_end. apply f_equal. apply scan_last.
Qed.

(* Theorem A, edge vertices: edgeOffset[i] + [0, edgeAdded[i]) tile
   [numVert, numVert + totalEdgeAdded) *)
Theorem new_indices_once_edges : forall (numVert : Z) (tris : list tri) (added : Z -> Z -> Z),
  nonneg (edge_added_list tris added) ->
  (forall i k x, in_run (edge_offset_list numVert tris added) (edge_added_list tris added) i k x ->
                 numVert <= x < numVert + total_edge_added tris added) /\
  (forall x, numVert <= x < numVert + total_edge_added tris added ->
     (exists i k, in_run (edge_offset_list numVert tris added) (edge_added_list tris added) i k x) /\
     (forall i k i' k',
        in_run (edge_offset_list numVert tris added) (edge_added_list tris added) i k x ->
        in_run (edge_offset_list numVert tris added) (edge_added_list tris added) i' k' x ->
        i = i' /\ k = k')).
Proof. intros numVert tris added. apply exclusive_scan_partition. Qed.

(* Theorem A, interior vertices: interiorOffset[t] + [0, NumInterior[t]) tile
   [numVert + totalEdgeAdded, numVert + totalEdgeAdded + sum NumInterior), for any
   list of partitions (in particular `sub_parts`) *)
Theorem new_indices_once_interior :
  forall (T : Type) (numVert : Z) (tris : list tri) (added : Z -> Z -> Z) (ps : list (partition T)),
  nonneg (num_interior_list T ps) ->
  let lo := numVert + total_edge_added tris added in
  let hi := lo + zsum (num_interior_list T ps) in
  (forall t k x, in_run (interior_offset_list T numVert tris added ps) (num_interior_list T ps) t k x ->
                 lo <= x < hi) /\
  (forall x, lo <= x < hi ->
     (exists t k, in_run (interior_offset_list T numVert tris added ps) (num_interior_list T ps) t k x) /\
     (forall t k t' k',
        in_run (interior_offset_list T numVert tris added ps) (num_interior_list T ps) t k x ->
        in_run (interior_offset_list T numVert tris added ps) (num_interior_list T ps) t' k' x ->
        t = t' /\ k = k')).
Proof. intros T numVert tris added ps. apply exclusive_scan_partition. Qed.

(* the new vertex count is the end of the interior interval *)
Theorem subdivide_numvert_total :
  forall (T : Type) (tzero tone : T) (tlerp : T -> T -> Z -> Z -> T)
         (numVert : Z) (tris : list tri) (added : Z -> Z -> Z) (ps : list (partition T)),
  tris <> [] ->
  sub_parts T tzero tone tlerp numVert tris added = Some ps ->
  subdivide_numvert T tzero tone tlerp numVert tris added =
  Some (numVert + total_edge_added tris added + zsum (num_interior_list T ps)).
Proof.
  intros T tzero tone tlerp numVert tris added ps Hne Hps. unfold subdivide_numvert. rewrite Hps.
  apply scan_end_total. unfold num_interior_list. intro Hnil. apply map_eq_nil in Hnil. subst ps.
  unfold sub_parts in Hps. destruct tris as [|t r]; [congruence|]. cbn [omap] in Hps.
  destruct (sub_part _ _ _ _ _ _ _ t); [destruct (omap _ r)|]; discriminate.
Qed.

(* ------------------------------------------------------------------ *)
(* Reindex's edge runs are the `srun`s of QuadModel.v                   *)

Lemma edge_run_loop (d : Z) cnt : forall i l s,
  zloop cnt i 1 (fun (_ : Z) '(l, offset) => (l ++ [offset], offset + d)) (l, s) =
  (l ++ map (fun t => s + d * t) (zrange cnt 0 1), s + d * Z.of_nat cnt).
Proof.
  induction cnt as [|c IH]; intros i l s.
  - cbn [zloop zrange map]. rewrite app_nil_r. f_equal. lia.
  - cbn [zloop zrange map]. rewrite IH. rewrite <- app_assoc. cbn [app]. f_equal.
    + f_equal. f_equal; [lia|]. rewrite (zrange_shift c (0 + 1)), map_map. apply map_ext. intro t. lia.
    + lia.
Qed.

Lemma edge_run_srun o fwd n :
  edge_run o fwd n = srun (if fwd then o else o + n - 1) fwd n.
Proof.
  unfold edge_run. rewrite (edge_run_loop (if fwd then 1 else -1)). cbn [fst app].
  unfold srun, gv. destruct fwd; apply map_ext; intro t; lia.
Qed.

(* ------------------------------------------------------------------ *)
(* B1. the subdivided outlines of a closed oriented soup cancel         *)

(* `spath_rev` of QuadModel.v without the sign condition (n <= 0: no vertices) *)
Lemma spath_rev_all a b x o n y : spath a b y (o + n - 1) false n x = - spath a b x o true n y.
Proof.
  destruct (Z_le_gt_dec 0 n) as [Hn|Hn]; [apply spath_rev, Hn|].
  unfold spath, srun. replace (Z.to_nat n) with 0%nat by lia. cbn [zrange map app].
  rewrite !pc_cons2, !pc_one, (e1_swap a b x y). lia.
Qed.

Section Outline.
  (* offset and number of added vertices of the undirected edge {u, v}, called on (min, max) *)
  Variables off n : Z -> Z -> Z.

  (* the subdivided path of the undirected edge from its smaller to its larger end *)
  Definition gpath (u v : Z) : list Z := u :: srun (off u v) true (n u v) ++ [v].

  (* the subdivided side of the halfedge x -> y, numbered as Reindex does
     (edgeFwd = (x < y); backward sides run down from off + n - 1) *)
  Definition gside (x y : Z) : list Z :=
    let u := Z.min x y in let v := Z.max x y in
    if x <? y then x :: srun (off u v) true (n u v) ++ [y]
    else x :: srun (off u v + n u v - 1) false (n u v) ++ [y].

  (* the global outline chain of a triangle: its three subdivided sides *)
  Definition gout (t : tri) : chain :=
    let '(v0, v1, v2) := t in
    path_edges (gside v0 v1) ++ path_edges (gside v1 v2) ++ path_edges (gside v2 v0).

  Definition nondegenerate (ts : list tri) : Prop :=
    forall p q r, In (p, q, r) ts -> p <> q /\ q <> r /\ r <> p.

  Lemma gside_fwd x y : x < y -> gside x y = gpath x y.
  Proof.
    intro H. unfold gside, gpath. rewrite Z.min_l, Z.max_r by lia.
    destruct (Z.ltb_spec x y); [reflexivity|lia].
  Qed.
  Lemma gside_bwd x y : y < x -> 0 <= n y x -> gside x y = rev (gpath y x).
  Proof.
    intros H Hn. unfold gside, gpath. rewrite Z.min_r, Z.max_l by lia.
    destruct (Z.ltb_spec x y); [lia|].
    change (y :: srun (off y x) true (n y x) ++ [x]) with ((y :: srun (off y x) true (n y x)) ++ [x]).
    rewrite rev_app_distr. cbn [rev app]. rewrite srun_rev by exact Hn. reflexivity.
  Qed.

  Section AB.
    Variables a b : Z.

    (* the antisymmetric edge functional: coefficient of [a->b] in the subdivided halfedge *)
    Definition gf (x y : Z) : Z :=
      if x <? y then spath a b x (off x y) true (n x y) y
      else if y <? x then - spath a b y (off y x) true (n y x) x
      else 0.

    Lemma gf_antisym : antisym gf.
    Proof.
      intros x y. unfold gf.
      destruct (Z.ltb_spec x y), (Z.ltb_spec y x); lia.
    Qed.

    Lemma gside_gf x y : x <> y -> pc a b (gside x y) = gf x y.
    Proof.
      intro Hne. unfold gside, gf.
      destruct (Z.ltb_spec x y) as [H|H].
      - rewrite Z.min_l, Z.max_r by lia. reflexivity.
      - destruct (Z.ltb_spec y x) as [H'|H']; [|lia].
        rewrite Z.min_r, Z.max_l by lia. apply spath_rev_all.
    Qed.

    Lemma gout_lin p q r : p <> q -> q <> r -> r <> p ->
      coef (gout (p, q, r)) a b = lin gf (boundary (p, q, r)).
    Proof.
      intros H1 H2 H3. unfold gout. rewrite !coef_app.
      change (coef (path_edges ?l) a b) with (pc a b l).
      rewrite !gside_gf by assumption. cbn [boundary lin]. lia.
    Qed.

    Lemma gouts_lin ts : nondegenerate ts -> coef (flat_map gout ts) a b = lin gf (boundaries ts).
    Proof.
      induction ts as [|[[p q] r] ts IH]; intro Hnd; [reflexivity|].
      cbn [flat_map]. unfold boundaries in *. cbn [flat_map]. rewrite coef_app, lin_app.
      destruct (Hnd p q r (or_introl eq_refl)) as (H1 & H2 & H3).
      rewrite gout_lin by assumption. rewrite IH; [reflexivity|].
      intros p' q' r' Hin. apply Hnd. right. exact Hin.
    Qed.
  End AB.

  Lemma gout_balances_gen ts : nondegenerate ts -> ceq (boundaries ts) [] -> ceq (flat_map gout ts) [].
  Proof.
    intros Hnd Hc a b. rewrite (gouts_lin a b ts Hnd).
    rewrite (lin_ceq (gf a b) (boundaries ts) [] (gf_antisym a b) Hc). reflexivity.
  Qed.
End Outline.

(* Theorem B1: for every closed oriented soup of non-degenerate triangles, every
   assignment of offsets `off` and of numbers of added vertices `n` to the
   undirected edges, the subdivided outlines of all triangles sum to zero. *)
Theorem gout_balances : forall (off n : Z -> Z -> Z) (tris : list tri),
  (forall p q r, In (p, q, r) tris -> p <> q /\ q <> r /\ r <> p) ->
  ceq (boundaries tris) [] ->
  ceq (flat_map (gout off n) tris) [].
Proof. intros off n tris. apply gout_balances_gen. Qed.

(* ------------------------------------------------------------------ *)
(* B2. the subdivided mesh is closed and oriented                       *)

Lemma omap_Forall2 {A B} (f : A -> option B) l : forall r,
  omap f l = Some r -> Forall2 (fun x y => f x = Some y) l r.
Proof.
  induction l as [|x t IH]; intros r H; cbn [omap] in H.
  - injection H as <-. constructor.
  - destruct (f x) as [y|] eqn:Ef; [|discriminate].
    destruct (omap f t) as [r'|]; [|discriminate]. injection H as <-.
    constructor; [exact Ef|apply IH; reflexivity].
Qed.

Section Model.
  Variable T : Type.
  Variable numVert : Z.
  Variable tris : list tri.
  Variable added : Z -> Z -> Z.

  (* offset / number of added vertices of the edge of a halfedge, as the model looks them up *)
  Definition goff (u v : Z) : Z :=
    match edge_info numVert tris added u v with Some (_, o) => o | None => 0 end.
  Definition gadd (u v : Z) : Z :=
    match edge_info numVert tris added u v with Some (m, _) => m | None => 0 end.

  (* rows of the edge table come from forward halfedges *)
  Lemma tmp_edges_lt u v h : In (u, v, h) (tmp_edges tris) -> u < v.
  Proof.
    unfold tmp_edges. intro H. apply in_flat_map in H. destruct H as ([h' [s e]] & _ & H).
    destruct (Z.ltb_spec s e) as [Hlt|]; [|destruct H].
    destruct H as [H|[]]. injection H as <- <- _. exact Hlt.
  Qed.

  Lemma edge_table_lt u v h m o : In (u, v, h, m, o) (edge_table numVert tris added) -> u < v.
  Proof.
    unfold edge_table. intro H. apply in_map_iff in H. destruct H as ([[[[u' v'] h'] m'] o'] & E & H).
    injection E as -> -> -> -> ->.
    apply in_combine_l in H. apply in_combine_l in H. eapply tmp_edges_lt, H.
  Qed.

  Lemma edge_lookup_in tbl u v m o :
    edge_lookup tbl u v = Some (m, o) -> exists h, In (u, v, h, m, o) tbl.
  Proof.
    induction tbl as [|[[[[a' b'] h'] m'] o'] t IH]; cbn [edge_lookup]; [discriminate|].
    destruct (Z.eqb_spec a' u) as [->|]; cbn [andb].
    - destruct (Z.eqb_spec b' v) as [->|].
      + intro H. injection H as -> ->. exists h'. left. reflexivity.
      + intro H. destruct (IH H) as (h & Hin). exists h. right. exact Hin.
    - intro H. destruct (IH H) as (h & Hin). exists h. right. exact Hin.
  Qed.

  (* a degenerate halfedge x -> x has no edge: the model (like the C++) gives up *)
  Lemma edge_info_some_neq x y r : edge_info numVert tris added x y = Some r -> x <> y.
  Proof.
    unfold edge_info. destruct r as [m o]. intro H. apply edge_lookup_in in H. destruct H as (h & H).
    apply edge_table_lt in H. lia.
  Qed.

  (* the number of added vertices found by the lookup is the oracle's value *)
  Lemma combine_map_snd {A B C} (g : A -> B) (l : list A) : forall (l2 : list C) x y z,
    In (x, y, z) (combine (combine l (map g l)) l2) -> y = g x.
  Proof.
    induction l as [|p t IH]; intros l2 x y z H; [destruct H|].
    destruct l2 as [|q l2']; [destruct H|]. cbn [map combine] in H. destruct H as [H|H].
    - injection H as <- <- _. reflexivity.
    - eapply IH, H.
  Qed.

  Lemma edge_info_added x y m o :
    edge_info numVert tris added x y = Some (m, o) -> m = added (Z.min x y) (Z.max x y).
  Proof.
    unfold edge_info. intro H. apply edge_lookup_in in H. destruct H as (h & H).
    unfold edge_table in H. apply in_map_iff in H. destruct H as ([[[[u' v'] h'] m'] o'] & E & H).
    injection E as -> -> -> -> ->.
    unfold edge_added_list in H. apply combine_map_snd in H. exact H.
  Qed.

  Lemma tri_out_nondeg p q r part io rt :
    tri_out T numVert tris added (p, q, r) part io = Some rt -> p <> q /\ q <> r /\ r <> p.
  Proof.
    unfold tri_out. intro H.
    destruct (edge_info numVert tris added p q) as [r0|] eqn:E0; [|discriminate].
    destruct r0 as [m0 o0].
    destruct (edge_info numVert tris added q r) as [r1|] eqn:E1; [|discriminate].
    destruct r1 as [m1 o1].
    destruct (edge_info numVert tris added r p) as [r2|] eqn:E2; [|discriminate].
    repeat split; eapply edge_info_some_neq; eassumption.
  Qed.

  Lemma reindex_all_nondeg ts : forall ps ios out,
    reindex_all T numVert tris added ts ps ios = Some out -> nondegenerate ts.
  Proof.
    induction ts as [|t ts IH]; intros ps ios out H p q r Hin; [destruct Hin|].
    cbn [reindex_all] in H. destruct ps as [|pt ps]; [discriminate|]. destruct ios as [|io ios]; [discriminate|].
    destruct (tri_out T numVert tris added t pt io) as [rt|] eqn:Et; [|discriminate].
    destruct (reindex_all T numVert tris added ts ps ios) as [rest|] eqn:Er; [|discriminate].
    destruct Hin as [->|Hin].
    - eapply tri_out_nondeg, Et.
    - eapply IH; eassumption.
  Qed.

  Lemma reindex_all_coef (sp : tri -> option (partition T)) ts : forall ps ios out,
    reindex_all T numVert tris added ts ps ios = Some out ->
    Forall2 (fun t p => sp t = Some p) ts ps ->
    (forall t p io rt, In t ts -> sp t = Some p -> tri_out T numVert tris added t p io = Some rt ->
                       ceq (boundaries rt) (gout goff gadd t)) ->
    ceq (boundaries out) (flat_map (gout goff gadd) ts).
  Proof.
    induction ts as [|t ts IH]; intros ps ios out H HF HP.
    - cbn [reindex_all] in H. injection H as <-. apply ceq_refl.
    - cbn [reindex_all] in H. destruct ps as [|pt ps]; [discriminate|]. destruct ios as [|io ios]; [discriminate|].
      destruct (tri_out T numVert tris added t pt io) as [rt|] eqn:Et; [|discriminate].
      destruct (reindex_all T numVert tris added ts ps ios) as [rest|] eqn:Er; [|discriminate].
      injection H as <-. inversion HF as [|? ? ? ? Hsp HF']; subst.
      intros a b. rewrite coef_boundaries_app. cbn [flat_map]. rewrite coef_app.
      rewrite (HP t pt io rt (or_introl eq_refl) Hsp Et a b).
      rewrite (IH ps ios rest Er HF'); [reflexivity|].
      intros t' p' io' rt' Hin. apply HP. right. exact Hin.
  Qed.
End Model.

(* Theorem B2.  H_pattern (hypothesis, per triangle): whenever the model
   computes the pattern p of a triangle t of the mesh and reindexes it (with any
   interior offset io), the boundary of the reindexed pattern triangles is the
   subdivided outline of t, with the offsets and numbers of added vertices the
   model looks up for the three halfedges.  Then for EVERY closed oriented
   input and EVERY edgeAdded oracle the subdivided soup is closed and oriented. *)
Theorem subdivide_balances :
  forall (T : Type) (tzero tone : T) (tlerp : T -> T -> Z -> Z -> T)
         (numVert : Z) (tris : list tri) (added : Z -> Z -> Z) (out : list tri),
  ceq (boundaries tris) [] ->
  (forall (t : tri) (p : partition T) (io : Z) (rt : list tri),
     In t tris ->
     sub_part T tzero tone tlerp numVert tris added t = Some p ->
     tri_out T numVert tris added t p io = Some rt ->
     ceq (boundaries rt) (gout (goff numVert tris added) (gadd numVert tris added) t)) ->
  subdivide_tris T tzero tone tlerp numVert tris added = Some out ->
  ceq (boundaries out) [].
Proof.
  intros T tzero tone tlerp numVert tris added out Hclosed Hpat H.
  unfold subdivide_tris in H.
  destruct (negb (edges_distinct tris)); [discriminate|].
  destruct (is_empty tris || is_empty (tmp_edges tris)); [discriminate|].
  destruct (sub_parts T tzero tone tlerp numVert tris added) as [ps|] eqn:Eps; [|discriminate].
  apply omap_Forall2 in Eps.
  eapply ceq_trans.
  - eapply (reindex_all_coef T numVert tris added (sub_part T tzero tone tlerp numVert tris added)); eassumption.
  - apply gout_balances; [|exact Hclosed].
    eapply reindex_all_nondeg, H.
Qed.

(* the numbers of added vertices in `gadd` are the oracle's *)
Theorem gadd_is_added : forall (numVert : Z) (tris : list tri) (added : Z -> Z -> Z) (x y : Z) (r : Z * Z),
  edge_info numVert tris added x y = Some r ->
  gadd numVert tris added x y = added (Z.min x y) (Z.max x y) /\ fst r = added (Z.min x y) (Z.max x y).
Proof.
  intros numVert tris added x y [m o] H. unfold gadd. rewrite H. cbn [fst].
  split; eapply edge_info_added, H.
Qed.

(* ------------------------------------------------------------------ *)
(* P. numProp > 0: rows of the new property table used for edge vertices *)

(* the k-th new vertex of edge i has its forward copy in
   [numPropVert, numPropVert + addedVerts) and its backward duplicate in
   [numPropVert + addedVerts, numPropVert + addedVerts + totalEdgeAdded) = the
   tail of the table (line 700); newNumVert is NumVert() after the subdivision *)
Theorem prop_slots_in_range :
  forall (numVert numPropVert newNumVert : Z) (tris : list tri) (added : Z -> Z -> Z),
  nonneg (edge_added_list tris added) ->
  numVert + total_edge_added tris added <= newNumVert ->
  forall (i : nat) (o n k : Z),
  nth_error (edge_offset_list numVert tris added) i = Some o ->
  nth_error (edge_added_list tris added) i = Some n ->
  0 <= k < n ->
  numPropVert <= prop_fwd_slot numVert numPropVert o k < numPropVert + added_verts numVert newNumVert /\
  numPropVert + added_verts numVert newNumVert <= prop_bwd_slot numVert numPropVert newNumVert o k
    < prop_rows numVert tris added numPropVert newNumVert.
Proof.
  intros numVert numPropVert newNumVert tris added Hnn Hle i o n k Ho Hn Hk.
  assert (Hr : in_run (edge_offset_list numVert tris added) (edge_added_list tris added) i k (o + k)).
  { exists n, o. auto. }
  apply (scan_run_range _ _ _ _ _ Hnn) in Hr. fold (total_edge_added tris added) in Hr.
  unfold prop_fwd_slot, prop_bwd_slot, prop_rows, added_verts, prop_offset. lia.
Qed.

(* hence no forward copy is a backward duplicate (of the same or another edge) *)
Theorem prop_slots_disjoint :
  forall (numVert numPropVert newNumVert : Z) (tris : list tri) (added : Z -> Z -> Z),
  nonneg (edge_added_list tris added) ->
  numVert + total_edge_added tris added <= newNumVert ->
  forall (i i' : nat) (o n k o' n' k' : Z),
  nth_error (edge_offset_list numVert tris added) i = Some o ->
  nth_error (edge_added_list tris added) i = Some n -> 0 <= k < n ->
  nth_error (edge_offset_list numVert tris added) i' = Some o' ->
  nth_error (edge_added_list tris added) i' = Some n' -> 0 <= k' < n' ->
  prop_fwd_slot numVert numPropVert o k <> prop_bwd_slot numVert numPropVert newNumVert o' k'.
Proof.
  intros numVert numPropVert newNumVert tris added Hnn Hle i i' o n k o' n' k' Ho Hn Hk Ho' Hn' Hk'.
  pose proof (prop_slots_in_range numVert numPropVert newNumVert tris added Hnn Hle i o n k Ho Hn Hk) as [H1 _].
  pose proof (prop_slots_in_range numVert numPropVert newNumVert tris added Hnn Hle i' o' n' k' Ho' Hn' Hk') as [_ H2].
  lia.
Qed.

(* what the second Reindex call walks along the side of halfedge h = x -> y
   (lines 772-790): forward halfedge: the forward copies upwards; backward
   halfedge whose property vertices match its pair: the forward copies
   downwards; otherwise the backward duplicates upwards *)
Theorem prop_edge_arg_run :
  forall (numVert numPropVert newNumVert : Z) (prop pair : Z -> Z) (h x y o n : Z),
  0 <= n ->
  let '(e, f) := prop_edge_arg numVert newNumVert prop pair h x y o in
  edge_run (e + prop_offset numVert numPropVert) f n =
  if x <? y then map (prop_fwd_slot numVert numPropVert o) (zrange (Z.to_nat n) 0 1)
  else if negb (prop (pair h) =? prop (next_halfedge h)) || negb (prop (next_halfedge (pair h)) =? prop h)
       then map (prop_bwd_slot numVert numPropVert newNumVert o) (zrange (Z.to_nat n) 0 1)
       else rev (map (prop_fwd_slot numVert numPropVert o) (zrange (Z.to_nat n) 0 1)).
Proof.
  intros numVert numPropVert newNumVert prop pair h x y o n Hn. unfold prop_edge_arg.
  destruct (x <? y).
  - rewrite edge_run_srun. unfold srun, gv, prop_fwd_slot. apply map_ext. intro t. lia.
  - destruct (negb (prop (pair h) =? prop (next_halfedge h)) || negb (prop (next_halfedge (pair h)) =? prop h)).
    + rewrite edge_run_srun. unfold srun, gv, prop_bwd_slot. apply map_ext. intro t. lia.
    + rewrite edge_run_srun, srun_rev by exact Hn. f_equal.
      unfold srun, gv, prop_fwd_slot. apply map_ext. intro t. lia.
Qed.

(* ------------------------------------------------------------------ *)
(* a concrete closed mesh: the tetrahedron, different divisions per edge *)

Definition tetra : list tri := [(0, 2, 1); (0, 1, 3); (1, 2, 3); (0, 3, 2)].
Definition tetra_added (u v : Z) : Z := (u + v) mod 3.
Definition tetra_out : list tri :=
  [(0, 4, 6); (6, 4, 1); (1, 4, 5); (5, 2, 1); (6, 1, 7); (6, 7, 3); (6, 3, 0); (9, 3, 7);
   (9, 7, 1); (9, 1, 8); (2, 8, 1); (8, 2, 5); (5, 4, 9); (5, 9, 8); (4, 0, 3); (4, 3, 9)].

Definition occurs (v : Z) (ts : list tri) : bool :=
  existsb (fun '(a, b, c) => (a =? v) || (b =? v) || (c =? v)) ts.

Example tetra_subdivide :
  chain_zerob (boundaries tetra) = true /\
  edge_added_list tetra tetra_added = [2; 1; 1; 0; 2; 0] /\
  edge_offset_list 4 tetra tetra_added = [4; 6; 7; 8; 8; 10] /\
  subdivide_tris Q 0%Q 1%Q qlerp 4 tetra tetra_added = Some tetra_out /\
  subdivide_numvert Q 0%Q 1%Q qlerp 4 tetra tetra_added = Some 10 /\
  chain_zerob (boundaries tetra_out) = true /\
  forallb (fun v => occurs v tetra_out) (zrange 10 0 1) = true.
Proof. vm_compute. repeat split; reflexivity. Qed.

(* the hypotheses of `subdivide_balances` are satisfiable: on the tetrahedron
   H_pattern holds (checked per triangle with the decision procedure
   `chain_eqb`; no triangle has interior vertices, so io is irrelevant) *)
Example tetra_pattern :
  forall (t : tri) (p : partition Q) (io : Z) (rt : list tri),
  In t tetra ->
  sub_part Q 0%Q 1%Q qlerp 4 tetra tetra_added t = Some p ->
  tri_out Q 4 tetra tetra_added t p io = Some rt ->
  ceq (boundaries rt) (gout (goff 4 tetra tetra_added) (gadd 4 tetra tetra_added) t).
Proof.
  intros t p io rt Hin Hsp Hto.
  destruct Hin as [<-|[<-|[<-|[<-|[]]]]];
    vm_compute in Hsp; injection Hsp as <-;
    vm_compute in Hto; injection Hto as <-;
    apply chain_eqb_sound; vm_compute; reflexivity.
Qed.

Example tetra_balances : ceq (boundaries tetra_out) [].
Proof.
  apply (subdivide_balances Q 0%Q 1%Q qlerp 4 tetra tetra_added tetra_out).
  - apply chain_zerob_spec. vm_compute. reflexivity.
  - exact tetra_pattern.
  - vm_compute. reflexivity.
Qed.

(* the same with the binary64 instance that is tied to the C++ *)
Example tetra_subdivide_float :
  subdivide_tris float 0%float 1%float flerp 4 tetra tetra_added = Some tetra_out.
Proof. vm_compute. reflexivity. Qed.

(* hypotheses of Theorem A are satisfiable, and every vertex below the new
   vertex count has exactly one vertBary owner entry *)
Example tetra_nonneg : nonneg (edge_added_list tetra tetra_added) /\ nonneg (num_interior_list Q []).
Proof. split; [vm_compute; repeat constructor; discriminate|constructor]. Qed.

Example tetra_owners :
  map fst (vert_owner Q 4 tetra tetra_added []) = zrange 10 0 1 /\
  vert_owner Q 4 tetra tetra_added [] =
  [(0, (3, 0)); (1, (2, 0)); (2, (3, 2)); (3, (3, 1));
   (4, (0, 0)); (5, (0, 0)); (6, (1, 0)); (7, (1, 1)); (8, (2, 1)); (9, (2, 1))].
Proof. vm_compute. split; reflexivity. Qed.

Print Assumptions exclusive_scan_partition.
Print Assumptions new_indices_once_edges.
Print Assumptions new_indices_once_interior.
Print Assumptions edge_run_srun.
Print Assumptions gout_balances.
Print Assumptions subdivide_balances.
Print Assumptions prop_slots_disjoint.
Print Assumptions prop_edge_arg_run.
Print Assumptions tetra_balances.
