(* Finite sweep by vm_compute (one evaluation, at Qed). *)
From Coq Require Import ZArith List QArith.
From MV Require Import Tri.PartitionDefs Tri.PartitionCheck.
Local Open Scope Z_scope.
Lemma sweep_TriC : forallb key_tiles_exact (tri_keys_between 23 23) = true.
Proof. vm_cast_no_check (eq_refl true). Qed.
