(* The finite sweeps, restated with visible quantifiers (via the soundness lemma). *)
From Coq Require Import ZArith List Bool Lia QArith Permutation.
From MV Require Import Tri.PartitionDefs Tri.PartitionCheck Tri.PartitionModel
  Tri.PartitionSweepTriA Tri.PartitionSweepTriB Tri.PartitionSweepTriC Tri.PartitionSweepTriD
  Tri.PartitionSweepQuadA Tri.PartitionSweepQuadB Tri.PartitionSweepQuadC Tri.PartitionSweepQuadD
  Tri.PartitionSweepFloatA Tri.PartitionSweepFloatB Tri.PartitionSweepFloatQ Tri.PartitionSweepMisc.
Import ListNotations.
Local Open Scope Z_scope.

Lemma in_tri_keys lo hi n0 n1 n2 :
  lo <= n0 <= hi -> 1 <= n1 <= n0 -> 1 <= n2 <= n1 -> In (V4 n0 n1 n2 0) (tri_keys_between lo hi).
Proof.
  intros H0 H1 H2. unfold tri_keys_between. apply in_flat_map. exists n0. split; [apply in_zseq; lia|].
  apply in_flat_map. exists n1. split; [apply in_zseq; lia|]. apply in_map_iff. exists n2. split; [reflexivity|apply in_zseq; lia].
Qed.

Lemma in_quad_keys lo hi B a b c d :
  lo <= a <= hi -> a <= b <= B -> a <= c <= B -> a <= d <= B -> In (V4 a b c d) (quad_keys_between lo hi B).
Proof.
  intros Ha Hb Hc Hd. unfold quad_keys_between. apply in_flat_map. exists a. split; [apply in_zseq; lia|].
  apply in_flat_map. exists b. split; [apply in_zseq; lia|]. apply in_flat_map. exists c. split; [apply in_zseq; lia|].
  apply in_map_iff. exists d. split; [reflexivity|apply in_zseq; lia].
Qed.

Lemma key_exact_tiles n : key_tiles_exact n = true ->
  exists vb tv, cached_partition_q n = Some (vb, tv) /\ Tiles 0 n vb tv.
Proof.
  unfold key_tiles_exact. destruct (cached_partition_q n) as [[vb tv]|]; [|discriminate].
  intro H. exists vb, tv. split; [reflexivity|]. apply tiles_ok_sound_lemma. exact H.
Qed.

Lemma tri_tiles_bounded n0 n1 n2 : 1 <= n2 <= n1 -> n1 <= n0 -> n0 <= 24 ->
  exists vb tv, cached_partition_q (V4 n0 n1 n2 0) = Some (vb, tv) /\ Tiles 0 (V4 n0 n1 n2 0) vb tv.
Proof.
  intros H2 H1 H0. apply key_exact_tiles.
  destruct (Z_le_gt_dec n0 20); [|destruct (Z_le_gt_dec n0 22); [|destruct (Z_le_gt_dec n0 23)]].
  - pose proof sweep_TriA as S. rewrite forallb_forall in S. apply S. apply in_tri_keys; lia.
  - pose proof sweep_TriB as S. rewrite forallb_forall in S. apply S. apply in_tri_keys; lia.
  - pose proof sweep_TriC as S. rewrite forallb_forall in S. apply S. apply in_tri_keys; lia.
  - pose proof sweep_TriD as S. rewrite forallb_forall in S. apply S. apply in_tri_keys; lia.
Qed.

Lemma quad_tiles_bounded a b c d : 1 <= a -> a <= b <= 10 -> a <= c <= 10 -> a <= d <= 10 ->
  exists vb tv, cached_partition_q (V4 a b c d) = Some (vb, tv) /\ Tiles 0 (V4 a b c d) vb tv.
Proof.
  intros Ha Hb Hc Hd. apply key_exact_tiles.
  destruct (Z_le_gt_dec a 1); [|destruct (Z_le_gt_dec a 2); [|destruct (Z_le_gt_dec a 4)]].
  - pose proof sweep_QuadA as S. rewrite forallb_forall in S. apply S. apply in_quad_keys; lia.
  - pose proof sweep_QuadB as S. rewrite forallb_forall in S. apply S. apply in_quad_keys; lia.
  - pose proof sweep_QuadC as S. rewrite forallb_forall in S. apply S. apply in_quad_keys; lia.
  - pose proof sweep_QuadD as S. rewrite forallb_forall in S. apply S. apply in_quad_keys; lia.
Qed.

(* any order of the three divisions: GetPartition sorts, the sorted key tiles *)
Lemma get_partition_tiles_bounded d0 d1 d2 : 1 <= d0 <= 24 -> 1 <= d1 <= 24 -> 1 <= d2 <= 24 ->
  exists p, get_partition_q (V4 d0 d1 d2 0) = Some p /\
            Tiles 0 (p_sorted p) (p_vb p) (p_tv p) /\
            p_sorted p = map4 (g4 (V4 d0 d1 d2 0)) (p_idx p) /\
            Permutation [g4 (p_idx p) 0; g4 (p_idx p) 1; g4 (p_idx p) 2]%nat [0; 1; 2]%nat.
Proof.
  intros H0 H1 H2. unfold get_partition_q, get_partition. cbn [c0].
  destruct (d0 =? 0) eqn:E; [apply Z.eqb_eq in E; lia|].
  pose proof (sort_divisions_tri d0 d1 d2) as S.
  destruct (sort_divisions (V4 d0 d1 d2 0)) as [s ix].
  destruct S as (S0 & S1 & S3 & Smap & Sx3 & Sperm).
  assert (B : forall i, In i [g4 ix 0; g4 ix 1; g4 ix 2]%nat -> 1 <= g4 (V4 d0 d1 d2 0) i <= 24).
  { intros i Hi. apply (Permutation_in _ Sperm) in Hi. cbn [In] in Hi.
    destruct Hi as [<-|[<-|[<-|[]]]]; cbn [g4 c0 c1 c2]; lia. }
  destruct s as [s0 s1 s2 s3]. cbn [c0 c1 c2 c3] in *. unfold map4 in Smap.
  injection Smap as E0 E1 E2 E3.
  destruct (tri_tiles_bounded s0 s1 s2) as (vb & tv & Hc & Ht).
  { pose proof (B (c2 ix) ltac:(cbn [g4 In]; auto)). lia. }
  { lia. }
  { pose proof (B (c0 ix) ltac:(cbn [g4 In]; auto)). lia. }
  rewrite S3 in E3. rewrite S3. clear S3.
  unfold cached_partition_q in Hc. rewrite Hc. eexists. split; [reflexivity|]. cbn [p_sorted p_vb p_tv p_idx].
  split; [exact Ht|]. split; [|exact Sperm]. unfold map4. rewrite <- E0, <- E1, <- E2, <- E3. reflexivity.
Qed.

(* the double-precision pattern: same triangles as the exact pattern, and the doubles
   (read exactly) tile within eps_float = 2^-44 *)
Lemma key_float_tiles n : key_tiles_float n = true ->
  exists vb tv vq vbq, cached_partition_f n = Some (vb, tv) /\ cached_partition_q n = Some (vbq, tv) /\
                       all_some (map q4_of_float vb) = Some vq /\ Tiles eps_float n vq tv.
Proof.
  unfold key_tiles_float. destruct (cached_partition_f n) as [[vb tv]|]; [|discriminate].
  destruct (cached_partition_q n) as [[vbq tvq]|]; [|discriminate].
  rewrite !andb_true_iff. intros ((Ht & Hsame) & Hlen).
  unfold tiles_ok_float in Ht. destruct (all_some (map q4_of_float vb)) as [vq|] eqn:Evq; [|discriminate].
  assert (tv = tvq).
  { apply Nat.eqb_eq in Hlen. clear - Hsame Hlen. revert tvq Hsame Hlen.
    induction tv as [|[[a b] c] tv IH]; intros [|[[a' b'] c'] tvq] Hs Hl; cbn in Hl; try discriminate; auto.
    cbn [combine forallb] in Hs. rewrite !andb_true_iff, !Z.eqb_eq in Hs. destruct Hs as (((-> & ->) & ->) & Hs).
    f_equal. apply IH; auto. }
  subst tvq. exists vb, tv, vq, vbq. split; [reflexivity|]. split; [reflexivity|]. split; [exact Evq|]. apply tiles_ok_sound_lemma. exact Ht.
Qed.

Lemma float_tiles_bounded n0 n1 n2 : 1 <= n2 <= n1 -> n1 <= n0 -> n0 <= 12 ->
  exists vb tv vq vbq, cached_partition_f (V4 n0 n1 n2 0) = Some (vb, tv) /\ cached_partition_q (V4 n0 n1 n2 0) = Some (vbq, tv) /\
                       all_some (map q4_of_float vb) = Some vq /\ Tiles eps_float (V4 n0 n1 n2 0) vq tv.
Proof.
  intros H2 H1 H0. apply key_float_tiles.
  destruct (Z_le_gt_dec n0 10).
  - pose proof sweep_FloatA as S. rewrite forallb_forall in S. apply S. apply in_tri_keys; lia.
  - pose proof sweep_FloatB as S. rewrite forallb_forall in S. apply S. apply in_tri_keys; lia.
Qed.

Lemma float_quad_tiles_bounded a b c d : 1 <= a -> a <= b <= 5 -> a <= c <= 5 -> a <= d <= 5 ->
  exists vb tv vq vbq, cached_partition_f (V4 a b c d) = Some (vb, tv) /\ cached_partition_q (V4 a b c d) = Some (vbq, tv) /\
                       all_some (map q4_of_float vb) = Some vq /\ Tiles eps_float (V4 a b c d) vq tv.
Proof.
  intros Ha Hb Hc Hd. apply key_float_tiles.
  pose proof sweep_FloatQ as S. rewrite forallb_forall in S. apply S. apply in_quad_keys; lia.
Qed.

Lemma uniform_n_squared_lemma n : 1 <= n <= 64 ->
  exists vb tv, cached_partition_f (V4 n n n 0) = Some (vb, tv) /\ Z.of_nat (length tv) = n * n.
Proof.
  intro H. pose proof sweep_uniform as S. rewrite forallb_forall in S.
  specialize (S n (proj2 (in_zseq n 1 64) ltac:(lia))). unfold uniform_count_ok in S.
  destruct (cached_partition_f (V4 n n n 0)) as [[vb tv]|]; [|discriminate].
  exists vb, tv. split; auto. apply Z.eqb_eq. exact S.
Qed.

Lemma in_five_tuples B d a1 a2 b1 b2 :
  1 <= d <= B -> 1 <= a1 <= B -> 1 <= a2 <= B -> 1 <= b1 <= B -> 1 <= b2 <= B -> In (d, a1, a2, b1, b2) (five_tuples B).
Proof.
  intros. unfold five_tuples.
  apply in_flat_map. exists d. split; [apply in_zseq; lia|].
  apply in_flat_map. exists a1. split; [apply in_zseq; lia|].
  apply in_flat_map. exists a2. split; [apply in_zseq; lia|].
  apply in_flat_map. exists b1. split; [apply in_zseq; lia|].
  apply in_map_iff. exists b2. split; [reflexivity|apply in_zseq; lia].
Qed.

Lemma two_tri_bounded d a1 a2 b1 b2 :
  1 <= d <= 5 -> 1 <= a1 <= 5 -> 1 <= a2 <= 5 -> 1 <= b1 <= 5 -> 1 <= b2 <= 5 -> two_tri_ok d a1 a2 b1 b2 = true.
Proof.
  intros. pose proof sweep_two_tri as S. rewrite forallb_forall in S.
  apply (S (d, a1, a2, b1, b2)). apply in_five_tuples; auto.
Qed.
