(* Lemmas about the Partition model and the tiling checker. *)
From Coq Require Import ZArith List Bool Lia QArith Qabs Floats MSets.MSetPositive Permutation.
From MV Require Import Tri.PartitionDefs Tri.PartitionCheck.
Import ListNotations.
Local Open Scope Z_scope.

(* ------------------------------------------------------------------ *)
(* The declarative tiling statement                                     *)

Definition Close (eps x y : Q) : Prop := (Qabs (x - y) <= eps)%Q.
Definition Close4 (eps : Q) (a b : v4 Q) : Prop :=
  Close eps (c0 a) (c0 b) /\ Close eps (c1 a) (c1 b) /\ Close eps (c2 a) (c2 b) /\ Close eps (c3 a) (c3 b).

Definition StrictlyInside (quad : bool) (b : v4 Q) : Prop :=
  if quad then (0 < fst (qpos true b) /\ fst (qpos true b) < 1 /\ 0 < snd (qpos true b) /\ snd (qpos true b) < 1)%Q
  else (0 < c0 b /\ 0 < c1 b /\ 0 < c2 b /\ c3 b == 0)%Q.

Definition area_sum (quad : bool) (vb : list (v4 Q)) (tv : list tri) : Q :=
  fold_left (fun s t => Qred (s + tri_area2 quad vb t)) tv 0%Q.

Record Tiles (eps : Q) (n : v4 Z) (vb : list (v4 Q)) (tv : list tri) : Prop := {
  t_div : 1 <= c0 n /\ 1 <= c1 n /\ 1 <= c2 n /\ 0 <= c3 n;
  (* indices *)
  t_range : forall a b c, In (a, b, c) tv -> 0 <= a < zlen vb /\ 0 <= b < zlen vb /\ 0 <= c < zlen vb;
  t_used : forall v, 0 <= v < zlen vb -> exists t, In t tv /\ In v (tri_verts t);
  (* the boundary chain of the triangles is the subdivided outline *)
  t_nodup : NoDup (dir_edges tv);
  t_outline_nodup : NoDup (outline_edges n);
  t_interior : forall a b, In (a, b) (dir_edges tv) ->
               (In (b, a) (dir_edges tv) <-> ~ In (a, b) (outline_edges n));
  t_boundary : forall e, In e (outline_edges n) -> In e (dir_edges tv);
  (* geometry, exact rational arithmetic *)
  t_positive : forall t, In t tv -> (0 < tri_area2 (c3 n >? 0) vb t)%Q;
  t_area : Close eps (area_sum (c3 n >? 0) vb tv) (total_area2 (c3 n >? 0));
  t_sum1 : forall b, In b vb -> Close eps (Qred (c0 b + c1 b + c2 b + c3 b)) 1%Q;
  t_outline_pos : forall v b, In (v, b) (combine (outline_verts n) (outline_barys n)) -> Close4 eps (nthq vb v) b;
  t_inside : forall b, In b (skipn (length (outline_verts n)) vb) -> StrictlyInside (c3 n >? 0) b
}.

(* ------------------------------------------------------------------ *)
(* reflection helpers                                                   *)

Lemma qclose_iff eps x y : qclose eps x y = true <-> Close eps x y.
Proof. unfold qclose, Close. apply Qle_bool_iff. Qed.

Lemma qlt_bool_iff x y : qlt_bool x y = true <-> (x < y)%Q.
Proof.
  unfold qlt_bool. rewrite negb_true_iff. split; intro H.
  - apply Qnot_le_lt. intro L. apply Qle_bool_iff in L. congruence.
  - destruct (Qle_bool y x) eqn:E; auto. apply Qle_bool_iff in E. exfalso. eapply Qlt_not_le; eauto.
Qed.

Lemma in_zseq v s len : In v (zseq s len) <-> s <= v < s + len.
Proof.
  unfold zseq. rewrite in_map_iff. split.
  - intros (k & <- & Hk). apply in_seq in Hk. lia.
  - intros H. exists (Z.to_nat (v - s)). split; [lia|]. apply in_seq. lia.
Qed.

Lemma enc_inj nv e1 e2 :
  edge_in_range nv e1 = true -> edge_in_range nv e2 = true -> enc nv e1 = enc nv e2 -> e1 = e2.
Proof.
  destruct e1 as [a1 b1], e2 as [a2 b2]. unfold edge_in_range, enc. cbn [fst snd].
  rewrite !andb_true_iff, !Z.leb_le, !Z.ltb_lt. intros (((Ha1 & Ha1') & Hb1) & Hb1') (((Ha2 & Ha2') & Hb2) & Hb2') H.
  apply Z2Pos.inj in H; [|nia|nia].
  assert (a1 = a2) by nia. subst. f_equal. lia.
Qed.

Lemma add_fresh_spec nv l : forall s s',
  (forall e, In e l -> edge_in_range nv e = true) ->
  add_fresh nv l s = Some s' ->
  NoDup l /\ (forall e, In e l -> ~ PositiveSet.In (enc nv e) s) /\
  (forall p, PositiveSet.In p s' <-> PositiveSet.In p s \/ exists e, In e l /\ enc nv e = p).
Proof.
  induction l as [|e r IH]; intros s s' Hr H; cbn [add_fresh] in H.
  - inversion H; subst. split; [constructor|]. split; [intros e []|].
    intro p. split; [auto|]. intros [?|(e & [] & _)]; auto.
  - destruct (PositiveSet.mem (enc nv e) s) eqn:M; [discriminate|].
    assert (Hr' : forall e0, In e0 r -> edge_in_range nv e0 = true) by (intros; apply Hr; right; auto).
    destruct (IH _ _ Hr' H) as (ND & Hfresh & Hin).
    assert (Hnotin : ~ In e r).
    { intro Hi. apply (Hfresh e Hi). apply PositiveSet.add_spec. left; reflexivity. }
    split; [constructor; auto|]. split.
    + intros e0 [<-|Hi].
      * intro Hc. apply PositiveSet.mem_spec in Hc. congruence.
      * intro Hc. apply (Hfresh e0 Hi). apply PositiveSet.add_spec. right; auto.
    + intro p. rewrite Hin. rewrite PositiveSet.add_spec. split.
      * intros [[->|Hs]|(e0 & Hi & <-)]; [right; exists e; split; [left|]; auto|left; auto|right; exists e0; split; [right|]; auto].
      * intros [Hs|(e0 & [<-|Hi] & <-)]; [left; right; auto|left; left; reflexivity|right; exists e0; auto].
Qed.

Lemma add_fresh_mem nv l s' e :
  (forall e, In e l -> edge_in_range nv e = true) -> edge_in_range nv e = true ->
  add_fresh nv l PositiveSet.empty = Some s' ->
  (PositiveSet.mem (enc nv e) s' = true <-> In e l).
Proof.
  intros Hr He H. destruct (add_fresh_spec nv l _ _ Hr H) as (_ & _ & Hin).
  rewrite PositiveSet.mem_spec, Hin. split.
  - intros [Hc|(e0 & Hi & Henc)]; [exfalso; revert Hc; apply PositiveSet.empty_spec|].
    apply enc_inj in Henc; auto. subst; auto.
  - intro Hi. right. exists e; auto.
Qed.

Lemma fold_add_spec (l : list Z) : forall s p,
  PositiveSet.In p (fold_left (fun s v => PositiveSet.add (Z.to_pos (v + 1)) s) l s) <->
  PositiveSet.In p s \/ exists v, In v l /\ Z.to_pos (v + 1) = p.
Proof.
  induction l as [|x r IH]; intros s p; cbn [fold_left].
  - split; [auto|]. intros [?|(v & [] & _)]; auto.
  - rewrite IH, PositiveSet.add_spec. split.
    + intros [[->|Hs]|(v & Hi & <-)]; [right; exists x; split; [left|]; auto|left; auto|right; exists v; split; [right|]; auto].
    + intros [Hs|(v & [<-|Hi] & <-)]; [left; right; auto|left; left; reflexivity|right; exists v; auto].
Qed.

Lemma tri_in_range_edges nv tv :
  forallb (tri_in_range nv) tv = true -> forall e, In e (dir_edges tv) -> edge_in_range nv e = true.
Proof.
  intros H e He. unfold dir_edges in He. apply in_flat_map in He. destruct He as (t & Ht & He).
  rewrite forallb_forall in H. specialize (H t Ht). destruct t as [[a b] c]. unfold tri_in_range in H.
  rewrite !andb_true_iff in H. destruct H as (((((A1 & A2) & B1) & B2) & C1) & C2).
  unfold edge_in_range. cbn [tri_edges In] in He.
  destruct He as [<-|[<-|[<-|[]]]]; cbn [fst snd]; rewrite !andb_true_iff; auto.
Qed.

Lemma in_dir_edges_swap_range nv tv a b :
  forallb (tri_in_range nv) tv = true -> In (a, b) (dir_edges tv) -> edge_in_range nv (b, a) = true.
Proof.
  intros H Hi. pose proof (tri_in_range_edges nv tv H _ Hi) as R. unfold edge_in_range in *. cbn [fst snd] in *.
  rewrite !andb_true_iff in *. tauto.
Qed.

(* ------------------------------------------------------------------ *)
(* soundness of the checker                                             *)

Lemma topo_ok_sound n nv tv :
  topo_ok n nv tv = true ->
  (forall a b c, In (a, b, c) tv -> 0 <= a < nv /\ 0 <= b < nv /\ 0 <= c < nv) /\
  (forall v, 0 <= v < nv -> exists t, In t tv /\ In v (tri_verts t)) /\
  NoDup (dir_edges tv) /\ NoDup (outline_edges n) /\
  (forall a b, In (a, b) (dir_edges tv) -> (In (b, a) (dir_edges tv) <-> ~ In (a, b) (outline_edges n))) /\
  (forall e, In e (outline_edges n) -> In e (dir_edges tv)).
Proof.
  unfold topo_ok. rewrite !andb_true_iff. intros (((Hr & Hor) & He) & Hu).
  destruct (add_fresh nv (dir_edges tv) PositiveSet.empty) as [s|] eqn:Es; [|discriminate].
  destruct (add_fresh nv (outline_edges n) PositiveSet.empty) as [o|] eqn:Eo; [|discriminate].
  rewrite andb_true_iff in He. destruct He as (Hx & Hb).
  pose proof (tri_in_range_edges nv tv Hr) as Hder.
  assert (Hoer : forall e, In e (outline_edges n) -> edge_in_range nv e = true)
    by (rewrite forallb_forall in Hor; auto).
  destruct (add_fresh_spec nv _ _ _ Hder Es) as (ND & _ & _).
  destruct (add_fresh_spec nv _ _ _ Hoer Eo) as (NDo & _ & _).
  split; [|split; [|split; [exact ND|split; [exact NDo|split]]]].
  - intros a b c Hi. rewrite forallb_forall in Hr. specialize (Hr _ Hi). unfold tri_in_range in Hr.
    rewrite !andb_true_iff, !Z.leb_le, !Z.ltb_lt in Hr. lia.
  - intros v Hv. rewrite forallb_forall in Hu.
    assert (Hm := Hu v (proj2 (in_zseq v 0 nv) ltac:(lia))).
    apply PositiveSet.mem_spec in Hm. apply fold_add_spec in Hm.
    destruct Hm as [Hm|(v' & Hi & Heq)]; [exfalso; revert Hm; apply PositiveSet.empty_spec|].
    apply in_flat_map in Hi. destruct Hi as (t & Ht & Hi). exists t. split; auto.
    assert (0 <= v').
    { rewrite forallb_forall in Hr. specialize (Hr _ Ht). destruct t as [[a b] c]. unfold tri_in_range in Hr.
      rewrite !andb_true_iff, !Z.leb_le, !Z.ltb_lt in Hr. cbn [tri_verts In] in Hi.
      destruct Hi as [<-|[<-|[<-|[]]]]; lia. }
    apply Z2Pos.inj in Heq; [|lia|lia]. assert (v' = v) by lia. subst; auto.
  - intros a b Hi. rewrite forallb_forall in Hx. specialize (Hx _ Hi). cbn [fst snd] in Hx.
    pose proof (in_dir_edges_swap_range nv tv a b Hr Hi) as Rs.
    pose proof (Hder _ Hi) as Rab.
    pose proof (add_fresh_mem nv _ s (b, a) Hder Rs Es) as M1.
    pose proof (add_fresh_mem nv _ o (a, b) Hoer Rab Eo) as M2.
    destruct (PositiveSet.mem (enc nv (b, a)) s) eqn:E1, (PositiveSet.mem (enc nv (a, b)) o) eqn:E2;
      cbn in Hx; try discriminate.
    + split; intros _.
      * intro Hc. apply M2 in Hc. discriminate.
      * apply M1. reflexivity.
    + split; intro H.
      * apply M1 in H. discriminate.
      * exfalso. apply H. apply M2. reflexivity.
  - intros e Hi. rewrite forallb_forall in Hb. specialize (Hb _ Hi).
    apply (add_fresh_mem nv _ s e Hder (Hoer _ Hi) Es). exact Hb.
Qed.

Lemma close4_iff eps a b : close4 eps a b = true <-> Close4 eps a b.
Proof. unfold close4, Close4. rewrite !andb_true_iff, !qclose_iff. tauto. Qed.

Lemma strictly_inside_iff quad b : strictly_inside quad b = true -> StrictlyInside quad b.
Proof.
  unfold strictly_inside, StrictlyInside. destruct quad.
  - destruct (qpos true b) as [x y]. cbn [fst snd]. rewrite !andb_true_iff, !qlt_bool_iff. tauto.
  - rewrite !andb_true_iff, !qlt_bool_iff. intros (((A & B) & C) & D). apply Qeq_bool_iff in D. tauto.
Qed.

Lemma tiles_ok_sound_lemma eps n vb tv : tiles_ok eps n vb tv = true -> Tiles eps n vb tv.
Proof.
  unfold tiles_ok. rewrite !andb_true_iff. intros (((Hd & Hlen) & Ht) & Hg).
  destruct (topo_ok_sound _ _ _ Ht) as (T1 & T2 & T3 & T4 & T5 & T6).
  unfold geo_ok in Hg. rewrite !andb_true_iff in Hg. destruct Hg as ((((G1 & G2) & G3) & G4) & G5).
  unfold divisions_ok in Hd. rewrite !andb_true_iff, !Z.leb_le in Hd.
  constructor; auto.
  - tauto.
  - intros t Hi. rewrite forallb_forall in G4. apply qlt_bool_iff. auto.
  - apply qclose_iff. exact G5.
  - intros b Hi. rewrite forallb_forall in G1. apply qclose_iff. apply (G1 b Hi).
  - intros v b Hi. rewrite forallb_forall in G2. specialize (G2 (v, b) Hi). cbn in G2. apply close4_iff. exact G2.
  - intros b Hi. rewrite forallb_forall in G3. apply strictly_inside_iff. auto.
Qed.

(* the checker is not vacuous: it rejects a pattern with a missing triangle *)
Lemma tiles_ok_rejects_hole :
  match cached_partition_q (V4 3 2 1 0) with
  | Some (vb, tv) => tiles_ok 0 (V4 3 2 1 0) vb tv = true /\ tiles_ok 0 (V4 3 2 1 0) vb (removelast tv) = false
  | None => False
  end.
Proof. vm_compute. split; reflexivity. Qed.

(* ------------------------------------------------------------------ *)
(* GetPartition: sorting / rotation, for all divisions                  *)

Lemma sort_divisions_tri a b c :
  let '(s, ix) := sort_divisions (V4 a b c 0) in
  c0 s >= c1 s /\ c1 s >= c2 s /\ c3 s = 0 /\
  s = map4 (g4 (V4 a b c 0)) ix /\ g4 ix 3%nat = 3%nat /\
  Permutation [g4 ix 0; g4 ix 1; g4 ix 2]%nat [0; 1; 2]%nat.
Proof.
  unfold sort_divisions. cbn [c3]. cbn [Z.eqb].
  cbn [g4 c0 c1 c2 c3 swap4 s4].
  destruct (c >? b) eqn:E1; cbn [g4 c0 c1 c2 c3 swap4 s4].
  - destruct (c >? a) eqn:E2; cbn [g4 c0 c1 c2 c3 swap4 s4].
    + destruct (b >? a) eqn:E3; cbn [g4 c0 c1 c2 c3 swap4 s4 map4]; repeat split; try lia;
        match goal with |- Permutation _ _ => idtac | _ => idtac end.
      * apply Permutation_sym. apply (perm_trans (l' := [1; 0; 2]%nat)); [apply perm_swap|].
        apply (perm_trans (l' := [1; 2; 0]%nat)); [apply perm_skip, perm_swap|]. apply perm_swap.
      * apply Permutation_sym. apply (perm_trans (l' := [0; 2; 1]%nat)); [apply perm_skip, perm_swap|]. apply perm_swap.
    + repeat split; try lia. apply perm_skip, perm_swap.
  - destruct (b >? a) eqn:E2; cbn [g4 c0 c1 c2 c3 swap4 s4].
    + destruct (c >? a) eqn:E3; cbn [g4 c0 c1 c2 c3 swap4 s4 map4]; repeat split; try lia.
      * apply Permutation_sym. apply (perm_trans (l' := [1; 0; 2]%nat)); [apply perm_swap|]. apply perm_skip, perm_swap.
      * apply perm_swap.
    + cbn [map4 g4 c0 c1 c2 c3]. repeat split; try lia. apply Permutation_refl.
Qed.

Lemma sort_divisions_quad a b c d : d <> 0 ->
  let '(s, ix) := sort_divisions (V4 a b c d) in
  exists m, (m < 4)%nat /\ ix = V4 (mod4 (0 + m)) (mod4 (1 + m)) (mod4 (2 + m)) (mod4 (3 + m)) /\
            s = map4 (g4 (V4 a b c d)) ix /\
            c0 s <= a /\ c0 s <= b /\ c0 s <= c /\ c0 s <= d.
Proof.
  intro Hd. unfold sort_divisions. cbn [c3]. destruct (d =? 0) eqn:E; [apply Z.eqb_eq in E; contradiction|].
  cbn [g4 c0 c1 c2 c3 mod4 Nat.modulo Nat.add].
  repeat match goal with
         | |- context [if ?x then _ else _] => destruct x eqn:?
         end;
    cbn [g4 c0 c1 c2 c3 map4 mod4];
    match goal with
    | |- exists m, _ /\ V4 ?i _ _ _ = _ /\ _ => exists i
    end; cbv [mod4 Nat.modulo Nat.divmod Nat.add fst snd Nat.sub g4 map4 c0 c1 c2 c3];
    repeat split; try lia;
    rewrite ?orb_true_iff, ?orb_false_iff, ?andb_true_iff, ?andb_false_iff, ?Z.ltb_lt, ?Z.ltb_ge, ?Z.eqb_eq, ?Z.eqb_neq in *; lia.
Qed.

(* ------------------------------------------------------------------ *)
(* chains: coef l a b = #(a,b) - #(b,a)                                 *)

Lemma cnt_app l1 l2 e : cnt (l1 ++ l2) e = cnt l1 e + cnt l2 e.
Proof. unfold cnt in *. induction l1 as [|x r IH]; cbn [fold_right app]; [lia|]. rewrite IH. lia. Qed.

Lemma coef_app l1 l2 a b : coef (l1 ++ l2) a b = coef l1 a b + coef l2 a b.
Proof. unfold coef. rewrite !cnt_app. lia. Qed.

Lemma coef_nil a b : coef [] a b = 0.
Proof. reflexivity. Qed.

Lemma coef_cons e l a b : coef (e :: l) a b = coef [e] a b + coef l a b.
Proof. apply (coef_app [e] l). Qed.

Lemma edge_eqb_swap x y a b : edge_eqb (x, y) (a, b) = edge_eqb (y, x) (b, a).
Proof. unfold edge_eqb. cbn [fst snd]. apply andb_comm. Qed.

Lemma coef_cancel x y a b : coef [(x, y)] a b + coef [(y, x)] a b = 0.
Proof.
  unfold coef, cnt. cbn [fold_right]. unfold edge_eqb. cbn [fst snd].
  destruct (x =? a) eqn:E1, (y =? b) eqn:E2, (x =? b) eqn:E3, (y =? a) eqn:E4; cbn [andb]. all: lia.
Qed.

Lemma coef_tri t a b :
  coef (tri_edges t) a b =
  coef [(fst (fst t), snd (fst t))] a b + coef [(snd (fst t), snd t)] a b + coef [(snd t, fst (fst t))] a b.
Proof.
  destruct t as [[x y] z]. cbn [tri_edges fst snd].
  rewrite (coef_cons (x, y) [(y, z); (z, x)]), (coef_cons (y, z) [(z, x)]). unfold edge. lia.
Qed.

Lemma dir_edges_cons t r : dir_edges (t :: r) = tri_edges t ++ dir_edges r.
Proof. reflexivity. Qed.
Lemma dir_edges_app l1 l2 : dir_edges (l1 ++ l2) = dir_edges l1 ++ dir_edges l2.
Proof. unfold dir_edges. apply flat_map_app. Qed.

(* open paths *)
Fixpoint path (l : list Z) : list edge :=
  match l with
  | x :: r => match r with y :: _ => (x, y) :: path r | [] => [] end
  | [] => []
  end.

Lemma path_snoc l x y : path (l ++ [x; y]) = path (l ++ [x]) ++ [(x, y)].
Proof.
  induction l as [|a l IH]; [reflexivity|].
  destruct l as [|b l]; [reflexivity|].
  change (path ((a :: b :: l) ++ [x; y])) with ((a, b) :: path ((b :: l) ++ [x; y])).
  change (path ((a :: b :: l) ++ [x])) with ((a, b) :: path ((b :: l) ++ [x])).
  rewrite IH. reflexivity.
Qed.

Lemma cyc_pairs_path x r : cyc_pairs (x :: r) = path ((x :: r) ++ [x]).
Proof.
  unfold cyc_pairs. generalize x at 1 3 as y. revert x. induction r as [|b r IH]; intros x y; [reflexivity|].
  cbn [app combine]. change (path (y :: b :: r ++ [x])) with ((y, b) :: path (b :: r ++ [x])).
  f_equal. apply (IH x b).
Qed.

Lemma zseq_S s k : zseq s (Z.of_nat (S k)) = s :: zseq (s + 1) (Z.of_nat k).
Proof.
  unfold zseq. rewrite !Nat2Z.id. cbn [seq map]. f_equal; [lia|].
  rewrite <- seq_shift, map_map. apply map_ext. intro a. lia.
Qed.

(* ------------------------------------------------------------------ *)
(* PartitionFan, for all n                                              *)

Section Fan.
  Variables (eo c2 : Z).

  Fixpoint fan_tris (k : nat) (i last : Z) : list tri :=
    match k with O => [] | S k' => (last, eo + i, c2) :: fan_tris k' (i + 1) (eo + i) end.
  Definition fan_last (k : nat) (i last : Z) : Z :=
    match k with O => last | S _ => eo + i + Z.of_nat k - 1 end.

  Lemma fan_loop k : forall i tv last,
    zloop k i 1 (fun i '(tv, last) => let next := eo + i in (tv ++ [(last, next, c2)], next)) (tv, last)
    = (tv ++ fan_tris k i last, fan_last k i last).
  Proof.
    induction k as [|k IH]; intros i tv last; cbn [zloop fan_tris fan_last].
    - rewrite app_nil_r. reflexivity.
    - rewrite IH. rewrite <- app_assoc. cbn [app]. f_equal.
      unfold fan_last. destruct k; lia.
  Qed.

  Lemma fan_chain k : forall i last a b,
    coef (dir_edges (fan_tris k i last)) a b =
    coef (path (last :: zseq (eo + i) (Z.of_nat k))) a b + coef [(fan_last k i last, c2)] a b + coef [(c2, last)] a b.
  Proof.
    induction k as [|k IH]; intros i last a b.
    - cbn [fan_tris fan_last dir_edges flat_map]. change (zseq (eo + i) (Z.of_nat 0)) with (@nil Z). cbn [path].
      rewrite coef_nil. pose proof (coef_cancel last c2 a b). unfold edge in *. lia.
    - cbn [fan_tris]. rewrite dir_edges_cons, coef_app, coef_tri. cbn [fst snd].
      rewrite IH. rewrite zseq_S.
      change (path (last :: eo + i :: zseq (eo + i + 1) (Z.of_nat k)))
        with ((last, eo + i) :: path (eo + i :: zseq (eo + i + 1) (Z.of_nat k))).
      rewrite (coef_cons (last, eo + i) (path (eo + i :: zseq (eo + i + 1) (Z.of_nat k)))).
      replace (eo + (i + 1)) with (eo + i + 1) by lia.
      replace (fan_last (S k) i last) with (fan_last k (i + 1) (eo + i)) by (unfold fan_last; destruct k; lia).
      pose proof (coef_cancel (eo + i) c2 a b). unfold edge in *. lia.
  Qed.

  Lemma fan_path_last k : forall i last c,
    path ((last :: zseq (eo + i) (Z.of_nat k)) ++ [c]) =
    path (last :: zseq (eo + i) (Z.of_nat k)) ++ [(fan_last k i last, c)].
  Proof.
    induction k as [|k IH]; intros i last c.
    - reflexivity.
    - rewrite zseq_S.
      change (path ((last :: eo + i :: zseq (eo + i + 1) (Z.of_nat k)) ++ [c]))
        with ((last, eo + i) :: path ((eo + i :: zseq (eo + i + 1) (Z.of_nat k)) ++ [c])).
      change (path (last :: eo + i :: zseq (eo + i + 1) (Z.of_nat k)))
        with ((last, eo + i) :: path (eo + i :: zseq (eo + i + 1) (Z.of_nat k))).
      replace (eo + i + 1) with (eo + (i + 1)) by lia. rewrite IH. cbn [app].
      replace (fan_last (S k) i last) with (fan_last k (i + 1) (eo + i)) by (unfold fan_last; destruct k; lia).
      reflexivity.
  Qed.
End Fan.

Lemma partition_fan_eq cv0 cv1 cv2 added eo :
  partition_fan cv0 cv1 cv2 added eo =
  fan_tris eo cv2 (Z.to_nat added) 0 cv0 ++ [(fan_last eo (Z.to_nat added) 0 cv0, cv1, cv2)].
Proof. unfold partition_fan. rewrite fan_loop. reflexivity. Qed.

Lemma fan_tris_length eo c2 k : forall i last, length (fan_tris eo c2 k i last) = k.
Proof. induction k; intros; cbn [fan_tris length]; auto. Qed.

(* the boundary chain of the fan is the outline c0 -> (added edge vertices) -> c1 -> c2 -> c0,
   and it has added + 1 triangles *)
Lemma fan_tiles_lemma cv0 cv1 cv2 eo (k : nat) :
  length (partition_fan cv0 cv1 cv2 (Z.of_nat k) eo) = S k /\
  forall a b, coef (dir_edges (partition_fan cv0 cv1 cv2 (Z.of_nat k) eo)) a b =
              coef (cyc_pairs (cv0 :: zseq eo (Z.of_nat k) ++ [cv1; cv2])) a b.
Proof.
  rewrite partition_fan_eq, Nat2Z.id. split.
  - rewrite app_length, fan_tris_length. cbn. lia.
  - intros a b. rewrite dir_edges_app, coef_app, fan_chain.
    cbn [dir_edges flat_map]. rewrite app_nil_r, coef_tri. cbn [fst snd].
    rewrite cyc_pairs_path.
    replace ((cv0 :: zseq eo (Z.of_nat k) ++ [cv1; cv2]) ++ [cv0])
      with (((cv0 :: zseq eo (Z.of_nat k)) ++ [cv1]) ++ [cv2; cv0])
      by (cbn [app]; rewrite <- !app_assoc; reflexivity).
    rewrite path_snoc.
    replace (((cv0 :: zseq eo (Z.of_nat k)) ++ [cv1]) ++ [cv2])
      with ((cv0 :: zseq eo (Z.of_nat k)) ++ [cv1; cv2])
      by (rewrite <- !app_assoc; reflexivity).
    rewrite path_snoc.
    pose proof (fan_path_last eo k 0 cv0 cv1) as P. replace (eo + 0) with eo in * by lia.
    rewrite P. rewrite !coef_app.
    pose proof (coef_cancel (fan_last eo k 0 cv0) cv2 a b). unfold edge in *. lia.
Qed.

(* ------------------------------------------------------------------ *)
(* Reindex: the run of new vertices of one edge, both directions        *)

Lemma edge_run_loop cnt : forall l off step,
  fst (zloop cnt 0 1 (fun (_ : Z) '(l, offset) => (l ++ [offset], offset + step)) (l, off)) =
  l ++ map (fun k => off + step * Z.of_nat k) (seq 0 cnt).
Proof.
  assert (G : forall i l off step,
    fst (zloop cnt i 1 (fun (_ : Z) '(l, offset) => (l ++ [offset], offset + step)) (l, off)) =
    l ++ map (fun k => off + step * Z.of_nat k) (seq 0 cnt)).
  { induction cnt as [|c IH]; intros i l off step; cbn [zloop seq map].
    - rewrite app_nil_r. reflexivity.
    - rewrite IH. rewrite <- app_assoc. cbn [app]. f_equal. f_equal; [lia|].
      rewrite <- seq_shift, map_map. apply map_ext. intro a. lia. }
  intros. apply G.
Qed.

Lemma edge_run_fwd off n : edge_run off true n = map (fun k => off + Z.of_nat k) (seq 0 (Z.to_nat n)).
Proof.
  unfold edge_run. rewrite (edge_run_loop (Z.to_nat n) [] (off + 0) 1). cbn [app].
  apply map_ext. intro a. lia.
Qed.

Lemma edge_run_bwd off n : 0 <= n ->
  edge_run off false n = map (fun k => off + (n - 1) - Z.of_nat k) (seq 0 (Z.to_nat n)).
Proof.
  intro Hn. unfold edge_run. rewrite (edge_run_loop (Z.to_nat n) [] (off + (n - 1)) (-1)). cbn [app].
  apply map_ext. intro a. lia.
Qed.

Lemma rev_map_seq (f : Z -> Z) (n : nat) :
  rev (map (fun k => f (Z.of_nat k)) (seq 0 n)) = map (fun k => f (Z.of_nat n - 1 - Z.of_nat k)) (seq 0 n).
Proof.
  induction n as [|n IH]; [reflexivity|].
  rewrite seq_S at 1. rewrite map_app, rev_app_distr. cbn [map rev app seq plus].
  f_equal; [f_equal; lia|].
  rewrite IH. rewrite <- seq_shift, map_map. apply map_ext. intro a. f_equal. lia.
Qed.

(* the same edge seen backward lists the same new vertices in reverse order *)
Lemma edge_run_reverse_lemma off n : 0 <= n -> edge_run off false n = rev (edge_run off true n).
Proof.
  intro Hn. rewrite edge_run_fwd, edge_run_bwd by auto.
  rewrite (rev_map_seq (fun z => off + z)). apply map_ext. intro a. rewrite Z2Nat.id by auto. lia.
Qed.

(* and they are exactly off, off+1, ..., off+n-1 *)
Lemma edge_run_fwd_zseq off n : edge_run off true n = zseq off n.
Proof. rewrite edge_run_fwd. reflexivity. Qed.

(* ------------------------------------------------------------------ *)
(* tolerance wrappers                                                   *)

Lemma set_tolerance_max tol eps t : eps <= tol -> fst (set_tolerance tol eps t) = Z.max t eps.
Proof. unfold set_tolerance. intro H. destruct (t >? tol) eqn:E; cbn [fst]; lia. Qed.

Lemma set_tolerance_ge_eps tol eps t : eps <= tol -> eps <= fst (set_tolerance tol eps t).
Proof. intro H. rewrite set_tolerance_max by auto. lia. Qed.

Lemma set_tolerance_simplifies_iff tol eps t : snd (set_tolerance tol eps t) = true <-> tol < t.
Proof. unfold set_tolerance. destruct (t >? tol) eqn:E; cbn [snd]; split; intro; try lia; discriminate. Qed.

Lemma simplify_tolerances_spec tol t :
  snd (simplify_tolerances tol t) = tol /\
  fst (simplify_tolerances tol t) = (if t =? 0 then tol else Z.max t tol).
Proof. unfold simplify_tolerances. destruct (t =? 0) eqn:E; cbn [fst snd]; split; auto; destruct (_ >? _) eqn:F; lia. Qed.

Lemma set_epsilon_ge tol maxeps ff us :
  let '(e, t) := set_epsilon tol maxeps ff us in e <= t /\ tol <= t /\ e = maxeps.
Proof. unfold set_epsilon. destruct us; lia. Qed.
