(* Tri/TriCheckModel.v — soundness of the exact checker tri_check against a
   declarative specification of "correct triangulation" (C10). *)
From Coq Require Import ZArith List Bool Lia FMapPositive.
From MV Require Import Base.Chain Tri.TriCheckDefs.
Import ListNotations.
Local Open Scope Z_scope.

(* ---- the specification ---- *)

(* px,py give the position of every input vertex (positions are a function of idx) *)
Definition positions_ok (polys : list (list pvert)) (px py : Z -> Z) : Prop :=
  forall v, In v (all_verts polys) -> 0 <= pv_idx v /\ px (pv_idx v) = pv_x v /\ py (pv_idx v) = pv_y v.

Definition indices_ok (polys : list (list pvert)) (ts : list tri) : Prop :=
  forall a b c, In (a, b, c) ts ->
    forall i, (i = a \/ i = b \/ i = c) -> exists v, In v (all_verts polys) /\ pv_idx v = i.

(* every input edge once in its direction, every other edge cancelled by its reverse *)
Definition chain_ok (polys : list (list pvert)) (ts : list tri) : Prop :=
  ceq (boundaries ts) (contours (idx_polys polys)).

Definition area_ok (polys : list (list pvert)) (ts : list tri) (px py : Z -> Z) : Prop :=
  sumZ (map (area2_tri px py) ts) = area2_chain px py (contours (idx_polys polys)).

Definition count_formula (px py : Z -> Z) (ip : list (list Z)) : Z :=
  let v := sumZ (map (fun p => Z.of_nat (length p)) ip) in
  let h := Z.of_nat (length (filter (fun p => area2_chain px py (contour p) <? 0) ip)) in
  let o := Z.of_nat (length ip) - h in
  v - 2 + 2 * h - 2 * (o - 1).

Definition count_ok (polys : list (list pvert)) (ts : list tri) (px py : Z -> Z) : Prop :=
  Z.of_nat (length ts) = count_formula px py (idx_polys polys).

(* manifold's CCW(p_a, p_b, p_c, tol) >= 0 evaluated exactly, tolsq = tol^2 *)
Definition ccw_ok (px py : Z -> Z) (tolsq : Z) (t : tri) : Prop :=
  let '(a, b, c) := t in
  let ar := area2_tri px py (a, b, c) in
  let base2 := Z.max ((px b - px a) * (px b - px a) + (py b - py a) * (py b - py a))
                     ((px c - px a) * (px c - px a) + (py c - py a) * (py c - py a)) in
  0 <= ar \/ 4 * ar * ar <= base2 * tolsq.

(* ---- the position map ---- *)

Lemma key_of_inj i j : 0 <= i -> 0 <= j -> key_of i = key_of j -> i = j.
Proof. unfold key_of; intros Hi Hj H. apply Z2Pos.inj in H; lia. Qed.

Lemma fold_add_sound (vs : list pvert) : forall (m0 : posmap) (P : pvert -> Prop),
  (forall k p, PositiveMap.find k m0 = Some p -> exists v, P v /\ key_of (pv_idx v) = k /\ p = (pv_x v, pv_y v)) ->
  forall k p, PositiveMap.find k (fold_left add_vert vs m0) = Some p ->
    exists v, (P v \/ In v vs) /\ key_of (pv_idx v) = k /\ p = (pv_x v, pv_y v).
Proof.
  induction vs as [|v t IH]; intros m0 P H0 k p Hf; cbn [fold_left] in Hf.
  - destruct (H0 k p Hf) as (v & Hv & Hk & Hp). exists v; auto.
  - destruct (IH (add_vert m0 v) (fun w => P w \/ w = v)) with (k := k) (p := p) as (w & Hw & Hk & Hp); auto.
    + intros k' p' Hf'. unfold add_vert in Hf'.
      destruct (PositiveMap.find (key_of (pv_idx v)) m0) eqn:E.
      * destruct (H0 k' p' Hf') as (w & Hw & Hk & Hp). exists w; auto.
      * destruct (Pos.eq_dec k' (key_of (pv_idx v))) as [->|Hne].
        -- rewrite PositiveMap.gss in Hf'. inversion Hf'; subst. exists v; auto.
        -- rewrite PositiveMap.gso in Hf' by exact Hne.
           destruct (H0 k' p' Hf') as (w & Hw & Hk & Hp). exists w; auto.
    + exists w. split; [|auto]. cbn [In]. destruct Hw as [[Hw| ->]|Hw]; auto.
Qed.

Lemma build_map_sound vs k p :
  PositiveMap.find k (build_map vs) = Some p ->
  exists v, In v vs /\ key_of (pv_idx v) = k /\ p = (pv_x v, pv_y v).
Proof.
  intros H. unfold build_map in H.
  destruct (fold_add_sound vs (PositiveMap.empty _) (fun _ => False)) with (k := k) (p := p) as (v & Hv & Hk & Hp); auto.
  - intros k' p' Hf. rewrite PositiveMap.gempty in Hf; discriminate.
  - exists v. destruct Hv as [[]|Hv]; auto.
Qed.

Lemma lookup_nonneg m i p : lookup m i = Some p -> 0 <= i.
Proof. unfold lookup. destruct (Z.ltb_spec i 0); [discriminate|lia]. Qed.

Lemma consistentb_positions polys :
  consistentb (build_map (all_verts polys)) (all_verts polys) = true ->
  positions_ok polys (px_of (build_map (all_verts polys))) (py_of (build_map (all_verts polys))).
Proof.
  intros H v Hv. unfold consistentb in H. rewrite forallb_forall in H. specialize (H v Hv).
  unfold px_of, py_of.
  destruct (lookup (build_map (all_verts polys)) (pv_idx v)) as [p|] eqn:E; [|discriminate].
  apply andb_true_iff in H. destruct H as [H1 H2]. apply Z.eqb_eq in H1, H2.
  split; [eapply lookup_nonneg; eauto|auto].
Qed.

Lemma lookup_input polys i p :
  consistentb (build_map (all_verts polys)) (all_verts polys) = true ->
  lookup (build_map (all_verts polys)) i = Some p ->
  exists v, In v (all_verts polys) /\ pv_idx v = i.
Proof.
  intros Hc H. pose proof (lookup_nonneg _ _ _ H) as Hi.
  unfold lookup in H. destruct (Z.ltb_spec i 0); [lia|].
  destruct (build_map_sound _ _ _ H) as (v & Hv & Hk & _).
  exists v. split; [exact Hv|].
  destruct (consistentb_positions polys Hc v Hv) as (Hv0 & _).
  apply key_of_inj; auto.
Qed.

Lemma sum_area2_poly m ip :
  sumZ (map (area2_poly m) ip) = area2_chain (px_of m) (py_of m) (contours ip).
Proof.
  unfold area2_chain, contours. rewrite lin_flat_map.
  induction ip as [|p t IH]; cbn [map sumZ fold_right]; [reflexivity|].
  unfold sumZ in IH. rewrite IH. reflexivity.
Qed.

Lemma ccw_okb_spec m tolsq t : ccw_okb m tolsq t = true -> ccw_ok (px_of m) (py_of m) tolsq t.
Proof.
  destruct t as [[a b] c]. unfold ccw_okb, ccw_ok, area2_tri. cbv zeta.
  rewrite orb_true_iff, Z.leb_le, Z.leb_le. intros [H|H]; [left|right]; lia.
Qed.

(* ---- soundness ---- *)

Theorem tri_check_sound polys ts tolsq :
  let m := build_map (all_verts polys) in
  let v := tri_check polys ts tolsq in
  (v_consistent v = true -> positions_ok polys (px_of m) (py_of m)) /\
  (v_consistent v = true -> v_index v = true -> indices_ok polys ts) /\
  (v_chain v = true -> chain_ok polys ts) /\
  (v_area v = true -> area_ok polys ts (px_of m) (py_of m)) /\
  (v_count v = true -> count_ok polys ts (px_of m) (py_of m)) /\
  (v_ccw v = true -> forall t, In t ts -> ccw_ok (px_of m) (py_of m) tolsq t).
Proof.
  cbv zeta. unfold tri_check; cbn [v_consistent v_index v_chain v_area v_count v_ccw].
  split; [|split; [|split; [|split; [|split]]]].
  - apply consistentb_positions.
  - intros Hc Hi a b c Hin i Hi3. rewrite forallb_forall in Hi. specialize (Hi _ Hin).
    unfold tri_idx_okb in Hi.
    destruct (lookup _ a) as [pa|] eqn:Ea; [|discriminate].
    destruct (lookup _ b) as [pb|] eqn:Eb; [|discriminate].
    destruct (lookup _ c) as [pc|] eqn:Ec; [|discriminate].
    destruct Hi3 as [->|[->| ->]]; eapply lookup_input; eauto.
  - intros H. apply chain_eqb_sound, H.
  - intros H. apply Z.eqb_eq in H. unfold area_ok. rewrite H. apply sum_area2_poly.
  - intros H. apply Z.eqb_eq in H. unfold count_ok, count_formula. rewrite H.
    unfold expected_count, area2_poly. lia.
  - intros H t Ht. apply ccw_okb_spec.
    destruct (ccw_okb _ tolsq t) eqn:E; [reflexivity|exfalso].
    assert (Hin : In t (filter (fun t => negb (ccw_okb (build_map (all_verts polys)) tolsq t)) ts)).
    { apply filter_In; split; [exact Ht|]. rewrite E; reflexivity. }
    destruct (filter _ ts); [destruct Hin|discriminate].
Qed.

Lemma sum_area2_tris px py ts :
  sumZ (map (area2_tri px py) ts) = area2_chain px py (boundaries ts).
Proof.
  rewrite area2_boundaries.
  induction ts as [|t r IH]; cbn [map sumZ fold_right]; [reflexivity|].
  unfold sumZ in IH; rewrite IH; reflexivity.
Qed.

(* the area identity is already a consequence of the chain identity *)
Theorem chain_implies_area polys ts px py :
  chain_ok polys ts -> area_ok polys ts px py.
Proof.
  intros H. unfold area_ok. rewrite sum_area2_tris. apply area2_ceq, H.
Qed.
