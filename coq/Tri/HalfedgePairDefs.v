(* Tri/HalfedgePairDefs.v — port of HalfedgeTriangulation::AddHalfedge's hash pairing
   (src/polygon_internal.h).  Definitions only.  The Halfedge array is kept as two parallel
   lists (start/end vertices, pairedHalfedge); edge2halfedge (per-key vectors, back() = most
   recently pushed) is one list of unpaired halfedge ids, newest first: the first id whose key
   matches is exactly reverse->second.back(). *)
From Coq Require Import ZArith List Bool Arith.
From MV Require Import Base.Chain Tri.EarClipDefs.
Import ListNotations.

Record HT : Type := mkHT {
  hedges : list (Z * Z);     (* startVert, endVert *)
  hpair : list Z;            (* pairedHalfedge, -1 = none *)
  hpend : list nat           (* ids still in edge2halfedge, newest first *)
}.

Definition key_matches (h : list (Z * Z)) (s e : Z) (i : nat) : bool :=
  match nth_error h i with Some (a, b) => (a =? s)%Z && (b =? e)%Z | None => false end.

(* void AddHalfedge(int start, int end) *)
Definition addHalfedge (ht : HT) (s e : Z) : HT :=
  let n := length (hedges ht) in
  match find (key_matches (hedges ht) e s) (hpend ht) with
  | Some p => mkHT (hedges ht ++ [(s, e)]) (upd (hpair ht) p (Z.of_nat n) ++ [Z.of_nat p])
                   (remove Nat.eq_dec p (hpend ht))
  | None => mkHT (hedges ht ++ [(s, e)]) (hpair ht ++ [(-1)%Z]) (n :: hpend ht)
  end.

Definition addHalfedges (es : chain) : HT :=
  fold_left (fun ht e => addHalfedge ht (fst e) (snd e)) es (mkHT [] [] []).

(* Finalize()'s debug conditions *)
Definition pair_ok (ht : HT) (i : nat) : Prop :=
  let n := length (hedges ht) in
  exists j, nth i (hpair ht) 0%Z = Z.of_nat j /\ j < n /\ nth j (hpair ht) 0%Z = Z.of_nat i /\
            nth j (hedges ht) (0, 0)%Z = (snd (nth i (hedges ht) (0, 0)%Z), fst (nth i (hedges ht) (0, 0)%Z)).
Definition finalize_ok (ht : HT) : Prop :=
  hpend ht = [] /\ forall i, i < length (hedges ht) -> pair_ok ht i.
