(* C19 / simplify_counts -- lemmas about the model in SimplifyDefs.v:
   no edge operation reachable from SimplifyTopology2's collapse/swap loop
   changes halfedge_.size(), hence the number of surviving triangles of a
   compacted input can only go down.  No invariant on the state is assumed
   anywhere unless the name ends in _partial.                                 *)
From Coq Require Import ZArith List Bool Lia.
From MV Require Import Tri.SimplifyDefs.
Import ListNotations.
Local Open Scope Z_scope.

(* ---- indexing ------------------------------------------------------------ *)
Lemma set_nth_length : forall (A : Type) (l l' : list A) (n : nat) (x : A),
  set_nth l n x = Some l' -> length l' = length l.
Proof.
  induction l as [|h t IH]; intros l' n x H; cbn in H; [discriminate|].
  destruct n as [|k].
  - inversion H; reflexivity.
  - destruct (set_nth t k x) as [t'|] eqn:E; [|discriminate].
    inversion H; subst; cbn; f_equal; eapply IH; eauto.
Qed.

Lemma setZ_length : forall (A : Type) (l l' : list A) (i : Z) (x : A),
  setZ l i x = Some l' -> length l' = length l.
Proof.
  intros A l l' i x H; unfold setZ in H.
  destruct (i <? 0); [discriminate|]. eapply set_nth_length; eauto.
Qed.

Lemma set_nth_get : forall (A : Type) (l l' : list A) (n : nat) (x : A),
  set_nth l n x = Some l' ->
  forall m, nth_error l' m = if Nat.eqb m n then Some x else nth_error l m.
Proof.
  induction l as [|h t IH]; intros l' n x H m; cbn in H; [discriminate|].
  destruct n as [|k].
  - inversion H; subst; destruct m; reflexivity.
  - destruct (set_nth t k x) as [t'|] eqn:E; [|discriminate].
    inversion H; subst; destruct m as [|m]; cbn; [reflexivity|].
    eapply IH; eauto.
Qed.

Lemma getZ_setZ : forall (A : Type) (l l' : list A) (i : Z) (x : A),
  setZ l i x = Some l' ->
  forall j, getZ l' j = if j =? i then Some x else getZ l j.
Proof.
  intros A l l' i x H j; unfold setZ in H; unfold getZ.
  destruct (Z.ltb_spec i 0); [discriminate|].
  destruct (Z.ltb_spec j 0).
  - destruct (Z.eqb_spec j i); [lia|reflexivity].
  - rewrite (set_nth_get _ _ _ _ _ H).
    destruct (Z.eqb_spec j i).
    + subst; rewrite Nat.eqb_refl; reflexivity.
    + destruct (Nat.eqb_spec (Z.to_nat j) (Z.to_nat i)); [lia|reflexivity].
Qed.

(* ---- monadic inversion ---------------------------------------------------- *)
Ltac step H :=
  match type of H with
  | bind ?e _ = Some _ =>
      let E := fresh "E" in destruct e eqn:E; cbn [bind] in H; [|discriminate H]
  | (if ?b then _ else _) = Some _ => let B := fresh "B" in destruct b eqn:B
  | Some _ = Some _ => inversion H; subst; clear H
  | None = Some _ => discriminate H
  | (let '(_, _) := ?p in _) = Some _ => destruct p
  | match ?x with _ => _ end = Some _ => destruct x
  | _ => progress cbv beta iota zeta in H
  end.
Ltac steps H := repeat step H.
(* also open the `if`s that produced an intermediate state *)
Ltac steps_inner :=
  repeat match goal with
  | E : (if _ then _ else _) = Some ?x |- _ =>
      match type of x with state => progress steps E end
  end.

(* ---- slots of the primitive writes ---------------------------------------- *)
Lemma slots_with_he : forall s l, slots (with_he s l) = Z.of_nat (length l).
Proof. reflexivity. Qed.
Lemma slots_push_vert : forall s, slots (push_vert s) = slots s.
Proof. reflexivity. Qed.
Lemma slots_push_prop : forall s, slots (push_prop s) = slots s.
Proof. reflexivity. Qed.
Lemma slots_push_he : forall s a b c, slots (push_he s a b c) = slots s + 1.
Proof. intros; unfold push_he, slots; cbn [he with_he]; rewrite app_length; cbn; lia. Qed.

Lemma set_start_slots : forall s i v s', set_start s i v = Some s' -> slots s' = slots s.
Proof.
  intros s i v s' H; unfold set_start in H; steps H.
  rewrite slots_with_he; unfold slots; f_equal; eapply setZ_length; eauto.
Qed.
Lemma set_pair_slots : forall s i v s', set_pair s i v = Some s' -> slots s' = slots s.
Proof.
  intros s i v s' H; unfold set_pair in H; steps H.
  rewrite slots_with_he; unfold slots; f_equal; eapply setZ_length; eauto.
Qed.
Lemma set_prop_slots : forall s i v s', set_prop s i v = Some s' -> slots s' = slots s.
Proof.
  intros s i v s' H; unfold set_prop in H; steps H.
  rewrite slots_with_he; unfold slots; f_equal; eapply setZ_length; eauto.
Qed.
Lemma set_end_slots : forall s i v s', set_end s i v = Some s' -> slots s' = slots s.
Proof. intros s i v s' H; eapply set_start_slots; exact H. Qed.
Lemma set_all_slots : forall s i a b c s', set_all s i a b c = Some s' -> slots s' = slots s.
Proof.
  intros s i a b c s' H; unfold set_all in H; steps H.
  rewrite slots_with_he; unfold slots; f_equal; eapply setZ_length; eauto.
Qed.
Lemma kill_keep_prop_slots : forall s i s', kill_keep_prop s i = Some s' -> slots s' = slots s.
Proof. intros s i s' H; unfold kill_keep_prop in H; steps H. eapply set_all_slots; eauto. Qed.

Ltac prim_slots :=
  repeat match goal with
  | E : set_start _ _ _ = Some _ |- _ => apply set_start_slots in E
  | E : set_end _ _ _ = Some _ |- _ => apply set_end_slots in E
  | E : set_pair _ _ _ = Some _ |- _ => apply set_pair_slots in E
  | E : set_prop _ _ _ = Some _ |- _ => apply set_prop_slots in E
  | E : set_all _ _ _ _ _ = Some _ |- _ => apply set_all_slots in E
  | E : kill_keep_prop _ _ = Some _ |- _ => apply kill_keep_prop_slots in E
  end.
Ltac fin_slots :=
  rewrite ?slots_push_he, ?slots_push_vert, ?slots_push_prop in *; lia.

(* ---- 1. every operation keeps halfedge_.size() ---------------------------- *)
Theorem pair_up_slots : forall s e0 e1 s',
  pair_up s e0 e1 = Some s' -> slots s' = slots s.
Proof. intros s e0 e1 s' H; unfold pair_up in H; steps H; prim_slots; fin_slots. Qed.

Theorem update_vert_slots : forall fuel s vert current endEdge s',
  update_vert fuel s vert current endEdge = Some s' -> slots s' = slots s.
Proof.
  induction fuel as [|f IH]; intros s vert current endEdge s' H;
    cbn [update_vert] in H; steps H; try reflexivity.
  apply IH in H; prim_slots; fin_slots.
Qed.

Theorem collapse_tri_slots : forall s t s',
  collapse_tri s t = Some s' -> slots s' = slots s.
Proof.
  intros s [[t0 t1] t2] s' H; unfold collapse_tri in H; steps H; try reflexivity.
  match goal with E : pair_up _ _ _ = Some _ |- _ => apply pair_up_slots in E end.
  prim_slots; fin_slots.
Qed.

Theorem remove_if_folded_slots : forall s edge s',
  remove_if_folded s edge = Some s' -> slots s' = slots s.
Proof.
  intros s edge s' H; unfold remove_if_folded, tri_of in H; steps H; try reflexivity.
  repeat match goal with E : pair_up _ _ _ = Some _ |- _ => apply pair_up_slots in E end.
  prim_slots; fin_slots.
Qed.

Ltac op_slots :=
  repeat match goal with
  | E : pair_up _ _ _ = Some _ |- _ => apply pair_up_slots in E
  | E : update_vert _ _ _ _ _ = Some _ |- _ => apply update_vert_slots in E
  | E : collapse_tri _ _ = Some _ |- _ => apply collapse_tri_slots in E
  | E : remove_if_folded _ _ = Some _ |- _ => apply remove_if_folded_slots in E
  end; prim_slots.

Theorem form_loop_slots : forall fuel s current end_ s',
  form_loop fuel s current end_ = Some s' -> slots s' = slots s.
Proof.
  intros fuel s current end_ s' H; unfold form_loop in H; steps H.
  apply remove_if_folded_slots in H. op_slots; fin_slots.
Qed.

Lemma orbit_start_slots : forall fuel lf s current stop start edges sp0 ep0 sp1 ep1 s' st',
  orbit_start fuel lf s current stop start edges sp0 ep0 sp1 ep1 = Some (s', st') ->
  slots s' = slots s.
Proof.
  induction fuel as [|f IH]; intros lf s current stop start edges sp0 ep0 sp1 ep1 s' st' H;
    cbn [orbit_start] in H; steps H; try reflexivity; steps_inner;
    match goal with
    | E : orbit_start _ _ _ _ _ _ _ _ _ _ _ = Some _ |- _ => apply IH in E
    end;
    repeat match goal with
    | E : form_loop _ _ _ _ = Some _ |- _ => apply form_loop_slots in E
    end; op_slots; fin_slots.
Qed.

Theorem collapse_edge2_slots : forall fuel s edge reject s' did,
  collapse_edge2 fuel s edge reject = Some (s', did) -> slots s' = slots s.
Proof.
  intros fuel s edge reject s' did H; unfold collapse_edge2, tri_of in H; steps H;
    try reflexivity.
  match goal with
  | E : orbit_start _ _ _ _ _ _ _ _ _ _ _ = Some _ |- _ => apply orbit_start_slots in E
  end.
  op_slots; fin_slots.
Qed.

Lemma swap_scan_slots : forall fuel lf s current stop endVert a2 s',
  swap_scan fuel lf s current stop endVert a2 = Some s' -> slots s' = slots s.
Proof.
  induction fuel as [|f IH]; intros lf s current stop endVert a2 s' H;
    cbn [swap_scan] in H; steps H; try reflexivity.
  - apply remove_if_folded_slots in H.
    match goal with E : form_loop _ _ _ _ = Some _ |- _ => apply form_loop_slots in E end.
    lia.
  - apply IH in H; exact H.
Qed.

Lemma swap_props_slots : forall s a0 a1 a2 b0 b1 b2 s',
  swap_props s a0 a1 a2 b0 b1 b2 = Some s' -> slots s' = slots s.
Proof.
  intros s a0 a1 a2 b0 b1 b2 s' H; unfold swap_props in H; steps H; try reflexivity;
    prim_slots; fin_slots.
Qed.

Theorem swap_edge_slots : forall fuel s edge s',
  swap_edge fuel s edge = Some s' -> slots s' = slots s.
Proof.
  intros fuel s edge s' H; unfold swap_edge, tri_of in H; steps H.
  apply swap_scan_slots in H.
  match goal with E : swap_props _ _ _ _ _ _ _ = Some _ |- _ => apply swap_props_slots in E end.
  op_slots; fin_slots.
Qed.

(* ---- 2. any sequence of operations ----------------------------------------- *)
Lemma run_op_slots : forall fuel o s s', run_op fuel o s = Some s' -> slots s' = slots s.
Proof.
  intros fuel [e rej|e] s s' H; cbn [run_op] in H.
  - steps H. eapply collapse_edge2_slots; eauto.
  - eapply swap_edge_slots; eauto.
Qed.

Theorem run_ops_slots : forall fuel ops s s',
  run_ops fuel ops s = Some s' -> slots s' = slots s.
Proof.
  intros fuel ops; induction ops as [|o r IH]; intros s s' H; cbn [run_ops] in H.
  - inversion H; reflexivity.
  - steps H. apply IH in H. apply run_op_slots in E. lia.
Qed.

(* ---- 3. / 4. counts --------------------------------------------------------- *)
Lemma filter_length_le' : forall (A : Type) (f : A -> bool) (l : list A),
  (length (filter f l) <= length l)%nat.
Proof. induction l as [|a l IH]; cbn; [lia|]. destruct (f a); cbn; lia. Qed.

Theorem num_live_le_slots : forall s, 3 * num_live s <= slots s.
Proof.
  intros s; unfold num_live, slots.
  pose proof (filter_length_le' _ (fun t => live_tri s (Z.of_nat t))
                (seq 0 (Nat.div (length (he s)) 3))) as Hf.
  rewrite seq_length in Hf.
  pose proof (Nat.mul_div_le (length (he s)) 3 ltac:(lia)) as Hd.
  lia.
Qed.

Theorem simplify_counts_lemma : forall fuel ops s s',
  slots s = 3 * num_live s ->
  run_ops fuel ops s = Some s' ->
  num_live s' <= num_live s.
Proof.
  intros fuel ops s s' Hfull Hrun.
  apply run_ops_slots in Hrun.
  pose proof (num_live_le_slots s'). lia.
Qed.

(* ---- 5. CollapseTri kills its triangle -------------------------------------- *)
Lemma h_pair_with_he : forall s l j, h_pair (with_he s l) j = (x <- getZ l j ;; Some (hp x)).
Proof. reflexivity. Qed.

Lemma set_pair_get : forall s i v s', set_pair s i v = Some s' ->
  forall j, h_pair s' j = if j =? i then Some v else h_pair s j.
Proof.
  intros s i v s' H j; unfold set_pair in H; steps H.
  rewrite h_pair_with_he, (getZ_setZ _ _ _ _ _ E0).
  destruct (j =? i); reflexivity.
Qed.

Lemma set_pair_defined : forall s i v s', set_pair s i v = Some s' ->
  exists q, h_pair s i = Some q.
Proof.
  intros s i v s' H; unfold set_pair in H; steps H.
  unfold h_pair; rewrite E; cbn [bind]; eauto.
Qed.

Lemma kill_keep_prop_get : forall s i s', kill_keep_prop s i = Some s' ->
  forall j, h_pair s' j = if j =? i then Some (-1) else h_pair s j.
Proof.
  intros s i s' H j; unfold kill_keep_prop, set_all in H; steps H.
  rewrite h_pair_with_he, (getZ_setZ _ _ _ _ _ E0).
  destruct (j =? i); reflexivity.
Qed.

(* after a CollapseTri that does not take the early return, all three
   halfedges of the triple have pair -1 (no assumption on the state, the
   three indices need not even be distinct). *)
Theorem collapse_tri_kills : forall s t0 t1 t2 p1 s',
  h_pair s t1 = Some p1 -> p1 <> -1 ->
  collapse_tri s (t0, t1, t2) = Some s' ->
  h_pair s' t0 = Some (-1) /\ h_pair s' t1 = Some (-1) /\ h_pair s' t2 = Some (-1).
Proof.
  intros s t0 t1 t2 p1 s' Hp Hne H; unfold collapse_tri in H; rewrite Hp in H;
    cbn [bind] in H.
  destruct (Z.eqb_spec p1 (-1)) as [|_]; [contradiction|].
  steps H.
  pose proof (kill_keep_prop_get _ _ _ H) as G3.
  pose proof (kill_keep_prop_get _ _ _ E2) as G2.
  pose proof (kill_keep_prop_get _ _ _ E1) as G1.
  repeat split; rewrite G3, ?G2, ?G1;
    repeat match goal with |- context [?a =? ?b] => destruct (Z.eqb_spec a b); try reflexivity; try lia end.
Qed.

Lemma tri_base_in_tri_of : forall e, 0 <= e ->
  3 * (e / 3) = e \/ 3 * (e / 3) = next_he e \/ 3 * (e / 3) = next_he (next_he e).
Proof.
  intros e He; unfold next_he.
  rewrite (Z.rem_mod_nonneg e 3) by lia.
  pose proof (Z.div_mod e 3 ltac:(lia)) as Hd.
  pose proof (Z.mod_pos_bound e 3 ltac:(lia)) as Hb.
  destruct (Z.eqb_spec (e mod 3) 2) as [H2|H2].
  - right; left; lia.
  - rewrite (Z.rem_mod_nonneg (e + 1) 3) by lia.
    pose proof (Z.div_mod (e + 1) 3 ltac:(lia)) as Hd1.
    pose proof (Z.mod_pos_bound (e + 1) 3 ltac:(lia)) as Hb1.
    destruct (Z.eqb_spec ((e + 1) mod 3) 2) as [H3|H3]; lia.
Qed.

(* in terms of the drop predicate: the face of `edge` is dropped afterwards *)
Theorem collapse_tri_kills_tri : forall s edge p1 s',
  0 <= edge ->
  h_pair s (next_he edge) = Some p1 -> p1 <> -1 ->
  collapse_tri s (tri_of edge) = Some s' ->
  live_tri s' (edge / 3) = false.
Proof.
  intros s edge p1 s' He Hp Hne H; unfold tri_of in H.
  destruct (collapse_tri_kills _ _ _ _ _ _ Hp Hne H) as (K0 & K1 & K2).
  unfold live_tri.
  destruct (tri_base_in_tri_of edge He) as [R|[R|R]]; rewrite R, ?K0, ?K1, ?K2; reflexivity.
Qed.

(* PARTIAL: a face that was not live stays not live, ASSUMING the two partner
   halfedges pair1 = Pair(triEdge[1]) and pair2 = Pair(triEdge[2]) are
   themselves live halfedges (their own pair entries q1, q2 are >= 0) -- this
   is what the pairing invariant of a manifold gives (Pair(Pair(e)) = e >= 0).
   Without it PairUp(pair1, pair2) could write a non-negative pair into slot
   3*t of a removed face and "resurrect" it for the drop predicate. *)
Theorem collapse_tri_dead_stay_dead_partial : forall s t0 t1 t2 p1 p2 q1 q2 s',
  h_pair s t1 = Some p1 -> h_pair s t2 = Some p2 ->
  h_pair s p1 = Some q1 -> h_pair s p2 = Some q2 -> 0 <= q1 -> 0 <= q2 ->
  collapse_tri s (t0, t1, t2) = Some s' ->
  forall t, live_tri s t = false -> live_tri s' t = false.
Proof.
  intros s t0 t1 t2 p1 p2 q1 q2 s' Hp1 Hp2 Hq1 Hq2 H1 H2 H t Hd.
  unfold collapse_tri in H; rewrite Hp1 in H; cbn [bind] in H.
  destruct (p1 =? -1); [inversion H; subst; exact Hd|].
  rewrite Hp2 in H; cbn [bind] in H. steps H.
  unfold pair_up in E; steps E.
  pose proof (kill_keep_prop_get _ _ _ H) as G3.
  pose proof (kill_keep_prop_get _ _ _ E1) as G2.
  pose proof (kill_keep_prop_get _ _ _ E0) as G1.
  pose proof (set_pair_get _ _ _ _ E) as G0.
  pose proof (set_pair_get _ _ _ _ E2) as G.
  unfold live_tri in *. rewrite G3, G2, G1, G0, G.
  repeat match goal with
         | |- context [?a =? ?b] => destruct (Z.eqb_spec a b); try reflexivity
         end.
  - subst p2. rewrite Hq2 in Hd. apply Z.leb_gt in Hd. lia.
  - subst p1. rewrite Hq1 in Hd. apply Z.leb_gt in Hd. lia.
  - exact Hd.
Qed.

(* ---- 6. DedupeEdge's splitting branch is the one that grows halfedge_ ------- *)
Theorem dedupe_adds_two : forall fuel s nextEdge current endVert endProp s',
  dedupe_split fuel s nextEdge current endVert endProp = Some s' ->
  slots s' = slots s + 6.
Proof.
  intros fuel s nextEdge current endVert endProp s' H; unfold dedupe_split in H; steps H.
  apply pair_up_slots in H. op_slots; fin_slots.
Qed.

(* ---- 7. the model runs: concrete meshes ------------------------------------- *)
(* hypotheses of simplify_counts_lemma are satisfiable *)
Example tetra_full : slots tetra = 3 * num_live tetra /\ num_live tetra = 4.
Proof. vm_compute; split; reflexivity. Qed.
Example octa_full : slots octa = 3 * num_live octa /\ num_live octa = 8.
Proof. vm_compute; split; reflexivity. Qed.

(* collapsing an edge of a tetrahedron: both incident faces are collapsed and
   the remaining two are folded onto each other, so RemoveIfFolded removes
   them as well: nothing is left (this is what the C++ does). *)
Example tetra_collapse :
  exists s', run_ops 20 [OpCollapse 0 false] tetra = Some s' /\ num_live s' = 0 /\ slots s' = 12.
Proof. eexists; vm_compute; repeat split; reflexivity. Qed.

(* a rejected collapse changes nothing *)
Example tetra_collapse_rejected : run_ops 20 [OpCollapse 0 true] tetra = Some tetra.
Proof. vm_compute; reflexivity. Qed.

(* octahedron: collapsing halfedge 13 removes exactly its two faces (the
   result was compared with Impl::CollapseEdge2 on Manifold::Sphere(1,4)) *)
Example octa_collapse :
  exists s', run_ops 30 [OpCollapse 13 false] octa = Some s' /\ num_live s' = 6 /\ slots s' = 24
             /\ live_tri s' 4 = false /\ live_tri s' 6 = false.
Proof. eexists; vm_compute; repeat split; reflexivity. Qed.

(* octahedron: a swap keeps all 8 faces; a swap then a collapse leaves 6 *)
Example octa_swap :
  exists s', run_ops 30 [OpSwap 0] octa = Some s' /\ num_live s' = 8 /\ s' <> octa.
Proof. eexists; vm_compute; repeat split; try reflexivity; discriminate. Qed.
Example octa_swap_collapse :
  exists s', run_ops 30 [OpSwap 0; OpCollapse 13 false] octa = Some s' /\ num_live s' = 6.
Proof. eexists; vm_compute; repeat split; reflexivity. Qed.

(* swapping an edge of a tetrahedron creates a duplicate edge: FormLoop adds
   two vertices and RemoveIfFolded removes all folded faces *)
Example tetra_swap :
  exists s', run_ops 20 [OpSwap 0] tetra = Some s' /\ num_live s' = 0 /\ nvert s' = 6.
Proof. eexists; vm_compute; repeat split; reflexivity. Qed.

(* hypotheses of collapse_tri_kills / collapse_tri_dead_stay_dead_partial hold
   on the tetrahedron for the face of halfedge 0 *)
Example collapse_tri_tetra :
  h_pair tetra 1 = Some 9 /\ h_pair tetra 2 = Some 6 /\
  h_pair tetra 9 = Some 1 /\ h_pair tetra 6 = Some 2 /\
  exists s', collapse_tri tetra (tri_of 0) = Some s' /\ num_live s' = 3.
Proof. vm_compute; repeat split; eexists; split; reflexivity. Qed.
