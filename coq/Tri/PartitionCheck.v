(* The tiling checker for one subdivision pattern (definitions only).
   tiles_ok eps n vb tv decides, in exact rational arithmetic, that the
   triangle list tv over the vertices vb (4 barycentric weights each) is a
   tiling of the triangle (n3 = 0) or quad (n3 > 0) whose sides are divided
   into n0, n1, n2(, n3) pieces:
     - every index is in range and every vertex is used,
     - no directed edge occurs twice; a directed edge has its reverse in the
       list iff it is not an edge of the subdivided outline; every outline edge
       occurs (so the boundary chain of the triangles is the outline, in order),
     - every triangle has strictly positive area, the areas add up to the area
       of the outline (within eps),
     - the outline vertices sit at corner_i + (j/n_i)(corner_{i+1} - corner_i)
       (within eps), every other vertex is strictly inside, weights sum to 1.
   eps = 0 is used for the exact model (theorems); a tiny eps > 0 is used when
   the checker runs as the oracle on the implementation's rounded doubles. *)
From Coq Require Import ZArith List Bool QArith Qabs Floats MSets.MSetPositive.
From MV Require Import Tri.PartitionDefs.
Import ListNotations.
Local Open Scope Z_scope.

Definition edge : Type := (Z * Z)%type.
Definition tri_edges (t : tri) : list edge := let '(a, b, c) := t in [(a, b); (b, c); (c, a)].
Definition tri_verts (t : tri) : list Z := let '(a, b, c) := t in [a; b; c].
Definition dir_edges (tv : list tri) : list edge := flat_map tri_edges tv.

(* ---------------- the subdivided outline ---------------- *)
Definition ncorners (n : v4 Z) : nat := if c3 n >? 0 then 4%nat else 3%nat.
Definition zseq (start : Z) (len : Z) : list Z := map (fun k => start + Z.of_nat k) (seq 0 (Z.to_nat len)).

(* first edge-vertex index of side i *)
Definition edge_offset (n : v4 Z) (i : nat) : Z :=
  Z.of_nat (ncorners n) + fold_right Z.add 0 (map (fun k => g4 n k - 1) (seq 0 i)).

Definition outline_verts (n : v4 Z) : list Z :=
  flat_map (fun i => Z.of_nat i :: zseq (edge_offset n i) (g4 n i - 1)) (seq 0 (ncorners n)).

Definition cyc_pairs (l : list Z) : list edge :=
  match l with [] => [] | x :: r => combine l (r ++ [x]) end.
Definition outline_edges (n : v4 Z) : list edge := cyc_pairs (outline_verts n).

(* ---------------- sets of directed edges ---------------- *)
Definition enc (nv : Z) (e : edge) : positive := Z.to_pos (fst e * nv + snd e + 1).

(* insert all, refusing duplicates *)
Fixpoint add_fresh (nv : Z) (l : list edge) (s : PositiveSet.t) : option PositiveSet.t :=
  match l with
  | [] => Some s
  | e :: r => if PositiveSet.mem (enc nv e) s then None else add_fresh nv r (PositiveSet.add (enc nv e) s)
  end.

Definition edge_in_range (nv : Z) (e : edge) : bool :=
  (0 <=? fst e) && (fst e <? nv) && (0 <=? snd e) && (snd e <? nv).
Definition tri_in_range (nv : Z) (t : tri) : bool :=
  let '(a, b, c) := t in (0 <=? a) && (a <? nv) && (0 <=? b) && (b <? nv) && (0 <=? c) && (c <? nv).

Definition topo_ok (n : v4 Z) (nv : Z) (tv : list tri) : bool :=
  let de := dir_edges tv in
  let oe := outline_edges n in
  forallb (tri_in_range nv) tv && forallb (edge_in_range nv) oe &&
  match add_fresh nv de PositiveSet.empty, add_fresh nv oe PositiveSet.empty with
  | Some s, Some o =>
    forallb (fun e => xorb (PositiveSet.mem (enc nv (snd e, fst e)) s) (PositiveSet.mem (enc nv e) o)) de &&
    forallb (fun e => PositiveSet.mem (enc nv e) s) oe
  | _, _ => false
  end &&
  (let used := fold_left (fun s v => PositiveSet.add (Z.to_pos (v + 1)) s) (flat_map tri_verts tv) PositiveSet.empty in
   forallb (fun v => PositiveSet.mem (Z.to_pos (v + 1)) used) (zseq 0 nv)).

(* ---------------- geometry ---------------- *)
Definition qpos (quad : bool) (b : v4 Q) : Q * Q :=
  if quad then (Qred (c1 b + c2 b), Qred (c2 b + c3 b)) else (c1 b, c2 b).

Definition area2 (p q r : Q * Q) : Q :=
  Qred ((fst q - fst p) * (snd r - snd p) - (fst r - fst p) * (snd q - snd p)).

Definition qclose (eps x y : Q) : bool := Qle_bool (Qabs (x - y)) eps.
Definition qlt_bool (x y : Q) : bool := negb (Qle_bool y x).

Definition unitq (i : nat) : v4 Q := s4 (V4 0%Q 0%Q 0%Q 0%Q) i 1%Q.

(* exact position of the j-th vertex (j = 0 .. n_i - 1) of side i *)
Definition outline_bary (n : v4 Z) (i : nat) (j : Z) : v4 Q :=
  let k := ncorners n in
  let t := Qmake j (Z.to_pos (g4 n i)) in
  let a := unitq i in let b := unitq (Nat.modulo (i + 1) k) in
  map4 Qred (V4 (c0 a * (1 - t) + c0 b * t) (c1 a * (1 - t) + c1 b * t)
                (c2 a * (1 - t) + c2 b * t) (c3 a * (1 - t) + c3 b * t))%Q.

Definition outline_barys (n : v4 Z) : list (v4 Q) :=
  flat_map (fun i => map (outline_bary n i) (zseq 0 (g4 n i))) (seq 0 (ncorners n)).

Definition close4 (eps : Q) (a b : v4 Q) : bool :=
  qclose eps (c0 a) (c0 b) && qclose eps (c1 a) (c1 b) && qclose eps (c2 a) (c2 b) && qclose eps (c3 a) (c3 b).

Definition sum_one (eps : Q) (b : v4 Q) : bool := qclose eps (Qred (c0 b + c1 b + c2 b + c3 b)) 1%Q.

Definition strictly_inside (quad : bool) (b : v4 Q) : bool :=
  if quad then
    let '(x, y) := qpos true b in qlt_bool 0 x && qlt_bool x 1 && qlt_bool 0 y && qlt_bool y 1
  else qlt_bool 0 (c0 b) && qlt_bool 0 (c1 b) && qlt_bool 0 (c2 b) && Qeq_bool (c3 b) 0.

Definition nthq (vb : list (v4 Q)) (k : Z) : v4 Q := nth (Z.to_nat k) vb (V4 0 0 0 0)%Q.

Definition tri_area2 (quad : bool) (vb : list (v4 Q)) (t : tri) : Q :=
  let '(a, b, c) := t in area2 (qpos quad (nthq vb a)) (qpos quad (nthq vb b)) (qpos quad (nthq vb c)).

Definition total_area2 (quad : bool) : Q := if quad then 2%Q else 1%Q.

Definition geo_ok (eps : Q) (n : v4 Z) (vb : list (v4 Q)) (tv : list tri) : bool :=
  let quad := c3 n >? 0 in
  let ov := outline_verts n in
  forallb (sum_one eps) vb &&
  forallb (fun '(v, b) => close4 eps (nthq vb v) b) (combine ov (outline_barys n)) &&
  forallb (strictly_inside quad) (skipn (length ov) vb) &&
  forallb (fun t => qlt_bool 0 (tri_area2 quad vb t)) tv &&
  qclose eps (fold_left (fun s t => Qred (s + tri_area2 quad vb t)) tv 0%Q) (total_area2 quad).

Definition divisions_ok (n : v4 Z) : bool :=
  (1 <=? c0 n) && (1 <=? c1 n) && (1 <=? c2 n) && (0 <=? c3 n).

Definition tiles_ok (eps : Q) (n : v4 Z) (vb : list (v4 Q)) (tv : list tri) : bool :=
  divisions_ok n && (Z.of_nat (length (outline_verts n)) <=? zlen vb) &&
  topo_ok n (zlen vb) tv && geo_ok eps n vb tv.

(* ---------------- doubles as exact rationals ---------------- *)
Definition q_of_float (x : float) : option Q :=
  match Prim2SF x with
  | S754_zero _ => Some 0%Q
  | S754_finite s m e =>
    let mz := if s then Zneg m else Zpos m in
    Some (if 0 <=? e then inject_Z (Z.shiftl mz e) else Qred (Qmake mz (Z.to_pos (Z.shiftl 1 (- e)))))
  | _ => None
  end.

Definition q4_of_float (b : v4 float) : option (v4 Q) :=
  match q_of_float (c0 b), q_of_float (c1 b), q_of_float (c2 b), q_of_float (c3 b) with
  | Some x0, Some x1, Some x2, Some x3 => Some (V4 x0 x1 x2 x3)
  | _, _, _, _ => None
  end.

Fixpoint all_some {A} (l : list (option A)) : option (list A) :=
  match l with
  | [] => Some []
  | Some x :: r => match all_some r with Some r' => Some (x :: r') | None => None end
  | None :: _ => None
  end.

(* the oracle form: the checker on doubles (read exactly), with tolerance eps *)
Definition tiles_ok_float (eps : Q) (n : v4 Z) (vb : list (v4 float)) (tv : list tri) : bool :=
  match all_some (map q4_of_float vb) with
  | Some vq => tiles_ok eps n vq tv
  | None => false
  end.

Definition eps_float : Q := Qmake 1 (2 ^ 44).   (* 2^-44 *)

(* ---------------- sweeps ---------------- *)
Definition tri_keys_between (lo hi : Z) : list (v4 Z) :=
  flat_map (fun n0 => flat_map (fun n1 => map (fun n2 => V4 n0 n1 n2 0) (zseq 1 n1)) (zseq 1 n0)) (zseq lo (hi - lo + 1)).
Definition tri_keys (B : Z) : list (v4 Z) := tri_keys_between 1 B.

(* the cached keys of quads: side 0 is a minimal side (GetPartition rotates) *)
Definition quad_keys_between (lo hi B : Z) : list (v4 Z) :=
  flat_map (fun a => flat_map (fun b => flat_map (fun c => map (fun d => V4 a b c d) (zseq a (B - a + 1)))
                                                (zseq a (B - a + 1))) (zseq a (B - a + 1))) (zseq lo (hi - lo + 1)).
Definition quad_keys (B : Z) : list (v4 Z) := quad_keys_between 1 B B.

Definition key_tiles_exact (n : v4 Z) : bool :=
  match cached_partition_q n with
  | Some (vb, tv) => tiles_ok 0 n vb tv
  | None => false
  end.

(* the float pattern: same triangles as the exact pattern, doubles within eps_float *)
Definition key_tiles_float (n : v4 Z) : bool :=
  match cached_partition_f n, cached_partition_q n with
  | Some (vb, tv), Some (_, tvq) =>
    tiles_ok_float eps_float n vb tv &&
    forallb (fun '((a, b, c), (a', b', c')) => (a =? a') && (b =? b') && (c =? c')) (combine tv tvq) &&
    Nat.eqb (length tv) (length tvq)
  | _, _ => false
  end.

(* ---------------- further sweeps (topology only; float instance is enough) ---------------- *)
Definition uniform_count_ok (n : Z) : bool :=
  match cached_partition_f (V4 n n n 0) with
  | Some (_, tv) => Z.of_nat (length tv) =? n * n
  | None => false
  end.

(* PartitionQuad terminal cases on abstract vertex names: corners 0..3, side i
   has ea_i vertices named 100*(i+1) .. (in the direction fwd_i); the result must
   triangulate the outline (chain test only).                                   *)
Definition quad_outline (ea : v4 Z) (fwd : v4 bool) : list Z :=
  flat_map (fun i => Z.of_nat i :: map (fun k => get_edge_vert (V4 100 200 300 400) fwd i k) (zseq 0 (g4 ea i)))
           [0; 1; 2; 3]%nat.

Definition edge_eqb (x y : edge) : bool := (fst x =? fst y) && (snd x =? snd y).
Definition cnt (l : list edge) (e : edge) : Z := fold_right (fun x s => (if edge_eqb x e then 1 else 0) + s) 0 l.
Definition coef (l : list edge) (a b : Z) : Z := cnt l (a, b) - cnt l (b, a).

(* boundary chain of tv = the closed path vs, tested on every edge that occurs *)
Definition chain_is_cycle (tv : list tri) (vs : list Z) : bool :=
  let de := dir_edges tv in let oe := cyc_pairs vs in
  forallb (fun e => coef de (fst e) (snd e) =? coef oe (fst e) (snd e)) (de ++ oe).

Definition quad_terminal_ok (ea : v4 Z) (fwd : v4 bool) : bool :=
  match partition_quad float flerp 4 [] (V4 0 1 2 3) (V4 100 200 300 400) ea fwd with
  | Some (tv, _) =>
    chain_is_cycle tv (quad_outline ea fwd) &&
    (Z.of_nat (length tv) =? 2 + c0 ea + c1 ea + c2 ea + c3 ea)
  | None => false
  end.

Definition bool4s : list (v4 bool) :=
  flat_map (fun a => flat_map (fun b => flat_map (fun c => map (fun d => V4 a b c d) [true; false]) [true; false]) [true; false]) [true; false].

(* all terminal configurations: two consecutive sides without added vertices *)
Definition terminal_eas (B : Z) : list (v4 Z) :=
  flat_map (fun x => flat_map (fun y => [V4 0 0 x y; V4 y 0 0 x; V4 x y 0 0; V4 0 x y 0]) (zseq 0 (B + 1))) (zseq 0 (B + 1)).

(* two triangles (s,e,x) and (e,s,y) sharing the edge s-e which is divided into d
   pieces: new vertices 1000.. on the shared edge, seen forward by the first and
   backward by the second triangle.  After Reindex the union must triangulate
   the outer quadrilateral outline: the shared edge cancels completely.          *)
Definition two_tri_ok (d a1 a2 b1 b2 : Z) : bool :=
  match get_partition_f (V4 d a1 a2 0), get_partition_f (V4 d b1 b2 0) with
  | Some pa, Some pb =>
    match reindex float pa (V4 10 11 12 (-1)) (V4 1000 2000 3000 0) (V4 true true false false) 5000,
          reindex float pb (V4 11 10 13 (-1)) (V4 1000 4000 6000 0) (V4 false true false false) 7000 with
    | Some ta, Some tb =>
      chain_is_cycle (ta ++ tb)
        ([11] ++ zseq 2000 (a1 - 1) ++ [12] ++ rev (zseq 3000 (a2 - 1)) ++
         [10] ++ zseq 4000 (b1 - 1) ++ [13] ++ rev (zseq 6000 (b2 - 1)))
    | _, _ => false
    end
  | _, _ => false
  end.

Definition five_tuples (B : Z) : list (Z * Z * Z * Z * Z) :=
  flat_map (fun d => flat_map (fun a1 => flat_map (fun a2 => flat_map (fun b1 => map (fun b2 => (d, a1, a2, b1, b2))
     (zseq 1 B)) (zseq 1 B)) (zseq 1 B)) (zseq 1 B)) (zseq 1 B).
