(* Tri/HalfedgePairModel.v — pairing_reciprocal: AddHalfedge's hash pairing always yields
   reciprocal pairs with swapped endpoints, and leaves nothing unpaired exactly when the
   halfedges form a zero chain (every directed edge cancelled by a reverse one). *)
From Coq Require Import ZArith List Bool Arith Lia.
From MV Require Import Base.Chain Tri.EarClipDefs Tri.EarClipModel Tri.HalfedgePairDefs.
Import ListNotations.

Definition Eg (ht : HT) (i : nat) : Z * Z := nth i (hedges ht) (0, 0)%Z.
Definition Pr (ht : HT) (i : nat) : Z := nth i (hpair ht) 0%Z.
Definition swp (e : Z * Z) : Z * Z := (snd e, fst e).
Definition pend_edges (ht : HT) : chain := map (Eg ht) (hpend ht).

Record HInv (ht : HT) (es : chain) : Prop := mkHInv {
  H_edges : hedges ht = es;
  H_len : length (hpair ht) = length (hedges ht);
  H_nodup : NoDup (hpend ht);
  H_pend : forall i, In i (hpend ht) <-> i < length (hedges ht) /\ Pr ht i = (-1)%Z;
  H_paired : forall i, i < length (hedges ht) -> Pr ht i <> (-1)%Z ->
             exists j, Pr ht i = Z.of_nat j /\ j < length (hedges ht) /\ Pr ht j = Z.of_nat i /\ Eg ht j = swp (Eg ht i);
  H_opp : forall i j, In i (hpend ht) -> In j (hpend ht) -> Eg ht j <> swp (Eg ht i);
  H_coef : forall a b, coef (pend_edges ht) a b = coef es a b
}.

Lemma key_matches_spec h s e i :
  key_matches h s e i = true <-> i < length h /\ nth i h (0, 0)%Z = (s, e).
Proof.
  unfold key_matches. destruct (nth_error h i) as [[a b]|] eqn:E.
  - pose proof (nth_error_nth h i (0, 0)%Z E) as Hn. assert (Hi : i < length h) by (apply nth_error_Some; congruence).
    rewrite andb_true_iff, !Z.eqb_eq. rewrite Hn. split; [intros [-> ->]; auto|intros [_ H]; inversion H; auto].
  - apply nth_error_None in E. split; [discriminate|intros [H _]; lia].
Qed.

Lemma coef_remove_edge (f : nat -> Z * Z) p l a b :
  NoDup l -> In p l ->
  coef (map f (remove Nat.eq_dec p l)) a b = (coef (map f l) a b - edge1 (fst (f p)) (snd (f p)) a b)%Z.
Proof.
  induction l as [|x t IH]; intros Hn Hp; [destruct Hp|].
  apply NoDup_cons_iff in Hn. destruct Hn as [Hx Hn]. cbn [remove].
  destruct (Nat.eq_dec p x) as [->|Hne].
  - rewrite (notin_remove Nat.eq_dec t x Hx). cbn [map]. destruct (f x) as [u v] eqn:E. cbn [coef fst snd]. lia.
  - destruct Hp as [Hp|Hp]; [congruence|]. cbn [map]. destruct (f x) as [u v]. cbn [coef]. rewrite (IH Hn Hp). lia.
Qed.

Lemma addHalfedge_inv ht es s e :
  HInv ht es -> s <> e -> HInv (addHalfedge ht s e) (es ++ [(s, e)]).
Proof.
  intros [He Hl Hn Hp Hpd Ho Hc] Hse. unfold addHalfedge.
  set (n := length (hedges ht)).
  assert (EgOld : forall ht' i, hedges ht' = hedges ht ++ [(s, e)] -> i < n -> Eg ht' i = Eg ht i).
  { intros ht' i E Hi. unfold Eg. rewrite E. apply app_nth1. exact Hi. }
  assert (EgNew : forall ht', hedges ht' = hedges ht ++ [(s, e)] -> Eg ht' n = (s, e)).
  { intros ht' E. unfold Eg. rewrite E. rewrite app_nth2 by (unfold n; lia). unfold n. rewrite Nat.sub_diag. reflexivity. }
  destruct (find (key_matches (hedges ht) e s) (hpend ht)) as [p|] eqn:Ef.
  - (* pair with the most recent pending reverse halfedge p *)
    apply find_some in Ef. destruct Ef as [Hpin Hkm]. apply key_matches_spec in Hkm. destruct Hkm as [Hpn Hpe].
    fold n in Hpn. change (nth p (hedges ht) (0, 0)%Z) with (Eg ht p) in Hpe.
    destruct (proj1 (Hp p) Hpin) as [_ Hpm].
    set (ht' := mkHT (hedges ht ++ [(s, e)]) (upd (hpair ht) p (Z.of_nat n) ++ [Z.of_nat p]) (remove Nat.eq_dec p (hpend ht))).
    assert (Eh : hedges ht' = hedges ht ++ [(s, e)]) by reflexivity.
    assert (Hlen' : length (hedges ht') = S n) by (rewrite Eh, app_length; cbn; fold n; lia).
    assert (PrOld : forall i, i < n -> Pr ht' i = if i =? p then Z.of_nat n else Pr ht i).
    { intros i Hi. unfold Pr, ht'; cbn [hpair]. rewrite app_nth1 by (rewrite upd_length, Hl; exact Hi).
      apply nth_upd. rewrite Hl. exact Hpn. }
    assert (PrNew : Pr ht' n = Z.of_nat p).
    { unfold Pr, ht'; cbn [hpair]. rewrite app_nth2 by (rewrite upd_length, Hl; fold n; lia).
      rewrite upd_length, Hl. fold n. rewrite Nat.sub_diag. reflexivity. }
    constructor.
    + rewrite Eh, He. reflexivity.
    + unfold ht'; cbn [hpair hedges]. rewrite !app_length, upd_length, Hl. reflexivity.
    + apply NoDup_remove_1 with (a := p) || idtac. unfold ht'; cbn [hpend].
      clear -Hn. induction (hpend ht) as [|x t IH]; [constructor|]. apply NoDup_cons_iff in Hn. destruct Hn as [Hx Hn].
      cbn [remove]. destruct (Nat.eq_dec p x); [apply IH; exact Hn|]. constructor; [|apply IH; exact Hn].
      intros Hin. apply in_remove in Hin. tauto.
    + intros i. rewrite Hlen'. unfold ht' at 1; cbn [hpend]. split.
      * intros Hin. apply in_remove in Hin. destruct Hin as [Hin Hip]. destruct (proj1 (Hp i) Hin) as [Hi Hm]. fold n in Hi.
        split; [lia|]. rewrite PrOld by exact Hi. destruct (Nat.eqb_spec i p); [contradiction|exact Hm].
      * intros [Hi Hm]. assert (Hin' : i < n).
        { destruct (Nat.eq_dec i n) as [->|]; [rewrite PrNew in Hm; lia|lia]. }
        rewrite PrOld in Hm by exact Hin'. destruct (Nat.eqb_spec i p) as [->|Hip]; [lia|].
        apply in_in_remove; [exact Hip|]. apply Hp. fold n. auto.
    + rewrite Hlen'. intros i Hi Hm. destruct (Nat.eq_dec i n) as [->|Hin].
      * exists p. split; [exact PrNew|]. split; [lia|]. split.
        -- rewrite PrOld by exact Hpn. rewrite Nat.eqb_refl. reflexivity.
        -- rewrite (EgOld ht' p Eh Hpn), (EgNew ht' Eh), Hpe. reflexivity.
      * assert (Hi' : i < n) by lia. destruct (Nat.eq_dec i p) as [->|Hip].
        -- exists n. split; [rewrite PrOld by exact Hpn; rewrite Nat.eqb_refl; reflexivity|]. split; [lia|]. split; [exact PrNew|].
           rewrite (EgOld ht' p Eh Hpn), (EgNew ht' Eh), Hpe. reflexivity.
        -- rewrite PrOld in Hm by exact Hi'. destruct (Nat.eqb_spec i p); [contradiction|].
           destruct (Hpd i Hi' Hm) as (j & A & B & C & D). fold n in B.
           assert (Hjp : j <> p) by (intros ->; rewrite Hpm in C; lia).
           exists j. split; [rewrite PrOld by exact Hi'; destruct (Nat.eqb_spec i p); [contradiction|exact A]|].
           split; [lia|]. split; [rewrite PrOld by exact B; destruct (Nat.eqb_spec j p); [contradiction|exact C]|].
           rewrite (EgOld ht' j Eh B), (EgOld ht' i Eh Hi'). exact D.
    + unfold ht' at 1 2; cbn [hpend]. intros i j Hi Hj. apply in_remove in Hi, Hj. destruct Hi as [Hi _], Hj as [Hj _].
      destruct (proj1 (Hp i) Hi) as [Hi' _]. destruct (proj1 (Hp j) Hj) as [Hj' _]. fold n in Hi', Hj'.
      rewrite (EgOld ht' j Eh Hj'), (EgOld ht' i Eh Hi'). apply Ho; assumption.
    + intros a b. rewrite coef_app, <- Hc. cbn [coef]. unfold pend_edges, ht' at 2; cbn [hpend].
      rewrite (map_ext_in (Eg ht') (Eg ht)).
      * rewrite (coef_remove_edge (Eg ht) p (hpend ht) a b Hn Hpin). rewrite Hpe. cbn [fst snd].
        rewrite (edge1_swap s e). unfold pend_edges. lia.
      * intros i Hi. apply in_remove in Hi. destruct Hi as [Hi _]. destruct (proj1 (Hp i) Hi) as [Hi' _]. apply (EgOld ht' i Eh Hi').
  - (* no pending reverse halfedge: remember this one *)
    pose proof (find_none _ _ Ef) as Hnone.
    set (ht' := mkHT (hedges ht ++ [(s, e)]) (hpair ht ++ [(-1)%Z]) (n :: hpend ht)).
    assert (Eh : hedges ht' = hedges ht ++ [(s, e)]) by reflexivity.
    assert (Hlen' : length (hedges ht') = S n) by (rewrite Eh, app_length; cbn; fold n; lia).
    assert (PrOld : forall i, i < n -> Pr ht' i = Pr ht i).
    { intros i Hi. unfold Pr, ht'; cbn [hpair]. apply app_nth1. rewrite Hl. exact Hi. }
    assert (PrNew : Pr ht' n = (-1)%Z).
    { unfold Pr, ht'; cbn [hpair]. rewrite app_nth2 by (rewrite Hl; fold n; lia). rewrite Hl. fold n. rewrite Nat.sub_diag. reflexivity. }
    assert (Hnot : forall j, In j (hpend ht) -> Eg ht j <> (e, s)).
    { intros j Hj Eq. specialize (Hnone j Hj). destruct (proj1 (Hp j) Hj) as [Hj' _].
      assert (key_matches (hedges ht) e s j = true) by (apply key_matches_spec; split; [exact Hj'|exact Eq]). congruence. }
    assert (Hfresh : ~ In n (hpend ht)) by (intros Hin; destruct (proj1 (Hp n) Hin); unfold n in *; lia).
    constructor.
    + rewrite Eh, He. reflexivity.
    + unfold ht'; cbn [hpair hedges]. rewrite !app_length, Hl. reflexivity.
    + unfold ht'; cbn [hpend]. constructor; assumption.
    + intros i. rewrite Hlen'. unfold ht' at 1; cbn [hpend]. split.
      * intros [<-|Hin]; [split; [lia|exact PrNew]|]. destruct (proj1 (Hp i) Hin) as [Hi Hm]. fold n in Hi.
        split; [lia|]. rewrite PrOld by exact Hi. exact Hm.
      * intros [Hi Hm]. destruct (Nat.eq_dec i n) as [->|]; [left; reflexivity|]. right.
        assert (Hi' : i < n) by lia. rewrite PrOld in Hm by exact Hi'. apply Hp. fold n. auto.
    + rewrite Hlen'. intros i Hi Hm. destruct (Nat.eq_dec i n) as [->|Hin]; [rewrite PrNew in Hm; congruence|].
      assert (Hi' : i < n) by lia. rewrite PrOld in Hm by exact Hi'.
      destruct (Hpd i Hi' Hm) as (j & A & B & C & D). fold n in B.
      exists j. split; [rewrite PrOld by exact Hi'; exact A|]. split; [lia|]. split; [rewrite PrOld by exact B; exact C|].
      rewrite (EgOld ht' j Eh B), (EgOld ht' i Eh Hi'). exact D.
    + unfold ht' at 1 2; cbn [hpend]. intros i j Hi Hj.
      assert (Hold : forall x, In x (hpend ht) -> x < n /\ Eg ht' x = Eg ht x).
      { intros x Hx. destruct (proj1 (Hp x) Hx) as [Hx' _]. fold n in Hx'. split; [exact Hx'|apply (EgOld ht' x Eh Hx')]. }
      destruct Hi as [<-|Hi], Hj as [<-|Hj].
      * rewrite (EgNew ht' Eh). unfold swp; cbn [fst snd]. intros Eq; inversion Eq; congruence.
      * destruct (Hold j Hj) as [_ Ej]. rewrite Ej, (EgNew ht' Eh). unfold swp; cbn [fst snd]. apply Hnot. exact Hj.
      * destruct (Hold i Hi) as [_ Ei]. rewrite Ei, (EgNew ht' Eh). unfold swp. intros Eq.
        apply (Hnot i Hi). destruct (Eg ht i) as [u v]. cbn [fst snd] in Eq. inversion Eq; subst. reflexivity.
      * destruct (Hold i Hi) as [_ Ei]. destruct (Hold j Hj) as [_ Ej]. rewrite Ei, Ej. apply Ho; assumption.
    + intros a b. rewrite coef_app, <- Hc. cbn [coef]. unfold pend_edges, ht' at 2; cbn [hpend map].
      rewrite (EgNew ht' Eh). cbn [coef].
      rewrite (map_ext_in (Eg ht') (Eg ht)); [unfold pend_edges; lia|].
      intros i Hi. destruct (proj1 (Hp i) Hi) as [Hi' _]. apply (EgOld ht' i Eh Hi').
Qed.

Definition NoLoop (es : chain) : Prop := forall a b, In (a, b) es -> a <> b.

Lemma HInv_empty : HInv (mkHT [] [] []) [].
Proof.
  constructor; cbn; auto.
  - constructor.
  - intros i. split; [intros []|intros [H _]; lia].
  - intros i H; lia.
Qed.

Lemma addHalfedges_inv_gen : forall es ht done,
  HInv ht done -> NoLoop es ->
  HInv (fold_left (fun ht e => addHalfedge ht (fst e) (snd e)) es ht) (done ++ es).
Proof.
  induction es as [|[s e] t IH]; intros ht done H Hnl; cbn [fold_left].
  - rewrite app_nil_r. exact H.
  - change ((s, e) :: t) with ([(s, e)] ++ t). rewrite app_assoc.
    apply (IH (addHalfedge ht (fst (s, e)) (snd (s, e))) (done ++ [(s, e)])).
    + cbn [fst snd]. apply addHalfedge_inv; [exact H|]. apply (Hnl s e). left. reflexivity.
    + intros a b Hin. apply (Hnl a b). right. exact Hin.
Qed.

Lemma addHalfedges_inv es : NoLoop es -> HInv (addHalfedges es) es.
Proof. intros H. apply (addHalfedges_inv_gen es _ [] HInv_empty H). Qed.

Local Open Scope Z_scope.
Lemma coef_nonneg c a b : ~ In (b, a) c -> 0 <= coef c a b.
Proof.
  induction c as [|[x y] t IH]; intros Hn; cbn [coef]; [lia|].
  assert (Ht : ~ In (b, a) t) by (intros H; apply Hn; right; exact H).
  specialize (IH Ht). assert (0 <= edge1 x y a b); [|lia].
  unfold edge1, ind. destruct (Z.eqb_spec x b), (Z.eqb_spec y a); cbn [andb]; try (destruct ((x =? a) && (y =? b)); lia).
  subst. exfalso. apply Hn. left. reflexivity.
Qed.
Lemma coef_pos c a b : In (a, b) c -> a <> b -> ~ In (b, a) c -> 1 <= coef c a b.
Proof.
  induction c as [|[x y] t IH]; intros Hin Hab Hn; [destruct Hin|]. cbn [coef].
  assert (Ht : ~ In (b, a) t) by (intros H; apply Hn; right; exact H).
  destruct Hin as [Heq|Hin].
  - inversion Heq; subst. rewrite edge1_self by exact Hab. pose proof (coef_nonneg t a b Ht). lia.
  - specialize (IH Hin Hab Ht). assert (0 <= edge1 x y a b); [|lia].
    unfold edge1, ind. destruct (Z.eqb_spec x b), (Z.eqb_spec y a); cbn [andb]; try (destruct ((x =? a) && (y =? b)); lia).
    subst. exfalso. apply Hn. left. reflexivity.
Qed.
Local Close Scope Z_scope.

(* pairing_reciprocal *)
Theorem pairing_reciprocal_thm (es : chain) :
  NoLoop es ->
  let ht := addHalfedges es in
  hedges ht = es /\
  (* every recorded pairing is in range, reciprocal, with swapped endpoints *)
  (forall i, i < length es -> nth i (hpair ht) 0%Z <> (-1)%Z -> pair_ok ht i) /\
  (* nothing stays unpaired exactly when every directed edge is cancelled by a reverse one *)
  (hpend ht = [] <-> ceq es []) /\
  (ceq es [] -> finalize_ok ht).
Proof.
  intros Hnl ht. pose proof (addHalfedges_inv es Hnl) as [He Hl Hn Hp Hpd Ho Hc]. fold ht in He, Hl, Hn, Hp, Hpd, Ho, Hc.
  assert (Hpair : forall i, i < length es -> nth i (hpair ht) 0%Z <> (-1)%Z -> pair_ok ht i).
  { intros i Hi Hm. rewrite <- He in Hi. destruct (Hpd i Hi Hm) as (j & A & B & C & D).
    exists j. split; [exact A|]. split; [exact B|]. split; [exact C|exact D]. }
  assert (Hiff : hpend ht = [] <-> ceq es []).
  { split.
    - intros E a b. rewrite <- Hc. unfold pend_edges. rewrite E. reflexivity.
    - intros Hz. destruct (hpend ht) as [|i t] eqn:E; [reflexivity|exfalso].
      assert (Hin : In i (i :: t)) by (left; reflexivity).
      destruct (proj1 (Hp i) Hin) as [Hi _].
      destruct (Eg ht i) as [a b] eqn:Ei.
      assert (Hab : a <> b).
      { apply (Hnl a b). rewrite <- He, <- Ei. apply nth_In. exact Hi. }
      assert (H1 : (1 <= coef (pend_edges ht) a b)%Z).
      { apply coef_pos; [|exact Hab|].
        - unfold pend_edges. rewrite E, <- Ei. apply in_map. exact Hin.
        - unfold pend_edges. rewrite E. intros Hx. apply in_map_iff in Hx. destruct Hx as (j & Ej & Hj).
          apply (Ho i j Hin Hj). rewrite Ej, Ei. reflexivity. }
      rewrite Hc, Hz in H1. cbn in H1. lia. }
  split; [exact He|]. split; [exact Hpair|]. split; [exact Hiff|].
  intros Hz. split; [apply Hiff; exact Hz|].
  intros i Hi. rewrite He in Hi. apply Hpair; [exact Hi|].
  intros Hm. assert (Hin : In i (hpend ht)) by (apply Hp; rewrite He; auto).
  rewrite (proj2 Hiff Hz) in Hin. destruct Hin.
Qed.

(* the halfedges HalfedgeTriangulation holds after Triangulate: reversed contour edges, then
   three per triangle; with the chain identity Finalize()'s conditions hold *)
Corollary pairing_of_triangulation (polys : list (list Z)) (ts : list tri) :
  NoLoop (het_halfedges polys ts) -> ceq (boundaries ts) (contours polys) ->
  finalize_ok (addHalfedges (het_halfedges polys ts)).
Proof.
  intros Hnl Hc. apply (pairing_reciprocal_thm _ Hnl). apply het_closed. exact Hc.
Qed.
