(* Tri/EarClipInit.v — Initialize builds one closed ring per contour: the state it
   returns satisfies all invariants, every record is live and the live edges are
   exactly the input contour edges. *)
From Coq Require Import ZArith List Bool Arith Lia.
From MV Require Import Base.Chain Tri.EarClipDefs Tri.EarClipModel.
Import ListNotations.

Lemma Rf_overflow st u : size st <= u -> Rf st u = 0.
Proof. intros H. unfold Rf. rewrite nth_overflow by exact H. reflexivity. Qed.
Lemma Lf_overflow st u : size st <= u -> Lf st u = 0.
Proof. intros H. unfold Lf. rewrite nth_overflow by exact H. reflexivity. Qed.
Lemma Mf_overflow st u : size st <= u -> Mf st u = 0%Z.
Proof. intros H. unfold Mf. rewrite nth_overflow by exact H. reflexivity. Qed.

(* open path built so far: records off .. off+j-1 *)
Definition OpenPath (st0 st : St) (ms : list Z) : Prop :=
  let off := size st0 in let j := length ms in
  size st = off + j /\ same_meta st0 st /\
  (forall u, Mf st u = if (off <=? u) && (u <? off + j) then nth (u - off) ms 0%Z else Mf st0 u) /\
  (forall u, Rf st u = if (off <=? u) && (u + 1 <? off + j) then u + 1 else Rf st0 u) /\
  (forall u, Lf st u = if (off <? u) && (u <? off + j) then u - 1 else Lf st0 u).

Ltac bool_cases :=
  repeat match goal with
  | |- context [(?x =? ?y)] => destruct (Nat.eqb_spec x y)
  | |- context [(?x <=? ?y)] => destruct (Nat.leb_spec x y)
  | |- context [(?x <? ?y)] => destruct (Nat.ltb_spec x y)
  end; cbn [andb orb negb].

Lemma same_meta_refl st : same_meta st st.
Proof. unfold same_meta; auto 10. Qed.

Lemma push_acc st x st' : push st x = Some st' ->
  size st' = S (size st) /\ same_meta st st' /\
  (forall u, Mf st' u = if u =? size st then midx x else Mf st u) /\
  (forall u, Rf st' u = if u =? size st then vright x else Rf st u) /\
  (forall u, Lf st' u = if u =? size st then vleft x else Lf st u).
Proof.
  intros H. apply push_inv in H. destruct H as (Hs & Hm & Hn).
  split; [exact Hs|]. split; [exact Hm|].
  repeat split; intros u; unfold Mf, Rf, Lf; rewrite Hn; destruct (u =? size st); reflexivity.
Qed.

Lemma init_rest_open st0 : forall rest st last ms st' last',
  ms <> [] -> OpenPath st0 st ms -> last = size st0 + length ms - 1 ->
  init_rest st last rest = Some (st', last') ->
  OpenPath st0 st' (ms ++ rest) /\ last' = size st0 + length (ms ++ rest) - 1.
Proof.
  induction rest as [|m t IH]; intros st last ms st' last' Hne Hop Hlast H; cbn [init_rest] in H.
  - inversion H; subst. rewrite app_nil_r. auto.
  - unfold bind in H.
    destruct (push st (mkVert m 0 0)) as [st1|] eqn:Ep; [|discriminate].
    destruct (link st1 last (length (poly st))) as [st2|] eqn:Ek; [|discriminate].
    apply push_acc in Ep. destruct Ep as (Hs1 & Hm1 & HM1 & HR1 & HL1). cbn [midx vright vleft] in *.
    apply link_inv in Ek. destruct Ek as (_ & _ & Hs2 & Hm2 & HR2 & HL2 & HM2).
    destruct Hop as (Hsz & Hmeta & HM & HR & HL). cbv zeta in *.
    assert (Hj : length ms >= 1) by (destruct ms; [congruence|cbn; lia]).
    fold (size st) in *.
    replace (ms ++ m :: t) with ((ms ++ [m]) ++ t) in * by (rewrite <- app_assoc; reflexivity).
    apply (IH st2 (size st) (ms ++ [m])); [destruct ms; discriminate| |rewrite app_length; cbn; lia|exact H].
    unfold OpenPath. cbv zeta. rewrite app_length. cbn [length].
    split; [lia|]. split; [eapply same_meta_trans; [exact Hmeta|eapply same_meta_trans; eassumption]|].
    split; [|split].
    + intros u. rewrite HM2, HM1, HM. rewrite Hsz.
      destruct (Nat.eqb_spec u (size st0 + length ms)) as [->|Hne'].
      * replace (size st0 + length ms - size st0) with (length ms) by lia.
        rewrite app_nth2 by lia. rewrite Nat.sub_diag. bool_cases; try lia; try reflexivity.
      * bool_cases; try lia; try reflexivity. rewrite app_nth1 by lia. reflexivity.
    + intros u. rewrite HR2, HR1, HR. rewrite Hsz, Hlast.
      bool_cases; try lia; try reflexivity. all: try (symmetry; apply Rf_overflow; lia).
    + intros u. rewrite HL2, HL1, HL. rewrite Hsz, Hlast.
      bool_cases; try lia; try reflexivity.
Qed.

(* closed form of the state after Initialize's inner loop for one contour *)
Definition Ring (st0 st : St) (p : list Z) : Prop :=
  let off := size st0 in let k := length p in
  size st = off + k /\ same_meta st0 st /\
  (forall u, Mf st u = if (off <=? u) && (u <? off + k) then nth (u - off) p 0%Z else Mf st0 u) /\
  (forall u, Rf st u = if (off <=? u) && (u <? off + k) then (if u + 1 =? off + k then off else u + 1) else Rf st0 u) /\
  (forall u, Lf st u = if (off <=? u) && (u <? off + k) then (if u =? off then off + k - 1 else u - 1) else Lf st0 u).

Lemma init_poly_ring st0 p st first :
  init_poly st0 p = Some (st, first) -> Ring st0 st p /\ first = size st0 /\ p <> [].
Proof.
  destruct p as [|m t]; [discriminate|]. cbn [init_poly]. unfold bind.
  destruct (push st0 (mkVert m 0 0)) as [s0|] eqn:Ep; [|discriminate].
  destruct (init_rest s0 (length (poly st0)) t) as [[s1 last]|] eqn:Er; [|discriminate].
  destruct (link s1 last (length (poly st0))) as [s2|] eqn:Ek; [|discriminate].
  intros H; inversion H; subst s2 first; clear H.
  apply push_acc in Ep. destruct Ep as (Hs0 & Hm0 & HM0 & HR0 & HL0). cbn [midx vright vleft] in *.
  fold (size st0) in *.
  assert (Hop : OpenPath st0 s0 [m]).
  { unfold OpenPath. cbv zeta. cbn [length]. split; [lia|]. split; [exact Hm0|]. split; [|split].
    - intros u. rewrite HM0. destruct (Nat.eqb_spec u (size st0)) as [->|].
      + rewrite Nat.sub_diag. bool_cases; try lia; try reflexivity.
      + bool_cases; try lia; try reflexivity.
    - intros u. rewrite HR0. bool_cases; try lia; try reflexivity. all: try (symmetry; apply Rf_overflow; lia).
    - intros u. rewrite HL0. bool_cases; try lia; try reflexivity. all: try (symmetry; apply Lf_overflow; lia). }
  destruct (init_rest_open st0 t s0 (size st0) [m] s1 last ltac:(discriminate) Hop ltac:(cbn; lia) Er) as [Hop1 Hlast].
  cbn [app] in Hop1, Hlast. destruct Hop1 as (Hsz & Hmeta & HM & HR & HL). cbv zeta in *.
  apply link_inv in Ek. destruct Ek as (_ & _ & Hs2 & Hm2 & HR2 & HL2 & HM2).
  split; [|split; [reflexivity|discriminate]].
  unfold Ring. cbv zeta. split; [lia|]. split; [eapply same_meta_trans; eassumption|]. split; [|split].
  - intros u. rewrite HM2, HM. reflexivity.
  - intros u. rewrite HR2, HR, Hlast. cbn [length] in *. bool_cases; try lia; try reflexivity.
    all: try (symmetry; apply Rf_overflow; lia).
  - intros u. rewrite HL2, HL, Hlast. cbn [length] in *. bool_cases; try lia; try reflexivity.
    all: try (symmetry; apply Lf_overflow; lia).
Qed.

Local Open Scope Z_scope.
Lemma sumz_shift f n : sumz f (S n) = f 0%nat + sumz (fun i => f (S i)) n.
Proof. induction n as [|j IH]; cbn [sumz] in *; lia. Qed.

Lemma path_edges_sum l a b :
  coef (path_edges l) a b = sumz (fun i => edge1 (nth i l 0) (nth (S i) l 0) a b) (length l - 1).
Proof.
  induction l as [|x t IH]; [reflexivity|]. destruct t as [|y t']; [reflexivity|].
  rewrite path_edges_cons2, coef_cons, IH.
  replace (length (y :: t') - 1)%nat with (length t') by (cbn [length]; lia).
  replace (length (x :: y :: t') - 1)%nat with (S (length t')) by (cbn [length]; lia).
  rewrite sumz_shift. cbn [nth]. reflexivity.
Qed.

Lemma contour_sum (p : list Z) a b : (length p >= 1)%nat ->
  coef (contour p) a b =
  sumz (fun i => edge1 (nth i p 0) (nth (if (i + 1 =? length p)%nat then 0%nat else (i + 1)%nat) p 0) a b) (length p).
Proof.
  intros Hk. unfold contour. destruct p as [|x t] eqn:Ep; [cbn in Hk; lia|].
  rewrite <- Ep. rewrite path_edges_sum. rewrite app_length. cbn [length].
  replace (length p + 1 - 1)%nat with (length p) by lia.
  apply sumz_ext. intros i Hi.
  rewrite app_nth1 by lia.
  destruct (Nat.eqb_spec (i + 1) (length p)) as [E|E].
  - rewrite app_nth2 by lia. replace (S i - length p)%nat with 0%nat by lia.
    cbn [nth]. rewrite Ep. reflexivity.
  - rewrite app_nth1 by lia. replace (S i) with (i + 1)%nat by lia. reflexivity.
Qed.
Local Close Scope Z_scope.

Section RingCore.
Variables (st0 st : St) (p : list Z).
Let off := size st0.
Let k := length p.
Hypothesis I0 : Inv st0.
Hypothesis Hk : k >= 1.
Hypothesis Hsize : size st = off + k.
Hypothesis HM : forall u, Mf st u = if (off <=? u) && (u <? off + k) then nth (u - off) p 0%Z else Mf st0 u.
Hypothesis HR : forall u, Rf st u = if (off <=? u) && (u <? off + k) then (if u + 1 =? off + k then off else u + 1) else Rf st0 u.
Hypothesis HL : forall u, Lf st u = if (off <=? u) && (u <? off + k) then (if u =? off then off + k - 1 else u - 1) else Lf st0 u.

Lemma rc_live u : u < off + k -> live st u = if off <=? u then true else live st0 u.
Proof.
  intros Hu. unfold live at 1. rewrite HR.
  destruct (Nat.leb_spec off u) as [Hge|Hlt]; cbn [andb].
  - destruct (Nat.ltb_spec u (off + k)); [|lia].
    apply Nat.eqb_eq.
    destruct (Nat.eqb_spec (u + 1) (off + k)); rewrite HL; bool_cases; lia.
  - destruct (I_bound st0 I0 u Hlt) as [_ Hr]. fold off in Hr.
    rewrite HL. destruct (Nat.leb_spec off (Rf st0 u)); [lia|]. reflexivity.
Qed.

Lemma rc_Inv : Inv st.
Proof.
  constructor; rewrite Hsize.
  - intros v Hv. rewrite HR, HL.
    assert (Hb : v < off -> Lf st0 v < off /\ Rf st0 v < off) by (apply (I_bound st0 I0)).
    bool_cases; try lia; destruct (Hb ltac:(lia)); lia.
  - intros v Hv Hl. rewrite (rc_live v Hv) in Hl. rewrite HL.
    destruct (Nat.leb_spec off v) as [Hge|Hlt]; cbn [andb].
    + destruct (Nat.ltb_spec v (off + k)); [|lia]. rewrite HR. bool_cases; lia.
    + pose proof (I_lr st0 I0 v Hlt Hl) as H1. destruct (I_bound st0 I0 v Hlt) as [Hlb _]. fold off in Hlb.
      rewrite HR. destruct (Nat.leb_spec off (Lf st0 v)); [lia|]. exact H1.
  - intros v Hv Hl. rewrite (rc_live v Hv) in Hl. rewrite HR.
    destruct (Nat.leb_spec off v) as [Hge|Hlt]; cbn [andb].
    + destruct (Nat.ltb_spec v (off + k)); [|lia]. rewrite rc_live by (bool_cases; lia). bool_cases; try lia; reflexivity.
    + destruct (I_bound st0 I0 v Hlt) as [_ Hrb]. fold off in Hrb. rewrite rc_live by lia.
      destruct (Nat.leb_spec off (Rf st0 v)); [lia|]. apply (I_rlive st0 I0 v Hlt Hl).
  - intros v Hv Hself. rewrite (rc_live v Hv). rewrite HL in Hself.
    destruct (Nat.leb_spec off v) as [Hge|Hlt]; [reflexivity|]. cbn [andb] in Hself.
    apply (I_self st0 I0 v Hlt Hself).
Qed.

Local Open Scope Z_scope.

Lemma rc_chain a b :
  sumz (ledge st a b) (size st) = sumz (ledge st0 a b) (size st0) + coef (contour p) a b.
Proof.
  rewrite Hsize, sumz_split. f_equal.
  - apply sumz_ext. intros v Hv. fold off in Hv. unfold ledge. rewrite rc_live by lia.
    destruct (Nat.leb_spec off v); [lia|]. rewrite HR, !HM.
    destruct (Nat.leb_spec off v); [lia|]. cbn [andb].
    destruct (I_bound st0 I0 v Hv) as [_ Hr]. fold off in Hr.
    destruct (Nat.leb_spec off (Rf st0 v)); [lia|]. reflexivity.
  - rewrite (contour_sum p a b Hk). fold k. apply sumz_ext. intros i Hi. unfold ledge. rewrite rc_live by lia.
    destruct (Nat.leb_spec off (off + i)); [|lia]. rewrite HR, !HM.
    destruct (Nat.leb_spec off (off + i)); [|lia]. destruct (Nat.ltb_spec (off + i) (off + k)); [|lia]. cbn [andb].
    replace (off + i - off)%nat with i by lia.
    destruct (Nat.eqb_spec (off + i + 1) (off + k)) as [E|E].
    + destruct (Nat.eqb_spec (i + 1) k); [|lia]. rewrite Nat.leb_refl.
      destruct (Nat.ltb_spec off (off + k)); [|lia]. cbn [andb]. rewrite Nat.sub_diag. reflexivity.
    + destruct (Nat.eqb_spec (i + 1) k); [lia|].
      destruct (Nat.leb_spec off (off + i + 1)); [|lia]. destruct (Nat.ltb_spec (off + i + 1) (off + k)); [|lia]. cbn [andb].
      replace (off + i + 1 - off)%nat with (i + 1)%nat by lia. reflexivity.
Qed.

Lemma rc_nlive : sumz (lind st) (size st) = sumz (lind st0) (size st0) + Z.of_nat k.
Proof.
  rewrite Hsize, sumz_split. f_equal.
  - apply sumz_ext. intros v Hv. fold off in Hv. unfold lind. rewrite rc_live by lia.
    destruct (Nat.leb_spec off v); [lia|]. reflexivity.
  - rewrite (sumz_ext _ (fun _ => 1)).
    + clear. induction k as [|j IH]; cbn [sumz]; lia.
    + intros i Hi. unfold lind. rewrite rc_live by lia. destruct (Nat.leb_spec off (off + i)); [reflexivity|lia].
Qed.
End RingCore.

Record InitGood (done : list (list Z)) (st : St) : Prop := mkInitGood {
  IG_inv : Inv st;
  IG_midx : MidxIn (concat done) st;
  IG_tris : tris st = [];
  IG_nclip : nclip st = 0; IG_nfilt : nfilt st = 0; IG_njoin : njoin st = 0; IG_nbad : nbad st = 0;
  IG_nlive : nlive st = size st;
  IG_size : size st = numVert done;
  IG_chain : forall a b, coef (live_edges st) a b = coef (contours done) a b
}.

Lemma numVert_app l1 l2 : numVert (l1 ++ l2) = numVert l1 + numVert l2.
Proof. unfold numVert. induction l1 as [|p t IH]; cbn [app fold_right]; [reflexivity|]. rewrite IH. lia. Qed.

Lemma init_poly_good done st p st' first :
  InitGood done st -> init_poly st p = Some (st', first) -> InitGood (done ++ [p]) st'.
Proof.
  intros G H. destruct (init_poly_ring st p st' first H) as (HRing & _ & Hne).
  destruct HRing as (Hsz & Hmeta & HM & HR & HL). cbv zeta in *.
  assert (Hk : length p >= 1) by (destruct p; [congruence|cbn; lia]).
  destruct G as [I Gm Gt Gc Gf Gj Gb Gl Gs Gch].
  destruct Hmeta as (Mcap & Mtris & Mnclip & Mnfilt & Mnjoin & Mnbad).
  constructor; try congruence.
  - apply (rc_Inv st st' p I Hk Hsz HR HL).
  - intros v Hv. rewrite HM. rewrite concat_app. cbn [concat]. rewrite app_nil_r. apply in_or_app.
    destruct (Nat.leb_spec (size st) v); cbn [andb].
    + destruct (Nat.ltb_spec v (size st + length p)); [|lia]. right. apply nth_In. lia.
    + left. apply Gm. assumption.
  - apply Nat2Z.inj. rewrite nlive_sum. rewrite (rc_nlive st st' p I Hk Hsz HR HL).
    rewrite <- nlive_sum. lia.
  - rewrite numVert_app. cbn [numVert fold_right]. fold (numVert done). lia.
  - intros a b. rewrite coef_live_edges, (rc_chain st st' p I Hk Hsz HM HR HL a b).
    rewrite <- coef_live_edges, Gch, coef_contours_app. unfold contours at 3. cbn [flat_map]. rewrite app_nil_r. reflexivity.
Qed.

Lemma initialize_good : forall ps done st st' starts,
  InitGood done st -> initialize st ps = Some (st', starts) -> InitGood (done ++ ps) st'.
Proof.
  induction ps as [|p t IH]; intros done st st' starts G H; cbn [initialize] in H.
  - inversion H; subst. rewrite app_nil_r. exact G.
  - unfold bind in H. destruct (init_poly st p) as [[st1 first]|] eqn:E; [|discriminate].
    destruct (initialize st1 t) as [[st2 starts2]|] eqn:E2; [|discriminate].
    inversion H; subst. replace (done ++ p :: t) with ((done ++ [p]) ++ t) by (rewrite <- app_assoc; reflexivity).
    apply (IH _ _ _ _ (init_poly_good _ _ _ _ _ G E) E2).
Qed.

Lemma reset_good polys : InitGood [] (reset polys).
Proof.
  constructor; try reflexivity.
  - constructor; cbn; intros; lia.
  - intros v Hv. cbn in Hv. lia.
Qed.

(* Initialize establishes everything the pipeline theorem needs *)
Theorem initialize_good_state polys st1 starts :
  initialize (reset polys) polys = Some (st1, starts) ->
  Good (concat polys) (numVert polys) st1 /\ nbad st1 = 0 /\ ceq (chain_of st1) (contours polys).
Proof.
  intros H. pose proof (initialize_good polys [] _ _ _ (reset_good polys) H) as G. cbn [app] in G.
  destruct G as [I Gm Gt Gc Gf Gj Gb Gl Gs Gch].
  split; [|split; [exact Gb|]].
  - constructor; auto.
    + intros a b c Hin. rewrite Gt in Hin. destruct Hin.
    + lia.
    + lia.
    + rewrite Gt. cbn. lia.
  - intros a b. unfold chain_of. rewrite Gt. cbn [boundaries flat_map app]. apply Gch.
Qed.

(* Main result.  For every oracle: if the run of the ported Triangulate returns st, no
   internal precondition was violated (nbad = 0: JoinPolygons joined two different live
   rings, no ring of <= 2 records was clipped), then the chain invariant, index validity
   and the clip count hold; if moreover every remaining ring is closed (rings_closed, the
   code's DEBUG_ASSERT(v->right == v->left)) the emitted triangles satisfy the chain identity. *)
Theorem earclip_contract_init orc fuel polys st :
  triangulate orc fuel polys = Some st -> nbad st = 0 ->
  (forall a b, coef (boundaries (tris st) ++ live_edges st) a b = coef (contours polys) a b) /\
  TrisIn (concat polys) st /\
  length (tris st) + nfilt st = nclip st /\
  nclip st + nlive st = numVert polys + 2 * njoin st /\
  (rings_closed st = true -> ceq (boundaries (tris st)) (contours polys)).
Proof.
  intros H Hz.
  destruct (triangulate_steps orc (concat polys) (numVert polys) fuel polys st H) as (st1 & starts & Hi & Hstep).
  destruct (initialize_good_state polys st1 starts Hi) as (G1 & Hb1 & C1).
  destruct Hstep as [_ Hs]. destruct (Hs Hz G1) as [G C].
  assert (Hch : forall a b, coef (boundaries (tris st) ++ live_edges st) a b = coef (contours polys) a b).
  { intros a b. fold (chain_of st). rewrite C. apply C1. }
  split; [exact Hch|]. split; [apply (G_tris _ _ _ G)|]. split; [apply (G_emit _ _ _ G)|].
  split; [rewrite (G_count _ _ _ G); apply (G_size _ _ _ G)|].
  intros Hrc a b. specialize (Hch a b). rewrite coef_app in Hch.
  rewrite (live_edges_closed st a b (G_inv _ _ _ G) Hrc) in Hch. lia.
Qed.

Corollary earclip_count_init orc fuel polys st h o :
  triangulate orc fuel polys = Some st -> nbad st = 0 ->
  njoin st = h -> nlive st = 2 * o -> nfilt st = 0 ->
  (Z.of_nat (length (tris st)) = Z.of_nat (numVert polys) - 2 + 2 * Z.of_nat h - 2 * (Z.of_nat o - 1))%Z.
Proof.
  intros H Hz Hj Hl Hf. destruct (earclip_contract_init orc fuel polys st H Hz) as (_ & _ & He & Hn & _). lia.
Qed.
