(* H_pattern_q of SubdivideQuadModel.subdivide_q_balances, for all sizes:
   for triangle faces by ReindexModel.reindex_outline, for quad faces by
   ReindexModel.reindex_outline_quad (the four halfedges GetHalfedges returns
   run once around the quad), for the skipped triangle of a quad trivially. *)
From Coq Require Import ZArith List Bool Lia.
From MV Require Import Base.Chain Tri.PartitionDefs Tri.QuadChain Tri.QuadModel Tri.TriModel
  Tri.SubdivideDefs Tri.SubdivideModel Tri.ReindexModel Tri.SubdivideQuadDefs Tri.SubdivideQuadModel.
Import ListNotations.
Local Open Scope Z_scope.

Lemma he_next tris h a b : he tris h = Some (a, b) ->
  exists c, he tris (next_he h) = Some (b, c) /\ he tris (next_he (next_he h)) = Some (c, a).
Proof.
  intro H. destruct (he_some tris h a b H) as (v0 & v1 & v2 & Hv & _ & Hs).
  assert (Hr : 0 <= h / 3) by (apply vget_range in Hv; lia).
  assert (Hh : h = 3 * (h / 3) + h mod 3) by (apply Z.div_mod; lia).
  pose proof (Z.mod_pos_bound h 3 ltac:(lia)) as Hm.
  destruct (he_tri tris (h / 3) v0 v1 v2 Hv) as (H0 & H1 & H2).
  set (t := h / 3) in *. set (i := h mod 3) in *.
  assert (Hi : i = 0 \/ i = 1 \/ i = 2) by lia.
  unfold tri_side in Hs.
  destruct Hi as [Hi|[Hi|Hi]]; rewrite Hi in *; cbn [Z.eqb] in Hs; injection Hs as -> ->; rewrite Hh.
  - exists v2. replace (3 * t + 0) with (3 * t) by lia. rewrite next_he_0, next_he_1. split; assumption.
  - exists v0. rewrite next_he_1, next_he_2. split; assumption.
  - exists v1. rewrite next_he_2, next_he_0. split; assumption.
Qed.

Lemma he_nonneg tris h x y : he tris h = Some (x, y) -> 0 <= h.
Proof.
  intro Hhe. destruct (he_some tris h x y Hhe) as (v0 & v1 & v2 & Hv & _ & _). apply vget_range in Hv.
  destruct (Z.ltb_spec h 0) as [Hl|]; [|lia]. exfalso.
  assert (h / 3 < 0) by (apply Z.div_lt_upper_bound; lia). lia.
Qed.

Section HQ.
  Variable T : Type.
  Variables tzero tone : T.
  Variable tlerp : T -> T -> Z -> Z -> T.
  Variable numVert : Z.
  Variable tris : list tri.
  Variable added : Z -> Z -> Z.
  Variable marked : Z -> Z -> bool.
  Variable keepInterior : bool.

  Notation ea := (eadd numVert tris added marked keepInterior).
  Notation hinfo := (he_info numVert tris added marked keepInterior).
  Notation off := (goff numVert tris ea).
  Notation nn := (gadd numVert tris ea).

  Hypothesis Hpos : forall p q r, In (p, q, r) tris -> 0 <= p /\ 0 <= q /\ 0 <= r.
  Hypothesis Hadd : forall u v, 0 <= added u v.

  Lemma he_pos h x y : he tris h = Some (x, y) -> 0 <= x /\ 0 <= y.
  Proof.
    intro H. destruct (he_some tris h x y H) as (v0 & v1 & v2 & _ & Hin & Hs).
    destruct (Hpos v0 v1 v2 Hin) as (P0 & P1 & P2). unfold tri_side in Hs.
    destruct (h mod 3 =? 0); [|destruct (h mod 3 =? 1)]; injection Hs as -> ->; lia.
  Qed.

  Lemma hinfo_side a b h x y n o : he tris h = Some (x, y) -> hinfo h = Some (n, o) ->
    0 <= n /\ coef (side_chain tris off nn h) a b = pc a b (x :: edge_run o (x <? y) n ++ [y]) /\ 0 <= h.
  Proof.
    intros Hhe Hi. unfold he_info in Hi. rewrite Hhe in Hi.
    assert (Hh : 0 <= h).
    { destruct (he_some tris h x y Hhe) as (v0 & v1 & v2 & Hv & _ & _). apply vget_range in Hv.
      destruct (Z.ltb_spec h 0) as [Hl|]; [|lia]. exfalso.
      assert (h / 3 < 0) by (apply Z.div_lt_upper_bound; lia). lia. }
    split; [|split; [|exact Hh]].
    - pose proof (proj2 (gadd_is_added numVert tris ea x y (n, o) Hi)) as A. cbn [fst] in A. rewrite A.
      apply eadd_nonneg_q; [exact Hadd|]. pose proof (edge_info_some_neq numVert tris ea x y (n, o) Hi). lia.
    - unfold side_chain. replace (h <? 0) with false by (symmetry; apply Z.ltb_ge; lia). rewrite Hhe.
      apply (gside_run numVert tris ea a b x y n o Hi).
  Qed.

  Lemma side_chain_neg h : h < 0 -> side_chain tris off nn h = [].
  Proof. intro H. unfold side_chain. replace (h <? 0) with true by (symmetry; apply Z.ltb_lt; lia). reflexivity. Qed.

  Hypothesis Hqv : quads_valid tris marked = true.
  Hypothesis Hsplit : forall t p, face_part T tzero tone tlerp numVert tris added marked keepInterior t = Some p ->
                                  c3 (p_sorted p) = 0 ->
                                  split_ok (c0 (p_sorted p)) (c1 (p_sorted p)) (c2 (p_sorted p)).

  Lemma sorted_c3_tri d0 d1 d2 p :
    get_partition T tzero tone tlerp (V4 d0 d1 d2 0) = Some p -> c3 (p_sorted p) = 0.
  Proof.
    unfold get_partition. cbn [c0]. destruct (d0 =? 0); [intro H; injection H as <-; reflexivity|].
    pose proof (PartitionModel.sort_divisions_tri d0 d1 d2) as Hs.
    destruct (sort_divisions (V4 d0 d1 d2 0)) as [s ix]. destruct Hs as (_ & _ & S3 & _).
    destruct (cached_partition T tzero tone tlerp s) as [[vb tv]|]; [|discriminate].
    intro H. injection H as <-. exact S3.
  Qed.

  Theorem h_pattern_q t p io rt :
    In t (tri_ids tris) ->
    face_part T tzero tone tlerp numVert tris added marked keepInterior t = Some p ->
    face_out T numVert tris added marked keepInterior t p io = Some rt ->
    ceq (boundaries rt) (face_outline tris marked off nn t).
  Proof.
    intros Hin Hfp Hfo a b.
    pose proof Hfp as Hfp0.
    unfold face_part in Hfp. unfold face_out in Hfo. unfold face_outline.
    destruct (get_halfedges tris marked t) as [hs|] eqn:Eg; [|discriminate].
    destruct (qv_at tris marked t Hqv Hin) as (nb & Hnb & Hneg & Hquad).
    unfold get_halfedges in Eg. rewrite Hnb in Eg.
    assert (Ht : 0 <= t) by (apply in_tri_ids in Hin; lia).
    destruct (0 <=? nb) eqn:Enb.
    - (* part of a quad *)
      apply Z.leb_le in Enb. destruct (Hquad Enb) as (pr & Hpr & _ & _ & _).
      rewrite Hpr in Eg.
      destruct (pr / 3 <? t) eqn:Elow.
      + (* the higher triangle: skipped *)
        assert (Ehs : hs = V4 (-1) (-1) (-1) (-1)) by congruence. subst hs. clear Eg.
        cbv beta iota delta [c0 c1 c2 c3] in *. change (-1 <? 0) with true in Hfo. cbv iota in Hfo. injection Hfo as <-.
        rewrite !side_chain_neg by lia. reflexivity.
      + assert (Ehs : hs = V4 (next_he pr) (next_he (next_he pr)) (next_he (3 * t + nb)) (next_he (next_he (3 * t + nb)))) by congruence.
        subst hs. clear Eg. cbv beta iota delta [c0 c1 c2 c3] in *.
        (* the four halfedges run once around the quad *)
        unfold pair_of in Hpr.
        destruct (he tris (3 * t + nb)) as [[x y]|] eqn:Ehe; [|discriminate].
        pose proof (find_he_he tris y x pr Hpr) as Ehp.
        destruct (he_next tris _ _ _ Ehe) as (z & E2 & E3).
        destruct (he_next tris _ _ _ Ehp) as (w & E0 & E1).
        set (h2 := next_he (3 * t + nb)) in *. set (h3 := next_he h2) in *.
        set (h0 := next_he pr) in *. set (h1 := next_he h0) in *.
        unfold face_divisions in Hfp. cbv beta iota delta [c0 c1 c2 c3] in Hfp.
        unfold face_arg in Hfo. rewrite E0, E1, E2, E3 in Hfo.
        pose proof (he_nonneg _ _ _ _ E0) as P0. pose proof (he_nonneg _ _ _ _ E1) as P1.
        pose proof (he_nonneg _ _ _ _ E2) as P2. pose proof (he_nonneg _ _ _ _ E3) as P3.
        replace (h0 <? 0) with false in * by (symmetry; apply Z.ltb_ge; lia).
        replace (h1 <? 0) with false in * by (symmetry; apply Z.ltb_ge; lia).
        replace (h2 <? 0) with false in * by (symmetry; apply Z.ltb_ge; lia).
        replace (h3 <? 0) with false in * by (symmetry; apply Z.ltb_ge; lia).
        cbv iota in Hfp, Hfo.
        destruct (hinfo h0) as [[n0 o0]|] eqn:I0; [|discriminate Hfp].
        destruct (hinfo h1) as [[n1 o1]|] eqn:I1; [|discriminate Hfp].
        destruct (hinfo h2) as [[n2 o2]|] eqn:I2; [|discriminate Hfp].
        destruct (hinfo h3) as [[n3 o3]|] eqn:I3; [|discriminate Hfp].
        destruct (hinfo_side a b h0 x w n0 o0 E0 I0) as (N0 & S0 & _).
        destruct (hinfo_side a b h1 w y n1 o1 E1 I1) as (N1 & S1 & _).
        destruct (hinfo_side a b h2 y z n2 o2 E2 I2) as (N2 & S2 & _).
        destruct (hinfo_side a b h3 z x n3 o3 E3 I3) as (N3 & S3 & _).
        destruct (he_pos _ _ _ E0) as (X0 & W0). destruct (he_pos _ _ _ E2) as (Y0 & Z0).
        rewrite (reindex_outline_quad T tzero tone tlerp (n0 + 1) (n1 + 1) (n2 + 1) (n3 + 1) p x w y z o0 o1 o2 o3
                   (x <? w) (w <? y) (y <? z) (z <? x) io rt) by (try lia; assumption).
        rewrite !coef_app, S0, S1, S2, S3. unfold rsides4.
        replace (n0 + 1 - 1) with n0 by lia. replace (n1 + 1 - 1) with n1 by lia.
        replace (n2 + 1 - 1) with n2 by lia. replace (n3 + 1 - 1) with n3 by lia. lia.
    - (* a triangle *)
      apply Z.leb_gt in Enb. assert (Ehs : hs = V4 (3 * t) (3 * t + 1) (3 * t + 2) (-1)) by congruence.
      subst hs. clear Eg. cbv beta iota delta [c0 c1 c2 c3] in *.
      replace (3 * t <? 0) with false in Hfo by (symmetry; apply Z.ltb_ge; lia).
      destruct (get_neighbor_some tris marked t nb Hnb) as (v0 & v1 & v2 & Hv & _).
      destruct (he_tri tris t v0 v1 v2 Hv) as (E0 & E1 & E2).
      unfold face_divisions in Hfp. cbv beta iota delta [c0 c1 c2 c3] in Hfp.
      unfold face_arg in Hfo. rewrite E0, E1, E2 in Hfo.
      replace (3 * t <? 0) with false in * by (symmetry; apply Z.ltb_ge; lia).
      replace (3 * t + 1 <? 0) with false in * by (symmetry; apply Z.ltb_ge; lia).
      replace (3 * t + 2 <? 0) with false in * by (symmetry; apply Z.ltb_ge; lia).
      change (-1 <? 0) with true in *. cbv iota in Hfp, Hfo.
      destruct (hinfo (3 * t)) as [[n0 o0]|] eqn:I0; [|discriminate].
      destruct (hinfo (3 * t + 1)) as [[n1 o1]|] eqn:I1; [|discriminate].
      destruct (hinfo (3 * t + 2)) as [[n2 o2]|] eqn:I2; [|discriminate].
      destruct (hinfo_side a b _ _ _ _ _ E0 I0) as (N0 & S0 & _).
      destruct (hinfo_side a b _ _ _ _ _ E1 I1) as (N1 & S1 & _).
      destruct (hinfo_side a b _ _ _ _ _ E2 I2) as (N2 & S2 & _).
      destruct (he_pos _ _ _ E0) as (X0 & X1). destruct (he_pos _ _ _ E1) as (_ & X2).
      pose proof (Hsplit t p Hfp0 (sorted_c3_tri _ _ _ _ Hfp)) as Hsp.
      rewrite (reindex_outline T tzero tone tlerp (n0 + 1) (n1 + 1) (n2 + 1) p v0 v1 v2 o0 o1 o2 0
                 (v0 <? v1) (v1 <? v2) (v2 <? v0) false io rt) by (try lia; assumption).
      rewrite !coef_app, S0, S1, S2, (side_chain_neg (-1)) by lia. unfold rsides.
      replace (n0 + 1 - 1) with n0 by lia. replace (n1 + 1 - 1) with n1 by lia. replace (n2 + 1 - 1) with n2 by lia.
      cbn [coef]. lia.
  Qed.
End HQ.

(* the general Subdivide model returns a closed oriented soup *)
Theorem subdivide_q_balances_all :
  forall (T : Type) (tzero tone : T) (tlerp : T -> T -> Z -> Z -> T)
         (numVert : Z) (tris : list tri) (added : Z -> Z -> Z) (marked : Z -> Z -> bool)
         (keepInterior : bool) (out : list tri),
  ceq (boundaries tris) [] ->
  (forall p q r, In (p, q, r) tris -> p <> q /\ q <> r /\ r <> p) ->
  (forall p q r, In (p, q, r) tris -> 0 <= p /\ 0 <= q /\ 0 <= r) ->
  (forall u v, 0 <= added u v) ->
  (forall x y, marked x y = marked y x) ->
  quads_valid tris marked = true ->
  (forall t p, face_part T tzero tone tlerp numVert tris added marked keepInterior t = Some p ->
               c3 (p_sorted p) = 0 -> split_ok (c0 (p_sorted p)) (c1 (p_sorted p)) (c2 (p_sorted p))) ->
  subdivide_tris_q T tzero tone tlerp numVert tris added marked keepInterior = Some out ->
  ceq (boundaries out) [].
Proof.
  intros T tzero tone tlerp numVert tris added marked keepInterior out Hc Hnd Hpos Hadd Hsym Hqv Hsplit Hout.
  apply (subdivide_q_balances T tzero tone tlerp numVert tris added marked keepInterior out Hc Hnd Hsym Hqv); [|exact Hout].
  intros t p io rt Hin Hfp Hfo.
  exact (h_pattern_q T tzero tone tlerp numVert tris added marked keepInterior Hpos Hadd Hqv Hsplit t p io rt Hin Hfp Hfo).
Qed.
