(* Tri/EarClipDefs.v — executable port of the INTEGER structure of
   src/polygon.cpp's EarClip (and TriangulateConvex, HalfedgeTriangulation of
   src/polygon_internal.h).  Definitions only, no proofs.

   State: `polygon_` as a list of records (mesh_idx, left, right); iterators are
   positions (nat).  Every read through an iterator that would be out of bounds,
   every push_back beyond the reserved capacity (iterator invalidation) and
   every exhausted fuel yields None.

   ALL geometry (doubles) is an oracle: a record of arbitrary functions that may
   inspect the whole current state (which includes the emitted triangles and the
   clip counter, i.e. the history).  The theorems quantify over the record. *)
From Coq Require Import ZArith List Bool Arith Lia.
From MV Require Import Base.Chain.
Import ListNotations.

Record vert : Type := mkVert { midx : Z; vleft : nat; vright : nat }.

Record St : Type := mkSt {
  poly : list vert;      (* polygon_ *)
  cap : nat;             (* polygon_.capacity() after reserve() *)
  tris : list tri;       (* result_ triangles, in emission order *)
  nclip : nat;           (* number of ClipEar calls so far (ghost counter) *)
  nfilt : nat;           (* ... of which filtered as topological degenerates *)
  njoin : nat;           (* number of JoinPolygons calls (ghost counter) *)
  nbad : nat             (* ghost: internal preconditions violated so far, see joinPolygons / clip_loop *)
}.

Definition bind {A B} (x : option A) (f : A -> option B) : option B :=
  match x with Some a => f a | None => None end.
Notation "x <- e ;; f" := (bind e (fun x => f)) (at level 61, e at next level, right associativity).
Notation "' p <- e ;; f" := (bind e (fun p => f)) (at level 61, p pattern, e at next level, right associativity).

Fixpoint upd {A} (l : list A) (i : nat) (x : A) : list A :=
  match l, i with
  | [], _ => []
  | _ :: t, O => x :: t
  | h :: t, S j => h :: upd t j x
  end.

Definition getV (st : St) (v : nat) : option vert := nth_error (poly st) v.
Definition getL (st : St) (v : nat) : option nat := option_map vleft (getV st v).
Definition getR (st : St) (v : nat) : option nat := option_map vright (getV st v).
Definition getM (st : St) (v : nat) : option Z := option_map midx (getV st v).

Definition setPoly (st : St) (p : list vert) : St :=
  mkSt p (cap st) (tris st) (nclip st) (nfilt st) (njoin st) (nbad st).
Definition addBad (st : St) (b : bool) : St :=
  mkSt (poly st) (cap st) (tris st) (nclip st) (nfilt st) (njoin st) (if b then S (nbad st) else nbad st).
Definition addJoin (st : St) : St :=
  mkSt (poly st) (cap st) (tris st) (nclip st) (nfilt st) (S (njoin st)) (nbad st).

Definition setL (st : St) (v l : nat) : option St :=
  x <- getV st v ;; Some (setPoly st (upd (poly st) v (mkVert (midx x) l (vright x)))).
Definition setR (st : St) (v r : nat) : option St :=
  x <- getV st v ;; Some (setPoly st (upd (poly st) v (mkVert (midx x) (vleft x) r))).

(* static void Link(VertItr left, VertItr right): left->right = right; right->left = left
   (rightDir is geometry and not modelled) *)
Definition link (st : St) (l r : nat) : option St :=
  st1 <- setR st l r ;; setL st1 r l.

(* static bool Clipped(VertItr v) { return v->right->left != v; } *)
Definition clipped (st : St) (v : nat) : option bool :=
  r <- getR st v ;; l <- getL st r ;; Some (negb (l =? v)).

(* void ClipEar(VertItrC ear): Link(ear->left, ear->right); AddTriangle(left, ear, right)
   unless two of the three mesh indices coincide.  Link never changes ear's own
   left/right (it writes left->right and right->left with the values ear already
   holds when ear is one of them), so they are read once. *)
Definition clipEar (st : St) (e : nat) : option St :=
  l <- getL st e ;; r <- getR st e ;;
  st1 <- link st l r ;;
  ml <- getM st1 l ;; me <- getM st1 e ;; mr <- getM st1 r ;;
  if negb (ml =? me)%Z && negb (me =? mr)%Z && negb (mr =? ml)%Z
  then Some (mkSt (poly st1) (cap st1) (tris st1 ++ [(ml, me, mr)]) (S (nclip st1)) (nfilt st1) (njoin st1) (nbad st1))
  else Some (mkSt (poly st1) (cap st1) (tris st1) (S (nclip st1)) (S (nfilt st1)) (njoin st1) (nbad st1)).

Record Oracle : Type := mkOracle {
  (* ClipIfDegenerate: IsShort || (CCW == 0 && dot > 0) *)
  o_degen : St -> nat -> bool;
  (* FindStart/AddPoint: v->pos.x > maxX && v->IsReflex ; args: first, current start, updated?, v *)
  o_newstart : St -> nat -> nat -> bool -> nat -> bool;
  (* FindStart: area < -minArea (used only when some start was accepted) *)
  o_hole : St -> nat -> nat -> bool;
  (* FindStart: area > minArea *)
  o_outer : St -> nat -> nat -> bool;
  (* position at which holes_.insert puts the new start (multiset ordered by pos.x) *)
  o_holepos : St -> list nat -> nat -> nat;
  (* CutKeyhole/CheckEdge accepts edge as the new connector; args: start, current connector, edge *)
  o_conn : St -> nat -> option nat -> nat -> bool;
  (* FindCloserBridge: initial connector is edge->right (true) or edge (false) *)
  o_bridge0 : St -> nat -> nat -> bool;
  (* FindCloserBridge: |connector.y - start.y| <= eps, early return *)
  o_bridge_early : St -> nat -> nat -> bool;
  (* FindCloserBridge/CheckVert: vert replaces connector; args: start, edge, connector, vert *)
  o_bridge : St -> nat -> nat -> nat -> nat -> bool;
  (* ProcessEar puts v into earsQueue_: IsShort || IsConvex(2 eps) *)
  o_cand : St -> nat -> bool;
  (* which element of the non-empty earsQueue_ is begin() (least cost) *)
  o_pick : St -> list nat -> nat
}.

Section WithOracle.
Variable orc : Oracle.

(* void ClipIfDegenerate(VertItr ear) — recursive; fuel bounds the depth *)
Fixpoint clipIfDegenerate (fuel : nat) (st : St) (e : nat) : option St :=
  match fuel with
  | O => None
  | S f =>
    c <- clipped st e ;;
    if c then Some st else
    l <- getL st e ;; r <- getR st e ;;
    if l =? r then Some st else
    if o_degen orc st e then
      st1 <- clipEar st e ;;
      l1 <- getL st1 e ;;
      st2 <- clipIfDegenerate f st1 l1 ;;
      r2 <- getR st2 e ;;
      clipIfDegenerate f st2 r2
    else Some st
  end.

(* template <typename F> VertItrC Loop(VertItr first, F func) const
   returns (vertices func was applied to, in order ; Some v = returned vertex | None = polygon_.end()) *)
Fixpoint loop_go (fuel : nat) (st : St) (first v : nat) (acc : list nat)
  : option (list nat * option nat) :=
  match fuel with
  | O => None
  | S f =>
    c <- clipped st v ;;
    '(first', acc', ended, vv) <-
      (if c then
         r <- getR st v ;; fl <- getL st r ;;
         c2 <- clipped st fl ;;
         if negb c2 then
           r2 <- getR st fl ;; l2 <- getL st fl ;;
           if r2 =? l2 then Some (fl, acc, true, fl) else Some (fl, acc ++ [fl], false, fl)
         else Some (fl, acc, false, v)
       else
         r <- getR st v ;; l <- getL st v ;;
         if r =? l then Some (first, acc, true, v) else Some (first, acc ++ [v], false, v)) ;;
    if (ended : bool) then Some (acc', None) else
    nv <- getR st vv ;;
    if nv =? first' then Some (acc', Some nv) else loop_go f st first' nv acc'
  end.
Definition loop (fuel : nat) (st : St) (first : nat) := loop_go fuel st first first [].

(* polygon_.push_back *)
Definition push (st : St) (x : vert) : option St :=
  if length (poly st) <? cap st then Some (setPoly st (poly st ++ [x])) else None.

(* Initialize: one contour *)
Fixpoint init_rest (st : St) (last : nat) (rest : list Z) : option (St * nat) :=
  match rest with
  | [] => Some (st, last)
  | m :: t =>
    let next := length (poly st) in
    st1 <- push st (mkVert m 0 0) ;;
    st2 <- link st1 last next ;;
    init_rest st2 next t
  end.
Definition init_poly (st : St) (p : list Z) : option (St * nat) :=
  match p with
  | [] => None                                   (* poly.begin() of an empty contour is dereferenced *)
  | m :: t =>
    let first := length (poly st) in
    st0 <- push st (mkVert m 0 0) ;;
    '(st1, last) <- init_rest st0 first t ;;
    st2 <- link st1 last first ;;
    Some (st2, first)
  end.
Fixpoint initialize (st : St) (polys : list (list Z)) : option (St * list nat) :=
  match polys with
  | [] => Some (st, [])
  | p :: ps =>
    '(st1, first) <- init_poly st p ;;
    '(st2, starts) <- initialize st1 ps ;;
    Some (st2, first :: starts)
  end.

(* for (VertItr v = polygon_.begin(); v != polygon_.end(); ++v) ClipIfDegenerate(v); *)
Fixpoint sweep (fuel : nat) (st : St) (vs : list nat) : option St :=
  match vs with
  | [] => Some st
  | v :: t => st1 <- clipIfDegenerate fuel st v ;; sweep fuel st1 t
  end.

Inductive FS : Type := FSdead | FShole (start : nat) | FSsimple (start : nat) (outer : bool).

Definition findStart (fuel : nat) (st : St) (first : nat) : option FS :=
  '(vis, res) <- loop fuel st first ;;
  match res with
  | None => Some FSdead
  | Some _ =>
    let '(start, updated) :=
      fold_left (fun su v => if o_newstart orc st first (fst su) (snd su) v then (v, true) else su)
                vis (first, false) in
    if (updated : bool) && o_hole orc st first start then Some (FShole start)
    else Some (FSsimple start (o_outer orc st first start))
  end.

Fixpoint insert_at {A} (k : nat) (x : A) (l : list A) : list A :=
  match k, l with
  | O, _ => x :: l
  | S j, h :: t => h :: insert_at j x t
  | S _, [] => [x]
  end.

(* for (first : starts_) FindStart(first)  ->  (holes_, outers_, simples_) *)
Fixpoint findStarts (fuel : nat) (st : St) (starts : list nat) (holes outers simples : list nat)
  : option (list nat * list nat * list nat) :=
  match starts with
  | [] => Some (holes, outers, simples)
  | f :: t =>
    r <- findStart fuel st f ;;
    match r with
    | FSdead => findStarts fuel st t holes outers simples
    | FShole s => findStarts fuel st t (insert_at (o_holepos orc st holes s) s holes) outers simples
    | FSsimple s outer =>
      findStarts fuel st t holes (if outer then outers ++ [s] else outers) (simples ++ [s])
    end
  end.

(* for (first : outers_) Loop(first, f) with f updating one captured variable *)
Fixpoint over_outers {A} (fuel : nat) (st : St) (outers : list nat) (f : A -> nat -> A) (a : A) : option A :=
  match outers with
  | [] => Some a
  | o :: t => '(vis, _) <- loop fuel st o ;; over_outers fuel st t f (fold_left f vis a)
  end.

(* void JoinPolygons(VertItr start, VertItr connector)
   ghost: nbad counts calls whose start or connector is clipped or whose connector is
   start->right (the code assumes two different live rings); njoin counts calls *)
Definition joinPolygons (fuel : nat) (st0 : St) (s c : nat) : option St :=
  cs <- clipped st0 s ;; cc <- clipped st0 c ;; sr0 <- getR st0 s ;;
  let st := addJoin (addBad st0 (cs || cc || (sr0 =? c))) in
  vs <- getV st s ;;
  let ns := length (poly st) in
  st1 <- push st vs ;;
  vc <- getV st1 c ;;
  let nc := length (poly st1) in
  st2 <- push st1 vc ;;
  sr <- getR st2 s ;; st3 <- setL st2 sr ns ;;        (* start->right->left = newStart *)
  cl <- getL st3 c ;; st4 <- setR st3 cl nc ;;        (* connector->left->right = newConnector *)
  st5 <- link st4 s c ;;
  st6 <- link st5 nc ns ;;
  st7 <- clipIfDegenerate fuel st6 s ;;
  st8 <- clipIfDegenerate fuel st7 ns ;;
  st9 <- clipIfDegenerate fuel st8 c ;;
  clipIfDegenerate fuel st9 nc.

(* void CutKeyhole(const VertItr start) ; returns the new state and whether
   start was pushed to simples_ ("hole did not find an outer contour") *)
Definition cutKeyhole (fuel : nat) (st : St) (outers : list nat) (start : nat) : option (St * bool) :=
  conn <- over_outers fuel st outers
            (fun c e => if o_conn orc st start c e then Some e else c) None ;;
  match conn with
  | None => Some (st, true)
  | Some edge =>
    c0 <- (if o_bridge0 orc st start edge then getR st edge else Some edge) ;;
    c1 <- (if o_bridge_early orc st start c0 then Some c0
           else over_outers fuel st outers
                  (fun c v => if o_bridge orc st start edge c v then v else c) c0) ;;
    st1 <- joinPolygons fuel st start c1 ;;
    Some (st1, false)
  end.

Fixpoint cutKeyholes (fuel : nat) (st : St) (outers holes simples : list nat)
  : option (St * list nat) :=
  match holes with
  | [] => Some (st, simples)
  | h :: t =>
    '(st1, lost) <- cutKeyhole fuel st outers h ;;
    cutKeyholes fuel st1 outers t (if (lost : bool) then simples ++ [h] else simples)
  end.

(* void ProcessEar(VertItr v, ...): erase v from earsQueue_ if present, re-insert if candidate *)
Definition processEar (st : St) (q : list nat) (v : nat) : list nat :=
  let q' := remove Nat.eq_dec v q in
  if o_cand orc st v then v :: q' else q'.

(* while (numTri > 0) { ... } *)
Fixpoint clip_loop (k : nat) (st : St) (q : list nat) (v : nat) : option St :=
  match k with
  | O => Some st
  | S k' =>
    let '(e, q1) :=
      match q with
      | [] => (v, q)                               (* "No ear found!": keep the backup vert *)
      | h :: _ => let e := nth (o_pick orc st q) q h in (e, remove Nat.eq_dec e q)
      end in
    l0 <- getL st e ;; r0 <- getR st e ;;
    st1 <- clipEar (addBad st (l0 =? r0)) e ;;     (* ghost: clipping a ring of <= 2 records *)
    l <- getL st1 e ;; r <- getR st1 e ;;
    let q2 := processEar st1 q1 l in
    let q3 := processEar st1 q2 r in
    clip_loop k' st1 q3 r
  end.

(* void TriangulatePoly(VertItr start) *)
Definition triangulatePoly (fuel : nat) (st : St) (start : nat) : option St :=
  '(vis, res) <- loop fuel st start ;;            (* BuildVertCollider and the QueueVert pass: same traversal *)
  match vis with
  | [] => Some st                                  (* "Empty poly" *)
  | _ =>
    let numTri := (Z.of_nat (length vis) - 2)%Z in
    let q := fold_left (processEar st) vis [] in
    match res with
    | None => Some st
    | Some v => clip_loop (Z.to_nat numTri) st q v
    end
  end.

Fixpoint triangulatePolys (fuel : nat) (st : St) (simples : list nat) : option St :=
  match simples with
  | [] => Some st
  | s :: t => st1 <- triangulatePoly fuel st s ;; triangulatePolys fuel st1 t
  end.

Definition numVert (polys : list (list Z)) : nat := fold_right (fun p s => length p + s) 0 polys.

(* HalfedgeTriangulation EarClip::Triangulate(polys, epsilon) — Reset gives the
   empty state; polygon_.reserve(numVert + 2 * polys.size()) *)
Definition reset (polys : list (list Z)) : St :=
  mkSt [] (numVert polys + 2 * length polys) [] 0 0 0 0.

Definition triangulate (fuel : nat) (polys : list (list Z)) : option St :=
  '(st1, starts) <- initialize (reset polys) polys ;;
  st2 <- sweep fuel st1 (seq 0 (length (poly st1))) ;;
  '(holes, outers, simples) <- findStarts fuel st2 starts [] [] [] ;;
  '(st3, simples') <- cutKeyholes fuel st2 outers holes simples ;;
  triangulatePolys fuel st3 simples'.

End WithOracle.

(* ------------------------------------------------------------------ *)
(* TriangulateConvex: alternating strip, no oracle *)

Fixpoint convex_go (fuel : nat) (p : list Z) (i k : nat) (right : bool) (acc : list tri) : option (list tri) :=
  match fuel with
  | O => None
  | S f =>
    if i + 1 <? k then
      let j := if right then i + 1 else k - 1 in
      a <- nth_error p i ;; b <- nth_error p j ;; c <- nth_error p k ;;
      convex_go f p (if right then j else i) (if right then k else j) (negb right) (acc ++ [(a, b, c)])
    else Some acc
  end.
Definition convex_poly (p : list Z) : option (list tri) :=
  match p with
  | [] => None                                   (* size() - 1 wraps *)
  | _ => convex_go (length p) p 0 (length p - 1) true []
  end.
Fixpoint triangulateConvex (polys : list (list Z)) : option (list tri) :=
  match polys with
  | [] => Some []
  | p :: ps => t <- convex_poly p ;; ts <- triangulateConvex ps ;; Some (t ++ ts)
  end.

(* ------------------------------------------------------------------ *)
(* HalfedgeTriangulation (start/end vertices only; the hash pairing is not modelled) *)

Definition het_contours (polys : list (list Z)) : chain := crev (contours polys).   (* AddHalfedge(end, start) *)
Definition het_halfedges (polys : list (list Z)) (ts : list tri) : chain :=
  het_contours polys ++ boundaries ts.
(* Triangles(): startVert of every third halfedge after contourEnd *)
Fixpoint het_triangles (h : chain) : list tri :=
  match h with
  | (a, _) :: (b, _) :: (c, _) :: t => (a, b, c) :: het_triangles t
  | _ => []
  end.

(* spec-level total accessors (default 0) used by invariants and theorems *)
Definition dv : vert := mkVert 0 0 0.
Definition Lf (st : St) (v : nat) : nat := vleft (nth v (poly st) dv).
Definition Rf (st : St) (v : nat) : nat := vright (nth v (poly st) dv).
Definition Mf (st : St) (v : nat) : Z := midx (nth v (poly st) dv).
Definition size (st : St) : nat := length (poly st).
Definition live (st : St) (v : nat) : bool := Lf st (Rf st v) =? v.
(* directed edges of the live circular lists, as mesh indices *)
Definition live_edges (st : St) : chain :=
  flat_map (fun v => if live st v then [(Mf st v, Mf st (Rf st v))] else []) (seq 0 (size st)).
Definition nlive (st : St) : nat := length (filter (live st) (seq 0 (size st))).
(* DEBUG_ASSERT(v->right == v->left) for every record still linked: every remaining ring has <= 2 records *)
Definition rings_closed (st : St) : bool :=
  forallb (fun v => negb (live st v) || (Rf st (Rf st v) =? v)) (seq 0 (size st)).

(* executable certificate for the state Initialize produces (evaluated on every replayed run):
   all structural invariants, every record live, no triangles yet, live edges = input contours *)
Definition inv_check (st : St) : bool :=
  forallb (fun v =>
    (Lf st v <? size st) && (Rf st v <? size st) &&
    (negb (live st v) || (Rf st (Lf st v) =? v)) &&
    (negb (live st v) || live st (Rf st v)) &&
    (negb (Lf st v =? v) || live st v)) (seq 0 (size st)).
Definition midx_check (ids : list Z) (st : St) : bool :=
  forallb (fun v => existsb (Z.eqb (Mf st v)) ids) (seq 0 (size st)).
Definition init_ok (polys : list (list Z)) (st : St) : bool :=
  inv_check st && midx_check (concat polys) st &&
  match tris st with [] => true | _ => false end &&
  (nclip st =? 0) && (nfilt st =? 0) && (njoin st =? 0) && (nbad st =? 0) &&
  (nlive st =? size st) && (size st =? numVert polys) &&
  chain_eqb (live_edges st) (contours polys).
