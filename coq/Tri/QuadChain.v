(* Path / fan algebra over the chain group of Base/Chain.v, used by the
   all-sizes proofs about PartitionFan and PartitionQuad (QuadModel.v). *)
From Coq Require Import ZArith List Bool Lia.
From MV Require Import Base.Chain Tri.PartitionDefs.
Import ListNotations.
Local Open Scope Z_scope.

(* for every edge1 term of the goal, make its antisymmetry available to lia *)
Ltac pose_swaps :=
  repeat match goal with
  | |- context [edge1 ?x ?y ?a ?b] =>
      lazymatch goal with
      | _ : edge1 y x a b = - edge1 x y a b |- _ => fail
      | _ => pose proof (edge1_swap x y a b)
      end
  end.

Lemma last_cons (l : list Z) : forall y x, last (y :: l) x = last l y.
Proof.
  induction l as [|z t IH]; intros y x; [reflexivity|].
  change (last (y :: z :: t) x) with (last (z :: t) x). rewrite !IH. reflexivity.
Qed.

Section Paths.
  Variables a b : Z.

  Definition pc (l : list Z) : Z := coef (path_edges l) a b.
  Definition e1 (x y : Z) : Z := edge1 x y a b.

  Lemma e1_swap x y : e1 y x = - e1 x y.
  Proof. apply edge1_swap. Qed.
  Lemma e1_loop x : e1 x x = 0.
  Proof. apply edge1_loop. Qed.

  Lemma pc_nil : pc [] = 0. Proof. reflexivity. Qed.
  Lemma pc_one x : pc [x] = 0. Proof. reflexivity. Qed.
  Lemma pc_cons2 x y r : pc (x :: y :: r) = e1 x y + pc (y :: r).
  Proof. unfold pc. rewrite path_edges_cons2. apply coef_cons. Qed.

  (* splitting a path at an inner vertex *)
  Lemma pc_app_mid l1 x l2 : pc (l1 ++ x :: l2) = pc (l1 ++ [x]) + pc (x :: l2).
  Proof.
    induction l1 as [|p t IH]; cbn [app].
    - rewrite pc_one. lia.
    - destruct t as [|q t'].
      + cbn [app]. rewrite !pc_cons2, pc_one. lia.
      + cbn [app] in *. rewrite !pc_cons2. rewrite IH. lia.
  Qed.

  Lemma pc_app_mid_t l1 x l2 t : pc ((l1 ++ x :: l2) ++ t) = pc (l1 ++ [x]) + pc ((x :: l2) ++ t).
  Proof. rewrite <- app_assoc. cbn [app]. apply pc_app_mid. Qed.

  Lemma pc_cons_app_mid c l1 x l2 : pc (c :: l1 ++ x :: l2) = pc (c :: l1 ++ [x]) + pc (x :: l2).
  Proof. apply (pc_app_mid (c :: l1) x l2). Qed.

  Lemma pc_snoc l x y : pc (l ++ [x; y]) = pc (l ++ [x]) + e1 x y.
  Proof. rewrite pc_app_mid, pc_cons2, pc_one. lia. Qed.

  Lemma pc_cons_snoc x l y : pc (x :: l ++ [y]) = pc (x :: l) + e1 (last l x) y.
  Proof.
    destruct (exists_last (l := x :: l) ltac:(discriminate)) as (p & z & Hp).
    change (x :: l ++ [y]) with ((x :: l) ++ [y]).
    assert (Hz : last l x = z) by (rewrite <- (last_cons l x x), Hp; apply last_last).
    rewrite Hz, Hp, <- app_assoc. cbn [app]. apply pc_snoc.
  Qed.

  Lemma pc_rev l : pc (rev l) = - pc l.
  Proof.
    induction l as [|x t IH]; [reflexivity|].
    destruct t as [|y t'].
    - reflexivity.
    - rewrite pc_cons2. cbn [rev] in *. rewrite <- app_assoc. cbn [app].
      rewrite pc_snoc, IH. rewrite (e1_swap x y). lia.
  Qed.

  Lemma coef_tri p q r : coef (boundary (p, q, r)) a b = e1 p q + e1 q r + e1 r p.
  Proof. apply coef_boundary. Qed.

  (* fans over a path: apex c, triangles (c, x, y) resp. (c, y, x) for the edges (x, y) of the path *)
  Definition fan_f (c : Z) (l : list Z) : list tri := map (fun e => (c, fst e, snd e)) (path_edges l).
  Definition fan_b (c : Z) (l : list Z) : list tri := map (fun e => (c, snd e, fst e)) (path_edges l).

  Lemma fan_f_coef c x l :
    coef (boundaries (fan_f c (x :: l))) a b = pc (x :: l) + e1 (last l x) c + e1 c x.
  Proof.
    revert x. induction l as [|y t IH]; intro x.
    - cbn. rewrite (e1_swap x c). unfold e1. lia.
    - unfold fan_f in *. rewrite path_edges_cons2. cbn [map fst snd].
      rewrite coef_boundaries_cons, coef_tri, IH, pc_cons2.
      rewrite last_cons.
      rewrite (e1_swap c y). lia.
  Qed.

  Lemma fan_b_coef c x l :
    coef (boundaries (fan_b c (x :: l))) a b = - pc (x :: l) + e1 x c + e1 c (last l x).
  Proof.
    revert x. induction l as [|y t IH]; intro x.
    - cbn. rewrite (e1_swap x c). unfold e1. lia.
    - unfold fan_b in *. rewrite path_edges_cons2. cbn [map fst snd].
      rewrite coef_boundaries_cons, coef_tri, IH, pc_cons2.
      rewrite last_cons.
      rewrite (e1_swap y c), (e1_swap y x). lia.
  Qed.

  (* PartitionFan's triangles: (x, y, c) for the edges (x, y) of the path *)
  Definition fan_r (c : Z) (l : list Z) : list tri := map (fun e => (fst e, snd e, c)) (path_edges l).
  Lemma fan_r_coef c x l :
    coef (boundaries (fan_r c (x :: l))) a b = pc (x :: l) + e1 (last l x) c + e1 c x.
  Proof.
    revert x. induction l as [|y t IH]; intro x.
    - cbn. rewrite (e1_swap x c). unfold e1. lia.
    - unfold fan_r in *. rewrite path_edges_cons2. cbn [map fst snd].
      rewrite coef_boundaries_cons, coef_tri, IH, pc_cons2.
      rewrite last_cons.
      rewrite (e1_swap c y). lia.
  Qed.
End Paths.

(* ------------------------------------------------------------------ *)
(* index ranges and the loops of the model                              *)

Fixpoint zrange (cnt : nat) (i step : Z) : list Z :=
  match cnt with O => [] | S c => i :: zrange c (i + step) step end.

Lemma zrange_length cnt i step : length (zrange cnt i step) = cnt.
Proof. revert i. induction cnt; intro i; cbn [zrange length]; auto. Qed.

Lemma zrange_app m1 m2 i step :
  zrange (m1 + m2) i step = zrange m1 i step ++ zrange m2 (i + step * Z.of_nat m1) step.
Proof.
  revert i. induction m1 as [|m IH]; intro i; cbn [zrange plus app].
  - f_equal. lia.
  - f_equal. rewrite IH. f_equal. f_equal. lia.
Qed.

Lemma zrange_S_last m i step : zrange (S m) i step = zrange m i step ++ [i + step * Z.of_nat m].
Proof. replace (S m) with (m + 1)%nat by lia. rewrite zrange_app. reflexivity. Qed.

Lemma in_zrange m i x : In x (zrange m i 1) <-> i <= x < i + Z.of_nat m.
Proof.
  revert i. induction m as [|m IH]; intro i; cbn [zrange In].
  - lia.
  - rewrite IH. lia.
Qed.

(* reversed unit-step range *)
Lemma zrange_rev m i : rev (zrange m i 1) = zrange m (i + Z.of_nat m - 1) (-1).
Proof.
  revert i. induction m as [|m IH]; intro i; [reflexivity|].
  rewrite zrange_S_last at 1. rewrite rev_app_distr. cbn [rev app zrange].
  f_equal; [lia|]. rewrite IH. f_equal. lia.
Qed.

Lemma map_zrange_ext (f g : Z -> Z) m i :
  (forall x, i <= x < i + Z.of_nat m -> f x = g x) -> map f (zrange m i 1) = map g (zrange m i 1).
Proof. intro H. apply map_ext_in. intros x Hx. apply H. apply in_zrange. exact Hx. Qed.

(* the accumulating loops: `for (...) { next = g(i); tv.push_back(T(last, next)); last = next; }` *)
Lemma loop_chain (T : Z -> Z -> tri) (g : Z -> Z) cnt : forall i step tv lst,
  zloop cnt i step (fun i '(tv, lst) => let next := g i in (tv ++ [T lst next], next)) (tv, lst) =
  (tv ++ map (fun e => T (fst e) (snd e)) (path_edges (lst :: map g (zrange cnt i step))),
   last (map g (zrange cnt i step)) lst).
Proof.
  induction cnt as [|c IH]; intros i step tv lst; cbn [zloop zrange map].
  - cbn. rewrite app_nil_r. reflexivity.
  - rewrite IH. rewrite path_edges_cons2. cbn [map fst snd]. rewrite <- app_assoc. cbn [app].
    f_equal. symmetry. apply last_cons.
Qed.
