(* C19 / simplify_counts -- the pairing invariant of the halfedge table used by
   the edge operations of SimplifyDefs.v, as an executable Boolean (pair_inv)
   and as a Prop (PairInv, Inv), plus the executable side conditions (guards)
   under which SimplifyInv.v proves the loops of CollapseEdge2 / SwapEdge.
   Definitions only, no proofs (see SimplifyInv.v).

   The invariant speaks about the `pair` column only (and the table length):
     (a) the number of halfedges is a multiple of 3;
     (b) every pair entry is -1 ("removed") or >= 0 ("live"), and a halfedge is
         live iff the next halfedge of its face is live  (face-uniform);
     (c) a live halfedge e with pair p satisfies p <> e and pair(p) = e
         (hence p is live and in range).
   Nothing is required of `start`, `prop`, nvert, nprop.                        *)
From Coq Require Import ZArith List Bool.
From MV Require Import Tri.SimplifyDefs.
Import ListNotations.
Local Open Scope Z_scope.

(* halfedge_.Valid(e), made total: out-of-range counts as not live *)
Definition hlive (s : state) (e : Z) : bool :=
  match h_pair s e with Some p => 0 <=? p | None => false end.

(* ---- executable invariant ------------------------------------------------- *)
Definition chk_he (s : state) (e : Z) : bool :=
  match h_pair s e with
  | None => false
  | Some p =>
      (if p <? 0 then p =? -1
       else negb (p =? e) &&
            match h_pair s p with Some q => q =? e | None => false end)
      && Bool.eqb (hlive s (next_he e)) (0 <=? p)
  end.

Definition pair_inv (s : state) : bool :=
  (slots s mod 3 =? 0) &&
  forallb (chk_he s) (map Z.of_nat (seq 0 (length (he s)))).

(* ---- Prop form -------------------------------------------------------------- *)
(* (c) at one halfedge *)
Definition ok (s : state) (e : Z) : Prop :=
  forall p, h_pair s e = Some p -> 0 <= p -> p <> e /\ h_pair s p = Some e.

(* (a) and (b) *)
Definition WF (s : state) : Prop :=
  slots s mod 3 = 0 /\
  forall e, 0 <= e < slots s ->
    (exists p, h_pair s e = Some p /\ -1 <= p) /\
    hlive s (next_he e) = hlive s e.

Definition PairInv (s : state) : Prop := WF s /\ forall e, ok s e.

(* The invariant with one tolerated exception x: between the two CollapseTri
   calls of CollapseEdge2 the halfedge x = tri0edge[0] is still live but its
   partner tri1edge[0] is already removed.  Clause 3: whatever x points to is
   not live (so nobody well-paired points back to x).  PairInv = Inv (-1).   *)
Definition Inv (x : Z) (s : state) : Prop :=
  WF s /\ (forall e, e <> x -> ok s e) /\
  (forall q, h_pair s x = Some q -> hlive s q = false).

(* liveness can only decrease *)
Definition mono (s s' : state) : Prop :=
  forall e, hlive s' e = true -> hlive s e = true.

Definition in_face (t0 j : Z) : Prop :=
  j = t0 \/ j = next_he t0 \/ j = next_he (next_he t0).

Definition in_faceb (t0 j : Z) : bool :=
  (j =? t0) || (j =? next_he t0) || (j =? next_he (next_he t0)).

(* ---- executable side conditions (guards) ----------------------------------- *)
(* FormLoop(current, end) is only analysed when  current and end are live
   halfedges different from the tolerated exception x, and are not each
   other's partner (otherwise PairUp(current, Pair(end)) would pair a halfedge
   with itself), and the faces that the trailing RemoveIfFolded(end) may remove
   -- the face of end and the face of its new partner Pair(current) -- do not
   contain x and are different faces.                                          *)
Definition form_loop_guard (s : state) (x current end_ : Z) : bool :=
  match h_pair s current, h_pair s end_ with
  | Some oldMatch, Some newMatch =>
      (0 <=? oldMatch) && (0 <=? newMatch) &&
      negb (current =? x) && negb (end_ =? x) &&
      negb (oldMatch =? end_) &&
      negb (in_faceb end_ x) && negb (in_faceb oldMatch x) &&
      negb (in_faceb end_ oldMatch)
  | _, _ => false
  end.

(* RemoveIfFolded(edge): the two faces are different and do not contain x *)
Definition rif_guard (s : state) (x edge : Z) : bool :=
  match h_pair s edge with
  | Some pe =>
      if pe <? 0 then true
      else negb (in_faceb edge pe) && negb (in_faceb edge x) && negb (in_faceb pe x)
  | None => false
  end.

(* SwapEdge's scan: same control flow as swap_scan, evaluating the guards at
   the (single) FormLoop / RemoveIfFolded it reaches *)
Fixpoint swap_scan_guard (fuel lf : nat) (s : state) (current stop endVert a2 : Z)
  : option bool :=
  if current =? stop then Some true
  else match fuel with
       | O => None
       | S f =>
           let c := next_he current in
           ve <- h_end s c ;;
           if ve =? endVert then
             if form_loop_guard s (-1) a2 c then
               s1 <- form_loop lf s a2 c ;;
               Some (rif_guard s1 (-1) a2)
             else Some false
           else
             p <- h_pair s c ;;
             swap_scan_guard f lf s p stop endVert a2
       end.

(* SwapEdge: edge live, edge and its pair in different faces, then the scan *)
Definition swap_edge_guard (fuel : nat) (s : state) (edge : Z) : option bool :=
  pair <- h_pair s edge ;;
  if (pair <? 0) || in_faceb edge pair then Some false
  else
  let '(a0, a1, a2) := tri_of edge in
  let '(b0, b1, b2) := tri_of pair in
  v <- h_start s b2 ;;
  s1 <- set_start s a0 v ;;
  v' <- h_start s1 a2 ;;
  s2 <- set_start s1 b0 v' ;;
  pb2 <- h_pair s2 b2 ;;
  s3 <- pair_up s2 a0 pb2 ;;
  pa2 <- h_pair s3 a2 ;;
  s4 <- pair_up s3 b0 pa2 ;;
  s5 <- pair_up s4 a2 b2 ;;
  s6 <- swap_props s5 a0 a1 a2 b0 b1 b2 ;;
  current <- h_pair s6 b0 ;;
  endVert <- h_end s6 b1 ;;
  swap_scan_guard fuel fuel s6 current a1 endVert a2.

(* CollapseEdge2's "Orbit startVert" loop: same control flow as orbit_start;
   at every FormLoop the guard above must hold with x = tri0edge[0] *)
Fixpoint orbit_start_guard (fuel lf : nat) (s : state) (x current stop start : Z)
         (edges : list Z) (sp0 ep0 sp1 ep1 : Z) : option bool :=
  if current =? stop then Some true
  else match fuel with
       | O => None
       | S f =>
           let c := next_he current in
           s1 <- (if 0 <? numprop s then
                    pc <- h_prop s c ;;
                    if pc =? sp0 then set_prop s c ep0
                    else if pc =? sp1 then set_prop s c ep1
                    else Some s
                  else Some s) ;;
           vert <- h_end s1 c ;;
           next <- h_pair s1 c ;;
           hit <- find_edge s1 vert edges 0 ;;
           match hit with
           | Some (i, e) =>
               if form_loop_guard s1 x e c then
                 s2 <- form_loop lf s1 e c ;;
                 orbit_start_guard f lf s2 x next stop next (firstn i edges) sp0 ep0 sp1 ep1
               else Some false
           | None =>
               orbit_start_guard f lf s1 x next stop start edges sp0 ep0 sp1 ep1
           end
       end.

(* CollapseEdge2: edge and pair in different faces; the orbit guard; the
   final RemoveIfFolded(start) guard *)
Definition collapse_edge2_guard (fuel : nat) (s : state) (edge : Z) (reject : bool)
  : option bool :=
  pair <- h_pair s edge ;;
  if pair <? 0 then Some true
  else
    let '(a0, a1, a2) := tri_of edge in
    let '(b0, b1, b2) := tri_of pair in
    if reject then Some true
    else
      c0 <- h_pair s a1 ;;
      edges <- orbit_end fuel s c0 b2 [] ;;
      sp0 <- h_prop s a0 ;;
      ep0 <- h_prop s a1 ;;
      sp1 <- h_prop s b1 ;;
      ep1 <- h_prop s b0 ;;
      start <- h_pair s b1 ;;
      endVert <- h_start s a1 ;;
      if in_faceb pair edge then Some false else
      s1 <- collapse_tri s (b0, b1, b2) ;;
      g <- orbit_start_guard fuel fuel s1 a0 start a2 start edges sp0 ep0 sp1 ep1 ;;
      if negb g then Some false else
      '(s2, start') <- orbit_start fuel fuel s1 start a2 start edges sp0 ep0 sp1 ep1 ;;
      s3 <- update_vert fuel s2 endVert start' a2 ;;
      s4 <- collapse_tri s3 (a0, a1, a2) ;;
      Some (rif_guard s4 (-1) start').

Definition run_op_guard (fuel : nat) (o : op) (s : state) : option bool :=
  match o with
  | OpCollapse e rej => collapse_edge2_guard fuel s e rej
  | OpSwap e => swap_edge_guard fuel s e
  end.

Fixpoint run_ops_guard (fuel : nat) (ops : list op) (s : state) : option bool :=
  match ops with
  | [] => Some true
  | o :: r =>
      g <- run_op_guard fuel o s ;;
      if g then s1 <- run_op fuel o s ;; run_ops_guard fuel r s1 else Some false
  end.
