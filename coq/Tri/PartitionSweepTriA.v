(* Finite sweep by vm_compute (one evaluation, at Qed). *)
From Coq Require Import ZArith List QArith.
From MV Require Import Tri.PartitionDefs Tri.PartitionCheck.
Local Open Scope Z_scope.
Lemma sweep_TriA : forallb key_tiles_exact (tri_keys_between 1 20) = true.
Proof. vm_cast_no_check (eq_refl true). Qed.
