(* C19 / simplify_counts -- executable Gallina port of the INTEGER bookkeeping of
   the edge operations used by Manifold::Impl::SimplifyTopology2
   (src/edge_op.cpp): PairUp, UpdateVert, FormLoop, CollapseTri, RemoveIfFolded,
   CollapseEdge2, SwapEdge, and of the one branch of DedupeEdge that grows
   halfedge_.  Model only: definitions, no proofs (see SimplifyModel.v).

   State.  he      : one entry (start vertex, paired halfedge, prop vertex) per
                     halfedge = the three SharedVec<int> of class Halfedges
                     (shared.h).  A removed halfedge has start = -1, pair = -1.
           nvert   : vertPos_.size().  Positions are NOT modelled: a write
                     `vertPos_[v] = ...` (NaN tombstone or newPos) and a read
                     `vertPos_[v]` are modelled only as the bounds check
                     0 <= v < nvert (else None); push_back is nvert + 1.
           numprop : NumProp() (constant during the pass).
           nprop   : properties_.size() / numProp, the number of property
                     vertices (properties_.size() is assumed to be a multiple
                     of numProp, as everywhere in the library).  Property VALUES
                     are not modelled; accesses properties_[numProp*i + p] are
                     modelled as the bounds check 0 <= i < nprop.
   Not modelled at all: faceNormal_, meshRelation_.triRef (SwapEdge copies entry
   tri1 to tri0; DedupeEdge push_backs one entry per new face), vertNormal_.
   C++ `int` is modelled by Z (no overflow modelling).  Release build: the
   DEBUG_ASSERT in UpdateVert is compiled out; the loop then simply continues,
   here until the fuel runs out.
   Out-of-bounds Vec::operator[] (negative or >= size) => None.  Loops take
   explicit fuel and return None when it runs out.  Geometric decisions are
   oracle arguments (`reject` in collapse_edge2).                              *)
From Coq Require Import ZArith List Bool.
Import ListNotations.
Local Open Scope Z_scope.

Definition bind {A B : Type} (o : option A) (f : A -> option B) : option B :=
  match o with Some a => f a | None => None end.
Notation "x <- e ;; k" := (bind e (fun x => k))
  (at level 61, e at next level, right associativity).
Notation "' p <- e ;; k" := (bind e (fun p => k))
  (at level 61, p pattern, e at next level, right associativity).

(* ---- bounds-checked indexing ------------------------------------------- *)
Definition getZ {A : Type} (l : list A) (i : Z) : option A :=
  if i <? 0 then None else nth_error l (Z.to_nat i).

Fixpoint set_nth {A : Type} (l : list A) (n : nat) (x : A) : option (list A) :=
  match l, n with
  | [], _ => None
  | _ :: t, O => Some (x :: t)
  | h :: t, S k => match set_nth t k x with Some t' => Some (h :: t') | None => None end
  end.

Definition setZ {A : Type} (l : list A) (i : Z) (x : A) : option (list A) :=
  if i <? 0 then None else set_nth l (Z.to_nat i) x.

(* ---- state -------------------------------------------------------------- *)
Definition hedge : Type := (Z * Z * Z)%type.   (* start, pair, prop *)
Definition hs (h : hedge) : Z := fst (fst h).
Definition hp (h : hedge) : Z := snd (fst h).
Definition hq (h : hedge) : Z := snd h.

Record state := mkState { he : list hedge; nvert : Z; numprop : Z; nprop : Z }.

Definition with_he (s : state) (l : list hedge) : state :=
  mkState l (nvert s) (numprop s) (nprop s).
Definition push_vert (s : state) : state :=
  mkState (he s) (nvert s + 1) (numprop s) (nprop s).
Definition push_prop (s : state) : state :=
  mkState (he s) (nvert s) (numprop s) (nprop s + 1).
Definition push_he (s : state) (a b c : Z) : state :=
  with_he s (he s ++ [(a, b, c)]).

(* vertPos_[v] read or written: only the bounds check *)
Definition chk_vert (s : state) (v : Z) : option unit :=
  if (0 <=? v) && (v <? nvert s) then Some tt else None.
(* properties_[numProp * i + p], 0 <= p < numProp: only the bounds check *)
Definition chk_prop (s : state) (i : Z) : option unit :=
  if (0 <=? i) && (i <? nprop s) then Some tt else None.

(* shared.h: C++ % truncates, so Z.rem *)
Definition next_he (c : Z) : Z := if Z.rem c 3 =? 2 then c - 2 else c + 1.
Definition prev_he (c : Z) : Z := if Z.rem c 3 =? 0 then c + 2 else c - 1.
(* edge_op.cpp TriOf *)
Definition tri_of (e : Z) : Z * Z * Z := (e, next_he e, next_he (next_he e)).

(* class Halfedges accessors *)
Definition h_start (s : state) (i : Z) : option Z := x <- getZ (he s) i ;; Some (hs x).
Definition h_pair (s : state) (i : Z) : option Z := x <- getZ (he s) i ;; Some (hp x).
Definition h_prop (s : state) (i : Z) : option Z := x <- getZ (he s) i ;; Some (hq x).
Definition h_end (s : state) (i : Z) : option Z := h_start s (next_he i).
Definition h_prop_end (s : state) (i : Z) : option Z := h_prop s (next_he i).

Definition set_start (s : state) (i v : Z) : option state :=
  x <- getZ (he s) i ;; l <- setZ (he s) i (v, hp x, hq x) ;; Some (with_he s l).
Definition set_pair (s : state) (i v : Z) : option state :=
  x <- getZ (he s) i ;; l <- setZ (he s) i (hs x, v, hq x) ;; Some (with_he s l).
Definition set_prop (s : state) (i v : Z) : option state :=
  x <- getZ (he s) i ;; l <- setZ (he s) i (hs x, hp x, v) ;; Some (with_he s l).
(* SetEnd(idx, v) is start_[NextHalfedge(idx)] = v *)
Definition set_end (s : state) (i v : Z) : option state := set_start s (next_he i) v.
(* Set(idx, start, pair, prop) *)
Definition set_all (s : state) (i a b c : Z) : option state :=
  l <- setZ (he s) i (a, b, c) ;; Some (with_he s l).

(* ---- Impl::PairUp (718) ------------------------------------------------- *)
Definition pair_up (s : state) (e0 e1 : Z) : option state :=
  s1 <- set_pair s e0 e1 ;; set_pair s1 e1 e0.

(* ---- Impl::UpdateVert (726) --------------------------------------------- *)
Fixpoint update_vert (fuel : nat) (s : state) (vert current endEdge : Z) : option state :=
  if current =? endEdge then Some s
  else match fuel with
       | O => None
       | S f =>
           s1 <- set_end s current vert ;;
           let c1 := next_he current in
           s2 <- set_start s1 c1 vert ;;
           c2 <- h_pair s2 c1 ;;
           update_vert f s2 vert c2 endEdge
       end.

(* ---- Impl::CollapseTri (758) -------------------------------------------- *)
Definition kill_keep_prop (s : state) (i : Z) : option state :=
  q <- h_prop s i ;; set_all s i (-1) (-1) q.

Definition collapse_tri (s : state) (t : Z * Z * Z) : option state :=
  let '(t0, t1, t2) := t in
  p1 <- h_pair s t1 ;;
  if p1 =? -1 then Some s
  else
    p2 <- h_pair s t2 ;;
    s1 <- pair_up s p1 p2 ;;
    s2 <- kill_keep_prop s1 t0 ;;
    s3 <- kill_keep_prop s2 t1 ;;
    kill_keep_prop s3 t2.

(* ---- Impl::RemoveIfFolded (768) ----------------------------------------- *)
Definition remove_if_folded (s : state) (edge : Z) : option state :=
  let '(a0, a1, a2) := tri_of edge in
  pe <- h_pair s edge ;;
  let '(b0, b1, b2) := tri_of pe in
  pa1 <- h_pair s a1 ;;
  if pa1 =? -1 then Some s
  else
    sa2 <- h_start s a2 ;;
    sb2 <- h_start s b2 ;;
    if negb (sa2 =? sb2) then Some s
    else
      pa2 <- h_pair s a2 ;;
      (* NaN tombstones: only bounds checks of the vertPos_ writes *)
      _ <- (if pa1 =? b2 then
              if pa2 =? b1 then
                v0 <- h_start s a0 ;; _ <- chk_vert s v0 ;;
                v1 <- h_start s a1 ;; _ <- chk_vert s v1 ;;
                chk_vert s sa2
              else v1 <- h_start s a1 ;; chk_vert s v1
            else
              if pa2 =? b1 then v1 <- h_start s b1 ;; chk_vert s v1
              else Some tt) ;;
      pb2 <- h_pair s b2 ;;
      s1 <- pair_up s pa1 pb2 ;;
      pa2' <- h_pair s1 a2 ;;
      pb1' <- h_pair s1 b1 ;;
      s2 <- pair_up s1 pa2' pb1' ;;
      s3 <- set_all s2 a0 (-1) (-1) (-1) ;;
      s4 <- set_all s3 b0 (-1) (-1) (-1) ;;
      s5 <- set_all s4 a1 (-1) (-1) (-1) ;;
      s6 <- set_all s5 b1 (-1) (-1) (-1) ;;
      s7 <- set_all s6 a2 (-1) (-1) (-1) ;;
      set_all s7 b2 (-1) (-1) (-1).

(* ---- Impl::FormLoop (740) ------------------------------------------------ *)
Definition form_loop (fuel : nat) (s : state) (current end_ : Z) : option state :=
  let startVert := nvert s in
  v0 <- h_start s current ;; _ <- chk_vert s v0 ;;
  let s := push_vert s in
  let endVert := nvert s in
  v1 <- h_end s current ;; _ <- chk_vert s v1 ;;
  let s := push_vert s in
  oldMatch <- h_pair s current ;;
  newMatch <- h_pair s end_ ;;
  s <- update_vert fuel s startVert oldMatch newMatch ;;
  s <- update_vert fuel s endVert end_ current ;;
  s <- pair_up s current newMatch ;;
  s <- pair_up s end_ oldMatch ;;
  remove_if_folded s end_.

(* ---- Impl::CollapseEdge2 (920) ------------------------------------------- *)
(* "Orbit endVert": collects the scratch vector `edges` *)
Fixpoint orbit_end (fuel : nat) (s : state) (current stop : Z) (edges : list Z)
  : option (list Z) :=
  if current =? stop then Some edges
  else match fuel with
       | O => None
       | S f =>
           let c := next_he current in
           p <- h_pair s c ;;
           orbit_end f s p stop (edges ++ [c])
       end.

(* for (i = 0; i < edges.size(); ++i) if (vert == End(edges[i])) {...; break;}
   returns the first hit (i, edges[i]); bounded by the vector, so structural. *)
Fixpoint find_edge (s : state) (vert : Z) (edges : list Z) (i : nat)
  : option (option (nat * Z)) :=
  match edges with
  | [] => Some None
  | e :: r =>
      ve <- h_end s e ;;
      if vert =? ve then Some (Some (i, e)) else find_edge s vert r (S i)
  end.

(* "Orbit startVert"; lf = fuel handed to the inner FormLoop.  Returns the
   state and the final value of `start`. *)
Fixpoint orbit_start (fuel lf : nat) (s : state) (current stop start : Z)
         (edges : list Z) (sp0 ep0 sp1 ep1 : Z) : option (state * Z) :=
  if current =? stop then Some (s, start)
  else match fuel with
       | O => None
       | S f =>
           let c := next_he current in
           s1 <- (if 0 <? numprop s then
                    pc <- h_prop s c ;;
                    if pc =? sp0 then set_prop s c ep0
                    else if pc =? sp1 then set_prop s c ep1
                    else Some s
                  else Some s) ;;
           vert <- h_end s1 c ;;
           next <- h_pair s1 c ;;
           hit <- find_edge s1 vert edges 0 ;;
           match hit with
           | Some (i, e) =>
               s2 <- form_loop lf s1 e c ;;
               orbit_start f lf s2 next stop next (firstn i edges) sp0 ep0 sp1 ep1
           | None =>
               orbit_start f lf s1 next stop start edges sp0 ep0 sp1 ep1
           end
       end.

(* reject = the verdict of the whole `if (!merger.Short()) {...}` block
   ("return false" from it); it only reads.  Returns (state, didCollapse). *)
Definition collapse_edge2 (fuel : nat) (s : state) (edge : Z) (reject : bool)
  : option (state * bool) :=
  pair <- h_pair s edge ;;
  if pair <? 0 then Some (s, false)
  else
    let '(a0, a1, a2) := tri_of edge in
    let '(b0, b1, b2) := tri_of pair in
    startVert <- h_start s a0 ;;
    endVert <- h_start s a1 ;;
    if reject then Some (s, false)
    else
      c0 <- h_pair s a1 ;;
      edges <- orbit_end fuel s c0 b2 [] ;;
      sp0 <- h_prop s a0 ;;
      ep0 <- h_prop s a1 ;;
      sp1 <- h_prop s b1 ;;
      ep1 <- h_prop s b0 ;;
      _ <- (if 0 <? numprop s then
              _ <- chk_prop s sp0 ;; _ <- chk_prop s ep0 ;;
              if negb (ep1 =? ep0) then _ <- chk_prop s sp1 ;; chk_prop s ep1
              else Some tt
            else Some tt) ;;
      start <- h_pair s b1 ;;
      _ <- chk_vert s startVert ;;
      _ <- chk_vert s endVert ;;
      s1 <- collapse_tri s (b0, b1, b2) ;;
      '(s2, start') <- orbit_start fuel fuel s1 start a2 start edges sp0 ep0 sp1 ep1 ;;
      s3 <- update_vert fuel s2 endVert start' a2 ;;
      s4 <- collapse_tri s3 (a0, a1, a2) ;;
      s5 <- remove_if_folded s4 start' ;;
      Some (s5, true).

(* ---- Impl::SwapEdge (261) ------------------------------------------------ *)
Fixpoint swap_scan (fuel lf : nat) (s : state) (current stop endVert a2 : Z)
  : option state :=
  if current =? stop then Some s
  else match fuel with
       | O => None
       | S f =>
           let c := next_he current in
           ve <- h_end s c ;;
           if ve =? endVert then
             s1 <- form_loop lf s a2 c ;;
             remove_if_folded s1 a2
           else
             p <- h_pair s c ;;
             swap_scan f lf s p stop endVert a2
       end.

Definition swap_props (s : state) (a0 a1 a2 b0 b1 b2 : Z) : option state :=
  if 0 <? numprop s then
    propIdx0 <- h_prop s b0 ;;
    propIdx1 <- h_prop s b1 ;;
    s1 <- set_prop s a1 propIdx0 ;;
    q2 <- h_prop s1 b2 ;;
    s2 <- set_prop s1 a0 q2 ;;
    pa1 <- h_pair s2 a1 ;;
    pe <- h_prop_end s2 pa1 ;;
    if propIdx0 =? pe then
      mid <- h_prop s2 pa1 ;;
      s3 <- set_prop s2 b0 mid ;; set_prop s3 a2 mid
    else
      pb0 <- h_pair s2 b0 ;;
      q <- h_prop s2 pb0 ;;
      if propIdx1 =? q then
        mid <- h_prop_end s2 pb0 ;;
        s3 <- set_prop s2 b0 mid ;; set_prop s3 a2 mid
      else
        (* numProp > 0 here: the body of for (p < numProp) runs at least once *)
        let newProp := nprop s2 in
        _ <- chk_prop s2 propIdx0 ;;
        _ <- chk_prop s2 propIdx1 ;;
        let s3 := push_prop s2 in
        s4 <- set_prop s3 b0 newProp ;; set_prop s4 a2 newProp
  else Some s.

Definition swap_edge (fuel : nat) (s : state) (edge : Z) : option state :=
  pair <- h_pair s edge ;;
  let '(a0, a1, a2) := tri_of edge in
  let '(b0, b1, b2) := tri_of pair in
  v <- h_start s b2 ;;
  s1 <- set_start s a0 v ;;
  v' <- h_start s1 a2 ;;
  s2 <- set_start s1 b0 v' ;;
  pb2 <- h_pair s2 b2 ;;
  s3 <- pair_up s2 a0 pb2 ;;
  pa2 <- h_pair s3 a2 ;;
  s4 <- pair_up s3 b0 pa2 ;;
  s5 <- pair_up s4 a2 b2 ;;
  s6 <- swap_props s5 a0 a1 a2 b0 b1 b2 ;;
  current <- h_pair s6 b0 ;;
  endVert <- h_end s6 b1 ;;
  swap_scan fuel fuel s6 current a1 endVert a2.

(* ---- the operation sequence of SimplifyTopology2's sorted loop ---------- *)
Inductive op := OpCollapse (edge : Z) (reject : bool) | OpSwap (edge : Z).

Definition run_op (fuel : nat) (o : op) (s : state) : option state :=
  match o with
  | OpCollapse e rej => '(s', _) <- collapse_edge2 fuel s e rej ;; Some s'
  | OpSwap e => swap_edge fuel s e
  end.

Fixpoint run_ops (fuel : nat) (ops : list op) (s : state) : option state :=
  match ops with
  | [] => Some s
  | o :: r => s1 <- run_op fuel o s ;; run_ops fuel r s1
  end.

(* ---- counts -------------------------------------------------------------- *)
Definition slots (s : state) : Z := Z.of_nat (length (he s)).

(* sort.cpp GetFaceBoxMorton: `if (halfedge_.Pair(3 * face) < 0)` the face gets
   kNoCode and SortFaces drops it; so a face survives iff Pair(3*face) >= 0
   (= halfedge_.Valid(3 * face)). *)
Definition live_tri (s : state) (t : Z) : bool :=
  match h_pair s (3 * t) with Some p => 0 <=? p | None => false end.

(* NumTri() after SortGeometry: the faces t < halfedge_.size()/3 that survive *)
Definition num_live (s : state) : Z :=
  Z.of_nat (length (filter (fun t => live_tri s (Z.of_nat t))
                           (seq 0 (Nat.div (length (he s)) 3)))).

(* ---- DedupeEdge (632): the body of `if (vert == startVert) {...}`, the ONLY
   place where an edge operation grows halfedge_ (6 push_backs = 2 faces).
   `current` is the loop variable at the hit; nextEdge = NextHalfedge(edge);
   endVert = Start(nextEdge); endProp = Prop(nextEdge).                      *)
Definition dedupe_split (fuel : nat) (s : state) (nextEdge current endVert endProp : Z)
  : option state :=
  let newVert := nvert s in
  _ <- chk_vert s endVert ;;
  let s := push_vert s in
  pc <- h_pair s (next_he current) ;;
  let current := pc in
  opposite <- h_pair s nextEdge ;;
  s <- update_vert fuel s newVert current opposite ;;
  let newHalfedge := slots s in
  outsideVert <- h_start s current ;;
  let s := push_he s endVert (-1) endProp in
  let s := push_he s newVert (-1) endProp in
  q <- h_prop s current ;;
  let s := push_he s outsideVert (-1) q in
  p <- h_pair s current ;;
  s <- pair_up s (newHalfedge + 2) p ;;
  s <- pair_up s (newHalfedge + 1) current ;;
  let newHalfedge := newHalfedge + 3 in
  outsideVert <- h_start s opposite ;;
  let s := push_he s newVert (-1) endProp in
  let s := push_he s endVert (-1) endProp in
  q <- h_prop s opposite ;;
  let s := push_he s outsideVert (-1) q in
  p <- h_pair s opposite ;;
  s <- pair_up s (newHalfedge + 2) p ;;
  s <- pair_up s (newHalfedge + 1) opposite ;;
  pair_up s newHalfedge (newHalfedge - 3).

(* ---- concrete meshes for the non-vacuity examples ------------------------ *)
(* tetrahedron, faces (0,2,1) (0,3,2) (0,1,3) (1,2,3); prop = start, numProp 0 *)
Definition tetra : state :=
  mkState [ (0,5,0); (2,9,2); (1,6,1);
            (0,8,0); (3,10,3); (2,0,2);
            (0,2,0); (1,11,1); (3,3,3);
            (1,1,1); (2,4,2); (3,7,3) ] 4 0 0.

(* octahedron = halfedge_ of Manifold::Sphere(1, 4) as built by the library
   (8 faces, 6 verts); prop = start, numProp 0 *)
Definition octa : state :=
  mkState [ (0,7,0); (2,12,2); (1,3,1);
            (0,2,0); (1,17,1); (3,10,3);
            (4,19,4); (2,0,2); (0,9,0);
            (4,8,4); (0,5,0); (3,22,3);
            (1,1,1); (2,18,2); (5,15,5);
            (1,14,1); (5,23,5); (3,4,3);
            (5,13,5); (2,6,2); (4,21,4);
            (5,20,5); (4,11,4); (3,16,3) ] 6 0 0.
