(* GetCachedPartition, triangle patterns for ALL n0 >= n1 >= n2 >= 1: whenever
   the ported function returns, the boundary chain of its triangles is the
   subdivided outline of the triangle.  The obtuse branch depends on two
   numbers computed in double precision (ns, nh): the theorem needs
   1 <= ns and (n2 = 1 -> nh = 1) about them (`split_ok`, decidable; it is
   checked by evaluation for every key of the swept range).               *)
From Coq Require Import ZArith List Bool Lia Floats.
From MV Require Import Base.Chain Tri.PartitionDefs Tri.QuadChain Tri.QuadModel.
Import ListNotations.
Local Open Scope Z_scope.

(* the branch test of line 191 and "the obtuse branch is taken" *)
Definition acute_test (n0 n1 n2 : Z) : bool :=
  PrimFloat.ltb (PrimFloat.sub (f_of_Z (n2 * n2 + n0 * n0))
                               (PrimFloat.mul (PrimFloat.mul (PrimFloat.sqrt 2%float) (f_of_Z n0)) (f_of_Z n2)))
                (f_of_Z (n1 * n1)).
Definition obtuse_branch (n0 n1 n2 : Z) : bool := negb (n1 =? 1) && negb (acute_test n0 n1 n2).

Definition split_ok (n0 n1 n2 : Z) : Prop :=
  obtuse_branch n0 n1 n2 = true ->
  match obtuse_split n0 n1 n2 with
  | Some (ns, nh) => 1 <= ns /\ (n2 = 1 -> nh = 1)
  | None => True
  end.

Definition split_okb (n0 n1 n2 : Z) : bool :=
  negb (obtuse_branch n0 n1 n2) ||
  match obtuse_split n0 n1 n2 with
  | Some (ns, nh) => (1 <=? ns) && (negb (n2 =? 1) || (nh =? 1))
  | None => true
  end.

Lemma split_okb_ok n0 n1 n2 : split_okb n0 n1 n2 = true -> split_ok n0 n1 n2.
Proof.
  unfold split_okb, split_ok. intros H Hb. rewrite Hb in H. cbn [negb orb] in H.
  destruct (obtuse_split n0 n1 n2) as [[ns nh]|]; [|trivial].
  rewrite andb_true_iff, orb_true_iff, negb_true_iff, Z.leb_le, Z.eqb_neq, Z.eqb_eq in H. destruct H as [H1 H2].
  split; [exact H1|]. intro E. destruct H2; [contradiction|assumption].
Qed.

(* the local outline of a triangle pattern: corners 0,1,2; side i has n_i - 1 vertices *)
Definition tri_outline (n0 n1 n2 : Z) : list Z :=
  [0] ++ srun 3 true (n0 - 1) ++ [1] ++ srun (3 + n0 - 1) true (n1 - 1) ++ [2] ++ srun (3 + n0 - 1 + n1 - 1) true (n2 - 1).

Lemma gv_0 o f : gv o f 0 = o.
Proof. unfold gv. destruct f; lia. Qed.
Lemma gv_true o k : gv o true k = o + k.
Proof. unfold gv. lia. Qed.

Lemma srun_cons o f m : 0 < m -> srun o f m = o :: srun (gv o f 1) f (m - 1).
Proof.
  intro Hm. replace m with (1 + (m - 1)) at 1 by lia. rewrite srun_app by lia.
  change (srun o f 1) with [gv o f 0]. rewrite gv_0. reflexivity.
Qed.

Lemma zlen_app {A} (l1 l2 : list A) : zlen (l1 ++ l2) = zlen l1 + zlen l2.
Proof. unfold zlen. rewrite app_length. lia. Qed.

Lemma edge_verts_len T tl x y ni : zlen (edge_verts T tl x y ni) = Z.max 0 (ni - 1).
Proof.
  unfold edge_verts.
  assert (G : forall cnt i (l : list (bary T)),
             zlen (zloop cnt i 1 (fun j l => l ++ [lerp4 T tl x y j ni]) l) = zlen l + Z.of_nat cnt).
  { induction cnt as [|c IH]; intros i l; cbn [zloop]; [lia|]. rewrite IH, zlen_app. unfold zlen. cbn [length]. lia. }
  rewrite G. unfold zlen. cbn [length]. lia.
Qed.

Section AB3.
  Variables a b : Z.
  Notation pc := (pc a b).
  Notation e1 := (e1 a b).
  Notation spath := (spath a b).

  Definition TW (n0 n1 n2 : Z) : Z :=
    spath 0 3 true (n0 - 1) 1 + spath 1 (3 + n0 - 1) true (n1 - 1) 2 + spath 2 (3 + n0 - 1 + n1 - 1) true (n2 - 1) 0.

  Lemma TW_contour n0 n1 n2 : coef (contour (tri_outline n0 n1 n2)) a b = TW n0 n1 n2.
  Proof.
    unfold tri_outline, contour, TW, QuadModel.spath. cbn [app].
    change (coef (path_edges ?l) a b) with (pc l).
    repeat (rewrite <- app_assoc; cbn [app]).
    rewrite (pc_cons_app_mid a b 0 (srun 3 true (n0 - 1)) 1).
    rewrite (pc_cons_app_mid a b 1 (srun (3 + n0 - 1) true (n1 - 1)) 2). try lia.
  Qed.

  (* split a side at its j-th new vertex *)
  Lemma spath_split x o f n y j : 0 <= j < n ->
    spath x o f n y = spath x o f j (gv o f j) + spath (gv o f j) (gv o f (j + 1)) f (n - j - 1) y.
  Proof.
    intro H. unfold QuadModel.spath. replace n with (j + (n - j)) at 1 by lia. rewrite srun_app by lia.
    rewrite (srun_cons (gv o f j) f (n - j)) by lia. rewrite gv_gv.
    rewrite <- app_assoc. cbn [app].
    rewrite (pc_cons_app_mid a b x (srun o f j) (gv o f j)). repeat f_equal; try lia.
  Qed.

  Lemma spath_first x o f n y : 0 < n -> spath x o f n y = e1 x o + spath o (gv o f 1) f (n - 1) y.
  Proof.
    intro H. rewrite (spath_split x o f n y 0) by lia. rewrite spath_zero, gv_0. do 2 f_equal. lia.
  Qed.

  Lemma spath_last x o f n y : 0 < n -> spath x o f n y = spath x o f (n - 1) (gv o f (n - 1)) + e1 (gv o f (n - 1)) y.
  Proof.
    intro H. rewrite (spath_split x o f n y (n - 1)) by lia.
    replace (n - (n - 1) - 1) with 0 by lia. rewrite spath_zero. reflexivity.
  Qed.

  Lemma fan_run o n : map (fun i => o + i) (zrange (Z.to_nat n) 0 1) = srun o true n.
  Proof. unfold srun. apply map_ext. intro i. rewrite gv_true. reflexivity. Qed.
End AB3.

Section Tri.
  Variable T : Type.
  Variables tzero tone : T.
  Variable tlerp : T -> T -> Z -> Z -> T.

  Lemma quadW fuel vb cv eo ea fwd tv vb' a b :
    partition_quad T tlerp fuel vb cv eo ea fwd = Some (tv, vb') ->
    nonneg4 ea /\ coef (boundaries tv) a b = W a b cv eo ea fwd.
  Proof.
    intro H. destruct (partition_quad_chain T tlerp fuel vb cv eo ea fwd tv vb' H) as [Hn Hw]. split; [exact Hn|apply Hw].
  Qed.

  Lemma tri_obtuse_chain n0 n1 n2 vb0 ns nh vb tv :
    2 <= n1 -> 1 <= n2 -> zlen vb0 = 3 + n0 - 1 + n1 - 1 + n2 - 1 ->
    1 <= ns -> (n2 = 1 -> nh = 1) ->
    tri_obtuse T tlerp (V4 n0 n1 n2 0) vb0 ns nh = Some (vb, tv) ->
    forall a b, coef (boundaries tv) a b = TW a b n0 n1 n2.
  Proof.
    intros H1 H2 Hlen Hns Hnh Hob a b.
    unfold tri_obtuse in Hob. cbn [c0 c1 c2 c3] in Hob.
    destruct (vget vb0 (3 + ns - 1)) as [mb|]; [|discriminate].
    destruct (vget vb0 2) as [b2|]; [|discriminate].
    destruct (partition_quad T tlerp _ _ _ _ _ _) as [[tv1 vb2]|] eqn:E1 in Hob; [|discriminate].
    destruct (quadW _ _ _ _ _ _ _ _ a b E1) as [N1 W1].
    unfold nonneg4 in N1. cbn [c0 c1 c2 c3] in N1. destruct N1 as (_ & _ & Nh & Ns).
    unfold W in W1. cbn [c0 c1 c2 c3] in W1. rewrite spath_zero in W1.
    set (eo1 := 3 + n0 - 1) in *. set (eo2 := 3 + n0 - 1 + n1 - 1) in *. set (hO := zlen vb0) in *.
    set (M := 3 + ns - 1) in *.
    (* the outline, cut at the vertices the pieces use *)
    assert (S0 : spath a b 0 3 true (n0 - 1) 1 =
                 spath a b 0 3 true (ns - 1) M + spath a b M (3 + ns) true (n0 - ns - 2) (eo1 - 1) + e1 a b (eo1 - 1) 1).
    { rewrite (spath_split a b 0 3 true (n0 - 1) 1 (ns - 1)) by lia. rewrite !gv_true.
      replace (3 + (ns - 1)) with M by (unfold M; lia). replace (3 + (ns - 1 + 1)) with (3 + ns) by lia.
      replace (n0 - 1 - (ns - 1) - 1) with (n0 - ns - 1) by lia.
      rewrite (spath_last a b M (3 + ns) true (n0 - ns - 1) 1) by lia. rewrite !gv_true.
      replace (n0 - ns - 1 - 1) with (n0 - ns - 2) by lia.
      replace (3 + ns + (n0 - ns - 2)) with (eo1 - 1) by (unfold eo1; lia). lia. }
    assert (S1 : spath a b 1 eo1 true (n1 - 1) 2 = e1 a b 1 eo1 + spath a b eo1 (eo1 + 1) true (n1 - 2) 2).
    { rewrite spath_first by lia. rewrite gv_true. replace (n1 - 1 - 1) with (n1 - 2) by lia. reflexivity. }
    unfold TW. change (3 + n0 - 1 + n1 - 1) with eo2. change (3 + n0 - 1) with eo1. rewrite S0, S1.
    destruct (n2 =? 1) eqn:En2.
    - (* fan under the height line *)
      apply Z.eqb_eq in En2. injection Hob as <- <-. specialize (Hnh En2). subst nh n2.
      cbn [app]. rewrite coef_boundaries_cons, coef_boundaries_app, coef_tri, W1.
      rewrite partition_fan_coef, fan_run. fold (spath a b 0 3 true (ns - 1) M).
      rewrite !spath_zero. unfold e1, QuadChain.e1. pose_swaps. lia.
    - apply Z.eqb_neq in En2.
      destruct (ns =? 1) eqn:Ens.
      + apply Z.eqb_eq in Ens. subst ns.
        destruct (partition_quad T tlerp _ _ _ _ _ _) as [[tv2 vb3]|] eqn:E2 in Hob; [|discriminate].
        injection Hob as <- <-.
        destruct (quadW _ _ _ _ _ _ _ _ a b E2) as [N2 W2].
        unfold nonneg4 in N2. cbn [c0 c1 c2 c3] in N2. destruct N2 as (_ & Nn2 & _ & Nh2).
        unfold W in W2. cbn [c0 c1 c2 c3] in W2. replace (1 - 1) with 0 in * by lia. rewrite !spath_zero in W2.
        cbn [app]. rewrite coef_boundaries_cons, coef_boundaries_app, coef_boundaries_cons, !coef_tri, W1, W2.
        replace (hO + nh - 2) with ((hO + 1) + (nh - 2) - 1) by lia.
        rewrite (spath_rev a b hO (hO + 1) (nh - 2) 3 Nh2).
        rewrite (spath_first a b 2 hO true (nh - 1) M) by lia. rewrite gv_true.
        replace (nh - 1 - 1) with (nh - 2) by lia.
        rewrite (spath_first a b 2 eo2 true (n2 - 1) 0) by lia. rewrite gv_true.
        replace (n2 - 1 - 1) with (n2 - 2) by lia.
        rewrite !spath_zero. replace M with 3 by (unfold M; lia).
        try change (eo1 + n1 - 1) with eo2.
        unfold e1, QuadChain.e1. pose_swaps. lia.
      + apply Z.eqb_neq in Ens.
        destruct (partition_quad T tlerp _ _ _ _ _ _) as [[tv2 vb3]|] eqn:E2 in Hob; [|discriminate].
        injection Hob as <- <-.
        destruct (quadW _ _ _ _ _ _ _ _ a b E2) as [N2 W2].
        unfold nonneg4 in N2. cbn [c0 c1 c2 c3] in N2. destruct N2 as (_ & Nns & Nh2 & Nn2).
        unfold W in W2. cbn [c0 c1 c2 c3] in W2. rewrite !spath_zero in W2.
        cbn [app]. rewrite coef_boundaries_cons, coef_boundaries_app, coef_boundaries_cons, !coef_tri, W1, W2.
        replace (hO + nh - 2) with (hO + (nh - 1) - 1) by lia.
        rewrite (spath_rev a b 2 hO (nh - 1) M Nh2).
        rewrite (spath_first a b 0 3 true (ns - 1) M) by lia. rewrite gv_true.
        replace (ns - 1 - 1) with (ns - 2) by lia.
        rewrite (spath_last a b 2 eo2 true (n2 - 1) 0) by lia. rewrite gv_true.
        replace (n2 - 1 - 1) with (n2 - 2) by lia.
        replace (eo2 + (n2 - 2)) with (hO - 1) by (unfold hO, eo2; lia).
        fold M. try change (eo1 + n1 - 1) with eo2.
        unfold e1, QuadChain.e1. pose_swaps. lia.
  Qed.

  Theorem tri_partition_chain n0 n1 n2 vb tv :
    1 <= n2 <= n1 -> n1 <= n0 ->
    cached_partition T tzero tone tlerp (V4 n0 n1 n2 0) = Some (vb, tv) ->
    split_ok n0 n1 n2 ->
    forall a b, coef (boundaries tv) a b = TW a b n0 n1 n2.
  Proof.
    intros H2 H1 Hc Hs a b.
    unfold cached_partition in Hc. cbv beta iota zeta delta [c0 c1 c2 c3] in Hc.
    change (0 >? 0) with false in Hc. cbv iota in Hc.
    destruct (n1 =? 1) eqn:En1.
    - apply Z.eqb_eq in En1. assert (n2 = 1) by lia. subst n1 n2.
      destruct (n0 =? 1) eqn:En0.
      + apply Z.eqb_eq in En0. subst n0. injection Hc as <- <-.
        cbn [boundaries flat_map]. rewrite app_nil_r, coef_tri. unfold TW. rewrite !spath_zero. lia.
      + injection Hc as <- <-. rewrite partition_fan_coef, fan_run. unfold TW.
        replace (1 - 1) with 0 by lia. rewrite !spath_zero. unfold QuadModel.spath. lia.
    - match type of Hc with context [PrimFloat.ltb ?x ?y] => change (PrimFloat.ltb x y) with (acute_test n0 n1 n2) in Hc end.
      assert (Hob : acute_test n0 n1 n2 = false -> obtuse_branch n0 n1 n2 = true)
        by (intro E; unfold obtuse_branch; rewrite En1, E; reflexivity).
      apply Z.eqb_neq in En1.
      destruct (acute_test n0 n1 n2) in Hc, Hob.
      + (* acute-ish *)
        destruct (partition_quad T tlerp _ _ _ _ _ _) as [[tv1 vb1]|] eqn:E1 in Hc; [|discriminate].
        pose proof (f_equal (fun o => match o with Some (_, t) => t | None => [] end) Hc) as Htv.
        cbv beta iota in Htv. subst tv. clear Hc.
        destruct (quadW _ _ _ _ _ _ _ _ a b E1) as [N1 W1].
        unfold nonneg4 in N1. cbv beta iota delta [c0 c1 c2 c3] in N1. destruct N1 as (_ & _ & _ & Nn0).
        unfold W in W1. cbv beta iota delta [c0 c1 c2 c3] in W1. rewrite spath_zero in W1.
        rewrite coef_boundaries_cons, coef_tri, W1. unfold TW.
        set (eo1 := 3 + n0 - 1) in *. set (eo2 := 3 + n0 - 1 + n1 - 1) in *.
        rewrite (spath_last a b 0 3 true (n0 - 1) 1) by lia. rewrite gv_true.
        replace (n0 - 1 - 1) with (n0 - 2) by lia. replace (3 + (n0 - 2)) with (eo1 - 1) by (unfold eo1; lia).
        rewrite (spath_first a b 1 eo1 true (n1 - 1) 2) by lia. rewrite gv_true.
        replace (n1 - 1 - 1) with (n1 - 2) by lia.
        try change (eo1 + n1 - 1) with eo2. try change (3 + n0 - 1 + n1 - 1) with eo2.
        unfold e1, QuadChain.e1. pose_swaps. lia.
      + (* obtuse *)
        unfold split_ok in Hs. specialize (Hs (Hob eq_refl)).
        destruct (obtuse_split n0 n1 n2) as [[ns nh]|]; [|discriminate].
        destruct Hs as [Hns Hnh].
        refine (tri_obtuse_chain n0 n1 n2 _ ns nh vb tv ltac:(lia) ltac:(lia) _ Hns Hnh Hc a b).
        rewrite !zlen_app, !edge_verts_len. unfold zlen. cbn [length]. lia.
  Qed.

  (* quad patterns: immediate from the PartitionQuad theorem *)
  Theorem quad_partition_chain n0 n1 n2 n3 vb tv :
    0 < n3 ->
    cached_partition T tzero tone tlerp (V4 n0 n1 n2 n3) = Some (vb, tv) ->
    ceq (boundaries tv)
        (contour (qoutline (V4 0 1 2 3) (V4 4 (4 + n0 - 1) (4 + n0 - 1 + n1 - 1) (4 + n0 - 1 + n1 - 1 + n2 - 1))
                           (V4 (n0 - 1) (n1 - 1) (n2 - 1) (n3 - 1)) (V4 true true true true))).
  Proof.
    intros H3 Hc. unfold cached_partition in Hc. cbn [c0 c1 c2 c3] in Hc.
    replace (n3 >? 0) with true in Hc by (symmetry; apply Z.gtb_lt; lia).
    destruct (partition_quad T tlerp _ _ _ _ _ _) as [[tv1 vb1]|] eqn:E1 in Hc; [|discriminate].
    injection Hc as <- <-. exact (partition_quad_tiles_lemma T tlerp _ _ _ _ _ _ _ _ E1).
  Qed.
End Tri.
