(* Finite sweeps by vm_compute: Refine(n) counts, terminal quads, two-triangle Reindex composition. *)
From Coq Require Import ZArith List QArith.
From MV Require Import Tri.PartitionDefs Tri.PartitionCheck.
From MV Require Tri.TriModel.
Import ListNotations.
Local Open Scope Z_scope.
Lemma sweep_uniform : forallb uniform_count_ok (zseq 1 64) = true.
Proof. vm_cast_no_check (eq_refl true). Qed.
Lemma sweep_terminal : forallb (fun ea => forallb (quad_terminal_ok ea) bool4s) (terminal_eas 10) = true.
Proof. vm_cast_no_check (eq_refl true). Qed.
Lemma sweep_two_tri : forallb (fun '(d, a1, a2, b1, b2) => two_tri_ok d a1 a2 b1 b2) (five_tuples 5) = true.
Proof. vm_cast_no_check (eq_refl true). Qed.
Lemma sweep_split_ok : forallb (fun k => TriModel.split_okb (c0 k) (c1 k) (c2 k)) (tri_keys 24) = true.
Proof. vm_cast_no_check (eq_refl true). Qed.
