(* Tri/EarClipRings.v — the ring decomposition of the live records (ghost state) and the
   proof that the ghost conditions nbad = 0 / rings_closed hold for every oracle. *)
From Coq Require Import ZArith List Bool Arith Lia Permutation.
From MV Require Import Base.Chain Tri.EarClipDefs Tri.EarClipModel Tri.EarClipInit.
Import ListNotations.

(* consecutive elements are linked by ->right *)
Fixpoint rpath (st : St) (l : list nat) : Prop :=
  match l with
  | a :: ((b :: _) as t) => Rf st a = b /\ rpath st t
  | _ => True
  end.

Lemma rpath_cons st a l :
  rpath st (a :: l) <-> (match l with [] => True | b :: _ => Rf st a = b end) /\ rpath st l.
Proof. destruct l as [|b t]; cbn [rpath]; tauto. Qed.

Lemma rpath_app_r st l1 l2 : rpath st (l1 ++ l2) -> rpath st l2.
Proof.
  induction l1 as [|a t IH]; [auto|]. cbn [app]. intros H. apply rpath_cons in H. apply IH, H.
Qed.
Lemma rpath_app_l st l1 l2 : rpath st (l1 ++ l2) -> rpath st l1.
Proof.
  induction l1 as [|a t IH]; [cbn; auto|]. cbn [app]. intros H. apply rpath_cons in H. destruct H as [H1 H2].
  apply rpath_cons. split; [|apply IH, H2]. destruct t as [|b t']; [exact I|]. exact H1.
Qed.
Lemma rpath_snoc st l a b : rpath st (l ++ [a]) -> Rf st a = b -> rpath st (l ++ [a; b]).
Proof.
  induction l as [|x t IH]; intros H Hab.
  - cbn. auto.
  - cbn [app] in *. apply rpath_cons in H. destruct H as [H1 H2]. apply rpath_cons. split; [|apply IH; assumption].
    destruct t as [|y t']; cbn [app] in *; exact H1.
Qed.
(* only the ->right fields of the elements that have a successor in l matter *)
Lemma rpath_ext st st' l :
  (forall v, In v (removelast l) -> Rf st' v = Rf st v) -> rpath st l -> rpath st' l.
Proof.
  induction l as [|a t IH]; intros He H; [exact I|].
  destruct t as [|b t']; [exact I|].
  cbn [rpath] in *. destruct H as [H1 H2]. split.
  - rewrite He; [exact H1|]. cbn. left; reflexivity.
  - apply IH; [|exact H2]. intros v Hv. apply He. cbn [removelast] in *. right. exact Hv.
Qed.
(* element followed by its successor *)
Lemma rpath_next st p a b s : rpath st (p ++ a :: b :: s) -> Rf st a = b.
Proof. intros H. apply rpath_app_r in H. cbn [rpath] in H. tauto. Qed.

(* ring k as a list: no repetition, all live records of label k, each linked to the next,
   the last to the first *)
Definition Cyc (st : St) (rid : nat -> nat) (k : nat) (r : list nat) : Prop :=
  NoDup r /\ (forall v, In v r -> v < size st /\ rid v = k /\ live st v = true) /\
  rpath st (r ++ [hd 0 r]).

Lemma Cyc_nil st rid k : Cyc st rid k [].
Proof. split; [constructor|]. split; [intros v []|exact I]. Qed.

Lemma Cyc_rotate st rid k x t : Cyc st rid k (x :: t) -> Cyc st rid k (t ++ [x]).
Proof.
  intros (Hn & He & Hp). split; [|split].
  - apply (Permutation_NoDup (Permutation_cons_append t x)). exact Hn.
  - intros v Hv. apply He. apply in_app_or in Hv. destruct Hv as [Hv|[->|[]]]; [right; exact Hv|left; reflexivity].
  - cbn [hd app] in Hp. destruct t as [|y t'].
    + cbn. cbn in Hp. auto.
    + cbn [app] in Hp. apply rpath_cons in Hp. destruct Hp as [H1 H2].
      assert (E : ((y :: t') ++ [x]) ++ [hd 0 ((y :: t') ++ [x])] = (y :: t') ++ [x; y])
        by (cbn [hd app]; rewrite <- app_assoc; reflexivity).
      rewrite E. apply rpath_snoc; [exact H2|exact H1].
Qed.

Lemma Cyc_rot_to st rid k : forall p x s, Cyc st rid k (p ++ x :: s) -> Cyc st rid k (x :: s ++ p).
Proof.
  induction p as [|a p IH]; intros x s H.
  - rewrite app_nil_r. exact H.
  - cbn [app] in H. apply Cyc_rotate in H. rewrite <- app_assoc in H. cbn [app] in H.
    apply IH in H. rewrite <- app_assoc in H. exact H.
Qed.

(* any element can be brought to the front *)
Lemma Cyc_front st rid k r x :
  Cyc st rid k r -> In x r ->
  exists t, Cyc st rid k (x :: t) /\ (forall y, In y (x :: t) <-> In y r) /\ length (x :: t) = length r.
Proof.
  intros H Hx. apply in_split in Hx. destruct Hx as (p & s & ->).
  exists (s ++ p). split; [apply Cyc_rot_to, H|]. split.
  - intros y. cbn [In]. rewrite !in_app_iff. cbn [In]. tauto.
  - cbn [length]. rewrite !app_length. cbn [length]. lia.
Qed.

(* successor / predecessor facts in a ring given with x in front *)
Lemma Cyc_succ st rid k x t : Cyc st rid k (x :: t) -> Rf st x = hd x t.
Proof.
  intros (_ & _ & Hp). cbn [hd app] in Hp. destruct t as [|y t']; cbn [app hd] in *.
  - cbn in Hp. tauto.
  - cbn [rpath] in Hp. tauto.
Qed.
Lemma Cyc_pred st rid k x t0 z :
  Inv st -> Cyc st rid k (x :: t0 ++ [z]) -> Rf st z = x /\ Lf st x = z.
Proof.
  intros I (_ & He & Hp). cbn [hd] in Hp.
  replace ((x :: t0 ++ [z]) ++ [x]) with ((x :: t0) ++ [z; x]) in Hp by (cbn; rewrite <- app_assoc; reflexivity).
  apply rpath_app_r in Hp. cbn [rpath] in Hp. destruct Hp as [HR _]. split; [exact HR|].
  assert (Hin : In z (x :: t0 ++ [z])) by (right; apply in_or_app; right; left; reflexivity).
  destruct (He _ Hin) as (_ & _ & Hl). apply live_spec in Hl. rewrite HR in Hl. exact Hl.
Qed.

(* in a ring of at least three records the two neighbours differ; in a smaller one they agree *)
Lemma Cyc_big st rid k r x :
  Inv st -> Cyc st rid k r -> In x r -> 3 <= length r -> Lf st x <> Rf st x.
Proof.
  intros I H Hx Hlen. destruct (Cyc_front _ _ _ _ _ H Hx) as (t & Hc & _ & Hl).
  cbn [length] in Hl. destruct (exists_last (l := t)) as (t0 & z & ->); [destruct t; [cbn in Hl; lia|discriminate]|].
  destruct (Cyc_pred _ _ _ _ _ _ I Hc) as [_ HL]. pose proof (Cyc_succ _ _ _ _ _ Hc) as HR.
  rewrite HL, HR. destruct t0 as [|y t1].
  - rewrite app_length in Hl. cbn in Hl. lia.
  - cbn [app hd]. destruct Hc as (Hn & _). inversion Hn as [|? ? _ Hn2]; subst.
    inversion Hn2 as [|? ? Hy _]; subst. intros E. apply Hy. rewrite <- E. apply in_or_app. right. left. reflexivity.
Qed.
Lemma Cyc_small st rid k r x :
  Inv st -> Cyc st rid k r -> In x r -> length r <= 2 -> Lf st x = Rf st x /\ Rf st (Rf st x) = x.
Proof.
  intros I H Hx Hlen. destruct (Cyc_front _ _ _ _ _ H Hx) as (t & Hc & _ & Hl).
  cbn [length] in Hl. destruct t as [|y [|z t']]; [| |cbn in Hl; lia].
  - pose proof (Cyc_succ _ _ _ _ _ Hc) as HR. cbn [hd] in HR.
    destruct Hc as (_ & He & _). destruct (He x (or_introl eq_refl)) as (_ & _ & Hlv).
    apply live_spec in Hlv. rewrite HR in Hlv. rewrite HR, Hlv. auto.
  - pose proof (Cyc_succ _ _ _ _ _ Hc) as HR. cbn [hd] in HR.
    destruct (Cyc_pred st rid k x [] y I Hc) as [HRy HL]. rewrite HR, HL, HRy. auto.
Qed.

(* ------------------------------------------------------------------ *)
(* the ghost invariant: labels and one ring list per label *)

Record GInv (st : St) (rid : nat -> nat) (ring : nat -> list nat) : Prop := mkGInv {
  GI_inv : Inv st;
  GI_lab : forall v, v < size st -> rid (Rf st v) = rid v /\ rid (Lf st v) = rid v;
  GI_cyc : forall k, Cyc st rid k (ring k);
  GI_cov : forall v, v < size st -> live st v = true -> In v (ring (rid v));
  (* clip times (termination of Loop from a clipped start): the ->right chain of clipped records
     has strictly increasing clip times until it reaches a live record *)
  GI_ct : exists ct : nat -> nat, forall v, v < size st -> live st v = false ->
            ct v < nclip st /\ (live st (Rf st v) = true \/ ct v < ct (Rf st v))
}.

Lemma GInv_in_live st rid ring k v : GInv st rid ring -> In v (ring k) -> v < size st /\ rid v = k /\ live st v = true.
Proof. intros G Hv. destruct (GI_cyc _ _ _ G k) as (_ & He & _). apply He, Hv. Qed.

(* rings only shrink inside label k *)
Definition Shrink (k : nat) (ring ring' : nat -> list nat) : Prop :=
  (forall j, j <> k -> ring' j = ring j) /\
  incl (ring' k) (ring k) /\ length (ring' k) <= length (ring k) /\
  (2 <= length (ring k) -> 2 <= length (ring' k)).
Lemma Shrink_refl k ring : Shrink k ring ring.
Proof. repeat split; auto. apply incl_refl. Qed.
Lemma Shrink_trans k a b c : Shrink k a b -> Shrink k b c -> Shrink k a c.
Proof.
  intros (A1 & A2 & A3 & A4) (B1 & B2 & B3 & B4). repeat split.
  - intros j Hj. rewrite B1, A1; auto.
  - eapply incl_tran; eauto.
  - lia.
  - auto.
Qed.

Lemma clipEar_ring st rid ring e st' :
  GInv st rid ring -> e < size st -> live st e = true -> Lf st e <> Rf st e ->
  clipEar st e = Some st' ->
  exists ring', GInv st' rid ring' /\
    (forall j, j <> rid e -> ring' j = ring j) /\
    (forall x, In x (ring' (rid e)) <-> In x (ring (rid e)) /\ x <> e) /\
    S (length (ring' (rid e))) = length (ring (rid e)).
Proof.
  intros G He Hl Hne Hc. pose proof (GI_inv _ _ _ G) as I.
  pose proof (clipEar_live st e st' I Hl Hne Hc) as Hlive.
  pose proof (clipEar_inv st e st' Hc) as Hci. cbv zeta in Hci.
  destruct Hci as (_ & Hlb & Hrb & Hs & HR & HL & _ & _ & _ & _ & Hnclip & _).
  destruct (ear_distinct st e I He Hl Hne) as (Hle & Hre & Hrl & Hlr).
  set (k := rid e). set (l := Lf st e) in *. set (r := Rf st e) in *.
  destruct (GI_lab _ _ _ G e He) as [Lr Ll]. fold l in Ll. fold r in Lr. fold k in Lr, Ll.
  assert (Hll : live st l = true) by (apply (Inv_llive st e I He Hl)).
  pose proof (GI_cov _ _ _ G l Hlb Hll) as Hin. rewrite Ll in Hin.
  destruct (Cyc_front _ _ _ _ _ (GI_cyc _ _ _ G k) Hin) as (t & Hcy & Hmem & Hlen).
  pose proof (Cyc_succ _ _ _ _ _ Hcy) as Hsucc. rewrite Hrl in Hsucc.
  destruct t as [|x t']; [cbn in Hsucc; congruence|]. cbn [hd] in Hsucc. subst x.
  exists (fun j => if j =? k then l :: t' else ring j).
  destruct Hcy as (Hnd & Hel & Hp).
  assert (Hnd' : NoDup (l :: t')).
  { apply NoDup_cons_iff in Hnd. destruct Hnd as [H1 H2]. apply NoDup_cons_iff in H2. destruct H2 as [H3 H4].
    constructor; [|exact H4]. intros Hx. apply H1. right. exact Hx. }
  assert (He_notin : ~ In e (l :: t')).
  { apply NoDup_cons_iff in Hnd. destruct Hnd as [H1 H2]. apply NoDup_cons_iff in H2. destruct H2 as [H3 H4].
    intros [E|Hx]; [congruence|contradiction]. }
  split; [|split; [|split]].
  - constructor.
    + apply (clipEar_Inv st e st' I Hl Hne Hc).
    + rewrite Hs. intros v Hv. rewrite HR, HL. destruct (GI_lab _ _ _ G v Hv) as [A B].
      split.
      * destruct (Nat.eqb_spec v l) as [Evl|]; [subst v; congruence|exact A].
      * destruct (Nat.eqb_spec v r) as [Evr|]; [subst v; congruence|exact B].
    + intros j. destruct (Nat.eqb_spec j k) as [->|Hjk].
      * split; [exact Hnd'|]. split.
        -- intros v Hv. destruct (Hel v) as (A & B & C).
           { destruct Hv as [->|Hv]; [left; reflexivity|right; right; exact Hv]. }
           rewrite Hs. split; [exact A|]. split; [exact B|]. rewrite Hlive.
           destruct (Nat.eqb_spec v e) as [->|]; [contradiction|exact C].
        -- cbn [hd app]. cbn [hd app] in Hp. apply rpath_cons in Hp. destruct Hp as [_ Hp].
           apply rpath_cons in Hp. destruct Hp as [Hp1 Hp2].
           apply rpath_cons. split.
           ++ rewrite HR, Nat.eqb_refl. destruct (t' ++ [l]); [constructor|exact Hp1].
           ++ apply (rpath_ext st); [|exact Hp2]. intros v Hv. rewrite removelast_last in Hv.
              rewrite HR. destruct (Nat.eqb_spec v l) as [Evl|]; [subst v|reflexivity].
              apply NoDup_cons_iff in Hnd'. destruct Hnd' as [H1 _]. contradiction.
      * destruct (GI_cyc _ _ _ G j) as (A & B & C). split; [exact A|]. split.
        -- intros v Hv. destruct (B v Hv) as (B1 & B2 & B3). rewrite Hs. split; [exact B1|]. split; [exact B2|].
           rewrite Hlive. destruct (Nat.eqb_spec v e) as [->|]; [fold k in B2; congruence|exact B3].
        -- apply (rpath_ext st); [|exact C]. intros v Hv. rewrite removelast_last in Hv.
           rewrite HR. destruct (Nat.eqb_spec v l) as [Evl|]; [subst v|reflexivity].
           destruct (B l Hv) as (_ & B2 & _). congruence.
    + rewrite Hs. intros v Hv Hlv. rewrite Hlive in Hlv.
      destruct (Nat.eqb_spec v e) as [|Hve]; [discriminate|].
      pose proof (GI_cov _ _ _ G v Hv Hlv) as Hin'.
      destruct (Nat.eqb_spec (rid v) k) as [E|E]; [|exact Hin'].
      rewrite E in Hin'. apply Hmem in Hin'. destruct Hin' as [->|[->|Hx]]; [left; reflexivity|congruence|right; exact Hx].
    + destruct (GI_ct _ _ _ G) as (ct & Hct).
      exists (fun v => if v =? e then nclip st else ct v).
      rewrite Hs, Hnclip. intros v Hv Hlv. rewrite Hlive in Hlv. cbv beta.
      destruct (Nat.eqb_spec v e) as [Eve|Hve].
      * subst v. split; [lia|]. left. rewrite HR. destruct (Nat.eqb_spec e l); [congruence|]. fold r.
        rewrite Hlive. destruct (Nat.eqb_spec r e); [congruence|]. apply (I_rlive st I e He Hl).
      * destruct (Hct v Hv Hlv) as [A B]. split; [lia|].
        assert (Hvl : v <> l) by (intros Evl; rewrite Evl in Hlv; congruence).
        rewrite HR. destruct (Nat.eqb_spec v l); [contradiction|]. rewrite Hlive.
        destruct (Nat.eqb_spec (Rf st v) e) as [Ee|Ene].
        -- right. lia.
        -- destruct B as [B|B]; [left; exact B|right; exact B].
  - intros j Hj. destruct (Nat.eqb_spec j k); [contradiction|reflexivity].
  - intros x. rewrite Nat.eqb_refl. split.
    + intros Hx. split.
      * apply Hmem. destruct Hx as [->|Hx]; [left; reflexivity|right; right; exact Hx].
      * intros ->. contradiction.
    + intros [Hx Hxe]. apply Hmem in Hx. destruct Hx as [->|[->|Hx]]; [left; reflexivity|congruence|right; exact Hx].
  - rewrite Nat.eqb_refl. cbn [length] in *. lia.
Qed.

Lemma ring_size_of_ear st rid ring e :
  GInv st rid ring -> e < size st -> live st e = true -> Lf st e <> Rf st e -> 3 <= length (ring (rid e)).
Proof.
  intros G He Hl Hne. destruct (Nat.le_gt_cases (length (ring (rid e))) 2) as [Hle|]; [|lia].
  exfalso. apply Hne.
  apply (Cyc_small st rid (rid e) (ring (rid e)) e (GI_inv _ _ _ G) (GI_cyc _ _ _ G _) (GI_cov _ _ _ G e He Hl) Hle).
Qed.

Section RingOps.
Variable orc : Oracle.

Lemma clipIfDegenerate_ring fuel : forall st rid ring e st',
  GInv st rid ring -> clipIfDegenerate orc fuel st e = Some st' ->
  nbad st' = nbad st /\ njoin st' = njoin st /\ size st' = size st /\
  exists ring', GInv st' rid ring' /\ Shrink (rid e) ring ring'.
Proof.
  induction fuel as [|f IH]; intros st rid ring e st' G H; [discriminate|].
  cbn [clipIfDegenerate] in H. unfold bind in H.
  destruct (clipped st e) as [c|] eqn:Ec; [|discriminate].
  apply clipped_inv in Ec. destruct Ec as (He & Hr & ->).
  destruct (live st e) eqn:Hl; cbn [negb] in H.
  2:{ inversion H; subst. repeat split; auto. exists ring. split; [exact G|apply Shrink_refl]. }
  destruct (getL st e) as [l|] eqn:El; [|discriminate].
  destruct (getR st e) as [r|] eqn:Er; [|discriminate].
  apply getL_inv in El. destruct El as [_ ->]. apply getR_inv in Er. destruct Er as [_ ->].
  destruct (Nat.eqb_spec (Lf st e) (Rf st e)) as [E|Hne].
  { inversion H; subst. repeat split; auto. exists ring. split; [exact G|apply Shrink_refl]. }
  destruct (o_degen orc st e).
  2:{ inversion H; subst. repeat split; auto. exists ring. split; [exact G|apply Shrink_refl]. }
  destruct (clipEar st e) as [st1|] eqn:Ece; [|discriminate].
  destruct (getL st1 e) as [l1|] eqn:El1; [|discriminate].
  destruct (clipIfDegenerate orc f st1 l1) as [st2|] eqn:E2; [|discriminate].
  destruct (getR st2 e) as [r2|] eqn:Er2; [|discriminate].
  pose proof (clipEar_inv st e st1 Ece) as Hci. cbv zeta in Hci.
  destruct Hci as (_ & _ & _ & Hs1 & _ & _ & _ & _ & Hnj1 & Hnb1 & _).
  destruct (clipEar_ring st rid ring e st1 G He Hl Hne Ece) as (ring1 & G1 & F1 & M1 & L1).
  pose proof (ring_size_of_ear st rid ring e G He Hl Hne) as Hbig.
  assert (Sh1 : Shrink (rid e) ring ring1).
  { split; [exact F1|]. split; [intros x Hx; apply M1 in Hx; tauto|]. split; lia. }
  apply getL_inv in El1. destruct El1 as [He1 ->].
  destruct (GI_lab _ _ _ G1 e He1) as [_ Lab1].
  destruct (IH _ _ _ _ _ G1 E2) as (Hnb2 & Hnj2 & Hs2 & ring2 & G2 & Sh2). rewrite Lab1 in Sh2.
  apply getR_inv in Er2. destruct Er2 as [He2 ->].
  destruct (GI_lab _ _ _ G2 e He2) as [Lab2 _].
  destruct (IH _ _ _ _ _ G2 H) as (Hnb3 & Hnj3 & Hs3 & ring3 & G3 & Sh3). rewrite Lab2 in Sh3.
  split; [congruence|]. split; [congruence|]. split; [congruence|].
  exists ring3. split; [exact G3|]. eapply Shrink_trans; [exact Sh1|]. eapply Shrink_trans; eassumption.
Qed.

Lemma sweep_ring fuel : forall vs st rid ring st',
  GInv st rid ring -> sweep orc fuel st vs = Some st' ->
  nbad st' = nbad st /\ njoin st' = njoin st /\ size st' = size st /\
  exists ring', GInv st' rid ring' /\
    (forall k, incl (ring' k) (ring k)) /\ (forall k, 2 <= length (ring k) -> 2 <= length (ring' k)).
Proof.
  induction vs as [|v t IH]; intros st rid ring st' G H; cbn [sweep] in H.
  - inversion H; subst. repeat split; auto. exists ring. split; [exact G|]. split; [intros k; apply incl_refl|auto].
  - unfold bind in H. destruct (clipIfDegenerate orc fuel st v) as [st1|] eqn:E; [|discriminate].
    destruct (clipIfDegenerate_ring _ _ _ _ _ _ G E) as (A1 & A2 & A3 & ring1 & G1 & (S1 & S2 & S3 & S4)).
    destruct (IH _ _ _ _ G1 H) as (B1 & B2 & B3 & ring2 & G2 & C1 & C2).
    split; [congruence|]. split; [congruence|]. split; [congruence|].
    exists ring2. split; [exact G2|]. split.
    + intros k. eapply incl_tran; [apply C1|]. destruct (Nat.eq_dec k (rid v)) as [->|Hk]; [exact S2|rewrite S1 by exact Hk; apply incl_refl].
    + intros k Hk. apply C2. destruct (Nat.eq_dec k (rid v)) as [->|Hk']; [auto|rewrite S1 by exact Hk'; exact Hk].
Qed.
End RingOps.

(* ------------------------------------------------------------------ *)
(* Loop visits exactly the ring of its start *)

Lemma clipped_some st v : v < size st -> Rf st v < size st -> clipped st v = Some (negb (live st v)).
Proof.
  intros Hv Hr. unfold clipped, bind. rewrite (getR_some st v Hv), (getL_some st _ Hr). reflexivity.
Qed.

Lemma loop_go_normal st rid k f t :
  Inv st -> Cyc st rid k (f :: t) -> 3 <= length (f :: t) ->
  forall suf pre acc fuel vis res, f :: t = pre ++ suf -> suf <> [] ->
  loop_go fuel st f (hd 0 suf) acc = Some (vis, res) -> vis = acc ++ suf /\ res = Some f.
Proof.
  intros I Hc Hlen. induction suf as [|v suf' IH]; intros pre acc fuel vis res E Hne H; [congruence|].
  destruct fuel as [|fu]; [discriminate|]. cbn [hd] in H. cbn [loop_go] in H.
  pose proof Hc as (Hnd & Hel & Hp). cbn [hd] in Hp.
  assert (Hvin : In v (f :: t)) by (rewrite E; apply in_or_app; right; left; reflexivity).
  destruct (Hel v Hvin) as (Hv & _ & Hlv). destruct (I_bound st I v Hv) as [Hlb Hrb].
  rewrite (clipped_some st v Hv Hrb), Hlv in H. cbn [negb bind] in H.
  rewrite (getR_some st v Hv), (getL_some st v Hv) in H. cbn [bind] in H.
  pose proof (Cyc_big st rid k (f :: t) v I Hc Hvin Hlen) as Hbig.
  destruct (Nat.eqb_spec (Rf st v) (Lf st v)) as [Eq|_]; [congruence|].
  cbn [bind] in H. rewrite (getR_some st v Hv) in H. cbn [bind] in H.
  rewrite E in Hp. rewrite <- app_assoc in Hp. cbn [app] in Hp.
  destruct suf' as [|w suf''].
  - cbn [app] in Hp. pose proof (rpath_next _ _ _ _ _ Hp) as HR. rewrite HR, Nat.eqb_refl in H.
    inversion H; subst. auto.
  - cbn [app] in Hp. pose proof (rpath_next _ _ _ _ _ Hp) as HR. rewrite HR in H.
    assert (Hwf : w <> f).
    { assert (Hwt : In w t).
      { destruct pre as [|a pre']; cbn [app] in E; injection E as _ Et; rewrite Et.
        - left; reflexivity.
        - apply in_or_app. right. right. left. reflexivity. }
      intros Ew. apply NoDup_cons_iff in Hnd. destruct Hnd as [Hn _]. apply Hn. rewrite <- Ew. exact Hwt. }
    destruct (Nat.eqb_spec w f) as [|_]; [contradiction|].
    destruct (IH (pre ++ [v]) (acc ++ [v]) fu vis res) as [A B].
    + rewrite <- app_assoc. exact E.
    + discriminate.
    + exact H.
    + split; [|exact B]. rewrite A, <- app_assoc. reflexivity.
Qed.

Definition LoopSpec (r vis : list nat) (res : option nat) : Prop :=
  (length r <= 2 /\ vis = [] /\ res = None) \/
  (3 <= length r /\ NoDup vis /\ (forall x, In x vis <-> In x r) /\ length vis = length r /\
   exists f, res = Some f /\ In f r).

Lemma loop_go_ring st rid ring (G : GInv st rid ring) fuel : forall first v vis res,
  v < size st -> (first = v \/ live st v = false) ->
  loop_go fuel st first v [] = Some (vis, res) -> LoopSpec (ring (rid v)) vis res.
Proof.
  pose proof (GI_inv _ _ _ G) as I.
  induction fuel as [|fu IH]; intros first v vis res Hv Hmode H; [discriminate|].
  destruct (I_bound st I v Hv) as [Hlb Hrb].
  destruct (live st v) eqn:Hlv.
  - destruct Hmode as [->|]; [|discriminate].
    pose proof (GI_cov _ _ _ G v Hv Hlv) as Hin.
    destruct (Nat.le_gt_cases (length (ring (rid v))) 2) as [Hsm|Hbig].
    + left. cbn [loop_go] in H.
      rewrite (clipped_some st v Hv Hrb), Hlv in H. cbn [negb bind] in H.
      rewrite (getR_some st v Hv), (getL_some st v Hv) in H. cbn [bind] in H.
      destruct (Cyc_small st rid _ _ v I (GI_cyc _ _ _ G _) Hin Hsm) as [Eq _].
      rewrite Eq, Nat.eqb_refl in H. inversion H; subst. auto.
    + right. destruct (Cyc_front _ _ _ _ _ (GI_cyc _ _ _ G (rid v)) Hin) as (t & Hc & Hmem & Hlen).
      destruct (loop_go_normal st rid (rid v) v t I Hc ltac:(lia) (v :: t) [] [] (S fu) vis res eq_refl ltac:(discriminate) H) as [A B].
      cbn [app] in A. subst vis res. split; [lia|]. split; [apply Hc|]. split; [exact Hmem|]. split; [exact Hlen|].
      exists v. split; [reflexivity|exact Hin].
  - cbn [loop_go] in H.
    rewrite (clipped_some st v Hv Hrb), Hlv in H. cbn [negb bind] in H.
    rewrite (getR_some st v Hv) in H. cbn [bind] in H. rewrite (getL_some st _ Hrb) in H. cbn [bind] in H.
    set (y := Rf st v) in *. set (fl := Lf st y) in *.
    destruct (I_bound st I y Hrb) as [Hfl Hry].
    destruct (GI_lab _ _ _ G v Hv) as [Laby _]. destruct (GI_lab _ _ _ G y Hrb) as [_ Labfl].
    fold y in Laby. fold fl in Labfl.
    destruct (I_bound st I fl Hfl) as [Hlfl Hrfl].
    rewrite (clipped_some st fl Hfl Hrfl) in H. cbn [bind] in H.
    destruct (live st fl) eqn:Hlf; cbn [negb] in H.
    + rewrite (getR_some st fl Hfl), (getL_some st fl Hfl) in H. cbn [bind] in H.
      assert (Hr : ring (rid v) = ring (rid fl)) by (f_equal; congruence). rewrite Hr.
      pose proof (GI_cov _ _ _ G fl Hfl Hlf) as Hin.
      destruct (Nat.le_gt_cases (length (ring (rid fl))) 2) as [Hsm|Hbig].
      * left. destruct (Cyc_small st rid _ _ fl I (GI_cyc _ _ _ G _) Hin Hsm) as [Eq _].
        rewrite Eq, Nat.eqb_refl in H. inversion H; subst. auto.
      * right. pose proof (Cyc_big st rid _ _ fl I (GI_cyc _ _ _ G _) Hin ltac:(lia)) as Hne.
        destruct (Nat.eqb_spec (Rf st fl) (Lf st fl)) as [Eq|_]; [congruence|].
        cbn [bind] in H. rewrite (getR_some st fl Hfl) in H. cbn [bind] in H.
        assert (Hnself : Rf st fl <> fl).
        { intros Eq. apply Hne. apply live_spec in Hlf. rewrite Eq in Hlf. congruence. }
        destruct (Nat.eqb_spec (Rf st fl) fl) as [|_]; [contradiction|].
        destruct (Cyc_front _ _ _ _ _ (GI_cyc _ _ _ G (rid fl)) Hin) as (t & Hc & Hmem & Hlen).
        pose proof (Cyc_succ _ _ _ _ _ Hc) as Hs.
        destruct t as [|w t']; [cbn [length] in Hlen; lia|]. cbn [hd] in Hs.
        destruct (loop_go_normal st rid (rid fl) fl (w :: t') I Hc ltac:(lia) (w :: t') [fl] ([] ++ [fl]) fu vis res eq_refl ltac:(discriminate)) as [A B].
        { cbn [hd]. rewrite <- Hs. exact H. }
        cbn [app] in A. subst vis res. split; [lia|]. split; [apply Hc|]. split; [exact Hmem|]. split; [exact Hlen|].
        exists fl. split; [reflexivity|exact Hin].
    + cbn [bind] in H. rewrite (getR_some st v Hv) in H. cbn [bind] in H. fold y in H.
      destruct (Nat.eqb_spec y fl) as [E|_].
      { exfalso. unfold fl in E. symmetry in E. pose proof (I_self st I y Hrb E) as Hy.
        fold fl in E. rewrite <- E in Hy. congruence. }
      assert (Hyl : live st y = false).
      { destruct (live st y) eqn:Hy; [|reflexivity]. pose proof (Inv_llive st y I Hrb Hy) as Hc. fold fl in Hc. congruence. }
      rewrite <- Laby. apply (IH fl y vis res Hrb (or_intror Hyl) H).
Qed.

Lemma loop_ring st rid ring fuel first vis res :
  GInv st rid ring -> first < size st -> loop fuel st first = Some (vis, res) ->
  LoopSpec (ring (rid first)) vis res.
Proof. intros G Hf H. apply (loop_go_ring st rid ring G fuel first first vis res Hf (or_introl eq_refl) H). Qed.

(* ------------------------------------------------------------------ *)
(* TriangulatePoly reduces the ring of its start to two records and never clips a smaller ring *)

Section RingOps2.
Variable orc : Oracle.

Lemma clip_loop_ring : forall j st rid ring q v k st',
  GInv st rid ring -> length (ring k) = j + 2 ->
  (forall x, In x q -> In x (ring k)) -> In v (ring k) ->
  clip_loop orc j st q v = Some st' ->
  nbad st' = nbad st /\ njoin st' = njoin st /\ size st' = size st /\
  exists ring', GInv st' rid ring' /\ (forall i, i <> k -> ring' i = ring i) /\
                length (ring' k) = 2 /\ incl (ring' k) (ring k).
Proof.
  induction j as [|j IH]; intros st rid ring q v k st' G Hlen Hq Hv H; cbn [clip_loop] in H.
  { inversion H; subst. split; [reflexivity|]. split; [reflexivity|]. split; [reflexivity|].
    exists ring. split; [exact G|]. split; [auto|]. split; [exact Hlen|apply incl_refl]. }
  set (eq1 := match q with
              | [] => (v, q)
              | h :: _ => (nth (o_pick orc st q) q h, remove Nat.eq_dec (nth (o_pick orc st q) q h) q)
              end) in H.
  destruct eq1 as [e q1] eqn:Eeq. unfold bind in H.
  assert (Hel : In e (ring k) /\ (forall x, In x q1 -> In x (ring k) /\ x <> e)).
  { unfold eq1 in Eeq. destruct q as [|h t].
    - inversion Eeq; subst. split; [exact Hv|]. intros x [].
    - set (ee := nth (o_pick orc st (h :: t)) (h :: t) h) in *.
      assert (He' : e = ee) by congruence.
      assert (Hq1' : q1 = remove Nat.eq_dec ee (h :: t)) by congruence.
      assert (Hin : In ee (h :: t)).
      { unfold ee. destruct (Nat.lt_ge_cases (o_pick orc st (h :: t)) (length (h :: t))) as [Hlt|Hge].
        - apply nth_In. exact Hlt.
        - rewrite nth_overflow by exact Hge. left; reflexivity. }
      rewrite He'. split; [apply Hq; exact Hin|].
      intros x Hx. rewrite Hq1' in Hx. apply in_remove in Hx. destruct Hx as [Hx Hxe].
      split; [apply Hq; exact Hx|exact Hxe]. }
  destruct Hel as [Hein Hq1].
  destruct (GInv_in_live _ _ _ _ _ G Hein) as (He & Hke & Hle).
  pose proof (GI_inv _ _ _ G) as I.
  pose proof (Cyc_big st rid k (ring k) e I (GI_cyc _ _ _ G k) Hein ltac:(lia)) as Hne.
  rewrite (getL_some st e He), (getR_some st e He) in H.
  destruct (Nat.eqb_spec (Lf st e) (Rf st e)) as [|_]; [contradiction|]. rewrite addBad_false in H.
  destruct (clipEar st e) as [st1|] eqn:Ec; [|discriminate].
  pose proof (clipEar_inv st e st1 Ec) as Hci. cbv zeta in Hci.
  destruct Hci as (_ & Hlb & Hrb & Hs1 & HR & HL & _ & _ & Hnj1 & Hnb1 & _).
  destruct (clipEar_ring st rid ring e st1 G He Hle Hne Ec) as (ring1 & G1 & F1 & M1 & L1). rewrite Hke in *.
  pose proof (clipEar_live st e st1 I Hle Hne Ec) as Hlive.
  destruct (ear_distinct st e I He Hle Hne) as (Hl_e & Hr_e & Hrl & Hlr).
  assert (He1 : e < size st1) by lia.
  rewrite (getL_some st1 e He1), (getR_some st1 e He1) in H.
  assert (HL1 : Lf st1 e = Lf st e).
  { rewrite HL. destruct (Nat.eqb_spec e (Rf st e)); [congruence|reflexivity]. }
  assert (HR1 : Rf st1 e = Rf st e).
  { rewrite HR. destruct (Nat.eqb_spec e (Lf st e)); [congruence|reflexivity]. }
  rewrite HL1, HR1 in H.
  destruct (GI_lab _ _ _ G e He) as [Labr Labl].
  assert (Hlin : In (Lf st e) (ring1 k)).
  { rewrite <- Hke, <- Labl. apply (GI_cov _ _ _ G1); [lia|]. rewrite Hlive.
    destruct (Nat.eqb_spec (Lf st e) e); [congruence|]. apply (Inv_llive st e I He Hle). }
  assert (Hrin : In (Rf st e) (ring1 k)).
  { rewrite <- Hke, <- Labr. apply (GI_cov _ _ _ G1); [lia|]. rewrite Hlive.
    destruct (Nat.eqb_spec (Rf st e) e); [congruence|]. apply (I_rlive st I e He Hle). }
  assert (Hq3 : forall x, In x (processEar orc st1 (processEar orc st1 q1 (Lf st e)) (Rf st e)) -> In x (ring1 k)).
  { intros x Hx. destruct (processEar_incl _ _ _ _ _ Hx) as [Hx1| ->]; [|exact Hrin].
    destruct (processEar_incl _ _ _ _ _ Hx1) as [Hx2| ->]; [|exact Hlin].
    apply M1. apply Hq1. exact Hx2. }
  assert (Hlen1 : length (ring1 k) = j + 2) by lia.
  destruct (IH st1 rid ring1 _ (Rf st e) k st' G1 Hlen1 Hq3 Hrin H) as (A1 & A2 & A3 & ring2 & G2 & F2 & L2 & I2).
  split; [congruence|]. split; [congruence|]. split; [congruence|].
  exists ring2. split; [exact G2|]. split; [intros i Hi; rewrite F2, F1; auto|]. split; [exact L2|].
  eapply incl_tran; [exact I2|]. intros x Hx. apply M1 in Hx. tauto.
Qed.

Lemma triangulatePoly_ring fuel st rid ring s st' :
  GInv st rid ring -> s < size st -> triangulatePoly orc fuel st s = Some st' ->
  nbad st' = nbad st /\ njoin st' = njoin st /\ size st' = size st /\
  exists ring', GInv st' rid ring' /\ (forall i, i <> rid s -> ring' i = ring i) /\
                length (ring' (rid s)) <= 2 /\ incl (ring' (rid s)) (ring (rid s)) /\
                (2 <= length (ring (rid s)) -> 2 <= length (ring' (rid s))).
Proof.
  intros G Hs. unfold triangulatePoly, bind.
  destruct (loop fuel st s) as [[vis res]|] eqn:El; [|discriminate].
  destruct (loop_ring st rid ring fuel s vis res G Hs El) as [(Hsm & -> & ->)|(Hbig & Hnd & Hmem & Hlen & f & -> & Hf)].
  - intros H; inversion H; subst. split; [reflexivity|]. split; [reflexivity|]. split; [reflexivity|].
    exists ring. split; [exact G|]. split; [auto|]. split; [exact Hsm|]. split; [apply incl_refl|auto].
  - destruct vis as [|v0 vt]; [cbn in Hlen; lia|].
    intros H.
    assert (Hq : forall x, In x (fold_left (processEar orc st) (v0 :: vt) []) -> In x (ring (rid s))).
    { intros x Hx. apply fold_processEar_incl in Hx. destruct Hx as [[]|Hx]. apply Hmem. exact Hx. }
    assert (Hl2 : length (ring (rid s)) = Z.to_nat (Z.of_nat (length (v0 :: vt)) - 2) + 2) by (rewrite Hlen; lia).
    destruct (clip_loop_ring _ st rid ring _ f (rid s) st' G Hl2 Hq Hf H) as (A1 & A2 & A3 & ring2 & G2 & F2 & L2 & I2).
    split; [exact A1|]. split; [exact A2|]. split; [exact A3|].
    exists ring2. split; [exact G2|]. split; [exact F2|]. split; [lia|]. split; [exact I2|lia].
Qed.
End RingOps2.

(* ------------------------------------------------------------------ *)
(* JoinPolygons merges the ring of the hole start into the ring of the connector *)

Lemma NoDup_app_intro {A} (l1 l2 : list A) :
  NoDup l1 -> NoDup l2 -> (forall v, In v l1 -> In v l2 -> False) -> NoDup (l1 ++ l2).
Proof.
  induction l1 as [|a t IH]; intros H1 H2 Hd; [exact H2|].
  cbn [app]. apply NoDup_cons_iff in H1. destruct H1 as [Ha Ht]. constructor.
  - rewrite in_app_iff. intros [H|H]; [contradiction|]. apply (Hd a); [left; reflexivity|exact H].
  - apply IH; auto. intros v Hv1 Hv2. apply (Hd v); [right; exact Hv1|exact Hv2].
Qed.

Lemma rpath_join st : forall l1 a b l2,
  rpath st (l1 ++ [a]) -> rpath st (b :: l2) -> Rf st a = b -> rpath st (l1 ++ a :: b :: l2).
Proof.
  induction l1 as [|x t IH]; intros a b l2 H1 H2 Hab.
  - cbn [app]. cbn [rpath]. split; [exact Hab|exact H2].
  - cbn [app] in *. apply rpath_cons in H1. destruct H1 as [Hx Ht]. apply rpath_cons. split.
    + destruct t as [|y t']; cbn [app] in *; exact Hx.
    + apply IH; assumption.
Qed.

Lemma Cyc_front_last st rid k c tc :
  Inv st -> Cyc st rid k (c :: tc) -> exists pc, c :: tc = pc ++ [Lf st c] /\ ~ In (Lf st c) pc.
Proof.
  intros I Hc. destruct (exists_last (l := c :: tc) ltac:(discriminate)) as (pc & z & E).
  assert (Hz : z = Lf st c).
  { destruct pc as [|a t0].
    - cbn [app] in E. inversion E; subst. pose proof (Cyc_succ _ _ _ _ _ Hc) as HR. cbn [hd] in HR.
      destruct Hc as (_ & He & _). destruct (He z (or_introl eq_refl)) as (_ & _ & Hl).
      apply live_spec in Hl. rewrite HR in Hl. congruence.
    - cbn [app] in E. inversion E; subst a. rewrite H1 in Hc.
      destruct (Cyc_pred st rid k c t0 z I Hc) as [_ HL]. congruence. }
  exists pc. rewrite <- Hz. split; [exact E|].
  destruct Hc as (Hn & _). rewrite E in Hn. apply NoDup_remove_2 in Hn. rewrite app_nil_r in Hn. exact Hn.
Qed.

Section JoinRing.
Variables (st st6 : St) (s c : nat) (rid : nat -> nat) (ring : nat -> list nat).
Let n := size st.
Let sr := Rf st s.
Let cl := Lf st c.
Let ks := rid s.
Let kc := rid c.
Hypothesis G : GInv st rid ring.
Hypothesis Hs : s < n.
Hypothesis Hc : c < n.
Hypothesis Ls : live st s = true.
Hypothesis Lc : live st c = true.
Hypothesis Hk : ks <> kc.
Hypothesis Hsize : size st6 = n + 2.
Hypothesis HR6 : forall u, Rf st6 u =
  if u =? n + 1 then n else if u =? s then c else if u =? cl then n + 1 else if u =? n then sr else Rf st u.
Hypothesis HL6 : forall u, Lf st6 u =
  if u =? n then n + 1 else if u =? c then s else if u =? sr then n else if u =? n + 1 then cl else Lf st u.
Hypothesis Hnclip6 : nclip st6 = nclip st.

Let I0 : Inv st := GI_inv _ _ _ G.
Lemma jr_src : sr <> c.
Proof. intros E. destruct (GI_lab _ _ _ G s Hs) as [A _]. fold sr in A. rewrite E in A. fold kc ks in A. congruence. Qed.

Definition rid6 (v : nat) : nat := if n <=? v then kc else if rid v =? ks then kc else rid v.

Lemma jr_ex :
  exists ts tc, Cyc st rid ks (s :: ts) /\ Cyc st rid kc (c :: tc) /\
    (forall y, In y (s :: ts) <-> In y (ring ks)) /\ (forall y, In y (c :: tc) <-> In y (ring kc)) /\
    length (s :: ts) = length (ring ks) /\ length (c :: tc) = length (ring kc).
Proof.
  destruct (Cyc_front _ _ _ _ _ (GI_cyc _ _ _ G ks) (GI_cov _ _ _ G s Hs Ls)) as (ts & A1 & A2 & A3).
  destruct (Cyc_front _ _ _ _ _ (GI_cyc _ _ _ G kc) (GI_cov _ _ _ G c Hc Lc)) as (tc & B1 & B2 & B3).
  exists ts, tc. auto 10.
Qed.

Lemma jr_live v : v < n + 2 -> live st6 v = if (v =? n) || (v =? n + 1) then true else live st v.
Proof. apply (jc_live st st6 s c I0 Hs Hc Ls Lc jr_src Hsize HR6 HL6). Qed.

Lemma jr_GInv ts tc :
  Cyc st rid ks (s :: ts) -> Cyc st rid kc (c :: tc) ->
  (forall y, In y (s :: ts) <-> In y (ring ks)) -> (forall y, In y (c :: tc) <-> In y (ring kc)) ->
  GInv st6 rid6 (fun j => if j =? kc then s :: c :: tc ++ [n + 1; n] ++ ts
                          else if j =? ks then [] else ring j).
Proof.
  intros Cs Cc Ms Mc.
  pose proof jr_src as Hsrc.
  assert (Hcl : cl < n) by (apply (I_bound st I0 c Hc)).
  assert (Hsr : sr < n) by (apply (I_bound st I0 s Hs)).
  assert (Lcl : rid cl = kc) by (apply (GI_lab _ _ _ G c Hc)).
  assert (Lsr : rid sr = ks) by (apply (GI_lab _ _ _ G s Hs)).
  assert (Hcls : cl <> s) by (intros E; rewrite E in Lcl; fold ks in Lcl; congruence).
  assert (Hrid6_old : forall v, v < n -> rid6 v = if rid v =? ks then kc else rid v).
  { intros v Hv. unfold rid6. destruct (Nat.leb_spec n v); [lia|reflexivity]. }
  assert (Hrid6_new : forall v, n <= v -> rid6 v = kc).
  { intros v Hv. unfold rid6. destruct (Nat.leb_spec n v); [reflexivity|lia]. }
  (* elements of the two old rings *)
  assert (Es : forall v, In v (s :: ts) -> v < n /\ rid v = ks /\ live st v = true) by (apply Cs).
  assert (Ec : forall v, In v (c :: tc) -> v < n /\ rid v = kc /\ live st v = true) by (apply Cc).
  constructor.
  - apply (jc_Inv st st6 s c I0 Hs Hc Ls Lc Hsrc Hsize HR6 HL6).
  - rewrite Hsize. intros v Hv. rewrite HR6, HL6.
    assert (Hold : v < n -> rid (Rf st v) = rid v /\ rid (Lf st v) = rid v /\ Rf st v < n /\ Lf st v < n).
    { intros Hvn. destruct (GI_lab _ _ _ G v Hvn). destruct (I_bound st I0 v Hvn). auto. }
    split.
    + destruct (Nat.eqb_spec v (n + 1)) as [Esub|N1]; [subst v|]; [rewrite !Hrid6_new by lia; reflexivity|].
      destruct (Nat.eqb_spec v s) as [Esub|N2]; [subst v|].
      { rewrite !Hrid6_old by lia. fold ks kc. rewrite Nat.eqb_refl. destruct (Nat.eqb_spec kc ks); congruence. }
      destruct (Nat.eqb_spec v cl) as [Esub|N3]; [subst v|].
      { rewrite (Hrid6_new (n + 1)) by lia. rewrite (Hrid6_old cl) by lia. rewrite Lcl. destruct (Nat.eqb_spec kc ks); congruence. }
      destruct (Nat.eqb_spec v n) as [Esub|N4]; [subst v|].
      { rewrite (Hrid6_new n) by lia. rewrite (Hrid6_old sr) by lia. rewrite Lsr, Nat.eqb_refl. reflexivity. }
      destruct (Hold ltac:(lia)) as (A & _ & B & _). rewrite !Hrid6_old by lia. rewrite A. reflexivity.
    + destruct (Nat.eqb_spec v n) as [->|N1]; [rewrite !Hrid6_new by lia; reflexivity|].
      destruct (Nat.eqb_spec v c) as [Esub|N2]; [subst v|].
      { rewrite !Hrid6_old by lia. fold ks kc. rewrite Nat.eqb_refl. destruct (Nat.eqb_spec kc ks); congruence. }
      destruct (Nat.eqb_spec v sr) as [Esub|N3]; [subst v|].
      { rewrite (Hrid6_new n) by lia. rewrite (Hrid6_old sr) by lia. rewrite Lsr, Nat.eqb_refl. reflexivity. }
      destruct (Nat.eqb_spec v (n + 1)) as [Esub|N4]; [subst v|].
      { rewrite (Hrid6_new (n + 1)) by lia. rewrite (Hrid6_old cl) by lia. rewrite Lcl. destruct (Nat.eqb_spec kc ks); congruence. }
      destruct (Hold ltac:(lia)) as (_ & A & _ & B). rewrite !Hrid6_old by lia. rewrite A. reflexivity.
  - intros j. destruct (Nat.eqb_spec j kc) as [->|Hjc].
    + (* the merged ring *)
      destruct (Cyc_front_last st rid kc c tc I0 Cc) as (pc & Epc & Hclpc). fold cl in Epc, Hclpc.
      destruct Cs as (NDs & _ & Ps). destruct Cc as (NDc & _ & Pc). cbn [hd] in Ps, Pc.
      split; [|split].
      * (* NoDup *)
        assert (Hfresh : forall v, In v (s :: ts) \/ In v (c :: tc) -> v < n).
        { intros v [H|H]; [apply (Es v H)|apply (Ec v H)]. }
        assert (Hdisj : forall v, In v (s :: ts) -> In v (c :: tc) -> False).
        { intros v H1 H2. destruct (Es v H1) as (_ & A & _). destruct (Ec v H2) as (_ & B & _). congruence. }
        change (s :: c :: tc ++ [n + 1; n] ++ ts) with (s :: (c :: tc) ++ [n + 1; n] ++ ts).
        apply NoDup_cons_iff in NDs. destruct NDs as [Hs_ts NDts].
        constructor.
        -- rewrite !in_app_iff. intros [H|[H|H]].
           ++ apply (Hdisj s); [left; reflexivity|exact H].
           ++ cbn in H. lia.
           ++ contradiction.
        -- apply NoDup_app_intro; [exact NDc| |].
           ++ apply NoDup_app_intro.
              ** constructor; [cbn; lia|]. constructor; [intros []|constructor].
              ** exact NDts.
              ** intros v H1 H2. assert (v < n) by (apply Hfresh; left; right; exact H2). cbn in H1. lia.
           ++ intros v H1 H2. apply in_app_or in H2. destruct H2 as [H2|H2].
              ** assert (v < n) by (apply Hfresh; right; exact H1). cbn in H2. lia.
              ** apply (Hdisj v); [right; exact H2|exact H1].
      * (* elements *)
        intros v Hv. rewrite Hsize.
        assert (Hv' : In v (s :: ts) \/ In v (c :: tc) \/ v = n \/ v = n + 1).
        { destruct Hv as [E1|[E1|Hv]]; [left; left; exact E1|right; left; left; exact E1|].
          apply in_app_or in Hv. destruct Hv as [Hv|Hv]; [right; left; right; exact Hv|].
          apply in_app_or in Hv. destruct Hv as [Hv|Hv]; [|left; right; exact Hv].
          cbn in Hv. destruct Hv as [E1|[E1|[]]]; auto. }
        destruct Hv' as [H|[H|[E1|E1]]]; [| |subst v|subst v].
        -- destruct (Es v H) as (A & B & C). split; [lia|]. split.
           ++ rewrite Hrid6_old by lia. rewrite B, Nat.eqb_refl. reflexivity.
           ++ rewrite jr_live by lia. destruct (Nat.eqb_spec v n); [lia|]. destruct (Nat.eqb_spec v (n + 1)); [lia|]. exact C.
        -- destruct (Ec v H) as (A & B & C). split; [lia|]. split.
           ++ rewrite Hrid6_old by lia. rewrite B. destruct (Nat.eqb_spec kc ks); congruence.
           ++ rewrite jr_live by lia. destruct (Nat.eqb_spec v n); [lia|]. destruct (Nat.eqb_spec v (n + 1)); [lia|]. exact C.
        -- split; [lia|]. split; [apply Hrid6_new; lia|]. rewrite jr_live by lia. rewrite Nat.eqb_refl. reflexivity.
        -- split; [lia|]. split; [apply Hrid6_new; lia|]. rewrite jr_live by lia. rewrite Nat.eqb_refl. rewrite orb_true_r. reflexivity.
      * (* links *)
        cbn [hd].
        assert (X1 : rpath st6 (pc ++ [cl])).
        { rewrite Epc in Pc. apply rpath_app_l in Pc. apply (rpath_ext st); [|exact Pc].
          intros v Hv. rewrite removelast_last in Hv.
          assert (Hvin : In v (c :: tc)) by (rewrite Epc; apply in_or_app; left; exact Hv).
          destruct (Ec v Hvin) as (A & B & _). rewrite HR6.
          destruct (Nat.eqb_spec v (n + 1)); [lia|]. destruct (Nat.eqb_spec v s) as [->|]; [fold ks in B; congruence|].
          destruct (Nat.eqb_spec v cl) as [Esub|]; [subst v|]; [contradiction|]. destruct (Nat.eqb_spec v n); [lia|]. reflexivity. }
        assert (X2 : rpath st6 ((pc ++ [cl]) ++ [n + 1])).
        { rewrite <- app_assoc. cbn [app]. apply rpath_snoc; [exact X1|].
          rewrite HR6. destruct (Nat.eqb_spec cl (n + 1)); [lia|]. destruct (Nat.eqb_spec cl s); [contradiction|].
          rewrite Nat.eqb_refl. reflexivity. }
        assert (X3 : rpath st6 (ts ++ [s])).
        { apply rpath_cons in Ps. destruct Ps as [_ Ps]. apply (rpath_ext st); [|exact Ps].
          intros v Hv. rewrite removelast_last in Hv.
          destruct (Es v (or_intror Hv)) as (A & B & _). rewrite HR6.
          destruct (Nat.eqb_spec v (n + 1)); [lia|].
          destruct (Nat.eqb_spec v s) as [->|]; [apply NoDup_cons_iff in NDs; tauto|].
          destruct (Nat.eqb_spec v cl) as [Esub|]; [subst v|]; [congruence|]. destruct (Nat.eqb_spec v n); [lia|]. reflexivity. }
        assert (Hsr_hd : sr = hd s ts) by (apply (Cyc_succ st rid ks s ts); split; [exact NDs|split; [exact Es|exact Ps]]).
        assert (X4 : rpath st6 (((pc ++ [cl]) ++ [n + 1]) ++ n :: ts ++ [s])).
        { destruct ts as [|y ts'].
          - cbn [app hd] in *. apply (rpath_join st6 ((pc ++ [cl]) ++ [n + 1]) n s []).
            + rewrite <- app_assoc. cbn [app]. rewrite <- app_assoc. cbn [app].
              replace (pc ++ [cl; n + 1; n]) with ((pc ++ [cl]) ++ [n + 1; n]) by (rewrite <- app_assoc; reflexivity).
              apply rpath_snoc; [rewrite <- app_assoc in X2; cbn [app] in X2; rewrite <- app_assoc; exact X2|].
              rewrite HR6, Nat.eqb_refl. reflexivity.
            + exact Logic.I.
            + rewrite HR6. destruct (Nat.eqb_spec n (n + 1)); [lia|]. destruct (Nat.eqb_spec n s); [lia|].
              destruct (Nat.eqb_spec n cl); [lia|]. rewrite Nat.eqb_refl. exact Hsr_hd.
          - cbn [app hd] in *. apply (rpath_join st6 ((pc ++ [cl]) ++ [n + 1]) n y (ts' ++ [s])).
            + replace (((pc ++ [cl]) ++ [n + 1]) ++ [n]) with ((pc ++ [cl]) ++ [n + 1; n]) by (rewrite <- !app_assoc; reflexivity).
              apply rpath_snoc; [exact X2|]. rewrite HR6, Nat.eqb_refl. reflexivity.
            + exact X3.
            + rewrite HR6. destruct (Nat.eqb_spec n (n + 1)); [lia|]. destruct (Nat.eqb_spec n s); [lia|].
              destruct (Nat.eqb_spec n cl); [lia|]. rewrite Nat.eqb_refl. exact Hsr_hd. }
        assert (Eshape : (s :: c :: tc ++ [n + 1; n] ++ ts) ++ [s] = s :: (((pc ++ [cl]) ++ [n + 1]) ++ n :: ts ++ [s])).
        { rewrite <- Epc. cbn [app]. f_equal. f_equal. rewrite <- !app_assoc. cbn [app]. reflexivity. }
        rewrite Eshape. apply rpath_cons. split; [|exact X4].
        rewrite <- Epc. cbn [app]. rewrite HR6. destruct (Nat.eqb_spec s (n + 1)); [lia|]. rewrite Nat.eqb_refl. reflexivity.
    + destruct (Nat.eqb_spec j ks) as [->|Hjs]; [apply Cyc_nil|].
      destruct (GI_cyc _ _ _ G j) as (A & B & C). split; [exact A|]. split.
      * intros v Hv. destruct (B v Hv) as (B1 & B2 & B3). fold n in B1. rewrite Hsize. split; [lia|]. split.
        -- rewrite Hrid6_old by lia. rewrite B2. destruct (Nat.eqb_spec j ks); congruence.
        -- rewrite jr_live by lia. destruct (Nat.eqb_spec v n); [lia|]. destruct (Nat.eqb_spec v (n + 1)); [lia|]. exact B3.
      * apply (rpath_ext st); [|exact C]. intros v Hv. rewrite removelast_last in Hv.
        destruct (B v Hv) as (B1 & B2 & _). fold n in B1. rewrite HR6.
        destruct (Nat.eqb_spec v (n + 1)); [lia|]. destruct (Nat.eqb_spec v s) as [->|]; [fold ks in B2; congruence|].
        destruct (Nat.eqb_spec v cl) as [Esub|]; [subst v|]; [congruence|]. destruct (Nat.eqb_spec v n); [lia|]. reflexivity.
  - rewrite Hsize. intros v Hv Hl. rewrite jr_live in Hl by lia.
    destruct (Nat.eqb_spec v n) as [Esub|N1]; [subst v|].
    { rewrite Hrid6_new by lia. rewrite Nat.eqb_refl. right. right. apply in_or_app. right. right. left. reflexivity. }
    destruct (Nat.eqb_spec v (n + 1)) as [Esub|N2]; [subst v|].
    { rewrite Hrid6_new by lia. rewrite Nat.eqb_refl. right. right. apply in_or_app. right. left. reflexivity. }
    cbn [orb] in Hl. assert (Hvn : v < n) by lia. pose proof (GI_cov _ _ _ G v Hvn Hl) as Hin.
    rewrite Hrid6_old by lia. destruct (Nat.eqb_spec (rid v) ks) as [E|E].
    + rewrite Nat.eqb_refl. rewrite E in Hin. apply Ms in Hin.
      destruct Hin as [E1|Hin]; [left; exact E1|]. right. right. apply in_or_app. right. right. right. exact Hin.
    + destruct (Nat.eqb_spec (rid v) kc) as [E2|E2].
      * rewrite E2 in Hin. apply Mc in Hin. right. destruct Hin as [E1|Hin]; [left; exact E1|].
        right. apply in_or_app. left. exact Hin.
      * destruct (Nat.eqb_spec (rid v) ks); [contradiction|]. exact Hin.
  - destruct (GI_ct _ _ _ G) as (ct & Hct). exists ct. rewrite Hsize, Hnclip6.
    intros v Hv Hlv. rewrite jr_live in Hlv by lia.
    destruct (Nat.eqb_spec v n) as [|N1]; [discriminate|]. destruct (Nat.eqb_spec v (n + 1)) as [|N2]; [discriminate|].
    cbn [orb] in Hlv. assert (Hvn : v < n) by lia. destruct (Hct v Hvn Hlv) as [A B]. split; [exact A|].
    assert (Hvs : v <> s) by (intros E; rewrite E in Hlv; congruence).
    assert (Hvcl : v <> cl).
    { intros E. rewrite E in Hlv. pose proof (Inv_llive st c I0 Hc Lc) as Hx. fold cl in Hx. congruence. }
    rewrite HR6. destruct (Nat.eqb_spec v (n + 1)); [lia|]. destruct (Nat.eqb_spec v s); [contradiction|].
    destruct (Nat.eqb_spec v cl); [contradiction|]. destruct (Nat.eqb_spec v n); [lia|].
    destruct (I_bound st I0 v Hvn) as [_ Hrb]. fold n in Hrb.
    rewrite jr_live by lia. destruct (Nat.eqb_spec (Rf st v) n); [lia|]. destruct (Nat.eqb_spec (Rf st v) (n + 1)); [lia|].
    cbn [orb]. exact B.
Qed.
End JoinRing.

(* the oracle-free, fuel-free relinking prefix of JoinPolygons *)
Definition join_prefix (st0 : St) (s c : nat) : option St :=
  cs <- clipped st0 s ;; cc <- clipped st0 c ;; sr0 <- getR st0 s ;;
  let st := addJoin (addBad st0 (cs || cc || (sr0 =? c))) in
  vs <- getV st s ;;
  let ns := length (poly st) in
  st1 <- push st vs ;;
  vc <- getV st1 c ;;
  let nc := length (poly st1) in
  st2 <- push st1 vc ;;
  sr <- getR st2 s ;; st3 <- setL st2 sr ns ;;
  cl <- getL st3 c ;; st4 <- setR st3 cl nc ;;
  st5 <- link st4 s c ;;
  link st5 nc ns.

Lemma joinPolygons_factor orc fuel st0 s c :
  joinPolygons orc fuel st0 s c =
  (st6 <- join_prefix st0 s c ;;
   st7 <- clipIfDegenerate orc fuel st6 s ;;
   st8 <- clipIfDegenerate orc fuel st7 (size st0) ;;
   st9 <- clipIfDegenerate orc fuel st8 c ;;
   clipIfDegenerate orc fuel st9 (S (size st0))).
Proof.
  unfold joinPolygons, join_prefix, bind.
  destruct (clipped st0 s) as [cs|]; [|reflexivity].
  destruct (clipped st0 c) as [cc|]; [|reflexivity].
  destruct (getR st0 s) as [sr0|]; [|reflexivity].
  set (st := addJoin (addBad st0 (cs || cc || (sr0 =? c)))).
  assert (Esz : length (poly st) = size st0) by reflexivity.
  destruct (getV st s) as [vs|]; [|reflexivity].
  destruct (push st vs) as [st1|] eqn:Ep1; [|reflexivity].
  assert (Esz1 : length (poly st1) = S (size st0)).
  { apply push_inv in Ep1. destruct Ep1 as (H1 & _). unfold size in H1. rewrite H1, Esz. reflexivity. }
  destruct (getV st1 c) as [vc|]; [|reflexivity].
  destruct (push st1 vc) as [st2|]; [|reflexivity].
  destruct (getR st2 s) as [sr|]; [|reflexivity].
  destruct (setL st2 sr (length (poly st))) as [st3|]; [|reflexivity].
  destruct (getL st3 c) as [cl|]; [|reflexivity].
  destruct (setR st3 cl (length (poly st1))) as [st4|]; [|reflexivity].
  destruct (link st4 s c) as [st5|]; [|reflexivity].
  destruct (link st5 (length (poly st1)) (length (poly st))) as [st6|]; [|reflexivity].
  rewrite Esz, Esz1. reflexivity.
Qed.

Lemma join_prefix_closed st0 s c st6 :
  join_prefix st0 s c = Some st6 ->
  let n := size st0 in
  let bad := negb (live st0 s) || negb (live st0 c) || (Rf st0 s =? c) in
  s < n /\ c < n /\
    size st6 = n + 2 /\ nbad st6 = (if bad then S (nbad st0) else nbad st0) /\ njoin st6 = S (njoin st0) /\
    nclip st6 = nclip st0 /\ cap st6 = cap st0 /\
    (Rf st0 s <> c ->
       (forall u, Rf st6 u = if u =? n + 1 then n else if u =? s then c else if u =? Lf st0 c then n + 1
                             else if u =? n then Rf st0 s else Rf st0 u) /\
       (forall u, Lf st6 u = if u =? n then n + 1 else if u =? c then s else if u =? Rf st0 s then n
                             else if u =? n + 1 then Lf st0 c else Lf st0 u)).
Proof.
  unfold join_prefix, bind.
  destruct (clipped st0 s) as [cs|] eqn:Ecs; [|discriminate].
  destruct (clipped st0 c) as [cc|] eqn:Ecc; [|discriminate].
  destruct (getR st0 s) as [sr0|] eqn:Esr0; [|discriminate].
  apply clipped_inv in Ecs. destruct Ecs as (Hs & _ & ->).
  apply clipped_inv in Ecc. destruct Ecc as (Hc & _ & ->).
  apply getR_inv in Esr0. destruct Esr0 as [_ ->].
  set (bad := negb (live st0 s) || negb (live st0 c) || (Rf st0 s =? c)).
  set (st := addJoin (addBad st0 bad)).
  set (n := size st0).
  assert (Est : size st = n /\ (forall u, Rf st u = Rf st0 u) /\ (forall u, Lf st u = Lf st0 u) /\
                (forall u, Mf st u = Mf st0 u) /\ poly st = poly st0) by (repeat split).
  destruct Est as (Esz & ER & EL & EM & Epoly).
  destruct (getV st s) as [vs|] eqn:Evs; [|discriminate].
  apply getV_inv in Evs. destruct Evs as [_ Evs]. rewrite Epoly in Evs.
  destruct (push st vs) as [st1|] eqn:Ep1; [|discriminate].
  apply push_inv in Ep1. destruct Ep1 as (Hs1 & Hm1 & Hn1).
  destruct (getV st1 c) as [vc|] eqn:Evc; [|discriminate].
  apply getV_inv in Evc. destruct Evc as [_ Evc].
  rewrite Hn1 in Evc. rewrite Esz in Evc. destruct (Nat.eqb_spec c n) as [|_]; [unfold n in *; lia|].
  rewrite Epoly in Evc.
  destruct (push st1 vc) as [st2|] eqn:Ep2; [|discriminate].
  apply push_inv in Ep2. destruct Ep2 as (Hs2 & Hm2 & Hn2).
  assert (Hnth2 : forall u, nth u (poly st2) dv =
            if u =? S n then vc else if u =? n then vs else nth u (poly st0) dv).
  { intros u. rewrite Hn2, Hs1, Esz, Hn1, Esz, Epoly. reflexivity. }
  replace (length (poly st)) with n by (symmetry; exact Esz).
  replace (length (poly st1)) with (S n) by (unfold size in Hs1; rewrite Hs1; unfold size in Esz; rewrite Esz; reflexivity).
  destruct (getR st2 s) as [sr|] eqn:Esr; [|discriminate].
  apply getR_inv in Esr. destruct Esr as [_ ->].
  assert (ER2 : forall u, Rf st2 u = if u =? S n then Rf st0 c else if u =? n then Rf st0 s else Rf st0 u).
  { intros u. unfold Rf. rewrite Hnth2. subst vs vc. destruct (u =? S n), (u =? n); reflexivity. }
  assert (EL2 : forall u, Lf st2 u = if u =? S n then Lf st0 c else if u =? n then Lf st0 s else Lf st0 u).
  { intros u. unfold Lf. rewrite Hnth2. subst vs vc. destruct (u =? S n), (u =? n); reflexivity. }
  assert (Esr : Rf st2 s = Rf st0 s).
  { rewrite ER2. destruct (Nat.eqb_spec s (S n)); [unfold n in *; lia|]. destruct (Nat.eqb_spec s n); [unfold n in *; lia|]. reflexivity. }
  rewrite Esr.
  destruct (setL st2 (Rf st0 s) n) as [st3|] eqn:E3; [|discriminate].
  apply setL_inv in E3. destruct E3 as (_ & Hs3 & Hm3 & HL3 & HR3 & HM3).
  destruct (getL st3 c) as [cl|] eqn:Ecl; [|discriminate].
  apply getL_inv in Ecl. destruct Ecl as [_ ->].
  destruct (setR st3 (Lf st3 c) (S n)) as [st4|] eqn:E4; [|discriminate].
  apply setR_inv in E4. destruct E4 as (_ & Hs4 & Hm4 & HR4 & HL4 & HM4).
  destruct (link st4 s c) as [st5|] eqn:E5; [|discriminate].
  apply link_inv in E5. destruct E5 as (_ & _ & Hs5 & Hm5 & HR5 & HL5 & HM5).
  intros E6.
  apply link_inv in E6. destruct E6 as (_ & _ & Hs6 & Hm6 & HR6 & HL6 & HM6).
  assert (Hmeta : same_meta st st6).
  { repeat (eapply same_meta_trans; [eassumption|]). unfold same_meta; auto 10. }
  destruct Hmeta as (Mcap & Mtris & Mnclip & Mnfilt & Mnjoin & Mnbad).
  cbn [st addJoin addBad cap tris nclip nfilt njoin nbad] in Mcap, Mtris, Mnclip, Mnfilt, Mnjoin, Mnbad.
  cbv zeta. fold n. split; [exact Hs|]. split; [exact Hc|].
  split; [lia|]. split; [rewrite Mnbad; fold bad; destruct bad; reflexivity|]. split; [exact Mnjoin|].
  split; [exact Mnclip|]. split; [exact Mcap|].
  intros Hsrc.
  assert (Hcl3 : Lf st3 c = Lf st0 c).
  { rewrite HL3, EL2. destruct (Nat.eqb_spec c (Rf st0 s)); [congruence|].
    destruct (Nat.eqb_spec c (S n)); [unfold n in *; lia|]. destruct (Nat.eqb_spec c n); [unfold n in *; lia|]. reflexivity. }
  rewrite Hcl3 in *. split.
  - intros u. rewrite HR6, HR5, HR4, HR3, ER2. replace (n + 1) with (S n) by lia.
    destruct (u =? S n); [reflexivity|]. destruct (u =? s); [reflexivity|]. destruct (u =? Lf st0 c); reflexivity.
  - intros u. rewrite HL6, HL5, HL4, HL3, EL2. replace (n + 1) with (S n) by lia.
    destruct (Nat.eqb_spec u n) as [->|]; [reflexivity|]. destruct (u =? c); [reflexivity|].
    destruct (u =? Rf st0 s); [reflexivity|]. destruct (u =? S n); reflexivity.
Qed.

Section JoinOps.
Variable orc : Oracle.

Lemma joinPolygons_closed fuel st0 s c st' :
  joinPolygons orc fuel st0 s c = Some st' ->
  let n := size st0 in
  let bad := negb (live st0 s) || negb (live st0 c) || (Rf st0 s =? c) in
  s < n /\ c < n /\
  exists st6 st7 st8 st9,
    size st6 = n + 2 /\ nbad st6 = (if bad then S (nbad st0) else nbad st0) /\ njoin st6 = S (njoin st0) /\
    nclip st6 = nclip st0 /\ cap st6 = cap st0 /\
    (Rf st0 s <> c ->
       (forall u, Rf st6 u = if u =? n + 1 then n else if u =? s then c else if u =? Lf st0 c then n + 1
                             else if u =? n then Rf st0 s else Rf st0 u) /\
       (forall u, Lf st6 u = if u =? n then n + 1 else if u =? c then s else if u =? Rf st0 s then n
                             else if u =? n + 1 then Lf st0 c else Lf st0 u)) /\
    clipIfDegenerate orc fuel st6 s = Some st7 /\ clipIfDegenerate orc fuel st7 n = Some st8 /\
    clipIfDegenerate orc fuel st8 c = Some st9 /\ clipIfDegenerate orc fuel st9 (S n) = Some st'.
Proof.
  rewrite joinPolygons_factor. unfold bind.
  destruct (join_prefix st0 s c) as [st6|] eqn:E6; [|discriminate].
  destruct (clipIfDegenerate orc fuel st6 s) as [st7|] eqn:E7; [|discriminate].
  destruct (clipIfDegenerate orc fuel st7 (size st0)) as [st8|] eqn:E8; [|discriminate].
  destruct (clipIfDegenerate orc fuel st8 c) as [st9|] eqn:E9; [|discriminate].
  intros E10. pose proof (join_prefix_closed st0 s c st6 E6) as Hc. cbv zeta in *.
  destruct Hc as (A1 & A2 & A3 & A4 & A5 & A6 & A7 & A8).
  split; [exact A1|]. split; [exact A2|]. exists st6, st7, st8, st9. auto 12.
Qed.
End JoinOps.

Section JoinOps2.
Variable orc : Oracle.

Lemma joinPolygons_ring fuel st0 rid ring s c st' :
  GInv st0 rid ring -> live st0 s = true -> live st0 c = true -> rid s <> rid c ->
  joinPolygons orc fuel st0 s c = Some st' ->
  nbad st' = nbad st0 /\ njoin st' = S (njoin st0) /\ size st' = size st0 + 2 /\
  exists rid' ring', GInv st' rid' ring' /\
    (forall v, v < size st0 -> rid' v = if rid v =? rid s then rid c else rid v) /\
    (forall v, size st0 <= v -> rid' v = rid c) /\
    ring' (rid s) = [] /\ (forall j, j <> rid s -> j <> rid c -> ring' j = ring j) /\
    2 <= length (ring' (rid c)).
Proof.
  intros G Ls Lc Hk H.
  destruct (joinPolygons_closed orc fuel st0 s c st' H) as (Hs & Hc & st6 & st7 & st8 & st9 & Hsz & Hnb & Hnj & Hncl & Hcap & Hcf & E7 & E8 & E9 & E10).
  cbv zeta in *. rewrite Ls, Lc in Hnb. cbn [negb orb] in Hnb.
  assert (Hsrc : Rf st0 s <> c).
  { intros E. destruct (GI_lab _ _ _ G s Hs) as [A _]. rewrite E in A. congruence. }
  destruct (Nat.eqb_spec (Rf st0 s) c) as [|_]; [contradiction|].
  destruct (Hcf Hsrc) as [HR HL].
  destruct (jr_ex st0 s c rid ring G Hs Hc Ls Lc) as (ts & tc & Cs & Cc & Ms & Mc & Lens & Lenc).
  pose proof (jr_GInv st0 st6 s c rid ring G Hs Hc Ls Lc Hk Hsz HR HL Hncl ts tc Cs Cc Ms Mc) as G6.
  set (rid' := rid6 st0 s c rid) in *.
  set (ring6 := fun j => if j =? rid c then s :: c :: tc ++ [size st0 + 1; size st0] ++ ts
                         else if j =? rid s then [] else ring j) in *.
  assert (Hrid_old : forall v, v < size st0 -> rid' v = if rid v =? rid s then rid c else rid v).
  { intros v Hv. unfold rid', rid6. destruct (Nat.leb_spec (size st0) v); [lia|reflexivity]. }
  assert (Hrid_new : forall v, size st0 <= v -> rid' v = rid c).
  { intros v Hv. unfold rid', rid6. destruct (Nat.leb_spec (size st0) v); [reflexivity|lia]. }
  assert (Ks : rid' s = rid c) by (rewrite Hrid_old by exact Hs; rewrite Nat.eqb_refl; reflexivity).
  assert (Kc : rid' c = rid c).
  { rewrite Hrid_old by exact Hc. destruct (Nat.eqb_spec (rid c) (rid s)); congruence. }
  destruct (clipIfDegenerate_ring orc fuel _ _ _ _ _ G6 E7) as (A1 & A2 & A3 & r7 & G7 & S7). rewrite Ks in S7.
  destruct (clipIfDegenerate_ring orc fuel _ _ _ _ _ G7 E8) as (B1 & B2 & B3 & r8 & G8 & S8). rewrite Hrid_new in S8 by lia.
  destruct (clipIfDegenerate_ring orc fuel _ _ _ _ _ G8 E9) as (C1 & C2 & C3 & r9 & G9 & S9). rewrite Kc in S9.
  destruct (clipIfDegenerate_ring orc fuel _ _ _ _ _ G9 E10) as (D1 & D2 & D3 & r10 & G10 & S10). rewrite Hrid_new in S10 by lia.
  pose proof (Shrink_trans _ _ _ _ (Shrink_trans _ _ _ _ (Shrink_trans _ _ _ _ S7 S8) S9) S10) as (F & _ & _ & Hge).
  split; [congruence|]. split; [congruence|]. split; [lia|].
  exists rid', r10. split; [exact G10|]. split; [exact Hrid_old|]. split; [exact Hrid_new|].
  split; [|split].
  - rewrite F by (intros E; apply Hk; exact E). unfold ring6.
    destruct (Nat.eqb_spec (rid s) (rid c)); [contradiction|]. rewrite Nat.eqb_refl. reflexivity.
  - intros j Hjs Hjc. rewrite F by exact Hjc. unfold ring6.
    destruct (Nat.eqb_spec j (rid c)); [contradiction|]. destruct (Nat.eqb_spec j (rid s)); [contradiction|]. reflexivity.
  - apply Hge. unfold ring6. rewrite Nat.eqb_refl. cbn [length]. lia.
Qed.
End JoinOps2.

(* ------------------------------------------------------------------ *)
(* Initialize: one ring per contour, labelled by the contour number *)

Lemma rpath_seq st off k :
  (forall u, off <= u < off + k -> Rf st u = if u + 1 =? off + k then off else u + 1) ->
  forall m a, a + m = off + k -> off <= a -> rpath st (seq a m ++ [off]).
Proof.
  intros HR. induction m as [|m IH]; intros a Ha Hoa; [exact Logic.I|].
  cbn [seq app]. apply rpath_cons. split.
  - destruct m as [|m']; cbn [seq app].
    + rewrite HR by lia. destruct (Nat.eqb_spec (a + 1) (off + k)); [reflexivity|lia].
    + rewrite HR by lia. destruct (Nat.eqb_spec (a + 1) (off + k)); lia.
  - apply IH; lia.
Qed.

Lemma init_poly_ghost st rid ring K p st' first :
  GInv st rid ring -> ring K = [] -> (forall v, v < size st -> rid v <> K) ->
  init_poly st p = Some (st', first) ->
  first = size st /\ size st' = size st + length p /\ 1 <= length p /\
  GInv st' (fun v => if size st <=? v then K else rid v)
           (fun j => if j =? K then seq (size st) (length p) else ring j).
Proof.
  intros G HK Hlab H. destruct (init_poly_ring st p st' first H) as (HRing & Hf & Hne).
  destruct HRing as (Hsz & Hmeta & _ & HR & HL). cbv zeta in *.
  assert (Hk : length p >= 1) by (destruct p; [congruence|cbn; lia]).
  pose proof (GI_inv _ _ _ G) as I.
  pose proof (rc_live st st' p I Hk Hsz HR HL) as Hlive.
  split; [exact Hf|]. split; [exact Hsz|]. split; [lia|].
  set (off := size st) in *. set (k := length p) in *.
  constructor.
  - apply (rc_Inv st st' p I Hk Hsz HR HL).
  - rewrite Hsz. intros v Hv. rewrite HR, HL.
    destruct (Nat.leb_spec off v) as [Hge|Hlt]; cbn [andb].
    + destruct (Nat.ltb_spec v (off + k)); [|lia]. split.
      * destruct (Nat.eqb_spec (v + 1) (off + k)); [rewrite Nat.leb_refl; reflexivity|].
        destruct (Nat.leb_spec off (v + 1)); [reflexivity|lia].
      * destruct (Nat.eqb_spec v off); [destruct (Nat.leb_spec off (off + k - 1)); [reflexivity|lia]|].
        destruct (Nat.leb_spec off (v - 1)); [reflexivity|lia].
    + destruct (I_bound st I v Hlt) as [A B]. fold off in A, B. destruct (GI_lab _ _ _ G v Hlt) as [C D].
      destruct (Nat.leb_spec off (Rf st v)); [lia|]. destruct (Nat.leb_spec off (Lf st v)); [lia|]. auto.
  - intros j. destruct (Nat.eqb_spec j K) as [->|Hj].
    + split; [apply seq_NoDup|]. split.
      * intros v Hv. apply in_seq in Hv. rewrite Hsz. split; [lia|]. split.
        -- destruct (Nat.leb_spec off v); [reflexivity|lia].
        -- rewrite Hlive by lia. destruct (Nat.leb_spec off v); [reflexivity|lia].
      * assert (Ehd : hd 0 (seq off k) = off) by (destruct k; [lia|reflexivity]). rewrite Ehd.
        apply (rpath_seq st' off k); [|lia|lia].
        intros u Hu. rewrite HR. destruct (Nat.leb_spec off u); [|lia]. destruct (Nat.ltb_spec u (off + k)); [|lia]. reflexivity.
    + destruct (GI_cyc _ _ _ G j) as (A & B & C). split; [exact A|]. split.
      * intros v Hv. destruct (B v Hv) as (B1 & B2 & B3). fold off in B1. rewrite Hsz. split; [lia|]. split.
        -- destruct (Nat.leb_spec off v); [lia|exact B2].
        -- rewrite Hlive by lia. destruct (Nat.leb_spec off v); [lia|exact B3].
      * apply (rpath_ext st); [|exact C]. intros v Hv. rewrite removelast_last in Hv.
        destruct (B v Hv) as (B1 & _). fold off in B1. rewrite HR. destruct (Nat.leb_spec off v); [lia|reflexivity].
  - rewrite Hsz. intros v Hv Hl. rewrite Hlive in Hl by exact Hv.
    destruct (Nat.leb_spec off v) as [Hge|Hlt].
    + rewrite Nat.eqb_refl. apply in_seq. lia.
    + pose proof (GI_cov _ _ _ G v Hlt Hl) as Hin. destruct (Nat.eqb_spec (rid v) K) as [E|_]; [|exact Hin].
      exfalso. apply (Hlab v Hlt E).
  - destruct (GI_ct _ _ _ G) as (ct & Hct). exists ct.
    destruct Hmeta as (_ & _ & Hncl & _). rewrite Hsz, Hncl. intros v Hv Hlv. rewrite Hlive in Hlv by exact Hv.
    destruct (Nat.leb_spec off v) as [|Hlt]; [discriminate|].
    destruct (Hct v Hlt Hlv) as [A B]. split; [exact A|]. rewrite HR. destruct (Nat.leb_spec off v); [lia|]. cbn [andb].
    destruct (I_bound st I v Hlt) as [_ Hrb]. fold off in Hrb. rewrite Hlive by lia.
    destruct (Nat.leb_spec off (Rf st v)); [lia|]. exact B.
Qed.

Lemma initialize_ghost : forall ps st rid ring K st' starts,
  GInv st rid ring -> (forall j, K <= j -> ring j = []) -> (forall v, v < size st -> rid v < K) ->
  initialize st ps = Some (st', starts) ->
  size st <= size st' /\
  exists rid' ring', GInv st' rid' ring' /\
    (forall v, v < size st -> rid' v = rid v) /\
    (forall v, v < size st' -> rid' v < K + length ps) /\
    (forall j, K + length ps <= j -> ring' j = []) /\
    map rid' starts = seq K (length ps) /\ Forall (fun f => f < size st') starts /\
    length starts = length ps /\
    (forall j, j < K -> ring' j = ring j) /\
    (forall j, j < length ps -> length (ring' (K + j)) = length (nth j ps [])).
Proof.
  induction ps as [|p t IH]; intros st rid ring K st' starts G Hr Hl H; cbn [initialize] in H.
  - inversion H; subst. split; [lia|]. exists rid, ring. rewrite Nat.add_0_r. cbn.
    split; [exact G|]. split; [auto|]. split; [exact Hl|]. split; [exact Hr|]. split; [reflexivity|].
    split; [constructor|]. split; [reflexivity|]. split; [auto|]. intros j Hj; lia.
  - unfold bind in H. destruct (init_poly st p) as [[st1 first]|] eqn:E; [|discriminate].
    destruct (initialize st1 t) as [[st2 starts2]|] eqn:E2; [|discriminate].
    inversion H; subst st' starts; clear H.
    destruct (init_poly_ghost st rid ring K p st1 first G (Hr K (le_n _))) with (2 := E) as (Hf & Hs1 & Hp1 & G1).
    { intros v Hv. specialize (Hl v Hv). lia. }
    set (rid1 := fun v => if size st <=? v then K else rid v) in *.
    set (ring1 := fun j => if j =? K then seq (size st) (length p) else ring j) in *.
    destruct (IH st1 rid1 ring1 (S K) st2 starts2 G1) with (3 := E2) as (Hle & rid2 & ring2 & G2 & Hold & Hlt & Hemp & Hmap & Hall & Hlen & Hstab & Hrl).
    { intros j Hj. unfold ring1. destruct (Nat.eqb_spec j K); [lia|]. apply Hr. lia. }
    { intros v Hv. unfold rid1. destruct (Nat.leb_spec (size st) v); [lia|]. specialize (Hl v ltac:(lia)). lia. }
    split; [lia|]. exists rid2, ring2. split; [exact G2|]. cbn [length]. split; [|split; [|split; [|split; [|split; [|split; [|split]]]]]].
    + intros v Hv. rewrite Hold by lia. unfold rid1. destruct (Nat.leb_spec (size st) v); [lia|reflexivity].
    + intros v Hv. specialize (Hlt v Hv). lia.
    + intros j Hj. apply Hemp. lia.
    + cbn [map seq]. f_equal; [|exact Hmap]. rewrite Hold by lia. unfold rid1. rewrite Hf, Nat.leb_refl. reflexivity.
    + constructor; [lia|exact Hall].
    + cbn [length]. lia.
    + intros j Hj. rewrite Hstab by lia. unfold ring1. destruct (Nat.eqb_spec j K); [lia|reflexivity].
    + intros j Hj. destruct j as [|j'].
      * rewrite Nat.add_0_r, Hstab by lia. unfold ring1. rewrite Nat.eqb_refl, seq_length. reflexivity.
      * replace (K + S j') with (S K + j') by lia. cbn [nth]. apply Hrl. lia.
Qed.

Lemma reset_ghost polys : GInv (reset polys) (fun _ => 0) (fun _ => []).
Proof.
  constructor.
  - constructor; cbn; intros; lia.
  - cbn. intros; lia.
  - intros k. apply Cyc_nil.
  - cbn. intros; lia.
  - exists (fun _ => 0). cbn. intros; lia.
Qed.

(* ------------------------------------------------------------------ *)
(* FindStart: holes, outers and simples lie in pairwise different rings *)

Lemma insert_at_perm {A} (y : A) : forall k l, Permutation (insert_at k y l) (y :: l).
Proof.
  induction k as [|k IH]; intros l; [destruct l; reflexivity|].
  destruct l as [|h t]; cbn [insert_at]; [reflexivity|].
  rewrite IH. apply perm_swap.
Qed.

(* ring count (for the closed triangle-count formula).  `big` = every input contour has at least
   two vertices; K = number of input contours *)
Fixpoint cntne (ring : nat -> list nat) (K : nat) : nat :=
  match K with 0 => 0 | S k => cntne ring k + match ring k with [] => 0 | _ => 1 end end.
Fixpoint sumlen (ring : nat -> list nat) (K : nat) : nat :=
  match K with 0 => 0 | S k => sumlen ring k + length (ring k) end.

Record RC (big : Prop) (K : nat) (st : St) (rid : nat -> nat) (ring : nat -> list nat) : Prop := mkRC {
  RC_lab : forall v, v < size st -> rid v < K;
  RC_emp : forall k, K <= k -> ring k = [];
  RC_two : big -> forall k, ring k = [] \/ 2 <= length (ring k);
  RC_cnt : big -> cntne ring K + njoin st = K
}.

Lemma cntne_status ring ring' K :
  (forall k, k < K -> (ring' k = [] <-> ring k = [])) -> cntne ring' K = cntne ring K.
Proof.
  induction K as [|k IH]; intros H; [reflexivity|]. cbn [cntne]. rewrite IH by (intros j Hj; apply H; lia).
  specialize (H k (le_n _)). destruct (ring k), (ring' k); try reflexivity.
  - destruct H as [_ H]. specialize (H eq_refl). discriminate.
  - destruct H as [H _]. specialize (H eq_refl). discriminate.
Qed.
Lemma cntne_drop ring ring' K k0 :
  k0 < K -> ring k0 <> [] -> ring' k0 = [] ->
  (forall k, k < K -> k <> k0 -> (ring' k = [] <-> ring k = [])) -> S (cntne ring' K) = cntne ring K.
Proof.
  induction K as [|k IH]; intros Hk Hne He H; [lia|]. cbn [cntne].
  destruct (Nat.eq_dec k k0) as [->|Hkk].
  - rewrite (cntne_status ring ring' k0) by (intros j Hj; apply H; lia).
    rewrite He. destruct (ring k0); [congruence|]. lia.
  - rewrite <- (IH ltac:(lia) Hne He) by (intros j Hj Hjk; apply H; [lia|exact Hjk]).
    specialize (H k (le_n _) Hkk). destruct (ring k), (ring' k); try lia.
    + destruct H as [_ H]. specialize (H eq_refl). discriminate.
    + destruct H as [H _]. specialize (H eq_refl). discriminate.
Qed.

Lemma RC_shrink big K st rid ring st' ring' :
  RC big K st rid ring -> size st' = size st -> njoin st' = njoin st ->
  (forall k, incl (ring' k) (ring k)) -> (forall k, 2 <= length (ring k) -> 2 <= length (ring' k)) ->
  RC big K st' rid ring'.
Proof.
  intros [A B C D] Hs Hj Hi H2.
  assert (Hst : big -> forall k, ring' k = [] <-> ring k = []).
  { intros Hb k. split.
    - intros E. destruct (C Hb k) as [E0|E2]; [exact E0|]. specialize (H2 k E2). rewrite E in H2. cbn in H2. lia.
    - intros E. specialize (Hi k). rewrite E in Hi. destruct (ring' k) as [|x t]; [reflexivity|]. destruct (Hi x (or_introl eq_refl)). }
  constructor.
  - intros v Hv. apply A. lia.
  - intros k Hk. specialize (Hi k). rewrite (B k Hk) in Hi. destruct (ring' k) as [|x t]; [reflexivity|]. destruct (Hi x (or_introl eq_refl)).
  - intros Hb k. destruct (C Hb k) as [E0|E2]; [left; apply (Hst Hb k); exact E0|right; apply H2; exact E2].
  - intros Hb. rewrite Hj, (cntne_status ring ring' K) by (intros k _; apply (Hst Hb k)). apply D. exact Hb.
Qed.

Record BookF (big : Prop) (K : nat) (st : St) (rid : nat -> nat) (ring : nat -> list nat) (F H O S : list nat) : Prop := mkBook {
  B_first : forall f, In f F -> f < size st /\ ~ In (rid f) (map rid H) /\ ~ In (rid f) (map rid S);
  B_fnodup : NoDup (map rid F);
  B_hole : forall h, In h H -> h < size st /\ live st h = true;
  B_nodup : NoDup (map rid H);
  B_disj : forall h x, In h H -> In x S -> rid h <> rid x;
  B_outer : forall o, In o O -> o < size st /\ In (rid o) (map rid S);
  B_simple : forall x, In x S -> x < size st;
  B_cover : forall k, 3 <= length (ring k) -> In k (map rid F) \/ In k (map rid H) \/ In k (map rid S);
  B_rc : RC big K st rid ring
}.

Section FindStarts.
Variable orc : Oracle.
Variable big : Prop.
Variable K : nat.

Lemma fold_start_spec st first vis :
  let r := fold_left (fun su v => if o_newstart orc st first (fst su) (snd su) v then (v, true) else su)
                     vis (first, false) in
  (snd r = false /\ fst r = first) \/ (snd r = true /\ In (fst r) vis).
Proof.
  cbv zeta. set (f := fun su v => if o_newstart orc st first (fst su) (snd su) v then (v, true) else su).
  assert (H : forall l acc su, vis = acc ++ l ->
            ((snd su = false /\ fst su = first) \/ (snd su = true /\ In (fst su) acc)) ->
            let r := fold_left f l su in (snd r = false /\ fst r = first) \/ (snd r = true /\ In (fst r) vis)).
  { induction l as [|v t IH]; intros acc su E Hsu; cbn [fold_left].
    - rewrite app_nil_r in E. subst acc. exact Hsu.
    - apply (IH (acc ++ [v])); [rewrite <- app_assoc; exact E|].
      assert (Ef : f su v = (v, true) \/ f su v = su).
      { unfold f. destruct (o_newstart orc st first (fst su) (snd su) v); auto. }
      destruct Ef as [Ef|Ef]; rewrite Ef; cbn [fst snd].
      + right. split; [reflexivity|]. apply in_or_app. right. left. reflexivity.
      + destruct Hsu as [Hs|[Hs1 Hs2]]; [left; exact Hs|right; split; [exact Hs1|apply in_or_app; left; exact Hs2]]. }
  apply (H vis [] (first, false) eq_refl). left. auto.
Qed.

Lemma findStart_spec fuel st rid ring f r :
  GInv st rid ring -> f < size st -> findStart orc fuel st f = Some r ->
  match r with
  | FSdead => length (ring (rid f)) <= 2
  | FShole s => s < size st /\ live st s = true /\ rid s = rid f
  | FSsimple s _ => s < size st /\ rid s = rid f
  end.
Proof.
  intros G Hf. unfold findStart, bind.
  destruct (loop fuel st f) as [[vis res]|] eqn:El; [|discriminate].
  pose proof (loop_ring st rid ring fuel f vis res G Hf El) as Hspec.
  destruct res as [v|].
  - destruct Hspec as [(_ & _ & Hn)|(Hbig & _ & Hmem & _ & _)]; [discriminate|].
    pose proof (fold_start_spec st f vis) as Hfs. cbv zeta in Hfs.
    destruct (fold_left _ vis (f, false)) as [start updated]. cbn [fst snd] in Hfs.
    assert (Hst : start < size st /\ rid start = rid f /\ (updated = true -> live st start = true)).
    { destruct Hfs as [[-> ->]|[-> Hin]].
      - split; [exact Hf|]. split; [reflexivity|discriminate].
      - apply Hmem in Hin. destruct (GInv_in_live _ _ _ _ _ G Hin) as (A & B & C). auto. }
    destruct Hst as (A & B & C).
    destruct (updated && o_hole orc st f start) eqn:Eh; intros H; inversion H; subst.
    + apply andb_true_iff in Eh. destruct Eh as [Eu _]. auto.
    + auto.
  - intros H; inversion H; subst. destruct Hspec as [(Hsm & _)|(_ & _ & _ & _ & x & Hx & _)]; [exact Hsm|discriminate].
Qed.

Lemma findStarts_book fuel st rid ring (G : GInv st rid ring) : forall F H O S H' O' S',
  BookF big K st rid ring F H O S ->
  findStarts orc fuel st F H O S = Some (H', O', S') ->
  BookF big K st rid ring [] H' O' S' /\ length H' <= length H + length F.
Proof.
  induction F as [|f t IH]; intros H O S H' O' S' B E; cbn [findStarts] in E.
  - inversion E; subst. split; [exact B|lia].
  - unfold bind in E. destruct (findStart orc fuel st f) as [r|] eqn:Ef; [|discriminate].
    destruct B as [Bf Bfn Bh Bn Bd Bo Bs Bc Brc].
    destruct (Bf f (or_introl eq_refl)) as (Hf & HfH & HfS).
    pose proof (findStart_spec fuel st rid ring f r G Hf Ef) as Hr.
    cbn [map] in Bfn. apply NoDup_cons_iff in Bfn. destruct Bfn as [Hft Bfn'].
    assert (Bf' : forall g, In g t -> g < size st) by (intros g Hg; apply (Bf g (or_intror Hg))).
    destruct r as [|s|s outer].
    + (* dead *)
      destruct (IH H O S H' O' S') as [B' L']; [|exact E|split; [exact B'|cbn [length]; lia]].
      constructor; auto.
      * intros g Hg. apply (Bf g (or_intror Hg)).
      * intros k Hk. destruct (Bc k Hk) as [[<-|Hin]|Hr']; [lia|left; exact Hin|right; exact Hr'].
    + (* hole *)
      destruct Hr as (Hs & Hls & Hks).
      set (Hn := insert_at (o_holepos orc st H s) s H) in *.
      assert (Pm : Permutation Hn (s :: H)) by apply insert_at_perm.
      assert (Pmm : Permutation (map rid Hn) (rid s :: map rid H)) by (apply (Permutation_map rid) in Pm; exact Pm).
      destruct (IH Hn O S H' O' S') as [B' L']; [|exact E|split; [exact B'|]].
      2:{ rewrite (Permutation_length Pm) in L'. cbn [length] in *. lia. }
      constructor; auto.
      * intros g Hg. destruct (Bf g (or_intror Hg)) as (A1 & A2 & A3). split; [exact A1|]. split; [|exact A3].
        intros Hin. apply (Permutation_in _ Pmm) in Hin. destruct Hin as [Eq|Hin]; [|contradiction].
        apply Hft. rewrite <- Hks, Eq. apply in_map. exact Hg.
      * intros h Hh. apply (Permutation_in _ Pm) in Hh. destruct Hh as [<-|Hh]; [auto|apply Bh; exact Hh].
      * apply (Permutation_NoDup (Permutation_sym Pmm)). constructor; [rewrite Hks; exact HfH|exact Bn].
      * intros h x Hh Hx. apply (Permutation_in _ Pm) in Hh. destruct Hh as [<-|Hh]; [|apply Bd; assumption].
        rewrite Hks. intros Eq. apply HfS. rewrite Eq. apply in_map. exact Hx.
      * intros k Hk. destruct (Bc k Hk) as [[<-|Hin]|[Hin|Hin]]; auto.
        -- right. left. apply (Permutation_in _ (Permutation_sym Pmm)). left. exact Hks.
        -- right. left. apply (Permutation_in _ (Permutation_sym Pmm)). right. exact Hin.
    + (* simple *)
      destruct Hr as (Hs & Hks).
      destruct (IH H (if outer then O ++ [s] else O) (S ++ [s]) H' O' S') as [B' L']; [|exact E|split; [exact B'|cbn [length]; lia]].
      constructor; auto.
      * intros g Hg. destruct (Bf g (or_intror Hg)) as (A1 & A2 & A3). split; [exact A1|]. split; [exact A2|].
        rewrite map_app, in_app_iff. intros [Hin|[Eq|[]]]; [contradiction|].
        apply Hft. rewrite <- Hks, Eq. apply in_map. exact Hg.
      * intros h x Hh Hx. apply in_app_or in Hx. destruct Hx as [Hx|[<-|[]]]; [apply Bd; assumption|].
        rewrite Hks. intros Eq. apply HfH. rewrite <- Eq. apply in_map. exact Hh.
      * intros o Ho. assert (Ho' : In o O \/ o = s).
        { destruct outer; [apply in_app_or in Ho; destruct Ho as [Ho|[<-|[]]]; auto|auto]. }
        rewrite map_app, in_app_iff. destruct Ho' as [Ho'| ->].
        -- destruct (Bo o Ho'). auto.
        -- split; [exact Hs|]. right. left. reflexivity.
      * intros x Hx. apply in_app_or in Hx. destruct Hx as [Hx|[<-|[]]]; [apply Bs; exact Hx|exact Hs].
      * intros k Hk. rewrite map_app, in_app_iff. destruct (Bc k Hk) as [[<-|Hin]|[Hin|Hin]]; auto.
        right. right. right. left. exact Hks.
Qed.
End FindStarts.

(* ------------------------------------------------------------------ *)
(* CutKeyhole: the connector is a live record of an outer ring, the start a live record of a
   different (hole) ring *)

Section Keyholes.
Variable orc : Oracle.
Variable big : Prop.
Variable K : nat.

Lemma fold_left_pred {A B} (f : A -> B -> A) (P : A -> Prop) (Q : B -> Prop) :
  (forall a v, P a -> Q v -> P (f a v)) ->
  forall l a, P a -> (forall v, In v l -> Q v) -> P (fold_left f l a).
Proof.
  intros Hf. induction l as [|v t IH]; intros a Ha Hl; cbn [fold_left]; [exact Ha|].
  apply IH; [apply Hf; [exact Ha|apply Hl; left; reflexivity]|intros w Hw; apply Hl; right; exact Hw].
Qed.

Lemma over_outers_pred {A} fuel st rid ring (G : GInv st rid ring) (Q : nat -> Prop) (P : A -> Prop) f :
  (forall a v, P a -> Q v -> P (f a v)) ->
  forall O a a', (forall o, In o O -> o < size st) ->
  (forall o v, In o O -> In v (ring (rid o)) -> Q v) ->
  P a -> over_outers fuel st O f a = Some a' -> P a'.
Proof.
  intros Hf. induction O as [|o t IH]; intros a a' Hb HQ Ha H; cbn [over_outers] in H.
  - inversion H; subst. exact Ha.
  - unfold bind in H. destruct (loop fuel st o) as [[vis res]|] eqn:El; [|discriminate].
    pose proof (loop_ring st rid ring fuel o vis res G (Hb o (or_introl eq_refl)) El) as Hs.
    apply (IH (fold_left f vis a) a'); auto.
    + intros o' Ho'. apply Hb. right. exact Ho'.
    + intros o' v Ho'. apply HQ. right. exact Ho'.
    + apply (fold_left_pred f P Q Hf); [exact Ha|].
      intros v Hv. apply (HQ o v (or_introl eq_refl)).
      destruct Hs as [(_ & -> & _)|(_ & _ & Hmem & _)]; [destruct Hv|apply Hmem; exact Hv].
Qed.

Lemma map_rid_ext (rid rid' : nat -> nat) l : (forall x, In x l -> rid' x = rid x) -> map rid' l = map rid l.
Proof. intros H. apply map_ext_in. exact H. Qed.

Lemma cutKeyhole_ring fuel st rid ring H O S h st' lost :
  GInv st rid ring -> BookF big K st rid ring [] (h :: H) O S ->
  cutKeyhole orc fuel st O h = Some (st', lost) ->
  nbad st' = nbad st /\ njoin st' <= njoin st + 1 /\ njoin st <= njoin st' /\
  size st' = size st + 2 * (njoin st' - njoin st) /\
  exists rid' ring', GInv st' rid' ring' /\ BookF big K st' rid' ring' [] H O (if lost then S ++ [h] else S).
Proof.
  intros G B. destruct B as [_ _ Bh Bn Bd Bo Bs Bc Brc].
  cbn [map] in Bn. apply NoDup_cons_iff in Bn. destruct Bn as [Hh_H Bn'].
  destruct (Bh h (or_introl eq_refl)) as [Hh Hlh].
  set (Q := fun v => v < size st /\ live st v = true /\ In (rid v) (map rid S)).
  assert (HQ : forall o v, In o O -> In v (ring (rid o)) -> Q v).
  { intros o v Ho Hv. destruct (GInv_in_live _ _ _ _ _ G Hv) as (A & B & C). destruct (Bo o Ho) as [_ D].
    split; [exact A|]. split; [exact C|]. rewrite B. exact D. }
  assert (HOb : forall o, In o O -> o < size st) by (intros o Ho; apply (Bo o Ho)).
  unfold cutKeyhole, bind.
  destruct (over_outers fuel st O _ None) as [conn|] eqn:Ec; [|discriminate].
  assert (Hconn : match conn with None => True | Some e => Q e end).
  { refine (over_outers_pred fuel st rid ring G Q (fun c => match c with None => True | Some e => Q e end) _ _ O None conn HOb HQ Logic.I Ec).
    intros a v Ha Hv. destruct (o_conn orc st h a v); [exact Hv|exact Ha]. }
  destruct conn as [edge|].
  2:{ intros E; inversion E; subst. split; [reflexivity|]. split; [lia|]. split; [lia|]. split; [lia|].
      exists rid, ring. split; [exact G|]. constructor.
      - intros f [].
      - constructor.
      - intros x Hx. apply Bh. right. exact Hx.
      - exact Bn'.
      - intros x y Hx Hy. apply in_app_or in Hy. destruct Hy as [Hy|[<-|[]]].
        + apply Bd; [right; exact Hx|exact Hy].
        + intros Eq. apply Hh_H. rewrite <- Eq. apply in_map. exact Hx.
      - intros o Ho. destruct (Bo o Ho) as [A D]. split; [exact A|]. rewrite map_app, in_app_iff. left. exact D.
      - intros x Hx. apply in_app_or in Hx. destruct Hx as [Hx|[<-|[]]]; [apply Bs; exact Hx|exact Hh].
      - intros k Hk. destruct (Bc k Hk) as [[]|[[<-|Hin]|Hin]].
        + right. right. rewrite map_app, in_app_iff. right. left. reflexivity.
        + right. left. exact Hin.
        + right. right. rewrite map_app, in_app_iff. left. exact Hin.
      - exact Brc. }
  destruct (if o_bridge0 orc st h edge then getR st edge else Some edge) as [c0|] eqn:E0; [|discriminate].
  assert (Hc0 : Q c0).
  { destruct Hconn as (A & B & C). destruct (o_bridge0 orc st h edge).
    - apply getR_inv in E0. destruct E0 as [_ ->]. pose proof (GI_inv _ _ _ G) as I.
      split; [apply (I_bound st I edge A)|]. split; [apply (I_rlive st I edge A B)|].
      destruct (GI_lab _ _ _ G edge A) as [L _]. rewrite L. exact C.
    - inversion E0; subst. split; auto. }
  destruct (if o_bridge_early orc st h c0 then Some c0 else _) as [c1|] eqn:E1; [|discriminate].
  assert (Hc1 : Q c1).
  { destruct (o_bridge_early orc st h c0).
    - inversion E1; subst. exact Hc0.
    - refine (over_outers_pred fuel st rid ring G Q Q _ _ O c0 c1 HOb HQ Hc0 E1).
      intros a v Ha Hv. destruct (o_bridge orc st h edge a v); [exact Hv|exact Ha]. }
  destruct (joinPolygons orc fuel st h c1) as [st1|] eqn:Ej; [|discriminate].
  intros E; inversion E; subst st1 lost; clear E.
  destruct Hc1 as (Hc1b & Hc1l & Hc1S).
  assert (Hk : rid h <> rid c1).
  { intros Eq. apply in_map_iff in Hc1S. destruct Hc1S as (x & Hx1 & Hx2).
    apply (Bd h x (or_introl eq_refl) Hx2). congruence. }
  destruct (joinPolygons_ring orc fuel st rid ring h c1 st' G Hlh Hc1l Hk Ej)
    as (A1 & A2 & A3 & rid' & ring' & G' & Ro & Rn & Rks & Rfr & Rkc).
  split; [exact A1|]. split; [lia|]. split; [lia|]. split; [lia|].
  exists rid', ring'. split; [exact G'|].
  assert (RS : forall x, In x S -> rid' x = rid x).
  { intros x Hx. rewrite Ro by (apply Bs; exact Hx). destruct (Nat.eqb_spec (rid x) (rid h)) as [Eq|]; [|reflexivity].
    exfalso. apply (Bd h x (or_introl eq_refl) Hx). congruence. }
  assert (RH : forall x, In x H -> rid' x = rid x).
  { intros x Hx. rewrite Ro by (apply Bh; right; exact Hx). destruct (Nat.eqb_spec (rid x) (rid h)) as [Eq|]; [|reflexivity].
    exfalso. apply Hh_H. rewrite <- Eq. apply in_map. exact Hx. }
  rewrite <- (map_rid_ext rid rid' S RS) in *.
  constructor.
  - intros f [].
  - constructor.
  - intros x Hx. destruct (Bh x (or_intror Hx)) as [Hxb Hxl]. split; [lia|].
    assert (Hx_h : rid x <> rid h) by (intros Eq; apply Hh_H; rewrite <- Eq; apply in_map; exact Hx).
    assert (Hx_c : rid x <> rid c1).
    { intros Eq. apply in_map_iff in Hc1S. destruct Hc1S as (y & Hy1 & Hy2).
      apply (Bd x y (or_intror Hx) Hy2). rewrite RS in Hy1 by exact Hy2. congruence. }
    pose proof (GI_cov _ _ _ G x Hxb Hxl) as Hin. rewrite <- (Rfr _ Hx_h Hx_c) in Hin.
    destruct (GInv_in_live _ _ _ _ _ G' Hin) as (_ & _ & C). exact C.
  - rewrite (map_rid_ext rid rid' H RH). exact Bn'.
  - intros x y Hx Hy. rewrite (RH x Hx), (RS y Hy). apply Bd; [right; exact Hx|exact Hy].
  - intros o Ho. destruct (Bo o Ho) as [A D]. split; [lia|].
    assert (Eo : rid' o = rid o).
    { rewrite Ro by exact A. destruct (Nat.eqb_spec (rid o) (rid h)) as [Eq|]; [|reflexivity].
      exfalso. rewrite (map_rid_ext rid rid' S RS) in D. apply in_map_iff in D. destruct D as (y & Hy1 & Hy2).
      apply (Bd h y (or_introl eq_refl) Hy2). congruence. }
    rewrite Eo. exact D.
  - intros x Hx. specialize (Bs x Hx). lia.
  - intros k Hk3. destruct (Nat.eq_dec k (rid h)) as [->|Hkh]; [rewrite Rks in Hk3; cbn in Hk3; lia|].
    destruct (Nat.eq_dec k (rid c1)) as [->|Hkc]; [right; right; exact Hc1S|].
    rewrite (Rfr k Hkh Hkc) in Hk3. destruct (Bc k Hk3) as [[]|[[Eq|Hin]|Hin]].
    + congruence.
    + right. left. rewrite (map_rid_ext rid rid' H RH). exact Hin.
    + right. right. exact Hin.
  - destruct Brc as [RA RB RC2 RD].
    assert (Hkh : rid h < K) by (apply RA; exact Hh). assert (Hkc : rid c1 < K) by (apply RA; exact Hc1b).
    pose proof (GI_cov _ _ _ G h Hh Hlh) as Hhin. pose proof (GI_cov _ _ _ G c1 Hc1b Hc1l) as Hcin.
    constructor.
    + intros v Hv. destruct (Nat.lt_ge_cases v (size st)) as [Hlt|Hge].
      * rewrite Ro by exact Hlt. destruct (rid v =? rid h); [exact Hkc|apply RA; exact Hlt].
      * rewrite Rn by exact Hge. exact Hkc.
    + intros k Hkk. rewrite Rfr by lia. apply RB. exact Hkk.
    + intros Hb k. destruct (Nat.eq_dec k (rid h)) as [->|Hk1]; [left; exact Rks|].
      destruct (Nat.eq_dec k (rid c1)) as [->|Hk2]; [right; exact Rkc|]. rewrite Rfr by assumption. apply RC2. exact Hb.
    + intros Hb. rewrite A2.
      assert (Hd : Datatypes.S (cntne ring' K) = cntne ring K).
      { apply (cntne_drop ring ring' K (rid h) Hkh).
        - intros E. rewrite E in Hhin. destruct Hhin.
        - exact Rks.
        - intros k Hkk Hkne. destruct (Nat.eq_dec k (rid c1)) as [->|Hk2].
          + split; [intros E; rewrite E in Rkc; cbn in Rkc; lia|intros E; rewrite E in Hcin; destruct Hcin].
          + rewrite Rfr by assumption. tauto. }
      specialize (RD Hb). lia.
Qed.

Lemma cutKeyholes_ring fuel O : forall H st rid ring S st' S',
  GInv st rid ring -> BookF big K st rid ring [] H O S ->
  cutKeyholes orc fuel st O H S = Some (st', S') ->
  nbad st' = nbad st /\ njoin st' <= njoin st + length H /\ njoin st <= njoin st' /\
  size st' = size st + 2 * (njoin st' - njoin st) /\
  exists rid' ring', GInv st' rid' ring' /\ BookF big K st' rid' ring' [] [] O S'.
Proof.
  induction H as [|h t IH]; intros st rid ring S st' S' G B E; cbn [cutKeyholes] in E.
  - inversion E; subst. split; [reflexivity|]. split; [lia|]. split; [lia|]. split; [lia|]. exists rid, ring. auto.
  - unfold bind in E. destruct (cutKeyhole orc fuel st O h) as [[st1 lost]|] eqn:Ek; [|discriminate].
    destruct (cutKeyhole_ring fuel st rid ring t O S h st1 lost G B Ek) as (A1 & A2 & A3 & A4 & rid1 & ring1 & G1 & B1).
    destruct (IH st1 rid1 ring1 _ st' S' G1 B1 E) as (C1 & C2 & C3 & C4 & rid2 & ring2 & G2 & B2).
    split; [congruence|]. cbn [length]. split; [lia|]. split; [lia|]. split; [lia|]. exists rid2, ring2. auto.
Qed.
End Keyholes.

(* ------------------------------------------------------------------ *)
(* TriangulatePoly over all simples; the final theorem *)

Section Final.
Variable orc : Oracle.

Lemma triangulatePolys_ring fuel : forall Sm st rid ring st',
  GInv st rid ring -> (forall x, In x Sm -> x < size st) ->
  (forall k, 3 <= length (ring k) -> In k (map rid Sm)) ->
  triangulatePolys orc fuel st Sm = Some st' ->
  nbad st' = nbad st /\ njoin st' = njoin st /\ size st' = size st /\
  exists ring', GInv st' rid ring' /\ forall k, length (ring' k) <= 2.
Proof.
  induction Sm as [|s t IH]; intros st rid ring st' G Hb Hc E; cbn [triangulatePolys] in E.
  - inversion E; subst. split; [reflexivity|]. split; [reflexivity|]. split; [reflexivity|].
    exists ring. split; [exact G|]. intros k. destruct (Nat.le_gt_cases (length (ring k)) 2) as [|Hk]; [assumption|].
    destruct (Hc k Hk).
  - unfold bind in E. destruct (triangulatePoly orc fuel st s) as [st1|] eqn:E1; [|discriminate].
    destruct (triangulatePoly_ring orc fuel st rid ring s st1 G (Hb s (or_introl eq_refl)) E1)
      as (A1 & A2 & A3 & ring1 & G1 & F1 & L1 & _).
    destruct (IH st1 rid ring1 st' G1) with (3 := E) as (B1 & B2 & B3 & ring2 & G2 & L2).
    + intros x Hx. rewrite A3. apply Hb. right. exact Hx.
    + intros k Hk. destruct (Nat.eq_dec k (rid s)) as [->|Hks]; [lia|].
      rewrite (F1 k Hks) in Hk. destruct (Hc k Hk) as [Eq|Hin]; [congruence|exact Hin].
    + split; [congruence|]. split; [congruence|]. split; [congruence|]. exists ring2. auto.
Qed.

Lemma rings_closed_small st rid ring :
  GInv st rid ring -> (forall k, length (ring k) <= 2) -> rings_closed st = true.
Proof.
  intros G Hsm. unfold rings_closed. apply forallb_forall. intros v Hv. apply in_seq in Hv.
  destruct (live st v) eqn:Hl; [|reflexivity]. cbn [negb orb].
  apply Nat.eqb_eq.
  apply (Cyc_small st rid (rid v) (ring (rid v)) v (GI_inv _ _ _ G) (GI_cyc _ _ _ G _) (GI_cov _ _ _ G v ltac:(lia) Hl) (Hsm _)).
Qed.

(* ring bookkeeping of the state Initialize returns *)
Lemma init_ghost_full polys st1 starts :
  initialize (reset polys) polys = Some (st1, starts) ->
  let big := Forall (fun p : list Z => 2 <= length p) polys in
  let K := length polys in
  exists rid1 ring1, GInv st1 rid1 ring1 /\ RC big K st1 rid1 ring1 /\
    map rid1 starts = seq 0 K /\ Forall (fun f => f < size st1) starts /\ length starts = K.
Proof.
  intros Ei. cbv zeta.
  pose proof (initialize_good polys [] _ _ _ (reset_good polys) Ei) as IG. cbn [app] in IG.
  destruct (initialize_ghost polys (reset polys) (fun _ => 0) (fun _ => []) 0 st1 starts (reset_ghost polys))
    with (3 := Ei) as (_ & rid1 & ring1 & G1 & _ & Hlt & Hemp & Hmap & Hall & Hlens & _ & Hrl).
  { reflexivity. } { cbn. intros; lia. }
  exists rid1, ring1. split; [exact G1|]. split; [|auto].
  assert (Hne : Forall (fun p : list Z => 2 <= length p) polys -> forall k, k < length polys -> 2 <= length (ring1 k)).
  { intros Hb k Hk. specialize (Hrl k Hk). cbn [Nat.add] in Hrl. rewrite Hrl.
    rewrite Forall_forall in Hb. apply Hb. apply nth_In. exact Hk. }
  constructor.
  - exact Hlt.
  - exact Hemp.
  - intros Hb k. destruct (Nat.lt_ge_cases k (length polys)) as [Hk|Hk]; [right; apply Hne; assumption|left; apply Hemp; exact Hk].
  - intros Hb. rewrite (IG_njoin _ _ IG), Nat.add_0_r.
    assert (Hc : forall n, n <= length polys -> cntne ring1 n = n).
    { induction n as [|n IHn]; intros Hn; [reflexivity|]. cbn [cntne]. rewrite IHn by lia.
      specialize (Hne Hb n ltac:(lia)). destruct (ring1 n); [cbn in Hne; lia|lia]. }
    apply Hc. lia.
Qed.

Lemma sweep_book fuel polys st1 starts rid1 ring1 st2 :
  let big := Forall (fun p : list Z => 2 <= length p) polys in
  let K := length polys in
  GInv st1 rid1 ring1 -> RC big K st1 rid1 ring1 ->
  map rid1 starts = seq 0 K -> Forall (fun f => f < size st1) starts ->
  sweep orc fuel st1 (seq 0 (length (poly st1))) = Some st2 ->
  nbad st2 = nbad st1 /\ njoin st2 = njoin st1 /\ size st2 = size st1 /\
  exists ring2, GInv st2 rid1 ring2 /\ BookF big K st2 rid1 ring2 starts [] [] [].
Proof.
  cbv zeta. intros G1 R1 Hmap Hall E2.
  destruct (sweep_ring orc fuel _ st1 rid1 ring1 st2 G1 E2) as (A1 & A2 & A3 & ring2 & G2 & Hincl & Htwo).
  split; [exact A1|]. split; [exact A2|]. split; [exact A3|]. exists ring2. split; [exact G2|].
  constructor.
  - intros f Hf. rewrite Forall_forall in Hall. split; [rewrite A3; apply Hall; exact Hf|]. cbn. auto.
  - rewrite Hmap. apply seq_NoDup.
  - intros h [].
  - constructor.
  - intros h x [].
  - intros o [].
  - intros x [].
  - intros k Hk. left. rewrite Hmap. apply in_seq. cbn [Nat.add].
    destruct (Nat.lt_ge_cases k (length polys)) as [|Hge]; [lia|].
    exfalso. pose proof (RC_emp _ _ _ _ _ R1 k Hge) as Hemp. specialize (Hincl k). rewrite Hemp in Hincl.
    destruct (ring2 k) as [|x t]; [cbn in Hk; lia|]. destruct (Hincl x (or_introl eq_refl)).
  - apply (RC_shrink _ _ st1 rid1 ring1 st2 ring2 R1 A3 A2 Hincl Htwo).
Qed.

Lemma triangulatePolys_ring_rc big K fuel : forall Sm st rid ring st',
  GInv st rid ring -> RC big K st rid ring -> (forall x, In x Sm -> x < size st) ->
  (forall k, 3 <= length (ring k) -> In k (map rid Sm)) ->
  triangulatePolys orc fuel st Sm = Some st' ->
  nbad st' = nbad st /\ njoin st' = njoin st /\ size st' = size st /\
  exists ring', GInv st' rid ring' /\ RC big K st' rid ring' /\ forall k, length (ring' k) <= 2.
Proof.
  induction Sm as [|s t IH]; intros st rid ring st' G R Hb Hc E; cbn [triangulatePolys] in E.
  - inversion E; subst. split; [reflexivity|]. split; [reflexivity|]. split; [reflexivity|].
    exists ring. split; [exact G|]. split; [exact R|]. intros k. destruct (Nat.le_gt_cases (length (ring k)) 2) as [|Hk]; [assumption|].
    destruct (Hc k Hk).
  - unfold bind in E. destruct (triangulatePoly orc fuel st s) as [st1|] eqn:E1; [|discriminate].
    destruct (triangulatePoly_ring orc fuel st rid ring s st1 G (Hb s (or_introl eq_refl)) E1)
      as (A1 & A2 & A3 & ring1 & G1 & F1 & L1 & I1 & T1).
    assert (R1 : RC big K st1 rid ring1).
    { apply (RC_shrink _ _ st rid ring st1 ring1 R A3 A2).
      - intros k. destruct (Nat.eq_dec k (rid s)) as [->|Hk]; [exact I1|rewrite F1 by exact Hk; apply incl_refl].
      - intros k Hk. destruct (Nat.eq_dec k (rid s)) as [->|Hk']; [apply T1; exact Hk|rewrite F1 by exact Hk'; exact Hk]. }
    destruct (IH st1 rid ring1 st' G1 R1) with (3 := E) as (B1 & B2 & B3 & ring2 & G2 & R2 & L2).
    + intros x Hx. rewrite A3. apply Hb. right. exact Hx.
    + intros k Hk. destruct (Nat.eq_dec k (rid s)) as [->|Hks]; [lia|].
      rewrite (F1 k Hks) in Hk. destruct (Hc k Hk) as [Eq|Hin]; [congruence|exact Hin].
    + split; [congruence|]. split; [congruence|]. split; [congruence|]. exists ring2. auto.
Qed.

(* the live records are exactly the members of the rings *)
Lemma NoDup_rings st rid ring (G : GInv st rid ring) : forall n,
  NoDup (concat (map ring (seq 0 n))) /\ forall v, In v (concat (map ring (seq 0 n))) -> rid v < n.
Proof.
  induction n as [|n [IH1 IH2]]; [split; [constructor|intros v []]|].
  rewrite seq_S, map_app, concat_app. cbn [map concat Nat.add]. rewrite app_nil_r. split.
  - apply NoDup_app_intro; [exact IH1|apply (GI_cyc _ _ _ G n)|].
    intros v H1 H2. specialize (IH2 v H1). destruct (GInv_in_live _ _ _ _ _ G H2) as (_ & B & _). lia.
  - intros v Hv. apply in_app_or in Hv. destruct Hv as [Hv|Hv]; [specialize (IH2 v Hv); lia|].
    destruct (GInv_in_live _ _ _ _ _ G Hv) as (_ & B & _). lia.
Qed.
Lemma length_concat_rings ring : forall n, length (concat (map ring (seq 0 n))) = sumlen ring n.
Proof.
  induction n as [|n IH]; [reflexivity|]. rewrite seq_S, map_app, concat_app, app_length, IH.
  cbn [map concat Nat.add sumlen]. rewrite app_nil_r. reflexivity.
Qed.
Lemma nlive_rings st rid ring K :
  GInv st rid ring -> (forall v, v < size st -> rid v < K) -> nlive st = sumlen ring K.
Proof.
  intros G Hlab. unfold nlive. rewrite <- length_concat_rings.
  apply Permutation_length. apply NoDup_Permutation.
  - apply NoDup_filter, seq_NoDup.
  - apply (NoDup_rings st rid ring G K).
  - intros v. rewrite filter_In, in_seq. split.
    + intros [Hv Hl]. assert (Hv' : v < size st) by lia.
      pose proof (GI_cov _ _ _ G v Hv' Hl) as Hin. specialize (Hlab v Hv').
      apply in_concat. exists (ring (rid v)). split; [|exact Hin]. apply in_map. apply in_seq. lia.
    + intros Hin. apply in_concat in Hin. destruct Hin as (l & Hl & Hv). apply in_map_iff in Hl. destruct Hl as (k & <- & _).
      destruct (GInv_in_live _ _ _ _ _ G Hv) as (A & _ & C). split; [lia|exact C].
Qed.
Lemma sumlen_two ring K :
  (forall k, ring k = [] \/ 2 <= length (ring k)) -> (forall k, length (ring k) <= 2) -> sumlen ring K = 2 * cntne ring K.
Proof.
  intros H1 H2. induction K as [|k IH]; [reflexivity|]. cbn [sumlen cntne]. rewrite IH.
  specialize (H2 k). destruct (H1 k) as [E|E]; [rewrite E; cbn; lia|]. destruct (ring k); cbn [length] in *; lia.
Qed.

Theorem triangulate_ghost_count fuel polys st :
  triangulate orc fuel polys = Some st ->
  nbad st = 0 /\ rings_closed st = true /\
  (Forall (fun p : list Z => 2 <= length p) polys ->
     njoin st <= length polys /\ nlive st = 2 * (length polys - njoin st)).
Proof.
  unfold triangulate, bind.
  destruct (initialize (reset polys) polys) as [[st1 starts]|] eqn:Ei; [|discriminate].
  destruct (sweep orc fuel st1 _) as [st2|] eqn:E2; [|discriminate].
  destruct (findStarts orc fuel st2 starts [] [] []) as [[[holes outers] simples]|] eqn:Ef; [|discriminate].
  destruct (cutKeyholes orc fuel st2 outers holes simples) as [[st3 simples']|] eqn:E3; [|discriminate].
  intros E4.
  destruct (initialize_good_state polys st1 starts Ei) as (_ & Hb1 & _).
  destruct (init_ghost_full polys st1 starts Ei) as (rid1 & ring1 & G1 & R1 & Hmap & Hall & Hlen).
  destruct (sweep_book fuel polys st1 starts rid1 ring1 st2 G1 R1 Hmap Hall E2) as (A1 & A2 & A3 & ring2 & G2 & B0).
  destruct (findStarts_book orc _ _ fuel st2 rid1 ring2 G2 _ _ _ _ _ _ _ B0 Ef) as [B1 _].
  destruct (cutKeyholes_ring orc _ _ fuel outers holes st2 rid1 ring2 simples st3 simples' G2 B1 E3)
    as (C1 & _ & _ & _ & rid3 & ring3 & G3 & B3).
  destruct (triangulatePolys_ring_rc _ _ fuel simples' st3 rid3 ring3 st G3 (B_rc _ _ _ _ _ _ _ _ _ B3)) with (3 := E4)
    as (D1 & D2 & D3 & ring4 & G4 & R4 & Hsm).
  { apply (B_simple _ _ _ _ _ _ _ _ _ B3). }
  { intros k Hk. destruct (B_cover _ _ _ _ _ _ _ _ _ B3 k Hk) as [[]|[[]|Hin]]. exact Hin. }
  split; [lia|]. split; [apply (rings_closed_small st rid3 ring4 G4 Hsm)|].
  intros Hbig. pose proof (RC_cnt _ _ _ _ _ R4 Hbig) as Hcnt.
  split; [lia|].
  rewrite (nlive_rings st rid3 ring4 (length polys) G4 (RC_lab _ _ _ _ _ R4)).
  rewrite (sumlen_two ring4 (length polys) (RC_two _ _ _ _ _ R4 Hbig) Hsm). lia.
Qed.

Theorem triangulate_ghost fuel polys st :
  triangulate orc fuel polys = Some st -> nbad st = 0 /\ rings_closed st = true.
Proof. intros H. destruct (triangulate_ghost_count fuel polys st H) as (A & B & _). auto. Qed.

(* earclip_chain, earclip_count, index validity: full statements *)
Theorem earclip_contract_full fuel polys st :
  triangulate orc fuel polys = Some st ->
  ceq (boundaries (tris st)) (contours polys) /\
  TrisIn (concat polys) st /\
  length (tris st) + nfilt st = nclip st /\
  nclip st + nlive st = numVert polys + 2 * njoin st /\
  nbad st = 0 /\ rings_closed st = true.
Proof.
  intros H. destruct (triangulate_ghost fuel polys st H) as [Hz Hrc].
  destruct (earclip_contract_init orc fuel polys st H Hz) as (_ & A & B & C & D).
  split; [apply D; exact Hrc|]. auto.
Qed.

(* earclip_count: exactly V - 2 + 2h - 2(o-1) triangles (minus the filtered topological
   degenerates), h = number of JoinPolygons calls (holes joined to an outer), o = the
   remaining rings = #contours - h *)
Theorem earclip_count_full fuel polys st :
  triangulate orc fuel polys = Some st -> Forall (fun p : list Z => 2 <= length p) polys ->
  let h := njoin st in let o := length polys - njoin st in
  h <= length polys /\
  (Z.of_nat (length (tris st)) + Z.of_nat (nfilt st) =
   Z.of_nat (numVert polys) - 2 + 2 * Z.of_nat h - 2 * (Z.of_nat o - 1))%Z.
Proof.
  intros H Hbig. cbv zeta. destruct (triangulate_ghost_count fuel polys st H) as (Hz & _ & Hc).
  destruct (Hc Hbig) as [Hj Hl].
  destruct (earclip_contract_init orc fuel polys st H Hz) as (_ & _ & He & Hn & _).
  split; [exact Hj|]. lia.
Qed.
End Final.
