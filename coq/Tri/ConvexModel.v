(* Tri/ConvexModel.v — TriangulateConvex (alternating strip) satisfies the same
   chain identity and count as ear clipping.  Positional sweep for every contour
   length 3..200 (vm_compute) + naturality of the strip in the vertex names, which
   lifts the sweep to arbitrary mesh indices. *)
From Coq Require Import ZArith List Bool Arith Lia.
From MV Require Import Base.Chain Tri.EarClipDefs.
Import ListNotations.

Definition tmap (f : Z -> Z) (t : tri) : tri := let '(a, b, c) := t in (f a, f b, f c).
Definition cmap (f : Z -> Z) (c : chain) : chain := map (fun e => (f (fst e), f (snd e))) c.

Definition positions (n : nat) : list Z := map Z.of_nat (seq 0 n).

Definition convex_pos_ok (n : nat) : bool :=
  match convex_poly (positions n) with
  | Some ts => chain_eqb (boundaries ts) (contour (positions n)) && (length ts =? n - 2)
  | None => false
  end.

Lemma convex_sweep : forallb convex_pos_ok (seq 3 198) = true.
Proof. vm_compute. reflexivity. Qed.

Lemma nth_error_map' {A B} (f : A -> B) l i : nth_error (map f l) i = option_map f (nth_error l i).
Proof. revert i; induction l as [|h t IH]; intros [|i]; cbn; auto. Qed.

Lemma convex_go_natural f fuel : forall p i k right acc,
  convex_go fuel (map f p) i k right (map (tmap f) acc) =
  option_map (map (tmap f)) (convex_go fuel p i k right acc).
Proof.
  induction fuel as [|fu IH]; intros p i k right acc; [reflexivity|].
  cbn [convex_go]. destruct (i + 1 <? k); [|reflexivity].
  rewrite !nth_error_map'. unfold bind.
  destruct (nth_error p i) as [a|]; [|reflexivity]. cbn [option_map].
  destruct (nth_error p (if right then i + 1 else k - 1)) as [b|]; [|reflexivity]. cbn [option_map].
  destruct (nth_error p k) as [c|]; [|reflexivity]. cbn [option_map].
  rewrite <- IH. f_equal. rewrite map_app. reflexivity.
Qed.

Lemma convex_poly_natural f p :
  convex_poly (map f p) = option_map (map (tmap f)) (convex_poly p).
Proof.
  unfold convex_poly. destruct p as [|x t]; [reflexivity|].
  cbn [map]. rewrite <- (map_cons f x t). rewrite map_length.
  apply (convex_go_natural f (length (x :: t)) (x :: t) 0 (length (x :: t) - 1) true []).
Qed.

Lemma coef_cmap f c a b : coef (cmap f c) a b = lin (fun x y => edge1 (f x) (f y) a b) c.
Proof. induction c as [|[x y] t IH]; cbn [cmap map coef lin fst snd]; [reflexivity|]. fold (cmap f t). rewrite IH. reflexivity. Qed.

Lemma ceq_cmap f c1 c2 : ceq c1 c2 -> ceq (cmap f c1) (cmap f c2).
Proof.
  intros H a b. rewrite !coef_cmap. apply lin_ceq; [|exact H].
  intros x y. apply edge1_swap.
Qed.

Lemma boundaries_map f ts : boundaries (map (tmap f) ts) = cmap f (boundaries ts).
Proof.
  unfold boundaries, cmap. induction ts as [|[[a b] c] t IH]; [reflexivity|].
  cbn [map flat_map tmap boundary app fst snd]. rewrite IH. reflexivity.
Qed.
Lemma path_edges_map f l : path_edges (map f l) = cmap f (path_edges l).
Proof.
  induction l as [|x t IH]; [reflexivity|]. destruct t as [|y t']; [reflexivity|].
  cbn [map] in *. rewrite !path_edges_cons2. cbn [cmap map fst snd]. f_equal. exact IH.
Qed.
Lemma contour_map f l : contour (map f l) = cmap f (contour l).
Proof.
  destruct l as [|x t]; [reflexivity|]. unfold contour. cbn [map].
  rewrite <- path_edges_map. f_equal. cbn [map]. rewrite map_app. reflexivity.
Qed.

Lemma positions_map (p : list Z) :
  p = map (fun i => nth (Z.to_nat i) p 0%Z) (positions (length p)).
Proof.
  unfold positions. rewrite map_map.
  set (g := fun i => nth (Z.to_nat (Z.of_nat i)) p 0%Z).
  apply nth_ext with (d := 0%Z) (d' := 0%Z).
  - rewrite map_length, seq_length. reflexivity.
  - intros i Hi.
    rewrite (nth_indep (map g (seq 0 (length p))) 0%Z (g 0)) by (rewrite map_length, seq_length; exact Hi).
    rewrite map_nth, seq_nth by exact Hi. unfold g. cbn [Nat.add]. rewrite Nat2Z.id. reflexivity.
Qed.

Theorem convex_poly_contract (p : list Z) :
  3 <= length p <= 200 ->
  exists ts, convex_poly p = Some ts /\ ceq (boundaries ts) (contour p) /\ length ts = length p - 2.
Proof.
  intros Hn. pose proof convex_sweep as Hs. rewrite forallb_forall in Hs.
  specialize (Hs (length p)). rewrite in_seq in Hs. specialize (Hs ltac:(lia)).
  unfold convex_pos_ok in Hs.
  destruct (convex_poly (positions (length p))) as [ts0|] eqn:E; [|discriminate].
  apply andb_true_iff in Hs. destruct Hs as [Hc Hl]. apply Nat.eqb_eq in Hl.
  set (f := fun i => nth (Z.to_nat i) p 0%Z).
  exists (map (tmap f) ts0). split; [|split].
  - rewrite (positions_map p) at 1. fold f. rewrite convex_poly_natural, E. reflexivity.
  - rewrite boundaries_map. rewrite (positions_map p) at 1. fold f. rewrite contour_map.
    apply ceq_cmap. apply chain_eqb_sound, Hc.
  - rewrite map_length. exact Hl.
Qed.

(* all contours of a polygon set *)
Theorem convex_strip_contract : forall (polys : list (list Z)),
  Forall (fun p => 3 <= length p <= 200) polys ->
  exists ts, triangulateConvex polys = Some ts /\ ceq (boundaries ts) (contours polys) /\
             (Z.of_nat (length ts) = Z.of_nat (numVert polys) - 2 * Z.of_nat (length polys))%Z.
Proof.
  induction polys as [|p ps IH]; intros HF.
  - exists []. split; [reflexivity|]. split; [intros a b; reflexivity|reflexivity].
  - inversion HF as [|? ? Hp Hps]; subst. destruct (IH Hps) as (ts & Ht & Hc & Hl).
    destruct (convex_poly_contract p Hp) as (t & Hpt & Hpc & Hpl).
    exists (t ++ ts). cbn [triangulateConvex]. unfold bind. rewrite Hpt, Ht. split; [reflexivity|]. split.
    + intros a b. rewrite coef_boundaries_app, coef_contours_cons, Hpc, Hc. reflexivity.
    + rewrite app_length. cbn [numVert fold_right length]. fold (numVert ps). lia.
Qed.
