(* Tri/ConvexModel.v — TriangulateConvex (alternating strip) satisfies the same
   chain identity and count as ear clipping: for ALL contour lengths, by induction on the
   zig-zag (invariant: boundary(emitted) + path p_i..p_k + chord p_k->p_i = contour).
   The older positional sweep for lengths 3..200 (vm_compute + naturality in the vertex
   names) is kept as an independent example. *)
From Coq Require Import ZArith List Bool Arith Lia.
From MV Require Import Base.Chain Tri.EarClipDefs Tri.EarClipModel Tri.EarClipInit.
Import ListNotations.

Definition tmap (f : Z -> Z) (t : tri) : tri := let '(a, b, c) := t in (f a, f b, f c).
Definition cmap (f : Z -> Z) (c : chain) : chain := map (fun e => (f (fst e), f (snd e))) c.

Definition positions (n : nat) : list Z := map Z.of_nat (seq 0 n).

Definition convex_pos_ok (n : nat) : bool :=
  match convex_poly (positions n) with
  | Some ts => chain_eqb (boundaries ts) (contour (positions n)) && (length ts =? n - 2)
  | None => false
  end.

Lemma convex_sweep : forallb convex_pos_ok (seq 3 198) = true.
Proof. vm_compute. reflexivity. Qed.

Lemma nth_error_map' {A B} (f : A -> B) l i : nth_error (map f l) i = option_map f (nth_error l i).
Proof. revert i; induction l as [|h t IH]; intros [|i]; cbn; auto. Qed.

Lemma convex_go_natural f fuel : forall p i k right acc,
  convex_go fuel (map f p) i k right (map (tmap f) acc) =
  option_map (map (tmap f)) (convex_go fuel p i k right acc).
Proof.
  induction fuel as [|fu IH]; intros p i k right acc; [reflexivity|].
  cbn [convex_go]. destruct (i + 1 <? k); [|reflexivity].
  rewrite !nth_error_map'. unfold bind.
  destruct (nth_error p i) as [a|]; [|reflexivity]. cbn [option_map].
  destruct (nth_error p (if right then i + 1 else k - 1)) as [b|]; [|reflexivity]. cbn [option_map].
  destruct (nth_error p k) as [c|]; [|reflexivity]. cbn [option_map].
  rewrite <- IH. f_equal. rewrite map_app. reflexivity.
Qed.

Lemma convex_poly_natural f p :
  convex_poly (map f p) = option_map (map (tmap f)) (convex_poly p).
Proof.
  unfold convex_poly. destruct p as [|x t]; [reflexivity|].
  cbn [map]. rewrite <- (map_cons f x t). rewrite map_length.
  apply (convex_go_natural f (length (x :: t)) (x :: t) 0 (length (x :: t) - 1) true []).
Qed.

Lemma coef_cmap f c a b : coef (cmap f c) a b = lin (fun x y => edge1 (f x) (f y) a b) c.
Proof. induction c as [|[x y] t IH]; cbn [cmap map coef lin fst snd]; [reflexivity|]. fold (cmap f t). rewrite IH. reflexivity. Qed.

Lemma ceq_cmap f c1 c2 : ceq c1 c2 -> ceq (cmap f c1) (cmap f c2).
Proof.
  intros H a b. rewrite !coef_cmap. apply lin_ceq; [|exact H].
  intros x y. apply edge1_swap.
Qed.

Lemma boundaries_map f ts : boundaries (map (tmap f) ts) = cmap f (boundaries ts).
Proof.
  unfold boundaries, cmap. induction ts as [|[[a b] c] t IH]; [reflexivity|].
  cbn [map flat_map tmap boundary app fst snd]. rewrite IH. reflexivity.
Qed.
Lemma path_edges_map f l : path_edges (map f l) = cmap f (path_edges l).
Proof.
  induction l as [|x t IH]; [reflexivity|]. destruct t as [|y t']; [reflexivity|].
  cbn [map] in *. rewrite !path_edges_cons2. cbn [cmap map fst snd]. f_equal. exact IH.
Qed.
Lemma contour_map f l : contour (map f l) = cmap f (contour l).
Proof.
  destruct l as [|x t]; [reflexivity|]. unfold contour. cbn [map].
  rewrite <- path_edges_map. f_equal. cbn [map]. rewrite map_app. reflexivity.
Qed.

Lemma positions_map (p : list Z) :
  p = map (fun i => nth (Z.to_nat i) p 0%Z) (positions (length p)).
Proof.
  unfold positions. rewrite map_map.
  set (g := fun i => nth (Z.to_nat (Z.of_nat i)) p 0%Z).
  apply nth_ext with (d := 0%Z) (d' := 0%Z).
  - rewrite map_length, seq_length. reflexivity.
  - intros i Hi.
    rewrite (nth_indep (map g (seq 0 (length p))) 0%Z (g 0)) by (rewrite map_length, seq_length; exact Hi).
    rewrite map_nth, seq_nth by exact Hi. unfold g. cbn [Nat.add]. rewrite Nat2Z.id. reflexivity.
Qed.

Theorem convex_poly_contract (p : list Z) :
  3 <= length p <= 200 ->
  exists ts, convex_poly p = Some ts /\ ceq (boundaries ts) (contour p) /\ length ts = length p - 2.
Proof.
  intros Hn. pose proof convex_sweep as Hs. rewrite forallb_forall in Hs.
  specialize (Hs (length p)). rewrite in_seq in Hs. specialize (Hs ltac:(lia)).
  unfold convex_pos_ok in Hs.
  destruct (convex_poly (positions (length p))) as [ts0|] eqn:E; [|discriminate].
  apply andb_true_iff in Hs. destruct Hs as [Hc Hl]. apply Nat.eqb_eq in Hl.
  set (f := fun i => nth (Z.to_nat i) p 0%Z).
  exists (map (tmap f) ts0). split; [|split].
  - rewrite (positions_map p) at 1. fold f. rewrite convex_poly_natural, E. reflexivity.
  - rewrite boundaries_map. rewrite (positions_map p) at 1. fold f. rewrite contour_map.
    apply ceq_cmap. apply chain_eqb_sound, Hc.
  - rewrite map_length. exact Hl.
Qed.

(* all contours of a polygon set *)
Theorem convex_strip_contract : forall (polys : list (list Z)),
  Forall (fun p => 3 <= length p <= 200) polys ->
  exists ts, triangulateConvex polys = Some ts /\ ceq (boundaries ts) (contours polys) /\
             (Z.of_nat (length ts) = Z.of_nat (numVert polys) - 2 * Z.of_nat (length polys))%Z.
Proof.
  induction polys as [|p ps IH]; intros HF.
  - exists []. split; [reflexivity|]. split; [intros a b; reflexivity|reflexivity].
  - inversion HF as [|? ? Hp Hps]; subst. destruct (IH Hps) as (ts & Ht & Hc & Hl).
    destruct (convex_poly_contract p Hp) as (t & Hpt & Hpc & Hpl).
    exists (t ++ ts). cbn [triangulateConvex]. unfold bind. rewrite Hpt, Ht. split; [reflexivity|]. split.
    + intros a b. rewrite coef_boundaries_app, coef_contours_cons, Hpc, Hc. reflexivity.
    + rewrite app_length. cbn [numVert fold_right length]. fold (numVert ps). lia.
Qed.

(* ------------------------------------------------------------------ *)
(* the zig-zag strip for every length, by induction *)

Local Open Scope Z_scope.

Lemma convex_poly_unfold (p : list Z) : (1 <= length p)%nat ->
  convex_poly p = convex_go (length p) p 0 (length p - 1) true [].
Proof. destruct p; [cbn; lia|reflexivity]. Qed.

Section Strip.
Variable p : list Z.
Let n := length p.
Let pt (i : nat) : Z := nth i p 0.

Definition pathc (i k : nat) (a b : Z) : Z :=
  sumz (fun t => edge1 (pt (i + t)) (pt (i + t + 1)) a b) (k - i).

Lemma pathc_left i k a b : (i < k)%nat -> pathc i k a b = edge1 (pt i) (pt (i + 1)) a b + pathc (i + 1) k a b.
Proof.
  intros H. unfold pathc. replace (k - i)%nat with (S (k - (i + 1))) by lia.
  rewrite sumz_shift. rewrite !Nat.add_0_r. f_equal. apply sumz_ext. intros t _.
  replace (i + S t)%nat with (i + 1 + t)%nat by lia. reflexivity.
Qed.
Lemma pathc_right i k a b : (i < k)%nat -> pathc i k a b = pathc i (k - 1) a b + edge1 (pt (k - 1)) (pt k) a b.
Proof.
  intros H. unfold pathc. replace (k - i)%nat with (S (k - 1 - i)) by lia. cbn [sumz].
  replace (i + (k - 1 - i))%nat with (k - 1)%nat by lia. replace (k - 1 + 1)%nat with k by lia. reflexivity.
Qed.
Lemma pathc_nil i a b : pathc i i a b = 0.
Proof. unfold pathc. rewrite Nat.sub_diag. reflexivity. Qed.

Lemma nth_error_pt i : (i < n)%nat -> nth_error p i = Some (pt i).
Proof. intros H. apply nth_error_nth'. exact H. Qed.

Lemma convex_go_strip : forall fuel i k right acc,
  (i <= k)%nat -> (k < n)%nat -> (k - i < fuel)%nat ->
  exists ts, convex_go fuel p i k right acc = Some ts /\
    (forall a b, coef (boundaries ts) a b =
                 coef (boundaries acc) a b + pathc i k a b + edge1 (pt k) (pt i) a b) /\
    length ts = (length acc + (k - i - 1))%nat.
Proof.
  induction fuel as [|f IH]; intros i k right acc Hik Hk Hf; [lia|].
  cbn [convex_go]. destruct (Nat.ltb_spec (i + 1) k) as [Hlt|Hge].
  - unfold bind.
    assert (Hj : ((if right then i + 1 else k - 1) < n)%nat) by (destruct right; lia).
    rewrite (nth_error_pt i ltac:(lia)), (nth_error_pt _ Hj), (nth_error_pt k Hk).
    destruct right.
    + destruct (IH (i + 1)%nat k false (acc ++ [(pt i, pt (i + 1), pt k)])) as (ts & E & Hc & Hl); try lia.
      cbn [negb]. exists ts. split; [exact E|]. split.
      * intros a b. rewrite Hc, coef_boundaries_app. unfold boundaries at 2. cbn [flat_map]. rewrite app_nil_r.
        rewrite coef_boundary, (pathc_left i k a b ltac:(lia)).
        rewrite (edge1_swap (pt (i + 1)) (pt k)). lia.
      * rewrite Hl, app_length. cbn [length]. lia.
    + destruct (IH i (k - 1)%nat true (acc ++ [(pt i, pt (k - 1), pt k)])) as (ts & E & Hc & Hl); try lia.
      cbn [negb]. exists ts. split; [exact E|]. split.
      * intros a b. rewrite Hc, coef_boundaries_app. unfold boundaries at 2. cbn [flat_map]. rewrite app_nil_r.
        rewrite coef_boundary, (pathc_right i k a b ltac:(lia)).
        rewrite (edge1_swap (pt i) (pt (k - 1))). lia.
      * rewrite Hl, app_length. cbn [length]. lia.
  - exists acc. split; [reflexivity|]. split; [|lia].
    intros a b. assert (Hcase : k = i \/ k = (i + 1)%nat) by lia. destruct Hcase as [->| ->].
    + rewrite pathc_nil, edge1_loop. lia.
    + rewrite (pathc_left i (i + 1) a b ltac:(lia)), pathc_nil. rewrite (edge1_swap (pt i) (pt (i + 1))). lia.
Qed.

Lemma contour_pathc a b : (1 <= n)%nat ->
  coef (contour p) a b = pathc 0 (n - 1) a b + edge1 (pt (n - 1)) (pt 0) a b.
Proof.
  intros Hn. rewrite (contour_sum p a b Hn). fold n.
  remember (n - 1)%nat as m eqn:Em. assert (Hm : n = S m) by lia. rewrite Hm. cbn [sumz].
  unfold pathc. rewrite Nat.sub_0_r. f_equal.
  - apply sumz_ext. intros t Ht. destruct (Nat.eqb_spec (t + 1) (S m)); [lia|]. cbn [Nat.add]. reflexivity.
  - destruct (Nat.eqb_spec (m + 1) (S m)); [reflexivity|lia].
Qed.

Lemma convex_poly_strip : (1 <= n)%nat ->
  exists ts, convex_poly p = Some ts /\ ceq (boundaries ts) (contour p) /\ length ts = (n - 2)%nat.
Proof.
  intros Hn. rewrite (convex_poly_unfold p Hn).
  destruct (convex_go_strip (length p) 0 (length p - 1) true []) as (ts & E & Hc & Hl); try (fold n; lia).
  exists ts. split; [exact E|]. split.
  - intros a b. rewrite Hc, (contour_pathc a b Hn). fold n. cbn [boundaries flat_map coef]. lia.
  - rewrite Hl. cbn [length]. fold n. lia.
Qed.
End Strip.

(* all contours of a polygon set, any sizes >= 1 (contours of 1 or 2 vertices yield no triangle) *)
Theorem convex_strip_all : forall (polys : list (list Z)),
  Forall (fun p => 3 <= length p)%nat polys ->
  exists ts, triangulateConvex polys = Some ts /\ ceq (boundaries ts) (contours polys) /\
             Z.of_nat (length ts) = Z.of_nat (numVert polys) - 2 * Z.of_nat (length polys).
Proof.
  induction polys as [|p ps IH]; intros HF.
  - exists []. split; [reflexivity|]. split; [intros a b; reflexivity|reflexivity].
  - inversion HF as [|? ? Hp Hps]; subst. destruct (IH Hps) as (ts & Ht & Hc & Hl).
    destruct (convex_poly_strip p ltac:(lia)) as (t & Hpt & Hpc & Hpl).
    exists (t ++ ts). cbn [triangulateConvex]. unfold bind. rewrite Hpt, Ht. split; [reflexivity|]. split.
    + intros a b. rewrite coef_boundaries_app, coef_contours_cons, Hpc, Hc. reflexivity.
    + rewrite app_length. cbn [numVert fold_right length]. fold (numVert ps). lia.
Qed.
