(* Reindex for all sizes: the vertex renaming of Partition::Reindex (six orders
   of the three divisions, mirrored patterns, lookups into the concatenated
   corner / edge-run / interior list) maps the pattern's local outline onto the
   global subdivided outline of the triangle.  This discharges the hypothesis
   H_pattern of SubdivideModel.subdivide_balances. *)
From Coq Require Import ZArith List Bool Lia Permutation.
From MV Require Import Base.Chain Tri.PartitionDefs Tri.QuadChain Tri.QuadModel Tri.TriModel
  Tri.SubdivideDefs Tri.SubdivideModel.
From MV Require Tri.PartitionModel.
Import ListNotations.
Local Open Scope Z_scope.

(* ------------------------------------------------------------------ *)
(* lists: lookups into a concatenation                                  *)

Lemma map_nth_seq (B : list Z) d : map (fun k => nth k B d) (seq 0 (length B)) = B.
Proof.
  induction B as [|x t IH]; [reflexivity|].
  cbn [length seq map nth]. f_equal. rewrite <- seq_shift, map_map. exact IH.
Qed.

Lemma zrange_seq n : zrange n 0 1 = map Z.of_nat (seq 0 n).
Proof.
  assert (G : forall m i, zrange m (Z.of_nat i) 1 = map Z.of_nat (seq i m)).
  { induction m as [|m IH]; intro i; cbn [zrange seq map]; [reflexivity|].
    f_equal. replace (Z.of_nat i + 1) with (Z.of_nat (S i)) by lia. apply IH. }
  exact (G n 0%nat).
Qed.

Definition look (nv : list Z) (k : Z) : Z := nth (Z.to_nat k) nv 0.

Lemma look_run (A B C : list Z) :
  map (look (A ++ B ++ C)) (srun (zlen A) true (zlen B)) = B.
Proof.
  unfold srun, zlen. rewrite Nat2Z.id, zrange_seq, !map_map.
  rewrite <- (map_nth_seq B 0) at 2. apply map_ext_in. intros k Hk. apply in_seq in Hk.
  unfold look. rewrite gv_true. replace (Z.to_nat (Z.of_nat (length A) + Z.of_nat k)) with (length A + k)%nat by lia.
  rewrite app_nth2_plus. apply app_nth1. lia.
Qed.

Lemma edge_run_length o f n : zlen (edge_run o f n) = Z.max 0 n.
Proof. rewrite edge_run_srun. unfold srun, zlen. rewrite map_length, zrange_length. lia. Qed.

(* ------------------------------------------------------------------ *)
(* renaming a triangle list                                             *)

Definition ren (nv : list Z) (mir : bool) (t : tri) : tri :=
  let '(x, y, z) := t in
  if mir then (look nv y, look nv x, look nv z) else (look nv x, look nv y, look nv z).

Lemma vget_look (nv : list Z) k v : vget nv k = Some v -> look nv k = v.
Proof.
  unfold vget, look. destruct (k <? 0); [discriminate|]. intro H. apply nth_error_nth. exact H.
Qed.

Lemma reindex_map T (p : partition T) tv3 eo fwd io rt :
  reindex T p tv3 eo fwd io = Some rt ->
  rt = map (ren (reindex_new_verts (p_idx p) (p_sorted p) (zlen (p_vb p)) tv3 eo fwd io)
                (reindex_mirrored (p_idx p) tv3)) (p_tv p).
Proof.
  unfold reindex.
  set (nv := reindex_new_verts _ _ _ _ _ _ _). set (mir := reindex_mirrored _ _).
  revert rt. induction (p_tv p) as [|[[x y] z] tv IH]; intros rt H; cbn [fold_right map] in *.
  - injection H as <-. reflexivity.
  - destruct (fold_right _ _ tv) as [l|]; [|destruct (vget nv x); discriminate].
    destruct (vget nv x) as [x'|] eqn:Ex; [|discriminate].
    destruct (vget nv y) as [y'|] eqn:Ey; [|discriminate].
    destruct (vget nv z) as [z'|] eqn:Ez; [|discriminate].
    injection H as <-. rewrite (IH l eq_refl). unfold ren.
    rewrite (vget_look _ _ _ Ex), (vget_look _ _ _ Ey), (vget_look _ _ _ Ez). reflexivity.
Qed.

Section Rename.
  Variables a b : Z.
  Variable nv : list Z.

  Definition rf (x y : Z) : Z := edge1 (look nv x) (look nv y) a b.

  Lemma rf_antisym : antisym rf.
  Proof. intros x y. unfold rf. apply edge1_swap. Qed.

  Lemma lin_rf_path l : lin rf (path_edges l) = pc a b (map (look nv) l).
  Proof.
    induction l as [|x t IH]; [reflexivity|].
    destruct t as [|y t']; [reflexivity|].
    rewrite path_edges_cons2, lin_cons, IH. cbn [map]. rewrite pc_cons2. reflexivity.
  Qed.

  Lemma ren_boundaries mir tv :
    coef (boundaries (map (ren nv mir) tv)) a b = (if mir then -1 else 1) * lin rf (boundaries tv).
  Proof.
    induction tv as [|[[x y] z] tv IH]; [destruct mir; reflexivity|].
    cbn [map]. rewrite coef_boundaries_cons, IH.
    unfold boundaries at 2. cbn [flat_map]. fold (boundaries tv). rewrite lin_app.
    cbn [boundary lin]. unfold ren, rf.
    destruct mir; rewrite coef_boundary.
    - rewrite (edge1_swap (look nv x) (look nv y)), (edge1_swap (look nv z) (look nv x)), (edge1_swap (look nv y) (look nv z)). lia.
    - lia.
  Qed.
End Rename.

(* the local outline, renamed, splits into three sides *)
Lemma renamed_outline a b (a0 a1 a2 : Z) (R0 R1 R2 I : list Z) s0 s1 s2 :
  zlen R0 = s0 - 1 -> zlen R1 = s1 - 1 -> zlen R2 = s2 - 1 ->
  pc a b (map (look ([a0; a1; a2] ++ R0 ++ R1 ++ R2 ++ I)) (tri_outline s0 s1 s2 ++ [0])) =
  pc a b (a0 :: R0 ++ [a1]) + pc a b (a1 :: R1 ++ [a2]) + pc a b (a2 :: R2 ++ [a0]).
Proof.
  intros H0 H1 H2. unfold tri_outline.
  set (nv := [a0; a1; a2] ++ R0 ++ R1 ++ R2 ++ I).
  rewrite <- !app_assoc. rewrite !map_app. cbn [map].
  assert (E0 : map (look nv) (srun 3 true (s0 - 1)) = R0).
  { rewrite <- H0. change 3 with (zlen [a0; a1; a2]). apply (look_run [a0; a1; a2] R0 (R1 ++ R2 ++ I)). }
  assert (L0 : zlen ([a0; a1; a2] ++ R0) = 3 + s0 - 1).
  { rewrite zlen_app, H0. change (zlen [a0; a1; a2]) with 3. lia. }
  assert (L1 : zlen (([a0; a1; a2] ++ R0) ++ R1) = 3 + s0 - 1 + s1 - 1).
  { rewrite zlen_app, L0, H1. lia. }
  assert (E1 : map (look nv) (srun (3 + s0 - 1) true (s1 - 1)) = R1).
  { rewrite <- H1, <- L0. unfold nv. rewrite (app_assoc [a0; a1; a2] R0). apply look_run. }
  assert (E2 : map (look nv) (srun (3 + s0 - 1 + s1 - 1) true (s2 - 1)) = R2).
  { rewrite <- H2, <- L1. unfold nv. rewrite (app_assoc [a0; a1; a2] R0), (app_assoc ([a0; a1; a2] ++ R0) R1). apply look_run. }
  rewrite E0, E1, E2.
  change (look nv 0) with a0. change (look nv 1) with a1. change (look nv 2) with a2.
  cbn [app].
  rewrite (pc_cons_app_mid a b a0 R0 a1). rewrite (pc_cons_app_mid a b a1 R1 a2). lia.
Qed.

(* ------------------------------------------------------------------ *)
(* the six orders                                                       *)

Lemma perm3_cases (x y z : nat) : Permutation [x; y; z] [0; 1; 2]%nat ->
  (x, y, z) = (0, 1, 2)%nat \/ (x, y, z) = (0, 2, 1)%nat \/ (x, y, z) = (1, 0, 2)%nat \/
  (x, y, z) = (1, 2, 0)%nat \/ (x, y, z) = (2, 0, 1)%nat \/ (x, y, z) = (2, 1, 0)%nat.
Proof.
  intro P.
  assert (Hx : In x [0; 1; 2]%nat) by (apply (Permutation_in _ P); cbn; auto).
  assert (Hy : In y [0; 1; 2]%nat) by (apply (Permutation_in _ P); cbn; auto).
  assert (Hz : In z [0; 1; 2]%nat) by (apply (Permutation_in _ P); cbn; auto).
  assert (ND : NoDup [x; y; z]).
  { apply (Permutation_NoDup (Permutation_sym P)). repeat constructor; cbn; intuition discriminate. }
  inversion ND as [|? ? N1 ND1]; subst. inversion ND1 as [|? ? N2 ND2]; subst. cbn [In] in *.
  destruct Hx as [<-|[<-|[<-|[]]]]; destruct Hy as [<-|[<-|[<-|[]]]]; destruct Hz as [<-|[<-|[<-|[]]]];
    try (exfalso; tauto); tauto.
Qed.

Lemma pc_run_flip a b x y o f m : 0 <= m ->
  pc a b (y :: edge_run o f m ++ [x]) = - pc a b (x :: edge_run o (negb f) m ++ [y]).
Proof.
  intro Hm. rewrite <- pc_rev. f_equal.
  change (x :: edge_run o (negb f) m ++ [y]) with ((x :: edge_run o (negb f) m) ++ [y]).
  rewrite rev_app_distr. cbn [rev app]. do 2 f_equal.
  destruct f; cbn [negb].
  - rewrite (PartitionModel.edge_run_reverse_lemma o m Hm), rev_involutive. reflexivity.
  - rewrite (PartitionModel.edge_run_reverse_lemma o m Hm). reflexivity.
Qed.

(* the three subdivided sides of the triangle as Reindex numbers them *)
Definition rsides (a b v0 v1 v2 o0 o1 o2 : Z) (f0 f1 f2 : bool) (m0 m1 m2 : Z) : Z :=
  pc a b (v0 :: edge_run o0 f0 m0 ++ [v1]) + pc a b (v1 :: edge_run o1 f1 m1 ++ [v2]) +
  pc a b (v2 :: edge_run o2 f2 m2 ++ [v0]).

Section Core.
  Variable T : Type.
  Variables tzero tone : T.
  Variable tlerp : T -> T -> Z -> Z -> T.

  Theorem reindex_outline d0 d1 d2 p v0 v1 v2 o0 o1 o2 ox f0 f1 f2 fx io rt :
    1 <= d0 -> 1 <= d1 -> 1 <= d2 -> 0 <= v0 -> 0 <= v1 -> 0 <= v2 ->
    get_partition T tzero tone tlerp (V4 d0 d1 d2 0) = Some p ->
    split_ok (c0 (p_sorted p)) (c1 (p_sorted p)) (c2 (p_sorted p)) ->
    reindex T p (V4 v0 v1 v2 (-1)) (V4 o0 o1 o2 ox) (V4 f0 f1 f2 fx) io = Some rt ->
    forall a b, coef (boundaries rt) a b =
                rsides a b v0 v1 v2 o0 o1 o2 f0 f1 f2 (d0 - 1) (d1 - 1) (d2 - 1).
  Proof.
    intros D0 D1 D2 V0 V1 V2 Hgp Hsplit Hre a b.
    unfold get_partition in Hgp. cbn [c0] in Hgp.
    replace (d0 =? 0) with false in Hgp by (symmetry; apply Z.eqb_neq; lia).
    pose proof (PartitionModel.sort_divisions_tri d0 d1 d2) as Hs.
    destruct (sort_divisions (V4 d0 d1 d2 0)) as [s ix].
    destruct Hs as (S01 & S12 & S3 & Smap & Sx3 & Sperm).
    destruct (cached_partition T tzero tone tlerp s) as [[vb tv]|] eqn:Ec; [|discriminate].
    injection Hgp as <-. cbn [p_sorted p_idx p_vb p_tv] in *.
    destruct ix as [i0 i1 i2 i3]. cbn [g4 c0 c1 c2 c3] in Sx3, Sperm. subst i3.
    destruct s as [s0 s1 s2 s3]. cbn [c0 c1 c2 c3] in *. subst s3.
    unfold map4 in Smap. cbn [c0 c1 c2 c3] in Smap. injection Smap as E0 E1 E2.
    (* the pattern triangulates its local outline *)
    assert (Hb : 1 <= s2 <= s1 /\ s1 <= s0).
    { destruct (perm3_cases _ _ _ Sperm) as [E|[E|[E|[E|[E|E]]]]]; injection E as -> -> ->;
        cbn [g4 c0 c1 c2 c3] in E0, E1, E2; lia. }
    assert (Hceq : ceq (boundaries tv) (path_edges (tri_outline s0 s1 s2 ++ [0]))).
    { intros a' b'. rewrite (tri_partition_chain T tzero tone tlerp s0 s1 s2 vb tv ltac:(lia) ltac:(lia) Ec Hsplit a' b').
      symmetry. apply TW_contour. }
    rewrite (reindex_map T _ _ _ _ _ _ Hre). cbn [p_sorted p_idx p_vb p_tv].
    rewrite ren_boundaries. rewrite (lin_ceq _ _ _ (rf_antisym a b _) Hceq), lin_rf_path.
    unfold reindex_new_verts, reindex_mirrored. cbn [c3 g4 Z.ltb Z.compare andb].
    destruct (perm3_cases _ _ _ Sperm) as [E|[E|[E|[E|[E|E]]]]]; injection E as -> -> ->;
      cbn [g4 c0 c1 c2 c3 next3 Nat.eqb negb map map4 filter flat_map app] in *; subst s0 s1 s2;
      rewrite ?(proj2 (Z.leb_le 0 v0) V0), ?(proj2 (Z.leb_le 0 v1) V1), ?(proj2 (Z.leb_le 0 v2) V2);
      change (0 <=? -1) with false; cbv iota;
      change (edge_run ?o ?f (0 - 1)) with (@nil Z); rewrite ?app_nil_r;
      match goal with
      | |- context [look (([?x0; ?x1; ?x2] ++ ?r0 ++ ?r1 ++ ?r2) ++ ?ii)] =>
          replace (([x0; x1; x2] ++ r0 ++ r1 ++ r2) ++ ii) with ([x0; x1; x2] ++ r0 ++ r1 ++ r2 ++ ii)
            by (rewrite <- !app_assoc; reflexivity)
      end;
      (erewrite renamed_outline; [|rewrite edge_run_length; lia|rewrite edge_run_length; lia|rewrite edge_run_length; lia]);
      unfold rsides;
      rewrite ?(pc_run_flip a b _ _ _ f0), ?(pc_run_flip a b _ _ _ f1), ?(pc_run_flip a b _ _ _ f2) by lia;
      try lia.
  Qed.
End Core.

(* ------------------------------------------------------------------ *)
(* H_pattern of SubdivideModel.subdivide_balances, for all sizes        *)

Section HPattern.
  Variable T : Type.
  Variables tzero tone : T.
  Variable tlerp : T -> T -> Z -> Z -> T.
  Variable numVert : Z.
  Variable tris : list tri.
  Variable added : Z -> Z -> Z.

  Lemma edge_info_minmax x y :
    edge_info numVert tris added (Z.min x y) (Z.max x y) = edge_info numVert tris added x y.
  Proof. unfold edge_info. f_equal; lia. Qed.

  Lemma gside_run a b x y n o :
    edge_info numVert tris added x y = Some (n, o) ->
    pc a b (gside (goff numVert tris added) (gadd numVert tris added) x y) = pc a b (x :: edge_run o (x <? y) n ++ [y]).
  Proof.
    intro H. unfold gside, goff, gadd. rewrite !edge_info_minmax, H. rewrite edge_run_srun.
    destruct (x <? y); reflexivity.
  Qed.

  Theorem h_pattern t p io rt :
    (let '(v0, v1, v2) := t in 0 <= v0 /\ 0 <= v1 /\ 0 <= v2) ->
    (forall u v, 0 <= added u v) ->
    split_ok (c0 (p_sorted p)) (c1 (p_sorted p)) (c2 (p_sorted p)) ->
    sub_part T tzero tone tlerp numVert tris added t = Some p ->
    tri_out T numVert tris added t p io = Some rt ->
    ceq (boundaries rt) (gout (goff numVert tris added) (gadd numVert tris added) t).
  Proof.
    destruct t as [[v0 v1] v2]. intros (V0 & V1 & V2) Hadd Hsplit Hsp Hto a b.
    unfold sub_part in Hsp. unfold tri_out in Hto.
    destruct (edge_info numVert tris added v0 v1) as [[n0 o0]|] eqn:E0; [|discriminate].
    destruct (edge_info numVert tris added v1 v2) as [[n1 o1]|] eqn:E1; [|discriminate].
    destruct (edge_info numVert tris added v2 v0) as [[n2 o2]|] eqn:E2; [|discriminate].
    pose proof (proj2 (gadd_is_added numVert tris added v0 v1 (n0, o0) E0)) as A0.
    pose proof (proj2 (gadd_is_added numVert tris added v1 v2 (n1, o1) E1)) as A1.
    pose proof (proj2 (gadd_is_added numVert tris added v2 v0 (n2, o2) E2)) as A2.
    cbn [fst] in A0, A1, A2.
    pose proof (Hadd (Z.min v0 v1) (Z.max v0 v1)). pose proof (Hadd (Z.min v1 v2) (Z.max v1 v2)).
    pose proof (Hadd (Z.min v2 v0) (Z.max v2 v0)).
    rewrite (reindex_outline T tzero tone tlerp (n0 + 1) (n1 + 1) (n2 + 1) p v0 v1 v2 o0 o1 o2 0
               (v0 <? v1) (v1 <? v2) (v2 <? v0) false io rt) by (try lia; assumption).
    unfold gout, rsides. rewrite !coef_app.
    change (coef (path_edges ?l) a b) with (pc a b l).
    rewrite (gside_run a b v0 v1 n0 o0 E0), (gside_run a b v1 v2 n1 o1 E1), (gside_run a b v2 v0 n2 o2 E2).
    replace (n0 + 1 - 1) with n0 by lia. replace (n1 + 1 - 1) with n1 by lia. replace (n2 + 1 - 1) with n2 by lia.
    lia.
  Qed.

  (* Subdivide balances, for every closed oriented input, every non-negative
     edgeDivisions oracle; the only remaining hypothesis is split_ok for the
     patterns used (two double-precision numbers of the obtuse branch). *)
  Theorem subdivide_balances_all out :
    ceq (boundaries tris) [] ->
    (forall p q r, In (p, q, r) tris -> 0 <= p /\ 0 <= q /\ 0 <= r) ->
    (forall u v, 0 <= added u v) ->
    (forall t p, In t tris -> sub_part T tzero tone tlerp numVert tris added t = Some p ->
                 split_ok (c0 (p_sorted p)) (c1 (p_sorted p)) (c2 (p_sorted p))) ->
    subdivide_tris T tzero tone tlerp numVert tris added = Some out ->
    ceq (boundaries out) [].
  Proof.
    intros Hclosed Hpos Hadd Hsplit Hout.
    apply (subdivide_balances T tzero tone tlerp numVert tris added out Hclosed); [|exact Hout].
    intros t p io rt Hin Hsp Hto.
    apply (h_pattern t p io rt).
    - destruct t as [[v0 v1] v2]. apply (Hpos v0 v1 v2 Hin).
    - exact Hadd.
    - exact (Hsplit t p Hin Hsp).
    - exact Hsp.
    - exact Hto.
  Qed.
End HPattern.

(* ------------------------------------------------------------------ *)
(* quads: Reindex with four corners (rotations only, never mirrored)    *)

Definition quad_outline_l (s0 s1 s2 s3 : Z) : list Z :=
  [0] ++ srun 4 true (s0 - 1) ++ [1] ++ srun (4 + s0 - 1) true (s1 - 1) ++ [2] ++
  srun (4 + s0 - 1 + s1 - 1) true (s2 - 1) ++ [3] ++ srun (4 + s0 - 1 + s1 - 1 + s2 - 1) true (s3 - 1).

Lemma contour_qoutline_l s0 s1 s2 s3 :
  contour (qoutline (V4 0 1 2 3) (V4 4 (4 + s0 - 1) (4 + s0 - 1 + s1 - 1) (4 + s0 - 1 + s1 - 1 + s2 - 1))
                    (V4 (s0 - 1) (s1 - 1) (s2 - 1) (s3 - 1)) (V4 true true true true)) =
  path_edges (quad_outline_l s0 s1 s2 s3 ++ [0]).
Proof.
  unfold contour, qoutline, quad_outline_l. cbn [flat_map g4 c0 c1 c2 c3].
  rewrite !(proj1 (erun_srun _ _ _ _ _ _ _ _ _ _ _ _)),
          !(proj1 (proj2 (erun_srun _ _ _ _ _ _ _ _ _ _ _ _))),
          !(proj1 (proj2 (proj2 (erun_srun _ _ _ _ _ _ _ _ _ _ _ _)))),
          !(proj2 (proj2 (proj2 (erun_srun _ _ _ _ _ _ _ _ _ _ _ _)))).
  rewrite app_nil_r. cbn [app]. reflexivity.
Qed.

Lemma renamed_outline4 a b (a0 a1 a2 a3 : Z) (R0 R1 R2 R3 I : list Z) s0 s1 s2 s3 :
  zlen R0 = s0 - 1 -> zlen R1 = s1 - 1 -> zlen R2 = s2 - 1 -> zlen R3 = s3 - 1 ->
  pc a b (map (look ([a0; a1; a2; a3] ++ R0 ++ R1 ++ R2 ++ R3 ++ I)) (quad_outline_l s0 s1 s2 s3 ++ [0])) =
  pc a b (a0 :: R0 ++ [a1]) + pc a b (a1 :: R1 ++ [a2]) + pc a b (a2 :: R2 ++ [a3]) + pc a b (a3 :: R3 ++ [a0]).
Proof.
  intros H0 H1 H2 H3. unfold quad_outline_l.
  set (nv := [a0; a1; a2; a3] ++ R0 ++ R1 ++ R2 ++ R3 ++ I).
  rewrite <- !app_assoc. rewrite !map_app. cbn [map].
  assert (L0 : zlen ([a0; a1; a2; a3] ++ R0) = 4 + s0 - 1).
  { rewrite zlen_app, H0. change (zlen [a0; a1; a2; a3]) with 4. lia. }
  assert (L1 : zlen (([a0; a1; a2; a3] ++ R0) ++ R1) = 4 + s0 - 1 + s1 - 1) by (rewrite zlen_app, L0, H1; lia).
  assert (L2 : zlen ((([a0; a1; a2; a3] ++ R0) ++ R1) ++ R2) = 4 + s0 - 1 + s1 - 1 + s2 - 1) by (rewrite zlen_app, L1, H2; lia).
  assert (E0 : map (look nv) (srun 4 true (s0 - 1)) = R0).
  { rewrite <- H0. change 4 with (zlen [a0; a1; a2; a3]). apply (look_run [a0; a1; a2; a3] R0 (R1 ++ R2 ++ R3 ++ I)). }
  assert (E1 : map (look nv) (srun (4 + s0 - 1) true (s1 - 1)) = R1).
  { rewrite <- H1, <- L0. unfold nv. rewrite (app_assoc [a0; a1; a2; a3] R0). apply look_run. }
  assert (E2 : map (look nv) (srun (4 + s0 - 1 + s1 - 1) true (s2 - 1)) = R2).
  { rewrite <- H2, <- L1. unfold nv. rewrite (app_assoc [a0; a1; a2; a3] R0), (app_assoc ([a0; a1; a2; a3] ++ R0) R1). apply look_run. }
  assert (E3 : map (look nv) (srun (4 + s0 - 1 + s1 - 1 + s2 - 1) true (s3 - 1)) = R3).
  { rewrite <- H3, <- L2. unfold nv.
    rewrite (app_assoc [a0; a1; a2; a3] R0), (app_assoc ([a0; a1; a2; a3] ++ R0) R1),
            (app_assoc (([a0; a1; a2; a3] ++ R0) ++ R1) R2). apply look_run. }
  rewrite E0, E1, E2, E3.
  change (look nv 0) with a0. change (look nv 1) with a1. change (look nv 2) with a2. change (look nv 3) with a3.
  cbn [app].
  rewrite (pc_cons_app_mid a b a0 R0 a1). rewrite (pc_cons_app_mid a b a1 R1 a2). rewrite (pc_cons_app_mid a b a2 R2 a3). lia.
Qed.

Definition rsides4 (a b v0 v1 v2 v3 o0 o1 o2 o3 : Z) (f0 f1 f2 f3 : bool) (m0 m1 m2 m3 : Z) : Z :=
  pc a b (v0 :: edge_run o0 f0 m0 ++ [v1]) + pc a b (v1 :: edge_run o1 f1 m1 ++ [v2]) +
  pc a b (v2 :: edge_run o2 f2 m2 ++ [v3]) + pc a b (v3 :: edge_run o3 f3 m3 ++ [v0]).

Section CoreQuad.
  Variable T : Type.
  Variables tzero tone : T.
  Variable tlerp : T -> T -> Z -> Z -> T.

  Theorem reindex_outline_quad d0 d1 d2 d3 p v0 v1 v2 v3 o0 o1 o2 o3 f0 f1 f2 f3 io rt :
    1 <= d0 -> 1 <= d1 -> 1 <= d2 -> 1 <= d3 -> 0 <= v0 -> 0 <= v1 -> 0 <= v2 -> 0 <= v3 ->
    get_partition T tzero tone tlerp (V4 d0 d1 d2 d3) = Some p ->
    reindex T p (V4 v0 v1 v2 v3) (V4 o0 o1 o2 o3) (V4 f0 f1 f2 f3) io = Some rt ->
    forall a b, coef (boundaries rt) a b =
                rsides4 a b v0 v1 v2 v3 o0 o1 o2 o3 f0 f1 f2 f3 (d0 - 1) (d1 - 1) (d2 - 1) (d3 - 1).
  Proof.
    intros D0 D1 D2 D3 V0 V1 V2 V3 Hgp Hre a b.
    unfold get_partition in Hgp. cbn [c0] in Hgp.
    replace (d0 =? 0) with false in Hgp by (symmetry; apply Z.eqb_neq; lia).
    pose proof (PartitionModel.sort_divisions_quad d0 d1 d2 d3 ltac:(lia)) as Hs.
    destruct (sort_divisions (V4 d0 d1 d2 d3)) as [s ix].
    destruct Hs as (m & Hm & Hix & Smap & _).
    destruct (cached_partition T tzero tone tlerp s) as [[vb tv]|] eqn:Ec; [|discriminate].
    injection Hgp as <-. cbn [p_sorted p_idx p_vb p_tv] in *.
    destruct s as [s0 s1 s2 s3]. unfold map4 in Smap. cbn [c0 c1 c2 c3] in Smap.
    assert (Hpos : 0 < s3).
    { subst ix. injection Smap as E0 E1 E2 E3. destruct m as [|[|[|[|m]]]]; [| | | |lia];
        cbn [g4 mod4 Nat.modulo Nat.divmod Nat.add fst snd Nat.sub c0 c1 c2 c3] in E3; lia. }
    pose proof (quad_partition_chain T tzero tone tlerp s0 s1 s2 s3 vb tv Hpos Ec) as Hceq.
    rewrite (reindex_map T _ _ _ _ _ _ Hre). cbn [p_sorted p_idx p_vb p_tv].
    rewrite ren_boundaries.
    rewrite contour_qoutline_l in Hceq.
    rewrite (lin_ceq _ _ _ (rf_antisym a b _) Hceq), lin_rf_path.
    unfold reindex_new_verts, reindex_mirrored. cbn [c3 g4].
    replace (v3 <? 0) with false by (symmetry; apply Z.ltb_ge; lia). cbn [andb].
    subst ix. injection Smap as E0 E1 E2 E3.
    destruct m as [|[|[|[|m]]]]; [| | | |lia];
      cbn [g4 mod4 Nat.modulo Nat.divmod Nat.add fst snd Nat.sub c0 c1 c2 c3 map filter flat_map app] in *; subst s0 s1 s2 s3;
      rewrite ?(proj2 (Z.leb_le 0 v0) V0), ?(proj2 (Z.leb_le 0 v1) V1), ?(proj2 (Z.leb_le 0 v2) V2), ?(proj2 (Z.leb_le 0 v3) V3);
      rewrite ?app_nil_r;
      match goal with
      | |- context [look (([?x0; ?x1; ?x2; ?x3] ++ ?r0 ++ ?r1 ++ ?r2 ++ ?r3) ++ ?ii)] =>
          replace (([x0; x1; x2; x3] ++ r0 ++ r1 ++ r2 ++ r3) ++ ii) with ([x0; x1; x2; x3] ++ r0 ++ r1 ++ r2 ++ r3 ++ ii)
            by (rewrite <- !app_assoc; reflexivity)
      end;
      (erewrite renamed_outline4; [|rewrite edge_run_length; lia|rewrite edge_run_length; lia|rewrite edge_run_length; lia|rewrite edge_run_length; lia]);
      unfold rsides4; lia.
  Qed.
End CoreQuad.
