(* Executable Gallina port of the integer (topological) part of
   Manifold::Impl::Subdivide, src/subdivision.cpp:480-803, together with
   GetIndices / FillRetainedVerts (lines 432-471) and CreateTmpEdges
   (src/shared.h:363).  Model only: no proofs here (see SubdivideModel.v).

   SCOPE (restrictions, all deliberate):
   * meshes WITHOUT marked quads: IsMarkedInsideQuad is false for every
     halfedge, so GetNeighbor = -1, GetHalfedges(t) = (3t, 3t+1, 3t+2, -1)
     (halfedges[3] = -1 for every triangle) and GetIndices(h) =
     (h / 3, h % 3, Next3 (h % 3));
   * keepInterior = false (lines 520-561 are not modelled);
   * numProp = 0 for `subdivide_tris`; the integer part of the property branch
     (lines 693-797) is modelled separately at the end of the file
     (`prop_edge_slot`, `prop_tri_args`), the property VALUES (doubles) are not;
   * vertex positions, triRef, faceNormal and the barycentric VALUES are not
     modelled (only the owning triangle / corner of each vertex: `vert_owner`).

   INPUT.  `numVert`, the triangle list `tris` (halfedge 3t+i starts at the
   i-th vertex of triangle t and ends at the next one: the halfedge list in
   index order is `boundaries tris` of Base/Chain.v) and the oracle
   `added u v` for u < v: the value of
   `edgeDivisions(vertPos[u] - vertPos[v], tangent0, tangent1)` for the edge
   {u, v}, a geometric (floating-point / user callback) decision.

   PAIRING.  The C++ finds the edge of a backward halfedge through
   `halfedge_.Pair`.  The model has no pairing table: the edge of a halfedge
   x -> y is looked up by its end points (min x y, max x y) among the forward
   halfedges (`edge_info`).  This is the same edge whenever the forward
   halfedges have pairwise distinct end points (`edges_distinct`); meshes
   with two forward halfedges on the same vertex pair are outside the model
   and give None.  A halfedge whose end points are not those of a forward
   halfedge (mesh not oriented / not closed, or degenerate x -> x) makes the
   C++ read half2Edge at an index that was never written: None.
   A forward halfedge without partner (Pair = -1: out-of-bounds write of
   half2Edge) is NOT detected by the model; the theorems assume
   `ceq (boundaries tris) []`, which excludes it.

   `.back()` of an empty vector (numEdge = 0 or numTri = 0) is undefined: None. *)
From Coq Require Import ZArith List Bool.
From MV Require Import Base.Chain Tri.PartitionDefs.
Import ListNotations.
Local Open Scope Z_scope.

(* ------------------------------------------------------------------ *)
(* generic helpers                                                      *)

(* manifold::exclusive_scan(first, last, out, init) *)
Fixpoint exclusive_scan (init : Z) (l : list Z) : list Z :=
  match l with [] => [] | x :: t => init :: exclusive_scan (init + x) t end.

Definition zsum (l : list Z) : Z := fold_right Z.add 0 l.

(* `out.back() + in.back()` after an exclusive scan; undefined on empty vectors *)
Definition scan_end (init : Z) (l : list Z) : option Z :=
  match l with
  | [] => None
  | x :: t => Some (last (exclusive_scan init l) 0 + last l 0)
  end.

Fixpoint omap {A B} (f : A -> option B) (l : list A) : option (list B) :=
  match l with
  | [] => Some []
  | x :: t => match f x, omap f t with Some y, Some r => Some (y :: r) | _, _ => None end
  end.

Definition is_empty {A} (l : list A) : bool := match l with [] => true | _ :: _ => false end.

Fixpoint enum_from {A} (i : Z) (l : list A) : list (Z * A) :=
  match l with [] => [] | x :: t => (i, x) :: enum_from (i + 1) t end.

(* ------------------------------------------------------------------ *)
(* CreateTmpEdges, edgeAdded, edgeOffset                                *)

(* TmpEdge (first, second, halfedgeIdx) of the forward halfedges, in halfedge order *)
Definition tmp_edges (tris : list tri) : list (Z * Z * Z) :=
  flat_map (fun '(h, (s, e)) => if s <? e then [(s, e, h)] else []) (enum_from 0 (boundaries tris)).

Section Subdivide.
  Variable T : Type.
  Variables tzero tone : T.
  Variable tlerp : T -> T -> Z -> Z -> T.

  Variable numVert : Z.
  Variable tris : list tri.
  Variable added : Z -> Z -> Z.   (* edgeDivisions oracle, called as added first second *)

  Definition edge_added_list : list Z := map (fun '(u, v, _) => added u v) (tmp_edges tris).
  Definition edge_offset_list : list Z := exclusive_scan numVert edge_added_list.
  Definition total_edge_added : Z := zsum edge_added_list.

  (* rows (first, second, halfedgeIdx, edgeAdded, edgeOffset), one per edge *)
  Definition edge_table : list (Z * Z * Z * Z * Z) :=
    map (fun '((u, v, h), n, o) => (u, v, h, n, o))
        (combine (combine (tmp_edges tris) edge_added_list) edge_offset_list).

  Fixpoint edge_lookup (tbl : list (Z * Z * Z * Z * Z)) (u v : Z) : option (Z * Z) :=
    match tbl with
    | [] => None
    | (a, b, _, n, o) :: t => if (a =? u) && (b =? v) then Some (n, o) else edge_lookup t u v
    end.

  (* (edgeAdded, edgeOffset)[half2Edge[h]] for a halfedge h = x -> y *)
  Definition edge_info (x y : Z) : option (Z * Z) := edge_lookup edge_table (Z.min x y) (Z.max x y).
  Definition edge_offset_of (x y : Z) : option Z := option_map snd (edge_info x y).
  Definition edge_added_of (x y : Z) : option Z := option_map fst (edge_info x y).

  (* no two forward halfedges on the same vertex pair (domain of the model) *)
  Fixpoint distinct_pairs (l : list (Z * Z * Z)) : bool :=
    match l with
    | [] => true
    | (u, v, _) :: t => negb (existsb (fun '(a, b, _) => (a =? u) && (b =? v)) t) && distinct_pairs t
    end.
  Definition edges_distinct : bool := distinct_pairs (tmp_edges tris).

  (* ---------------------------------------------------------------- *)
  (* subTris, interiorOffset, the Reindex loop (lines 590-668)          *)

  (* divisions[i] = edgeAdded[half2Edge[3t+i]] + 1, divisions[3] = 0 *)
  Definition sub_part (t : tri) : option (partition T) :=
    let '(v0, v1, v2) := t in
    match edge_info v0 v1, edge_info v1 v2, edge_info v2 v0 with
    | Some (n0, _), Some (n1, _), Some (n2, _) =>
        get_partition T tzero tone tlerp (V4 (n0 + 1) (n1 + 1) (n2 + 1) 0)
    | _, _, _ => None
    end.

  Definition sub_parts : option (list (partition T)) := omap sub_part tris.

  Definition tri_offset_list (ps : list (partition T)) : list Z :=
    exclusive_scan 0 (map (fun p => zlen (p_tv p)) ps).
  Definition num_interior_list (ps : list (partition T)) : list Z := map (num_interior T) ps.
  Definition interior_offset_list (ps : list (partition T)) : list Z :=
    exclusive_scan (numVert + total_edge_added) (num_interior_list ps).

  (* lines 628-644 for one triangle: tri3, edgeOffsets, edgeFwd, Reindex.
     edgeOffsets[3] is the value-initialised 0 and is never used (sorted[3] - 1 < 0). *)
  Definition tri_out (t : tri) (p : partition T) (io : Z) : option (list tri) :=
    let '(v0, v1, v2) := t in
    match edge_info v0 v1, edge_info v1 v2, edge_info v2 v0 with
    | Some (_, o0), Some (_, o1), Some (_, o2) =>
        reindex T p (V4 v0 v1 v2 (-1)) (V4 o0 o1 o2 0)
                (V4 (v0 <? v1) (v1 <? v2) (v2 <? v0) false) io
    | _, _, _ => None
    end.

  (* the per-triangle loop; reading subTris / interiorOffset past the end is undefined *)
  Fixpoint reindex_all (ts : list tri) (ps : list (partition T)) (ios : list Z) : option (list tri) :=
    match ts, ps, ios with
    | [], _, _ => Some []
    | t :: ts', p :: ps', io :: ios' =>
        match tri_out t p io, reindex_all ts' ps' ios' with
        | Some rt, Some r => Some (rt ++ r)   (* copy to triVerts.begin() + triOffset[t] *)
        | _, _ => None
        end
    | _, _, _ => None
    end.

  (* triVerts handed to CreateHalfedges *)
  Definition subdivide_tris : option (list tri) :=
    if negb edges_distinct then None                              (* outside the model *)
    else if is_empty tris || is_empty (tmp_edges tris) then None  (* .back() of an empty Vec *)
    else match sub_parts with
         | None => None
         | Some ps => reindex_all tris ps (interior_offset_list ps)
         end.

  (* vertBary.size() after the resize of line 621 = NumVert() afterwards *)
  Definition subdivide_numvert : option Z :=
    match sub_parts with
    | None => None
    | Some ps => scan_end (numVert + total_edge_added) (num_interior_list ps)
    end.

  (* ---------------------------------------------------------------- *)
  (* vertBary owners: (tri, corner start4) for retained and interior verts,
     (tri, start4, end4) for edge verts (lines 460-471, 570-588, 660-667)  *)

  (* FillRetainedVerts: the last halfedge starting at v wins *)
  Definition retained_owner (v : Z) : option (Z * Z) :=
    fold_left (fun acc '(h, (s, _)) => if s =? v then Some (h / 3, h mod 3) else acc)
              (enum_from 0 (boundaries tris)) None.

  (* the n new vertices of edge i: offset + k |-> GetIndices(edges[i].halfedgeIdx) *)
  Definition edge_vert_owners : list (Z * (Z * Z * Z)) :=
    flat_map (fun '(_, _, h, n, o) =>
                map (fun k => (o + k, (h / 3, h mod 3, (h mod 3 + 1) mod 3)))
                    (map Z.of_nat (seq 0 (Z.to_nat n))))
             edge_table.

  (* interior vertices of triangle t: interiorOffset[t] + k |-> t *)
  Definition interior_vert_owners (ps : list (partition T)) : list (Z * Z) :=
    flat_map (fun '(t, (p, io)) => map (fun k => (io + k, t)) (map Z.of_nat (seq 0 (Z.to_nat (num_interior T p)))))
             (enum_from 0 (combine ps (interior_offset_list ps))).

  (* all of vertBary, integers only: (vertex, owning triangle, corner start4);
     a retained vertex that starts no halfedge keeps its default entry and is
     not listed *)
  Definition vert_owner (ps : list (partition T)) : list (Z * (Z * Z)) :=
    flat_map (fun v => match retained_owner v with Some tc => [(v, tc)] | None => [] end)
             (map Z.of_nat (seq 0 (Z.to_nat numVert)))
    ++ map (fun '(v, (t, s, _)) => (v, (t, s))) edge_vert_owners
    ++ map (fun '(v, t) => (v, (t, -1))) (interior_vert_owners ps).   (* -1: no single corner *)

  (* ---------------------------------------------------------------- *)
  (* numProp > 0 (lines 693-797), integers only.
     `prop h` is halfedge_.Prop(h), `pair h` is halfedge_.Pair(h) (oracles: the
     property vertices and the pairing are data of the input mesh).          *)
  Section Props.
    Variable numPropVert : Z.
    Variable newNumVert : Z.           (* NumVert() after line 691 = subdivide_numvert *)
    Variables prop pair : Z -> Z.

    Definition prop_offset : Z := numPropVert - numVert.
    Definition added_verts : Z := newNumVert - numVert.
    (* number of rows of the new property table, line 700 *)
    Definition prop_rows : Z := numPropVert + added_verts + total_edge_added.

    (* line 710: new vertex numVert + i gets property row numPropVert + i; for the
       k-th vertex of edge i that is edgeOffset[i] + k + propOffset *)
    Definition prop_fwd_slot (o k : Z) : Z := o + prop_offset + k.
    (* line 740-749: the duplicate made from the backward halfedge *)
    Definition prop_bwd_slot (o k : Z) : Z := o + prop_offset + added_verts + k.

    Definition next_halfedge (h : Z) : Z := if (h + 1) mod 3 =? 0 then h - 2 else h + 1.

    (* lines 772-786 for halfedge h = x -> y with edgeOffset o:
       (edgeOffsets[i] before `+ propOffset`, edgeFwd[i]) *)
    Definition prop_edge_arg (h x y o : Z) : Z * bool :=
      if x <? y then (o, true)
      else if negb (prop (pair h) =? prop (next_halfedge h)) || negb (prop (next_halfedge (pair h)) =? prop h)
           then (o + added_verts, true)     (* point to the backward edge propverts *)
           else (o, false).

    (* the second Reindex call for triangle number t (halfedges 3t, 3t+1, 3t+2) *)
    Definition prop_tri_out (t : Z) (tr : tri) (p : partition T) (io : Z) : option (list tri) :=
      let '(v0, v1, v2) := tr in
      match edge_info v0 v1, edge_info v1 v2, edge_info v2 v0 with
      | Some (_, o0), Some (_, o1), Some (_, o2) =>
          let '(e0, f0) := prop_edge_arg (3 * t) v0 v1 o0 in
          let '(e1, f1) := prop_edge_arg (3 * t + 1) v1 v2 o1 in
          let '(e2, f2) := prop_edge_arg (3 * t + 2) v2 v0 o2 in
          (* edgeOffsets + propOffset adds propOffset to all four components; [3] is 0 *)
          reindex T p (V4 (prop (3 * t)) (prop (3 * t + 1)) (prop (3 * t + 2)) (-1))
                  (V4 (e0 + prop_offset) (e1 + prop_offset) (e2 + prop_offset) (0 + prop_offset))
                  (V4 f0 f1 f2 true) (io + prop_offset)
      | _, _, _ => None
      end.

    Fixpoint prop_reindex_all (t : Z) (ts : list tri) (ps : list (partition T)) (ios : list Z)
      : option (list tri) :=
      match ts, ps, ios with
      | [], _, _ => Some []
      | tr :: ts', p :: ps', io :: ios' =>
          match prop_tri_out t tr p io, prop_reindex_all (t + 1) ts' ps' ios' with
          | Some rt, Some r => Some (rt ++ r)
          | _, _ => None
          end
      | _, _, _ => None
      end.

    (* triProp handed to CreateHalfedges(triProp, triVerts) *)
    Definition subdivide_triprop : option (list tri) :=
      match sub_parts with
      | None => None
      | Some ps => prop_reindex_all 0 tris ps (interior_offset_list ps)
      end.
  End Props.
End Subdivide.
