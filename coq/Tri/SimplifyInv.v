(* C19 / simplify_counts -- the pairing invariant of SimplifyInvDefs.v is
   preserved by the edge operations of SimplifyDefs.v, and removed halfedges
   (hence removed faces) stay removed.                                        *)
From Coq Require Import ZArith List Bool Lia.
From MV Require Import Tri.SimplifyDefs Tri.SimplifyModel Tri.SimplifyInvDefs.
Import ListNotations.
Local Open Scope Z_scope.

Ltac Zify.zify_post_hook ::= Z.to_euclidean_division_equations.

(* ---- next_he ---------------------------------------------------------------- *)
Lemma next_he_cases : forall e, 0 <= e ->
  (e mod 3 = 2 /\ next_he e = e - 2) \/ (e mod 3 <> 2 /\ next_he e = e + 1).
Proof.
  intros e He; unfold next_he.
  destruct (Z.eqb_spec (Z.rem e 3) 2) as [H|H]; [left|right]; split; lia.
Qed.

Lemma next_he_nonneg : forall e, 0 <= e -> 0 <= next_he e.
Proof. intros e He; destruct (next_he_cases e He) as [[? ->]|[? ->]]; lia. Qed.

Lemma next_he_3 : forall e, 0 <= e -> next_he (next_he (next_he e)) = e.
Proof.
  intros e He.
  destruct (next_he_cases e He) as [[A Ea]|[A Ea]];
  destruct (next_he_cases (next_he e) (next_he_nonneg _ He)) as [[B Eb]|[B Eb]];
  destruct (next_he_cases (next_he (next_he e))
              (next_he_nonneg _ (next_he_nonneg _ He))) as [[C Ec]|[C Ec]]; lia.
Qed.

Lemma next_he_ne : forall e, 0 <= e -> next_he e <> e /\ next_he (next_he e) <> e.
Proof.
  intros e He.
  destruct (next_he_cases e He) as [[A Ea]|[A Ea]];
  destruct (next_he_cases (next_he e) (next_he_nonneg _ He)) as [[B Eb]|[B Eb]]; lia.
Qed.

Lemma next_he_range : forall n e, n mod 3 = 0 -> 0 <= e < n -> 0 <= next_he e < n.
Proof.
  intros n e Hn He. destruct (next_he_cases e ltac:(lia)) as [[A ->]|[A ->]]; lia.
Qed.

Lemma next_he_inj : forall a b, 0 <= a -> 0 <= b -> next_he a = next_he b -> a = b.
Proof.
  intros a b Ha Hb H.
  rewrite <- (next_he_3 a Ha), <- (next_he_3 b Hb), H; reflexivity.
Qed.

Lemma in_faceb_spec : forall t j, in_faceb t j = true <-> in_face t j.
Proof.
  intros t j; unfold in_faceb, in_face.
  rewrite !orb_true_iff, !Z.eqb_eq; tauto.
Qed.

Lemma in_faceb_false : forall t j, in_faceb t j = false <-> ~ in_face t j.
Proof.
  intros t j; rewrite <- in_faceb_spec. destruct (in_faceb t j); split; congruence.
Qed.

(* the face of t is closed under next_he, both ways *)
Lemma in_face_next : forall t j, 0 <= t -> 0 <= j -> (in_face t (next_he j) <-> in_face t j).
Proof.
  intros t j Ht Hj.
  assert (F : forall k, 0 <= k -> in_face t k -> in_face t (next_he k)).
  { intros k Hk [->|[->| ->]]; unfold in_face.
    - right; left; reflexivity.
    - right; right; reflexivity.
    - left; apply next_he_3; assumption. }
  split; intros H.
  - rewrite <- (next_he_3 j Hj). apply F; [apply next_he_nonneg, next_he_nonneg; assumption|].
    apply F; [apply next_he_nonneg; assumption|exact H].
  - apply F; assumption.
Qed.

Lemma in_face_nonneg : forall t j, 0 <= t -> in_face t j -> 0 <= j.
Proof.
  intros t j Ht [->|[->| ->]]; auto using next_he_nonneg.
Qed.

(* ---- h_pair / hlive basics ---------------------------------------------------- *)
Lemma getZ_some_iff : forall (A : Type) (l : list A) i,
  (exists x, getZ l i = Some x) <-> 0 <= i < Z.of_nat (length l).
Proof.
  intros A l i; unfold getZ. destruct (Z.ltb_spec i 0) as [H|H].
  - split; [intros [x Hx]; discriminate|lia].
  - split.
    + intros [x Hx]. assert (nth_error l (Z.to_nat i) <> None) as Hn by congruence.
      apply nth_error_Some in Hn. lia.
    + intros Hi. destruct (nth_error l (Z.to_nat i)) eqn:E; [eauto|].
      apply nth_error_None in E. lia.
Qed.

Lemma h_pair_some_iff : forall s i, (exists p, h_pair s i = Some p) <-> 0 <= i < slots s.
Proof.
  intros s i; unfold h_pair, slots. rewrite <- getZ_some_iff.
  split; intros [x Hx].
  - destruct (getZ (he s) i); [eauto|discriminate].
  - rewrite Hx; cbn; eauto.
Qed.

Lemma h_pair_range : forall s i p, h_pair s i = Some p -> 0 <= i < slots s.
Proof. intros s i p H; apply h_pair_some_iff; eauto. Qed.

Lemma hlive_true : forall s e, hlive s e = true <-> exists p, h_pair s e = Some p /\ 0 <= p.
Proof.
  intros s e; unfold hlive. destruct (h_pair s e) as [p|].
  - rewrite Z.leb_le. split; [eauto|intros [q [Hq ?]]; inversion Hq; lia].
  - split; [discriminate|intros [q [Hq _]]; discriminate].
Qed.

Lemma hlive_range : forall s e, hlive s e = true -> 0 <= e < slots s.
Proof. intros s e H; apply hlive_true in H; destruct H as [p [H _]]; eapply h_pair_range; eauto. Qed.

Lemma live_tri_hlive : forall s t, live_tri s t = hlive s (3 * t).
Proof. reflexivity. Qed.

(* ---- reflection of pair_inv --------------------------------------------------- *)
Lemma chk_he_spec : forall s e, chk_he s e = true <->
  exists p, h_pair s e = Some p /\ -1 <= p /\
            (0 <= p -> p <> e /\ h_pair s p = Some e) /\
            hlive s (next_he e) = hlive s e.
Proof.
  intros s e; unfold chk_he.
  assert (HL : forall p, h_pair s e = Some p -> hlive s e = (0 <=? p)).
  { intros p Hp; unfold hlive; rewrite Hp; reflexivity. }
  destruct (h_pair s e) as [p|]; [|split; [discriminate|intros [p [H _]]; discriminate]].
  rewrite (HL p eq_refl). clear HL.
  rewrite andb_true_iff, eqb_true_iff.
  split.
  - intros [H1 H2]. exists p; split; [reflexivity|].
    destruct (Z.ltb_spec p 0) as [Hp|Hp].
    + apply Z.eqb_eq in H1. repeat split; try lia. exact H2.
    + apply andb_true_iff in H1; destruct H1 as [Hne Hq].
      apply negb_true_iff, Z.eqb_neq in Hne.
      destruct (h_pair s p) as [q|]; [|discriminate]. apply Z.eqb_eq in Hq; subst q.
      repeat split; try lia; auto.
  - intros [p' [Hp' [Hm [Hok Hn]]]]; inversion Hp'; subst p'. split; [|exact Hn].
    destruct (Z.ltb_spec p 0) as [Hp|Hp].
    + apply Z.eqb_eq; lia.
    + destruct (Hok Hp) as [Hne Hq]. rewrite Hq, Z.eqb_refl, andb_true_r.
      apply negb_true_iff, Z.eqb_neq; exact Hne.
Qed.

Lemma in_map_seq : forall n e, In e (map Z.of_nat (seq 0 n)) <-> 0 <= e < Z.of_nat n.
Proof.
  intros n e; rewrite in_map_iff; split.
  - intros [k [<- Hk]]; apply in_seq in Hk; lia.
  - intros He; exists (Z.to_nat e); split; [lia|apply in_seq; lia].
Qed.

Theorem pair_inv_reflect : forall s, pair_inv s = true <-> PairInv s.
Proof.
  intros s; unfold pair_inv, PairInv, WF.
  rewrite andb_true_iff, Z.eqb_eq, forallb_forall.
  split.
  - intros [Hm Hall].
    assert (Hall' : forall e, 0 <= e < slots s -> chk_he s e = true).
    { intros e He; apply Hall, in_map_seq; exact He. }
    split; [split; [exact Hm|]|].
    + intros e He. apply Hall', chk_he_spec in He. destruct He as [p [Hp [Hm1 [_ Hn]]]].
      split; eauto.
    + intros e p Hp Hp0. pose proof (h_pair_range _ _ _ Hp) as He.
      apply Hall', chk_he_spec in He. destruct He as [p' [Hp' [_ [Hok _]]]].
      rewrite Hp in Hp'; inversion Hp'; subst p'. auto.
  - intros [[Hm Hwf] Hok]. split; [exact Hm|].
    intros e He; apply in_map_seq in He. apply chk_he_spec.
    destruct (Hwf e He) as [[p [Hp Hm1]] Hn].
    exists p; repeat split; auto; apply (Hok e p Hp); assumption.
Qed.

Lemma PairInv_Inv : forall s, PairInv s <-> Inv (-1) s.
Proof.
  intros s; unfold PairInv, Inv; split.
  - intros [Hw Hok]; split; [exact Hw|split; [intros e _; apply Hok|]].
    intros q Hq; apply h_pair_range in Hq; lia.
  - intros [Hw [Hok _]]; split; auto.
    intros e; destruct (Z.eq_dec e (-1)) as [->|Hne]; auto.
    intros p Hp; apply h_pair_range in Hp; lia.
Qed.

(* an exception that is not live is no exception *)
Lemma Inv_dead : forall x s, Inv x s -> hlive s x = false -> PairInv s.
Proof.
  intros x s [Hw [Hok _]] Hd; split; auto.
  intros e; destruct (Z.eq_dec e x) as [->|Hne]; auto.
  intros p Hp Hp0. assert (hlive s x = true) by (apply hlive_true; eauto). congruence.
Qed.

(* consequences of WF *)
Lemma WF_next : forall s e, WF s -> 0 <= e -> hlive s (next_he e) = hlive s e.
Proof.
  intros s e [Hm Hwf] He.
  destruct (Z.ltb_spec e (slots s)) as [Hlt|Hge]; [apply Hwf; lia|].
  assert (Hn : slots s <= next_he e).
  { destruct (next_he_cases e He) as [[A ->]|[A ->]]; lia. }
  unfold hlive.
  destruct (h_pair s (next_he e)) eqn:E1; [apply h_pair_range in E1; lia|].
  destruct (h_pair s e) eqn:E2; [apply h_pair_range in E2; lia|reflexivity].
Qed.

Lemma WF_face : forall s t j, WF s -> 0 <= t -> in_face t j -> hlive s j = hlive s t.
Proof.
  intros s t j Hw Ht [->|[->| ->]]; [reflexivity| |].
  - apply WF_next; assumption.
  - rewrite (WF_next s (next_he t) Hw (next_he_nonneg _ Ht)). apply WF_next; assumption.
Qed.

Lemma WF_val : forall s e p, WF s -> h_pair s e = Some p -> p = -1 \/ 0 <= p.
Proof.
  intros s e p [_ Hwf] Hp. destruct (Hwf e (h_pair_range _ _ _ Hp)) as [[p' [Hp' Hm]] _].
  rewrite Hp in Hp'; inversion Hp'; lia.
Qed.

Lemma WF_dead : forall s e p, WF s -> h_pair s e = Some p -> hlive s e = false -> p = -1.
Proof.
  intros s e p Hw Hp Hd. destruct (WF_val _ _ _ Hw Hp) as [?|H0]; [assumption|].
  assert (hlive s e = true) by (apply hlive_true; eauto). congruence.
Qed.

(* ---- pair column of the primitive writes -------------------------------------- *)
Lemma set_start_pair : forall s i v s', set_start s i v = Some s' ->
  forall j, h_pair s' j = h_pair s j.
Proof.
  intros s i v s' H j; unfold set_start in H; steps H.
  rewrite h_pair_with_he, (getZ_setZ _ _ _ _ _ E0). unfold h_pair.
  destruct (Z.eqb_spec j i) as [->|]; [rewrite E|]; reflexivity.
Qed.
Lemma set_end_pair : forall s i v s', set_end s i v = Some s' ->
  forall j, h_pair s' j = h_pair s j.
Proof. intros s i v s' H; eapply set_start_pair; exact H. Qed.
Lemma set_prop_pair : forall s i v s', set_prop s i v = Some s' ->
  forall j, h_pair s' j = h_pair s j.
Proof.
  intros s i v s' H j; unfold set_prop in H; steps H.
  rewrite h_pair_with_he, (getZ_setZ _ _ _ _ _ E0). unfold h_pair.
  destruct (Z.eqb_spec j i) as [->|]; [rewrite E|]; reflexivity.
Qed.
Lemma push_vert_pair : forall s j, h_pair (push_vert s) j = h_pair s j.
Proof. reflexivity. Qed.
Lemma push_prop_pair : forall s j, h_pair (push_prop s) j = h_pair s j.
Proof. reflexivity. Qed.

Lemma set_all_pair : forall s i a b c s', set_all s i a b c = Some s' ->
  forall j, h_pair s' j = if j =? i then Some b else h_pair s j.
Proof.
  intros s i a b c s' H j; unfold set_all in H; steps H.
  rewrite h_pair_with_he, (getZ_setZ _ _ _ _ _ E).
  destruct (j =? i); reflexivity.
Qed.

Lemma set_all_range : forall s i a b c s', set_all s i a b c = Some s' -> 0 <= i < slots s.
Proof.
  intros s i a b c s' H. pose proof (set_all_pair _ _ _ _ _ _ H i) as G.
  rewrite Z.eqb_refl in G. apply h_pair_range in G.
  apply set_all_slots in H. lia.
Qed.

Lemma kill_keep_prop_range : forall s i s', kill_keep_prop s i = Some s' -> 0 <= i < slots s.
Proof.
  intros s i s' H; unfold kill_keep_prop in H; steps H. eapply set_all_range; eauto.
Qed.

(* a state transformer that leaves the pair column alone *)
Definition same_pairs (s s' : state) : Prop :=
  slots s' = slots s /\ forall j, h_pair s' j = h_pair s j.

Lemma same_pairs_refl : forall s, same_pairs s s.
Proof. split; reflexivity. Qed.
Lemma same_pairs_trans : forall a b c, same_pairs a b -> same_pairs b c -> same_pairs a c.
Proof. intros a b c [L1 P1] [L2 P2]; split; [lia|intros j; rewrite P2; apply P1]. Qed.

Lemma same_pairs_hlive : forall s s' e, same_pairs s s' -> hlive s' e = hlive s e.
Proof. intros s s' e [_ P]; unfold hlive; rewrite P; reflexivity. Qed.

Lemma same_pairs_ok : forall s s' e, same_pairs s s' -> ok s e -> ok s' e.
Proof. intros s s' e [_ P] H p; rewrite !P; apply H. Qed.

Lemma same_pairs_WF : forall s s', same_pairs s s' -> WF s -> WF s'.
Proof.
  intros s s' Hs [Hm Hw]; pose proof Hs as [L P]; split; [rewrite L; exact Hm|].
  intros e He; rewrite L in He. rewrite !(same_pairs_hlive _ _ _ Hs), P. apply Hw; exact He.
Qed.

Lemma same_pairs_Inv : forall x s s', same_pairs s s' -> Inv x s -> Inv x s'.
Proof.
  intros x s s' Hs [Hw [Hok Hx]]; pose proof Hs as [L P]; split; [|split].
  - eapply same_pairs_WF; eauto.
  - intros e He; eapply same_pairs_ok; eauto.
  - intros q Hq; rewrite P in Hq. rewrite (same_pairs_hlive _ _ _ Hs); auto.
Qed.

Lemma same_pairs_mono : forall s s', same_pairs s s' -> mono s s'.
Proof. intros s s' Hs e; rewrite (same_pairs_hlive _ _ _ Hs); auto. Qed.

Lemma set_start_same : forall s i v s', set_start s i v = Some s' -> same_pairs s s'.
Proof. intros s i v s' H; split; [eapply set_start_slots|eapply set_start_pair]; eauto. Qed.
Lemma set_end_same : forall s i v s', set_end s i v = Some s' -> same_pairs s s'.
Proof. intros s i v s' H; eapply set_start_same; exact H. Qed.
Lemma set_prop_same : forall s i v s', set_prop s i v = Some s' -> same_pairs s s'.
Proof. intros s i v s' H; split; [eapply set_prop_slots|eapply set_prop_pair]; eauto. Qed.

(* ---- UpdateVert only writes `start` -------------------------------------------- *)
Theorem update_vert_same : forall fuel s vert current endEdge s',
  update_vert fuel s vert current endEdge = Some s' -> same_pairs s s'.
Proof.
  induction fuel as [|f IH]; intros s vert current endEdge s' H;
    cbn [update_vert] in H; steps H; try apply same_pairs_refl.
  apply IH in H. apply set_end_same in E. apply set_start_same in E0.
  eauto using same_pairs_trans.
Qed.

(* ---- PairUp ------------------------------------------------------------------- *)
Lemma pair_up_pair : forall s x y s', pair_up s x y = Some s' ->
  forall j, h_pair s' j = if j =? y then Some x else if j =? x then Some y else h_pair s j.
Proof.
  intros s x y s' H j; unfold pair_up in H; steps H.
  rewrite (set_pair_get _ _ _ _ H), (set_pair_get _ _ _ _ E); reflexivity.
Qed.

Lemma pair_up_range : forall s x y s', pair_up s x y = Some s' ->
  0 <= x < slots s /\ 0 <= y < slots s.
Proof.
  intros s x y s' H; unfold pair_up in H; steps H.
  destruct (set_pair_defined _ _ _ _ E) as [q Hq].
  destruct (set_pair_defined _ _ _ _ H) as [q' Hq'].
  apply h_pair_range in Hq, Hq'. apply set_pair_slots in E. lia.
Qed.

Lemma pair_up_hlive : forall s x y s', pair_up s x y = Some s' ->
  forall j, hlive s' j = if (j =? y) || (j =? x) then true else hlive s j.
Proof.
  intros s x y s' H j. pose proof (pair_up_range _ _ _ _ H) as [Hx Hy].
  unfold hlive; rewrite (pair_up_pair _ _ _ _ H).
  destruct (Z.eqb_spec j y); [cbn; apply Z.leb_le; lia|].
  destruct (Z.eqb_spec j x); [cbn; apply Z.leb_le; lia|reflexivity].
Qed.

(* ---- generic: a step that removes the halfedges selected by K ------------------- *)
Ltac zeqb :=
  repeat match goal with
  | |- context [?a =? ?b] => destruct (Z.eqb_spec a b)
  | H : context [?a =? ?b] |- _ => destruct (Z.eqb_spec a b)
  end.

Lemma WF_kill : forall (K : Z -> bool) s s',
  WF s -> slots s' = slots s ->
  (forall j, 0 <= j -> K (next_he j) = K j) ->
  (forall j, 0 <= j < slots s -> exists p, h_pair s' j = Some p /\ -1 <= p) ->
  (forall j, hlive s' j = if K j then false else hlive s j) ->
  WF s'.
Proof.
  intros K s s' Hw L HK Hv Hl. pose proof Hw as [Hm Hwf].
  split; [rewrite L; exact Hm|].
  intros e He; rewrite L in He. split; [apply Hv; exact He|].
  rewrite !Hl, HK by lia. destruct (K e); [reflexivity|apply Hwf; exact He].
Qed.

Lemma in_faceb_next : forall t j, 0 <= t -> 0 <= j -> in_faceb t (next_he j) = in_faceb t j.
Proof.
  intros t j Ht Hj. pose proof (in_face_next t j Ht Hj) as H.
  rewrite <- !in_faceb_spec in H.
  destruct (in_faceb t (next_he j)), (in_faceb t j); try reflexivity;
    destruct H as [H1 H2]; [discriminate (H1 eq_refl)|discriminate (H2 eq_refl)].
Qed.

(* ---- CollapseTri ------------------------------------------------------------- *)
Lemma collapse_tri_pair : forall s t0 t1 t2 p1 p2 s',
  h_pair s t1 = Some p1 -> p1 <> -1 -> h_pair s t2 = Some p2 ->
  collapse_tri s (t0, t1, t2) = Some s' ->
  slots s' = slots s /\
  (0 <= t0 < slots s /\ 0 <= p1 < slots s /\ 0 <= p2 < slots s) /\
  forall j, h_pair s' j =
    if (j =? t2) || (j =? t1) || (j =? t0) then Some (-1)
    else if j =? p2 then Some p1 else if j =? p1 then Some p2 else h_pair s j.
Proof.
  intros s t0 t1 t2 p1 p2 s' Hp1 Hne Hp2 H.
  pose proof (collapse_tri_slots _ _ _ H) as L.
  unfold collapse_tri in H; rewrite Hp1 in H; cbn [bind] in H.
  destruct (Z.eqb_spec p1 (-1)) as [|_]; [contradiction|].
  rewrite Hp2 in H; cbn [bind] in H. steps H.
  pose proof (pair_up_range _ _ _ _ E) as [R1 R2].
  pose proof (kill_keep_prop_range _ _ _ E0) as R0.
  pose proof (pair_up_slots _ _ _ _ E) as L1.
  split; [exact L|]. split; [lia|].
  intros j.
  rewrite (kill_keep_prop_get _ _ _ H), (kill_keep_prop_get _ _ _ E1),
          (kill_keep_prop_get _ _ _ E0), (pair_up_pair _ _ _ _ E).
  destruct (j =? t2), (j =? t1), (j =? t0); reflexivity.
Qed.

(* the core: t1 = next t0 and t2 = next t1 well paired, partners outside t0 *)
Lemma collapse_tri_core : forall s t0 p1 p2 s',
  WF s -> 0 <= t0 ->
  h_pair s (next_he t0) = Some p1 -> p1 <> -1 ->
  h_pair s (next_he (next_he t0)) = Some p2 ->
  ok s (next_he t0) -> ok s (next_he (next_he t0)) ->
  p1 <> t0 -> p2 <> t0 ->
  collapse_tri s (tri_of t0) = Some s' ->
  slots s' = slots s /\
  WF s' /\
  (forall j, hlive s' j = if in_faceb t0 j then false else hlive s j) /\
  (forall j, in_faceb t0 j = false -> j <> p1 -> j <> p2 -> h_pair s' j = h_pair s j) /\
  (forall e, ok s e -> h_pair s e <> Some t0 -> ok s' e).
Proof.
  intros s t0 p1 p2 s' Hw Ht0 Hp1 Hne Hp2 Hok1 Hok2 N1 N2 H.
  unfold tri_of in H.
  destruct (collapse_tri_pair _ _ _ _ _ _ _ Hp1 Hne Hp2 H) as [L [[R0 [R1 R2]] G]].
  destruct (WF_val _ _ _ Hw Hp1) as [?|P1]; [contradiction|].
  assert (Hl1 : hlive s (next_he t0) = true) by (apply hlive_true; eauto).
  assert (Hl2 : hlive s (next_he (next_he t0)) = true).
  { rewrite WF_next; auto using next_he_nonneg. }
  assert (P2 : 0 <= p2).
  { apply hlive_true in Hl2; destruct Hl2 as [q [Hq Hq0]]; congruence. }
  destruct (Hok1 _ Hp1 P1) as [S1 Q1]. destruct (Hok2 _ Hp2 P2) as [S2 Q2].
  pose proof (next_he_ne t0 Ht0) as [D1 D2].
  pose proof (next_he_ne (next_he t0) (next_he_nonneg _ Ht0)) as [D3 _].
  assert (Hlp1 : hlive s p1 = true).
  { apply hlive_true; exists (next_he t0); split; auto using next_he_nonneg. }
  assert (Hlp2 : hlive s p2 = true).
  { apply hlive_true; exists (next_he (next_he t0)); split; auto using next_he_nonneg. }
  assert (HL : forall j, hlive s' j = if in_faceb t0 j then false else hlive s j).
  { intros j; unfold in_faceb, hlive at 1; rewrite G.
    generalize dependent (next_he (next_he t0)); intros t2; intros.
    generalize dependent (next_he t0); intros t1; intros.
    zeqb; subst; cbn [orb]; try reflexivity; try lia; try congruence;
      try (symmetry; assumption);
      try (rewrite ?Hlp1, ?Hlp2; apply Z.leb_le; lia). }
  split; [exact L|]. split; [|split; [exact HL|split]].
  - apply (WF_kill (in_faceb t0) s s' Hw L); [intros; apply in_faceb_next; assumption| |exact HL].
    intros j Hj. rewrite G.
    destruct ((j =? next_he (next_he t0)) || (j =? next_he t0) || (j =? t0)); [eexists; split; [reflexivity|lia]|].
    destruct (j =? p2); [eexists; split; [reflexivity|lia]|].
    destruct (j =? p1); [eexists; split; [reflexivity|lia]|].
    destruct Hw as [_ Hwf]. apply Hwf; exact Hj.
  - intros j Hj J1 J2. rewrite G. unfold in_faceb in Hj.
    apply orb_false_iff in Hj; destruct Hj as [Hj Hj2].
    apply orb_false_iff in Hj; destruct Hj as [Hj0 Hj1].
    rewrite Hj0, Hj1, Hj2; cbn [orb].
    destruct (Z.eqb_spec j p2); [contradiction|].
    destruct (Z.eqb_spec j p1); [contradiction|reflexivity].
  - intros e Hoke Hnt p Hp Hp0. rewrite G in Hp. rewrite G.
    generalize dependent (next_he (next_he t0)); intros t2; intros.
    generalize dependent (next_he t0); intros t1; intros.
    destruct ((e =? t2) || (e =? t1) || (e =? t0)) eqn:Ke; [inversion Hp; lia|].
    apply orb_false_iff in Ke; destruct Ke as [Ke Ke0].
    apply orb_false_iff in Ke; destruct Ke as [Ke2 Ke1].
    apply Z.eqb_neq in Ke0, Ke1, Ke2.
    destruct (Z.eqb_spec e p2) as [->|Ne2].
    { inversion Hp; subst p. split; [congruence|].
      zeqb; subst; cbn [orb]; try reflexivity; try congruence; try lia. }
    destruct (Z.eqb_spec e p1) as [->|Ne1].
    { inversion Hp; subst p. split; [congruence|].
      zeqb; subst; cbn [orb]; try reflexivity; try congruence; try lia. }
    destruct (Hoke _ Hp Hp0) as [Se Qe]. split; [exact Se|].
    zeqb; subst; cbn [orb]; try reflexivity; try congruence; try lia.
Qed.

Lemma mono_of_kill : forall (K : Z -> bool) s s',
  (forall j, hlive s' j = if K j then false else hlive s j) -> mono s s'.
Proof. intros K s s' H e; rewrite H; destruct (K e); [discriminate|auto]. Qed.

Lemma mono_refl : forall s, mono s s.
Proof. intros s e H; exact H. Qed.
Lemma mono_trans : forall a b c, mono a b -> mono b c -> mono a c.
Proof. intros a b c H1 H2 e H; auto. Qed.

Lemma mono_live_tri : forall s s', mono s s' ->
  forall t, live_tri s t = false -> live_tri s' t = false.
Proof.
  intros s s' H t Hd; rewrite live_tri_hlive in *.
  destruct (hlive s' (3 * t)) eqn:E; [apply H in E; congruence|reflexivity].
Qed.

(* liveness after CollapseTri, from the invariant at t1, t2 only *)
Lemma collapse_tri_live : forall s t0 s',
  WF s -> 0 <= t0 ->
  ok s (next_he t0) -> ok s (next_he (next_he t0)) ->
  collapse_tri s (tri_of t0) = Some s' ->
  slots s' = slots s /\ mono s s' /\
  (s' = s \/ forall j, hlive s' j = if in_faceb t0 j then false else hlive s j).
Proof.
  intros s t0 s' Hw Ht0 Hok1 Hok2 H.
  pose proof (collapse_tri_slots _ _ _ H) as L.
  destruct (h_pair s (next_he t0)) as [p1|] eqn:Hp1;
    [|unfold tri_of, collapse_tri in H; rewrite Hp1 in H; discriminate].
  destruct (Z.eq_dec p1 (-1)) as [->|Hne].
  { unfold tri_of, collapse_tri in H; rewrite Hp1 in H; cbn in H. inversion H; subst.
    split; [reflexivity|split; [apply mono_refl|left; reflexivity]]. }
  destruct (h_pair s (next_he (next_he t0))) as [p2|] eqn:Hp2;
    [|unfold tri_of, collapse_tri in H; rewrite Hp1 in H; cbn [bind] in H;
      destruct (p1 =? -1) eqn:B; [apply Z.eqb_eq in B; contradiction|];
      rewrite Hp2 in H; discriminate].
  unfold tri_of in H.
  destruct (collapse_tri_pair _ _ _ _ _ _ _ Hp1 Hne Hp2 H) as [_ [[R0 [R1 R2]] G]].
  destruct (WF_val _ _ _ Hw Hp1) as [?|P1]; [contradiction|].
  assert (Hl1 : hlive s (next_he t0) = true) by (apply hlive_true; eauto).
  assert (Hl2 : hlive s (next_he (next_he t0)) = true).
  { rewrite WF_next; auto using next_he_nonneg. }
  assert (P2 : 0 <= p2).
  { apply hlive_true in Hl2; destruct Hl2 as [q [Hq Hq0]]; congruence. }
  destruct (Hok1 _ Hp1 P1) as [S1 Q1]. destruct (Hok2 _ Hp2 P2) as [S2 Q2].
  assert (Hlp1 : hlive s p1 = true).
  { apply hlive_true; exists (next_he t0); split; auto using next_he_nonneg. }
  assert (Hlp2 : hlive s p2 = true).
  { apply hlive_true; exists (next_he (next_he t0)); split; auto using next_he_nonneg. }
  assert (HL : forall j, hlive s' j = if in_faceb t0 j then false else hlive s j).
  { intros j; unfold in_faceb, hlive at 1; rewrite G.
    generalize dependent (next_he (next_he t0)); intros t2; intros.
    generalize dependent (next_he t0); intros t1; intros.
    zeqb; subst; cbn [orb]; try reflexivity; try lia; try congruence;
      try (symmetry; assumption);
      try (rewrite ?Hlp1, ?Hlp2; apply Z.leb_le; lia). }
  split; [exact L|split; [eapply mono_of_kill; exact HL|right; exact HL]].
Qed.

Theorem collapse_tri_dead_stay_dead : forall s e s',
  pair_inv s = true -> 0 <= e ->
  collapse_tri s (tri_of e) = Some s' ->
  forall t, live_tri s t = false -> live_tri s' t = false.
Proof.
  intros s e s' Hi He H. apply pair_inv_reflect in Hi. destruct Hi as [Hw Hok].
  destruct (collapse_tri_live s e s' Hw He (Hok _) (Hok _) H) as [_ [Hm _]].
  apply mono_live_tri; exact Hm.
Qed.

(* first CollapseTri of a pair of faces: the partner y of t0 becomes the
   tolerated exception *)
Lemma collapse_tri_inv_first : forall s t0 y s',
  PairInv s -> 0 <= t0 -> h_pair s t0 = Some y -> ~ in_face t0 y ->
  collapse_tri s (tri_of t0) = Some s' ->
  Inv y s' /\ mono s s' /\ slots s' = slots s.
Proof.
  intros s t0 y s' [Hw Hok] Ht0 Hy Hnf H.
  destruct (collapse_tri_live s t0 s' Hw Ht0 (Hok _) (Hok _) H) as [L [Hm _]].
  split; [|split; assumption].
  destruct (h_pair s (next_he t0)) as [p1|] eqn:Hp1;
    [|unfold tri_of, collapse_tri in H; rewrite Hp1 in H; discriminate].
  destruct (Z.eq_dec p1 (-1)) as [->|Hne].
  { unfold tri_of, collapse_tri in H; rewrite Hp1 in H; cbn in H. inversion H; subst s'.
    (* face dead: y = -1 *)
    assert (Hd : hlive s t0 = false).
    { rewrite <- (WF_next s t0 Hw Ht0). unfold hlive; rewrite Hp1; reflexivity. }
    rewrite (WF_dead _ _ _ Hw Hy Hd). apply PairInv_Inv; split; assumption. }
  destruct (h_pair s (next_he (next_he t0))) as [p2|] eqn:Hp2;
    [|unfold tri_of, collapse_tri in H; rewrite Hp1 in H; cbn [bind] in H;
      destruct (p1 =? -1) eqn:B; [apply Z.eqb_eq in B; contradiction|];
      rewrite Hp2 in H; discriminate].
  destruct (WF_val _ _ _ Hw Hp1) as [?|P1]; [contradiction|].
  assert (Hl1 : hlive s (next_he t0) = true) by (apply hlive_true; eauto).
  assert (Hl0 : hlive s t0 = true) by (rewrite <- (WF_next s t0 Hw Ht0); exact Hl1).
  assert (Hl2 : hlive s (next_he (next_he t0)) = true).
  { rewrite WF_next; auto using next_he_nonneg. }
  assert (P2 : 0 <= p2).
  { apply hlive_true in Hl2; destruct Hl2 as [q [Hq Hq0]]; congruence. }
  assert (Y0 : 0 <= y).
  { apply hlive_true in Hl0; destruct Hl0 as [q [Hq Hq0]]; congruence. }
  destruct (Hok _ _ Hp1 P1) as [S1 Q1]. destruct (Hok _ _ Hp2 P2) as [S2 Q2].
  destruct (Hok _ _ Hy Y0) as [S0 Q0].
  assert (N1 : p1 <> t0).
  { intros ->. rewrite Hy in Q1. inversion Q1; subst y. apply Hnf; right; left; reflexivity. }
  assert (N2 : p2 <> t0).
  { intros ->. rewrite Hy in Q2. inversion Q2; subst y. apply Hnf; right; right; reflexivity. }
  destruct (collapse_tri_core s t0 p1 p2 s' Hw Ht0 Hp1 Hne Hp2 (Hok _) (Hok _) N1 N2 H)
    as [_ [Hw' [HL [Hsame Hc]]]].
  split; [exact Hw'|split].
  - intros e Hne'. apply Hc; [apply Hok|].
    intros He. assert (0 <= t0) as T by assumption.
    destruct (Hok _ _ He T) as [_ Q]. congruence.
  - intros q Hq.
    assert (Hq' : h_pair s' y = h_pair s y).
    { apply Hsame.
      - apply in_faceb_false; exact Hnf.
      - intros ->. rewrite Q0 in Q1. inversion Q1. pose proof (next_he_ne t0 Ht0); lia.
      - intros ->. rewrite Q0 in Q2. inversion Q2. pose proof (next_he_ne t0 Ht0); lia. }
    rewrite Hq', Q0 in Hq. inversion Hq; subst q.
    rewrite HL. unfold in_faceb; rewrite Z.eqb_refl; reflexivity.
Qed.

(* second CollapseTri: the exception itself is removed *)
Lemma collapse_tri_inv_second : forall s t0 s',
  Inv t0 s -> 0 <= t0 ->
  collapse_tri s (tri_of t0) = Some s' ->
  PairInv s' /\ mono s s' /\ slots s' = slots s.
Proof.
  intros s t0 s' [Hw [Hok Hx]] Ht0 H.
  pose proof (next_he_ne t0 Ht0) as [D1 D2].
  destruct (collapse_tri_live s t0 s' Hw Ht0 (Hok _ D1) (Hok _ D2) H) as [L [Hm _]].
  split; [|split; assumption].
  destruct (h_pair s (next_he t0)) as [p1|] eqn:Hp1;
    [|unfold tri_of, collapse_tri in H; rewrite Hp1 in H; discriminate].
  destruct (Z.eq_dec p1 (-1)) as [->|Hne].
  { unfold tri_of, collapse_tri in H; rewrite Hp1 in H; cbn in H. inversion H; subst s'.
    assert (Hd : hlive s t0 = false).
    { rewrite <- (WF_next s t0 Hw Ht0). unfold hlive; rewrite Hp1; reflexivity. }
    eapply Inv_dead; [split; [exact Hw|split; [exact Hok|exact Hx]]|exact Hd]. }
  destruct (h_pair s (next_he (next_he t0))) as [p2|] eqn:Hp2;
    [|unfold tri_of, collapse_tri in H; rewrite Hp1 in H; cbn [bind] in H;
      destruct (p1 =? -1) eqn:B; [apply Z.eqb_eq in B; contradiction|];
      rewrite Hp2 in H; discriminate].
  destruct (WF_val _ _ _ Hw Hp1) as [?|P1]; [contradiction|].
  assert (Hl1 : hlive s (next_he t0) = true) by (apply hlive_true; eauto).
  assert (Hl2 : hlive s (next_he (next_he t0)) = true).
  { rewrite WF_next; auto using next_he_nonneg. }
  assert (P2 : 0 <= p2).
  { apply hlive_true in Hl2; destruct Hl2 as [q [Hq Hq0]]; congruence. }
  destruct (Hok _ D1 _ Hp1 P1) as [S1 Q1]. destruct (Hok _ D2 _ Hp2 P2) as [S2 Q2].
  assert (N1 : p1 <> t0).
  { intros ->. rewrite (Hx _ Q1) in Hl1; discriminate. }
  assert (N2 : p2 <> t0).
  { intros ->. rewrite (Hx _ Q2) in Hl2; discriminate. }
  destruct (collapse_tri_core s t0 p1 p2 s' Hw Ht0 Hp1 Hne Hp2 (Hok _ D1) (Hok _ D2) N1 N2 H)
    as [_ [Hw' [HL [Hsame Hc]]]].
  split; [exact Hw'|].
  intros e. destruct (Z.eq_dec e t0) as [->|Hne'].
  - intros p Hp Hp0. assert (hlive s' t0 = true) as A by (apply hlive_true; eauto).
    rewrite HL in A. unfold in_faceb in A; rewrite Z.eqb_refl in A; discriminate.
  - apply Hc; [apply Hok; exact Hne'|].
    intros He. destruct (Hok _ Hne' _ He Ht0) as [_ Q].
    assert (hlive s e = true) as A by (apply hlive_true; eauto).
    rewrite (Hx _ Q) in A; discriminate.
Qed.

(* the two CollapseTri of an edge whose halfedges lie in different faces *)
Theorem collapse_two_tris_pair_inv : forall s e p s1 s2,
  pair_inv s = true -> h_pair s e = Some p -> 0 <= p -> ~ in_face p e ->
  collapse_tri s (tri_of p) = Some s1 ->
  collapse_tri s1 (tri_of e) = Some s2 ->
  pair_inv s2 = true /\
  forall t, live_tri s t = false -> live_tri s2 t = false.
Proof.
  intros s e p s1 s2 Hi Hp Hp0 Hnf H1 H2.
  apply pair_inv_reflect in Hi. pose proof Hi as [Hw Hok].
  destruct (Hok _ _ Hp Hp0) as [_ Q].
  pose proof (h_pair_range _ _ _ Hp) as He.
  destruct (collapse_tri_inv_first s p e s1 Hi Hp0 Q Hnf H1) as [I1 [M1 _]].
  destruct (collapse_tri_inv_second s1 e s2 I1 ltac:(lia) H2) as [I2 [M2 _]].
  split; [apply pair_inv_reflect; exact I2|].
  apply mono_live_tri. eapply mono_trans; eauto.
Qed.

(* ---- RemoveIfFolded ------------------------------------------------------------ *)
Lemma set_all_neg : forall s a b c, set_all s (-1) a b c = None.
Proof. reflexivity. Qed.

Lemma rif_cases : forall s edge s',
  remove_if_folded s edge = Some s' ->
  s' = s \/
  exists pe pa1 pb2 pa2' pb1' s1 s2,
    h_pair s edge = Some pe /\
    h_pair s (next_he edge) = Some pa1 /\ pa1 <> -1 /\
    h_pair s (next_he (next_he pe)) = Some pb2 /\
    pair_up s pa1 pb2 = Some s1 /\
    h_pair s1 (next_he (next_he edge)) = Some pa2' /\
    h_pair s1 (next_he pe) = Some pb1' /\
    pair_up s1 pa2' pb1' = Some s2 /\
    0 <= pe /\
    forall j, h_pair s' j =
      if in_faceb edge j || in_faceb pe j then Some (-1) else h_pair s2 j.
Proof.
  intros s edge s' H. unfold remove_if_folded, tri_of in H.
  steps H; try (left; reflexivity).
  right. exists z, z0, z4, z5, z6, s0, s1.
  apply Z.eqb_neq in B.
  assert (Hpe : 0 <= z) by (apply set_all_range in E11; lia).
  repeat (split; [first [assumption|reflexivity]|]).
  intros j.
  rewrite (set_all_pair _ _ _ _ _ _ H), (set_all_pair _ _ _ _ _ _ E14),
    (set_all_pair _ _ _ _ _ _ E13), (set_all_pair _ _ _ _ _ _ E12),
    (set_all_pair _ _ _ _ _ _ E11), (set_all_pair _ _ _ _ _ _ E10).
  unfold in_faceb.
  destruct (j =? edge), (j =? next_he edge), (j =? next_he (next_he edge)),
    (j =? z), (j =? next_he z), (j =? next_he (next_he z)); reflexivity.
Qed.

Lemma in_face_next_not : forall t j, 0 <= t -> 0 <= j -> ~ in_face t j ->
  ~ in_face t (next_he j).
Proof. intros t j Ht Hj H H'; apply H, in_face_next; assumption. Qed.

Ltac kill_if :=
  repeat match goal with
  | H : ?a <> ?b |- context [?a =? ?b] => rewrite (proj2 (Z.eqb_neq a b) H)
  | H : ?b <> ?a |- context [?a =? ?b] => rewrite (proj2 (Z.eqb_neq a b) (not_eq_sym H))
  | |- context [?a =? ?a] => rewrite (Z.eqb_refl a)
  end; cbn [orb andb negb].


Lemma pair_up_ok_args : forall s x y s', pair_up s x y = Some s' -> x <> y ->
  ok s' x /\ ok s' y.
Proof.
  intros s x y s' H Hne. pose proof (pair_up_pair _ _ _ _ H) as G.
  split; intros p Hp Hp0; rewrite G in Hp; rewrite G.
  - destruct (Z.eqb_spec x y); [contradiction|]. rewrite Z.eqb_refl in Hp.
    inversion Hp; subst p. rewrite Z.eqb_refl. split; congruence.
  - rewrite Z.eqb_refl in Hp. inversion Hp; subst p.
    destruct (Z.eqb_spec x y); [contradiction|]. rewrite Z.eqb_refl. split; congruence.
Qed.

Lemma pair_up_ok_other : forall s x y s' e, pair_up s x y = Some s' ->
  e <> x -> e <> y -> ok s e -> h_pair s e <> Some x -> h_pair s e <> Some y -> ok s' e.
Proof.
  intros s x y s' e H Hx Hy Hok Nx Ny p Hp Hp0. pose proof (pair_up_pair _ _ _ _ H) as G.
  rewrite G in Hp.
  destruct (Z.eqb_spec e y); [contradiction|]. destruct (Z.eqb_spec e x); [contradiction|].
  destruct (Hok _ Hp Hp0) as [S Q]. split; [exact S|]. rewrite G.
  destruct (Z.eqb_spec p y); [congruence|]. destruct (Z.eqb_spec p x); [congruence|]. exact Q.
Qed.

Lemma rif_core : forall s a0 b0 pa1 pb2 pa2' pb1' s1 s2 s',
  WF s -> 0 <= a0 -> 0 <= b0 ->
  h_pair s a0 = Some b0 -> ~ in_face a0 b0 ->
  ok s a0 -> ok s (next_he a0) -> ok s (next_he (next_he a0)) ->
  ok s (next_he b0) -> ok s (next_he (next_he b0)) ->
  h_pair s (next_he a0) = Some pa1 -> pa1 <> -1 ->
  h_pair s (next_he (next_he b0)) = Some pb2 ->
  pair_up s pa1 pb2 = Some s1 ->
  h_pair s1 (next_he (next_he a0)) = Some pa2' ->
  h_pair s1 (next_he b0) = Some pb1' ->
  pair_up s1 pa2' pb1' = Some s2 ->
  slots s' = slots s ->
  (forall j, h_pair s' j =
      if in_faceb a0 j || in_faceb b0 j then Some (-1) else h_pair s2 j) ->
  exists pa2 pb1,
  h_pair s (next_he (next_he a0)) = Some pa2 /\ h_pair s (next_he b0) = Some pb1 /\
  (forall j, hlive s' j = if in_faceb a0 j || in_faceb b0 j then false else hlive s j) /\
  (forall j, in_faceb a0 j || in_faceb b0 j = false ->
     j <> pa1 -> j <> pb2 -> j <> pa2 -> j <> pb1 -> h_pair s' j = h_pair s j) /\
  (forall j, 0 <= j < slots s -> exists p, h_pair s' j = Some p /\ -1 <= p) /\
  (forall e, ok s e -> ok s' e).
Proof.
  intros s a0 b0 pa1 pb2 pa2' pb1' s1 s2 s' Hw Ha0 Hb0 Hab Hnf Oa0 Oa1 Oa2 Ob1 Ob2
    Hpa1 Hne Hpb2 U1 Hpa2' Hpb1' U2 L G.
  pose proof (pair_up_pair _ _ _ _ U1) as G1.
  pose proof (pair_up_pair _ _ _ _ U2) as G2.
  destruct (WF_val _ _ _ Hw Hpa1) as [?|P1]; [contradiction|].
  assert (La1 : hlive s (next_he a0) = true) by (apply hlive_true; eauto).
  assert (La0 : hlive s a0 = true) by (rewrite <- (WF_next s a0 Hw Ha0); exact La1).
  assert (La2 : hlive s (next_he (next_he a0)) = true).
  { rewrite WF_next; auto using next_he_nonneg. }
  destruct (Oa0 _ Hab Hb0) as [Sab Hba].
  assert (Lb0 : hlive s b0 = true) by (apply hlive_true; eauto).
  assert (Lb1 : hlive s (next_he b0) = true) by (rewrite WF_next; auto).
  assert (Lb2 : hlive s (next_he (next_he b0)) = true).
  { rewrite WF_next; auto using next_he_nonneg. }
  apply hlive_true in La2; destruct La2 as [pa2 [Hpa2 P2]].
  apply hlive_true in Lb1; destruct Lb1 as [pb1 [Hpb1 P3]].
  assert (P4 : 0 <= pb2).
  { apply hlive_true in Lb2; destruct Lb2 as [q [Hq Hq0]]; congruence. }
  destruct (Oa1 _ Hpa1 P1) as [Sa1 Qa1]. destruct (Oa2 _ Hpa2 P2) as [Sa2 Qa2].
  destruct (Ob1 _ Hpb1 P3) as [Sb1 Qb1]. destruct (Ob2 _ Hpb2 P4) as [Sb2 Qb2].
  pose proof (next_he_ne a0 Ha0) as [Da1 Da2].
  pose proof (next_he_ne (next_he a0) (next_he_nonneg _ Ha0)) as [Da3 _].
  pose proof (next_he_ne b0 Hb0) as [Db1 Db2].
  pose proof (next_he_ne (next_he b0) (next_he_nonneg _ Hb0)) as [Db3 _].
  pose proof (in_face_next_not _ _ Ha0 Hb0 Hnf) as Hnf1.
  pose proof (in_face_next_not _ _ Ha0 (next_he_nonneg _ Hb0) Hnf1) as Hnf2.
  unfold in_face in Hnf, Hnf1, Hnf2.
  assert (C00 : b0 <> a0) by tauto. assert (C01 : b0 <> next_he a0) by tauto.
  assert (C02 : b0 <> next_he (next_he a0)) by tauto.
  assert (C10 : next_he b0 <> a0) by tauto. assert (C11 : next_he b0 <> next_he a0) by tauto.
  assert (C12 : next_he b0 <> next_he (next_he a0)) by tauto.
  assert (C20 : next_he (next_he b0) <> a0) by tauto.
  assert (C21 : next_he (next_he b0) <> next_he a0) by tauto.
  assert (C22 : next_he (next_he b0) <> next_he (next_he a0)) by tauto.
  clear Hnf Hnf1 Hnf2.
  assert (Ha1 := next_he_nonneg _ Ha0). assert (Ha2 := next_he_nonneg _ Ha1).
  assert (Hb1 := next_he_nonneg _ Hb0). assert (Hb2 := next_he_nonneg _ Hb1).
  exists pa2, pb1. split; [exact Hpa2|split; [exact Hpb1|]].
  pose proof Hpa2' as Rpa2'. pose proof Hpb1' as Rpb1'.
  rewrite G1 in Hpa2', Hpb1'.
  unfold in_faceb in *.
  clear Lb2 La1.
  generalize dependent (next_he (next_he a0)); intros a2; intros.
  generalize dependent (next_he a0); intros a1; intros.
  generalize dependent (next_he (next_he b0)); intros b2; intros.
  generalize dependent (next_he b0); intros b1; intros.
  assert (Hlpa1 : hlive s pa1 = true) by (apply hlive_true; eauto).
  assert (Hlpa2 : hlive s pa2 = true) by (apply hlive_true; eauto).
  assert (Hlpb1 : hlive s pb1 = true) by (apply hlive_true; eauto).
  assert (Hlpb2 : hlive s pb2 = true) by (apply hlive_true; eauto).
  assert (X2 : pa2' = pa2 \/ pa2' = pb2 \/ pa2' = pa1).
  { clear Hpb1'. zeqb; [right; right|right; left|left]; congruence. }
  assert (X3 : pb1' = pb1 \/ pb1' = pa1 \/ pb1' = pb2).
  { clear Hpa2'. zeqb; [right; left|right; right|left]; congruence. }
  assert (Y2 : 0 <= pa2' /\ hlive s pa2' = true).
  { destruct X2 as [->|[->| ->]]; auto. }
  assert (Y3 : 0 <= pb1' /\ hlive s pb1' = true).
  { destruct X3 as [->|[->| ->]]; auto. }
  destruct Y2 as [P5 Hlpa2']. destruct Y3 as [P6 Hlpb1'].
  assert (HL : forall j : Z,
   hlive s' j =
   (if (j =? a0) || (j =? a1) || (j =? a2) || ((j =? b0) || (j =? b1) || (j =? b2))
    then false else hlive s j)).
  { intros j; unfold hlive at 1; rewrite G, G2, G1.
    destruct ((j =? a0) || (j =? a1) || (j =? a2) || ((j =? b0) || (j =? b1) || (j =? b2)));
      [reflexivity|].
    destruct (Z.eqb_spec j pb1') as [->|]; [rewrite Hlpb1'; apply Z.leb_le; assumption|].
    destruct (Z.eqb_spec j pa2') as [->|]; [rewrite Hlpa2'; apply Z.leb_le; assumption|].
    destruct (Z.eqb_spec j pb2) as [->|]; [rewrite Hlpb2; apply Z.leb_le; assumption|].
    destruct (Z.eqb_spec j pa1) as [->|]; [rewrite Hlpa1; apply Z.leb_le; assumption|].
    reflexivity. }
  split; [exact HL|]. split; [|split].
  - intros j Hj J1 J2 J3 J4. rewrite G, Hj, G2, G1.
    assert (j <> pb1') by (destruct X3 as [->|[->| ->]]; auto).
    assert (j <> pa2') by (destruct X2 as [->|[->| ->]]; auto).
    kill_if. reflexivity.
  - intros j Hj. rewrite G, G2, G1.
    assert (M1 : -1 <= pa1) by (clear - P1; lia). assert (M4 : -1 <= pb2) by (clear - P4; lia).
    assert (M5 : -1 <= pa2') by (clear - P5; lia). assert (M6 : -1 <= pb1') by (clear - P6; lia).
    destruct ((j =? a0) || (j =? a1) || (j =? a2) || ((j =? b0) || (j =? b1) || (j =? b2)));
      [eexists; split; [reflexivity|apply Z.le_refl]|].
    destruct (j =? pb1'); [eexists; split; [reflexivity|assumption]|].
    destruct (j =? pa2'); [eexists; split; [reflexivity|assumption]|].
    destruct (j =? pb2); [eexists; split; [reflexivity|assumption]|].
    destruct (j =? pa1); [eexists; split; [reflexivity|assumption]|].
    destruct Hw as [_ Hwf]. apply Hwf; exact Hj.
  - (* all e outside a1,a2,b1,b2 stay well paired through the two PairUp *)
    assert (Npab : pa1 <> pb2) by congruence.
    assert (S1 : forall e, ok s e -> e <> a1 -> e <> b2 -> ok s1 e).
    { intros e Hoke E1 E2.
      destruct (Z.eq_dec e pa1) as [->|E3]; [apply (pair_up_ok_args _ _ _ _ U1 Npab)|].
      destruct (Z.eq_dec e pb2) as [->|E4]; [apply (pair_up_ok_args _ _ _ _ U1 Npab)|].
      apply (pair_up_ok_other _ _ _ _ _ U1 E3 E4 Hoke).
      - intros He. destruct (Hoke _ He P1) as [_ Q]. congruence.
      - intros He. destruct (Hoke _ He P4) as [_ Q]. congruence. }
    assert (O1a2 : ok s1 a2) by (apply S1; auto).
    assert (O1b1 : ok s1 b1) by (apply S1; auto).
    destruct (O1a2 _ Rpa2' P5) as [Sa2' Qa2'].
    destruct (O1b1 _ Rpb1' P6) as [Sb1' Qb1'].
    assert (Npab' : pa2' <> pb1') by congruence.
    assert (S2 : forall e, ok s1 e -> e <> a2 -> e <> b1 -> ok s2 e).
    { intros e Hoke E1 E2.
      destruct (Z.eq_dec e pa2') as [->|E3]; [apply (pair_up_ok_args _ _ _ _ U2 Npab')|].
      destruct (Z.eq_dec e pb1') as [->|E4]; [apply (pair_up_ok_args _ _ _ _ U2 Npab')|].
      apply (pair_up_ok_other _ _ _ _ _ U2 E3 E4 Hoke).
      - intros He. destruct (Hoke _ He P5) as [_ Q]. congruence.
      - intros He. destruct (Hoke _ He P6) as [_ Q]. congruence. }
    (* no well-paired halfedge outside the two faces points into them *)
    assert (CK : forall k q, k = a0 \/ k = a1 \/ k = a2 \/ k = b0 \/ k = b1 \/ k = b2 ->
              h_pair s2 k = Some q -> h_pair s2 q = Some k ->
              q <> a0 -> q <> a1 -> q <> a2 -> q <> b0 -> q <> b1 -> q <> b2 -> False).
    { intros k q Hk Hkq Hqk Q0 Q1 Q2 Q3 Q4 Q5.
      rewrite G2, G1 in Hkq, Hqk.
      clear - Hk Hkq Hqk Q0 Q1 Q2 Q3 Q4 Q5 Hpa2' Hpb1' Hab Hba Hpa1 Qa1 Hpa2 Qa2 Hpb1 Qb1 Hpb2 Qb2
                Sa1 Sa2 Sb1 Sb2 Sab Da1 Da2 Da3 Db1 Db2 Db3 C00 C01 C02 C10 C11 C12 C20 C21 C22.
      destruct Hk as [->|[->|[->|[->|[->| ->]]]]]; zeqb; subst; try congruence. }
    intros e Hoke p Hp Hp0. rewrite G in Hp.
    destruct ((e =? a0) || (e =? a1) || (e =? a2) || ((e =? b0) || (e =? b1) || (e =? b2))) eqn:Ke;
      [inversion Hp; subst p; clear - Hp0; lia|].
    repeat match goal with H : (_ || _) = false |- _ => apply orb_false_iff in H; destruct H end.
    repeat match goal with H : (_ =? _) = false |- _ => apply Z.eqb_neq in H end.
    assert (O2 : ok s2 e) by (apply S2; auto).
    destruct (O2 _ Hp Hp0) as [S Q]. split; [exact S|]. rewrite G.
    destruct ((p =? a0) || (p =? a1) || (p =? a2) || ((p =? b0) || (p =? b1) || (p =? b2))) eqn:Kp;
      [|exact Q].
    exfalso. apply (CK p e); auto.
    rewrite !orb_true_iff, !Z.eqb_eq in Kp. tauto.
Qed.

(* ---- RemoveIfFolded: invariant and liveness ------------------------------------- *)
Lemma rif_guard_spec : forall s x edge, rif_guard s x edge = true ->
  exists pe, h_pair s edge = Some pe /\
    (0 <= pe -> ~ in_face edge pe /\ ~ in_face edge x /\ ~ in_face pe x).
Proof.
  intros s x edge H; unfold rif_guard in H.
  destruct (h_pair s edge) as [pe|]; [|discriminate]. exists pe; split; [reflexivity|].
  intros Hpe. destruct (Z.ltb_spec pe 0); [lia|].
  rewrite !andb_true_iff, !negb_true_iff, !in_faceb_false in H. tauto.
Qed.

Theorem remove_if_folded_inv : forall x s edge s',
  Inv x s -> rif_guard s x edge = true ->
  remove_if_folded s edge = Some s' ->
  Inv x s' /\ mono s s' /\ slots s' = slots s.
Proof.
  intros x s edge s' HI Hg H. pose proof HI as [Hw [Hok Hx]].
  pose proof (remove_if_folded_slots _ _ _ H) as L.
  destruct (rif_cases _ _ _ H) as [->|(pe & pa1 & pb2 & pa2' & pb1' & s1 & s2 & Hpe & Hpa1 & Hne &
      Hpb2 & U1 & Hpa2' & Hpb1' & U2 & Pe & G)].
  { split; [exact HI|split; [apply mono_refl|reflexivity]]. }
  destruct (rif_guard_spec _ _ _ Hg) as [pe' [Hpe' Hgs]].
  rewrite Hpe in Hpe'; inversion Hpe'; subst pe'. destruct (Hgs Pe) as [Nf [Nx1 Nx2]].
  pose proof (h_pair_range _ _ _ Hpe) as [He0 _].
  assert (Ha1 := next_he_nonneg _ He0). assert (Ha2 := next_he_nonneg _ Ha1).
  assert (Hb1 := next_he_nonneg _ Pe). assert (Hb2 := next_he_nonneg _ Hb1).
  unfold in_face in Nx1, Nx2.
  assert (Oa0 : ok s edge) by (apply Hok; intro E; symmetry in E; tauto).
  assert (Oa1 : ok s (next_he edge)) by (apply Hok; intro E; symmetry in E; tauto).
  assert (Oa2 : ok s (next_he (next_he edge))) by (apply Hok; intro E; symmetry in E; tauto).
  assert (Ob1 : ok s (next_he pe)) by (apply Hok; intro E; symmetry in E; tauto).
  assert (Ob2 : ok s (next_he (next_he pe))) by (apply Hok; intro E; symmetry in E; tauto).
  destruct (rif_core s edge pe pa1 pb2 pa2' pb1' s1 s2 s' Hw He0 Pe Hpe Nf Oa0 Oa1 Oa2 Ob1 Ob2
              Hpa1 Hne Hpb2 U1 Hpa2' Hpb1' U2 L G)
    as (pa2 & pb1 & Hpa2 & Hpb1 & HL & Hframe & Hval & Hc).
  assert (Hm : mono s s').
  { apply (mono_of_kill (fun j => in_faceb edge j || in_faceb pe j)); exact HL. }
  split; [|split; assumption].
  split; [|split].
  - apply (WF_kill (fun j => in_faceb edge j || in_faceb pe j) s s' Hw L); auto.
    intros j Hj; cbv beta. rewrite !in_faceb_next by assumption. reflexivity.
  - intros e He; apply Hc, Hok, He.
  - intros q Hq.
    (* liveness of the faces *)
    destruct (WF_val _ _ _ Hw Hpa1) as [?|P1]; [contradiction|].
    assert (La1 : hlive s (next_he edge) = true) by (apply hlive_true; eauto).
    assert (La2 : hlive s (next_he (next_he edge)) = true) by (rewrite WF_next; auto).
    assert (Lb0 : hlive s pe = true).
    { destruct (Oa0 _ Hpe Pe) as [_ Q]. apply hlive_true; eauto. }
    assert (Lb1 : hlive s (next_he pe) = true) by (rewrite WF_next; auto).
    assert (Lb2 : hlive s (next_he (next_he pe)) = true) by (rewrite WF_next; auto).
    assert (NP : forall k pk, h_pair s k = Some pk -> hlive s k = true -> ok s k -> x <> pk).
    { intros k pk Hk Lk Ok ->.
      assert (0 <= pk) as P0.
      { apply hlive_true in Lk; destruct Lk as [r [Hr Hr0]]; congruence. }
      destruct (Ok _ Hk P0) as [_ Q]. rewrite (Hx _ Q) in Lk; discriminate. }
    assert (Hq' : h_pair s' x = h_pair s x).
    { apply Hframe; [|eapply NP; eauto..].
      apply orb_false_iff; split; apply in_faceb_false; unfold in_face; tauto. }
    rewrite Hq' in Hq. apply Hx in Hq.
    destruct (hlive s' q) eqn:E; [apply Hm in E; congruence|reflexivity].
Qed.

Theorem remove_if_folded_pair_inv : forall s edge s',
  pair_inv s = true -> rif_guard s (-1) edge = true ->
  remove_if_folded s edge = Some s' ->
  pair_inv s' = true /\ forall t, live_tri s t = false -> live_tri s' t = false.
Proof.
  intros s edge s' Hi Hg H. apply pair_inv_reflect, PairInv_Inv in Hi.
  destruct (remove_if_folded_inv _ _ _ _ Hi Hg H) as [I [M _]].
  split; [apply pair_inv_reflect, PairInv_Inv; exact I|apply mono_live_tri; exact M].
Qed.

(* ---- PairUp of two live halfedges ----------------------------------------------- *)
Lemma pair_up_WF : forall s x y s',
  WF s -> hlive s x = true -> hlive s y = true -> pair_up s x y = Some s' ->
  WF s' /\ (forall j, hlive s' j = hlive s j) /\ slots s' = slots s.
Proof.
  intros s x y s' Hw Lx Ly H.
  pose proof (pair_up_slots _ _ _ _ H) as L.
  pose proof (pair_up_range _ _ _ _ H) as [Rx Ry].
  assert (HL : forall j, hlive s' j = hlive s j).
  { intros j; rewrite (pair_up_hlive _ _ _ _ H).
    destruct (Z.eqb_spec j y) as [->|]; [symmetry; exact Ly|].
    destruct (Z.eqb_spec j x) as [->|]; [symmetry; exact Lx|reflexivity]. }
  split; [|split; assumption].
  apply (WF_kill (fun _ => false) s s' Hw L); auto.
  intros j Hj. rewrite (pair_up_pair _ _ _ _ H).
  destruct (j =? y); [eexists; split; [reflexivity|lia]|].
  destruct (j =? x); [eexists; split; [reflexivity|lia]|].
  destruct Hw as [_ Hwf]; apply Hwf; exact Hj.
Qed.

Theorem pair_up_dead_stay_dead : forall s x y s',
  hlive s x = true -> hlive s y = true -> pair_up s x y = Some s' ->
  forall t, live_tri s t = false -> live_tri s' t = false.
Proof.
  intros s x y s' Lx Ly H. apply mono_live_tri. intros j.
  rewrite (pair_up_hlive _ _ _ _ H).
  destruct (Z.eqb_spec j y) as [->|]; [auto|].
  destruct (Z.eqb_spec j x) as [->|]; auto.
Qed.

(* ---- FormLoop --------------------------------------------------------------------- *)
Lemma form_loop_guard_spec : forall s x cur end_, form_loop_guard s x cur end_ = true ->
  exists o n, h_pair s cur = Some o /\ h_pair s end_ = Some n /\ 0 <= o /\ 0 <= n /\
    cur <> x /\ end_ <> x /\ o <> end_ /\
    ~ in_face end_ x /\ ~ in_face o x /\ ~ in_face end_ o.
Proof.
  intros s x cur end_ H; unfold form_loop_guard in H.
  destruct (h_pair s cur) as [o|]; [|discriminate].
  destruct (h_pair s end_) as [n|]; [|discriminate].
  exists o, n.
  rewrite !andb_true_iff, !negb_true_iff, !in_faceb_false, !Z.leb_le, !Z.eqb_neq in H.
  tauto.
Qed.

(* the two PairUp of FormLoop exchange the partners of cur and end_ *)
Lemma form_loop_swap : forall x s e c o n sB sC,
  Inv x s -> h_pair s e = Some o -> h_pair s c = Some n -> 0 <= o -> 0 <= n ->
  e <> x -> c <> x -> o <> c ->
  pair_up s e n = Some sB -> pair_up sB c o = Some sC ->
  Inv x sC /\ (forall j, hlive sC j = hlive s j) /\ slots sC = slots s /\
  h_pair sC c = Some o.
Proof.
  intros x s e c o n sB sC [Hw [Hok Hx]] He Hc Po Pn Ex Cx Noc U1 U2.
  destruct (Hok _ Ex _ He Po) as [Se Qe]. destruct (Hok _ Cx _ Hc Pn) as [Sc Qc].
  assert (Le : hlive s e = true) by (apply hlive_true; eauto).
  assert (Lc : hlive s c = true) by (apply hlive_true; eauto).
  pose proof (h_pair_range _ _ _ He) as [E0 _]. pose proof (h_pair_range _ _ _ Hc) as [C0 _].
  assert (Lo : hlive s o = true) by (apply hlive_true; eauto).
  assert (Ln : hlive s n = true) by (apply hlive_true; eauto).
  destruct (pair_up_WF _ _ _ _ Hw Le Ln U1) as [WB [HLB LB]].
  assert (LcB : hlive sB c = true) by (rewrite HLB; exact Lc).
  assert (LoB : hlive sB o = true) by (rewrite HLB; exact Lo).
  destruct (pair_up_WF _ _ _ _ WB LcB LoB U2) as [WC [HLC LC]].
  assert (G : forall j, h_pair sC j =
            if j =? o then Some c else if j =? c then Some o else
            if j =? n then Some e else if j =? e then Some n else h_pair s j).
  { intros j. rewrite (pair_up_pair _ _ _ _ U2), (pair_up_pair _ _ _ _ U1). reflexivity. }
  assert (Xo : x <> o).
  { intros ->. rewrite (Hx _ Qe) in Le; discriminate. }
  assert (Xn : x <> n).
  { intros ->. rewrite (Hx _ Qc) in Lc; discriminate. }
  split; [|split; [intros j; rewrite HLC; apply HLB|split; [lia|]]].
  - split; [exact WC|split].
    + intros z Zx p Hp Hp0. specialize (Hok z Zx). unfold ok in Hok.
      rewrite G in Hp. rewrite G.
      clear - Hok Hp Hp0 He Hc Qe Qc Se Sc Noc E0 C0.
      zeqb; subst; try congruence;
        try (inversion Hp; subst; split; congruence);
        try (destruct (Hok _ Hp Hp0); split; congruence).
    + intros q Hq. rewrite G in Hq.
      destruct (Z.eqb_spec x o); [contradiction|]. destruct (Z.eqb_spec x c); [congruence|].
      destruct (Z.eqb_spec x n); [contradiction|]. destruct (Z.eqb_spec x e); [congruence|].
      rewrite HLC, HLB. apply Hx; exact Hq.
  - rewrite G. destruct (Z.eqb_spec c o); [congruence|]. rewrite Z.eqb_refl. reflexivity.
Qed.

Theorem form_loop_inv : forall x fuel s cur end_ s',
  Inv x s -> form_loop_guard s x cur end_ = true ->
  form_loop fuel s cur end_ = Some s' ->
  Inv x s' /\ mono s s' /\ slots s' = slots s.
Proof.
  intros x fuel s cur end_ s' HI Hg H.
  destruct (form_loop_guard_spec _ _ _ _ Hg)
    as (o & n & Ho & Hn & Po & Pn & Ex & Cx & Noc & Nx1 & Nx2 & Nf).
  unfold form_loop in H. steps H.
  assert (z1 = o) by (rewrite push_vert_pair, push_vert_pair in E3; congruence).
  assert (z2 = n) by (rewrite push_vert_pair, push_vert_pair in E4; congruence).
  subst z1 z2.
  apply update_vert_same in E5, E6.
  assert (SA : same_pairs s s1).
  { eapply same_pairs_trans; [|exact E6]. eapply same_pairs_trans; [|exact E5].
    split; [reflexivity|intros j; reflexivity]. }
  pose proof (same_pairs_Inv _ _ _ SA HI) as IA.
  destruct SA as [LA PA].
  assert (Ho' : h_pair s1 cur = Some o) by (rewrite PA; exact Ho).
  assert (Hn' : h_pair s1 end_ = Some n) by (rewrite PA; exact Hn).
  destruct (form_loop_swap x s1 cur end_ o n s2 s3 IA Ho' Hn' Po Pn Ex Cx Noc E7 E8)
    as [IC [HLC [LC Hco]]].
  assert (Hg' : rif_guard s3 x end_ = true).
  { unfold rif_guard. rewrite Hco. destruct (Z.ltb_spec o 0); [reflexivity|].
    rewrite !andb_true_iff, !negb_true_iff, !in_faceb_false. tauto. }
  destruct (remove_if_folded_inv _ _ _ _ IC Hg' H) as [I' [M' L']].
  split; [exact I'|split; [|lia]].
  intros j Hj. apply M' in Hj. rewrite HLC in Hj.
  unfold hlive in *. rewrite PA in Hj. exact Hj.
Qed.

Theorem form_loop_pair_inv : forall fuel s cur end_ s',
  pair_inv s = true -> form_loop_guard s (-1) cur end_ = true ->
  form_loop fuel s cur end_ = Some s' ->
  pair_inv s' = true /\ forall t, live_tri s t = false -> live_tri s' t = false.
Proof.
  intros fuel s cur end_ s' Hi Hg H. apply pair_inv_reflect, PairInv_Inv in Hi.
  destruct (form_loop_inv _ _ _ _ _ _ Hi Hg H) as [I [M _]].
  split; [apply pair_inv_reflect, PairInv_Inv; exact I|apply mono_live_tri; exact M].
Qed.

(* ---- SwapEdge ---------------------------------------------------------------------- *)
Lemma swap_props_same : forall s a0 a1 a2 b0 b1 b2 s',
  swap_props s a0 a1 a2 b0 b1 b2 = Some s' -> same_pairs s s'.
Proof.
  intros s a0 a1 a2 b0 b1 b2 s' H; unfold swap_props in H; steps H;
    try apply same_pairs_refl;
    repeat match goal with
    | E : set_prop _ _ _ = Some _ |- _ => apply set_prop_same in E
    end;
    repeat match goal with
    | E : same_pairs (push_prop ?a) ?b |- _ =>
        assert (same_pairs a b) by (destruct E as [L P]; split; [exact L|exact P]); clear E
    end;
    eauto using same_pairs_trans.
Qed.

(* the three PairUp of SwapEdge *)
Lemma swap_edge_pairs : forall s a0 b0 pb2 pa2' s3 s4 s5,
  PairInv s -> 0 <= a0 -> h_pair s a0 = Some b0 -> 0 <= b0 -> ~ in_face a0 b0 ->
  h_pair s (next_he (next_he b0)) = Some pb2 ->
  pair_up s a0 pb2 = Some s3 ->
  h_pair s3 (next_he (next_he a0)) = Some pa2' ->
  pair_up s3 b0 pa2' = Some s4 ->
  pair_up s4 (next_he (next_he a0)) (next_he (next_he b0)) = Some s5 ->
  PairInv s5 /\ (forall j, hlive s5 j = hlive s j) /\ slots s5 = slots s.
Proof.
  intros s a0 b0 pb2 pa2' s3 s4 s5 [Hw Hok] Ha0 Hab Hb0 Hnf Hpb2 U1 Hpa2' U2 U3.
  destruct (Hok _ _ Hab Hb0) as [Sab Hba].
  assert (La0 : hlive s a0 = true) by (apply hlive_true; eauto).
  assert (Lb0 : hlive s b0 = true) by (apply hlive_true; eauto).
  assert (Ha1 := next_he_nonneg _ Ha0). assert (Ha2 := next_he_nonneg _ Ha1).
  assert (Hb1 := next_he_nonneg _ Hb0). assert (Hb2 := next_he_nonneg _ Hb1).
  assert (La2 : hlive s (next_he (next_he a0)) = true) by (rewrite !WF_next; auto).
  assert (Lb2 : hlive s (next_he (next_he b0)) = true) by (rewrite !WF_next; auto).
  apply hlive_true in La2; destruct La2 as [pa2 [Hpa2 P2]].
  assert (P4 : 0 <= pb2).
  { apply hlive_true in Lb2; destruct Lb2 as [q [Hq Hq0]]; congruence. }
  destruct (Hok _ _ Hpa2 P2) as [Sa2 Qa2]. destruct (Hok _ _ Hpb2 P4) as [Sb2 Qb2].
  pose proof (next_he_ne a0 Ha0) as [_ Da2]. pose proof (next_he_ne b0 Hb0) as [_ Db2].
  pose proof (in_face_next_not _ _ Ha0 Hb0 Hnf) as Hnf1.
  pose proof (in_face_next_not _ _ Ha0 Hb1 Hnf1) as Hnf2.
  unfold in_face in Hnf, Hnf2.
  assert (C00 : b0 <> a0) by tauto. assert (C02 : b0 <> next_he (next_he a0)) by tauto.
  assert (C20 : next_he (next_he b0) <> a0) by tauto.
  assert (C22 : next_he (next_he b0) <> next_he (next_he a0)) by tauto.
  clear Hnf Hnf1 Hnf2.
  pose proof (pair_up_pair _ _ _ _ U1) as G1.
  pose proof Hpa2' as Rpa2'. rewrite G1 in Hpa2'.
  assert (La2 : hlive s (next_he (next_he a0)) = true) by (apply hlive_true; eauto).
  generalize dependent (next_he (next_he a0)); intros a2; intros.
  generalize dependent (next_he (next_he b0)); intros b2; intros.
  assert (Lpb2 : hlive s pb2 = true) by (apply hlive_true; eauto).
  assert (Lpa2 : hlive s pa2 = true) by (apply hlive_true; eauto).
  assert (X2 : pa2' = pa2 \/ pa2' = a0).
  { clear - Hpa2' Hpa2 Da2. zeqb; [right|congruence|left]; congruence. }
  assert (Lpa2' : hlive s pa2' = true) by (destruct X2 as [->| ->]; assumption).
  destruct (pair_up_WF _ _ _ _ Hw La0 Lpb2 U1) as [W3 [HL3 L3]].
  assert (Lb0' : hlive s3 b0 = true) by (rewrite HL3; exact Lb0).
  assert (Lpa2'' : hlive s3 pa2' = true) by (rewrite HL3; exact Lpa2').
  destruct (pair_up_WF _ _ _ _ W3 Lb0' Lpa2'' U2) as [W4 [HL4 L4]].
  assert (La2' : hlive s4 a2 = true) by (rewrite HL4, HL3; exact La2).
  assert (Lb2' : hlive s4 b2 = true) by (rewrite HL4, HL3; exact Lb2).
  destruct (pair_up_WF _ _ _ _ W4 La2' Lb2' U3) as [W5 [HL5 L5]].
  split; [|split; [intros j; rewrite HL5, HL4; apply HL3|lia]].
  split; [exact W5|].
  intros z p Hp Hp0. specialize (Hok z). unfold ok in Hok.
  assert (G : forall j, h_pair s5 j =
            if j =? b2 then Some a2 else if j =? a2 then Some b2 else
            if j =? pa2' then Some b0 else if j =? b0 then Some pa2' else
            if j =? pb2 then Some a0 else if j =? a0 then Some pb2 else h_pair s j).
  { intros j. rewrite (pair_up_pair _ _ _ _ U3), (pair_up_pair _ _ _ _ U2), G1. reflexivity. }
  rewrite G in Hp. rewrite G.
  clear - Hok Hp Hp0 Hab Hba Hpa2 Qa2 Hpb2 Qb2 Sab Sa2 Sb2 Da2 Db2 C00 C02 C20 C22 Hpa2'.
  zeqb; subst; try congruence;
    try (inversion Hp; subst; split; congruence);
    try (destruct (Hok _ Hp Hp0); split; congruence).
Qed.

Lemma swap_scan_inv : forall fuel lf s cur stop ev a2 s',
  PairInv s ->
  swap_scan_guard fuel lf s cur stop ev a2 = Some true ->
  swap_scan fuel lf s cur stop ev a2 = Some s' ->
  PairInv s' /\ mono s s'.
Proof.
  induction fuel as [|f IH]; intros lf s cur stop ev a2 s' HI Hg H;
    cbn [swap_scan] in H; cbn [swap_scan_guard] in Hg.
  - destruct (cur =? stop); [|discriminate]. inversion H; subst. split; [exact HI|apply mono_refl].
  - destruct (cur =? stop); [inversion H; subst; split; [exact HI|apply mono_refl]|].
    destruct (h_end s (next_he cur)) as [ve|]; cbn [bind] in H, Hg; [|discriminate].
    destruct (ve =? ev).
    + destruct (form_loop_guard s (-1) a2 (next_he cur)) eqn:FG; [|discriminate].
      destruct (form_loop lf s a2 (next_he cur)) as [s1|] eqn:FL; cbn [bind] in H, Hg; [|discriminate].
      inversion Hg as [RG].
      apply PairInv_Inv in HI.
      destruct (form_loop_inv _ _ _ _ _ _ HI FG FL) as [I1 [M1 _]].
      destruct (remove_if_folded_inv _ _ _ _ I1 RG H) as [I2 [M2 _]].
      split; [apply PairInv_Inv; exact I2|eapply mono_trans; eauto].
    + destruct (h_pair s (next_he cur)) as [p|]; cbn [bind] in H, Hg; [|discriminate].
      eapply IH; eauto.
Qed.

Theorem swap_edge_inv : forall fuel s edge s',
  pair_inv s = true ->
  swap_edge_guard fuel s edge = Some true ->
  swap_edge fuel s edge = Some s' ->
  pair_inv s' = true /\ forall t, live_tri s t = false -> live_tri s' t = false.
Proof.
  intros fuel s edge s' Hi Hg H. apply pair_inv_reflect in Hi.
  unfold swap_edge in H. unfold swap_edge_guard in Hg.
  destruct (h_pair s edge) as [pair|] eqn:Hpe; cbn [bind] in H, Hg; [|discriminate].
  destruct ((pair <? 0) || in_faceb edge pair) eqn:T; [discriminate|].
  apply orb_false_iff in T; destruct T as [T1 T2].
  apply Z.ltb_ge in T1. apply in_faceb_false in T2.
  unfold tri_of in H, Hg.
  steps H.
  cbv beta iota delta [bind] in Hg.
  repeat match goal with
  | E : ?t = Some _ |- _ =>
      tryif constr_eq E Hg then fail else
      match type of Hg with context [t] => rewrite E in Hg; cbv beta iota delta [bind] in Hg end
  end.
  pose proof (h_pair_range _ _ _ Hpe) as [Ege0 _].
  apply set_start_same in E0, E2.
  assert (S2 : same_pairs s s1) by eauto using same_pairs_trans.
  assert (I2 : PairInv s1).
  { apply PairInv_Inv. eapply same_pairs_Inv; [exact S2|]. apply PairInv_Inv; exact Hi. }
  destruct S2 as [L2 P2].
  assert (Hpe' : h_pair s1 edge = Some pair) by (rewrite P2; exact Hpe).
  destruct (swap_edge_pairs s1 edge pair _ _ _ _ _ I2 Ege0 Hpe' T1 T2 E3 E4 E5 E6 E7)
    as [I5 [HL5 L5]].
  apply swap_props_same in E8.
  assert (I6 : PairInv s5).
  { apply PairInv_Inv. eapply same_pairs_Inv; [exact E8|]. apply PairInv_Inv; exact I5. }
  destruct (swap_scan_inv _ _ _ _ _ _ _ _ I6 Hg H) as [I' M'].
  split; [apply pair_inv_reflect; exact I'|].
  apply mono_live_tri. intros j Hj. apply M' in Hj.
  rewrite (same_pairs_hlive _ _ _ E8), HL5 in Hj.
  unfold hlive in *. rewrite P2 in Hj. exact Hj.
Qed.

Theorem update_vert_pair_inv : forall fuel s vert current endEdge s',
  pair_inv s = true -> update_vert fuel s vert current endEdge = Some s' ->
  pair_inv s' = true /\ forall t, live_tri s t = false -> live_tri s' t = false.
Proof.
  intros fuel s vert current endEdge s' Hi H. apply update_vert_same in H.
  apply pair_inv_reflect, PairInv_Inv in Hi.
  split; [apply pair_inv_reflect, PairInv_Inv; eapply same_pairs_Inv; eauto|].
  apply mono_live_tri, same_pairs_mono; exact H.
Qed.

(* ---- CollapseEdge2 ------------------------------------------------------------------ *)
Lemma orbit_start_inv : forall fuel lf s x cur stop start edges sp0 ep0 sp1 ep1 s' st',
  Inv x s ->
  orbit_start_guard fuel lf s x cur stop start edges sp0 ep0 sp1 ep1 = Some true ->
  orbit_start fuel lf s cur stop start edges sp0 ep0 sp1 ep1 = Some (s', st') ->
  Inv x s' /\ mono s s'.
Proof.
  induction fuel as [|f IH]; intros lf s x cur stop start edges sp0 ep0 sp1 ep1 s' st' HI Hg H;
    cbn [orbit_start] in H; cbn [orbit_start_guard] in Hg.
  - destruct (cur =? stop); [|discriminate]. inversion H; subst. split; [exact HI|apply mono_refl].
  - destruct (cur =? stop); [inversion H; subst; split; [exact HI|apply mono_refl]|].
    match type of H with bind ?e _ = _ => destruct e as [s1|] eqn:E1 end;
      cbn [bind] in H, Hg; [|discriminate].
    assert (S1 : same_pairs s s1).
    { destruct (0 <? numprop s); [|inversion E1; apply same_pairs_refl].
      destruct (h_prop s (next_he cur)) as [pc|]; cbn [bind] in E1; [|discriminate].
      destruct (pc =? sp0); [eapply set_prop_same; eauto|].
      destruct (pc =? sp1); [eapply set_prop_same; eauto|].
      inversion E1; apply same_pairs_refl. }
    pose proof (same_pairs_Inv _ _ _ S1 HI) as I1.
    pose proof (same_pairs_mono _ _ S1) as M1.
    destruct (h_end s1 (next_he cur)) as [vert|]; cbn [bind] in H, Hg; [|discriminate].
    destruct (h_pair s1 (next_he cur)) as [next|]; cbn [bind] in H, Hg; [|discriminate].
    destruct (find_edge s1 vert edges 0) as [hit|]; cbn [bind] in H, Hg; [|discriminate].
    destruct hit as [[i e]|].
    + destruct (form_loop_guard s1 x e (next_he cur)) eqn:FG; [|discriminate].
      destruct (form_loop lf s1 e (next_he cur)) as [s2|] eqn:FL; cbn [bind] in H, Hg; [|discriminate].
      destruct (form_loop_inv _ _ _ _ _ _ I1 FG FL) as [I2 [M2 _]].
      destruct (IH _ _ _ _ _ _ _ _ _ _ _ _ _ I2 Hg H) as [I3 M3].
      split; [exact I3|eauto using mono_trans].
    + destruct (IH _ _ _ _ _ _ _ _ _ _ _ _ _ I1 Hg H) as [I3 M3].
      split; [exact I3|eauto using mono_trans].
Qed.

Theorem collapse_edge2_inv : forall fuel s edge reject s' did,
  pair_inv s = true ->
  collapse_edge2_guard fuel s edge reject = Some true ->
  collapse_edge2 fuel s edge reject = Some (s', did) ->
  pair_inv s' = true /\ forall t, live_tri s t = false -> live_tri s' t = false.
Proof.
  intros fuel s edge reject s' did Hi Hg H. pose proof Hi as Hi0. apply pair_inv_reflect in Hi.
  unfold collapse_edge2 in H. unfold collapse_edge2_guard in Hg.
  destruct (h_pair s edge) as [pair|] eqn:Hpe; cbn [bind] in H, Hg; [|discriminate].
  destruct (Z.ltb_spec pair 0) as [Hneg|Hpos].
  { inversion H; subst. split; auto. }
  unfold tri_of in H, Hg.
  destruct (h_start s edge) as [sv|]; cbn [bind] in H; [|discriminate].
  destruct (h_start s (next_he edge)) as [ev|] eqn:Hev; cbn [bind] in H; [|discriminate].
  destruct reject.
  { inversion H; subst. split; auto. }
  steps H.
  cbv beta iota delta [bind] in Hg.
  repeat match goal with
  | E : ?t = Some _ |- _ =>
      tryif constr_eq E Hg then fail else
      match type of Hg with context [t] => rewrite E in Hg; cbv beta iota delta [bind] in Hg end
  end.
  destruct (in_faceb pair edge) eqn:T; [discriminate|]. apply in_faceb_false in T.
  destruct (orbit_start_guard fuel fuel s0 edge z4 (next_he (next_he edge)) z4 l z0 z1 z2 z3)
    as [g|] eqn:OG; [|discriminate].
  destruct g; cbn [negb] in Hg; [|discriminate]. assert (RG : rif_guard s3 (-1) z5 = true) by congruence. clear Hg.
  pose proof Hi as [Hw Hok]. destruct (Hok _ _ Hpe Hpos) as [_ Qpe].
  pose proof (h_pair_range _ _ _ Hpe) as [Ege0 _].
  destruct (collapse_tri_inv_first s pair edge s0 Hi Hpos Qpe T E9) as [I0 [M0 _]].
  destruct (orbit_start_inv _ _ _ _ _ _ _ _ _ _ _ _ _ _ I0 OG E10) as [I1 M1].
  apply update_vert_same in E11.
  pose proof (same_pairs_Inv _ _ _ E11 I1) as I2.
  pose proof (same_pairs_mono _ _ E11) as M2.
  destruct (collapse_tri_inv_second s2 edge s3 I2 Ege0 E12) as [I3 [M3 _]].
  apply PairInv_Inv in I3.
  destruct (remove_if_folded_inv _ _ _ _ I3 RG E13) as [I4 [M4 _]].
  split; [apply pair_inv_reflect, PairInv_Inv; exact I4|].
  apply mono_live_tri. eauto using mono_trans.
Qed.

(* ---- sequences of operations --------------------------------------------------------- *)
Lemma run_op_inv : forall fuel o s s',
  pair_inv s = true -> run_op_guard fuel o s = Some true -> run_op fuel o s = Some s' ->
  pair_inv s' = true /\ forall t, live_tri s t = false -> live_tri s' t = false.
Proof.
  intros fuel [e rej|e] s s' Hi Hg H; cbn [run_op] in H; cbn [run_op_guard] in Hg.
  - destruct (collapse_edge2 fuel s e rej) as [[s1 d]|] eqn:E; cbn in H; [|discriminate].
    inversion H; subst s1. eapply collapse_edge2_inv; eauto.
  - eapply swap_edge_inv; eauto.
Qed.

Theorem run_ops_inv_partial : forall fuel ops s s',
  pair_inv s = true -> run_ops_guard fuel ops s = Some true -> run_ops fuel ops s = Some s' ->
  pair_inv s' = true /\ forall t, live_tri s t = false -> live_tri s' t = false.
Proof.
  intros fuel ops; induction ops as [|o r IH]; intros s s' Hi Hg H;
    cbn [run_ops] in H; cbn [run_ops_guard] in Hg.
  - inversion H; subst; auto.
  - destruct (run_op_guard fuel o s) as [g|] eqn:G; cbn [bind] in Hg; [|discriminate].
    destruct g; [|discriminate].
    destruct (run_op fuel o s) as [s1|] eqn:E; cbn [bind] in H, Hg; [|discriminate].
    destruct (run_op_inv _ _ _ _ Hi G E) as [I1 D1].
    destruct (IH _ _ I1 Hg H) as [I2 D2]. split; auto.
Qed.

Theorem run_ops_dead_stay_dead_partial : forall fuel ops s s',
  pair_inv s = true -> run_ops_guard fuel ops s = Some true -> run_ops fuel ops s = Some s' ->
  forall t, live_tri s t = false -> live_tri s' t = false.
Proof. intros fuel ops s s' Hi Hg H; eapply run_ops_inv_partial; eauto. Qed.

Lemma filter_mono_length : forall (A : Type) (f g : A -> bool) (l : list A),
  (forall a, g a = true -> f a = true) ->
  (length (filter g l) <= length (filter f l))%nat.
Proof.
  intros A f g l H; induction l as [|a l IH]; cbn; [lia|].
  destruct (g a) eqn:G; [rewrite (H a G); cbn; lia|destruct (f a); cbn; lia].
Qed.

Theorem run_ops_num_live_monotone_partial : forall fuel ops s s',
  pair_inv s = true -> run_ops_guard fuel ops s = Some true -> run_ops fuel ops s = Some s' ->
  num_live s' <= num_live s.
Proof.
  intros fuel ops s s' Hi Hg H.
  pose proof (run_ops_dead_stay_dead_partial _ _ _ _ Hi Hg H) as D.
  pose proof (run_ops_slots _ _ _ _ H) as L. unfold slots in L.
  unfold num_live. apply Nat2Z.inj in L. rewrite L.
  apply Nat2Z.inj_le, filter_mono_length.
  intros t Ht. destruct (live_tri s (Z.of_nat t)) eqn:E; [reflexivity|].
  rewrite (D _ E) in Ht; discriminate.
Qed.

(* ---- examples: the invariant and the guards hold on the concrete meshes ------------- *)
Example pair_inv_tetra : pair_inv tetra = true.
Proof. vm_compute; reflexivity. Qed.
Example pair_inv_octa : pair_inv octa = true.
Proof. vm_compute; reflexivity. Qed.

(* after each example sequence of SimplifyModel.v: guards true, invariant true *)
Definition inv_after (fuel : nat) (ops : list op) (s : state) : option (bool * bool) :=
  g <- run_ops_guard fuel ops s ;; s' <- run_ops fuel ops s ;; Some (g, pair_inv s').

Example tetra_collapse_inv : inv_after 20 [OpCollapse 0 false] tetra = Some (true, true).
Proof. vm_compute; reflexivity. Qed.
Example tetra_collapse_rejected_inv : inv_after 20 [OpCollapse 0 true] tetra = Some (true, true).
Proof. vm_compute; reflexivity. Qed.
Example octa_collapse_inv : inv_after 30 [OpCollapse 13 false] octa = Some (true, true).
Proof. vm_compute; reflexivity. Qed.
Example octa_swap_inv : inv_after 30 [OpSwap 0] octa = Some (true, true).
Proof. vm_compute; reflexivity. Qed.
Example octa_swap_collapse_inv :
  inv_after 30 [OpSwap 0; OpCollapse 13 false] octa = Some (true, true).
Proof. vm_compute; reflexivity. Qed.
Example tetra_swap_inv : inv_after 20 [OpSwap 0] tetra = Some (true, true).
Proof. vm_compute; reflexivity. Qed.

(* every single collapse / swap request on every halfedge of the two meshes *)
Example all_single_ops_guarded :
  forallb (fun e => match inv_after 40 [OpCollapse (Z.of_nat e) false] tetra with
                    | Some (true, true) => true | _ => false end) (seq 0 12) = true /\
  forallb (fun e => match inv_after 40 [OpSwap (Z.of_nat e)] tetra with
                    | Some (true, true) => true | _ => false end) (seq 0 12) = true /\
  forallb (fun e => match inv_after 40 [OpCollapse (Z.of_nat e) false] octa with
                    | Some (true, true) => true | _ => false end) (seq 0 24) = true /\
  forallb (fun e => match inv_after 40 [OpSwap (Z.of_nat e)] octa with
                    | Some (true, true) => true | _ => false end) (seq 0 24) = true.
Proof. vm_compute; repeat split; reflexivity. Qed.

(* CollapseTri ALONE does not preserve pair_inv: the partner 5 of halfedge 0
   stays live and points to the removed halfedge 0 (this is the tolerated
   exception x of Inv, repaired by the second CollapseTri of CollapseEdge2) *)
Example collapse_tri_alone_breaks_pair_inv :
  exists s1, collapse_tri tetra (tri_of 0) = Some s1 /\ pair_inv s1 = false /\
             hlive s1 5 = true /\ h_pair s1 5 = Some 0 /\ hlive s1 0 = false.
Proof. eexists; vm_compute; repeat split; reflexivity. Qed.

(* ... and from such a state (NOT satisfying pair_inv) a further CollapseTri
   passes the removed halfedge 0 to PairUp and face 0 is live again: the
   invariant hypothesis of collapse_tri_dead_stay_dead cannot be dropped *)
Example resurrection_without_pair_inv :
  exists s1 s2, collapse_tri tetra (tri_of 0) = Some s1 /\
                collapse_tri s1 (tri_of 4) = Some s2 /\
                live_tri s1 0 = false /\ live_tri s2 0 = true.
Proof. do 2 eexists; vm_compute; repeat split; reflexivity. Qed.
