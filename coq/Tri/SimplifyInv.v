(* C19 / simplify_counts -- the pairing invariant of SimplifyInvDefs.v is
   preserved by the edge operations of SimplifyDefs.v, and removed halfedges
   (hence removed faces) stay removed.                                        *)
From Coq Require Import ZArith List Bool Lia.
From MV Require Import Tri.SimplifyDefs Tri.SimplifyModel Tri.SimplifyInvDefs.
Import ListNotations.
Local Open Scope Z_scope.

Ltac Zify.zify_post_hook ::= Z.to_euclidean_division_equations.

(* ---- next_he ---------------------------------------------------------------- *)
Lemma next_he_cases : forall e, 0 <= e ->
  (e mod 3 = 2 /\ next_he e = e - 2) \/ (e mod 3 <> 2 /\ next_he e = e + 1).
Proof.
  intros e He; unfold next_he.
  destruct (Z.eqb_spec (Z.rem e 3) 2) as [H|H]; [left|right]; split; lia.
Qed.

Lemma next_he_nonneg : forall e, 0 <= e -> 0 <= next_he e.
Proof. intros e He; destruct (next_he_cases e He) as [[? ->]|[? ->]]; lia. Qed.

Lemma next_he_3 : forall e, 0 <= e -> next_he (next_he (next_he e)) = e.
Proof.
  intros e He.
  destruct (next_he_cases e He) as [[A Ea]|[A Ea]];
  destruct (next_he_cases (next_he e) (next_he_nonneg _ He)) as [[B Eb]|[B Eb]];
  destruct (next_he_cases (next_he (next_he e))
              (next_he_nonneg _ (next_he_nonneg _ He))) as [[C Ec]|[C Ec]]; lia.
Qed.

Lemma next_he_ne : forall e, 0 <= e -> next_he e <> e /\ next_he (next_he e) <> e.
Proof.
  intros e He.
  destruct (next_he_cases e He) as [[A Ea]|[A Ea]];
  destruct (next_he_cases (next_he e) (next_he_nonneg _ He)) as [[B Eb]|[B Eb]]; lia.
Qed.

Lemma next_he_range : forall n e, n mod 3 = 0 -> 0 <= e < n -> 0 <= next_he e < n.
Proof.
  intros n e Hn He. destruct (next_he_cases e ltac:(lia)) as [[A ->]|[A ->]]; lia.
Qed.

Lemma next_he_inj : forall a b, 0 <= a -> 0 <= b -> next_he a = next_he b -> a = b.
Proof.
  intros a b Ha Hb H.
  rewrite <- (next_he_3 a Ha), <- (next_he_3 b Hb), H; reflexivity.
Qed.

Lemma in_faceb_spec : forall t j, in_faceb t j = true <-> in_face t j.
Proof.
  intros t j; unfold in_faceb, in_face.
  rewrite !orb_true_iff, !Z.eqb_eq; tauto.
Qed.

Lemma in_faceb_false : forall t j, in_faceb t j = false <-> ~ in_face t j.
Proof.
  intros t j; rewrite <- in_faceb_spec. destruct (in_faceb t j); split; congruence.
Qed.

(* the face of t is closed under next_he, both ways *)
Lemma in_face_next : forall t j, 0 <= t -> 0 <= j -> (in_face t (next_he j) <-> in_face t j).
Proof.
  intros t j Ht Hj.
  assert (F : forall k, 0 <= k -> in_face t k -> in_face t (next_he k)).
  { intros k Hk [->|[->| ->]]; unfold in_face.
    - right; left; reflexivity.
    - right; right; reflexivity.
    - left; apply next_he_3; assumption. }
  split; intros H.
  - rewrite <- (next_he_3 j Hj). apply F; [apply next_he_nonneg, next_he_nonneg; assumption|].
    apply F; [apply next_he_nonneg; assumption|exact H].
  - apply F; assumption.
Qed.

Lemma in_face_nonneg : forall t j, 0 <= t -> in_face t j -> 0 <= j.
Proof.
  intros t j Ht [->|[->| ->]]; auto using next_he_nonneg.
Qed.

(* ---- h_pair / hlive basics ---------------------------------------------------- *)
Lemma getZ_some_iff : forall (A : Type) (l : list A) i,
  (exists x, getZ l i = Some x) <-> 0 <= i < Z.of_nat (length l).
Proof.
  intros A l i; unfold getZ. destruct (Z.ltb_spec i 0) as [H|H].
  - split; [intros [x Hx]; discriminate|lia].
  - split.
    + intros [x Hx]. assert (nth_error l (Z.to_nat i) <> None) as Hn by congruence.
      apply nth_error_Some in Hn. lia.
    + intros Hi. destruct (nth_error l (Z.to_nat i)) eqn:E; [eauto|].
      apply nth_error_None in E. lia.
Qed.

Lemma h_pair_some_iff : forall s i, (exists p, h_pair s i = Some p) <-> 0 <= i < slots s.
Proof.
  intros s i; unfold h_pair, slots. rewrite <- getZ_some_iff.
  split; intros [x Hx].
  - destruct (getZ (he s) i); [eauto|discriminate].
  - rewrite Hx; cbn; eauto.
Qed.

Lemma h_pair_range : forall s i p, h_pair s i = Some p -> 0 <= i < slots s.
Proof. intros s i p H; apply h_pair_some_iff; eauto. Qed.

Lemma hlive_true : forall s e, hlive s e = true <-> exists p, h_pair s e = Some p /\ 0 <= p.
Proof.
  intros s e; unfold hlive. destruct (h_pair s e) as [p|].
  - rewrite Z.leb_le. split; [eauto|intros [q [Hq ?]]; inversion Hq; lia].
  - split; [discriminate|intros [q [Hq _]]; discriminate].
Qed.

Lemma hlive_range : forall s e, hlive s e = true -> 0 <= e < slots s.
Proof. intros s e H; apply hlive_true in H; destruct H as [p [H _]]; eapply h_pair_range; eauto. Qed.

Lemma live_tri_hlive : forall s t, live_tri s t = hlive s (3 * t).
Proof. reflexivity. Qed.

(* ---- reflection of pair_inv --------------------------------------------------- *)
Lemma chk_he_spec : forall s e, chk_he s e = true <->
  exists p, h_pair s e = Some p /\ -1 <= p /\
            (0 <= p -> p <> e /\ h_pair s p = Some e) /\
            hlive s (next_he e) = hlive s e.
Proof.
  intros s e; unfold chk_he.
  assert (HL : forall p, h_pair s e = Some p -> hlive s e = (0 <=? p)).
  { intros p Hp; unfold hlive; rewrite Hp; reflexivity. }
  destruct (h_pair s e) as [p|]; [|split; [discriminate|intros [p [H _]]; discriminate]].
  rewrite (HL p eq_refl). clear HL.
  rewrite andb_true_iff, eqb_true_iff.
  split.
  - intros [H1 H2]. exists p; split; [reflexivity|].
    destruct (Z.ltb_spec p 0) as [Hp|Hp].
    + apply Z.eqb_eq in H1. repeat split; try lia. exact H2.
    + apply andb_true_iff in H1; destruct H1 as [Hne Hq].
      apply negb_true_iff, Z.eqb_neq in Hne.
      destruct (h_pair s p) as [q|]; [|discriminate]. apply Z.eqb_eq in Hq; subst q.
      repeat split; try lia; auto.
  - intros [p' [Hp' [Hm [Hok Hn]]]]; inversion Hp'; subst p'. split; [|exact Hn].
    destruct (Z.ltb_spec p 0) as [Hp|Hp].
    + apply Z.eqb_eq; lia.
    + destruct (Hok Hp) as [Hne Hq]. rewrite Hq, Z.eqb_refl, andb_true_r.
      apply negb_true_iff, Z.eqb_neq; exact Hne.
Qed.

Lemma in_map_seq : forall n e, In e (map Z.of_nat (seq 0 n)) <-> 0 <= e < Z.of_nat n.
Proof.
  intros n e; rewrite in_map_iff; split.
  - intros [k [<- Hk]]; apply in_seq in Hk; lia.
  - intros He; exists (Z.to_nat e); split; [lia|apply in_seq; lia].
Qed.

Theorem pair_inv_reflect : forall s, pair_inv s = true <-> PairInv s.
Proof.
  intros s; unfold pair_inv, PairInv, WF.
  rewrite andb_true_iff, Z.eqb_eq, forallb_forall.
  split.
  - intros [Hm Hall].
    assert (Hall' : forall e, 0 <= e < slots s -> chk_he s e = true).
    { intros e He; apply Hall, in_map_seq; exact He. }
    split; [split; [exact Hm|]|].
    + intros e He. apply Hall', chk_he_spec in He. destruct He as [p [Hp [Hm1 [_ Hn]]]].
      split; eauto.
    + intros e p Hp Hp0. pose proof (h_pair_range _ _ _ Hp) as He.
      apply Hall', chk_he_spec in He. destruct He as [p' [Hp' [_ [Hok _]]]].
      rewrite Hp in Hp'; inversion Hp'; subst p'. auto.
  - intros [[Hm Hwf] Hok]. split; [exact Hm|].
    intros e He; apply in_map_seq in He. apply chk_he_spec.
    destruct (Hwf e He) as [[p [Hp Hm1]] Hn].
    exists p; repeat split; auto; apply (Hok e p Hp); assumption.
Qed.

Lemma PairInv_Inv : forall s, PairInv s <-> Inv (-1) s.
Proof.
  intros s; unfold PairInv, Inv; split.
  - intros [Hw Hok]; split; [exact Hw|split; [intros e _; apply Hok|]].
    intros q Hq; apply h_pair_range in Hq; lia.
  - intros [Hw [Hok _]]; split; auto.
    intros e; destruct (Z.eq_dec e (-1)) as [->|Hne]; auto.
    intros p Hp; apply h_pair_range in Hp; lia.
Qed.

(* an exception that is not live is no exception *)
Lemma Inv_dead : forall x s, Inv x s -> hlive s x = false -> PairInv s.
Proof.
  intros x s [Hw [Hok _]] Hd; split; auto.
  intros e; destruct (Z.eq_dec e x) as [->|Hne]; auto.
  intros p Hp Hp0. assert (hlive s x = true) by (apply hlive_true; eauto). congruence.
Qed.

(* consequences of WF *)
Lemma WF_next : forall s e, WF s -> 0 <= e -> hlive s (next_he e) = hlive s e.
Proof.
  intros s e [Hm Hwf] He.
  destruct (Z.ltb_spec e (slots s)) as [Hlt|Hge]; [apply Hwf; lia|].
  assert (Hn : slots s <= next_he e).
  { destruct (next_he_cases e He) as [[A ->]|[A ->]]; lia. }
  unfold hlive.
  destruct (h_pair s (next_he e)) eqn:E1; [apply h_pair_range in E1; lia|].
  destruct (h_pair s e) eqn:E2; [apply h_pair_range in E2; lia|reflexivity].
Qed.

Lemma WF_face : forall s t j, WF s -> 0 <= t -> in_face t j -> hlive s j = hlive s t.
Proof.
  intros s t j Hw Ht [->|[->| ->]]; [reflexivity| |].
  - apply WF_next; assumption.
  - rewrite (WF_next s (next_he t) Hw (next_he_nonneg _ Ht)). apply WF_next; assumption.
Qed.

Lemma WF_val : forall s e p, WF s -> h_pair s e = Some p -> p = -1 \/ 0 <= p.
Proof.
  intros s e p [_ Hwf] Hp. destruct (Hwf e (h_pair_range _ _ _ Hp)) as [[p' [Hp' Hm]] _].
  rewrite Hp in Hp'; inversion Hp'; lia.
Qed.

Lemma WF_dead : forall s e p, WF s -> h_pair s e = Some p -> hlive s e = false -> p = -1.
Proof.
  intros s e p Hw Hp Hd. destruct (WF_val _ _ _ Hw Hp) as [?|H0]; [assumption|].
  assert (hlive s e = true) by (apply hlive_true; eauto). congruence.
Qed.

(* ---- pair column of the primitive writes -------------------------------------- *)
Lemma set_start_pair : forall s i v s', set_start s i v = Some s' ->
  forall j, h_pair s' j = h_pair s j.
Proof.
  intros s i v s' H j; unfold set_start in H; steps H.
  rewrite h_pair_with_he, (getZ_setZ _ _ _ _ _ E0). unfold h_pair.
  destruct (Z.eqb_spec j i) as [->|]; [rewrite E|]; reflexivity.
Qed.
Lemma set_end_pair : forall s i v s', set_end s i v = Some s' ->
  forall j, h_pair s' j = h_pair s j.
Proof. intros s i v s' H; eapply set_start_pair; exact H. Qed.
Lemma set_prop_pair : forall s i v s', set_prop s i v = Some s' ->
  forall j, h_pair s' j = h_pair s j.
Proof.
  intros s i v s' H j; unfold set_prop in H; steps H.
  rewrite h_pair_with_he, (getZ_setZ _ _ _ _ _ E0). unfold h_pair.
  destruct (Z.eqb_spec j i) as [->|]; [rewrite E|]; reflexivity.
Qed.
Lemma push_vert_pair : forall s j, h_pair (push_vert s) j = h_pair s j.
Proof. reflexivity. Qed.
Lemma push_prop_pair : forall s j, h_pair (push_prop s) j = h_pair s j.
Proof. reflexivity. Qed.

Lemma set_all_pair : forall s i a b c s', set_all s i a b c = Some s' ->
  forall j, h_pair s' j = if j =? i then Some b else h_pair s j.
Proof.
  intros s i a b c s' H j; unfold set_all in H; steps H.
  rewrite h_pair_with_he, (getZ_setZ _ _ _ _ _ E).
  destruct (j =? i); reflexivity.
Qed.

Lemma set_all_range : forall s i a b c s', set_all s i a b c = Some s' -> 0 <= i < slots s.
Proof.
  intros s i a b c s' H. pose proof (set_all_pair _ _ _ _ _ _ H i) as G.
  rewrite Z.eqb_refl in G. apply h_pair_range in G.
  apply set_all_slots in H. lia.
Qed.

Lemma kill_keep_prop_range : forall s i s', kill_keep_prop s i = Some s' -> 0 <= i < slots s.
Proof.
  intros s i s' H; unfold kill_keep_prop in H; steps H. eapply set_all_range; eauto.
Qed.

(* a state transformer that leaves the pair column alone *)
Definition same_pairs (s s' : state) : Prop :=
  slots s' = slots s /\ forall j, h_pair s' j = h_pair s j.

Lemma same_pairs_refl : forall s, same_pairs s s.
Proof. split; reflexivity. Qed.
Lemma same_pairs_trans : forall a b c, same_pairs a b -> same_pairs b c -> same_pairs a c.
Proof. intros a b c [L1 P1] [L2 P2]; split; [lia|intros j; rewrite P2; apply P1]. Qed.

Lemma same_pairs_hlive : forall s s' e, same_pairs s s' -> hlive s' e = hlive s e.
Proof. intros s s' e [_ P]; unfold hlive; rewrite P; reflexivity. Qed.

Lemma same_pairs_ok : forall s s' e, same_pairs s s' -> ok s e -> ok s' e.
Proof. intros s s' e [_ P] H p; rewrite !P; apply H. Qed.

Lemma same_pairs_WF : forall s s', same_pairs s s' -> WF s -> WF s'.
Proof.
  intros s s' Hs [Hm Hw]; pose proof Hs as [L P]; split; [rewrite L; exact Hm|].
  intros e He; rewrite L in He. rewrite !(same_pairs_hlive _ _ _ Hs), P. apply Hw; exact He.
Qed.

Lemma same_pairs_Inv : forall x s s', same_pairs s s' -> Inv x s -> Inv x s'.
Proof.
  intros x s s' Hs [Hw [Hok Hx]]; pose proof Hs as [L P]; split; [|split].
  - eapply same_pairs_WF; eauto.
  - intros e He; eapply same_pairs_ok; eauto.
  - intros q Hq; rewrite P in Hq. rewrite (same_pairs_hlive _ _ _ Hs); auto.
Qed.

Lemma same_pairs_mono : forall s s', same_pairs s s' -> mono s s'.
Proof. intros s s' Hs e; rewrite (same_pairs_hlive _ _ _ Hs); auto. Qed.

Lemma set_start_same : forall s i v s', set_start s i v = Some s' -> same_pairs s s'.
Proof. intros s i v s' H; split; [eapply set_start_slots|eapply set_start_pair]; eauto. Qed.
Lemma set_end_same : forall s i v s', set_end s i v = Some s' -> same_pairs s s'.
Proof. intros s i v s' H; eapply set_start_same; exact H. Qed.
Lemma set_prop_same : forall s i v s', set_prop s i v = Some s' -> same_pairs s s'.
Proof. intros s i v s' H; split; [eapply set_prop_slots|eapply set_prop_pair]; eauto. Qed.

(* ---- UpdateVert only writes `start` -------------------------------------------- *)
Theorem update_vert_same : forall fuel s vert current endEdge s',
  update_vert fuel s vert current endEdge = Some s' -> same_pairs s s'.
Proof.
  induction fuel as [|f IH]; intros s vert current endEdge s' H;
    cbn [update_vert] in H; steps H; try apply same_pairs_refl.
  apply IH in H. apply set_end_same in E. apply set_start_same in E0.
  eauto using same_pairs_trans.
Qed.

(* ---- PairUp ------------------------------------------------------------------- *)
Lemma pair_up_pair : forall s x y s', pair_up s x y = Some s' ->
  forall j, h_pair s' j = if j =? y then Some x else if j =? x then Some y else h_pair s j.
Proof.
  intros s x y s' H j; unfold pair_up in H; steps H.
  rewrite (set_pair_get _ _ _ _ H), (set_pair_get _ _ _ _ E); reflexivity.
Qed.

Lemma pair_up_range : forall s x y s', pair_up s x y = Some s' ->
  0 <= x < slots s /\ 0 <= y < slots s.
Proof.
  intros s x y s' H; unfold pair_up in H; steps H.
  destruct (set_pair_defined _ _ _ _ E) as [q Hq].
  destruct (set_pair_defined _ _ _ _ H) as [q' Hq'].
  apply h_pair_range in Hq, Hq'. apply set_pair_slots in E. lia.
Qed.

Lemma pair_up_hlive : forall s x y s', pair_up s x y = Some s' ->
  forall j, hlive s' j = if (j =? y) || (j =? x) then true else hlive s j.
Proof.
  intros s x y s' H j. pose proof (pair_up_range _ _ _ _ H) as [Hx Hy].
  unfold hlive; rewrite (pair_up_pair _ _ _ _ H).
  destruct (Z.eqb_spec j y); [cbn; apply Z.leb_le; lia|].
  destruct (Z.eqb_spec j x); [cbn; apply Z.leb_le; lia|reflexivity].
Qed.

(* ---- generic: a step that removes the halfedges selected by K ------------------- *)
Ltac zeqb :=
  repeat match goal with
  | |- context [?a =? ?b] => destruct (Z.eqb_spec a b)
  | H : context [?a =? ?b] |- _ => destruct (Z.eqb_spec a b)
  end.

Lemma WF_kill : forall (K : Z -> bool) s s',
  WF s -> slots s' = slots s ->
  (forall j, 0 <= j -> K (next_he j) = K j) ->
  (forall j, 0 <= j < slots s -> exists p, h_pair s' j = Some p /\ -1 <= p) ->
  (forall j, hlive s' j = if K j then false else hlive s j) ->
  WF s'.
Proof.
  intros K s s' Hw L HK Hv Hl. pose proof Hw as [Hm Hwf].
  split; [rewrite L; exact Hm|].
  intros e He; rewrite L in He. split; [apply Hv; exact He|].
  rewrite !Hl, HK by lia. destruct (K e); [reflexivity|apply Hwf; exact He].
Qed.

Lemma in_faceb_next : forall t j, 0 <= t -> 0 <= j -> in_faceb t (next_he j) = in_faceb t j.
Proof.
  intros t j Ht Hj. pose proof (in_face_next t j Ht Hj) as H.
  rewrite <- !in_faceb_spec in H.
  destruct (in_faceb t (next_he j)), (in_faceb t j); try reflexivity;
    destruct H as [H1 H2]; [discriminate (H1 eq_refl)|discriminate (H2 eq_refl)].
Qed.

(* ---- CollapseTri ------------------------------------------------------------- *)
Lemma collapse_tri_pair : forall s t0 t1 t2 p1 p2 s',
  h_pair s t1 = Some p1 -> p1 <> -1 -> h_pair s t2 = Some p2 ->
  collapse_tri s (t0, t1, t2) = Some s' ->
  slots s' = slots s /\
  (0 <= t0 < slots s /\ 0 <= p1 < slots s /\ 0 <= p2 < slots s) /\
  forall j, h_pair s' j =
    if (j =? t2) || (j =? t1) || (j =? t0) then Some (-1)
    else if j =? p2 then Some p1 else if j =? p1 then Some p2 else h_pair s j.
Proof.
  intros s t0 t1 t2 p1 p2 s' Hp1 Hne Hp2 H.
  pose proof (collapse_tri_slots _ _ _ H) as L.
  unfold collapse_tri in H; rewrite Hp1 in H; cbn [bind] in H.
  destruct (Z.eqb_spec p1 (-1)) as [|_]; [contradiction|].
  rewrite Hp2 in H; cbn [bind] in H. steps H.
  pose proof (pair_up_range _ _ _ _ E) as [R1 R2].
  pose proof (kill_keep_prop_range _ _ _ E0) as R0.
  pose proof (pair_up_slots _ _ _ _ E) as L1.
  split; [exact L|]. split; [lia|].
  intros j.
  rewrite (kill_keep_prop_get _ _ _ H), (kill_keep_prop_get _ _ _ E1),
          (kill_keep_prop_get _ _ _ E0), (pair_up_pair _ _ _ _ E).
  destruct (j =? t2), (j =? t1), (j =? t0); reflexivity.
Qed.

(* the core: t1 = next t0 and t2 = next t1 well paired, partners outside t0 *)
Lemma collapse_tri_core : forall s t0 p1 p2 s',
  WF s -> 0 <= t0 ->
  h_pair s (next_he t0) = Some p1 -> p1 <> -1 ->
  h_pair s (next_he (next_he t0)) = Some p2 ->
  ok s (next_he t0) -> ok s (next_he (next_he t0)) ->
  p1 <> t0 -> p2 <> t0 ->
  collapse_tri s (tri_of t0) = Some s' ->
  slots s' = slots s /\
  WF s' /\
  (forall j, hlive s' j = if in_faceb t0 j then false else hlive s j) /\
  (forall j, in_faceb t0 j = false -> j <> p1 -> j <> p2 -> h_pair s' j = h_pair s j) /\
  (forall e, ok s e -> h_pair s e <> Some t0 -> ok s' e).
Proof.
  intros s t0 p1 p2 s' Hw Ht0 Hp1 Hne Hp2 Hok1 Hok2 N1 N2 H.
  unfold tri_of in H.
  destruct (collapse_tri_pair _ _ _ _ _ _ _ Hp1 Hne Hp2 H) as [L [[R0 [R1 R2]] G]].
  destruct (WF_val _ _ _ Hw Hp1) as [?|P1]; [contradiction|].
  assert (Hl1 : hlive s (next_he t0) = true) by (apply hlive_true; eauto).
  assert (Hl2 : hlive s (next_he (next_he t0)) = true).
  { rewrite WF_next; auto using next_he_nonneg. }
  assert (P2 : 0 <= p2).
  { apply hlive_true in Hl2; destruct Hl2 as [q [Hq Hq0]]; congruence. }
  destruct (Hok1 _ Hp1 P1) as [S1 Q1]. destruct (Hok2 _ Hp2 P2) as [S2 Q2].
  pose proof (next_he_ne t0 Ht0) as [D1 D2].
  pose proof (next_he_ne (next_he t0) (next_he_nonneg _ Ht0)) as [D3 _].
  assert (Hlp1 : hlive s p1 = true).
  { apply hlive_true; exists (next_he t0); split; auto using next_he_nonneg. }
  assert (Hlp2 : hlive s p2 = true).
  { apply hlive_true; exists (next_he (next_he t0)); split; auto using next_he_nonneg. }
  assert (HL : forall j, hlive s' j = if in_faceb t0 j then false else hlive s j).
  { intros j; unfold in_faceb, hlive at 1; rewrite G.
    generalize dependent (next_he (next_he t0)); intros t2; intros.
    generalize dependent (next_he t0); intros t1; intros.
    zeqb; subst; cbn [orb]; try reflexivity; try lia; try congruence;
      try (symmetry; assumption);
      try (rewrite ?Hlp1, ?Hlp2; apply Z.leb_le; lia). }
  split; [exact L|]. split; [|split; [exact HL|split]].
  - apply (WF_kill (in_faceb t0) s s' Hw L); [intros; apply in_faceb_next; assumption| |exact HL].
    intros j Hj. rewrite G.
    destruct ((j =? next_he (next_he t0)) || (j =? next_he t0) || (j =? t0)); [eexists; split; [reflexivity|lia]|].
    destruct (j =? p2); [eexists; split; [reflexivity|lia]|].
    destruct (j =? p1); [eexists; split; [reflexivity|lia]|].
    destruct Hw as [_ Hwf]. apply Hwf; exact Hj.
  - intros j Hj J1 J2. rewrite G. unfold in_faceb in Hj.
    apply orb_false_iff in Hj; destruct Hj as [Hj Hj2].
    apply orb_false_iff in Hj; destruct Hj as [Hj0 Hj1].
    rewrite Hj0, Hj1, Hj2; cbn [orb].
    destruct (Z.eqb_spec j p2); [contradiction|].
    destruct (Z.eqb_spec j p1); [contradiction|reflexivity].
  - intros e Hoke Hnt p Hp Hp0. rewrite G in Hp. rewrite G.
    generalize dependent (next_he (next_he t0)); intros t2; intros.
    generalize dependent (next_he t0); intros t1; intros.
    destruct ((e =? t2) || (e =? t1) || (e =? t0)) eqn:Ke; [inversion Hp; lia|].
    apply orb_false_iff in Ke; destruct Ke as [Ke Ke0].
    apply orb_false_iff in Ke; destruct Ke as [Ke2 Ke1].
    apply Z.eqb_neq in Ke0, Ke1, Ke2.
    destruct (Z.eqb_spec e p2) as [->|Ne2].
    { inversion Hp; subst p. split; [congruence|].
      zeqb; subst; cbn [orb]; try reflexivity; try congruence; try lia. }
    destruct (Z.eqb_spec e p1) as [->|Ne1].
    { inversion Hp; subst p. split; [congruence|].
      zeqb; subst; cbn [orb]; try reflexivity; try congruence; try lia. }
    destruct (Hoke _ Hp Hp0) as [Se Qe]. split; [exact Se|].
    zeqb; subst; cbn [orb]; try reflexivity; try congruence; try lia.
Qed.

Lemma mono_of_kill : forall (K : Z -> bool) s s',
  (forall j, hlive s' j = if K j then false else hlive s j) -> mono s s'.
Proof. intros K s s' H e; rewrite H; destruct (K e); [discriminate|auto]. Qed.

Lemma mono_refl : forall s, mono s s.
Proof. intros s e H; exact H. Qed.
Lemma mono_trans : forall a b c, mono a b -> mono b c -> mono a c.
Proof. intros a b c H1 H2 e H; auto. Qed.

Lemma mono_live_tri : forall s s', mono s s' ->
  forall t, live_tri s t = false -> live_tri s' t = false.
Proof.
  intros s s' H t Hd; rewrite live_tri_hlive in *.
  destruct (hlive s' (3 * t)) eqn:E; [apply H in E; congruence|reflexivity].
Qed.

(* liveness after CollapseTri, from the invariant at t1, t2 only *)
Lemma collapse_tri_live : forall s t0 s',
  WF s -> 0 <= t0 ->
  ok s (next_he t0) -> ok s (next_he (next_he t0)) ->
  collapse_tri s (tri_of t0) = Some s' ->
  slots s' = slots s /\ mono s s' /\
  (s' = s \/ forall j, hlive s' j = if in_faceb t0 j then false else hlive s j).
Proof.
  intros s t0 s' Hw Ht0 Hok1 Hok2 H.
  pose proof (collapse_tri_slots _ _ _ H) as L.
  destruct (h_pair s (next_he t0)) as [p1|] eqn:Hp1;
    [|unfold tri_of, collapse_tri in H; rewrite Hp1 in H; discriminate].
  destruct (Z.eq_dec p1 (-1)) as [->|Hne].
  { unfold tri_of, collapse_tri in H; rewrite Hp1 in H; cbn in H. inversion H; subst.
    split; [reflexivity|split; [apply mono_refl|left; reflexivity]]. }
  destruct (h_pair s (next_he (next_he t0))) as [p2|] eqn:Hp2;
    [|unfold tri_of, collapse_tri in H; rewrite Hp1 in H; cbn [bind] in H;
      destruct (p1 =? -1) eqn:B; [apply Z.eqb_eq in B; contradiction|];
      rewrite Hp2 in H; discriminate].
  unfold tri_of in H.
  destruct (collapse_tri_pair _ _ _ _ _ _ _ Hp1 Hne Hp2 H) as [_ [[R0 [R1 R2]] G]].
  destruct (WF_val _ _ _ Hw Hp1) as [?|P1]; [contradiction|].
  assert (Hl1 : hlive s (next_he t0) = true) by (apply hlive_true; eauto).
  assert (Hl2 : hlive s (next_he (next_he t0)) = true).
  { rewrite WF_next; auto using next_he_nonneg. }
  assert (P2 : 0 <= p2).
  { apply hlive_true in Hl2; destruct Hl2 as [q [Hq Hq0]]; congruence. }
  destruct (Hok1 _ Hp1 P1) as [S1 Q1]. destruct (Hok2 _ Hp2 P2) as [S2 Q2].
  assert (Hlp1 : hlive s p1 = true).
  { apply hlive_true; exists (next_he t0); split; auto using next_he_nonneg. }
  assert (Hlp2 : hlive s p2 = true).
  { apply hlive_true; exists (next_he (next_he t0)); split; auto using next_he_nonneg. }
  assert (HL : forall j, hlive s' j = if in_faceb t0 j then false else hlive s j).
  { intros j; unfold in_faceb, hlive at 1; rewrite G.
    generalize dependent (next_he (next_he t0)); intros t2; intros.
    generalize dependent (next_he t0); intros t1; intros.
    zeqb; subst; cbn [orb]; try reflexivity; try lia; try congruence;
      try (symmetry; assumption);
      try (rewrite ?Hlp1, ?Hlp2; apply Z.leb_le; lia). }
  split; [exact L|split; [eapply mono_of_kill; exact HL|right; exact HL]].
Qed.

Theorem collapse_tri_dead_stay_dead : forall s e s',
  pair_inv s = true -> 0 <= e ->
  collapse_tri s (tri_of e) = Some s' ->
  forall t, live_tri s t = false -> live_tri s' t = false.
Proof.
  intros s e s' Hi He H. apply pair_inv_reflect in Hi. destruct Hi as [Hw Hok].
  destruct (collapse_tri_live s e s' Hw He (Hok _) (Hok _) H) as [_ [Hm _]].
  apply mono_live_tri; exact Hm.
Qed.

(* first CollapseTri of a pair of faces: the partner y of t0 becomes the
   tolerated exception *)
Lemma collapse_tri_inv_first : forall s t0 y s',
  PairInv s -> 0 <= t0 -> h_pair s t0 = Some y -> ~ in_face t0 y ->
  collapse_tri s (tri_of t0) = Some s' ->
  Inv y s' /\ mono s s' /\ slots s' = slots s.
Proof.
  intros s t0 y s' [Hw Hok] Ht0 Hy Hnf H.
  destruct (collapse_tri_live s t0 s' Hw Ht0 (Hok _) (Hok _) H) as [L [Hm _]].
  split; [|split; assumption].
  destruct (h_pair s (next_he t0)) as [p1|] eqn:Hp1;
    [|unfold tri_of, collapse_tri in H; rewrite Hp1 in H; discriminate].
  destruct (Z.eq_dec p1 (-1)) as [->|Hne].
  { unfold tri_of, collapse_tri in H; rewrite Hp1 in H; cbn in H. inversion H; subst s'.
    (* face dead: y = -1 *)
    assert (Hd : hlive s t0 = false).
    { rewrite <- (WF_next s t0 Hw Ht0). unfold hlive; rewrite Hp1; reflexivity. }
    rewrite (WF_dead _ _ _ Hw Hy Hd). apply PairInv_Inv; split; assumption. }
  destruct (h_pair s (next_he (next_he t0))) as [p2|] eqn:Hp2;
    [|unfold tri_of, collapse_tri in H; rewrite Hp1 in H; cbn [bind] in H;
      destruct (p1 =? -1) eqn:B; [apply Z.eqb_eq in B; contradiction|];
      rewrite Hp2 in H; discriminate].
  destruct (WF_val _ _ _ Hw Hp1) as [?|P1]; [contradiction|].
  assert (Hl1 : hlive s (next_he t0) = true) by (apply hlive_true; eauto).
  assert (Hl0 : hlive s t0 = true) by (rewrite <- (WF_next s t0 Hw Ht0); exact Hl1).
  assert (Hl2 : hlive s (next_he (next_he t0)) = true).
  { rewrite WF_next; auto using next_he_nonneg. }
  assert (P2 : 0 <= p2).
  { apply hlive_true in Hl2; destruct Hl2 as [q [Hq Hq0]]; congruence. }
  assert (Y0 : 0 <= y).
  { apply hlive_true in Hl0; destruct Hl0 as [q [Hq Hq0]]; congruence. }
  destruct (Hok _ _ Hp1 P1) as [S1 Q1]. destruct (Hok _ _ Hp2 P2) as [S2 Q2].
  destruct (Hok _ _ Hy Y0) as [S0 Q0].
  assert (N1 : p1 <> t0).
  { intros ->. rewrite Hy in Q1. inversion Q1; subst y. apply Hnf; right; left; reflexivity. }
  assert (N2 : p2 <> t0).
  { intros ->. rewrite Hy in Q2. inversion Q2; subst y. apply Hnf; right; right; reflexivity. }
  destruct (collapse_tri_core s t0 p1 p2 s' Hw Ht0 Hp1 Hne Hp2 (Hok _) (Hok _) N1 N2 H)
    as [_ [Hw' [HL [Hsame Hc]]]].
  split; [exact Hw'|split].
  - intros e Hne'. apply Hc; [apply Hok|].
    intros He. assert (0 <= t0) as T by assumption.
    destruct (Hok _ _ He T) as [_ Q]. congruence.
  - intros q Hq.
    assert (Hq' : h_pair s' y = h_pair s y).
    { apply Hsame.
      - apply in_faceb_false; exact Hnf.
      - intros ->. rewrite Q0 in Q1. inversion Q1. pose proof (next_he_ne t0 Ht0); lia.
      - intros ->. rewrite Q0 in Q2. inversion Q2. pose proof (next_he_ne t0 Ht0); lia. }
    rewrite Hq', Q0 in Hq. inversion Hq; subst q.
    rewrite HL. unfold in_faceb; rewrite Z.eqb_refl; reflexivity.
Qed.

(* second CollapseTri: the exception itself is removed *)
Lemma collapse_tri_inv_second : forall s t0 s',
  Inv t0 s -> 0 <= t0 ->
  collapse_tri s (tri_of t0) = Some s' ->
  PairInv s' /\ mono s s' /\ slots s' = slots s.
Proof.
  intros s t0 s' [Hw [Hok Hx]] Ht0 H.
  pose proof (next_he_ne t0 Ht0) as [D1 D2].
  destruct (collapse_tri_live s t0 s' Hw Ht0 (Hok _ D1) (Hok _ D2) H) as [L [Hm _]].
  split; [|split; assumption].
  destruct (h_pair s (next_he t0)) as [p1|] eqn:Hp1;
    [|unfold tri_of, collapse_tri in H; rewrite Hp1 in H; discriminate].
  destruct (Z.eq_dec p1 (-1)) as [->|Hne].
  { unfold tri_of, collapse_tri in H; rewrite Hp1 in H; cbn in H. inversion H; subst s'.
    assert (Hd : hlive s t0 = false).
    { rewrite <- (WF_next s t0 Hw Ht0). unfold hlive; rewrite Hp1; reflexivity. }
    eapply Inv_dead; [split; [exact Hw|split; [exact Hok|exact Hx]]|exact Hd]. }
  destruct (h_pair s (next_he (next_he t0))) as [p2|] eqn:Hp2;
    [|unfold tri_of, collapse_tri in H; rewrite Hp1 in H; cbn [bind] in H;
      destruct (p1 =? -1) eqn:B; [apply Z.eqb_eq in B; contradiction|];
      rewrite Hp2 in H; discriminate].
  destruct (WF_val _ _ _ Hw Hp1) as [?|P1]; [contradiction|].
  assert (Hl1 : hlive s (next_he t0) = true) by (apply hlive_true; eauto).
  assert (Hl2 : hlive s (next_he (next_he t0)) = true).
  { rewrite WF_next; auto using next_he_nonneg. }
  assert (P2 : 0 <= p2).
  { apply hlive_true in Hl2; destruct Hl2 as [q [Hq Hq0]]; congruence. }
  destruct (Hok _ D1 _ Hp1 P1) as [S1 Q1]. destruct (Hok _ D2 _ Hp2 P2) as [S2 Q2].
  assert (N1 : p1 <> t0).
  { intros ->. rewrite (Hx _ Q1) in Hl1; discriminate. }
  assert (N2 : p2 <> t0).
  { intros ->. rewrite (Hx _ Q2) in Hl2; discriminate. }
  destruct (collapse_tri_core s t0 p1 p2 s' Hw Ht0 Hp1 Hne Hp2 (Hok _ D1) (Hok _ D2) N1 N2 H)
    as [_ [Hw' [HL [Hsame Hc]]]].
  split; [exact Hw'|].
  intros e. destruct (Z.eq_dec e t0) as [->|Hne'].
  - intros p Hp Hp0. assert (hlive s' t0 = true) as A by (apply hlive_true; eauto).
    rewrite HL in A. unfold in_faceb in A; rewrite Z.eqb_refl in A; discriminate.
  - apply Hc; [apply Hok; exact Hne'|].
    intros He. destruct (Hok _ Hne' _ He Ht0) as [_ Q].
    assert (hlive s e = true) as A by (apply hlive_true; eauto).
    rewrite (Hx _ Q) in A; discriminate.
Qed.

(* the two CollapseTri of an edge whose halfedges lie in different faces *)
Theorem collapse_two_tris_pair_inv : forall s e p s1 s2,
  pair_inv s = true -> h_pair s e = Some p -> 0 <= p -> ~ in_face p e ->
  collapse_tri s (tri_of p) = Some s1 ->
  collapse_tri s1 (tri_of e) = Some s2 ->
  pair_inv s2 = true /\
  forall t, live_tri s t = false -> live_tri s2 t = false.
Proof.
  intros s e p s1 s2 Hi Hp Hp0 Hnf H1 H2.
  apply pair_inv_reflect in Hi. pose proof Hi as [Hw Hok].
  destruct (Hok _ _ Hp Hp0) as [_ Q].
  pose proof (h_pair_range _ _ _ Hp) as He.
  destruct (collapse_tri_inv_first s p e s1 Hi Hp0 Q Hnf H1) as [I1 [M1 _]].
  destruct (collapse_tri_inv_second s1 e s2 I1 ltac:(lia) H2) as [I2 [M2 _]].
  split; [apply pair_inv_reflect; exact I2|].
  apply mono_live_tri. eapply mono_trans; eauto.
Qed.
