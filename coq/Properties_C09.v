(* C09 — malformed input gives an error Status, never undefined behaviour.
   Only statements closed by `exact`, each followed by Print Assumptions.

   Model: Codec/IngestDefs.v (the MeshGL ingest constructor as a table of
   validation rungs and access-bearing statements, the table being regenerated
   from src/impl.h into Gen/Ladder.v on every run) and Codec/StatusDefs.v
   (status forwarding, table Gen/Status.v).
   Oracles: `manifoldOK` (does IsManifold() hold) and `nFaceSort` (faces in
   halfedge_ when SortGeometry gathers tangents) — quantified over. *)
From Coq Require Import ZArith List Bool String.
From MV Require Import Codec.IngestDefs Codec.IngestModel Codec.StatusDefs Codec.StatusModel.
From MV Require Gen.Ladder Gen.Status.
Import ListNotations.
Local Open Scope Z_scope.

(* Every subscript the constructor performs — whatever verdict it ends with —
   is in bounds, for EVERY table that passes the Boolean obligation
   ladder_table_safe ("each access-bearing statement is preceded by the rungs
   its bounds need"), every record with non-negative lengths whose element
   counts fit an int, and every oracle with nFaceSort <= NumTri (i.e. assuming
   CleanupTopology adds no faces before tangents are gathered). *)
Theorem ingest_in_bounds_any_verdict :
  forall (t : list item) (m : meshgl) (o : oracle),
    wf m -> small m -> nFaceSort o <= numTriI m ->
    ladder_table_safe t = true ->
    Forall in_bounds (accesses t m o).
Proof. exact table_safe_in_bounds. Qed.
Print Assumptions ingest_in_bounds_any_verdict.

(* The statement of the design: accepted records are accessed in bounds. *)
Theorem ingest_in_bounds :
  forall (t : list item) (m : meshgl) (o : oracle),
    wf m -> small m -> nFaceSort o <= numTriI m ->
    ladder_table_safe t = true ->
    ladder t m o = Accepted -> Forall in_bounds (accesses t m o).
Proof. exact (fun t m o Hw Hs Ho Ht _ => table_safe_in_bounds t m o Hw Hs Ho Ht). Qed.
Print Assumptions ingest_in_bounds.

(* The same for the table generated from the tree under check.  The hypothesis
   is evaluated by the check (Gen/LadderSafe.v): false on the pinned tree,
   true once hooks/fix_C09_1.patch and fix_C09_2.patch are applied. *)
Theorem ingest_in_bounds_current_tree :
  forall (m : meshgl) (o : oracle),
    wf m -> small m -> nFaceSort o <= numTriI m ->
    ladder_table_safe Gen.Ladder.table = true ->
    Forall in_bounds (accesses Gen.Ladder.table m o).
Proof. exact (table_safe_in_bounds Gen.Ladder.table). Qed.
Print Assumptions ingest_in_bounds_current_tree.

(* Without the hypothesis on the oracle: for every table that additionally records
   that DedupeEdge keeps halfedgeTangent_ as long as halfedge_ when it adds faces
   (ladder_table_safe_strong; translator reads src/edge_op.cpp), the bounds hold
   for EVERY number of faces at sort time. *)
Theorem ingest_in_bounds_all_face_counts :
  forall (t : list item) (m : meshgl) (o : oracle),
    wf m -> small m -> 0 <= nFaceSort o ->
    ladder_table_safe_strong t = true ->
    Forall in_bounds (accesses t m o).
Proof. exact table_safe_strong_in_bounds. Qed.
Print Assumptions ingest_in_bounds_all_face_counts.

(* The hypothesis nFaceSort <= NumTri is NOT discharged by the code before
   hooks/fix_C09_14.patch: a 2 x 3 torus grid (12 triangles, tangents of the right
   length) is accepted, DedupeEdge adds 6 faces (oracle value replayed from the
   implementation by the harness) and the tangent gather reads [0,54) of 36.
   With the fix the same record is in bounds. *)
Theorem face_count_hypothesis_refuted :
  ladder_table_safe patched_table = true /\ ladder_table_safe_strong patched_table = false /\
  ladder patched_table w_torus o_torus = Accepted /\ numTriI w_torus = 12 /\
  first_oob (accesses patched_table w_torus o_torus) = Some (AccRange ATangentInternal 0 54 36) /\
  first_oob (accesses patched14_table w_torus o_torus) = None.
Proof. exact torus_refuted. Qed.
Print Assumptions face_count_hypothesis_refuted.

(* entry-time cancel wins over everything else *)
Theorem cancel_first_wins :
  forall (t : list item) (m : meshgl) (o : oracle) (e : error),
    cancelled o = true -> ladder (ICancelGate e :: t) m o = Done e.
Proof. exact cancel_first. Qed.
Print Assumptions cancel_first_wins.

(* The constructor with the proposed rungs (table = what the translator reads
   from the patched source) is safe, unconditionally on the table. *)
Theorem ingest_in_bounds_patched :
  forall (m : meshgl) (o : oracle),
    wf m -> small m -> nFaceSort o <= numTriI m ->
    Forall in_bounds (accesses patched_table m o).
Proof. exact (fun m o Hw Hs Ho => table_safe_in_bounds patched_table m o Hw Hs Ho patched_table_safe). Qed.
Print Assumptions ingest_in_bounds_patched.

(* hypotheses are satisfiable and the accepted path is non-trivial: a cube *)
Example ingest_example_cube :
  wf cube_mesh /\ small cube_mesh /\ ladder patched_table cube_mesh o_cube = Accepted /\
  ladder pinned_table cube_mesh o_cube = Accepted /\
  List.length (accesses patched_table cube_mesh o_cube) = 174%nat.
Proof. exact example_cube. Qed.

(* On the pinned tree (table as read from src/impl.h at the pinned commit) the
   statement is FALSE.  Four witnesses, each replayed under ASan/UBSan by
   checks/C09.py:  runIndex = {0, size+3000} writes past triRef;
   halfedgeTangent.size() = 8 is read out of bounds in ReindexFace (sort.cpp:72);
   runIndex empty with two runOriginalIDs reads runIndex[2] of {0,end};
   numProp = 0 divides by zero in NumVert(). *)
Theorem ingest_in_bounds_refuted :
  exists (m : meshgl) (o : oracle),
    wf m /\ small m /\ nFaceSort o <= numTriI m /\
    ladder pinned_table m o = Accepted /\ ~ Forall in_bounds (accesses pinned_table m o).
Proof. exact (ex_intro _ w_runindex (ex_intro _ o_cube pinned_refuted_runindex)). Qed.
Print Assumptions ingest_in_bounds_refuted.

Theorem ingest_in_bounds_refuted_tangent :
  exists (m : meshgl) (o : oracle),
    wf m /\ small m /\ nFaceSort o <= numTriI m /\
    ladder pinned_table m o = Accepted /\ ~ Forall in_bounds (accesses pinned_table m o).
Proof. exact (ex_intro _ w_tangent (ex_intro _ o_cube pinned_refuted_tangent)). Qed.
Print Assumptions ingest_in_bounds_refuted_tangent.

Theorem ingest_in_bounds_refuted_runs_without_index :
  exists (m : meshgl) (o : oracle),
    wf m /\ small m /\ nFaceSort o <= numTriI m /\
    ladder pinned_table m o = Accepted /\ ~ Forall in_bounds (accesses pinned_table m o).
Proof. exact (ex_intro _ w_runs_noindex (ex_intro _ o_cube pinned_refuted_runs_noindex)). Qed.
Print Assumptions ingest_in_bounds_refuted_runs_without_index.

Theorem ingest_numprop_zero_refuted :
  exists (m : meshgl) (o : oracle),
    wf m /\ small m /\ ~ Forall in_bounds (accesses pinned_table m o).
Proof. exact (ex_intro _ w_numprop0 (ex_intro _ o_cube pinned_refuted_numprop0)). Qed.
Print Assumptions ingest_numprop_zero_refuted.

Theorem pinned_table_fails_obligation : ladder_table_safe pinned_table = false.
Proof. exact pinned_table_unsafe. Qed.
Print Assumptions pinned_table_fails_obligation.

(* ladder_total: every record gets exactly one verdict, and it is the one of the
   FIRST table item that fires: Done e iff some item returns e in the state
   reached after all earlier items passed; Accepted iff no item fires. *)
Theorem ladder_total :
  forall (t : list item) (m : meshgl) (o : oracle),
    match ladder t m o with
    | Done e => exists pre it post sp,
        t = pre ++ it :: post /\
        Forall2 (fun it' s' => fires it' m o s' = None) pre (firstn (List.length pre) (states t m o (st0 m))) /\
        nth_error (states t m o (st0 m)) (List.length pre) = Some sp /\ fires it m o sp = Some e
    | Accepted => Forall2 (fun it' s' => fires it' m o s' = None) t (states t m o (st0 m))
    end.
Proof. exact (fun t m o => run_first_firing t m o (st0 m)). Qed.
Print Assumptions ladder_total.

(* for the pure validation prefix: the verdict is the first rung (in source
   order) whose condition holds *)
Theorem ladder_rungs_first_wins :
  forall (rs : list (rung * error)) (m : meshgl) (o : oracle) (s : st),
    fst (run (map (fun re => IRung (fst re) (snd re)) rs) m o s) = first_rung rs m s.
Proof. exact rungs_only_first. Qed.
Print Assumptions ladder_rungs_first_wins.

(* error_absorbing: for every table of forwarding kinds, every program whose
   calls all name methods that forward (the Boolean uses_forwarding; on the
   generated table it holds for every method when status_table_ok is true),
   whose inputs / operation results are empty whenever they carry an error
   (MakeEmpty), and in which some input or some operation result carries an
   error: the final object carries an error and has no triangles. *)
Theorem error_absorbing :
  forall (tbl : list (string * fwd)) (p : prog),
    uses_forwarding tbl p = true -> prog_ok p -> errored p = true ->
    is_err (eval tbl p) = true /\ ontri (eval tbl p) = 0.
Proof. exact absorbing. Qed.
Print Assumptions error_absorbing.

Example error_absorbing_example :
  let tbl := [("Translate"%string, FwdNode); ("Boolean"%string, FwdNode); ("Refine"%string, FwdCheck)] in
  let bad := Input (mkObj RunIndexWrongLength 0) in
  let good := Input (mkObj NoError 12) in
  let p := Call "Refine" [Call "Boolean" [good; Call "Translate" [bad] (mkObj NoError 12)] (mkObj NoError 30)] (mkObj NoError 120) in
  uses_forwarding tbl p = true /\ errored p = true /\ eval tbl p = mkObj RunIndexWrongLength 0.
Proof. exact example_absorbing. Qed.
